(* C20 -- Attribute access returns the right member whatever was looked up before.
   Statements only; proofs live in Proofs/AttrCacheProofs.v.
   Model/AttrCache.v mirrors getAttribute, attributeCache, evictLRUEntries and the string-key part of
   getItem in render.go; Spec/AttrSpec.v is the declarative reading of the property;
   Gen/AttrConsts.v carries maxSize, the number of entries to evict and the accounting shape, re-read
   from render.go by the translator on every run. *)
From Coq Require Import Permutation.
From Twig Require Import Base.Bytes Gen.AttrConsts Model.AttrCache Spec.AttrSpec Proofs.AttrCacheProofs.

(* The attribute cache and its eviction are unobservable: after every history of earlier lookups (any
   values, any names, any length, in particular more distinct (type, name) pairs than the cache holds)
   and whatever order the eviction sorts the entries into (every oracle, not only permutations), the
   next lookup returns what the uncached computation returns. *)
Theorem C20_cache_transparent :
  forall (orc : attr_oracle) (hist : list attr_step) (a : attr_access) (v : attr_val) (name : bytes),
    snd (attr_lookup orc (attr_run orc hist attr_cache_empty) a v name) = attr_resolve a v name.
Proof. exact C20_cache_transparent_proof. Qed.

(* the same for every answer given along a history *)
Theorem C20_history_answers :
  forall (orc : attr_oracle) (hist : list attr_step),
    attr_run_answers orc hist attr_cache_empty =
    map (fun s => attr_resolve (fst (fst s)) (snd (fst s)) (snd s)) hist.
Proof. exact C20_history_answers_proof. Qed.

(* The uncached computation is the specification: map key | exported field, promoted ones included, by
   the selector rule of the language | zero-argument method of the dynamic type | empty.  Guards: method
   names of a type are pairwise different (Go guarantees it), and either the access is not a dot access on a
   typed map or getAttribute hands typed maps to getItem (attr_typed_maps_by_key, read from render.go by
   the translator); without that branch the class is a real difference (next theorem). *)
Theorem C20_resolve_is_spec :
  forall (a : attr_access) (v : attr_val) (name : bytes),
    attr_typed_map_dot a v = false \/ attr_typed_maps_by_key = true -> attr_meths_wf v ->
    attr_resolve a v name = attr_spec_lookup a v name.
Proof. exact C20_resolve_is_spec_proof. Qed.

(* faithful first: as long as getAttribute does not hand typed maps to getItem (flag read by the
   translator), x.k on a map[string]string gives nothing although x[k] gives the value *)
Theorem C20_resolve_refuted_typed_map :
  attr_typed_maps_by_key = false ->
  exists (v : attr_val) (name : bytes),
    attr_typed_map_dot ADot v = true /\
    attr_resolve ADot v name = AVNil /\ attr_spec_lookup ADot v name = AVStr b#"v" /\
    attr_resolve AIndex v name = AVStr b#"v".
Proof. exact C20_resolve_refuted_typed_map_proof. Qed.

(* the breadth-first field search of the model is the selector rule of the specification, and trying
   the depths up to the depth of the type loses nothing *)
Theorem C20_field_search_is_selector_rule :
  (forall t name, attr_field_by_name t name = attr_spec_promoted t name) /\
  (forall name d fs, attr_flds_depth fs < d -> attr_spec_at d name fs = []).
Proof. exact (conj attr_field_by_name_is_promoted attr_spec_at_beyond_depth). Qed.

(* what the translator read in render.go satisfies the side conditions of the accounting theorem *)
Theorem C20_cache_consts : attr_accounting_ok = true.
Proof. exact C20_cache_consts_proof. Qed.

(* size accounting: when eviction sorts the entries (a permutation of the keys), currSize is the number
   of entries and never exceeds maxSize, after every history *)
Theorem C20_cache_bounded :
  forall (orc : attr_oracle), attr_oracle_sorts orc ->
  forall (hist : list attr_step),
    let c := attr_run orc hist attr_cache_empty in
    ach_size c = Z.of_nat (attr_cache_len c) /\ (Z.of_nat (attr_cache_len c) <= attr_max_size)%Z.
Proof. exact C20_cache_bounded_proof. Qed.

(* ---------------------------------------------------------------- non-vacuity *)

Definition ex_inner : attr_sty :=
  ASty 1 (AFCons b#"Name" true AKPlain (AFCons b#"deep" false AKPlain AFNil))
       [AMeth b#"Hello" false 0 (AMRStr b#"hello")].
Definition ex_outer : attr_sty :=
  ASty 2 (AFCons b#"Inner" true (AKEmbed false ex_inner) (AFCons b#"Title" true AKPlain AFNil))
       [AMeth b#"Arg" false 1 (AMRStr b#"arg");
        AMeth b#"Hello" false 0 (AMRStr b#"hello");
        AMeth b#"PtrTitle" true 0 (AMRPath [1])].
Definition ex_outer_ptr : attr_sty :=
  ASty 3 (AFCons b#"Base" true (AKEmbed true ex_inner) (AFCons b#"Name2" true AKPlain AFNil)) [].
Definition ex_amb : attr_sty :=
  ASty 0 (AFCons b#"A" true (AKEmbed false ex_inner)
         (AFCons b#"B" true (AKEmbed false (ASty 0 (AFCons b#"Name" true AKPlain AFNil) [])) AFNil)) [].
Definition ex_inner_v : attr_val := AVStruct ex_inner [AVStr b#"in"; AVInt 7].
Definition ex_outer_v : attr_val := AVStruct ex_outer [ex_inner_v; AVStr b#"t"].

(* embedded struct: the promoted field, not the embedded struct *)
Example C20_example_promoted :
  attr_resolve ADot ex_outer_v b#"Name" = AVStr b#"in" /\
  attr_resolve ADot (AVPtr ex_outer_v) b#"Name" = AVStr b#"in" /\
  attr_resolve ADot ex_outer_v b#"Inner" = ex_inner_v /\
  attr_resolve ADot ex_outer_v b#"deep" = AVNil /\
  attr_spec_lookup ADot ex_outer_v b#"Name" = AVStr b#"in".
Proof. repeat split; vm_compute; reflexivity. Qed.

(* embedded by pointer: through the pointer, nothing behind a nil pointer *)
Example C20_example_embedded_pointer :
  attr_resolve ADot (AVStruct ex_outer_ptr [AVPtr ex_inner_v; AVStr b#"n2"]) b#"Name" = AVStr b#"in" /\
  attr_resolve ADot (AVStruct ex_outer_ptr [AVNilPtr; AVStr b#"n2"]) b#"Name" = AVNil.
Proof. repeat split; vm_compute; reflexivity. Qed.

(* pointer receiver on a value and on a pointer, promoted value method, one-argument method *)
Example C20_example_methods :
  attr_resolve ADot ex_outer_v b#"PtrTitle" = AVStr b#"t" /\
  attr_resolve ADot (AVPtr ex_outer_v) b#"PtrTitle" = AVStr b#"t" /\
  attr_resolve ADot ex_outer_v b#"Hello" = AVStr b#"hello" /\
  attr_resolve ADot ex_outer_v b#"Arg" = AVNil.
Proof. repeat split; vm_compute; reflexivity. Qed.

(* two fields of the same name at the same depth annihilate each other *)
Example C20_example_ambiguous :
  attr_resolve ADot (AVStruct ex_amb [ex_inner_v; AVStruct (ASty 0 (AFCons b#"Name" true AKPlain AFNil) []) [AVStr b#"other"]]) b#"Name" = AVNil.
Proof. vm_compute. reflexivity. Qed.

(* maps: key by dot and by index on a generic map; nil pointers and nil give nothing *)
Example C20_example_maps :
  attr_resolve ADot (AVMap true [(b#"k", AVInt 3)]) b#"k" = AVInt 3 /\
  attr_resolve AIndex (AVMap true [(b#"k", AVInt 3)]) b#"k" = AVInt 3 /\
  attr_resolve AIndex (AVMap false [(b#"k", AVInt 3)]) b#"k" = AVInt 3 /\
  attr_resolve ADot (AVMap true [(b#"k", AVInt 3)]) b#"z" = AVNil /\
  attr_resolve ADot AVNilPtr b#"k" = AVNil.
Proof. repeat split; vm_compute; reflexivity. Qed.

(* a history with more distinct (type, name) pairs than the cache holds: 1100 struct types.  The cache
   is full (eviction has run), an evicted pair is answered correctly again, and the next new pair
   triggers the eviction of attr_num_to_evict entries. *)
Definition ex_flood_ty (i : nat) : attr_sty := ASty (N.of_nat i) (AFCons b#"A" true AKPlain AFNil) [].
Definition ex_flood_val (i : nat) : attr_val := AVStruct (ex_flood_ty i) [AVInt (Z.of_nat i)].
Definition ex_flood_hist : list attr_step := map (fun i => (ADot, ex_flood_val i, b#"A")) (seq 1 1100).

Example C20_example_flood :
  let c := attr_run attr_oracle_front ex_flood_hist attr_cache_empty in
  attr_cache_len c = 1000 /\ ach_size c = 1000%Z /\
  attr_m_get (ex_flood_ty 1100, b#"A") (ach_m c) <> None /\
  attr_m_get (ex_flood_ty 950, b#"A") (ach_m c) = None /\
  snd (attr_lookup attr_oracle_front c ADot (ex_flood_val 950) b#"A") = AVInt 950 /\
  attr_cache_len (fst (attr_lookup attr_oracle_front c ADot (ex_flood_val 950) b#"A")) = 901.
Proof. vm_compute. repeat split; try reflexivity. discriminate. Qed.

Print Assumptions C20_cache_transparent.
Print Assumptions C20_history_answers.
Print Assumptions C20_resolve_is_spec.
Print Assumptions C20_resolve_refuted_typed_map.
Print Assumptions C20_field_search_is_selector_rule.
Print Assumptions C20_cache_consts.
Print Assumptions C20_cache_bounded.
