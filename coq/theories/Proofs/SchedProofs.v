(* Proofs for C02 over the interleaving machine of Model/Sched.v. *)
From Coq Require Import ZifyBool ZifyNat ZifyN.
From Twig Require Import Base.Bytes Gen.LockMap Model.Sched Spec.SchedSpec.

(* ================================================================== 1. the invariant: cache within graph (parse o load) *)

(* a cache entry for n holds the parse of THE source of n; one that came from a loader is for a name the loaders have *)
Definition sc_entry_ok (w : sc_world) (n : bytes) (e : sc_entry) : Prop :=
  exists s, sc_src_of w n = Some s /\ sc_parse s = Some (en_tpl e) /\ en_name e = sc_name_of w n /\
            (en_loader e <> None -> sc_loaders_src (w_loaders w) n = Some s /\ assoc_bytes (w_regt w) n = None).

(* what a step is told by GetModifiedTime *)
Definition sc_stat_of (w : sc_world) (i : nat) (n : bytes) : option Z :=
  match nth_error (w_loaders w) i with
  | Some l => if ld_fs l then sc_loader_mtime l n else None
  | None => None
  end.

(* an entry left over from an earlier phase whose file has changed since: every Load that meets it reads the
   loaders again (caching is off, or auto-reload is on and the loader reports a later modification time) *)
Definition sc_entry_stale (w : sc_world) (n : bytes) (e : sc_entry) : Prop :=
  assoc_bytes (w_reg w) n = None /\ assoc_bytes (w_regt w) n = None /\
  exists li, en_loader e = Some li /\
    (w_cache w = false \/
     (w_auto w = true /\ sc_loader_ts w li = true /\
      match sc_stat_of w li n with Some t => Z.gtb t (en_mtime e) = true | None => True end)).

Definition sc_entry_fine (w : sc_world) (n : bytes) (e : sc_entry) : Prop := sc_entry_ok w n e \/ sc_entry_stale w n e.

(* the memo of a FileSystemLoader remembers where the search finds the file *)
Definition sc_memo_ok (l : sc_loader) (memo : list (bytes * nat)) : Prop :=
  forall n d, assoc_bytes memo n = Some d -> exists f, sc_loader_find l n = Some (d, f).

Record sc_inv (w : sc_world) (sh : sc_shared) : Prop := mk_sc_inv {
  inv_cache : forall n e, assoc_bytes (sh_cache sh) n = Some e -> sc_entry_fine w n e;
  inv_reg : forall n, assoc_bytes (w_reg w) n <> None \/ assoc_bytes (w_regt w) n <> None -> assoc_bytes (sh_cache sh) n <> None;
  inv_memo : forall i l, nth_error (w_loaders w) i = Some l -> sc_memo_ok l (nth i (sh_memo sh) []);
  inv_attr : forall ty a e, sc_attr_lookup (sh_attrs sh) ty a = Some e -> e = sc_attr_resolve w ty a
}.

(* what a step may be told in a state satisfying the invariant *)
Definition sc_resp_ok (w : sc_world) (op : sc_op) (a : sc_resp) : Prop :=
  match op with
  | ScOpCacheRead n =>
      exists o, a = ScRCache o /\
                match o with Some e => sc_entry_fine w n e
                           | None => assoc_bytes (w_reg w) n = None /\ assoc_bytes (w_regt w) n = None end
  | ScOpLoaderRead _ i n =>
      a = ScRSrc (match nth_error (w_loaders w) i with Some l => sc_loader_get l n | None => None end)
  | ScOpLoaderStat i n => a = ScRStat (sc_stat_of w i n)
  | ScOpLoaderExists i n =>
      a = ScRBool (match nth_error (w_loaders w) i with
                   | Some l => match sc_loader_get l n with Some _ => true | None => false end
                   | None => false end)
  | ScOpAttrRead ty a' => exists o, a = ScRAttr o /\ (o = None \/ o = Some (sc_attr_resolve w ty a'))
  | ScOpAttrFill ty a' => a = ScRAttr (Some (sc_attr_resolve w ty a'))
  | _ => True
  end.

(* what a step must satisfy to keep the invariant *)
Definition sc_op_wf (w : sc_world) (op : sc_op) : Prop :=
  match op with ScOpCacheWrite _ n e => sc_entry_ok w n e | _ => True end.

Lemma sc_find_dir_at dirs k : forall d0 d f,
  sc_find_dir dirs k d0 = Some (d, f) ->
  exists j dir, d = d0 + j /\ nth_error dirs j = Some dir /\ assoc_bytes dir k = Some f.
Proof.
  induction dirs as [|dir r IH]; intros d0 d f H; simpl in H; [discriminate|].
  destruct (assoc_bytes dir k) as [f'|] eqn:E.
  - inversion H; subst. exists 0, dir. split; [lia|split; [reflexivity|exact E]].
  - apply IH in H. destruct H as [j [dir' [Hd [Hn Ha]]]]. exists (S j), dir'. split; [lia|split; [exact Hn|exact Ha]].
Qed.

Lemma sc_find_file_at l n d f : sc_loader_find l n = Some (d, f) -> sc_file_at l d n = Some f.
Proof.
  unfold sc_loader_find, sc_file_at. destruct (sc_key_ok l (sc_loader_key l n)); [|discriminate].
  intro H. apply sc_find_dir_at in H. destruct H as [j [dir [Hd [Hn Ha]]]]. simpl in Hd. subst d. rewrite Hn. exact Ha.
Qed.

Lemma sc_fs_lookup_spec l memo n :
  sc_memo_ok l memo ->
  fst (sc_fs_lookup l memo n) = match sc_loader_find l n with Some (_, f) => Some f | None => None end
  /\ sc_memo_ok l (snd (sc_fs_lookup l memo n)).
Proof.
  intro Hm. unfold sc_fs_lookup.
  destruct (assoc_bytes memo n) as [d|] eqn:Em.
  - destruct (Hm _ _ Em) as [f Hf]. rewrite (sc_find_file_at _ _ _ _ Hf). simpl. rewrite Hf. split; [reflexivity|exact Hm].
  - destruct (sc_loader_find l n) as [[d f]|] eqn:Ef; simpl; (split; [reflexivity|]); [|exact Hm].
    intros n' d' H. simpl in H. destruct (bytes_eqb n n') eqn:En.
    + apply bytes_eqb_eq in En. subst n'. inversion H; subst. exists f. exact Ef.
    + apply Hm in H. exact H.
Qed.

(* while the memo is right about where the files are, GetModifiedTime is the lookup's time stamp *)
Lemma sc_fs_stat_lookup l memo n :
  sc_memo_ok l memo ->
  sc_fs_stat l memo n = (option_map fl_mtime (fst (sc_fs_lookup l memo n)), snd (sc_fs_lookup l memo n)).
Proof.
  intro Hm. unfold sc_fs_stat, sc_fs_lookup.
  destruct (assoc_bytes memo n) as [d|] eqn:Em.
  - destruct (Hm _ _ Em) as [f Hf]. rewrite (sc_find_file_at _ _ _ _ Hf). reflexivity.
  - destruct (sc_loader_find l n) as [[d f]|]; reflexivity.
Qed.

Lemma sc_nth_upd_nth {A} (l : list A) i j x dflt :
  nth j (sc_upd_nth l i x) dflt = nth j l dflt \/ nth j (sc_upd_nth l i x) dflt = x.
Proof.
  revert i j. induction l as [|a r IH]; intros i j; simpl.
  - left. reflexivity.
  - destruct i as [|i]; destruct j as [|j]; simpl; auto.
Qed.

Lemma sc_nth_upd_nth_same {A} (l : list A) i x dflt :
  nth i (sc_upd_nth l i x) dflt = x \/ (length l <= i /\ sc_upd_nth l i x = l).
Proof.
  revert i. induction l as [|a r IH]; intros i; simpl.
  - right. split; [lia|reflexivity].
  - destruct i as [|i]; simpl; [left; reflexivity|].
    destruct (IH i) as [H|[H1 H2]]; [left; exact H|right]. split; [lia|rewrite H2; reflexivity].
Qed.

Lemma sc_nth_upd_nth_other {A} (l : list A) i j x dflt :
  i <> j -> nth j (sc_upd_nth l i x) dflt = nth j l dflt.
Proof.
  revert i j. induction l as [|a r IH]; intros i j Hij; simpl; [reflexivity|].
  destruct i as [|i]; destruct j as [|j]; simpl; try reflexivity; try lia. apply IH. lia.
Qed.

Lemma sc_memo_upd w sh i l n :
  sc_inv w sh -> nth_error (w_loaders w) i = Some l ->
  forall j l', nth_error (w_loaders w) j = Some l' ->
  sc_memo_ok l' (nth j (sc_upd_nth (sh_memo sh) i (snd (sc_fs_lookup l (nth i (sh_memo sh) []) n))) []).
Proof.
  intros Hinv Hl j l' Hl'.
  destruct (Nat.eq_dec i j) as [->|Hne].
  - rewrite Hl in Hl'. inversion Hl'; subst l'.
    destruct (sc_nth_upd_nth_same (sh_memo sh) j (snd (sc_fs_lookup l (nth j (sh_memo sh) []) n)) []) as [H|[_ H]].
    + rewrite H. apply sc_fs_lookup_spec. apply (inv_memo _ _ Hinv _ _ Hl).
    + rewrite H. apply (inv_memo _ _ Hinv _ _ Hl).
  - rewrite sc_nth_upd_nth_other by exact Hne. apply (inv_memo _ _ Hinv _ _ Hl').
Qed.

Lemma sc_exec_ok w op sh :
  sc_inv w sh -> sc_op_wf w op ->
  sc_inv w (fst (sc_exec w op sh)) /\ sc_resp_ok w op (snd (sc_exec w op sh)).
Proof.
  intros Hinv Hwf. destruct op as [n|site n e|fs i n|i n|i n|s|s|ty a|ty a|ty a| |n]; simpl.
  - (* cache read *)
    split; [exact Hinv|]. exists (assoc_bytes (sh_cache sh) n). split; [reflexivity|].
    destruct (assoc_bytes (sh_cache sh) n) as [e|] eqn:E.
    + apply (inv_cache _ _ Hinv _ _ E).
    + split.
      * destruct (assoc_bytes (w_reg w) n) eqn:Er; [|reflexivity].
        exfalso. apply (inv_reg _ _ Hinv n); [left; rewrite Er; discriminate|exact E].
      * destruct (assoc_bytes (w_regt w) n) eqn:Er; [|reflexivity].
        exfalso. apply (inv_reg _ _ Hinv n); [right; rewrite Er; discriminate|exact E].
  - (* cache write *)
    split; [|exact I]. constructor; simpl.
    + intros n' e' H. destruct (bytes_eqb n n') eqn:En.
      * apply bytes_eqb_eq in En. subst n'. inversion H; subst e'. left. exact Hwf.
      * apply (inv_cache _ _ Hinv _ _ H).
    + intros n' Hr. destruct (bytes_eqb n n'); [discriminate|]. apply (inv_reg _ _ Hinv _ Hr).
    + apply (inv_memo _ _ Hinv).
    + apply (inv_attr _ _ Hinv).
  - (* loader read *)
    destruct (nth_error (w_loaders w) i) as [l|] eqn:El; [|split; [exact Hinv|reflexivity]].
    destruct (ld_fs l) eqn:Efs; [|split; [exact Hinv|reflexivity]].
    destruct (sc_fs_lookup l (nth i (sh_memo sh) []) n) as [o memo'] eqn:Elk. simpl.
    pose proof (sc_fs_lookup_spec l (nth i (sh_memo sh) []) n (inv_memo _ _ Hinv _ _ El)) as [Hs1 Hs2].
    rewrite Elk in Hs1, Hs2. simpl in Hs1, Hs2. split.
    + constructor; simpl; try apply Hinv.
      intros j l' Hl'. pose proof (sc_memo_upd w sh i l n Hinv El j l' Hl') as H. rewrite Elk in H. exact H.
    + rewrite Hs1. unfold sc_loader_get. destruct (sc_loader_find l n) as [[d f]|]; reflexivity.
  - (* loader stat *)
    unfold sc_stat_of.
    destruct (nth_error (w_loaders w) i) as [l|] eqn:El; [|split; [exact Hinv|reflexivity]].
    destruct (ld_fs l) eqn:Efs; [|split; [exact Hinv|reflexivity]].
    rewrite (sc_fs_stat_lookup l (nth i (sh_memo sh) []) n (inv_memo _ _ Hinv _ _ El)).
    destruct (sc_fs_lookup l (nth i (sh_memo sh) []) n) as [o memo'] eqn:Elk. simpl.
    pose proof (sc_fs_lookup_spec l (nth i (sh_memo sh) []) n (inv_memo _ _ Hinv _ _ El)) as [Hs1 Hs2].
    rewrite Elk in Hs1, Hs2. simpl in Hs1, Hs2. split.
    + constructor; simpl; try apply Hinv.
      intros j l' Hl'. pose proof (sc_memo_upd w sh i l n Hinv El j l' Hl') as H. rewrite Elk in H. exact H.
    + rewrite Hs1. unfold sc_loader_mtime. destruct (sc_loader_find l n) as [[d f]|]; reflexivity.
  - (* exists *)
    destruct (nth_error (w_loaders w) i) as [l|]; (split; [exact Hinv|reflexivity]).
  - split; [exact Hinv|exact I].
  - split; [|exact I]. destruct (existsb (bytes_eqb s) (sh_strs sh)); [exact Hinv|].
    constructor; simpl; apply Hinv.
  - (* attr read *)
    split; [exact Hinv|]. exists (sc_attr_lookup (sh_attrs sh) ty a). split; [reflexivity|].
    destruct (sc_attr_lookup (sh_attrs sh) ty a) as [e|] eqn:E; [right|left; reflexivity].
    rewrite (inv_attr _ _ Hinv _ _ _ E). reflexivity.
  - split; [exact Hinv|exact I].
  - (* attr fill *)
    destruct (sc_attr_lookup (sh_attrs sh) ty a) as [e|] eqn:E; simpl.
    + split; [exact Hinv|]. rewrite (inv_attr _ _ Hinv _ _ _ E). reflexivity.
    + split; [|reflexivity]. constructor; simpl; try apply Hinv.
      intros ty' a' e' H. destruct (Nat.eqb ty ty' && bytes_eqb a a') eqn:Ek.
      * apply andb_true_iff in Ek. destruct Ek as [E1 E2]. apply Nat.eqb_eq in E1. apply bytes_eqb_eq in E2. subst.
        inversion H; reflexivity.
      * apply (inv_attr _ _ Hinv _ _ _ H).
  - split; [exact Hinv|exact I].
  - split; [|exact I]. constructor; simpl; apply Hinv.
Qed.

(* ---- the configured engine satisfies the invariant ---- *)
Lemma sc_init_cache_spec reg n e :
  assoc_bytes (sc_init_cache reg) n = Some e ->
  exists s, In (n, s) reg /\ sc_parse s = Some (en_tpl e) /\ en_loader e = None /\ en_name e = n.
Proof.
  induction reg as [|[n' s'] r IH]; simpl; [discriminate|].
  destruct (sc_parse s') as [t|] eqn:Ep; simpl.
  - destruct (bytes_eqb n' n) eqn:En.
    + intro H. inversion H; subst e. apply bytes_eqb_eq in En. subst n'. exists s'. simpl. auto.
    + intro H. destruct (IH H) as [s [Hi Hr]]. exists s. split; [right; exact Hi|exact Hr].
  - intro H. destruct (IH H) as [s [Hi Hr]]. exists s. split; [right; exact Hi|exact Hr].
Qed.

Lemma sc_init_cache_t_spec reg n e :
  assoc_bytes (sc_init_cache_t reg) n = Some e ->
  exists s, In (n, s) reg /\ sc_parse s = Some (en_tpl e) /\ en_loader e = None /\ en_name e = [].
Proof.
  induction reg as [|[n' s'] r IH]; simpl; [discriminate|].
  destruct (sc_parse s') as [t|] eqn:Ep; simpl.
  - destruct (bytes_eqb n' n) eqn:En.
    + intro H. inversion H; subst e. apply bytes_eqb_eq in En. subst n'. exists s'. simpl. auto.
    + intro H. destruct (IH H) as [s [Hi Hr]]. exists s. split; [right; exact Hi|exact Hr].
  - intro H. destruct (IH H) as [s [Hi Hr]]. exists s. split; [right; exact Hi|exact Hr].
Qed.

Lemma sc_init_cache_has reg n :
  (forall n' s', In (n', s') reg -> sc_parse s' <> None) ->
  assoc_bytes reg n <> None -> assoc_bytes (sc_init_cache reg) n <> None.
Proof.
  induction reg as [|[n' s'] r IH]; simpl; intros Hp H; [exfalso; apply H; reflexivity|].
  destruct (sc_parse s') as [t|] eqn:Ep.
  - simpl. destruct (bytes_eqb n' n); [discriminate|]. apply IH; [intros; eapply Hp; right; eassumption|exact H].
  - exfalso. apply (Hp n' s'); [left; reflexivity|exact Ep].
Qed.

Lemma sc_init_cache_t_has reg n :
  (forall n' s', In (n', s') reg -> sc_parse s' <> None) ->
  assoc_bytes reg n <> None -> assoc_bytes (sc_init_cache_t reg) n <> None.
Proof.
  induction reg as [|[n' s'] r IH]; simpl; intros Hp H; [exfalso; apply H; reflexivity|].
  destruct (sc_parse s') as [t|] eqn:Ep.
  - simpl. destruct (bytes_eqb n' n); [discriminate|]. apply IH; [intros; eapply Hp; right; eassumption|exact H].
  - exfalso. apply (Hp n' s'); [left; reflexivity|exact Ep].
Qed.

Lemma sc_assoc_app {A} (a b : list (bytes * A)) n :
  assoc_bytes (a ++ b) n = match assoc_bytes a n with Some x => Some x | None => assoc_bytes b n end.
Proof.
  induction a as [|[k v] r IH]; simpl; [reflexivity|]. destruct (bytes_eqb k n); [reflexivity|exact IH].
Qed.

Lemma sc_in_assoc {A} (l : list (bytes * A)) n v : In (n, v) l -> assoc_bytes l n <> None.
Proof.
  induction l as [|[k x] r IH]; simpl; [contradiction|]. intros [H|H].
  - inversion H; subst. rewrite bytes_eqb_refl. discriminate.
  - destruct (bytes_eqb k n); [discriminate|apply IH; exact H].
Qed.

Lemma sc_nth_map_nil {A B} (l : list A) i : nth i (map (fun _ => @nil B) l) [] = [].
Proof. revert i. induction l; intros [|i]; simpl; auto. Qed.

Lemma sc_init_inv w : sc_world_ok w -> sc_inv w (sc_init_shared w).
Proof.
  intros [Hw Hwt]. constructor; simpl.
  - intros n e H. left. rewrite sc_assoc_app in H.
    destruct (assoc_bytes (sc_init_cache (w_reg w)) n) as [e0|] eqn:E0.
    + inversion H; subst e0. apply sc_init_cache_spec in E0. destruct E0 as [s [Hi [Hp [Hl Hn]]]].
      destruct (Hw _ _ Hi) as [Hs [_ Hnt]]. exists s. split; [exact Hs|split; [exact Hp|split]].
      * unfold sc_name_of. rewrite Hnt. exact Hn.
      * intro C. rewrite Hl in C. contradiction.
    + apply sc_init_cache_t_spec in H. destruct H as [s [Hi [Hp [Hl Hn]]]].
      destruct (Hwt _ _ Hi) as [Hs _]. exists s. split; [exact Hs|split; [exact Hp|split]].
      * unfold sc_name_of. pose proof (sc_in_assoc _ _ _ Hi) as Hne.
        destruct (assoc_bytes (w_regt w) n); [exact Hn|contradiction Hne; reflexivity].
      * intro C. rewrite Hl in C. contradiction.
  - intros n H. rewrite sc_assoc_app.
    destruct (assoc_bytes (sc_init_cache (w_reg w)) n) eqn:E0; [discriminate|].
    destruct H as [H|H].
    + exfalso. revert E0. apply sc_init_cache_has; [|exact H]. intros n' s' Hi. apply (Hw _ _ Hi).
    + apply sc_init_cache_t_has; [|exact H]. intros n' s' Hi. apply (Hwt _ _ Hi).
  - intros i l _. rewrite sc_nth_map_nil. intros n d H. discriminate.
  - intros ty a e H. discriminate.
Qed.

(* ================================================================== 2. programs whose result does not depend on the answers *)

Inductive sc_detv {R : Type} (w : sc_world) (r : R) : sc_prog R -> Prop :=
| ScDRet : sc_detv w r (ScRet r)
| ScDStep (op : sc_op) (k : sc_resp -> sc_prog R) :
    sc_op_wf w op -> (forall a, sc_resp_ok w op a -> sc_detv w r (k a)) -> sc_detv w r (ScStep op k).

Definition sc_det {R : Type} (w : sc_world) (p : sc_prog R) : Prop := exists r, sc_detv w r p.

Lemma sc_detv_bind {A B} w (a : A) (b : B) (p : sc_prog A) (f : A -> sc_prog B) :
  sc_detv w a p -> sc_detv w b (f a) -> sc_detv w b (sc_bind p f).
Proof.
  intros Hp Hf. induction Hp as [|op k Hwf Hk IH]; simpl; [exact Hf|].
  apply ScDStep; [exact Hwf|]. intros x Hx. apply IH. exact Hx.
Qed.

Lemma sc_det_bind {A B} w (p : sc_prog A) (f : A -> sc_prog B) :
  sc_det w p -> (forall a, sc_det w (f a)) -> sc_det w (sc_bind p f).
Proof.
  intros [a Ha] Hf. destruct (Hf a) as [b Hb]. exists b. eapply sc_detv_bind; eassumption.
Qed.

Lemma sc_det_ret {R} w (r : R) : sc_det w (ScRet r).
Proof. exists r. constructor. Qed.

Lemma sc_detv_intern {R} w (r : R) ss k : sc_detv w r k -> sc_detv w r (sc_intern_list ss k).
Proof.
  intro Hk. induction ss as [|s ss IH]; simpl; [exact Hk|].
  apply ScDStep; [exact I|]. intros a _. destruct a as [| | | |[|]| |]; try exact IH;
    (apply ScDStep; [exact I|]; intros; exact IH).
Qed.

Definition sc_val_of_src (n : bytes) (s : sc_src) : sc_lres :=
  match sc_parse s with None => ScLBad | Some t => ScLOk n t end.

Lemma sc_detv_finish w n s li mt :
  assoc_bytes (w_regt w) n = None ->
  sc_loaders_src (w_loaders w) n = Some s -> sc_detv w (sc_val_of_src n s) (sc_finish w n s li mt).
Proof.
  intros Hnr Hs. unfold sc_finish, sc_val_of_src. apply sc_detv_intern.
  destruct (sc_parse s) as [t|] eqn:Ep; [|constructor].
  destruct (w_cache w); [|constructor].
  apply ScDStep; [|intros; constructor].
  simpl. exists s. simpl. split; [unfold sc_src_of; rewrite Hs; reflexivity|split; [exact Ep|split]].
  - unfold sc_name_of. rewrite Hnr. reflexivity.
  - intros _. split; [exact Hs|exact Hnr].
Qed.

Definition sc_reload_val (w : sc_world) (n : bytes) : sc_lres :=
  match sc_loaders_src (w_loaders w) n with Some s => sc_val_of_src n s | None => ScLNotFound end.

Lemma sc_detv_loader_loop w n : assoc_bytes (w_regt w) n = None -> forall ls i,
  (forall j, nth_error (w_loaders w) (i + j) = nth_error ls j) ->
  sc_loaders_src (w_loaders w) n = sc_loaders_src ls n ->
  sc_detv w (sc_reload_val w n) (sc_loader_loop w n i ls).
Proof.
  intro Hnr. induction ls as [|l rest IH]; intros i Hn Hsrc; simpl.
  - unfold sc_reload_val. rewrite Hsrc. simpl. constructor.
  - apply ScDStep; [exact I|]. intros a Ha. simpl in Ha.
    pose proof (Hn 0) as H0. rewrite Nat.add_0_r in H0. simpl in H0. rewrite H0 in Ha. subst a.
    simpl in Hsrc. destruct (sc_loader_get l n) as [s|] eqn:Eg.
    + assert (Hval : sc_reload_val w n = sc_val_of_src n s) by (unfold sc_reload_val; rewrite Hsrc; reflexivity).
      rewrite Hval. destruct (ld_fs l).
      * apply ScDStep; [exact I|]. intros a2 _. apply sc_detv_finish; [exact Hnr|exact Hsrc].
      * apply sc_detv_finish; [exact Hnr|exact Hsrc].
    + apply IH; [|exact Hsrc]. intro j. pose proof (Hn (S j)) as Hj. simpl in Hj. rewrite <- Hj. f_equal. lia.
Qed.

Lemma sc_detv_chain_loop w n : forall ls i,
  (forall j, nth_error (w_loaders w) (i + j) = nth_error ls j) ->
  sc_detv w (sc_loaders_src ls n) (sc_chain_loop n i ls).
Proof.
  induction ls as [|l rest IH]; intros i Hn; simpl; [constructor|].
  pose proof (Hn 0) as H0. rewrite Nat.add_0_r in H0. simpl in H0.
  apply ScDStep; [exact I|]. intros a Ha. simpl in Ha. rewrite H0 in Ha. subst a.
  destruct (sc_loader_get l n) as [s|] eqn:Eg.
  - apply ScDStep; [exact I|]. intros a2 Ha2. simpl in Ha2. rewrite H0, Eg in Ha2. subst a2. constructor.
  - apply IH. intro j. pose proof (Hn (S j)) as Hj. simpl in Hj. rewrite <- Hj. f_equal. lia.
Qed.

Lemma sc_detv_reload w n : assoc_bytes (w_regt w) n = None -> sc_detv w (sc_reload_val w n) (sc_reload w n).
Proof.
  intro Hnr. unfold sc_reload. destruct (w_chain w).
  - destruct (w_loaders w) as [|l0 ls0] eqn:El.
    + unfold sc_reload_val. rewrite El. simpl. constructor.
    + rewrite <- El. eapply sc_detv_bind.
      * apply sc_detv_chain_loop. intro j. reflexivity.
      * unfold sc_reload_val. destruct (sc_loaders_src (w_loaders w) n) as [s|] eqn:Es; [|constructor].
        apply sc_detv_finish; [exact Hnr|exact Es].
  - apply sc_detv_loader_loop; [exact Hnr|intro j; reflexivity|reflexivity].
Qed.

(* what Load(n) returns, whatever the other goroutines do *)
Definition sc_load_val (w : sc_world) (n : bytes) : sc_lres :=
  match sc_src_of w n with Some s => sc_val_of_src (sc_name_of w n) s | None => ScLNotFound end.

Lemma sc_detv_load w n : sc_detv w (sc_load_val w n) (sc_load w n).
Proof.
  unfold sc_load. apply ScDStep; [exact I|]. intros a [o [-> Ho]].
  assert (Hre : assoc_bytes (w_regt w) n = None ->
                (sc_loaders_src (w_loaders w) n <> None \/ assoc_bytes (w_reg w) n = None) ->
                sc_load_val w n = sc_reload_val w n).
  { intros Hnr Hc. unfold sc_load_val, sc_reload_val, sc_src_of, sc_name_of. rewrite Hnr.
    destruct (sc_loaders_src (w_loaders w) n); [reflexivity|].
    destruct Hc as [Hc|Hc]; [exfalso; apply Hc; reflexivity|rewrite Hc; reflexivity]. }
  destruct o as [e|].
  - destruct Ho as [Ho|Ho].
    + (* a current entry *)
      destruct Ho as [s [Hs [Hp [Hname Hl]]]].
      assert (Hv : sc_load_val w n = ScLOk (en_name e) (en_tpl e)).
      { unfold sc_load_val, sc_val_of_src. rewrite Hs, Hp, Hname. reflexivity. }
      destruct (en_loader e) as [li|] eqn:Eli.
      * destruct Hl as [Hls Hnr]; [discriminate|].
        assert (Hr : sc_load_val w n = sc_reload_val w n) by (apply Hre; [exact Hnr|left; rewrite Hls; discriminate]).
        destruct (w_cache w).
        -- destruct (negb (w_auto w)); [rewrite Hv; constructor|].
           destruct (sc_loader_ts w li); [|rewrite Hv; constructor].
           apply ScDStep; [exact I|]. intros a2 _.
           destruct a2 as [| | |[t|]| | |]; try (rewrite Hr; apply sc_detv_reload; exact Hnr).
           destruct (Z.gtb t (en_mtime e)); [rewrite Hr; apply sc_detv_reload; exact Hnr|rewrite Hv; constructor].
        -- rewrite Hr. apply sc_detv_reload. exact Hnr.
      * rewrite Hv. constructor.
    + (* an entry left over from before the file changed: every path reads the loaders again *)
      destruct Ho as [Hreg [Hnr [li [Eli Hmode]]]]. rewrite Eli.
      rewrite (Hre Hnr (or_intror Hreg)).
      destruct (w_cache w) eqn:Ec; [|apply sc_detv_reload; exact Hnr].
      destruct Hmode as [Hc|[Ha [Hts Hst]]]; [discriminate|].
      rewrite Ha, Hts. simpl.
      apply ScDStep; [exact I|]. intros a2 Ha2. simpl in Ha2. subst a2.
      destruct (sc_stat_of w li n) as [t|]; [rewrite Hst|]; apply sc_detv_reload; exact Hnr.
  - destruct Ho as [Hreg Hnr]. rewrite (Hre Hnr (or_intror Hreg)). apply sc_detv_reload. exact Hnr.
Qed.

Lemma sc_det_load w n : sc_det w (sc_load w n).
Proof. eexists. apply sc_detv_load. Qed.

Lemma sc_det_load_rel w chain nm : sc_det w (sc_load_rel ScVCtx w chain nm).
Proof.
  unfold sc_load_rel. destruct (sc_is_rel nm); [|apply sc_det_load]. unfold sc_with_current.
  apply sc_det_bind; [apply sc_det_load|]. intros [n t| |]; try apply sc_det_ret.
  destruct (bytes_eqb _ nm); [apply sc_det_ret|apply sc_det_load].
Qed.

Lemma sc_det_attr_get {R} w ty a (k : option nat -> sc_prog R) :
  (forall e, sc_det w (k e)) -> sc_det w (sc_attr_get ty a k).
Proof.
  intro Hk. destruct (Hk (sc_attr_resolve w ty a)) as [r Hr]. exists r.
  unfold sc_attr_get. apply ScDStep; [exact I|]. intros x [o [-> Ho]].
  destruct Ho as [->| ->].
  - apply ScDStep; [exact I|]. intros x2 Hx2. simpl in Hx2. subst x2. exact Hr.
  - apply ScDStep; [exact I|]. intros _ _. exact Hr.
Qed.

Lemma sc_det_render_flats w vars fs : sc_det w (sc_render_flats vars fs).
Proof.
  induction fs as [|f r IH]; simpl; [apply sc_det_ret|].
  assert (Hrest : forall b, sc_det w (sc_bind (sc_render_flats vars r) (fun b2 => ScRet (b ++ b2)))).
  { intro b. apply sc_det_bind; [exact IH|]. intro. apply sc_det_ret. }
  destruct f as [t|v|v a]; [apply Hrest|apply Hrest|].
  destruct (assoc_bytes vars v) as [[s|ty fields]|]; [apply (Hrest [])| |apply (Hrest [])].
  apply sc_det_attr_get. intro e. apply Hrest.
Qed.

Lemma sc_det_render_item w rec cx blocks it :
  (forall cx' t, sc_det w (rec cx' t)) -> sc_det w (sc_render_item rec ScVCtx w cx blocks it).
Proof.
  intro Hrec. destruct it as [f|n|b body|from n m arg]; cbn [sc_render_item].
  - apply sc_det_bind; [apply sc_det_render_flats|]. intro. apply sc_det_ret.
  - apply sc_det_bind; [apply sc_det_load_rel|]. intros [n' t| |]; [apply Hrec|apply sc_det_ret|apply sc_det_ret].
  - apply sc_det_bind; [apply sc_det_render_flats|]. intro. apply sc_det_ret.
  - apply sc_det_bind; [apply sc_det_load_rel|]. intros [n' t| |]; [|apply sc_det_ret|apply sc_det_ret].
    apply sc_det_bind; [apply Hrec|]. intros [o|e|]; [|apply sc_det_ret|apply sc_det_ret].
    destruct (match tp_extends t with Some _ => None | None => assoc_bytes (tp_macros t) m end); [|apply sc_det_ret].
    apply sc_det_bind; [apply sc_det_render_flats|]. intro. apply sc_det_ret.
Qed.

Lemma sc_det_render_items w rec cx blocks items :
  (forall cx' t, sc_det w (rec cx' t)) -> sc_det w (sc_render_items rec ScVCtx w cx blocks items).
Proof.
  intro Hrec. induction items as [|it rest IH]; cbn [sc_render_items]; [apply sc_det_ret|].
  apply sc_det_bind; [apply sc_det_render_item; exact Hrec|]. intros [b1|e|]; [|apply sc_det_ret|apply sc_det_ret].
  apply sc_det_bind; [exact IH|]. intros [b2|e|]; apply sc_det_ret.
Qed.

Lemma sc_det_render w fuel : forall cx t, sc_det w (sc_render fuel ScVCtx w cx t).
Proof.
  induction fuel as [|f IH]; intros cx t; cbn [sc_render]; [apply sc_det_ret|].
  destruct (tp_extends t) as [pn|].
  - apply sc_det_bind; [apply sc_det_load_rel|]. intros [n' pt| |]; [apply IH|apply sc_det_ret|apply sc_det_ret].
  - apply sc_det_render_items. exact IH.
Qed.

Lemma sc_det_intern {R} w ss (k : sc_prog R) : sc_det w k -> sc_det w (sc_intern_list ss k).
Proof. intros [r Hr]. exists r. apply sc_detv_intern. exact Hr. Qed.

Lemma sc_det_call w fuel c : sc_call_consistent w c -> sc_det w (sc_call_prog fuel ScVCtx w c).
Proof.
  intro Hc. destruct c as [to n vars|n|s vars|n s]; cbn [sc_call_prog sc_cell_wrap].
  - apply sc_det_bind; [apply sc_det_load|]. intros [n' t| |]; [apply sc_det_render|apply sc_det_ret|apply sc_det_ret].
  - apply sc_det_bind; [apply sc_det_load|]. intros [n' t| |]; apply sc_det_ret.
  - apply sc_det_intern. destruct (sc_parse s); [apply sc_det_render|apply sc_det_ret].
  - apply sc_det_intern. destruct (sc_parse s) as [t|] eqn:Ep; [|apply sc_det_ret].
    exists (ScOOk []). apply ScDStep; [|intros; constructor].
    simpl. exists s. simpl in Hc. destruct Hc as [Hc Hnr]. simpl. split; [exact Hc|split; [exact Ep|split]].
    + unfold sc_name_of. rewrite Hnr. reflexivity.
    + intro C. contradiction.
Qed.

Lemma sc_det_thread w fuel cs : Forall (sc_call_consistent w) cs -> sc_det w (sc_thread_prog fuel ScVCtx w cs).
Proof.
  induction 1 as [|c r Hc Hr IH]; cbn [sc_thread_prog]; [apply sc_det_ret|].
  apply sc_det_bind; [apply sc_det_call; exact Hc|]. intro o.
  apply sc_det_bind; [exact IH|]. intro. apply sc_det_ret.
Qed.

(* ================================================================== 3. the machine: every schedule gives every thread its determined result *)

Lemma sc_forall2_nth {A B} (P : A -> B -> Prop) rs l : Forall2 P rs l ->
  forall i p, nth_error l i = Some p -> exists r, nth_error rs i = Some r /\ P r p.
Proof.
  induction 1 as [|r p rs l Hp Hf IH]; intros i q Hq; [destruct i; discriminate|].
  destruct i as [|i]; simpl in *.
  - inversion Hq; subst. exists r. auto.
  - apply IH. exact Hq.
Qed.

Lemma sc_forall2_upd {A B} (P : A -> B -> Prop) rs l : Forall2 P rs l ->
  forall i r x, nth_error rs i = Some r -> P r x -> Forall2 P rs (sc_upd_nth l i x).
Proof.
  induction 1 as [|r p rs l Hp Hf IH]; intros i r' x Hr Hx; [constructor|].
  destruct i as [|i]; simpl in *.
  - inversion Hr; subst. constructor; assumption.
  - constructor; [exact Hp|]. eapply IH; eassumption.
Qed.

Definition sc_good (w : sc_world) (rs : list (list sc_out)) (st : sc_state) : Prop :=
  sc_inv w (st_sh st) /\ Forall2 (sc_detv w) rs (st_thr st).

Lemma sc_step_good w rs st i : sc_good w rs st -> sc_good w rs (sc_step w st i).
Proof.
  intros [Hinv Hthr]. unfold sc_step.
  destruct (nth_error (st_thr st) i) as [[r|op k]|] eqn:En; try (split; assumption).
  destruct (sc_forall2_nth _ _ _ Hthr _ _ En) as [r [Hr Hd]].
  inversion Hd as [|op' k' Hwf Hk]; subst.
  destruct (sc_exec_ok w op (st_sh st) Hinv Hwf) as [Hinv' Hresp].
  destruct (sc_exec w op (st_sh st)) as [sh' a] eqn:Ex. simpl in *.
  split; [exact Hinv'|]. simpl. eapply sc_forall2_upd; [exact Hthr|exact Hr|].
  match goal with H : existT _ _ _ = existT _ _ _ |- _ => idtac | _ => idtac end.
  apply Hk. exact Hresp.
Qed.

Lemma sc_run_good w rs sched : forall st, sc_good w rs st -> sc_good w rs (sc_run w sched st).
Proof.
  unfold sc_run. induction sched as [|i r IH]; intros st H; simpl; [exact H|]. apply IH. apply sc_step_good. exact H.
Qed.

Lemma sc_threads_det fuel w threads :
  Forall (Forall (sc_call_consistent w)) threads ->
  exists rs, Forall2 (sc_detv w) rs (map (sc_thread_prog fuel ScVCtx w) threads).
Proof.
  intro Hc. induction Hc as [|cs r Hcs Hr IH]; simpl; [exists []; constructor|].
  destruct IH as [rs Hrs]. destruct (sc_det_thread w fuel cs Hcs) as [r0 Hr0]. exists (r0 :: rs). constructor; assumption.
Qed.

Lemma sc_init_good fuel w threads :
  sc_consistent_sources w threads -> exists rs, sc_good w rs (sc_init_with fuel ScVCtx w threads).
Proof.
  intros [Hw Hc]. destruct (sc_threads_det fuel w threads Hc) as [rs Hrs].
  exists rs. split; [apply sc_init_inv; exact Hw|exact Hrs].
Qed.

Lemma sc_good_results w rs st i r :
  sc_good w rs st -> nth_error (sc_results st) i = Some (Some r) -> nth_error rs i = Some r.
Proof.
  intros [_ Hthr] H. unfold sc_results in H. rewrite nth_error_map in H.
  destruct (nth_error (st_thr st) i) as [p|] eqn:En; [|discriminate]. simpl in H.
  destruct (sc_forall2_nth _ _ _ Hthr _ _ En) as [r' [Hr' Hd]].
  destruct p as [r0|op k]; simpl in H; [|discriminate]. inversion H; subst r0.
  inversion Hd; subst. exact Hr'.
Qed.

Lemma sc_good_complete w rs st :
  sc_good w rs st -> sc_complete st = true -> sc_results st = map Some rs.
Proof.
  intros [_ Hthr] Hc. unfold sc_results, sc_complete in *.
  induction Hthr as [|r p rs l Hp Hf IH]; simpl in *; [reflexivity|].
  apply andb_true_iff in Hc. destruct Hc as [Hc1 Hc2]. rewrite (IH Hc2).
  destruct p as [r0|op k]; simpl in *; [|discriminate]. inversion Hp; subst. reflexivity.
Qed.

Lemma sc_cur_variant_ctx : sc_cur_variant = ScVCtx.
Proof. vm_compute. reflexivity. Qed.

(* every complete schedule gives what the calls give one after another, in any order *)
Lemma C02_any_schedule_equals_serial_proof :
  forall fuel w threads sched order k,
    sc_consistent_sources w threads ->
    sc_complete (sc_run w sched (sc_init fuel w threads)) = true ->
    sc_complete (sc_run w (sc_serial_schedule order k) (sc_init fuel w threads)) = true ->
    sc_results (sc_run w sched (sc_init fuel w threads))
    = sc_results (sc_run w (sc_serial_schedule order k) (sc_init fuel w threads)).
Proof.
  intros fuel w threads sched order k Hc H1 H2. unfold sc_init in *. rewrite sc_cur_variant_ctx in *.
  destruct (sc_init_good fuel w threads Hc) as [rs Hg].
  rewrite (sc_good_complete w rs _ (sc_run_good w rs sched _ Hg) H1).
  rewrite (sc_good_complete w rs _ (sc_run_good w rs _ _ Hg) H2). reflexivity.
Qed.

(* also for schedules that stop early: a call that has returned has returned its serial result *)
Lemma C02_finished_calls_equal_serial_proof :
  forall fuel w threads sched order k i r,
    sc_consistent_sources w threads ->
    sc_complete (sc_run w (sc_serial_schedule order k) (sc_init fuel w threads)) = true ->
    nth_error (sc_results (sc_run w sched (sc_init fuel w threads))) i = Some (Some r) ->
    nth_error (sc_results (sc_run w (sc_serial_schedule order k) (sc_init fuel w threads))) i = Some (Some r).
Proof.
  intros fuel w threads sched order k i r Hc H2 H1. unfold sc_init in *. rewrite sc_cur_variant_ctx in *.
  destruct (sc_init_good fuel w threads Hc) as [rs Hg].
  rewrite (sc_good_complete w rs _ (sc_run_good w rs _ _ Hg) H2).
  rewrite nth_error_map. rewrite (sc_good_results w rs _ i r (sc_run_good w rs sched _ Hg) H1). reflexivity.
Qed.

(* ================================================================== 4. locks: the generated table, and data-race freedom of the model *)

(* every field that a non-configuration function writes is accessed under its owner's mutex in every
   non-configuration function, writes under the exclusive lock: a computation over what gogen found in the code *)
Lemma C02_lock_table_disciplined_proof : sc_table_ok lock_sites = true /\ lockmap_shape_ok = true.
Proof. split; vm_compute; reflexivity. Qed.

(* the locks the model's steps hold, as read off the table *)
Definition sc_locks_expected (op : sc_op) : list (sc_lock * bool) :=
  match op with
  | ScOpCacheRead _ => [(ScLkEngine, false)]
  | ScOpCacheWrite _ _ _ => [(ScLkEngine, true)]
  | ScOpLoaderRead true i _ => [(ScLkLoader i, true)]
  | ScOpLoaderRead false _ _ => []
  | ScOpLoaderStat i _ => [(ScLkLoader i, true)]
  | ScOpLoaderExists _ _ => []
  | ScOpStrRead _ => [(ScLkStr, false)]
  | ScOpStrWrite _ => [(ScLkStr, true)]
  | ScOpAttrRead _ _ => [(ScLkAttr, false)]
  | ScOpAttrTouch _ _ => [(ScLkAttr, true)]
  | ScOpAttrFill _ _ => [(ScLkAttr, true)]
  | ScOpCellRead => []
  | ScOpCellWrite _ => []
  end.

Lemma sc_op_locks_now op : sc_op_locks op = sc_locks_expected op.
Proof.
  destruct op as [n|[|] n e|[|] i n|i n|i n|s|s|ty a|ty a|ty a| |n]; vm_compute; reflexivity.
Qed.

Lemma sc_lockset_ops a b : sc_op_no_cell a -> sc_op_no_cell b -> sc_race_free_pair a b.
Proof.
  intros Ha Hb. unfold sc_race_free_pair, sc_conflict, sc_common_lock. rewrite !sc_op_locks_now.
  destruct a as [n|site n e|[|] i n|i n|i n|s|s|ty a|ty a|ty a| |n]; try contradiction;
  destruct b as [n'|site' n' e'|[|] i' n'|i' n'|i' n'|s'|s'|ty' a'|ty' a'|ty' a'| |n']; try contradiction;
  simpl; try reflexivity; try discriminate;
  destruct (Nat.eqb i i'); simpl; intro H; try reflexivity; try discriminate.
Qed.

(* ---- no step of the current tree touches the engine-wide cell ---- *)
Lemma sc_all_bind {A B} P (p : sc_prog A) (f : A -> sc_prog B) :
  sc_prog_all P p -> (forall a, sc_prog_all P (f a)) -> sc_prog_all P (sc_bind p f).
Proof.
  intros Hp Hf. induction Hp as [r|op k Hop Hk IH]; simpl; [apply Hf|]. apply ScAllStep; [exact Hop|exact IH].
Qed.

Lemma sc_all_intern {R} ss (k : sc_prog R) : sc_prog_all sc_op_no_cell k -> sc_prog_all sc_op_no_cell (sc_intern_list ss k).
Proof.
  intro Hk. induction ss as [|s ss IH]; simpl; [exact Hk|].
  apply ScAllStep; [exact I|]. intros [| | | |[|]| |]; try exact IH; (apply ScAllStep; [exact I|intro; exact IH]).
Qed.

Lemma sc_all_finish w n s li mt : sc_prog_all sc_op_no_cell (sc_finish w n s li mt).
Proof.
  unfold sc_finish. apply sc_all_intern. destruct (sc_parse s); [|constructor].
  destruct (w_cache w); [|constructor]. apply ScAllStep; [exact I|intro; constructor].
Qed.

Lemma sc_all_loader_loop w n : forall ls i, sc_prog_all sc_op_no_cell (sc_loader_loop w n i ls).
Proof.
  induction ls as [|l rest IH]; intro i; simpl; [constructor|].
  apply ScAllStep; [exact I|]. intros [| |[s|]| | | |]; try apply IH.
  destruct (ld_fs l); [|apply sc_all_finish]. apply ScAllStep; [exact I|intro; apply sc_all_finish].
Qed.

Lemma sc_all_chain_loop n : forall ls i, sc_prog_all sc_op_no_cell (sc_chain_loop n i ls).
Proof.
  induction ls as [|l rest IH]; intro i; simpl; [constructor|].
  apply ScAllStep; [exact I|]. intros [| | | |[|]| |]; try apply IH.
  apply ScAllStep; [exact I|]. intros [| |o| | | |]; constructor.
Qed.

Lemma sc_all_reload w n : sc_prog_all sc_op_no_cell (sc_reload w n).
Proof.
  unfold sc_reload. destruct (w_chain w); [|apply sc_all_loader_loop].
  destruct (w_loaders w) as [|l0 ls0] eqn:El; [constructor|]. rewrite <- El.
  apply sc_all_bind; [apply sc_all_chain_loop|]. intros [s|]; [apply sc_all_finish|constructor].
Qed.

Lemma sc_all_load w n : sc_prog_all sc_op_no_cell (sc_load w n).
Proof.
  unfold sc_load. apply ScAllStep; [exact I|]. intros [|[e|]| | | | |]; try apply sc_all_reload.
  destruct (en_loader e) as [li|]; [|constructor].
  destruct (w_cache w); [|apply sc_all_reload].
  destruct (negb (w_auto w)); [constructor|]. destruct (sc_loader_ts w li); [|constructor].
  apply ScAllStep; [exact I|]. intros [| | |[t|]| | |]; try apply sc_all_reload.
  destruct (Z.gtb t (en_mtime e)); [apply sc_all_reload|constructor].
Qed.

Lemma sc_all_load_rel w chain nm : sc_prog_all sc_op_no_cell (sc_load_rel ScVCtx w chain nm).
Proof.
  unfold sc_load_rel. destruct (sc_is_rel nm); [|apply sc_all_load]. unfold sc_with_current.
  apply sc_all_bind; [apply sc_all_load|]. intros [n t| |]; try constructor.
  destruct (bytes_eqb _ nm); [constructor|apply sc_all_load].
Qed.

Lemma sc_all_attr_get {R} ty a (k : option nat -> sc_prog R) :
  (forall e, sc_prog_all sc_op_no_cell (k e)) -> sc_prog_all sc_op_no_cell (sc_attr_get ty a k).
Proof.
  intro Hk. unfold sc_attr_get. apply ScAllStep; [exact I|].
  intros [| | | | |[e|]|]; (apply ScAllStep; [exact I|]; intros [| | | | |[e'|]|]; apply Hk).
Qed.

Lemma sc_all_render_flats vars fs : sc_prog_all sc_op_no_cell (sc_render_flats vars fs).
Proof.
  induction fs as [|f r IH]; simpl; [constructor|].
  assert (Hrest : forall b, sc_prog_all sc_op_no_cell (sc_bind (sc_render_flats vars r) (fun b2 => ScRet (b ++ b2)))).
  { intro b. apply sc_all_bind; [exact IH|]. intro. constructor. }
  destruct f as [t|v|v a]; [apply Hrest|apply Hrest|].
  destruct (assoc_bytes vars v) as [[s|ty fields]|]; [apply (Hrest [])| |apply (Hrest [])].
  apply sc_all_attr_get. intro e. apply Hrest.
Qed.

Lemma sc_all_render_item w rec cx blocks it :
  (forall cx' t, sc_prog_all sc_op_no_cell (rec cx' t)) ->
  sc_prog_all sc_op_no_cell (sc_render_item rec ScVCtx w cx blocks it).
Proof.
  intro Hrec. destruct it as [f|n|b body|from n m arg]; cbn [sc_render_item].
  - apply sc_all_bind; [apply sc_all_render_flats|]. intro. constructor.
  - apply sc_all_bind; [apply sc_all_load_rel|]. intros [n' t| |]; [apply Hrec|constructor|constructor].
  - apply sc_all_bind; [apply sc_all_render_flats|]. intro. constructor.
  - apply sc_all_bind; [apply sc_all_load_rel|]. intros [n' t| |]; [|constructor|constructor].
    apply sc_all_bind; [apply Hrec|]. intros [o|e|]; [|constructor|constructor].
    destruct (match tp_extends t with Some _ => None | None => assoc_bytes (tp_macros t) m end); [|constructor].
    apply sc_all_bind; [apply sc_all_render_flats|]. intro. constructor.
Qed.

Lemma sc_all_render_items w rec cx blocks items :
  (forall cx' t, sc_prog_all sc_op_no_cell (rec cx' t)) ->
  sc_prog_all sc_op_no_cell (sc_render_items rec ScVCtx w cx blocks items).
Proof.
  intro Hrec. induction items as [|it rest IH]; cbn [sc_render_items]; [constructor|].
  apply sc_all_bind; [apply sc_all_render_item; exact Hrec|]. intros [b1|e|]; [|constructor|constructor].
  apply sc_all_bind; [exact IH|]. intros [b2|e|]; constructor.
Qed.

Lemma sc_all_render w fuel : forall cx t, sc_prog_all sc_op_no_cell (sc_render fuel ScVCtx w cx t).
Proof.
  induction fuel as [|f IH]; intros cx t; cbn [sc_render]; [constructor|].
  destruct (tp_extends t) as [pn|].
  - apply sc_all_bind; [apply sc_all_load_rel|]. intros [n' pt| |]; [apply IH|constructor|constructor].
  - apply sc_all_render_items. exact IH.
Qed.

Lemma sc_all_call w fuel c : sc_prog_all sc_op_no_cell (sc_call_prog fuel ScVCtx w c).
Proof.
  destruct c as [to n vars|n|s vars|n s]; cbn [sc_call_prog sc_cell_wrap].
  - apply sc_all_bind; [apply sc_all_load|]. intros [n' t| |]; [apply sc_all_render|constructor|constructor].
  - apply sc_all_bind; [apply sc_all_load|]. intros [n' t| |]; constructor.
  - apply sc_all_intern. destruct (sc_parse s); [apply sc_all_render|constructor].
  - apply sc_all_intern. destruct (sc_parse s); [|constructor]. apply ScAllStep; [exact I|intro; constructor].
Qed.

Lemma sc_all_thread w fuel cs : sc_prog_all sc_op_no_cell (sc_thread_prog fuel ScVCtx w cs).
Proof.
  induction cs as [|c r IH]; cbn [sc_thread_prog]; [constructor|].
  apply sc_all_bind; [apply sc_all_call|]. intro o. apply sc_all_bind; [exact IH|]. intro. constructor.
Qed.

(* relative names are resolved from the call's own context: the name is sc_current_name of the chain the call
   carries, and no step of any call reads or writes the engine-wide cell *)
Lemma C02_relative_names_private_proof :
  (forall (R : Type) chain (k : bytes -> sc_prog R), sc_with_current sc_cur_variant chain k = k (sc_current_name chain))
  /\ (forall fuel w c, sc_prog_all sc_op_no_cell (sc_call_prog fuel sc_cur_variant w c)).
Proof.
  rewrite sc_cur_variant_ctx. split; [reflexivity|]. intros. apply sc_all_call.
Qed.

(* ---- reachable states ---- *)
Lemma sc_forall_upd {A} (P : A -> Prop) l : Forall P l -> forall i x, P x -> Forall P (sc_upd_nth l i x).
Proof.
  induction 1 as [|a l Ha Hl IH]; intros i x Hx; simpl; [constructor|].
  destruct i; constructor; auto.
Qed.

Lemma sc_step_all w st i :
  Forall (sc_prog_all sc_op_no_cell) (st_thr st) -> Forall (sc_prog_all sc_op_no_cell) (st_thr (sc_step w st i)).
Proof.
  intro H. unfold sc_step. destruct (nth_error (st_thr st) i) as [[r|op k]|] eqn:En; try exact H.
  destruct (sc_exec w op (st_sh st)) as [sh' a]. simpl. apply sc_forall_upd; [exact H|].
  rewrite Forall_forall in H. apply nth_error_In in En. apply H in En. inversion En; subst. auto.
Qed.

Lemma sc_run_all w sched : forall st,
  Forall (sc_prog_all sc_op_no_cell) (st_thr st) -> Forall (sc_prog_all sc_op_no_cell) (st_thr (sc_run w sched st)).
Proof.
  unfold sc_run. induction sched as [|i r IH]; intros st H; simpl; [exact H|]. apply IH. apply sc_step_all. exact H.
Qed.

(* in every reachable state, any two enabled steps of different threads that touch a common location, one of
   them writing, hold a common lock, one of them exclusively *)
Lemma C02_lockset_proof :
  forall fuel w threads sched i j a b,
    i <> j ->
    sc_enabled (sc_run w sched (sc_init fuel w threads)) i = Some a ->
    sc_enabled (sc_run w sched (sc_init fuel w threads)) j = Some b ->
    sc_race_free_pair a b.
Proof.
  intros fuel w threads sched i j a b _ Hi Hj. unfold sc_init in *. rewrite sc_cur_variant_ctx in *.
  assert (H0 : Forall (sc_prog_all sc_op_no_cell) (st_thr (sc_init_with fuel ScVCtx w threads))).
  { simpl. apply Forall_forall. intros p Hp. apply in_map_iff in Hp. destruct Hp as [cs [<- _]]. apply sc_all_thread. }
  pose proof (sc_run_all w sched _ H0) as H. rewrite Forall_forall in H.
  unfold sc_enabled in Hi, Hj.
  destruct (nth_error (st_thr (sc_run w sched (sc_init_with fuel ScVCtx w threads))) i) as [[r|op k]|] eqn:Ei; try discriminate.
  destruct (nth_error (st_thr (sc_run w sched (sc_init_with fuel ScVCtx w threads))) j) as [[r'|op' k']|] eqn:Ej; try discriminate.
  inversion Hi; inversion Hj; subst.
  apply nth_error_In in Ei. apply nth_error_In in Ej. apply H in Ei. apply H in Ej.
  inversion Ei; inversion Ej; subst. apply sc_lockset_ops; assumption.
Qed.

(* the pooled tokenizer is private between GetTokenizer and ReleaseTokenizer: Parser.Parse, as the code orders
   its calls now, does not use the token buffer after returning it to a pool and hands it to one pool only.
   This is the condition under which the model may keep the parser in the call's private state. *)
Lemma C02_tokenizer_owned_proof : sc_tok_owned parse_events = true.
Proof. vm_compute. reflexivity. Qed.

(* the pinned order: released before the token buffer is read, and the token slice released again *)
Lemma sc_tok_owned_pinned_refuted : sc_tok_owned [0; 1; 1; 3; 2; 4]%N = false.
Proof. vm_compute. reflexivity. Qed.

(* ================================================================== 5. complete serial schedules exist *)

Lemma sc_nth_error_upd_same {A} (l : list A) i x p : nth_error l i = Some p -> nth_error (sc_upd_nth l i x) i = Some x.
Proof.
  revert i. induction l as [|a r IH]; intros [|i] H; simpl in *; try discriminate; [reflexivity|apply IH; exact H].
Qed.

Lemma sc_upd_upd {A} (l : list A) i x y : sc_upd_nth (sc_upd_nth l i x) i y = sc_upd_nth l i y.
Proof. revert i. induction l as [|a r IH]; intros [|i]; simpl; try reflexivity. rewrite IH. reflexivity. Qed.

Lemma sc_upd_same {A} (l : list A) i p : nth_error l i = Some p -> sc_upd_nth l i p = l.
Proof.
  revert i. induction l as [|a r IH]; intros [|i] H; simpl in *; try discriminate.
  - inversion H; reflexivity.
  - rewrite IH; [reflexivity|exact H].
Qed.

Lemma sc_run_app w s1 s2 st : sc_run w (s1 ++ s2) st = sc_run w s2 (sc_run w s1 st).
Proof. unfold sc_run. apply fold_left_app. Qed.

(* a thread run alone finishes, and further turns change nothing *)
Lemma sc_solo_finishes w (p : sc_prog (list sc_out)) : forall sh,
  exists k sh' r, forall thr i, nth_error thr i = Some p -> forall k', k <= k' ->
    sc_run w (repeat i k') (mk_sc_state sh thr) = mk_sc_state sh' (sc_upd_nth thr i (ScRet r)).
Proof.
  induction p as [r|op kk IH]; intro sh.
  - exists 0, sh, r. intros thr i Hn k' _. rewrite (sc_upd_same _ _ _ Hn).
    induction k' as [|k' IHk]; [reflexivity|]. simpl. unfold sc_run in *. simpl.
    unfold sc_step at 2. simpl. rewrite Hn. exact IHk.
  - destruct (sc_exec w op sh) as [sh1 a] eqn:Ex.
    destruct (IH a sh1) as [k [sh' [r Hk]]]. exists (S k), sh', r.
    intros thr i Hn k' Hle. destruct k' as [|k']; [lia|]. simpl. unfold sc_run. simpl.
    unfold sc_step at 2. simpl. rewrite Hn, Ex.
    pose proof (Hk (sc_upd_nth thr i (kk a)) i (sc_nth_error_upd_same _ _ _ _ Hn) k' ltac:(lia)) as H.
    unfold sc_run in H. rewrite H. rewrite sc_upd_upd. reflexivity.
Qed.

Lemma sc_complete_from w : forall m a thr sh,
  a + m = length thr ->
  (forall i, i < a -> exists r, nth_error thr i = Some (ScRet r)) ->
  exists K, forall K', K <= K' ->
    sc_complete (sc_run w (sc_serial_schedule (seq a m) K') (mk_sc_state sh thr)) = true.
Proof.
  induction m as [|m IH]; intros a thr sh Hlen Hdone.
  - exists 0. intros K' _. simpl. unfold sc_complete. simpl. apply forallb_forall. intros p Hp.
    apply In_nth_error in Hp. destruct Hp as [i Hi].
    assert (i < a). { rewrite Nat.add_0_r in Hlen. rewrite Hlen. apply nth_error_Some. rewrite Hi. discriminate. }
    destruct (Hdone i H) as [r Hr]. rewrite Hr in Hi. inversion Hi; subst. reflexivity.
  - assert (Ha : a < length thr) by lia.
    destruct (nth_error thr a) as [p|] eqn:Ep; [|apply nth_error_None in Ep; lia].
    destruct (sc_solo_finishes w p sh) as [k [sh' [r Hk]]].
    destruct (IH (S a) (sc_upd_nth thr a (ScRet r)) sh') as [K2 HK2].
    + assert (Hl : forall (l : list (sc_prog (list sc_out))) i x, length (sc_upd_nth l i x) = length l).
      { induction l as [|y l IHl]; intros [|i] x; simpl; auto. }
      rewrite Hl. lia.
    + intros i Hi. destruct (Nat.eq_dec i a) as [->|Hne].
      * exists r. eapply sc_nth_error_upd_same. exact Ep.
      * destruct (Hdone i ltac:(lia)) as [r' Hr']. exists r'.
        assert (Ho : forall (l : list (sc_prog (list sc_out))) j i x, j <> i -> nth_error (sc_upd_nth l j x) i = nth_error l i).
        { induction l as [|y l IHl]; intros [|j] [|i'] x Hji; simpl; auto; try lia; apply IHl; lia. }
        rewrite Ho by lia. exact Hr'.
    + exists (Nat.max k K2). intros K' HK'. simpl. rewrite sc_run_app.
      rewrite (Hk thr a Ep K' ltac:(lia)). apply HK2. lia.
Qed.

(* for every workload there is a serial schedule (thread 0 alone, then thread 1, ...) on which every call returns *)
Lemma C02_serial_schedule_exists_proof :
  forall fuel w threads, exists k,
    sc_complete (sc_run w (sc_serial_schedule (seq 0 (length threads)) k) (sc_init fuel w threads)) = true.
Proof.
  intros fuel w threads. unfold sc_init, sc_init_with.
  destruct (sc_complete_from w (length threads) 0 (map (sc_thread_prog fuel sc_cur_variant w) threads) (sc_init_shared w)) as [K HK].
  - rewrite map_length. reflexivity.
  - intros i Hi. lia.
  - exists K. apply HK. lia.
Qed.

(* ================================================================== 6. the pinned tree: an engine-wide current-template cell *)

Definition sc_w_pinned : sc_world :=
  mk_sc_world
    [mk_sc_loader false
       [[(b#"a/main", mk_sc_file (ScSrcTpl (mk_sc_tpl None [ScItInclude b#"./part"] [])) 0%Z);
         (b#"a/part", mk_sc_file (ScSrcTpl (mk_sc_tpl None [ScItFlat (ScFText b#"A")] [])) 0%Z);
         (b#"c/main", mk_sc_file (ScSrcTpl (mk_sc_tpl None [ScItInclude b#"./part"] [])) 0%Z);
         (b#"c/part", mk_sc_file (ScSrcTpl (mk_sc_tpl None [ScItFlat (ScFText b#"C")] [])) 0%Z)]]]
    false [] [] [] true false.

Definition sc_thr_pinned : list (list sc_call) := [[ScCRender false b#"a/main" []]; [ScCRender false b#"c/main" []]].
(* thread 0 reads and writes the cell (a/main), thread 1 reads and writes it (c/main), then thread 0 runs on and
   reads the cell when it resolves its include; thread 1 runs last *)
Definition sc_sched_pinned : list nat := [0; 0; 1; 1] ++ repeat 0 40 ++ repeat 1 40.

Lemma C02_refuted_pinned_proof :
  sc_consistent_sources sc_w_pinned sc_thr_pinned /\
  sc_complete (sc_run sc_w_pinned sc_sched_pinned (sc_init_with 5 ScVCell sc_w_pinned sc_thr_pinned)) = true /\
  sc_results (sc_run sc_w_pinned (sc_serial_schedule [0; 1] 40) (sc_init_with 5 ScVCell sc_w_pinned sc_thr_pinned))
    = [Some [ScOOk b#"A"]; Some [ScOOk b#"C"]] /\
  sc_results (sc_run sc_w_pinned sc_sched_pinned (sc_init_with 5 ScVCell sc_w_pinned sc_thr_pinned))
    = [Some [ScOOk b#"C"]; Some [ScOErr ScENotFound]] /\
  (* (a/main included c/part; then the deferred restore of thread 0 emptied the cell and c/main looked for ./part itself)
     and the two unlocked writes of the cell are a data race of the model *)
  sc_enabled (sc_run sc_w_pinned [0; 1] (sc_init_with 5 ScVCell sc_w_pinned sc_thr_pinned)) 0 = Some (ScOpCellWrite b#"a/main") /\
  sc_enabled (sc_run sc_w_pinned [0; 1] (sc_init_with 5 ScVCell sc_w_pinned sc_thr_pinned)) 1 = Some (ScOpCellWrite b#"c/main") /\
  sc_conflict (ScOpCellWrite b#"a/main") (ScOpCellWrite b#"c/main") = true /\
  sc_common_lock (ScOpCellWrite b#"a/main") (ScOpCellWrite b#"c/main") = false.
Proof.
  split.
  - split; [split; intros n s H; inversion H|].
    repeat constructor.
  - repeat split; vm_compute; reflexivity.
Qed.

(* the same workload on the model of the tree as it is now *)
Lemma sc_pinned_workload_now :
  sc_results (sc_run sc_w_pinned sc_sched_pinned (sc_init 5 sc_w_pinned sc_thr_pinned))
    = [Some [ScOOk b#"A"]; Some [ScOOk b#"C"]].
Proof. vm_compute. reflexivity. Qed.

(* ================================================================== 7. phases: files rewritten while no call is running *)

(* The start of a phase: the engine as earlier phases left it, seen from the world as it is now. sc_inv w sh says
   that every cached entry is either the parse of the source the name has now, or is left over from before its
   file changed and will be read again by every Load that meets it (caching off, or auto-reload on with a
   timestamp-aware loader that now reports a later modification time); that registered names are still in the
   map; that the loader memos still point where the search finds the files. *)
Definition sc_phase_start_ok (w : sc_world) (sh : sc_shared) : Prop := sc_inv w sh.

Lemma C02_first_phase_start_ok_proof : forall w, sc_world_ok w -> sc_phase_start_ok w (sc_init_shared w).
Proof. exact sc_init_inv. Qed.

Lemma C02_phase_equals_serial_proof :
  forall fuel w sh threads sched order k,
    sc_phase_start_ok w sh -> Forall (Forall (sc_call_consistent w)) threads ->
    sc_complete (sc_run w sched (sc_phase_state fuel w sh threads)) = true ->
    sc_complete (sc_run w (sc_serial_schedule order k) (sc_phase_state fuel w sh threads)) = true ->
    sc_results (sc_run w sched (sc_phase_state fuel w sh threads))
    = sc_results (sc_run w (sc_serial_schedule order k) (sc_phase_state fuel w sh threads)).
Proof.
  intros fuel w sh threads sched order k Hinv Hc H1 H2. unfold sc_phase_state in *. rewrite sc_cur_variant_ctx in *.
  destruct (sc_threads_det fuel w threads Hc) as [rs Hrs].
  assert (Hg : sc_good w rs (mk_sc_state sh (map (sc_thread_prog fuel ScVCtx w) threads))) by (split; assumption).
  rewrite (sc_good_complete w rs _ (sc_run_good w rs sched _ Hg) H1).
  rewrite (sc_good_complete w rs _ (sc_run_good w rs _ _ Hg) H2). reflexivity.
Qed.

(* whatever the schedule, a phase leaves the engine in a state that is a good start for the same world *)
Lemma C02_phase_end_ok_proof :
  forall fuel w sh threads sched,
    sc_phase_start_ok w sh -> Forall (Forall (sc_call_consistent w)) threads ->
    sc_phase_start_ok w (st_sh (sc_run w sched (sc_phase_state fuel w sh threads))).
Proof.
  intros fuel w sh threads sched Hinv Hc. unfold sc_phase_state. rewrite sc_cur_variant_ctx.
  destruct (sc_threads_det fuel w threads Hc) as [rs Hrs].
  assert (Hg : sc_good w rs (mk_sc_state sh (map (sc_thread_prog fuel ScVCtx w) threads))) by (split; assumption).
  apply (sc_run_good w rs sched _ Hg).
Qed.
