(* C12, path independence across templates for SELF-CONTAINED macros (Spec/MacroSpec.v, section MacroFrame).
   A macro body reads its caller's context, so the result of a call can only be the same from two callers relative to
   what the body looks up. Here: if every macro of the environment is self-contained over a set N of names (its body
   and defaults look up only names of N, and contain no tag that loads a template, no block, no macro tag), then
   two callers that answer alike for the names of N get the same output and the same trace from the same call.
   Part 1: expressions evaluate alike in contexts that agree on N (induction on fuel over eval).
   Part 2: self-contained node lists render alike in contexts that differ only in their parent (and last loaded
           template) when the parents agree on N (induction on fuel over render, with a simulation relation). *)
From Twig Require Import Base.Bytes Base.Utf8 Model.Ast Model.Value Model.ValueOps Model.EvalBuiltins Model.Ctx
                         Model.TemplateSet Model.Eval Spec.ControlSpec Spec.MacroSpec Proofs.EvalProofs Proofs.MacroProofs.

Section Frame.
  Variable N : list bytes.
  Variable env : ev_env.
  Notation eok := (c12_eok N).
  Notation agree := (c12_agree N).

  (* ================================================================ Part 1: expressions *)
  Lemma ev_apply_filter_sb c1 c2 name v args :
    rc_sandboxed c1 = rc_sandboxed c2 -> ev_apply_filter env c1 name v args = ev_apply_filter env c2 name v args.
  Proof. intro H. unfold ev_apply_filter. rewrite H. reflexivity. Qed.

  Lemma ev_apply_chain_sb c1 c2 : rc_sandboxed c1 = rc_sandboxed c2 ->
    forall ch v, ev_apply_chain env c1 v ch = ev_apply_chain env c2 v ch.
  Proof.
    intro H. induction ch as [|[f vs] r IH]; intro v; cbn [ev_apply_chain]; [reflexivity|].
    rewrite (ev_apply_filter_sb c1 c2 f v vs H). apply ev_bind_ext. intro w. apply IH.
  Qed.

  Lemma ev_sandbox_denies_sb c1 c2 e : rc_sandboxed c1 = rc_sandboxed c2 -> ev_sandbox_denies env c1 e = ev_sandbox_denies env c2 e.
  Proof. intro H. unfold ev_sandbox_denies. rewrite H. reflexivity. Qed.

  Lemma ev_call_function_agree c1 c2 name args :
    agree c1 c2 -> c12_in N name = true -> ev_call_function env c1 name args = ev_call_function env c2 name args.
  Proof.
    intros [Hs Ha] Hn. unfold ev_call_function. rewrite Hs. destruct (Ha name Hn) as [_ [Hm _]]. rewrite Hm. reflexivity.
  Qed.

  Lemma ev_self_call_agree c1 c2 name args :
    agree c1 c2 -> c12_in N name = true -> ev_self_call env c1 name args = ev_self_call env c2 name args.
  Proof.
    intros Hag Hn. unfold ev_self_call. destruct Hag as [Hs Ha]. destruct (Ha name Hn) as [_ [Hm _]]. rewrite Hm.
    destruct (rc_get_macro c2 name) as [[tpl nm]|]; [reflexivity|].
    apply ev_call_function_agree; [split; assumption|exact Hn].
  Qed.

  Lemma ev_var_macro_agree c1 c2 x : agree c1 c2 -> c12_in N x = true ->
    match rc_own_var c1 x with Some _ => None | None => rc_get_macro c1 x end =
    match rc_own_var c2 x with Some _ => None | None => rc_get_macro c2 x end.
  Proof.
    intros [Hs Ha] Hn. destruct (Ha x Hn) as [_ [Hm Ho]]. unfold c12_owns in Ho.
    destruct (rc_own_var c1 x), (rc_own_var c2 x); try discriminate; [reflexivity|exact Hm].
  Qed.

  Lemma ev_defined_var_agree c1 c2 x : agree c1 c2 -> c12_in N x = true -> ev_defined_var c1 x = ev_defined_var c2 x.
  Proof.
    intros [Hs Ha] Hn. destruct (Ha x Hn) as [Hv [_ Ho]]. unfold ev_defined_var. unfold c12_owns in Ho.
    destruct (rc_own_var c1 x), (rc_own_var c2 x); try discriminate; [reflexivity|].
    rewrite Hv. reflexivity.
  Qed.

  Section OneLevel.
    Variables ev1 ev2 : expr -> ev_res.
    Hypothesis Hev : forall e, eok e = true -> ev1 e = ev2 e.

    Lemma ev_list_agree : forall es, forallb eok es = true -> ev_list ev1 es = ev_list ev2 es.
    Proof.
      induction es as [|e r IH]; intro H; cbn [ev_list]; [reflexivity|].
      cbn [forallb] in H. apply andb_prop in H. destruct H as [He Hr].
      rewrite (Hev e He). apply ev_bind_ext. intro v. rewrite (IH Hr). reflexivity.
    Qed.

    Lemma ev_pairs_agree : forall kvs acc,
      forallb (fun kv => match kv with (k, x) => eok k && eok x end) kvs = true ->
      ev_pairs ev1 kvs acc = ev_pairs ev2 kvs acc.
    Proof.
      induction kvs as [|[k x] r IH]; intros acc H; cbn [ev_pairs]; [reflexivity|].
      cbn [forallb] in H. apply andb_prop in H. destruct H as [Hkx Hr]. apply andb_prop in Hkx. destruct Hkx as [Hk Hx].
      rewrite (Hev k Hk). apply ev_bind_ext. intro kv. destruct (vo_to_str kv); [|reflexivity].
      rewrite (Hev x Hx). apply ev_bind_ext. intro xv. apply IH. exact Hr.
    Qed.

    Lemma ev_chain_args_agree : forall ch,
      forallb (fun fa => forallb eok (snd fa)) ch = true -> ev_chain_args ev1 ch = ev_chain_args ev2 ch.
    Proof.
      induction ch as [|[f args] r IH]; intro H; cbn [ev_chain_args]; [reflexivity|].
      cbn [forallb snd] in H. apply andb_prop in H. destruct H as [Ha Hr].
      rewrite (ev_list_agree args Ha). apply ev_bind_ext. intro vs. rewrite (IH Hr). reflexivity.
    Qed.

    Lemma ev_unchain_ok : forall e, eok e = true ->
      eok (fst (ev_unchain e)) = true /\ forallb (fun fa => forallb eok (snd fa)) (snd (ev_unchain e)) = true.
    Proof.
      induction e; intro H; try (cbn [ev_unchain fst snd forallb]; split; [exact H|reflexivity]).
      cbn [ev_unchain]. cbn [c12_eok] in H. apply andb_prop in H. destruct H as [He Hargs].
      destruct (ev_unchain e) as [b ch] eqn:E. destruct (IHe He) as [Hb Hch]. cbn [fst snd] in *.
      split; [exact Hb|]. cbn [forallb snd]. rewrite Hargs, Hch. reflexivity.
    Qed.

    Lemma ev_filter_chain_agree c1 c2 e b :
      rc_sandboxed c1 = rc_sandboxed c2 -> eok e = true ->
      ev_filter_chain ev1 env c1 e b = ev_filter_chain ev2 env c2 e b.
    Proof.
      intros Hs He. unfold ev_filter_chain. destruct (ev_unchain_ok e He) as [Hb Hch].
      destruct (ev_unchain e) as [base ch]. cbn [fst snd] in *.
      rewrite (ev_chain_args_agree ch Hch). apply ev_bind_ext. intro args.
      rewrite (Hev base Hb). apply ev_bind_ext. intro v.
      rewrite (ev_apply_chain_sb c1 c2 Hs). reflexivity.
    Qed.

    Lemma ev_defined_attr_agree o a : eok o = true -> ev_defined_attr ev1 o a = ev_defined_attr ev2 o a.
    Proof. intro H. unfold ev_defined_attr. rewrite (Hev o H). reflexivity. Qed.

    Lemma ev_expr_agree c1 c2 e : agree c1 c2 -> eok e = true -> ev_expr ev1 env c1 e = ev_expr ev2 env c2 e.
    Proof.
      intros Hag He. pose proof Hag as [Hs Ha]. unfold ev_expr.
      rewrite (ev_sandbox_denies_sb c1 c2 e Hs). destruct (ev_sandbox_denies env c2 e); [reflexivity|].
      destruct e; cbn [c12_eok] in He.
      - reflexivity.
      - destruct (Ha x He) as [Hv _]. unfold ev_var_macro. rewrite (ev_var_macro_agree c1 c2 x Hag He), Hv. reflexivity.
      - rewrite (Hev e He). reflexivity.
      - apply andb_prop in He. destruct He as [H1 H2]. rewrite (Hev e1 H1). apply ev_bind_ext. intro ov.
        rewrite (Hev e2 H2). reflexivity.
      - rewrite (Hev e He). reflexivity.
      - apply andb_prop in He. destruct He as [H1 H2]. rewrite (Hev e1 H1). apply ev_bind_ext. intro l.
        rewrite (Hev e2 H2). reflexivity.
      - apply andb_prop in He. destruct He as [H12 H3]. apply andb_prop in H12. destruct H12 as [H1 H2].
        rewrite (Hev e1 H1). apply ev_bind_ext. intro qv. rewrite (Hev e2 H2), (Hev e3 H3). reflexivity.
      - rewrite (ev_list_agree es He). reflexivity.
      - apply ev_pairs_agree. exact He.
      - apply ev_filter_chain_agree; [exact Hs|]. cbn [c12_eok]. exact He.
      - apply andb_prop in He. destruct He as [Hf Hargs]. destruct (Ha f Hf) as [_ [Hm _]]. rewrite Hm.
        rewrite (ev_list_agree args Hargs).
        destruct (rc_get_macro c2 f) as [[tpl nm]|]; [reflexivity|].
        apply ev_bind_ext. intro vs. rewrite (ev_call_function_agree c1 c2 f vs Hag Hf). reflexivity.
      - apply andb_prop in He. destruct He as [Hmf Hargs]. apply andb_prop in Hmf. destruct Hmf as [Hm Hf].
        rewrite (Hev e Hm). apply ev_bind_ext. intro mo. rewrite (ev_list_agree args Hargs). apply ev_bind_ext. intro vs.
        rewrite (ev_self_call_agree c1 c2 f vs Hag Hf). reflexivity.
      - apply andb_prop in He. destruct He as [H1 Hargs].
        assert (Hgen : ev_bind (ev1 e) (fun v => ev_bind (ev_list ev1 args) (fun vs => ev_call_test env t v vs)) =
                       ev_bind (ev2 e) (fun v => ev_bind (ev_list ev2 args) (fun vs => ev_call_test env t v vs))).
        { rewrite (Hev e H1), (ev_list_agree args Hargs). reflexivity. }
        assert (Hr : (if bytes_eqb t b#"defined" then
                        match e with
                        | EAttr o attr => ev_defined_attr ev1 o attr
                        | EVar x => ev_defined_var c1 x
                        | _ => ev_bind (ev1 e) (fun v => ev_bind (ev_list ev1 args) (fun vs => ev_call_test env t v vs))
                        end
                      else ev_bind (ev1 e) (fun v => ev_bind (ev_list ev1 args) (fun vs => ev_call_test env t v vs))) =
                     (if bytes_eqb t b#"defined" then
                        match e with
                        | EAttr o attr => ev_defined_attr ev2 o attr
                        | EVar x => ev_defined_var c2 x
                        | _ => ev_bind (ev2 e) (fun v => ev_bind (ev_list ev2 args) (fun vs => ev_call_test env t v vs))
                        end
                      else ev_bind (ev2 e) (fun v => ev_bind (ev_list ev2 args) (fun vs => ev_call_test env t v vs)))).
        { destruct (bytes_eqb t b#"defined"); [|exact Hgen].
          destruct e; try exact Hgen.
          - apply ev_defined_var_agree; [exact Hag|exact H1].
          - apply ev_defined_attr_agree. exact H1. }
        rewrite Hr. reflexivity.
    Qed.
  End OneLevel.

  (* expressions that look up only names of N evaluate alike in contexts that agree on N *)
  Lemma eval_agree : forall fu c1 c2 e, agree c1 c2 -> eok e = true -> eval fu env c1 e = eval fu env c2 e.
  Proof.
    induction fu as [|fu IH]; intros c1 c2 e Hag He; [reflexivity|].
    cbn [eval]. apply ev_expr_agree; [|exact Hag|exact He].
    intros e' He'. apply IH; assumption.
  Qed.
End Frame.

(* ================================================================ Part 2: self-contained bodies *)
Ltac rsim_done H := split; [reflexivity|split; [reflexivity|exact H]].

Section FrameRender.
  Variable N : list bytes.
  Variable env : ev_env.
  Hypothesis HloopN : c12_in N b#"loop" = true.
  Hypothesis Henv : c12_env_ok N env.
  Notation eok := (c12_eok N).
  Notation nsok := (c12_nsok N).
  Notation agree := (c12_agree N).

  (* m with another parent and another last loaded template *)
  Definition c12_recast (m : rctx) (p : option rctx) (l : option bytes) : rctx :=
    MkRc (rc_vars m) p (rc_macros m) (rc_blocks m) (rc_parent_blocks m) (rc_chain m) (rc_extending m)
         (rc_cur_block m) (rc_cur_defs m) (rc_depth m) (rc_in_parent_call m) (rc_sandboxed m) l (rc_tpl m).

  (* the simulation relation between the contexts of the two runs: equal but for the parent (and the last loaded
     template, which nothing reads), not inside a block, and the parents answer alike for the names of N -- except
     for the macros the context holds itself *)
  Definition c12_rel (m1 m2 : rctx) : Prop :=
    rc_cur_block m1 = None /\
    exists p1 p2 l2, rc_parent m1 = Some p1 /\ m2 = c12_recast m1 (Some p2) l2 /\ c12_agree_mod N (rc_macros m1) p1 p2.

  Lemma c12_rel_agree m1 m2 : c12_rel m1 m2 -> agree m1 m2.
  Proof.
    intros [_ [p1 [p2 [l2 [Hp [-> [Hs Ha]]]]]]]. split; [reflexivity|].
    intros x Hx. destruct (Ha x Hx) as [Hv [Ho Hm]]. split; [|split].
    - rewrite (rc_get_var_unfold m1 x), (rc_get_var_unfold (c12_recast m1 (Some p2) l2) x), Hp.
      change (rc_own_var (c12_recast m1 (Some p2) l2) x) with (rc_own_var m1 x).
      destruct (rc_own_var m1 x); [reflexivity|exact Hv].
    - rewrite (rc_get_macro_unfold m1 x), (rc_get_macro_unfold (c12_recast m1 (Some p2) l2) x), Hp.
      change (rc_macros (c12_recast m1 (Some p2) l2)) with (rc_macros m1).
      change (rc_parent (c12_recast m1 (Some p2) l2)) with (Some p2).
      destruct (assoc_bytes (rc_macros m1) x) eqn:E; [reflexivity|]. apply Hm. reflexivity.
    - reflexivity.
  Qed.

  Lemma c12_rel_set_var m1 m2 x v : c12_rel m1 m2 -> c12_rel (rc_set_var m1 x v) (rc_set_var m2 x v).
  Proof.
    intros [Hb [p1 [p2 [l2 [Hp [-> Ha]]]]]]. split; [destruct m1; exact Hb|].
    exists p1, p2, l2. split; [destruct m1; exact Hp|]. split; [destruct m1; reflexivity|].
    destruct m1; exact Ha.
  Qed.

  Lemma c12_rel_iter m1 m2 k v n i it : c12_rel m1 m2 -> c12_rel (ev_iter_ctx m1 k v n i it) (ev_iter_ctx m2 k v n i it).
  Proof.
    intro H. unfold ev_iter_ctx. apply c12_rel_set_var. destruct k; [apply c12_rel_set_var|]; apply c12_rel_set_var; exact H.
  Qed.

  Lemma c12_rel_own m1 m2 x : c12_rel m1 m2 -> rc_own_var m2 x = rc_own_var m1 x.
  Proof. intros [_ [p1 [p2 [l2 [_ [-> _]]]]]]. reflexivity. Qed.
  Lemma c12_rel_sandboxed m1 m2 : c12_rel m1 m2 -> rc_sandboxed m1 = rc_sandboxed m2.
  Proof. intros [_ [p1 [p2 [l2 [_ [-> _]]]]]]. reflexivity. Qed.
  Lemma c12_rel_no_block m1 m2 : c12_rel m1 m2 -> rc_cur_block m1 = None /\ rc_cur_block m2 = None.
  Proof. intros [Hb [p1 [p2 [l2 [_ [-> _]]]]]]. split; exact Hb. Qed.

  (* two results: same outcome, same trace, related contexts *)
  Definition c12_rsim (r1 r2 : ev_rres) : Prop :=
    fst (fst r1) = fst (fst r2) /\ snd r1 = snd r2 /\ c12_rel (snd (fst r1)) (snd (fst r2)).

  Lemma c12_rsim_ret o m1 m2 : c12_rel m1 m2 -> c12_rsim (ev_rret o m1) (ev_rret o m2).
  Proof. intro H. rsim_done H. Qed.
  Lemma c12_rsim_fail o m1 m2 : c12_rel m1 m2 -> c12_rsim (ev_rfail o m1) (ev_rfail o m2).
  Proof. intro H. rsim_done H. Qed.

  Lemma c12_rsim_rexpr {A} (r : outcome A * ev_trace) m1 m2 (k1 k2 : A -> ev_rres) :
    c12_rel m1 m2 -> (forall a, c12_rsim (k1 a) (k2 a)) -> c12_rsim (ev_rexpr r m1 k1) (ev_rexpr r m2 k2).
  Proof.
    intros Hr Hk. destruct r as [o t]. destruct o as [a| | |]; cbn [ev_rexpr]; try (rsim_done Hr).
    specialize (Hk a). destruct (k1 a) as [[o1 c1] t1], (k2 a) as [[o2 c2] t2].
    destruct Hk as [H1 [H2 H3]]. cbn [fst snd] in *. subst. rsim_done H3.
  Qed.

  Lemma c12_rsim_rseq r1 r2 (k1 k2 : rctx -> ev_rres) :
    c12_rsim r1 r2 -> (forall c1 c2, c12_rel c1 c2 -> c12_rsim (k1 c1) (k2 c2)) -> c12_rsim (ev_rseq r1 k1) (ev_rseq r2 k2).
  Proof.
    intros Hr Hk. destruct r1 as [[o1 c1] t1], r2 as [[o2 c2] t2]. destruct Hr as [H1 [H2 H3]]. cbn [fst snd] in *. subst.
    destruct o2 as [a| | |]; cbn [ev_rseq]; try (rsim_done H3).
    specialize (Hk c1 c2 H3). destruct (k1 c1) as [[o1' c1'] t1'], (k2 c2) as [[o2' c2'] t2'].
    destruct Hk as [K1 [K2 K3]]. cbn [fst snd] in *. subst.
    destruct o2'; rsim_done K3.
  Qed.

  (* ---- decomposition of the syntactic conditions *)
  Definition c12_brs_ok (brs : list (expr * list node)) : bool := forallb (fun cb => eok (fst cb) && nsok (snd cb)) brs.
  Definition c12_els_ok (els : option (list node)) : bool := match els with Some b => nsok b | None => true end.

  Lemma c12_nok_if brs els : c12_nok N (NIf brs els) = c12_brs_ok brs && c12_els_ok els.
  Proof.
    cbn [c12_nok]. f_equal. unfold c12_brs_ok. induction brs as [|[c b] r IH]; [reflexivity|].
    cbn [forallb fst snd]. rewrite IH. reflexivity.
  Qed.
  Lemma c12_nok_for k v seq body els : c12_nok N (NFor k v seq body els) = eok seq && nsok body && c12_els_ok els.
  Proof. reflexivity. Qed.
  Lemma c12_nok_apply f args body : c12_nok N (NApply f args body) = forallb eok args && nsok body.
  Proof. reflexivity. Qed.
  Lemma c12_nok_spaceless body : c12_nok N (NSpaceless body) = nsok body.
  Proof. reflexivity. Qed.

  Section OneLevel.
    Variable ev : rctx -> expr -> ev_res.
    Hypothesis Hev : forall c1 c2 e, agree c1 c2 -> eok e = true -> ev c1 e = ev c2 e.
    Variable rend : rctx -> list node -> ev_rres.
    Hypothesis Hrend : forall m1 m2 ns, c12_rel m1 m2 -> nsok ns = true -> c12_rsim (rend m1 ns) (rend m2 ns).

    Lemma c12_els_sim m1 m2 els : c12_rel m1 m2 -> c12_els_ok els = true ->
      c12_rsim (match els with Some b => rend m1 b | None => ev_rret [] m1 end)
               (match els with Some b => rend m2 b | None => ev_rret [] m2 end).
    Proof. intros Hr He. destruct els as [b|]; [apply Hrend; assumption|apply c12_rsim_ret; exact Hr]. Qed.

    Lemma ev_if_sim : forall brs els m1 m2, c12_rel m1 m2 -> c12_brs_ok brs = true -> c12_els_ok els = true ->
      c12_rsim (ev_if ev rend m1 brs els) (ev_if ev rend m2 brs els).
    Proof.
      induction brs as [|[cond body] rest IH]; intros els m1 m2 Hr Hb He; cbn [ev_if].
      - apply c12_els_sim; assumption.
      - cbn [c12_brs_ok forallb fst snd] in Hb. apply andb_prop in Hb. destruct Hb as [Hcb Hrest].
        apply andb_prop in Hcb. destruct Hcb as [Hc Hbody].
        rewrite (Hev m1 m2 cond (c12_rel_agree m1 m2 Hr) Hc).
        apply c12_rsim_rexpr; [exact Hr|]. intro v. destruct (vo_to_bool v).
        + apply Hrend; assumption.
        + apply IH; assumption.
    Qed.

    Lemma ev_loop_items_sim body k v n : nsok body = true ->
      forall items i m1 m2, c12_rel m1 m2 ->
      c12_rsim (ev_loop_items (fun c0 => rend c0 body) k v n i items m1) (ev_loop_items (fun c0 => rend c0 body) k v n i items m2).
    Proof.
      intro Hb. induction items as [|it rest IH]; intros i m1 m2 Hr; cbn [ev_loop_items].
      - apply c12_rsim_ret. exact Hr.
      - apply c12_rsim_rseq.
        + apply Hrend; [apply c12_rel_iter; exact Hr|exact Hb].
        + intros c1 c2 Hc. apply IH. exact Hc.
    Qed.

    Lemma ev_for_loop_sim m1 m2 k v seq body els : c12_rel m1 m2 -> nsok body = true -> c12_els_ok els = true ->
      c12_rsim (ev_for_loop rend m1 k v seq body els) (ev_for_loop rend m2 k v seq body els).
    Proof.
      intros Hr Hb He. unfold ev_for_loop. destruct (ev_loop_items_of seq) as [[|it items]|].
      - apply c12_els_sim; assumption.
      - pose proof (ev_loop_items_sim body k v (Z.of_nat (length (it :: items))) Hb (it :: items) 0%Z m1 m2 Hr) as H.
        destruct (ev_loop_items (fun c0 => rend c0 body) k v (Z.of_nat (length (it :: items))) 0 (it :: items) m1) as [[r1 c1] t1].
        destruct (ev_loop_items (fun c0 => rend c0 body) k v (Z.of_nat (length (it :: items))) 0 (it :: items) m2) as [[r2 c2] t2].
        destruct H as [H1 [H2 H3]]. cbn [fst snd] in *. subst.
        rewrite (c12_rel_own m1 m2 b#"loop" Hr).
        split; [reflexivity|split; [reflexivity|]]. cbn [fst snd]. destruct (rc_own_var m1 b#"loop"); [apply c12_rel_set_var|]; exact H3.
      - apply c12_els_sim; assumption.
    Qed.

    Lemma ev_for_seq_sim m1 m2 seq : c12_rel m1 m2 -> eok seq = true -> ev_for_seq ev env m1 seq = ev_for_seq ev env m2 seq.
    Proof.
      intros Hr He. pose proof (c12_rel_agree m1 m2 Hr) as Hag. unfold ev_for_seq.
      destruct seq; try (apply Hev; assumption).
      - destruct (existsb (Byte.eqb x7c) x); [reflexivity|apply Hev; assumption].
      - apply (ev_filter_chain_agree N env (ev m1) (ev m2)).
        + intros e' He'. apply Hev; assumption.
        + apply c12_rel_sandboxed. exact Hr.
        + exact He.
    Qed.

    Lemma ev_for_sim m1 m2 k v seq body els : c12_rel m1 m2 -> eok seq = true -> nsok body = true -> c12_els_ok els = true ->
      c12_rsim (ev_for ev rend env m1 k v seq body els) (ev_for ev rend env m2 k v seq body els).
    Proof.
      intros Hr Hs Hb He. unfold ev_for. rewrite (ev_for_seq_sim m1 m2 seq Hr Hs).
      apply c12_rsim_rexpr; [exact Hr|]. intro sv. apply ev_for_loop_sim; assumption.
    Qed.

    Lemma ev_set_sim m1 m2 x e : c12_rel m1 m2 -> eok e = true -> c12_rsim (ev_set ev m1 x e) (ev_set ev m2 x e).
    Proof.
      intros Hr He. pose proof (c12_rel_agree m1 m2 Hr) as Hag. unfold ev_set. rewrite (Hev m1 m2 e Hag He).
      apply c12_rsim_rexpr; [exact Hr|]. intro v.
      assert (Hg : ev_set_guard m1 v = ev_set_guard m2 v).
      { unfold ev_set_guard. destruct Hag as [_ Ha]. destruct (Ha b#"loop" HloopN) as [Hl _]. rewrite Hl. reflexivity. }
      rewrite Hg. destruct (ev_set_guard m2 v); [apply c12_rsim_fail; exact Hr|].
      apply c12_rsim_ret. apply c12_rel_set_var. exact Hr.
    Qed.

    (* a macro called from the body: the callee is self-contained as well (Henv); its context is new on both sides,
       with the two related contexts as parents *)
    Lemma ev_call_macro_sim c1 c2 tpl nm args :
      c12_agree_mod N (ts_sibling_macros env tpl) c1 c2 ->
      (forall params body p de, ts_find_macro env tpl nm = Some (params, body) -> In (p, Some de) params -> ev c1 de = ev c2 de) ->
      ev_call_macro ev rend env c1 tpl nm args = ev_call_macro ev rend env c2 tpl nm args.
    Proof.
      intros Hag Hevc. rewrite !C12_binding_proof. unfold c12_call.
      destruct (ts_find_macro env tpl nm) as [[params body]|] eqn:E; [|reflexivity].
      destruct (Henv tpl nm params body E) as [Hps Hbody].
      destruct (existsb vo_has_callable args || negb (ev_macro_body_plain body)); [reflexivity|].
      rewrite (c12_param_values_evc_ext (ev c1) (ev c2) args params 0).
      2:{ intros p de Hin. apply (Hevc params body p de eq_refl Hin). }
      apply ev_bind_ext. intro bs.
      assert (Hrel : c12_rel (c12_macro_ctx env c1 tpl bs) (c12_macro_ctx env c2 tpl bs)).
      { unfold c12_macro_ctx. generalize bs. clear bs. intro bs.
        assert (H0 : c12_rel (c12_body_ctx0 env c1 tpl) (c12_body_ctx0 env c2 tpl)).
        { split; [reflexivity|]. exists c1, c2, (rc_last_loaded c2). split; [reflexivity|]. split.
          - unfold c12_body_ctx0, c12_recast, rc_with_macros, rc_derive, rc_fresh. cbn. destruct Hag as [Hs _]. rewrite Hs. reflexivity.
          - exact Hag. }
        revert H0. generalize (c12_body_ctx0 env c1 tpl) (c12_body_ctx0 env c2 tpl).
        induction bs as [|[q v] r IH]; intros a1 a2 H0; cbn [c12_bind_all fold_left fst snd]; [exact H0|].
        apply IH. apply c12_rel_set_var. exact H0. }
      pose proof (Hrend _ _ body Hrel Hbody) as H.
      destruct (rend (c12_macro_ctx env c1 tpl bs) body) as [[r1 x1] t1], (rend (c12_macro_ctx env c2 tpl bs) body) as [[r2 x2] t2].
      destruct H as [H1 [H2 _]]. cbn [fst snd] in *. subst. reflexivity.
    Qed.

    Lemma c12_agree_mod_of_agree S c1 c2 : agree c1 c2 -> c12_agree_mod N S c1 c2.
    Proof.
      intros [Hs Ha]. split; [exact Hs|]. intros x Hx. destruct (Ha x Hx) as [Hv [Hm Ho]].
      split; [exact Hv|]. split; [exact Ho|]. intros _. exact Hm.
    Qed.

    Lemma ev_print_sim m1 m2 e : c12_rel m1 m2 -> eok e = true -> c12_rsim (ev_print ev rend env m1 e) (ev_print ev rend env m2 e).
    Proof.
      intros Hr He. pose proof (c12_rel_agree m1 m2 Hr) as Hag. unfold ev_print. rewrite (Hev m1 m2 e Hag He).
      apply c12_rsim_rexpr; [exact Hr|]. intro v. destruct (vo_view v) eqn:V.
      all: try (destruct (vo_to_str v); [apply c12_rsim_ret|apply c12_rsim_fail]; exact Hr).
      - rewrite (ev_call_macro_sim m1 m2 tpl name args (c12_agree_mod_of_agree _ m1 m2 Hag)).
        2:{ intros params body p de Hf Hin. apply Hev; [exact Hag|].
            destruct (Henv tpl name params body Hf) as [Hps _]. unfold c12_params_ok in Hps. rewrite forallb_forall in Hps.
            exact (Hps (p, Some de) Hin). }
        destruct (ev_call_macro ev rend env m2 tpl name args) as [r t]. rsim_done Hr.
      - destruct (c12_rel_no_block m1 m2 Hr) as [B1 B2]. unfold ev_parent_call. rewrite B1, B2.
        apply c12_rsim_fail. exact Hr.
    Qed.

    Lemma ev_apply_sim m1 m2 f args body : c12_rel m1 m2 -> forallb eok args = true -> nsok body = true ->
      c12_rsim (ev_apply ev rend env m1 f args body) (ev_apply ev rend env m2 f args body).
    Proof.
      intros Hr Ha Hb. unfold ev_apply. pose proof (Hrend m1 m2 body Hr Hb) as H.
      destruct (rend m1 body) as [[o1 c1] t1], (rend m2 body) as [[o2 c2] t2].
      destruct H as [H1 [H2 H3]]. cbn [fst snd] in *. subst.
      destruct o2 as [content| | |]; try (rsim_done H3).
      pose proof (c12_rel_agree c1 c2 H3) as Hag.
      assert (Heq : ev_bind (ev_list (ev c1) args) (fun vs => ev_bind (ev_apply_filter env c1 f (VStr content) vs) (fun w => ev_opt (vo_to_str w))) =
                    ev_bind (ev_list (ev c2) args) (fun vs => ev_bind (ev_apply_filter env c2 f (VStr content) vs) (fun w => ev_opt (vo_to_str w)))).
      { rewrite (ev_list_agree N (ev c1) (ev c2)); [|intros e' He'; apply Hev; assumption|exact Ha].
        apply ev_bind_ext. intro vs.
        rewrite (ev_apply_filter_sb env c1 c2 f (VStr content) vs (c12_rel_sandboxed c1 c2 H3)). reflexivity. }
      rewrite Heq.
      destruct (ev_bind (ev_list (ev c2) args) (fun vs => ev_bind (ev_apply_filter env c2 f (VStr content) vs) (fun w => ev_opt (vo_to_str w)))) as [o t].
      destruct o; rsim_done H3.
    Qed.

    Lemma ev_spaceless_sim m1 m2 body : c12_rel m1 m2 -> nsok body = true ->
      c12_rsim (ev_spaceless rend env m1 body) (ev_spaceless rend env m2 body).
    Proof.
      intros Hr Hb. unfold ev_spaceless. pose proof (Hrend m1 m2 body Hr Hb) as H.
      destruct (rend m1 body) as [[o1 c1] t1], (rend m2 body) as [[o2 c2] t2].
      destruct H as [H1 [H2 H3]]. cbn [fst snd] in *. subst.
      destruct o2 as [content| | |]; try (rsim_done H3).
      rewrite (ev_apply_filter_sb env c1 c2 b#"spaceless" (VStr content) [] (c12_rel_sandboxed c1 c2 H3)).
      destruct (ev_apply_filter env c2 b#"spaceless" (VStr content) []) as [o t]. destruct o; rsim_done H3.
    Qed.

    Lemma render_node_sim root m1 m2 n : c12_rel m1 m2 -> c12_nok N n = true ->
      c12_rsim (render_node ev rend root env m1 n) (render_node ev rend root env m2 n).
    Proof.
      intros Hr Hn. destruct n; try discriminate Hn; cbn [render_node].
      - apply c12_rsim_ret. exact Hr.
      - apply ev_print_sim; assumption.
      - rewrite c12_nok_if in Hn. apply andb_prop in Hn. destruct Hn as [H1 H2]. apply ev_if_sim; assumption.
      - rewrite c12_nok_for in Hn. apply andb_prop in Hn. destruct Hn as [H12 H3]. apply andb_prop in H12. destruct H12 as [H1 H2].
        apply ev_for_sim; assumption.
      - apply ev_set_sim; assumption.
      - cbn [c12_nok] in Hn. rewrite (Hev m1 m2 e (c12_rel_agree m1 m2 Hr) Hn).
        apply c12_rsim_rexpr; [exact Hr|]. intros _. apply c12_rsim_ret. exact Hr.
      - apply c12_rsim_ret. exact Hr.
      - rewrite c12_nok_apply in Hn. apply andb_prop in Hn. destruct Hn as [H1 H2]. apply ev_apply_sim; assumption.
      - rewrite c12_nok_spaceless in Hn. apply ev_spaceless_sim; assumption.
    Qed.
  End OneLevel.

  (* self-contained node lists render alike in related contexts *)
  Lemma render_sim : forall fu m1 m2 ns, c12_rel m1 m2 -> nsok ns = true ->
    c12_rsim (render fu env m1 ns) (render fu env m2 ns).
  Proof.
    induction fu as [|fu IH]; intros m1 m2 ns Hr Hn.
    - rsim_done Hr.
    - cbn [render]. destruct ns as [|n rest]; [apply c12_rsim_ret; exact Hr|].
      cbn [c12_nsok forallb] in Hn. apply andb_prop in Hn. destruct Hn as [Hn Hrest].
      apply c12_rsim_rseq.
      + apply (render_node_sim (eval fu env)); [|exact IH|exact Hr|exact Hn].
        intros c1 c2 e Hag He. apply (eval_agree N env); assumption.
      + intros c1 c2 Hc. apply IH; assumption.
  Qed.

  (* the same call from two callers that answer alike for N, the macros of the called macro's template excepted *)
  Lemma C12_paths_agree_sec : forall fu c1 c2 tpl nm args,
    c12_agree_mod N (ts_sibling_macros env tpl) c1 c2 ->
    (forall params body p de, ts_find_macro env tpl nm = Some (params, body) -> In (p, Some de) params ->
       eval fu env c1 de = eval fu env c2 de) ->
    ev_call_macro (eval fu env) (render fu env) env c1 tpl nm args = ev_call_macro (eval fu env) (render fu env) env c2 tpl nm args.
  Proof.
    intros fu c1 c2 tpl nm args Hag Hevc. apply ev_call_macro_sim; [|exact Hag|exact Hevc].
    intros m1 m2 ns. apply render_sim.
  Qed.
End FrameRender.

Lemma c12_in_minus N S x : c12_in (c12_minus N S) x = true -> c12_in N x = true /\ assoc_bytes S x = None.
Proof.
  unfold c12_in, ev_mem, c12_minus. induction N as [|y r IH]; cbn [filter existsb]; [discriminate|].
  destruct (assoc_bytes S y) eqn:E; cbn [existsb].
  - intro H. destruct (IH H) as [H1 H2]. rewrite H1, orb_true_r. split; [reflexivity|exact H2].
  - intro H. apply orb_prop in H. destruct H as [H|H].
    + rewrite H. split; [reflexivity|]. apply bytes_eqb_eq in H. subst y. exact E.
    + destruct (IH H) as [H1 H2]. rewrite H1, orb_true_r. split; [reflexivity|exact H2].
Qed.

Lemma c12_agree_minus N S c1 c2 : c12_agree_mod N S c1 c2 -> c12_agree (c12_minus N S) c1 c2.
Proof.
  intros [Hs Ha]. split; [exact Hs|]. intros x Hx. destruct (c12_in_minus N S x Hx) as [Hn HS].
  destruct (Ha x Hn) as [Hv [Ho Hm]]. split; [exact Hv|]. split; [apply Hm; exact HS|exact Ho].
Qed.

(* C12_paths_agree. Every macro of the environment is self-contained over N; the two callers answer alike for N, except
   that they need not see the same macros under the names of the called macro's own template (the defining template
   sees them all, an importer none); the defaults of the called macro, which are evaluated in the caller's context,
   do not look those names up. Then the call gives the same output and the same trace from both. *)
Lemma C12_paths_agree_proof : forall N env fu c1 c2 tpl nm args,
  c12_in N b#"loop" = true -> c12_env_ok N env ->
  c12_agree_mod N (ts_sibling_macros env tpl) c1 c2 ->
  (forall params body, ts_find_macro env tpl nm = Some (params, body) ->
     c12_params_ok (c12_minus N (ts_sibling_macros env tpl)) params = true) ->
  ev_call_macro (eval fu env) (render fu env) env c1 tpl nm args = ev_call_macro (eval fu env) (render fu env) env c2 tpl nm args.
Proof.
  intros N env fu c1 c2 tpl nm args Hl Henv Hag Hdef. apply (C12_paths_agree_sec N env Hl Henv); [exact Hag|].
  intros params body p de Hf Hin. apply (eval_agree (c12_minus N (ts_sibling_macros env tpl)) env).
  - apply c12_agree_minus. exact Hag.
  - specialize (Hdef params body Hf). unfold c12_params_ok in Hdef. rewrite forallb_forall in Hdef. exact (Hdef (p, Some de) Hin).
Qed.

(* the decidable form of the hypothesis *)
Lemma assoc_bytes_in {A} (l : list (bytes * A)) k v : assoc_bytes l k = Some v -> In (k, v) l.
Proof.
  induction l as [|[k' v'] r IH]; cbn [assoc_bytes]; [discriminate|].
  destruct (bytes_eqb k' k) eqn:E; intro H.
  - apply bytes_eqb_eq in E. inversion H; subst. left. reflexivity.
  - right. apply IH. exact H.
Qed.

Lemma c12_env_okb_sound N env : c12_env_okb N env = true -> c12_env_ok N env.
Proof.
  intros H tpl nm params body Hf. unfold ts_find_macro, ts_lookup in Hf.
  destruct (assoc_bytes (e_tpls env) tpl) as [ns|] eqn:E; [|discriminate].
  apply assoc_bytes_in in E. apply assoc_bytes_in in Hf.
  unfold c12_env_okb in H. rewrite forallb_forall in H. specialize (H (tpl, ns) E). cbn [snd] in H.
  rewrite forallb_forall in H. specialize (H (nm, (params, body)) Hf). cbn [fst snd] in H.
  apply andb_prop in H. exact H.
Qed.
