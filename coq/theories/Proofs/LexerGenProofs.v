(* Facts about tables regenerated from the Go sources by tools/gogen; closed by computation, so a
   changed table either still satisfies them or this file stops compiling. *)
From Twig Require Import Base.Bytes Model.Lexer Gen.Thresholds Gen.TagPatterns Gen.BoundaryTests.

(* the opener spellings and their order in TokenizeHtmlPreserving are the ones the model uses *)
Lemma tag_patterns_are_model : tag_patterns = map pattern kinds.
Proof. vm_compute. reflexivity. Qed.

(* Parser.Parse still chooses the tokenizer by a source-length test *)
Lemma threshold_shape : tokenizer_threshold_found = true.
Proof. vm_compute. reflexivity. Qed.

(* every delimiter comparison in the parser accepts the whitespace-control variant too *)
Lemma no_exact_boundary_tests : exact_boundary_sites = [].
Proof. vm_compute. reflexivity. Qed.
