(* Proofs about the compiled-template wire format model (Model/Compiled.v). *)
From Twig Require Import Base.Bytes Model.Compiled Spec.CompiledSpec Gen.CompiledLayout.
From Coq Require Import NArith ZArith Lia ZifyBool ZifyNat ZifyN.
Ltac Zify.zify_post_hook ::= Z.div_mod_to_equations.
Local Open Scope N_scope.

(* ------------------------------------------------------------------ lengths *)
Lemma lenN_acc_spec s : forall a, lenN_acc s a = a + N.of_nat (length s).
Proof.
  induction s as [|b s IH]; intro a; cbn [lenN_acc length].
  - rewrite N.add_0_r. reflexivity.
  - rewrite IH, Nat2N.inj_succ. lia.
Qed.

Lemma lenN_length s : lenN s = N.of_nat (length s).
Proof. unfold lenN. rewrite lenN_acc_spec. reflexivity. Qed.

Lemma lenN_nil : lenN [] = 0.
Proof. reflexivity. Qed.

Lemma lenN_cons b s : lenN (b :: s) = N.succ (lenN s).
Proof. rewrite !lenN_length. cbn [length]. rewrite Nat2N.inj_succ. reflexivity. Qed.

Lemma lenN_app a b : lenN (a ++ b) = lenN a + lenN b.
Proof. rewrite !lenN_length, app_length, Nat2N.inj_add. reflexivity. Qed.

Lemma lenN_repeat (b : byte) (n : N) : lenN (repeat b (N.to_nat n)) = n.
Proof. rewrite lenN_length, repeat_length, N2Nat.id. reflexivity. Qed.

(* ------------------------------------------------------------------ bytes and numbers *)
Lemma to_N_lt b : Byte.to_N b < 256.
Proof. pose proof (Byte.to_N_bounded b). lia. Qed.

Lemma to_N_byte_of_N n : Byte.to_N (byte_of_N n) = n mod 256.
Proof.
  unfold byte_of_N.
  destruct (Byte.of_N (n mod 256)) as [b|] eqn:E.
  - apply Byte.to_of_N in E. exact E.
  - apply Byte.of_N_None_iff in E.
    assert (n mod 256 < 256) by (apply N.mod_lt; discriminate). lia.
Qed.

Lemma byte_of_N_to_N b : byte_of_N (Byte.to_N b) = b.
Proof.
  unfold byte_of_N. rewrite N.mod_small by apply to_N_lt.
  rewrite Byte.of_to_N. reflexivity.
Qed.

Lemma byte_of_N_mod n : byte_of_N (n mod 256) = byte_of_N n.
Proof. unfold byte_of_N. rewrite N.mod_mod by discriminate. reflexivity. Qed.

Lemma le_encode_length k : forall n, length (le_encode k n) = k.
Proof. induction k as [|k IH]; intro n; cbn [le_encode length]; [reflexivity|rewrite IH; reflexivity]. Qed.

Lemma le_decode_encode k : forall n, le_decode (le_encode k n) = n mod 256 ^ N.of_nat k.
Proof.
  induction k as [|k IH]; intro n.
  - cbn [le_encode le_decode]. change (N.of_nat 0) with 0. rewrite N.pow_0_r, N.mod_1_r. reflexivity.
  - cbn [le_encode le_decode]. rewrite IH, to_N_byte_of_N, Nat2N.inj_succ, N.pow_succ_r'.
    rewrite N.mod_mul_r; [reflexivity|discriminate|].
    apply N.pow_nonzero. discriminate.
Qed.

Lemma le_decode_lt l : le_decode l < 256 ^ N.of_nat (length l).
Proof.
  induction l as [|b l IH]; cbn [le_decode length].
  - change (N.of_nat 0) with 0. rewrite N.pow_0_r. lia.
  - rewrite Nat2N.inj_succ, N.pow_succ_r'. pose proof (to_N_lt b). lia.
Qed.

Lemma le_encode_decode l : le_encode (length l) (le_decode l) = l.
Proof.
  induction l as [|b l IH]; cbn [le_decode length le_encode]; [reflexivity|].
  pose proof (to_N_lt b) as Hb.
  assert (E1 : (Byte.to_N b + 256 * le_decode l) mod 256 = Byte.to_N b) by lia.
  assert (E2 : (Byte.to_N b + 256 * le_decode l) / 256 = le_decode l) by lia.
  rewrite <- byte_of_N_mod, E1, E2, byte_of_N_to_N, IH. reflexivity.
Qed.

Lemma pow256_4 : 256 ^ N.of_nat 4 = two32.
Proof. reflexivity. Qed.
Lemma pow256_8 : 256 ^ N.of_nat 8 = two64.
Proof. reflexivity. Qed.

Lemma put_u32_length n : length (put_u32 n) = 4%nat.
Proof. apply le_encode_length. Qed.
Lemma put_i64_length z : length (put_i64 z) = 8%nat.
Proof. apply le_encode_length. Qed.

Lemma le_decode_put_u32 n : le_decode (put_u32 n) = n mod two32.
Proof. unfold put_u32. rewrite le_decode_encode, pow256_4, N.mod_mod by discriminate. reflexivity. Qed.

Lemma i64_decode_put z : i64_range z -> i64_of_N (le_decode (put_i64 z)) = z.
Proof.
  unfold i64_range, put_i64, i64_of_N. intro H.
  rewrite le_decode_encode, pow256_8.
  change (Z.of_N two64) with 18446744073709551616%Z.
  assert (Hm : (0 <= z mod 18446744073709551616 < 18446744073709551616)%Z) by (apply Z.mod_pos_bound; lia).
  rewrite N.mod_small by (unfold two64; lia).
  destruct (N.ltb_spec (Z.to_N (z mod 18446744073709551616)) two63) as [L|L]; unfold two63 in L; lia.
Qed.

Lemma i64_of_N_range n : n < two64 -> i64_range (i64_of_N n).
Proof.
  unfold i64_of_N, i64_range, two64. intro H.
  destruct (N.ltb_spec n two63) as [L|L]; unfold two63, two64 in *; lia.
Qed.

Lemma put_i64_of_N n : n < two64 -> put_i64 (i64_of_N n) = le_encode 8 n.
Proof.
  unfold put_i64, i64_of_N. intro H. f_equal.
  destruct (N.ltb_spec n two63) as [L|L]; unfold two63, two64 in *; lia.
Qed.

(* ------------------------------------------------------------------ the write buffer *)
Lemma wb_write_rev x s : wb_write (rev x) s = rev (x ++ s).
Proof. unfold wb_write. rewrite rev_append_rev, rev_app_distr. reflexivity. Qed.

Lemma wb_bytes_rev x : wb_bytes (rev x) = x.
Proof. unfold wb_bytes. rewrite rev_append_rev, app_nil_r, rev_involutive. reflexivity. Qed.

Lemma write_string_rev x s : write_string (rev x) s = rev (x ++ put_u32 (lenN s) ++ s).
Proof. unfold write_string. rewrite !wb_write_rev, <- app_assoc. reflexivity. Qed.

(* the flat layout *)
Lemma serialize_flat c :
  serialize_compiled c =
  x01 :: put_u32 (lenN (c_name c)) ++ c_name c ++ put_u32 (lenN (c_source c)) ++ c_source c ++
  put_i64 (c_last_modified c) ++ put_i64 (c_compile_time c) ++ put_u32 (lenN (c_ast c)) ++ c_ast c.
Proof.
  unfold serialize_compiled.
  change (@nil byte) with (rev (@nil byte)) at 1.
  rewrite wb_write_rev, !write_string_rev, !wb_write_rev, wb_bytes_rev.
  cbn [app]. rewrite <- !app_assoc. reflexivity.
Qed.

(* ------------------------------------------------------------------ the bounds-checked accessor *)
Lemma read_exact_acc_app s : forall rest acc,
  read_exact_acc (s ++ rest) (lenN s) acc = Some (rev acc ++ s, rest).
Proof.
  induction s as [|b s IH]; intros rest acc.
  - cbn [app]. rewrite lenN_nil. destruct rest; cbn [read_exact_acc N.eqb];
      rewrite rev_append_rev, !app_nil_r; reflexivity.
  - cbn [app read_exact_acc]. rewrite lenN_cons.
    destruct (N.eqb_spec (N.succ (lenN s)) 0) as [E|E]; [lia|].
    rewrite N.pred_succ, IH. cbn [rev]. rewrite <- app_assoc. reflexivity.
Qed.

Lemma read_exact_app s rest : read_exact (s ++ rest) (lenN s) = Some (s, rest).
Proof. unfold read_exact. rewrite read_exact_acc_app. reflexivity. Qed.

Lemma read_exact_acc_some l : forall n acc a r,
  read_exact_acc l n acc = Some (a, r) -> exists s, a = rev acc ++ s /\ l = s ++ r /\ lenN s = n.
Proof.
  induction l as [|b l IH]; intros n acc a r H; cbn [read_exact_acc] in H.
  - destruct (N.eqb_spec n 0) as [E|E]; [|discriminate].
    inversion H; subst. exists []. rewrite rev_append_rev, !app_nil_r. auto.
  - destruct (N.eqb_spec n 0) as [E|E].
    + inversion H; subst. exists []. rewrite rev_append_rev, !app_nil_r. auto.
    + apply IH in H. destruct H as [s [Ha [Hl Hn]]]. exists (b :: s).
      rewrite lenN_cons. cbn [rev] in Ha. rewrite <- app_assoc in Ha. cbn [app] in *.
      repeat split; [exact Ha|congruence|lia].
Qed.

Lemma read_exact_some l n a r : read_exact l n = Some (a, r) -> l = a ++ r /\ lenN a = n.
Proof.
  unfold read_exact. intro H. apply read_exact_acc_some in H.
  destruct H as [s [Ha [Hl Hn]]]. cbn [rev app] in Ha. subst. auto.
Qed.

Lemma read_exact_acc_none l : forall n acc, read_exact_acc l n acc = None <-> lenN l < n.
Proof.
  induction l as [|b l IH]; intros n acc; cbn [read_exact_acc].
  - rewrite lenN_nil. destruct (N.eqb_spec n 0); split; intro; try discriminate; try lia; reflexivity.
  - rewrite lenN_cons. destruct (N.eqb_spec n 0) as [E|E].
    + split; intro; [discriminate|lia].
    + rewrite IH. lia.
Qed.

Lemma read_exact_none l n : read_exact l n = None <-> lenN l < n.
Proof. apply read_exact_acc_none. Qed.

(* the typed readers on what the writers produce *)
Lemma read_u32_put n rest : read_u32 (put_u32 n ++ rest) = Some (n mod two32, rest).
Proof.
  unfold read_u32.
  replace 4 with (lenN (put_u32 n)) at 1 by (rewrite lenN_length, put_u32_length; reflexivity).
  rewrite read_exact_app, le_decode_put_u32. reflexivity.
Qed.

Lemma read_i64_put z rest : i64_range z -> read_i64 (put_i64 z ++ rest) = Some (z, rest).
Proof.
  intro H. unfold read_i64.
  replace 8 with (lenN (put_i64 z)) at 1 by (rewrite lenN_length, put_i64_length; reflexivity).
  rewrite read_exact_app, i64_decode_put by exact H. reflexivity.
Qed.

(* and the converse: what the typed readers accept is what the writers produce *)
Lemma read_u32_some l n r : read_u32 l = Some (n, r) -> l = put_u32 n ++ r /\ n < two32.
Proof.
  unfold read_u32. destruct (read_exact l 4) as [[bs r']|] eqn:E; [|discriminate].
  intro H. inversion H; subst. apply read_exact_some in E. destruct E as [-> Hl].
  rewrite lenN_length in Hl.
  assert (Hlen : length bs = 4%nat) by lia.
  pose proof (le_decode_lt bs) as Hlt. rewrite Hlen, pow256_4 in Hlt.
  split; [|exact Hlt].
  unfold put_u32. rewrite N.mod_small by exact Hlt.
  rewrite <- Hlen, le_encode_decode. reflexivity.
Qed.

Lemma read_i64_some l z r : read_i64 l = Some (z, r) -> l = put_i64 z ++ r /\ i64_range z.
Proof.
  unfold read_i64. destruct (read_exact l 8) as [[bs r']|] eqn:E; [|discriminate].
  intro H. inversion H; subst. apply read_exact_some in E. destruct E as [-> Hl].
  rewrite lenN_length in Hl.
  assert (Hlen : length bs = 8%nat) by lia.
  pose proof (le_decode_lt bs) as Hlt. rewrite Hlen, pow256_8 in Hlt.
  split; [|apply i64_of_N_range; exact Hlt].
  rewrite put_i64_of_N by exact Hlt.
  rewrite <- Hlen, le_encode_decode. reflexivity.
Qed.

(* ------------------------------------------------------------------ the length-checked string reader *)
Lemma read_string_tr_put s rest : lenN s < two32 ->
  read_string_tr (put_u32 (lenN s) ++ s ++ rest) = (Some (s, rest), [lenN s]).
Proof.
  intro H. unfold read_string_tr. rewrite read_u32_put, (N.mod_small _ _ H).
  destruct (N.ltb_spec (lenN (s ++ rest)) (lenN s)) as [L|L].
  - rewrite lenN_app in L. lia.
  - rewrite read_exact_app. reflexivity.
Qed.

Lemma read_string_tr_some l s r al : read_string_tr l = (Some (s, r), al) ->
  l = put_u32 (lenN s) ++ s ++ r /\ lenN s < two32 /\ al = [lenN s].
Proof.
  unfold read_string_tr. destruct (read_u32 l) as [[n r1]|] eqn:E; [|discriminate].
  destruct (lenN r1 <? n); [discriminate|].
  intro H. inversion H as [[H1 H2]]. clear H.
  apply read_u32_some in E. destruct E as [-> L].
  apply read_exact_some in H1. destruct H1 as [-> Hn]. subst n. auto.
Qed.

Lemma read_string_tr_none l al : read_string_tr l = (None, al) -> al = [].
Proof.
  unfold read_string_tr. destruct (read_u32 l) as [[n r1]|] eqn:E; [|intro H; inversion H; reflexivity].
  destruct (N.ltb_spec (lenN r1) n) as [L|L]; [intro H; inversion H; reflexivity|].
  intro H. inversion H as [[H1 H2]]. apply read_exact_none in H1. lia.
Qed.

(* ------------------------------------------------------------------ well-formed records *)
Lemma deserialize_binary_tr_serialize c rest : wf_compiled c ->
  deserialize_binary_tr (serialize_compiled c ++ rest) =
  (Some c, [lenN (c_name c); lenN (c_source c); lenN (c_ast c)]).
Proof.
  intros (Hn & Hs & Ha & Hl & Ht). destruct c as [name src lm ct ast]. cbn [c_name c_source c_ast c_last_modified c_compile_time] in *.
  rewrite serialize_flat. cbn [c_name c_source c_ast c_last_modified c_compile_time].
  unfold deserialize_binary_tr.
  rewrite <- app_comm_cons. cbn [read_u8].
  rewrite byte_eqb_refl. cbn [negb].
  rewrite <- !app_assoc.
  rewrite read_string_tr_put by exact Hn.
  rewrite read_string_tr_put by exact Hs.
  rewrite read_i64_put by exact Hl. rewrite read_i64_put by exact Ht.
  rewrite read_string_tr_put by exact Ha.
  reflexivity.
Qed.

Lemma deserialize_binary_serialize_rest c rest : wf_compiled c ->
  deserialize_binary (serialize_compiled c ++ rest) = Some c.
Proof. intro H. unfold deserialize_binary. rewrite deserialize_binary_tr_serialize by exact H. reflexivity. Qed.

Lemma deserialize_binary_serialize c : wf_compiled c -> deserialize_binary (serialize_compiled c) = Some c.
Proof. intro H. rewrite <- (app_nil_r (serialize_compiled c)). apply deserialize_binary_serialize_rest. exact H. Qed.

(* every accepted input is a serialisation followed by bytes that are never looked at *)
Lemma deserialize_binary_sound data c : deserialize_binary data = Some c ->
  wf_compiled c /\ exists rest, data = serialize_compiled c ++ rest.
Proof.
  unfold deserialize_binary, deserialize_binary_tr.
  destruct (read_u8 data) as [[v r0]|] eqn:E0; [|discriminate].
  destruct (Byte.eqb v x01) eqn:Ev; cbn [negb]; [|discriminate].
  destruct (read_string_tr r0) as [[[name r2]|] a1] eqn:E1; [|discriminate].
  destruct (read_string_tr r2) as [[[src r4]|] a2] eqn:E2; [|discriminate].
  destruct (read_i64 r4) as [[lm r5]|] eqn:E5; [|discriminate].
  destruct (read_i64 r5) as [[ct r6]|] eqn:E6; [|discriminate].
  destruct (read_string_tr r6) as [[[ast r8]|] a3] eqn:E7; [|discriminate].
  cbn [fst]. intro H. inversion H; subst c. clear H.
  apply byte_eqb_eq in Ev. subst v.
  unfold read_u8 in E0. destruct data as [|d data]; [discriminate|]. inversion E0; subst d r0. clear E0.
  apply read_string_tr_some in E1. destruct E1 as (-> & L1 & _).
  apply read_string_tr_some in E2. destruct E2 as (-> & L2 & _).
  apply read_i64_some in E5. destruct E5 as [-> R5].
  apply read_i64_some in E6. destruct E6 as [-> R6].
  apply read_string_tr_some in E7. destruct E7 as (-> & L7 & _).
  split.
  - unfold wf_compiled. cbn [c_name c_source c_ast c_last_modified c_compile_time]. auto.
  - exists r8. rewrite serialize_flat. cbn [c_name c_source c_ast c_last_modified c_compile_time].
    rewrite <- app_comm_cons, <- !app_assoc. reflexivity.
Qed.

(* ------------------------------------------------------------------ round trip *)
Lemma serialize_nonempty c : serialize_compiled c <> [].
Proof. rewrite serialize_flat. discriminate. Qed.

Lemma C16_roundtrip_proof : forall (gob : bytes -> option compiled) (c : compiled),
  wf_compiled c -> deserialize_compiled gob (serialize_compiled c) = Some c.
Proof.
  intros gob c H. unfold deserialize_compiled.
  pose proof (serialize_nonempty c) as Hne.
  destruct (serialize_compiled c) as [|b l] eqn:E; [congruence|].
  rewrite <- E, deserialize_binary_serialize by exact H. reflexivity.
Qed.

Lemma C16_roundtrip_trailing_proof : forall (gob : bytes -> option compiled) (c : compiled) (rest : bytes),
  wf_compiled c -> deserialize_compiled gob (serialize_compiled c ++ rest) = Some c.
Proof.
  intros gob c rest H. unfold deserialize_compiled.
  pose proof (serialize_nonempty c) as Hne.
  destruct (serialize_compiled c ++ rest) as [|b l] eqn:E.
  - apply app_eq_nil in E. destruct E. congruence.
  - rewrite <- E, deserialize_binary_serialize_rest by exact H. reflexivity.
Qed.

(* the guarded writer: it emits the layout exactly when no field reaches 2^32 bytes *)
Lemma serialize_checked_some c data : serialize_compiled_checked c = Some data ->
  data = serialize_compiled c /\ lenN (c_name c) < two32 /\ lenN (c_source c) < two32 /\ lenN (c_ast c) < two32.
Proof.
  unfold serialize_compiled_checked.
  destruct (N.leb_spec two32 (lenN (c_name c))); cbn [orb]; [discriminate|].
  destruct (N.leb_spec two32 (lenN (c_source c))); cbn [orb]; [discriminate|].
  destruct (N.leb_spec two32 (lenN (c_ast c))); cbn [orb]; [discriminate|].
  intro E. inversion E. auto.
Qed.

Lemma C16_roundtrip_checked_proof : forall (gob : bytes -> option compiled) (c : compiled) (data : bytes),
  i64_range (c_last_modified c) -> i64_range (c_compile_time c) ->
  serialize_compiled_checked c = Some data -> deserialize_compiled gob data = Some c.
Proof.
  intros gob c data Hl Ht E. apply serialize_checked_some in E. destruct E as (-> & Hn & Hs & Ha).
  apply C16_roundtrip_proof. unfold wf_compiled. auto.
Qed.

Lemma C16_oversize_refused_proof : forall c : compiled,
  oversize c <-> serialize_compiled_checked c = None.
Proof.
  intro c. unfold oversize, serialize_compiled_checked.
  destruct (N.leb_spec two32 (lenN (c_name c))); cbn [orb]; [split; auto|].
  destruct (N.leb_spec two32 (lenN (c_source c))); cbn [orb]; [split; auto|].
  destruct (N.leb_spec two32 (lenN (c_ast c))); cbn [orb]; [split; auto|].
  split; [intros [X|[X|X]]; lia|discriminate].
Qed.

(* serialisations of well-formed records are prefix free *)
Lemma serialize_prefix_free c c' t : wf_compiled c -> wf_compiled c' ->
  serialize_compiled c = serialize_compiled c' ++ t -> c = c' /\ t = [].
Proof.
  intros H H' E.
  pose proof (deserialize_binary_serialize c H) as D.
  rewrite E, deserialize_binary_serialize_rest in D by exact H'.
  inversion D; subst c'. split; [reflexivity|].
  rewrite <- (app_nil_r (serialize_compiled c)) in E at 1.
  apply app_inv_head in E. congruence.
Qed.

(* ------------------------------------------------------------------ truncation *)
Lemma truncation_binary c p q : wf_compiled c -> serialize_compiled c = p ++ q -> q <> [] ->
  deserialize_binary p = None.
Proof.
  intros H E Hq. destruct (deserialize_binary p) as [c'|] eqn:D; [|reflexivity].
  apply deserialize_binary_sound in D. destruct D as [H' [rest ->]].
  rewrite <- app_assoc in E. apply serialize_prefix_free in E; try assumption.
  destruct E as [_ E]. apply app_eq_nil in E. destruct E. contradiction.
Qed.

(* every strict prefix of a serialisation is an error, whatever the gob decoder would say: the prefix
   is empty or begins with the version byte, and such data never reaches gob *)
Lemma C16_truncation_is_error_proof : forall (gob : bytes -> option compiled) (c : compiled) (p q : bytes),
  wf_compiled c -> serialize_compiled c = p ++ q -> q <> [] ->
  deserialize_binary p = None /\ deserialize_compiled gob p = None.
Proof.
  intros gob c p q H E Hq. pose proof (truncation_binary c p q H E Hq) as D.
  split; [exact D|]. unfold deserialize_compiled. rewrite D.
  destruct p as [|v p]; [reflexivity|].
  rewrite serialize_flat in E. cbn [app] in E. inversion E; subst v.
  rewrite byte_eqb_refl. reflexivity.
Qed.

(* more generally: data that begins with the version byte is decided by the binary reader alone *)
Lemma C16_version_byte_never_reaches_gob_proof : forall (gob : bytes -> option compiled) (d : bytes),
  deserialize_compiled gob (x01 :: d) = deserialize_binary (x01 :: d).
Proof.
  intros gob d. unfold deserialize_compiled. rewrite byte_eqb_refl.
  destruct (deserialize_binary (x01 :: d)); reflexivity.
Qed.

Lemma wf_empty_compiled : wf_compiled empty_compiled.
Proof. unfold wf_compiled, empty_compiled, i64_range. cbn. repeat split; lia. Qed.

(* ------------------------------------------------------------------ totality, index safety, allocation *)
Lemma C16_deserialize_total_proof :
  (forall (gob : bytes -> option compiled) (data : bytes),
     deserialize_compiled gob data = None \/ exists c, deserialize_compiled gob data = Some c) /\
  (forall (l : bytes) (n : N),
     (lenN l < n -> read_exact l n = None) /\
     (n <= lenN l -> exists a r, read_exact l n = Some (a, r) /\ l = a ++ r /\ lenN a = n)) /\
  (forall (data : bytes) (c : compiled),
     deserialize_binary data = Some c -> wf_compiled c /\ exists rest, data = serialize_compiled c ++ rest).
Proof.
  split; [|split].
  - intros gob data. destruct (deserialize_compiled gob data) as [c|]; [right; exists c; reflexivity|left; reflexivity].
  - intros l n. split.
    + apply read_exact_none.
    + intro H. destruct (read_exact l n) as [[a r]|] eqn:E.
      * exists a, r. split; [reflexivity|]. apply read_exact_some. exact E.
      * apply read_exact_none in E. lia.
  - apply deserialize_binary_sound.
Qed.

(* the buffers the reader asks for, all together, never exceed the input: each make([]byte, n) comes
   after n <= r.Len(), and the bytes it is filled with are consumed *)
Definition sumN (l : list N) : N := fold_right N.add 0 l.

Lemma read_string_tr_budget l res al : read_string_tr l = (res, al) ->
  match res with
  | Some (s, r) => sumN al + 4 + lenN r = lenN l
  | None => al = []
  end.
Proof.
  destruct res as [[s r]|]; intro H.
  - apply read_string_tr_some in H. destruct H as (-> & _ & ->).
    rewrite !lenN_app, (lenN_length (put_u32 (lenN s))), put_u32_length. cbn [sumN fold_right]. lia.
  - apply read_string_tr_none in H. exact H.
Qed.

Lemma read_i64_len l z r : read_i64 l = Some (z, r) -> lenN l = 8 + lenN r.
Proof.
  intro H. apply read_i64_some in H. destruct H as [-> _].
  rewrite lenN_app, (lenN_length (put_i64 z)), put_i64_length. reflexivity.
Qed.

Lemma sumN_app a b : sumN (a ++ b) = sumN a + sumN b.
Proof. unfold sumN. induction a as [|x a IH]; cbn [app fold_right]; [reflexivity|rewrite IH; lia]. Qed.

Lemma sumN_in n al : In n al -> n <= sumN al.
Proof.
  unfold sumN. induction al as [|x al IH]; cbn [In fold_right]; [intros []|].
  intros [->|H]; [lia|]. apply IH in H. lia.
Qed.

Lemma C16_alloc_bounded_by_input_proof : forall data : bytes,
  sumN (deserialize_allocs data) <= lenN data /\
  (forall n, In n (deserialize_allocs data) -> n <= lenN data).
Proof.
  intro data.
  assert (S : sumN (deserialize_allocs data) <= lenN data).
  { unfold deserialize_allocs, deserialize_binary_tr.
    destruct (read_u8 data) as [[v r0]|] eqn:E0; [|cbn; lia].
    destruct (Byte.eqb v x01); cbn [negb]; [|cbn; lia].
    unfold read_u8 in E0. destruct data as [|d data]; [discriminate|]. inversion E0; subst d r0. clear E0.
    rewrite lenN_cons.
    destruct (read_string_tr data) as [[[name r2]|] a1] eqn:E1; apply read_string_tr_budget in E1;
      [|subst a1; cbn; lia].
    destruct (read_string_tr r2) as [[[src r4]|] a2] eqn:E2; apply read_string_tr_budget in E2;
      [|subst a2; cbn [snd]; rewrite sumN_app; cbn [sumN fold_right]; lia].
    destruct (read_i64 r4) as [[lm r5]|] eqn:E5; [|cbn [snd]; rewrite sumN_app; lia].
    apply read_i64_len in E5.
    destruct (read_i64 r5) as [[ct r6]|] eqn:E6; [|cbn [snd]; rewrite sumN_app; lia].
    apply read_i64_len in E6.
    destruct (read_string_tr r6) as [[[ast r8]|] a3] eqn:E7; apply read_string_tr_budget in E7;
      cbn [snd]; rewrite !sumN_app; [lia|subst a3; cbn [sumN fold_right]; lia]. }
  split; [exact S|].
  intros n Hin. apply sumN_in in Hin. lia.
Qed.

(* the input that made the unrepaired reader request 4294967295 bytes now requests nothing *)
Lemma C16_alloc_regression_example_proof :
  deserialize_binary [x01; xff; xff; xff; xff] = None /\ deserialize_allocs [x01; xff; xff; xff; xff] = [].
Proof. vm_compute. split; reflexivity. Qed.

(* ------------------------------------------------------------------ loading *)
Lemma C16_compiled_equals_source_proof :
  forall (tree : Type) (parse_source ast_decode : bytes -> option tree) (gob : bytes -> option compiled) (c c' : compiled),
    wf_compiled c ->
    (forall t, ast_decode (c_ast c) = Some t -> parse_source (c_source c) = Some t) ->
    deserialize_compiled gob (serialize_compiled c) = Some c' ->
    load_from_compiled tree parse_source ast_decode c' = parse_source (c_source c).
Proof.
  intros tree ps ad gob c c' H Hast D.
  rewrite C16_roundtrip_proof in D by exact H. inversion D; subst c'.
  unfold load_from_compiled. destruct (c_ast c) as [|a l] eqn:E; [reflexivity|].
  destruct (ad (a :: l)) as [t|] eqn:A; [|reflexivity].
  symmetry. apply Hast. reflexivity.
Qed.

Lemma C16_loader_roundtrip_proof :
  forall (gob : bytes -> option compiled) (dir : list (bytes * bytes)) (name : bytes) (c : compiled),
    wf_compiled c -> loader_load gob (loader_save dir name c) name = Some (c_source c).
Proof.
  intros gob dir name c H. unfold loader_load, loader_save. cbn [assoc_bytes].
  rewrite bytes_eqb_refl, C16_roundtrip_proof by exact H. reflexivity.
Qed.

(* ------------------------------------------------------------------ the code still has the shape the model mirrors
   (Gen/CompiledLayout.v is regenerated from compiled.go and compiled_loader.go on every run) *)
Lemma C16_layout_proof :
  gen_compiled_shape_ok = true /\
  gen_compiled_fields = model_compiled_fields /\
  gen_serialize_ops = model_serialize_ops /\
  gen_write_string_ops = model_write_string_ops /\
  gen_read_string_ops = model_read_string_ops /\
  gen_deserialize_binary_ops = model_deserialize_binary_ops /\
  gen_deserialize_ops = model_deserialize_ops /\
  gen_compiled_ext = compiled_ext /\
  gen_compiled_paths = model_compiled_paths.
Proof. vm_compute. repeat split; reflexivity. Qed.
