(* C09: the context is carried from one iteration of a for loop to the next. c9_loop (Spec/ControlSpec.v) is a fold over
   the numbered items; here it is unfolded from the left: the first iteration runs in the loop's context with its own
   bindings, and everything after it starts from the context that iteration ended with. With C09_iteration_bindings
   (the bindings of an iteration leave every other variable as it is) this is the sentence "a set makes the assigned
   value visible to ... later iterations". *)
From Twig Require Import Base.Bytes Base.Utf8 Model.Ast Model.Value Model.ValueOps Model.EvalBuiltins Model.Ctx
                         Model.TemplateSet Model.Eval Spec.ControlSpec Proofs.EvalProofs.
From Coq Require Import List ZArith Lia.
Import ListNotations.

(* output o and trace t put in front of a result *)
Definition c9_prepend (o : bytes) (t : ev_trace) (r : ev_rres) : ev_rres :=
  match r with
  | (Ok o2, c2, t2) => (Ok (o ++ o2), c2, t ++ t2)
  | (e, c2, t2) => (e, c2, t ++ t2)
  end.

(* the iterations numbered from i on, of a loop of n iterations in all *)
Definition c9_loop_from (body : rctx -> ev_rres) (k : option bytes) (v : bytes) (n i : Z)
                        (items : list (value * value)) (c : rctx) : ev_rres :=
  fold_left (c9_step body k v n) (combine (c9_zseq i (length items)) items) (ev_rret [] c).

Lemma c9_loop_is_from body k v items c :
  c9_loop body k v items c = c9_loop_from body k v (Z.of_nat (length items)) 0 items c.
Proof. reflexivity. Qed.

Definition rres_failed (r : ev_rres) : Prop := match r with (Ok _, _, _) => False | _ => True end.

Lemma c9_fold_failed body k v n xs r :
  rres_failed r -> fold_left (c9_step body k v n) xs r = r.
Proof.
  revert r. induction xs as [|x xs IH]; intros r Hr; cbn [fold_left]; [reflexivity|].
  assert (Hs : c9_step body k v n r x = r).
  { destruct r as [[o c] t]. destruct o; cbn in Hr; try contradiction; reflexivity. }
  rewrite Hs. apply IH. exact Hr.
Qed.

Lemma c9_prepend_prepend o1 t1 o2 t2 r :
  c9_prepend (o1 ++ o2) (t1 ++ t2) r = c9_prepend o1 t1 (c9_prepend o2 t2 r).
Proof. destruct r as [[o c] t]. destruct o; cbn [c9_prepend]; rewrite <- ?app_assoc; reflexivity. Qed.

Lemma c9_step_prepend body k v n o c t x :
  c9_step body k v n (Ok o, c, t) x = c9_prepend o t (c9_step body k v n (ev_rret [] c) x).
Proof.
  unfold c9_step, ev_rret. cbn [ev_rseq].
  destruct (body (c9_iter_ctx c k v n (fst x) (snd x))) as [[o2 c2] t2].
  destruct o2; cbn [c9_prepend app]; reflexivity.
Qed.

Lemma c9_prepend_failed o t r : rres_failed r -> rres_failed (c9_prepend o t r).
Proof. destruct r as [[o2 c2] t2]. destruct o2; cbn; auto. Qed.

Lemma c9_fold_prepend body k v n xs : forall r o t,
  fold_left (c9_step body k v n) xs (c9_prepend o t r) =
  c9_prepend o t (fold_left (c9_step body k v n) xs r).
Proof.
  induction xs as [|x xs IH]; intros r o t; [reflexivity|].
  destruct r as [[o2 c2] t2]. destruct o2 as [o2|e| |].
  - cbn [fold_left c9_prepend]. rewrite (c9_step_prepend body k v n (o ++ o2)), (c9_step_prepend body k v n o2).
    rewrite !IH. apply c9_prepend_prepend.
  - rewrite (c9_fold_failed body k v n (x :: xs) (Err e, c2, t2)) by exact I.
    apply c9_fold_failed. apply c9_prepend_failed. exact I.
  - rewrite (c9_fold_failed body k v n (x :: xs) (OutOfFuel, c2, t2)) by exact I.
    apply c9_fold_failed. apply c9_prepend_failed. exact I.
  - rewrite (c9_fold_failed body k v n (x :: xs) (Unmodelled, c2, t2)) by exact I.
    apply c9_fold_failed. apply c9_prepend_failed. exact I.
Qed.

Lemma c9_fold_acc body k v n xs o c t :
  fold_left (c9_step body k v n) xs (Ok o, c, t) =
  c9_prepend o t (fold_left (c9_step body k v n) xs (ev_rret [] c)).
Proof.
  rewrite <- c9_fold_prepend. unfold ev_rret. cbn [c9_prepend]. rewrite !app_nil_r. reflexivity.
Qed.

Lemma C09_loop_threads_context_proof : forall body k v n i it rest c,
  c9_loop_from body k v n i (it :: rest) c =
  match body (c9_iter_ctx c k v n i it) with
  | (Ok o1, c1, t1) => c9_prepend o1 t1 (c9_loop_from body k v n (i + 1) rest c1)
  | other => other
  end.
Proof.
  intros. unfold c9_loop_from. cbn [length c9_zseq combine fold_left].
  unfold ev_rret at 1. unfold c9_step at 2. cbn [ev_rseq fst snd].
  destruct (body (c9_iter_ctx c k v n i it)) as [[o1 c1] t1].
  destruct o1 as [o1|e| |]; cbn [app].
  - apply c9_fold_acc.
  - apply c9_fold_failed. exact I.
  - apply c9_fold_failed. exact I.
  - apply c9_fold_failed. exact I.
Qed.

(* what a later iteration reads: a name that is none of the loop's own (value, key, loop) has, at the start of
   iteration i + 1, the value it had when iteration i ended *)
Lemma C09_set_visible_next_iteration_proof : forall body k v n i it it' rest c o1 c1 t1 x,
  body (c9_iter_ctx c k v n i it) = (Ok o1, c1, t1) ->
  x <> b#"loop" -> x <> v -> k <> Some x ->
  c9_loop_from body k v n i (it :: it' :: rest) c =
    c9_prepend o1 t1 (c9_loop_from body k v n (i + 1) (it' :: rest) c1) /\
  rc_get_var (c9_iter_ctx c1 k v n (i + 1) it') x = rc_get_var c1 x.
Proof.
  intros body k v n i it it' rest c o1 c1 t1 x Hb Hl Hv Hk. split.
  - rewrite C09_loop_threads_context_proof, Hb. reflexivity.
  - apply C09_iteration_bindings_proof; assumption.
Qed.

(* the loop of the specification, unfolded once *)
Lemma C09_loop_unfold_proof : forall body k v it rest c,
  c9_loop body k v (it :: rest) c =
  match body (c9_iter_ctx c k v (Z.of_nat (S (length rest))) 0 it) with
  | (Ok o1, c1, t1) => c9_prepend o1 t1 (c9_loop_from body k v (Z.of_nat (S (length rest))) 1 rest c1)
  | other => other
  end.
Proof. intros. rewrite c9_loop_is_from. apply (C09_loop_threads_context_proof body k v _ 0 it rest c). Qed.
