(* C01: proofs about the pool machine Model/Pool.v against Spec/PoolSpec.v. *)
From Coq Require Import Permutation.
From Twig Require Import Base.Bytes Model.Ast Gen.CtxReset Gen.PoolCalls Model.Pool Spec.PoolSpec.

(* ------------------------------------------------------------------ induction on trees *)
Lemma pool_tree_ind' (P : pool_tree -> Prop) :
  (forall k pl cs, Forall P cs -> P (PoolT k pl cs)) -> forall t, P t.
Proof.
  intro H. fix IH 1. intros [k pl cs]. apply H.
  induction cs as [|c cs IHcs]; constructor; [apply IH|exact IHcs].
Qed.

Lemma pool_itree_ind' (P : pool_itree -> Prop) :
  (forall i k pl cs, Forall P cs -> P (PoolIT i k pl cs)) -> forall t, P t.
Proof.
  intro H. fix IH 1. intros [i k pl cs]. apply H.
  induction cs as [|c cs IHcs]; constructor; [apply IH|exact IHcs].
Qed.

(* ------------------------------------------------------------------ keys and association lists *)
Lemma pool_key_eqb_eq (a b : pool_key) : pool_key_eqb a b = true <-> a = b.
Proof.
  destruct a as [e n], b as [e' n']. unfold pool_key_eqb. simpl.
  rewrite andb_true_iff, Nat.eqb_eq, N.eqb_eq. split.
  - intros [-> ->]. reflexivity.
  - intro H. inversion H. split; reflexivity.
Qed.

Lemma pool_key_eqb_refl (a : pool_key) : pool_key_eqb a a = true.
Proof. apply pool_key_eqb_eq. reflexivity. Qed.

Lemma pool_assoc_in {A} (l : list (pool_key * A)) k v : pool_assoc l k = Some v -> In (k, v) l.
Proof.
  induction l as [|[k' v'] r IH]; simpl; [discriminate|].
  destruct (pool_key_eqb k' k) eqn:E.
  - intro H. inversion H; subst. apply pool_key_eqb_eq in E. subst. left. reflexivity.
  - intro H. right. apply IH. exact H.
Qed.

(* ------------------------------------------------------------------ heap *)
Lemma pool_hget_cons_eq h i c : pool_hget ((i, c) :: h) i = Some c.
Proof. simpl. rewrite Nat.eqb_refl. reflexivity. Qed.

Lemma pool_hget_cons_neq h i j c : i <> j -> pool_hget ((i, c) :: h) j = pool_hget h j.
Proof. intro H. simpl. destruct (Nat.eqb i j) eqn:E; [apply Nat.eqb_eq in E; contradiction|reflexivity]. Qed.

(* the heap holds the tree it, node by node, at the ids it names *)
Inductive pool_holds (h : pool_heap) : pool_itree -> Prop :=
| pool_holds_node i k pl cs :
    pool_hget h i = Some (mk_pcell k pl (map pool_it_root cs)) ->
    Forall (pool_holds h) cs -> pool_holds h (PoolIT i k pl cs).

Lemma pool_it_root_in_ids it : In (pool_it_root it) (pool_it_ids it).
Proof. destruct it. simpl. left. reflexivity. Qed.

Lemma pool_ids_child_in cs c x : In c cs -> In x (pool_it_ids c) -> In x (flat_map pool_it_ids cs).
Proof. intros Hc Hx. apply in_flat_map. exists c. split; assumption. Qed.

(* frame: writes outside the ids of a tree do not disturb it *)
Lemma pool_holds_frame h h' it :
  (forall x, In x (pool_it_ids it) -> pool_hget h' x = pool_hget h x) ->
  pool_holds h it -> pool_holds h' it.
Proof.
  induction it as [i k pl cs IH] using pool_itree_ind'. intros Hf Hh.
  inversion Hh as [i0 k0 pl0 cs0 Hget Hcs]; subst.
  constructor.
  - rewrite Hf; [exact Hget|]. simpl. left. reflexivity.
  - rewrite Forall_forall in *. intros c Hc. apply IH; [exact Hc| |apply Hcs; exact Hc].
    intros x Hx. apply Hf. simpl. right. eapply pool_ids_child_in; eassumption.
Qed.

(* reachability stays inside the ids of a held tree *)
Lemma pool_holds_reach h r x : pool_reach h r x ->
  forall it, pool_holds h it -> pool_it_root it = r -> In x (pool_it_ids it).
Proof.
  induction 1 as [i|i c j x Hget Hj Hr IH]; intros it Hh Hroot.
  - subst. apply pool_it_root_in_ids.
  - destruct it as [i0 k pl cs]. simpl in Hroot. subst i0.
    inversion Hh as [i1 k1 pl1 cs1 Hget' Hcs]; subst.
    rewrite Hget in Hget'. inversion Hget'; subst c. simpl in Hj.
    apply in_map_iff in Hj. destruct Hj as [cj [Hrj Hcj]].
    simpl. right. eapply pool_ids_child_in; [exact Hcj|].
    apply IH; [|exact Hrj]. rewrite Forall_forall in Hcs. apply Hcs. exact Hcj.
Qed.

(* reading a held tree back gives its shape *)
Lemma pool_opt_map_holds (f : nat -> option pool_tree) cs :
  Forall (fun c => f (pool_it_root c) = Some (pool_it_shape c)) cs ->
  pool_opt_map f (map pool_it_root cs) = Some (map pool_it_shape cs).
Proof.
  induction 1 as [|c cs Hc Hcs IH]; simpl; [reflexivity|]. rewrite Hc, IH. reflexivity.
Qed.

Lemma pool_depth_child k pl cs c : In c cs -> pool_depth c < pool_depth (PoolT k pl cs).
Proof.
  simpl. induction cs as [|c0 cs IH]; intro H; [contradiction|].
  destruct H as [->|H]; [lia|]. specialize (IH H). lia.
Qed.

Lemma pool_holds_read h it : pool_holds h it ->
  forall fuel, pool_depth (pool_it_shape it) <= fuel -> pool_read fuel h (pool_it_root it) = Some (pool_it_shape it).
Proof.
  induction it as [i k pl cs IH] using pool_itree_ind'. intros Hh fuel Hf.
  inversion Hh as [i0 k0 pl0 cs0 Hget Hcs]; subst.
  destruct fuel as [|f]; [simpl in Hf; lia|].
  cbn [pool_read pool_it_root]. rewrite Hget. cbn [pcl_children pcl_kind pcl_payload].
  rewrite (pool_opt_map_holds (pool_read f h) cs); [reflexivity|].
  rewrite Forall_forall in *. intros c Hc. apply IH; [exact Hc|apply Hcs; exact Hc|].
  assert (Hd := pool_depth_child k pl (map pool_it_shape cs) (pool_it_shape c) (in_map _ _ _ Hc)).
  cbn [pool_it_shape] in Hf. lia.
Qed.

(* ------------------------------------------------------------------ pools *)
Definition pool_pids (s : pool_state) : list nat := map snd (pst_pools s).
Definition pool_wf (s : pool_state) : Prop :=
  NoDup (pool_pids s) /\ forall x, In x (pool_pids s) -> x < pst_next s.

Lemma pool_take_perm k i p x p' : pool_take k i p = Some (x, p') -> Permutation p ((k, x) :: p').
Proof.
  revert i x p'. induction p as [|[k' y] r IH]; intros i x p' H; simpl in H; [discriminate|].
  destruct (N.eqb k' k) eqn:E.
  - apply N.eqb_eq in E. subst k'. destruct i as [|i'].
    + inversion H; subst. apply Permutation_refl.
    + destruct (pool_take k i' r) as [[z r']|] eqn:T; [|discriminate]. inversion H; subst.
      apply IH in T. eapply perm_trans; [apply perm_skip; exact T|apply perm_swap].
  - destruct (pool_take k i r) as [[z r']|] eqn:T; [|discriminate]. inversion H; subst.
    apply IH in T. eapply perm_trans; [apply perm_skip; exact T|apply perm_swap].
Qed.

Lemma pool_nodup_app {A} (l1 l2 : list A) :
  NoDup l1 -> NoDup l2 -> (forall x, In x l1 -> In x l2 -> False) -> NoDup (l1 ++ l2).
Proof.
  induction l1 as [|a l1 IH]; intros H1 H2 Hd; simpl; [exact H2|].
  inversion H1; subst. constructor.
  - intro Q. apply in_app_or in Q. destruct Q as [Q|Q]; [contradiction|]. apply (Hd a); [left; reflexivity|exact Q].
  - apply IH; [assumption|assumption|]. intros x Hx1 Hx2. apply (Hd x); [right; exact Hx1|exact Hx2].
Qed.

(* what a step that allocates the ids l may do *)
Definition pool_alloc_ok (s s' : pool_state) (l : list nat) : Prop :=
  pst_cache s' = pst_cache s /\ pst_nocache s' = pst_nocache s /\
  pst_next s <= pst_next s' /\ pool_wf s' /\
  (forall y, In y (pool_pids s') -> In y (pool_pids s)) /\
  NoDup l /\
  (forall x, In x l -> (In x (pool_pids s) \/ pst_next s <= x) /\ x < pst_next s' /\ ~ In x (pool_pids s')) /\
  (forall y, ~ In y l -> pool_hget (pst_heap s') y = pool_hget (pst_heap s) y).

Lemma pool_alloc_ok_refl s : pool_wf s -> pool_alloc_ok s s [].
Proof.
  intro H. unfold pool_alloc_ok.
  split; [reflexivity|]. split; [reflexivity|]. split; [lia|]. split; [exact H|].
  split; [intros y Hy; exact Hy|]. split; [constructor|].
  split; [intros x Hx; destruct Hx|reflexivity].
Qed.

Lemma pool_alloc_ok_trans s s1 s2 l1 l2 :
  pool_alloc_ok s s1 l1 -> pool_alloc_ok s1 s2 l2 -> pool_alloc_ok s s2 (l1 ++ l2).
Proof.
  intros (C1 & N1 & X1 & W1 & P1 & D1 & I1 & H1) (C2 & N2 & X2 & W2 & P2 & D2 & I2 & H2).
  unfold pool_alloc_ok. split; [congruence|]. split; [congruence|]. split; [lia|]. split; [exact W2|].
  split; [intros y Hy; apply P1, P2, Hy|].
  split.
  - apply pool_nodup_app; [exact D1|exact D2|].
    intros x Hx1 Hx2. destruct (I1 x Hx1) as (_ & L1 & Q1). destruct (I2 x Hx2) as ([Q2|Q2] & _ & _); [contradiction|lia].
  - split.
    + intros x Hx. apply in_app_or in Hx. destruct Hx as [Hx|Hx].
      * destruct (I1 x Hx) as (A & B & C). split; [exact A|]. split; [lia|]. intro Q. apply C, P2, Q.
      * destruct (I2 x Hx) as (A & B & C). split; [|split; assumption].
        destruct A as [A|A]; [left; apply P1, A|right; lia].
    + intros y Hy. rewrite H2, H1; [reflexivity| |]; intro Q; apply Hy, in_or_app; [left|right]; exact Q.
Qed.

(* ------------------------------------------------------------------ Get, then assignment of every field *)
Lemma pool_get_write_ok orc k s x s2 c :
  pool_wf s -> pool_get orc k s = (x, s2) -> pool_alloc_ok s (pool_write s2 x c) [x].
Proof.
  intros [Hnd Hlt] Hg. unfold pool_get in Hg.
  assert (Hfresh : (pst_next s, mk_pstate (pst_cache s) (pst_nocache s) (pst_heap s) (pst_pools s) (S (pst_next s)) (S (pst_tick s))) = (x, s2)
                   -> pool_alloc_ok s (pool_write s2 x c) [x]).
  { intro E. inversion E; subst. unfold pool_alloc_ok, pool_write, pool_wf, pool_pids. simpl.
    split; [reflexivity|]. split; [reflexivity|]. split; [lia|].
    split; [split; [exact Hnd|intros y Hy; specialize (Hlt y Hy); lia]|].
    split; [auto|]. split; [constructor; [intros []|constructor]|].
    split.
    - intros y [<-|[]]. split; [right; lia|]. split; [lia|]. intro Q. specialize (Hlt _ Q). lia.
    - intros y Hy. destruct (Nat.eqb (pst_next s) y) eqn:E2; [|reflexivity].
      apply Nat.eqb_eq in E2. exfalso. apply Hy. left. exact E2. }
  destruct (orc (pst_tick s)) as [i|]; [|apply Hfresh; exact Hg].
  destruct (pool_take k i (pst_pools s)) as [[y p']|] eqn:T; [|apply Hfresh; exact Hg].
  inversion Hg; subst. clear Hfresh Hg.
  apply pool_take_perm in T.
  assert (Tm : Permutation (pool_pids s) (x :: map snd p')).
  { unfold pool_pids. change (x :: map snd p') with (map snd ((k, x) :: p')). apply Permutation_map. exact T. }
  assert (Hnd' : NoDup (x :: map snd p')) by (eapply Permutation_NoDup; eassumption).
  inversion Hnd' as [|x0 l0 Hnx Hndp]; subst.
  unfold pool_alloc_ok, pool_write, pool_wf, pool_pids. simpl.
  split; [reflexivity|]. split; [reflexivity|]. split; [lia|].
  split.
  { split; [exact Hndp|]. intros y Hy. apply Hlt. eapply Permutation_in; [apply Permutation_sym; exact Tm|]. right. exact Hy. }
  split.
  { intros y Hy. eapply Permutation_in; [apply Permutation_sym; exact Tm|]. right. exact Hy. }
  split; [constructor; [intros []|constructor]|].
  split.
  - intros y [<-|[]].
    assert (Hin : In x (pool_pids s)) by (eapply Permutation_in; [apply Permutation_sym; exact Tm|left; reflexivity]).
    split; [left; exact Hin|]. split; [apply Hlt; exact Hin|exact Hnx].
  - intros y Hy. destruct (Nat.eqb x y) eqn:E2; [|reflexivity].
    apply Nat.eqb_eq in E2. exfalso. apply Hy. left. exact E2.
Qed.

Lemma pool_get_heap orc k s x s2 : pool_get orc k s = (x, s2) -> pst_heap s2 = pst_heap s.
Proof.
  unfold pool_get. destruct (orc (pst_tick s)) as [i|].
  - destruct (pool_take k i (pst_pools s)) as [[y p']|]; intro H; inversion H; reflexivity.
  - intro H; inversion H; reflexivity.
Qed.

(* ------------------------------------------------------------------ the parser lays a tree out correctly *)
Lemma pool_build_unfold orc k pl cs s :
  pool_build orc (PoolT k pl cs) s =
  let '(its, s1) := pool_build_list orc cs s in
  let '(i, s2) := pool_get orc k s1 in
  (PoolIT i k pl its, pool_write s2 i (mk_pcell k pl (map pool_it_root its))).
Proof.
  cbn [pool_build].
  assert (E : forall l s0,
    (fix go (l : list pool_tree) (s : pool_state) : list pool_itree * pool_state :=
       match l with
       | [] => ([], s)
       | x :: r => let '(it, s') := pool_build orc x s in
                   let '(its, s'') := go r s' in (it :: its, s'')
       end) l s0 = pool_build_list orc l s0).
  { induction l as [|x r IH]; intro s0; [reflexivity|]. cbn [pool_build_list].
    destruct (pool_build orc x s0) as [it s']. rewrite IH. reflexivity. }
  rewrite E. reflexivity.
Qed.

Definition pool_built (s : pool_state) (t : pool_tree) (it : pool_itree) (s' : pool_state) : Prop :=
  pool_it_shape it = t /\ pool_holds (pst_heap s') it /\ pool_alloc_ok s s' (pool_it_ids it).
Definition pool_built_list (s : pool_state) (l : list pool_tree) (its : list pool_itree) (s' : pool_state) : Prop :=
  map pool_it_shape its = l /\ Forall (pool_holds (pst_heap s')) its /\ pool_alloc_ok s s' (flat_map pool_it_ids its).

(* a tree held before an allocation step is held after it, when its ids were not in reach of the step *)
Lemma pool_holds_alloc s s' l it :
  pool_alloc_ok s s' l -> pool_holds (pst_heap s) it ->
  (forall x, In x (pool_it_ids it) -> x < pst_next s /\ ~ In x (pool_pids s)) ->
  pool_holds (pst_heap s') it /\ (forall x, In x (pool_it_ids it) -> x < pst_next s' /\ ~ In x (pool_pids s')).
Proof.
  intros (C & N & X & W & P & D & I & H) Hh Hids. split.
  - eapply pool_holds_frame; [|exact Hh]. intros x Hx. apply H. intro Q.
    destruct (Hids x Hx) as [L NP]. destruct (I x Q) as ([A|A] & _ & _); [contradiction|lia].
  - intros x Hx. destruct (Hids x Hx) as [L NP]. split; [lia|]. intro Q. apply NP, P, Q.
Qed.

Lemma pool_build_list_spec orc (cs : list pool_tree) :
  Forall (fun t => forall s, pool_wf s -> let '(it, s') := pool_build orc t s in pool_built s t it s') cs ->
  forall s, pool_wf s -> let '(its, s') := pool_build_list orc cs s in pool_built_list s cs its s'.
Proof.
  induction 1 as [|t cs Ht Hcs IH]; intros s Hwf.
  - simpl. unfold pool_built_list. simpl. split; [reflexivity|]. split; [constructor|]. apply pool_alloc_ok_refl. exact Hwf.
  - cbn [pool_build_list]. specialize (Ht s Hwf). destruct (pool_build orc t s) as [it s1].
    destruct Ht as (Sh & Ho & Ok1).
    assert (Hwf1 : pool_wf s1) by (destruct Ok1 as (_ & _ & _ & W & _); exact W).
    specialize (IH s1 Hwf1). destruct (pool_build_list orc cs s1) as [its s2].
    destruct IH as (Shs & Hos & Ok2).
    unfold pool_built_list. cbn [map flat_map]. split; [rewrite Sh, Shs; reflexivity|]. split.
    + constructor; [|exact Hos].
      destruct Ok1 as (_ & _ & _ & _ & _ & _ & I1 & _).
      eapply pool_holds_alloc; [exact Ok2|exact Ho|]. intros x Hx. destruct (I1 x Hx) as (_ & A & B). split; assumption.
    + eapply pool_alloc_ok_trans; eassumption.
Qed.

Lemma pool_build_spec orc t : forall s, pool_wf s -> let '(it, s') := pool_build orc t s in pool_built s t it s'.
Proof.
  induction t as [k pl cs IH] using pool_tree_ind'. intros s Hwf.
  rewrite pool_build_unfold.
  assert (L := pool_build_list_spec orc cs IH s Hwf).
  destruct (pool_build_list orc cs s) as [its s1]. destruct L as (Shs & Hos & Ok1).
  assert (Hwf1 : pool_wf s1) by (destruct Ok1 as (_ & _ & _ & W & _); exact W).
  destruct (pool_get orc k s1) as [i s2] eqn:G.
  assert (Ok2 := pool_get_write_ok orc k s1 i s2 (mk_pcell k pl (map pool_it_root its)) Hwf1 G).
  assert (Ok := pool_alloc_ok_trans _ _ _ _ _ Ok1 Ok2).
  unfold pool_built. cbn [pool_it_shape pool_it_ids]. split; [rewrite Shs; reflexivity|]. split.
  - constructor.
    + unfold pool_write. simpl. rewrite Nat.eqb_refl. reflexivity.
    + rewrite Forall_forall in *. intros c Hc.
      destruct Ok1 as (_ & _ & _ & _ & _ & _ & I1 & _).
      eapply pool_holds_alloc; [exact Ok2|apply Hos; exact Hc|].
      intros x Hx. destruct (I1 x (pool_ids_child_in _ _ _ Hc Hx)) as (_ & A & B). split; assumption.
  - (* the ids: i in front instead of behind *)
    destruct Ok as (C & N & X & W & P & D & I & H).
    unfold pool_alloc_ok. split; [exact C|]. split; [exact N|]. split; [exact X|]. split; [exact W|]. split; [exact P|].
    assert (Pm : Permutation (flat_map pool_it_ids its ++ [i]) (i :: flat_map pool_it_ids its)).
    { apply Permutation_sym. apply Permutation_cons_append. }
    split; [eapply Permutation_NoDup; eassumption|]. split.
    + intros x Hx. apply I. eapply Permutation_in; [apply Permutation_sym; exact Pm|exact Hx].
    + intros y Hy. apply H. intro Q. apply Hy. eapply Permutation_in; [exact Pm|exact Q].
Qed.

Lemma pool_build_list_ok orc cs s : pool_wf s -> let '(its, s') := pool_build_list orc cs s in pool_built_list s cs its s'.
Proof.
  apply pool_build_list_spec. rewrite Forall_forall. intros t _. apply pool_build_spec.
Qed.

(* ------------------------------------------------------------------ the invariant, with the layout as a witness *)
Definition pool_tpl_ok (st : pool_store) (s : pool_state) (key : pool_key) (t : pool_tpl) : Prop :=
  psrc_ok (pt_src t) = true /\
  (pt_loaded t = true -> pool_assoc st key = Some (pt_src t)) /\
  exists it, pool_it_root it = pt_root t /\ pool_it_shape it = pool_tree_of_src (pt_src t) /\
             pool_holds (pst_heap s) it /\
             forall x, In x (pool_it_ids it) -> x < pst_next s /\ ~ In x (pool_pids s).

Definition pool_inv (st : pool_store) (s : pool_state) : Prop :=
  pool_wf s /\ forall key t, In (key, t) (pst_cache s) -> pool_tpl_ok st s key t.

Lemma pool_inv_init st : pool_inv st pool_init.
Proof.
  split.
  - split; [constructor|intros x []].
  - intros key t [].
Qed.

Lemma pool_tpl_ok_alloc st s s' l key t :
  pool_alloc_ok s s' l -> pool_tpl_ok st s key t -> pool_tpl_ok st s' key t.
Proof.
  intros Ok (A & B & it & R & Sh & Ho & Ids).
  split; [exact A|]. split; [exact B|]. exists it. split; [exact R|]. split; [exact Sh|].
  eapply pool_holds_alloc; eassumption.
Qed.

Lemma pool_inv_alloc st s s' l : pool_inv st s -> pool_alloc_ok s s' l -> pool_inv st s'.
Proof.
  intros [W I] Ok. split.
  - destruct Ok as (_ & _ & _ & W' & _). exact W'.
  - intros key t Hin. eapply pool_tpl_ok_alloc; [exact Ok|]. apply I.
    destruct Ok as (C & _). rewrite C in Hin. exact Hin.
Qed.

Lemma pool_inv_cache_add st s key t : pool_inv st s -> pool_tpl_ok st s key t -> pool_inv st (pool_cache_add s key t).
Proof.
  intros [W I] Hok. split; [exact W|].
  intros key' t' [E|Hin].
  - inversion E; subst. exact Hok.
  - apply I in Hin. exact Hin.
Qed.

(* Parser.Parse in a tree without node releases *)
Lemma pool_parse_spec st orc src s : pool_inv st s ->
  match pool_parse pool_cfg_safe orc src s with
  | (Some it, s1) =>
    psrc_ok src = true /\ pool_inv st s1 /\ pst_cache s1 = pst_cache s /\ pst_nocache s1 = pst_nocache s /\
    pool_it_shape it = pool_tree_of_src src /\ pool_holds (pst_heap s1) it /\
    (forall x, In x (pool_it_ids it) -> x < pst_next s1 /\ ~ In x (pool_pids s1))
  | (None, s1) =>
    psrc_ok src = false /\ pool_inv st s1 /\ pst_cache s1 = pst_cache s /\ pst_nocache s1 = pst_nocache s
  end.
Proof.
  intros Hinv. unfold pool_parse.
  assert (L := pool_build_list_ok orc (psrc_nodes src) s (proj1 Hinv)).
  destruct (pool_build_list orc (psrc_nodes src) s) as [its s1]. destruct L as (Shs & Hos & Ok1).
  destruct (psrc_ok src) eqn:Eok.
  - assert (Hwf1 : pool_wf s1) by (destruct Ok1 as (_ & _ & _ & W & _); exact W).
    destruct (pool_get orc pk_root s1) as [r s2] eqn:G.
    assert (Ok2 := pool_get_write_ok orc pk_root s1 r s2 (mk_pcell pk_root [] (map pool_it_root its)) Hwf1 G).
    assert (Ok := pool_alloc_ok_trans _ _ _ _ _ Ok1 Ok2).
    split; [reflexivity|]. split; [eapply pool_inv_alloc; eassumption|].
    destruct Ok as (C & N & X & W & P & D & I & H).
    split; [exact C|]. split; [exact N|].
    split; [unfold pool_tree_of_src; cbn [pool_it_shape]; rewrite Shs; reflexivity|].
    split.
    + constructor.
      * unfold pool_write. simpl. rewrite Nat.eqb_refl. reflexivity.
      * rewrite Forall_forall in *. intros c Hc.
        destruct Ok1 as (_ & _ & _ & _ & _ & _ & I1 & _).
        eapply pool_holds_alloc; [exact Ok2|apply Hos; exact Hc|].
        intros x Hx. destruct (I1 x (pool_ids_child_in _ _ _ Hc Hx)) as (_ & A & B). split; assumption.
    + intros x Hx. cbn [pool_it_ids] in Hx.
      assert (Hx' : In x (flat_map pool_it_ids its ++ [r])).
      { destruct Hx as [<-|Hx]; apply in_or_app; [right; left; reflexivity|left; exact Hx]. }
      destruct (I x Hx') as (_ & A & B). split; assumption.
  - cbn [pool_cfg_safe pcfg_parse_error].
    split; [reflexivity|]. split; [eapply pool_inv_alloc; eassumption|].
    destruct Ok1 as (C & N & _). split; assumption.
Qed.

Lemma pool_cache_on_ext s s' e : pst_nocache s' = pst_nocache s -> pool_cache_on s' e = pool_cache_on s e.
Proof. intro H. unfold pool_cache_on. rewrite H. reflexivity. Qed.

Lemma pool_load_effect_inv st orc e s n : pool_inv st s -> pool_inv st (pool_load_effect pool_cfg_safe st orc e s n).
Proof.
  intro Hinv. unfold pool_load_effect.
  assert (R : pool_inv st
    match pool_assoc st (e, n) with
    | None => s
    | Some src =>
      match pool_parse pool_cfg_safe orc src s with
      | (Some it, s1) => if pool_cache_on s1 e then pool_cache_add s1 (e, n) (mk_ptpl (pool_it_root it) src true) else s1
      | (None, s1) => s1
      end
    end).
  { destruct (pool_assoc st (e, n)) as [src|] eqn:Est; [|exact Hinv].
    assert (P := pool_parse_spec st orc src s Hinv).
    destruct (pool_parse pool_cfg_safe orc src s) as [[it|] s1].
    - destruct P as (Eok & I1 & C & N & Sh & Ho & Ids).
      destruct (pool_cache_on s1 e); [|exact I1].
      apply pool_inv_cache_add; [exact I1|].
      split; [exact Eok|]. split; [intros _; exact Est|].
      exists it. repeat split; try assumption; try reflexivity; apply Ids; assumption.
    - destruct P as (_ & I1 & _). exact I1. }
  destruct (pool_assoc (pst_cache s) (e, n)) as [t|]; [|exact R].
  destruct (pt_loaded t); [|exact Hinv].
  destruct (pool_cache_on s e); [exact Hinv|exact R].
Qed.

Lemma pool_load_effects_inv st orc e loads : forall s,
  pool_inv st s -> pool_inv st (fold_left (pool_load_effect pool_cfg_safe st orc e) loads s).
Proof.
  induction loads as [|n r IH]; intros s H; simpl; [exact H|]. apply IH. apply pool_load_effect_inv. exact H.
Qed.

Lemma pool_step_inv st orc g s o : pool_inv st s -> pool_inv st (fst (pool_step pool_cfg_safe st orc g s o)).
Proof.
  intro Hinv. destruct o as [e n src|e src|e n|e n vars|e| |k c]; cbn [pool_step].
  - assert (P := pool_parse_spec st orc src s Hinv).
    destruct (pool_parse pool_cfg_safe orc src s) as [[it|] s1]; cbn [fst].
    + destruct P as (Eok & I1 & C & N & Sh & Ho & Ids).
      apply pool_inv_cache_add; [exact I1|].
      split; [exact Eok|]. split; [simpl; discriminate|].
      exists it. repeat split; try assumption; try reflexivity; apply Ids; assumption.
    + destruct P as (_ & I1 & _). exact I1.
  - assert (P := pool_parse_spec st orc src s Hinv).
    destruct (pool_parse pool_cfg_safe orc src s) as [[it|] s1]; cbn [fst snd].
    + destruct P as (_ & I1 & _). exact I1.
    + destruct P as (_ & I1 & _). exact I1.
  - cbn [fst]. apply pool_load_effect_inv. exact Hinv.
  - destruct (pool_render st g s e n vars) as [r loads]. cbn [pool_cfg_safe pcfg_after_include pcfg_root_after_render fst].
    apply pool_load_effects_inv. exact Hinv.
  - cbn [fst]. destruct Hinv as [W I]. split; [exact W|]. exact I.
  - cbn [fst]. destruct Hinv as [[W1 W2] I]. split.
    + split; [constructor|intros x []].
    + intros key t Hin. destruct (I key t Hin) as (A & B & it & R & Sh & Ho & Ids).
      split; [exact A|]. split; [exact B|]. exists it. repeat split; try assumption.
      * apply Ids; assumption.
      * intros [].
  - cbn [fst]. destruct Hinv as [[W1 W2] I]. split.
    + split.
      * unfold pool_pids. simpl. constructor; [|exact W1]. intro Q. specialize (W2 _ Q). lia.
      * unfold pool_pids. simpl. intros x [<-|Hx]; [lia|]. specialize (W2 x Hx). lia.
    + intros key t Hin. destruct (I key t Hin) as (A & B & it & R & Sh & Ho & Ids).
      split; [exact A|]. split; [exact B|]. exists it. split; [exact R|]. split; [exact Sh|]. split.
      * eapply pool_holds_frame; [|exact Ho]. intros x Hx. simpl.
        destruct (Nat.eqb (pst_next s) x) eqn:E2; [|reflexivity].
        apply Nat.eqb_eq in E2. destruct (Ids x Hx) as [L _]. simpl in L. lia.
      * intros x Hx. destruct (Ids x Hx) as [L NP]. split; [simpl; lia|].
        unfold pool_pids. simpl. intros [Q|Q]; [lia|]. apply NP. exact Q.
Qed.

Lemma pool_run_from_inv st orc g ops : forall s, pool_inv st s -> pool_inv st (pool_run_from pool_cfg_safe st orc g s ops).
Proof.
  unfold pool_run_from. induction ops as [|o r IH]; intros s H; simpl; [exact H|].
  apply IH. apply pool_step_inv. exact H.
Qed.

(* ------------------------------------------------------------------ from the witnessed invariant to the stated one *)
Lemma pool_tpl_ok_read st s key t : pool_tpl_ok st s key t ->
  pool_read_tpl (pst_heap s) t = PLOk (psrc_nodes (pt_src t)).
Proof.
  intros (A & B & it & R & Sh & Ho & Ids). unfold pool_read_tpl.
  rewrite <- R, <- Sh. rewrite (pool_holds_read _ _ Ho); [|lia].
  rewrite Sh. reflexivity.
Qed.

Lemma pool_inv_Inv st s : pool_inv st s -> pool_Inv s.
Proof.
  intros [W I]. split.
  - intros key t k x Hin Hp Hr.
    destruct (I key t Hin) as (A & B & it & R & Sh & Ho & Ids).
    assert (Hx := pool_holds_reach _ _ _ Hr it Ho R).
    destruct (Ids x Hx) as [_ NP]. apply NP. unfold pool_pids. apply in_map_iff. exists (k, x). split; [reflexivity|exact Hp].
  - intros key t Hin. assert (Ok := I key t Hin). split; [apply Ok|]. eapply pool_tpl_ok_read; exact Ok.
Qed.

(* ------------------------------------------------------------------ what Load returns, under the invariant *)
Lemma pool_resolve_spec st s e n : pool_inv st s ->
  pool_resolve st s e n = pool_spec_resolve st (pool_regview s) e n.
Proof.
  intros [W I]. unfold pool_resolve, pool_spec_resolve, pool_regview.
  destruct (pool_assoc (pst_cache s) (e, n)) as [t|] eqn:E; [|reflexivity].
  assert (Ok := I _ _ (pool_assoc_in _ _ _ E)).
  assert (Rd := pool_tpl_ok_read _ _ _ _ Ok).
  destruct Ok as (A & B & _).
  destruct (pt_loaded t) eqn:L; [|exact Rd].
  assert (Rl : pool_reload_res st (e, n) = PLOk (psrc_nodes (pt_src t))).
  { unfold pool_reload_res. rewrite (B eq_refl), A. reflexivity. }
  destruct (pool_cache_on s e); [rewrite Rd, Rl; reflexivity|reflexivity].
Qed.

(* ------------------------------------------------------------------ the registrations a state holds *)
Lemma pool_regview_cache_add_loaded s key r src key' :
  (forall t, pool_assoc (pst_cache s) key = Some t -> pt_loaded t = true) ->
  pool_regview (pool_cache_add s key (mk_ptpl r src true)) key' = pool_regview s key'.
Proof.
  intro H. unfold pool_regview, pool_cache_add. simpl.
  destruct (pool_key_eqb key key') eqn:E; [|reflexivity].
  apply pool_key_eqb_eq in E. subst key'. simpl.
  destruct (pool_assoc (pst_cache s) key) as [t|] eqn:A; [|reflexivity].
  rewrite (H t eq_refl). reflexivity.
Qed.

Lemma pool_regview_ext s s' key : pst_cache s' = pst_cache s -> pool_regview s' key = pool_regview s key.
Proof. intro H. unfold pool_regview. rewrite H. reflexivity. Qed.

Lemma pool_load_effect_regview st orc e s n key : pool_inv st s ->
  pool_regview (pool_load_effect pool_cfg_safe st orc e s n) key = pool_regview s key.
Proof.
  intro Hinv. unfold pool_load_effect.
  assert (R : (forall t, pool_assoc (pst_cache s) (e, n) = Some t -> pt_loaded t = true) ->
    pool_regview
    match pool_assoc st (e, n) with
    | None => s
    | Some src =>
      match pool_parse pool_cfg_safe orc src s with
      | (Some it, s1) => if pool_cache_on s1 e then pool_cache_add s1 (e, n) (mk_ptpl (pool_it_root it) src true) else s1
      | (None, s1) => s1
      end
    end key = pool_regview s key).
  { intro HL. destruct (pool_assoc st (e, n)) as [src|]; [|reflexivity].
    assert (P := pool_parse_spec st orc src s Hinv).
    destruct (pool_parse pool_cfg_safe orc src s) as [[it|] s1].
    - destruct P as (_ & _ & C & _).
      destruct (pool_cache_on s1 e); [|apply pool_regview_ext; exact C].
      rewrite pool_regview_cache_add_loaded; [apply pool_regview_ext; exact C|].
      rewrite C. exact HL.
    - destruct P as (_ & _ & C & _). apply pool_regview_ext; exact C. }
  destruct (pool_assoc (pst_cache s) (e, n)) as [t|] eqn:A.
  - destruct (pt_loaded t) eqn:L; [|reflexivity].
    destruct (pool_cache_on s e); [reflexivity|]. apply R. intros t' Ht'. inversion Ht'; subst. exact L.
  - apply R. intros t' Ht'. discriminate.
Qed.

Lemma pool_load_effects_regview st orc e loads key : forall s, pool_inv st s ->
  pool_regview (fold_left (pool_load_effect pool_cfg_safe st orc e) loads s) key = pool_regview s key.
Proof.
  induction loads as [|n r IH]; intros s H; simpl; [reflexivity|].
  rewrite IH; [|apply pool_load_effect_inv; exact H]. apply pool_load_effect_regview. exact H.
Qed.

(* the registration an operation makes, if any *)
Definition pool_op_reg (o : pool_op) (key : pool_key) : option pool_src :=
  match o with
  | PORegister e n src => if pool_key_eqb (e, n) key && psrc_ok src then Some src else None
  | _ => None
  end.

Lemma pool_step_regview st orc g s o key : pool_inv st s ->
  pool_regview (fst (pool_step pool_cfg_safe st orc g s o)) key =
  match pool_op_reg o key with Some src => Some src | None => pool_regview s key end.
Proof.
  intro Hinv. destruct o as [e n src|e src|e n|e n vars|e| |k c]; cbn [pool_step pool_op_reg].
  - assert (P := pool_parse_spec st orc src s Hinv).
    destruct (pool_parse pool_cfg_safe orc src s) as [[it|] s1]; cbn [fst].
    + destruct P as (Eok & _ & C & _). rewrite Eok, andb_true_r.
      unfold pool_regview at 1. unfold pool_cache_add. simpl.
      destruct (pool_key_eqb (e, n) key) eqn:E; [reflexivity|].
      fold (pool_regview s1 key). apply pool_regview_ext; exact C.
    + destruct P as (Eok & _ & C & _). rewrite Eok, andb_false_r. apply pool_regview_ext; exact C.
  - assert (P := pool_parse_spec st orc src s Hinv).
    destruct (pool_parse pool_cfg_safe orc src s) as [[it|] s1]; cbn [fst snd].
    + destruct P as (_ & _ & C & _). apply pool_regview_ext; exact C.
    + destruct P as (_ & _ & C & _). apply pool_regview_ext; exact C.
  - cbn [fst]. apply pool_load_effect_regview. exact Hinv.
  - destruct (pool_render st g s e n vars) as [r loads]. cbn [pool_cfg_safe pcfg_after_include pcfg_root_after_render fst].
    apply pool_load_effects_regview. exact Hinv.
  - reflexivity.
  - reflexivity.
  - reflexivity.
Qed.

Lemma pool_run_from_regview st orc g ops key : forall s, pool_inv st s ->
  pool_regview (pool_run_from pool_cfg_safe st orc g s ops) key =
  match pool_last_reg ops key with Some src => Some src | None => pool_regview s key end.
Proof.
  unfold pool_run_from. induction ops as [|o r IH]; intros s H; [reflexivity|].
  cbn [fold_left pool_last_reg]. rewrite IH; [|apply pool_step_inv; exact H].
  destruct (pool_last_reg r key) as [src|]; [reflexivity|].
  rewrite pool_step_regview; [|exact H].
  destruct o; reflexivity.
Qed.

Lemma pool_last_reg_config ops key : pool_last_reg (pool_config_ops ops) key = pool_last_reg ops key.
Proof.
  induction ops as [|o r IH]; [reflexivity|].
  unfold pool_config_ops in *. cbn [filter pool_last_reg].
  destruct o; cbn [pool_is_config pool_last_reg]; rewrite IH; try reflexivity.
  all: destruct (pool_last_reg r key); reflexivity.
Qed.

(* ------------------------------------------------------------------ acquisition writes what rendering reads *)

Lemma pool_read_fields_in_reset_new : forallb (fun f => pool_memb f ctx_reset_new) ctx_fields_read_by_render = true.
Proof. vm_compute. reflexivity. Qed.
Lemma pool_read_fields_in_reset_clone : forallb (fun f => pool_memb f ctx_reset_clone) ctx_fields_read_by_render = true.
Proof. vm_compute. reflexivity. Qed.

Lemma pool_acquire_indep reset init g1 g2 :
  forallb (fun f => pool_memb f reset) ctx_fields_read_by_render = true ->
  pool_acquire reset init g1 = pool_acquire reset init g2.
Proof.
  intro H. unfold pool_acquire. apply map_ext_in. intros f Hf.
  rewrite forallb_forall in H. rewrite (H f Hf). reflexivity.
Qed.

Lemma pool_ctx_new_indep g1 g2 vars : pool_ctx_new g1 vars = pool_ctx_new g2 vars.
Proof. unfold pool_ctx_new. apply pool_acquire_indep. exact pool_read_fields_in_reset_new. Qed.
Lemma pool_ctx_clone_indep g1 g2 c : pool_ctx_clone g1 c = pool_ctx_clone g2 c.
Proof. unfold pool_ctx_clone. apply pool_acquire_indep. exact pool_read_fields_in_reset_clone. Qed.

Lemma pool_macro_ctx_indep g1 g2 c mpl arg : pool_macro_ctx g1 c mpl arg = pool_macro_ctx g2 c mpl arg.
Proof. unfold pool_macro_ctx. rewrite (pool_ctx_new_indep g1 g2). reflexivity. Qed.

Lemma pool_eval_ext rv1 rv2 g1 g2 : (forall n, rv1 n = rv2 n) ->
  forall fuel root c cur ns gas, pool_eval fuel rv1 g1 root c cur ns gas = pool_eval fuel rv2 g2 root c cur ns gas.
Proof.
  intro Hrv. induction fuel as [|f IH]; intros root c cur ns gas; [reflexivity|].
  cbn [pool_eval]. destruct gas as [|gas0]; [reflexivity|]. destruct root.
  - destruct (negb (pool_touch c _)); [reflexivity|].
    destruct (pool_find_extends ns) as [t|]; [|apply IH].
    destruct (negb (pool_touch _ _)); [reflexivity|].
    rewrite <- (Hrv t). destruct (rv1 t) as [pns|er|]; [|reflexivity|reflexivity].
    rewrite (pool_ctx_new_indep (g1 f) (g2 f)). rewrite IH. reflexivity.
  - destruct ns as [|[k pl cs] rest]; [reflexivity|].
    match goal with
    | |- (let '(this, gas1) := ?A in _) = (let '(this, gas1) := ?B in _) => assert (E : A = B)
    end.
    { repeat (match goal with |- (if ?b then _ else _) = (if ?b then _ else _) => destruct b; [try reflexivity|] end).
      all: try reflexivity.
      + rewrite <- (Hrv (pool_pl pl 0)). destruct (rv1 (pool_pl pl 0)) as [ins|er|]; [|reflexivity|reflexivity].
        destruct (negb (pool_touch c _)); [reflexivity|].
        rewrite (pool_ctx_clone_indep (g1 f) (g2 f)), IH. reflexivity.
      + apply IH.
      + rewrite <- (Hrv (pool_pl pl 0)). destruct (rv1 (pool_pl pl 0)) as [mns|er|]; [|reflexivity|reflexivity].
        rewrite (pool_ctx_new_indep (g1 f) (g2 f) []). rewrite IH.
        destruct (pool_eval f rv2 g2 true _ mns mns gas0) as [[r l1] gas2]. destruct r; try reflexivity.
        destruct (pool_find_macro mns (pool_pl pl 1)) as [[mpl body]|]; [|reflexivity].
        destruct (negb (pool_touch c _)); [reflexivity|].
        rewrite (pool_macro_ctx_indep (g1 f) (g2 f)), IH. reflexivity.
      + apply IH.
      + destruct (pool_find_macro cur (pool_pl pl 0)) as [[mpl body]|]; [|reflexivity].
        rewrite (pool_macro_ctx_indep (g1 f) (g2 f)). apply IH. }
    rewrite E.
    match goal with |- (let '(this, gas1) := ?B in _) = _ => destruct B as [[r l] gas1] end.
    destruct r; try reflexivity. rewrite IH. reflexivity.
Qed.

Lemma pool_memb_in x l : pool_memb x l = true -> In x l.
Proof.
  induction l as [|y r IH]; simpl; [discriminate|]. intro H. apply orb_true_iff in H.
  destruct H as [H|H]; [left; apply bytes_eqb_eq; exact H|right; apply IH; exact H].
Qed.

Lemma pool_read_fields_are_fields : forallb (fun f => pool_memb f ctx_fields) ctx_fields_read_by_render = true.
Proof. vm_compute. reflexivity. Qed.

Lemma C01_acquire_resets_all_read_fields_proof : forall f, In f ctx_fields_read_by_render ->
  In f ctx_fields /\ In f ctx_reset_new /\ In f ctx_reset_clone.
Proof.
  intros f Hf.
  assert (A := pool_read_fields_are_fields). assert (B := pool_read_fields_in_reset_new). assert (C := pool_read_fields_in_reset_clone).
  rewrite forallb_forall in A, B, C.
  split; [apply pool_memb_in, A, Hf|]. split; [apply pool_memb_in, B, Hf|apply pool_memb_in, C, Hf].
Qed.

(* every field of RenderContext is either in the read list or a field known not to be read: a new field needs a decision *)
Lemma C01_every_ctx_field_classified_proof :
  filter (fun f => negb (pool_memb f ctx_fields_read_by_render)) ctx_fields = [b#"inParentCall"] /\
  ctx_reset_shape_ok = true.
Proof. split; vm_compute; reflexivity. Qed.

(* ------------------------------------------------------------------ render results *)
#[local] Opaque pool_eval_fuel pool_eval_gas.

Lemma pool_render_ext st g1 g2 s1 s2 e n vars :
  (forall m, pool_resolve st s1 e m = pool_resolve st s2 e m) ->
  pool_render st g1 s1 e n vars = pool_render st g2 s2 e n vars.
Proof.
  intro H. unfold pool_render. rewrite (H n). destruct (pool_resolve st s2 e n) as [ns|er|]; [|reflexivity|reflexivity].
  rewrite (pool_ctx_new_indep (g1 pool_eval_fuel) (g2 pool_eval_fuel)).
  rewrite (pool_eval_ext _ _ g1 g2 H). reflexivity.
Qed.

Lemma pool_render_obs_eq cfg st orc g s e n vars :
  pool_render_obs cfg st orc g s e n vars = POORender (fst (pool_render st g s e n vars)).
Proof.
  unfold pool_render_obs. cbn [pool_step]. destruct (pool_render st g s e n vars) as [r l]. reflexivity.
Qed.

Lemma C01_garbage_irrelevant_proof :
  (forall g1 g2 vars, pool_ctx_new g1 vars = pool_ctx_new g2 vars) /\
  (forall g1 g2 c, pool_ctx_clone g1 c = pool_ctx_clone g2 c) /\
  (forall cfg st orc g1 g2 s e n vars,
     pool_render_obs cfg st orc g1 s e n vars = pool_render_obs cfg st orc g2 s e n vars).
Proof.
  split; [exact pool_ctx_new_indep|]. split; [exact pool_ctx_clone_indep|].
  intros. rewrite !pool_render_obs_eq.
  rewrite (pool_render_ext st g1 g2 s s e n vars (fun m => eq_refl)). reflexivity.
Qed.

(* ------------------------------------------------------------------ the working tree releases no cached node *)
Lemma pool_cfg_gen_safe : pool_cfg_gen = pool_cfg_safe.
Proof. vm_compute. reflexivity. Qed.

Lemma C01_inv_preserved_proof : forall st orc g ops, pool_Inv (pool_run pool_cfg_gen st orc g ops).
Proof.
  intros. rewrite pool_cfg_gen_safe. apply (pool_inv_Inv st). unfold pool_run.
  apply pool_run_from_inv. apply pool_inv_init.
Qed.

Lemma pool_run_resolve st orc g ops e m :
  pool_resolve st (pool_run pool_cfg_safe st orc g ops) e m = pool_spec_resolve st (pool_last_reg ops) e m.
Proof.
  unfold pool_run. rewrite pool_resolve_spec; [|apply pool_run_from_inv; apply pool_inv_init].
  unfold pool_spec_resolve. rewrite pool_run_from_regview; [|apply pool_inv_init].
  destruct (pool_last_reg ops (e, m)); reflexivity.
Qed.

Lemma C01_history_independent_proof : forall st orc g orc' g' ops e n vars,
  pool_render_obs pool_cfg_gen st orc g (pool_run pool_cfg_gen st orc g ops) e n vars =
  pool_render_obs pool_cfg_gen st orc' g' (pool_run pool_cfg_gen st orc' g' (pool_config_ops ops)) e n vars.
Proof.
  intros. rewrite pool_cfg_gen_safe, !pool_render_obs_eq.
  rewrite (pool_render_ext st g g' (pool_run pool_cfg_safe st orc g ops)
             (pool_run pool_cfg_safe st orc' g' (pool_config_ops ops)) e n vars); [reflexivity|].
  intro m. rewrite !pool_run_resolve. unfold pool_spec_resolve. rewrite pool_last_reg_config. reflexivity.
Qed.

Lemma C01_equals_pristine_proof : forall st orc g ops e n vars,
  pool_render_obs pool_cfg_gen st orc g (pool_run pool_cfg_gen st orc g ops) e n vars =
  pool_pristine_obs pool_cfg_gen st ops e n vars.
Proof. intros. unfold pool_pristine_obs. apply C01_history_independent_proof. Qed.

(* the result is the evaluation of the registered sources: nothing else of the history enters *)
Lemma C01_result_is_function_of_registrations_proof : forall st orc g ops e n vars,
  pool_render_obs pool_cfg_gen st orc g (pool_run pool_cfg_gen st orc g ops) e n vars =
  POORender (fst (match pool_spec_resolve st (pool_last_reg ops) e n with
                  | PLErr er => (PRErr er, [n])
                  | PLBad => (PRGarbage, [n])
                  | PLOk ns =>
                    pool_seq (PROut [], [n])
                      (fst (pool_eval pool_eval_fuel (pool_spec_resolve st (pool_last_reg ops) e) pool_garbage_none true
                         (pool_cset (pool_ctx_new (pool_garbage_none pool_eval_fuel) (map (fun xv => (fst xv, Some (snd xv))) vars))
                                    b#"lastLoadedTemplate" FVPtr) ns ns pool_eval_gas))
                  end)).
Proof.
  intros. rewrite pool_cfg_gen_safe, pool_render_obs_eq.
  unfold pool_render. rewrite pool_run_resolve.
  destruct (pool_spec_resolve st (pool_last_reg ops) e n) as [ns|er|]; [|reflexivity|reflexivity].
  rewrite (pool_ctx_new_indep (g pool_eval_fuel) (pool_garbage_none pool_eval_fuel)).
  rewrite (pool_eval_ext _ (pool_spec_resolve st (pool_last_reg ops) e) g pool_garbage_none); [reflexivity|].
  intro m. apply pool_run_resolve.
Qed.


(* ------------------------------------------------------------------ rendering reads only declared, assigned fields *)
Definition pool_ctx_full (c : pool_ctx) : Prop := pool_touch c ctx_fields_read_by_render = true.

Lemma pool_touch_memb c l f : pool_touch c l = true -> pool_memb f l = true -> exists v, pool_cget c f = Some v.
Proof.
  induction l as [|a r IH]; simpl; [discriminate|]. intros Ht Hm.
  destruct (pool_cget c a) as [v|] eqn:E; [|discriminate].
  apply orb_true_iff in Hm. destruct Hm as [Hm|Hm].
  - apply bytes_eqb_eq in Hm. subst a. exists v. exact E.
  - apply IH; assumption.
Qed.

Lemma pool_touch_all c l : (forall f, pool_memb f l = true -> exists v, pool_cget c f = Some v) -> pool_touch c l = true.
Proof.
  induction l as [|a r IH]; intro H; simpl; [reflexivity|].
  destruct (H a) as [v Hv]; [simpl; rewrite bytes_eqb_refl; reflexivity|]. rewrite Hv.
  apply IH. intros f Hf. apply H. simpl. rewrite Hf. apply orb_true_r.
Qed.

Lemma pool_touch_sub c l l' : pool_touch c l = true -> forallb (fun f => pool_memb f l) l' = true -> pool_touch c l' = true.
Proof.
  intros Ht Hs. apply pool_touch_all. intros f Hf. eapply pool_touch_memb; [exact Ht|].
  rewrite forallb_forall in Hs. apply Hs. apply pool_memb_in. exact Hf.
Qed.

Lemma pool_full_touch c l : pool_ctx_full c -> forallb (fun f => pool_memb f ctx_fields_read_by_render) l = true -> pool_touch c l = true.
Proof. intros H Hs. eapply pool_touch_sub; eassumption. Qed.

Lemma pool_cget_cset c f v f' : pool_cget (pool_cset c f v) f' = if bytes_eqb f f' then Some v else pool_cget c f'.
Proof. unfold pool_cget, pool_cset. simpl. destruct (bytes_eqb f f'); reflexivity. Qed.

Lemma pool_full_cset c f v : pool_ctx_full c -> pool_ctx_full (pool_cset c f v).
Proof.
  intro H. apply pool_touch_all. intros f' Hf'. rewrite pool_cget_cset.
  destruct (bytes_eqb f f'); [eexists; reflexivity|]. eapply pool_touch_memb; eassumption.
Qed.

Lemma pool_assoc_map_self (h : bytes -> option pool_fval) l f :
  pool_memb f l = true -> assoc_bytes (map (fun x => (x, h x)) l) f = Some (h f).
Proof.
  induction l as [|a r IH]; simpl; [discriminate|]. intro Hm.
  destruct (bytes_eqb a f) eqn:E.
  - apply bytes_eqb_eq in E. subst a. reflexivity.
  - simpl in Hm. apply IH. exact Hm.
Qed.

Lemma pool_full_acquire reset init g :
  forallb (fun f => pool_memb f reset) ctx_fields_read_by_render = true -> pool_ctx_full (pool_acquire reset init g).
Proof.
  intro H. apply pool_touch_all. intros f Hf. unfold pool_cget, pool_acquire.
  rewrite (pool_assoc_map_self (fun f0 => if pool_memb f0 reset then Some (init f0) else g f0) _ f Hf).
  rewrite forallb_forall in H. rewrite (H f (pool_memb_in _ _ Hf)). eexists; reflexivity.
Qed.

Lemma pool_full_new g vars : pool_ctx_full (pool_ctx_new g vars).
Proof. apply pool_full_acquire. exact pool_read_fields_in_reset_new. Qed.
Lemma pool_full_clone g c : pool_ctx_full (pool_ctx_clone g c).
Proof. apply pool_full_acquire. exact pool_read_fields_in_reset_clone. Qed.

Lemma pool_seq_no_garbage a b : fst a <> PRGarbage -> fst b <> PRGarbage -> fst (pool_seq a b) <> PRGarbage.
Proof.
  destruct a as [ra la], b as [rb lb]. simpl. intros Ha Hb.
  destruct ra; simpl; try assumption; try discriminate. destruct rb; simpl; try assumption; discriminate.
Qed.

Ltac pool_touch_ok H :=
  match goal with |- context [pool_touch ?c ?l] => rewrite (pool_full_touch c l H (eq_refl true)); cbn [negb] end.

Lemma pool_full_macro_ctx g0 c mpl arg : pool_ctx_full (pool_macro_ctx g0 c mpl arg).
Proof. unfold pool_macro_ctx. do 3 apply pool_full_cset. apply pool_full_new. Qed.

Lemma pool_eval_no_garbage rv g : (forall n, rv n <> PLBad) ->
  forall fuel root c cur ns gas, pool_ctx_full c -> fst (fst (pool_eval fuel rv g root c cur ns gas)) <> PRGarbage.
Proof.
  intro Hrv. induction fuel as [|f IH]; intros root c cur ns gas Hc; [simpl; discriminate|].
  cbn [pool_eval]. destruct gas as [|gas0]; [simpl; discriminate|]. destruct root.
  - pool_touch_ok Hc.
    assert (Hc1 : pool_ctx_full (pool_cset c b#"blockChain" (FVChain (pool_collect_all ns (pool_defs_of (pool_cget c b#"blockChain")))))) by (apply pool_full_cset; exact Hc).
    destruct (pool_find_extends ns) as [t|]; [|apply IH; exact Hc1].
    pool_touch_ok Hc1.
    destruct (rv t) as [pns|er|] eqn:Et; [|simpl; discriminate|exfalso; exact (Hrv t Et)].
    match goal with |- context [pool_eval f rv g true ?pc pns pns gas0] =>
      assert (Hp := IH true pc pns pns gas0); destruct (pool_eval f rv g true pc pns pns gas0) as [[r l] gas1] end.
    cbn [fst]. apply pool_seq_no_garbage; [simpl; discriminate|].
    apply Hp. do 5 apply pool_full_cset. apply pool_full_new.
  - destruct ns as [|[k pl cs] rest]; [simpl; discriminate|].
    match goal with |- fst (fst (let '(this, gas1) := ?A in _)) <> _ => assert (HA : fst (fst A) <> PRGarbage) end.
    { destruct (N.eqb k pk_text); [simpl; discriminate|].
      destruct (N.eqb k pk_var).
      { destruct (N.eqb (pool_pl pl 1) 0); pool_touch_ok Hc; simpl; discriminate. }
      destruct (N.eqb k pk_fail); [pool_touch_ok Hc; simpl; discriminate|].
      destruct (N.eqb k pk_include).
      { pool_touch_ok Hc. destruct (rv (pool_pl pl 0)) as [ins|er|] eqn:Et; [| |exfalso; exact (Hrv _ Et)].
        - pool_touch_ok Hc.
          match goal with |- context [pool_eval f rv g true ?ic ins ins gas0] =>
            assert (Hp := IH true ic ins ins gas0); destruct (pool_eval f rv g true ic ins ins gas0) as [[r l] gas2] end.
          cbn [fst]. apply pool_seq_no_garbage; [simpl; discriminate|]. apply Hp. apply pool_full_cset, pool_full_clone.
        - destruct er; try (simpl; discriminate). destruct (N.eqb (pool_pl pl 1) 0); simpl; discriminate. }
      destruct (N.eqb k pk_block); [pool_touch_ok Hc; apply IH; exact Hc|].
      destruct (N.eqb k pk_macro); [pool_touch_ok Hc; simpl; discriminate|].
      destruct (N.eqb k pk_call).
      { pool_touch_ok Hc. destruct (rv (pool_pl pl 0)) as [mns|er|] eqn:Et; [|simpl; discriminate|exfalso; exact (Hrv _ Et)].
        match goal with |- context [pool_eval f rv g true ?ic mns mns gas0] =>
          assert (Hp := IH true ic mns mns gas0 (pool_full_cset _ _ _ (pool_full_new _ _)));
          destruct (pool_eval f rv g true ic mns mns gas0) as [[r l1] gas2] end.
        cbn [fst] in Hp. destruct r; try (simpl; discriminate); [|exfalso; apply Hp; reflexivity].
        destruct (pool_find_macro mns (pool_pl pl 1)) as [[mpl body]|]; [|simpl; discriminate].
        pool_touch_ok Hc.
        match goal with |- context [pool_eval f rv g false ?mc mns body gas2] =>
          assert (Hq := IH false mc mns body gas2 (pool_full_macro_ctx _ _ _ _)); destruct (pool_eval f rv g false mc mns body gas2) as [[r3 l3] gas3] end.
        cbn [fst]. apply pool_seq_no_garbage; [simpl; discriminate|]. exact Hq. }
      destruct (N.eqb k pk_if).
      { pool_touch_ok Hc. destruct (pool_truthy _); [apply IH; exact Hc|simpl; discriminate]. }
      destruct (N.eqb k pk_lcall).
      { pool_touch_ok Hc. destruct (pool_find_macro cur (pool_pl pl 0)) as [[mpl body]|]; [|simpl; discriminate].
        apply IH. apply pool_full_macro_ctx. }
      simpl; discriminate. }
    match goal with |- fst (fst (let '(this, gas1) := ?A in _)) <> _ => destruct A as [[r l] gas1] end.
    cbn [fst] in HA. destruct r; cbn [fst]; try assumption; try discriminate.
    assert (Hr := IH false c cur rest gas1 Hc). destruct (pool_eval f rv g false c cur rest gas1) as [[r2 l2] gas4].
    cbn [fst] in *. apply (pool_seq_no_garbage (PROut out, l) (r2, l2)); [simpl; discriminate|exact Hr].
Qed.

Lemma pool_spec_resolve_not_bad st reg e n : pool_spec_resolve st reg e n <> PLBad.
Proof.
  unfold pool_spec_resolve, pool_reload_res. destruct (reg (e, n)); [discriminate|].
  destruct (pool_assoc st (e, n)) as [src|]; [destruct (psrc_ok src)|]; discriminate.
Qed.

(* on every reachable state a render never meets a field that holds a left-over value, nor a template tree it
   cannot follow: the reads of the machine are within ctx_fields_read_by_render, and those are assigned *)
Lemma C01_render_reads_only_assigned_fields_proof : forall st orc g ops e n vars,
  pool_render_obs pool_cfg_gen st orc g (pool_run pool_cfg_gen st orc g ops) e n vars <> POORender PRGarbage.
Proof.
  intros st orc g ops e n vars. rewrite pool_cfg_gen_safe, pool_render_obs_eq. intro H. inversion H as [H1]. clear H. revert H1.
  unfold pool_render. rewrite pool_run_resolve.
  destruct (pool_spec_resolve st (pool_last_reg ops) e n) as [ns|er|] eqn:E;
    [|simpl; discriminate|exfalso; eapply pool_spec_resolve_not_bad; exact E].
  apply (pool_seq_no_garbage (PROut [], [n])); [simpl; discriminate|].
  apply pool_eval_no_garbage.
  - intro m. rewrite pool_run_resolve. apply pool_spec_resolve_not_bad.
  - apply pool_full_cset, pool_full_new.
Qed.

(* ------------------------------------------------------------------ a render leaves the template map and the trees alone *)
Lemma pool_load_effect_cache st orc e s n : pool_inv st s ->
  let s' := pool_load_effect pool_cfg_safe st orc e s n in
  (forall key t, pool_assoc (pst_cache s) key = Some t -> pool_assoc (pst_cache s') key = Some t) /\
  (forall kt, In kt (pst_cache s) -> In kt (pst_cache s')).
Proof.
  intro Hinv. cbv zeta. unfold pool_load_effect.
  assert (R : forall (keep : bool),
    (keep = true -> pool_assoc (pst_cache s) (e, n) = None) -> (keep = false -> pool_cache_on s e = false) ->
    let s' := match pool_assoc st (e, n) with
    | None => s
    | Some src =>
      match pool_parse pool_cfg_safe orc src s with
      | (Some it, s1) => if pool_cache_on s1 e then pool_cache_add s1 (e, n) (mk_ptpl (pool_it_root it) src true) else s1
      | (None, s1) => s1
      end
    end in
    (forall key t, pool_assoc (pst_cache s) key = Some t -> pool_assoc (pst_cache s') key = Some t) /\
    (forall kt, In kt (pst_cache s) -> In kt (pst_cache s'))).
  { intros keep K1 K2. cbv zeta. destruct (pool_assoc st (e, n)) as [src|]; [|split; auto].
    assert (P := pool_parse_spec st orc src s Hinv).
    destruct (pool_parse pool_cfg_safe orc src s) as [[it|] s1].
    - destruct P as (_ & _ & C & N & _).
      rewrite (pool_cache_on_ext s s1 e N).
      destruct (pool_cache_on s e) eqn:On.
      + destruct keep; [|specialize (K2 eq_refl); discriminate]. specialize (K1 eq_refl).
        unfold pool_cache_add. simpl. rewrite C. split.
        * intros key t Hk. destruct (pool_key_eqb (e, n) key) eqn:E; [|exact Hk].
          apply pool_key_eqb_eq in E. subst key. congruence.
        * intros kt Hin. right. exact Hin.
      + rewrite C. split; auto.
    - destruct P as (_ & _ & C & _). rewrite C. split; auto. }
  destruct (pool_assoc (pst_cache s) (e, n)) as [t|] eqn:A.
  - destruct (pt_loaded t); [|split; auto].
    destruct (pool_cache_on s e) eqn:On; [split; auto|].
    apply (R false); [discriminate|intros _; reflexivity].
  - apply (R true); [intros _; reflexivity|discriminate].
Qed.

Lemma pool_load_effects_cache st orc e loads : forall s, pool_inv st s ->
  let s' := fold_left (pool_load_effect pool_cfg_safe st orc e) loads s in
  (forall key t, pool_assoc (pst_cache s) key = Some t -> pool_assoc (pst_cache s') key = Some t) /\
  (forall kt, In kt (pst_cache s) -> In kt (pst_cache s')).
Proof.
  induction loads as [|n r IH]; intros s H; cbv zeta; simpl; [split; auto|].
  destruct (pool_load_effect_cache st orc e s n H) as [A B].
  destruct (IH _ (pool_load_effect_inv st orc e s n H)) as [A' B'].
  split; [intros key t Hk; apply A', A, Hk|intros kt Hin; apply B', B, Hin].
Qed.

Lemma C01_render_does_not_consume_proof : forall st orc g ops e n vars,
  let s := pool_run pool_cfg_gen st orc g ops in
  let s' := fst (pool_step pool_cfg_gen st orc g s (PORender e n vars)) in
  (forall key t, pool_assoc (pst_cache s) key = Some t -> pool_assoc (pst_cache s') key = Some t) /\
  (forall key t, In (key, t) (pst_cache s) ->
     In (key, t) (pst_cache s') /\
     pool_read_tpl (pst_heap s') t = pool_read_tpl (pst_heap s) t /\
     pool_read_tpl (pst_heap s) t = PLOk (psrc_nodes (pt_src t)) /\
     forall k x, In (k, x) (pst_pools s') -> ~ pool_reach (pst_heap s') (pt_root t) x).
Proof.
  intros st orc g ops e n vars. rewrite pool_cfg_gen_safe. cbv zeta.
  set (s := pool_run pool_cfg_safe st orc g ops).
  assert (Hinv : pool_inv st s) by (apply pool_run_from_inv; apply pool_inv_init).
  assert (Hinv' := pool_step_inv st orc g s (PORender e n vars) Hinv).
  cbn [pool_step] in *. destruct (pool_render st g s e n vars) as [r loads].
  cbn [pool_cfg_safe pcfg_after_include pcfg_root_after_render fst] in *.
  destruct (pool_load_effects_cache st orc e loads s Hinv) as [A B].
  split; [exact A|].
  intros key t Hin. assert (Hin' := B _ Hin). split; [exact Hin'|].
  assert (Ok := proj2 Hinv _ _ Hin). assert (Ok' := proj2 Hinv' _ _ Hin').
  rewrite (pool_tpl_ok_read _ _ _ _ Ok), (pool_tpl_ok_read _ _ _ _ Ok').
  split; [reflexivity|]. split; [reflexivity|].
  intros k x Hp. apply (proj1 (pool_inv_Inv st _ Hinv') key t k x Hin' Hp).
Qed.

(* ------------------------------------------------------------------ the originally pinned tree *)
Definition pool_witness_src : pool_src := mk_psrc [PoolT pk_text [7%N] []] true.
Definition pool_witness : list pool_op :=
  [PORegister 0 0%N pool_witness_src; PORender 0 0%N []; PORender 0 0%N []].

Lemma C01_inv_refuted_pinned_proof :
  ~ pool_Inv (pool_run pool_cfg_pinned [] pool_orc_fresh pool_garbage_none (firstn 2 pool_witness)) /\
  pool_trace_from pool_cfg_pinned [] pool_orc_fresh pool_garbage_none pool_init pool_witness =
    [POOReg true; POORender (PROut [PAText 7%N]); POORender (PROut [])] /\
  pool_trace_from pool_cfg_gen [] pool_orc_fresh pool_garbage_none pool_init pool_witness =
    [POOReg true; POORender (PROut [PAText 7%N]); POORender (PROut [PAText 7%N])].
Proof.
  split; [|split; vm_compute; reflexivity].
  intros [H _].
  (* after the first render the root node of the template (id 1) is in the RootNode pool *)
  apply (H (0%nat, 0%N) (mk_ptpl 1 pool_witness_src false) pk_root 1%nat).
  - vm_compute. left. reflexivity.
  - vm_compute. left. reflexivity.
  - apply pool_reach_refl.
Qed.

(* the other witness of KNOWN_FINDINGS.txt: with reuse, a renders the body of b *)
Definition pool_witness2 : list pool_op :=
  [PORegister 0 0%N pool_witness_src; PORender 0 0%N [];
   PORegister 0 1%N (mk_psrc [PoolT pk_text [9%N] []] true); PORender 0 0%N []].
Lemma C01_pinned_renders_other_template_proof :
  pool_trace_from pool_cfg_pinned [] (fun _ => Some O) pool_garbage_none pool_init pool_witness2 =
    [POOReg true; POORender (PROut [PAText 7%N]); POOReg true; POORender (PROut [PAText 9%N])].
Proof. vm_compute. reflexivity. Qed.

(* ------------------------------------------------------------------ facts about the generated tables *)
Definition pool_site_deferred (site : bytes * bytes * bytes * bool) : bool := let '(_, _, _, d) := site in d.

Lemma C01_pool_discipline_tables_proof :
  (* no node is released outside the pool files *)
  pool_cfg_gen = pool_cfg_safe /\
  (* every field of a pooled struct is assigned by its acquisition function or cleared by its release function;
     no field other than FunctionNode.moduleExpr is left to the release function alone *)
  flat_map pool_uncovered_fields pool_node_types = [] /\
  forallb (fun x => bytes_eqb (fst x) b#"FunctionNode" && bytes_eqb (snd x) b#"moduleExpr")
          (flat_map pool_release_only_fields pool_node_types) = true /\
  (* the bare map pools only ever receive emptied maps *)
  pool_map_puts <> [] /\ forallb (fun p => snd p) pool_map_puts = true /\
  (* Clone shares no map with its receiver *)
  ctx_clone_aliased_maps = [] /\
  (* a tokenizer goes back to its pool when the function that took it returns, not before *)
  forallb (fun s => match pool_site_class s with PSKTokenizer => pool_site_deferred s | _ => true end) pool_release_sites = true /\
  pool_calls_shape_ok = true.
Proof.
  split; [exact pool_cfg_gen_safe|].
  split; [vm_compute; reflexivity|]. split; [vm_compute; reflexivity|].
  split; [discriminate|]. split; [vm_compute; reflexivity|]. split; [vm_compute; reflexivity|].
  split; vm_compute; reflexivity.
Qed.
