(* C05_deserialize_total, proved directly from Model/Compiled.v so that it does not depend on the C16
   proof development (Proofs/CompiledProofs.v): totality of the decoder, index safety of the one accessor
   through which every byte is read, and the bound on every allocation the decoder asks for. *)
From Twig Require Import Base.Bytes Model.Compiled.
From Coq Require Import NArith Lia.
Local Open Scope N_scope.

Lemma dt_lenN_acc s : forall a, lenN_acc s a = a + N.of_nat (length s).
Proof.
  induction s as [|b s IH]; intro a; cbn [lenN_acc length].
  - cbn. lia.
  - rewrite IH. lia.
Qed.
Lemma dt_lenN_nil : lenN [] = 0.
Proof. reflexivity. Qed.
Lemma dt_lenN_cons b s : lenN (b :: s) = N.succ (lenN s).
Proof. unfold lenN. cbn [lenN_acc]. rewrite !dt_lenN_acc. lia. Qed.
Lemma dt_lenN_app a b : lenN (a ++ b) = lenN a + lenN b.
Proof. unfold lenN. rewrite !dt_lenN_acc, app_length. lia. Qed.

Lemma dt_read_exact_acc_some l : forall n acc a r,
  read_exact_acc l n acc = Some (a, r) -> exists s, a = rev acc ++ s /\ l = s ++ r /\ lenN s = n.
Proof.
  induction l as [|b l IH]; intros n acc a r H; cbn [read_exact_acc] in H.
  - destruct (N.eqb_spec n 0) as [E|E]; [|discriminate].
    inversion H; subst. exists []. rewrite rev_append_rev, !app_nil_r. auto.
  - destruct (N.eqb_spec n 0) as [E|E].
    + inversion H; subst. exists []. rewrite rev_append_rev, !app_nil_r. auto.
    + apply IH in H. destruct H as [s [Ha [Hl Hn]]]. exists (b :: s).
      rewrite dt_lenN_cons. cbn [rev] in Ha. rewrite <- app_assoc in Ha. cbn [app] in *.
      repeat split; [exact Ha|congruence|lia].
Qed.

Lemma dt_read_exact_some l n a r : read_exact l n = Some (a, r) -> l = a ++ r /\ lenN a = n.
Proof.
  unfold read_exact. intro H. apply dt_read_exact_acc_some in H.
  destruct H as [s [Ha [Hl Hn]]]. cbn [rev app] in Ha. subst. auto.
Qed.

Lemma dt_read_exact_acc_none l : forall n acc, read_exact_acc l n acc = None <-> lenN l < n.
Proof.
  induction l as [|b l IH]; intros n acc; cbn [read_exact_acc].
  - rewrite dt_lenN_nil. destruct (N.eqb_spec n 0); split; intro; try discriminate; try lia; reflexivity.
  - rewrite dt_lenN_cons. destruct (N.eqb_spec n 0) as [E|E].
    + split; intro; [discriminate|lia].
    + rewrite IH. lia.
Qed.

Lemma dt_read_exact_bounds l n :
  (lenN l < n -> read_exact l n = None) /\
  (n <= lenN l -> exists a r, read_exact l n = Some (a, r) /\ l = a ++ r /\ lenN a = n).
Proof.
  split.
  - intro H. apply dt_read_exact_acc_none. exact H.
  - intro H. destruct (read_exact l n) as [[a r]|] eqn:E.
    + exists a, r. split; [reflexivity|]. apply dt_read_exact_some. exact E.
    + apply dt_read_exact_acc_none in E. lia.
Qed.

(* the remainder after a successful read is no longer than the input *)
Lemma dt_read_exact_rest l n a r : read_exact l n = Some (a, r) -> lenN r <= lenN l.
Proof. intro H. apply dt_read_exact_some in H. destruct H as [-> _]. rewrite dt_lenN_app. lia. Qed.

Lemma dt_read_u32_rest l n r : read_u32 l = Some (n, r) -> lenN r <= lenN l.
Proof.
  unfold read_u32. destruct (read_exact l 4) as [[bs r']|] eqn:E; [|discriminate].
  intro H. inversion H; subst. eapply dt_read_exact_rest; eassumption.
Qed.

Lemma dt_read_i64_rest l z r : read_i64 l = Some (z, r) -> lenN r <= lenN l.
Proof.
  unfold read_i64. destruct (read_exact l 8) as [[bs r']|] eqn:E; [|discriminate].
  intro H. inversion H; subst. eapply dt_read_exact_rest; eassumption.
Qed.

(* readString: whatever it allocates is at most what is left of the input, and what it leaves is shorter *)
Lemma dt_read_string_tr l res al :
  read_string_tr l = (res, al) ->
  (forall n, In n al -> n <= lenN l) /\ (forall s r, res = Some (s, r) -> lenN r <= lenN l).
Proof.
  unfold read_string_tr. destruct (read_u32 l) as [[n r]|] eqn:E.
  - pose proof (dt_read_u32_rest _ _ _ E) as Hr.
    destruct (N.ltb_spec (lenN r) n) as [L|L]; intro H; inversion H; subst; split.
    + intros m [].
    + intros; discriminate.
    + intros m [<-|[]]. lia.
    + intros s r' Hs. apply dt_read_exact_rest in Hs. lia.
  - intro H. inversion H; subst. split; [intros m []|intros; discriminate].
Qed.

Lemma C05_deserialize_total_proof :
  (forall (gob : bytes -> option compiled) (data : bytes),
     deserialize_compiled gob data = None \/ exists c, deserialize_compiled gob data = Some c) /\
  (forall (l : bytes) (n : N),
     (lenN l < n -> read_exact l n = None) /\
     (n <= lenN l -> exists a r, read_exact l n = Some (a, r) /\ l = a ++ r /\ lenN a = n)) /\
  (forall (data : bytes) (n : N), In n (deserialize_allocs data) -> n <= lenN data).
Proof.
  split; [|split].
  - intros gob data. destruct (deserialize_compiled gob data) as [c|]; [right; exists c; reflexivity|left; reflexivity].
  - exact dt_read_exact_bounds.
  - intros data n. unfold deserialize_allocs, deserialize_binary_tr.
    destruct (read_u8 data) as [[v r0]|] eqn:E0; [|intros []].
    assert (H0 : lenN r0 <= lenN data).
    { unfold read_u8 in E0. destruct data as [|b d]; [discriminate|]. inversion E0; subst. rewrite dt_lenN_cons. lia. }
    destruct (negb (Byte.eqb v x01)); [intros []|].
    destruct (read_string_tr r0) as [res1 a1] eqn:E1. destruct (dt_read_string_tr _ _ _ E1) as [A1 R1].
    destruct res1 as [[name r2]|]; [|cbn [snd]; intro Hn; specialize (A1 _ Hn); lia].
    specialize (R1 _ _ eq_refl).
    destruct (read_string_tr r2) as [res2 a2] eqn:E2. destruct (dt_read_string_tr _ _ _ E2) as [A2 R2].
    destruct res2 as [[src r4]|];
      [|cbn [snd]; intro Hn; apply in_app_or in Hn; destruct Hn as [Hn|Hn]; [specialize (A1 _ Hn)|specialize (A2 _ Hn)]; lia].
    specialize (R2 _ _ eq_refl).
    assert (A12 : forall m, In m (a1 ++ a2) -> m <= lenN data).
    { intros m Hm. apply in_app_or in Hm. destruct Hm as [Hm|Hm]; [specialize (A1 _ Hm)|specialize (A2 _ Hm)]; lia. }
    destruct (read_i64 r4) as [[lm r5]|] eqn:E3; [|cbn [snd]; apply A12].
    pose proof (dt_read_i64_rest _ _ _ E3).
    destruct (read_i64 r5) as [[ct r6]|] eqn:E4; [|cbn [snd]; apply A12].
    pose proof (dt_read_i64_rest _ _ _ E4).
    destruct (read_string_tr r6) as [res3 a3] eqn:E5. destruct (dt_read_string_tr _ _ _ E5) as [A3 _].
    assert (A123 : forall m, In m (a1 ++ a2 ++ a3) -> m <= lenN data).
    { intros m Hm. apply in_app_or in Hm. destruct Hm as [Hm|Hm]; [specialize (A1 _ Hm); lia|].
      apply in_app_or in Hm. destruct Hm as [Hm|Hm]; [specialize (A2 _ Hm)|specialize (A3 _ Hm)]; lia. }
    destruct res3 as [[ast r7]|]; cbn [snd]; apply A123.
Qed.
