(* Laws of the reference evaluator Spec/ExprEval.v (property C08): the operators give the
   mathematically expected result on integers, booleans and strings, and / or evaluate the right
   operand only when needed, the conditional operator evaluates exactly one branch, and every integer
   result lies within +-2^53. *)
From Coq Require Import ZifyBool.
From Twig Require Import Base.Bytes Model.Ast Model.Value Spec.ExprEval.

(* ---- short circuit: the result does not depend on the operand that is not needed ---- *)
Lemma spec_and_short env a v : spec_eval env a = Ok v -> spec_truthy v = Some false ->
  forall b, spec_eval env (EBin BAnd a b) = Ok (VBool false).
Proof. intros Ha Ht b. cbn [spec_eval]. rewrite Ha, Ht. reflexivity. Qed.

Lemma spec_or_short env a v : spec_eval env a = Ok v -> spec_truthy v = Some true ->
  forall b, spec_eval env (EBin BOr a b) = Ok (VBool true).
Proof. intros Ha Ht b. cbn [spec_eval]. rewrite Ha, Ht. reflexivity. Qed.

Lemma spec_and_full env a b va vb ta tb :
  spec_eval env a = Ok va -> spec_truthy va = Some ta -> spec_eval env b = Ok vb -> spec_truthy vb = Some tb ->
  spec_eval env (EBin BAnd a b) = Ok (VBool (ta && tb)).
Proof. intros Ha Hta Hb Htb. cbn [spec_eval]. rewrite Ha, Hta. destruct ta; [rewrite Hb, Htb|]; reflexivity. Qed.

Lemma spec_or_full env a b va vb ta tb :
  spec_eval env a = Ok va -> spec_truthy va = Some ta -> spec_eval env b = Ok vb -> spec_truthy vb = Some tb ->
  spec_eval env (EBin BOr a b) = Ok (VBool (ta || tb)).
Proof. intros Ha Hta Hb Htb. cbn [spec_eval]. rewrite Ha, Hta. destruct ta; [|rewrite Hb, Htb]; reflexivity. Qed.

(* ---- the conditional operator evaluates exactly one branch ---- *)
Lemma spec_cond_true env c v : spec_eval env c = Ok v -> spec_truthy v = Some true ->
  forall t f, spec_eval env (ECond c t f) = spec_eval env t.
Proof. intros Hc Ht t f. cbn [spec_eval]. rewrite Hc, Ht. reflexivity. Qed.

Lemma spec_cond_false env c v : spec_eval env c = Ok v -> spec_truthy v = Some false ->
  forall t f, spec_eval env (ECond c t f) = spec_eval env f.
Proof. intros Hc Ht t f. cbn [spec_eval]. rewrite Hc, Ht. reflexivity. Qed.

(* ---- exact integer arithmetic ---- *)
Definition spec_is_arith (o : binop) : bool :=
  match o with BAdd | BSub | BMul | BDiv | BMod | BPow => true | _ => false end.

Lemma spec_eval_bin env o a b va vb :
  o <> BAnd -> o <> BOr -> spec_eval env a = Ok va -> spec_eval env b = Ok vb ->
  spec_eval env (EBin o a b) = spec_binop o va vb.
Proof. intros H1 H2 Ha Hb. destruct o; try congruence; cbn [spec_eval]; rewrite Ha, Hb; reflexivity. Qed.

Lemma spec_add env a b x y : spec_eval env a = Ok (VInt x) -> spec_eval env b = Ok (VInt y) ->
  spec_in_range (x + y) = true -> spec_eval env (EBin BAdd a b) = Ok (VInt (x + y)).
Proof. intros Ha Hb Hr. rewrite (spec_eval_bin env BAdd a b _ _) by (congruence || eassumption). cbn. unfold spec_int. rewrite Hr. reflexivity. Qed.

Lemma spec_sub env a b x y : spec_eval env a = Ok (VInt x) -> spec_eval env b = Ok (VInt y) ->
  spec_in_range (x - y) = true -> spec_eval env (EBin BSub a b) = Ok (VInt (x - y)).
Proof. intros Ha Hb Hr. rewrite (spec_eval_bin env BSub a b _ _) by (congruence || eassumption). cbn. unfold spec_int. rewrite Hr. reflexivity. Qed.

Lemma spec_mul env a b x y : spec_eval env a = Ok (VInt x) -> spec_eval env b = Ok (VInt y) ->
  spec_in_range (x * y) = true -> spec_eval env (EBin BMul a b) = Ok (VInt (x * y)).
Proof. intros Ha Hb Hr. rewrite (spec_eval_bin env BMul a b _ _) by (congruence || eassumption). cbn. unfold spec_int. rewrite Hr. reflexivity. Qed.

Lemma spec_mod env a b x y : spec_eval env a = Ok (VInt x) -> spec_eval env b = Ok (VInt y) -> y <> 0%Z ->
  spec_in_range (Z.rem x y) = true -> spec_eval env (EBin BMod a b) = Ok (VInt (Z.rem x y)).
Proof.
  intros Ha Hb Hy Hr. rewrite (spec_eval_bin env BMod a b _ _) by (congruence || eassumption). cbn.
  destruct (y =? 0)%Z eqn:E; [lia|]. unfold spec_int. rewrite Hr. reflexivity.
Qed.

Lemma spec_div_exact env a b x y q : spec_eval env a = Ok (VInt x) -> spec_eval env b = Ok (VInt y) -> y <> 0%Z ->
  x = (q * y)%Z -> spec_in_range q = true -> spec_eval env (EBin BDiv a b) = Ok (VInt q).
Proof.
  intros Ha Hb Hy Hx Hr. rewrite (spec_eval_bin env BDiv a b _ _) by (congruence || eassumption). cbn.
  destruct (y =? 0)%Z eqn:E; [lia|]. subst x.
  rewrite Z.rem_mul by exact Hy. cbn. rewrite Z.quot_mul by exact Hy. unfold spec_int. rewrite Hr. reflexivity.
Qed.

Lemma spec_div_zero env a b x : spec_eval env a = Ok (VInt x) -> spec_eval env b = Ok (VInt 0) ->
  spec_eval env (EBin BDiv a b) = Err EOther /\ spec_eval env (EBin BMod a b) = Err EOther.
Proof.
  intros Ha Hb. split; [rewrite (spec_eval_bin env BDiv a b _ _) by (congruence || eassumption)
                       |rewrite (spec_eval_bin env BMod a b _ _) by (congruence || eassumption)]; reflexivity.
Qed.

(* ---- numeric comparison ---- *)
Lemma spec_lt env a b x y : spec_eval env a = Ok (VInt x) -> spec_eval env b = Ok (VInt y) ->
  spec_eval env (EBin BLt a b) = Ok (VBool (x <? y)%Z) /\ spec_eval env (EBin BLe a b) = Ok (VBool (x <=? y)%Z) /\
  spec_eval env (EBin BGt a b) = Ok (VBool (y <? x)%Z) /\ spec_eval env (EBin BGe a b) = Ok (VBool (y <=? x)%Z) /\
  spec_eval env (EBin BEq a b) = Ok (VBool (x =? y)%Z) /\ spec_eval env (EBin BNe a b) = Ok (VBool (negb (x =? y)%Z)).
Proof.
  intros Ha Hb. repeat split; cbn [spec_eval]; rewrite Ha, Hb; reflexivity.
Qed.

(* ---- concatenation ---- *)
Lemma spec_concat env a b va vb sa sb : spec_eval env a = Ok va -> spec_eval env b = Ok vb ->
  spec_show va = Some sa -> spec_show vb = Some sb ->
  spec_eval env (EBin BConcat a b) = Ok (VStr (sa ++ sb)).
Proof. intros Ha Hb Hsa Hsb. cbn [spec_eval]. rewrite Ha, Hb. cbn. rewrite Hsa, Hsb. reflexivity. Qed.

(* ---- not and the signs ---- *)
Lemma spec_not env a v t : spec_eval env a = Ok v -> spec_truthy v = Some t ->
  spec_eval env (EUn UNot a) = Ok (VBool (negb t)).
Proof. intros Ha Ht. cbn [spec_eval]. rewrite Ha, Ht. reflexivity. Qed.

Lemma spec_neg env a x : spec_eval env a = Ok (VInt x) -> spec_in_range x = true ->
  spec_eval env (EUn UNeg a) = Ok (VInt (- x)).
Proof.
  intros Ha Hr. cbn [spec_eval]. rewrite Ha. unfold spec_int.
  assert (E : spec_in_range (- x) = true) by (unfold spec_in_range, spec_bound in *; lia). rewrite E. reflexivity.
Qed.

(* ---- every integer the evaluator produces lies within +-2^53 ---- *)
Lemma spec_int_range z v : spec_int z = Ok v -> exists z', v = VInt z' /\ spec_in_range z' = true.
Proof. unfold spec_int. destruct (spec_in_range z) eqn:E; [|discriminate]. intro H. inversion H. eauto. Qed.

Definition spec_val_ok (v : value) : Prop :=
  match v with
  | VInt z => spec_in_range z = true
  | VBool _ | VStr _ => True
  | VList _ xs => forallb spec_simple xs = true     (* a list variable: only ever the right operand of in / not in *)
  | _ => False
  end.

Lemma spec_compare_ok o x y v : spec_compare o x y = Ok v -> spec_val_ok v.
Proof. destruct o; cbn [spec_compare]; intro H; inversion H; exact I. Qed.

Lemma spec_binop_ok o a b v : spec_binop o a b = Ok v -> spec_val_ok v.
Proof.
  destruct o; cbn [spec_binop]; intro H;
    try (match type of H with context [spec_num] =>
           destruct (spec_num a); try discriminate; destruct (spec_num b); try discriminate;
           eapply spec_compare_ok; exact H end);
    try (match type of H with context [spec_member] =>
           destruct b; try discriminate; destruct (spec_member _ _); inversion H; exact I end);
    try (destruct (spec_equal a b); inversion H; exact I);
    try (destruct a, b; try discriminate; cbn in H;
         repeat match type of H with
                | (if ?c then _ else _) = _ => destruct c; try discriminate
                end;
         first [ apply spec_int_range in H; destruct H as [z' [-> Hz]]; exact Hz
               | inversion H; exact I ]);
    try discriminate.
  - destruct (spec_show a), (spec_show b); inversion H. exact I.
Qed.

Lemma spec_list_ok f l vs : spec_list f l = Ok vs -> forallb spec_simple vs = true.
Proof.
  revert vs. induction l as [|x r IH]; intros vs H; cbn [spec_list] in H.
  - inversion H. reflexivity.
  - destruct (f x) as [v| | |]; try discriminate. destruct (spec_simple v) eqn:Ev; [|discriminate].
    destruct (spec_list f r) as [ws| | |] eqn:Er; try discriminate. inversion H. subst vs.
    cbn [forallb]. rewrite Ev. exact (IH ws eq_refl).
Qed.

Theorem spec_eval_ok env e v : spec_eval env e = Ok v -> spec_val_ok v.
Proof.
  revert v. induction e; intros v H; cbn [spec_eval] in H; try discriminate.
  - destruct l; try discriminate.
    + inversion H. exact I.
    + apply spec_int_range in H. destruct H as [z' [-> Hz]]. exact Hz.
    + inversion H. exact I.
  - unfold spec_lookup in H. destruct (assoc_bytes env x) as [[]|]; try discriminate.
    + inversion H. exact I.
    + apply spec_int_range in H. destruct H as [z' [-> Hz]]. exact Hz.
    + inversion H. exact I.
    + destruct (forallb spec_simple xs) eqn:E; [|discriminate]. inversion H. exact E.
  - destruct (spec_eval env e) as [w| | |]; try discriminate. specialize (IHe w eq_refl).
    destruct o.
    + destruct (spec_truthy w); inversion H. exact I.
    + destruct w; try discriminate. apply spec_int_range in H. destruct H as [z' [-> Hz]]. exact Hz.
    + destruct w; try discriminate. inversion H. subst. exact IHe.
  - assert (Hgen : forall r, (match spec_eval env e1 with
                              | Ok vl => match spec_eval env e2 with Ok vr => spec_binop o vl vr | x => x end
                              | x => x end) = Ok r -> spec_val_ok r).
    { intros r Hr. destruct (spec_eval env e1); try discriminate. destruct (spec_eval env e2); try discriminate.
      eapply spec_binop_ok; exact Hr. }
    destruct o; try (apply Hgen; exact H).
    + destruct (spec_eval env e1) as [w| | |]; try discriminate. destruct (spec_truthy w) as [[]|]; try discriminate.
      * inversion H. exact I.
      * destruct (spec_eval env e2) as [w2| | |]; try discriminate. destruct (spec_truthy w2); inversion H. exact I.
    + destruct (spec_eval env e1) as [w| | |]; try discriminate. destruct (spec_truthy w) as [[]|]; try discriminate.
      * destruct (spec_eval env e2) as [w2| | |]; try discriminate. destruct (spec_truthy w2); inversion H. exact I.
      * inversion H. exact I.
  - destruct (spec_eval env e1) as [w| | |]; try discriminate. destruct (spec_truthy w) as [[]|]; try discriminate.
    + apply IHe2, H.
    + apply IHe3, H.
  - destruct (spec_list (spec_eval env) es) as [vs| | |] eqn:El; try discriminate. inversion H. subst v.
    cbn [spec_val_ok]. exact (spec_list_ok _ _ _ El).
Qed.

Corollary spec_eval_int_range env e z : spec_eval env e = Ok (VInt z) -> (- 2 ^ 53 <= z <= 2 ^ 53)%Z.
Proof.
  intro H. apply spec_eval_ok in H. cbn in H. unfold spec_in_range, spec_bound in H.
  change (2 ^ 53)%Z with 9007199254740992%Z. lia.
Qed.

(* ---- the statements of Properties/C08.v about the reference evaluator ---- *)
Lemma C08_short_circuit_proof : forall (env : spec_env) (a : expr) (v : value),
  spec_eval env a = Ok v ->
  (spec_truthy v = Some false -> forall b, spec_eval env (EBin BAnd a b) = Ok (VBool false)) /\
  (spec_truthy v = Some true -> forall b, spec_eval env (EBin BOr a b) = Ok (VBool true)).
Proof. intros env a v H. split; intros Ht b; [eapply spec_and_short|eapply spec_or_short]; eassumption. Qed.

Lemma C08_conditional_one_branch_proof : forall (env : spec_env) (c : expr) (v : value),
  spec_eval env c = Ok v ->
  (spec_truthy v = Some true -> forall t f, spec_eval env (ECond c t f) = spec_eval env t) /\
  (spec_truthy v = Some false -> forall t f, spec_eval env (ECond c t f) = spec_eval env f).
Proof. intros env c v H. split; intros Ht t f; [eapply spec_cond_true|eapply spec_cond_false]; eassumption. Qed.

Lemma C08_integer_arithmetic_proof : forall (env : spec_env) (a b : expr) (x y : Z),
  spec_eval env a = Ok (VInt x) -> spec_eval env b = Ok (VInt y) ->
  (spec_in_range (x + y) = true -> spec_eval env (EBin BAdd a b) = Ok (VInt (x + y))) /\
  (spec_in_range (x - y) = true -> spec_eval env (EBin BSub a b) = Ok (VInt (x - y))) /\
  (spec_in_range (x * y) = true -> spec_eval env (EBin BMul a b) = Ok (VInt (x * y))) /\
  (y <> 0%Z -> spec_in_range (Z.rem x y) = true -> spec_eval env (EBin BMod a b) = Ok (VInt (Z.rem x y))) /\
  spec_eval env (EBin BLt a b) = Ok (VBool (x <? y)%Z) /\ spec_eval env (EBin BLe a b) = Ok (VBool (x <=? y)%Z) /\
  spec_eval env (EBin BGt a b) = Ok (VBool (y <? x)%Z) /\ spec_eval env (EBin BGe a b) = Ok (VBool (y <=? x)%Z) /\
  spec_eval env (EBin BEq a b) = Ok (VBool (x =? y)%Z) /\ spec_eval env (EBin BNe a b) = Ok (VBool (negb (x =? y)%Z)).
Proof.
  intros env a b x y Ha Hb.
  split; [intro; apply spec_add; assumption|]. split; [intro; apply spec_sub; assumption|].
  split; [intro; apply spec_mul; assumption|]. split; [intros; apply spec_mod; assumption|].
  apply spec_lt; assumption.
Qed.

Lemma C08_integer_range_proof : forall (env : spec_env) (e : expr) (z : Z),
  spec_eval env e = Ok (VInt z) -> (- 2 ^ 53 <= z <= 2 ^ 53)%Z.
Proof. exact spec_eval_int_range. Qed.

Lemma C08_concat_proof : forall (env : spec_env) (a b : expr) (va vb : value) (sa sb : bytes),
  spec_eval env a = Ok va -> spec_eval env b = Ok vb -> spec_show va = Some sa -> spec_show vb = Some sb ->
  spec_eval env (EBin BConcat a b) = Ok (VStr (sa ++ sb)).
Proof. exact spec_concat. Qed.

(* ---- membership: in / not in against a list variable ---- *)
Lemma spec_member_true a xs r : spec_member a xs = Some r ->
  (r = true <-> exists x, In x xs /\ spec_equal a x = Some true).
Proof.
  revert r. induction xs as [|x xs IH]; intros r H; cbn [spec_member] in H.
  - inversion H. split; [discriminate|]. intros [y [[] _]].
  - destruct (spec_equal a x) as [e|] eqn:E; [|discriminate].
    destruct (spec_member a xs) as [m|] eqn:M; [|discriminate]. inversion H. subst r. clear H.
    specialize (IH m eq_refl). split.
    + intro Hor. destruct e.
      * exists x. split; [left; reflexivity|exact E].
      * cbn in Hor. apply IH in Hor. destruct Hor as [y [Hy Hey]]. exists y. split; [right; exact Hy|exact Hey].
    + intros [y [[->|Hy] Hey]].
      * rewrite E in Hey. inversion Hey. reflexivity.
      * assert (m = true) as -> by (apply IH; exists y; split; assumption). apply Bool.orb_true_r.
Qed.

Lemma C08_membership_proof : forall (env : spec_env) (a : expr) (x : bytes) (va : value) (t : ltag) (xs : list value) (r : bool),
  spec_eval env a = Ok va -> spec_eval env (EVar x) = Ok (VList t xs) -> spec_member va xs = Some r ->
  spec_eval env (EBin BIn a (EVar x)) = Ok (VBool r) /\
  spec_eval env (EBin BNotIn a (EVar x)) = Ok (VBool (negb r)) /\
  (r = true <-> exists y, In y xs /\ spec_equal va y = Some true).
Proof.
  intros env a x va t xs r Ha Hx Hm. split; [|split].
  - rewrite (spec_eval_bin env BIn a (EVar x) va (VList t xs)) by (congruence || assumption).
    cbn [spec_binop]. rewrite Hm. reflexivity.
  - rewrite (spec_eval_bin env BNotIn a (EVar x) va (VList t xs)) by (congruence || assumption).
    cbn [spec_binop]. rewrite Hm. reflexivity.
  - apply spec_member_true. exact Hm.
Qed.

Lemma C08_membership_literal_proof : forall (env : spec_env) (a : expr) (es : list expr) (va : value) (vs : list value) (r : bool),
  spec_eval env a = Ok va -> spec_list (spec_eval env) es = Ok vs -> spec_member va vs = Some r ->
  spec_eval env (EBin BIn a (EArr es)) = Ok (VBool r) /\
  spec_eval env (EBin BNotIn a (EArr es)) = Ok (VBool (negb r)) /\
  (r = true <-> exists y, In y vs /\ spec_equal va y = Some true).
Proof.
  intros env a es va vs r Ha Hl Hm.
  assert (Harr : spec_eval env (EArr es) = Ok (VList LAny vs)) by (cbn [spec_eval]; rewrite Hl; reflexivity).
  split; [|split].
  - rewrite (spec_eval_bin env BIn a (EArr es) va (VList LAny vs)) by (congruence || assumption).
    cbn [spec_binop]. rewrite Hm. reflexivity.
  - rewrite (spec_eval_bin env BNotIn a (EArr es) va (VList LAny vs)) by (congruence || assumption).
    cbn [spec_binop]. rewrite Hm. reflexivity.
  - apply spec_member_true. exact Hm.
Qed.

(* ---- strings that spell whole numbers compare as those numbers ---- *)
Lemma C08_numeral_strings_proof : forall (env : spec_env) (a b : expr) (va vb : value) (x y : Z),
  spec_eval env a = Ok va -> spec_eval env b = Ok vb -> spec_num va = Some x -> spec_num vb = Some y ->
  spec_eval env (EBin BLt a b) = Ok (VBool (x <? y)%Z) /\ spec_eval env (EBin BLe a b) = Ok (VBool (x <=? y)%Z) /\
  spec_eval env (EBin BGt a b) = Ok (VBool (y <? x)%Z) /\ spec_eval env (EBin BGe a b) = Ok (VBool (y <=? x)%Z).
Proof.
  intros env a b va vb x y Ha Hb Hx Hy.
  repeat split.
  - rewrite (spec_eval_bin env BLt a b va vb) by (congruence || assumption). cbn [spec_binop]. rewrite Hx, Hy. reflexivity.
  - rewrite (spec_eval_bin env BLe a b va vb) by (congruence || assumption). cbn [spec_binop]. rewrite Hx, Hy. reflexivity.
  - rewrite (spec_eval_bin env BGt a b va vb) by (congruence || assumption). cbn [spec_binop]. rewrite Hx, Hy. reflexivity.
  - rewrite (spec_eval_bin env BGe a b va vb) by (congruence || assumption). cbn [spec_binop]. rewrite Hx, Hy. reflexivity.
Qed.

Example spec_numeral_examples :
  spec_numeral b#"10" = Some 10%Z /\ spec_numeral b#"9" = Some 9%Z /\ spec_numeral b#"-5" = Some (-5)%Z /\ spec_numeral b#"0" = Some 0%Z /\
  spec_numeral b#"007" = None /\ spec_numeral b#"-0" = None /\ spec_numeral b#"1.0" = None /\ spec_numeral b#"" = None /\ spec_numeral b#"-" = None /\
  spec_numeral b#"abc" = None /\ spec_numeral b#"1234567890123456" = None.
Proof. repeat split; reflexivity. Qed.
