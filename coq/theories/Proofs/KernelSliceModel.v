(* The index computations of filterSlice as translated from the Go code (Gen/KernelsSlice.v) equal the model functions flt_slice_bounds / flt_slice_bounds_refl of Model/Filters.v, which C19_slice_is_spec relates to the index rule of the property. *)
From Coq Require Import ZArith List Bool Lia.
From Twig Require Import Base.Bytes Base.Kernel Gen.KernelsSlice Model.Filters Proofs.KernelTactics.
Import ListNotations.
Local Open Scope Z_scope.

(* ---- slice ---- *)
Definition ksl_res (b : option (Z * Z)) : kres :=
  match b with None => KRet b#"empty" [] | Some (s, e) => KRet b#"slice" [KZ s; KZ e] end.
Definition ksl_len (hl : bool) (len : Z) : option Z := if hl then Some len else None.

Lemma k_slice_string_model start len hl n :
  k_slice_string start len hl n = ksl_res (flt_slice_bounds n start (ksl_len hl len)).
Proof.
  unfold k_slice_string, flt_slice_bounds, ksl_res, ksl_len. cbv zeta.
  destruct hl; cbn [negb]; repeat zcase; try reflexivity; try lia; repeat f_equal; lia.
Qed.

Lemma k_slice_list_model start len hl n :
  k_slice_list start len hl n = ksl_res (flt_slice_bounds n start (ksl_len hl len)).
Proof.
  unfold k_slice_list, flt_slice_bounds, ksl_res, ksl_len. cbv zeta.
  destruct hl; cbn [negb]; repeat zcase; try reflexivity; try lia; repeat f_equal; lia.
Qed.
Lemma k_slice_refl_string_model start len hl n :
  k_slice_refl_string start len hl n = ksl_res (flt_slice_bounds n start (ksl_len hl len)).
Proof.
  unfold k_slice_refl_string, flt_slice_bounds, ksl_res, ksl_len. cbv zeta.
  destruct hl; cbn [negb]; repeat zcase; try reflexivity; try lia; repeat f_equal; lia.
Qed.
Lemma k_slice_refl_slice_model start len hl n :
  k_slice_refl_slice start len hl n = ksl_res (flt_slice_bounds_refl n start (ksl_len hl len)).
Proof.
  unfold k_slice_refl_slice, flt_slice_bounds_refl, ksl_res, ksl_len. cbv zeta.
  destruct hl; cbn [negb]; repeat zcase; try reflexivity; try lia; repeat f_equal; lia.
Qed.

