(* Proofs of the filter laws of property C19 about Model/Filters.v, against Spec/FilterSpec.v. *)
From Twig Require Import Base.Bytes Base.Utf8F Model.Value Model.Filters Spec.FilterSpec Proofs.Utf8FProofs.
From Coq Require Import NArith ZArith Lia ZifyBool ZifyNat ZifyN Sorting.Permutation Sorting.Sorted.
Local Open Scope Z_scope.

(* ================================================================== lists: small facts *)
Lemma flt_forallb_map {A B} (f : A -> B) (p : B -> bool) (l : list A) :
  forallb p (map f l) = forallb (fun x => p (f x)) l.
Proof. induction l as [|x l IH]; [reflexivity|]. cbn. rewrite IH. reflexivity. Qed.

Lemma flt_forallb_impl {A} (p q : A -> bool) (l : list A) :
  (forall x, p x = true -> q x = true) -> forallb p l = true -> forallb q l = true.
Proof.
  intros H. induction l as [|x l IH]; [reflexivity|]. cbn. intros Hp. apply andb_true_iff in Hp.
  destruct Hp as [H1 H2]. rewrite (H _ H1), (IH H2). reflexivity.
Qed.

Lemma flt_forallb_rev {A} (p : A -> bool) (l : list A) : forallb p (rev l) = forallb p l.
Proof.
  induction l as [|x l IH]; [reflexivity|]. cbn [rev]. rewrite forallb_app, IH. cbn. rewrite andb_true_r. apply andb_comm.
Qed.

(* ================================================================== upper, lower *)
Section CaseLaws.
  Variables (up low : N -> N).
  Hypothesis up_idem : forall c, up (up c) = up c.
  Hypothesis low_idem : forall c, low (low c) = low c.
  Hypothesis up_scalar : forall c, uf8_scalar c = true -> uf8_scalar (up c) = true.
  Hypothesis low_scalar : forall c, uf8_scalar c = true -> uf8_scalar (low c) = true.

  Lemma flt_map_scalar (f : N -> N) (l : list N) :
    (forall c, uf8_scalar c = true -> uf8_scalar (f c) = true) ->
    forallb uf8_scalar l = true -> forallb uf8_scalar (map f l) = true.
  Proof. intros Hf H. rewrite flt_forallb_map. eapply flt_forallb_impl; [|exact H]. exact Hf. Qed.

  Lemma flt_case_idem (f : N -> N) :
    (forall c, f (f c) = f c) -> (forall c, uf8_scalar c = true -> uf8_scalar (f c) = true) ->
    forall s, uf8_encode (map f (uf8_cps (uf8_encode (map f (uf8_cps s))))) = uf8_encode (map f (uf8_cps s)).
  Proof.
    intros Hi Hs s. rewrite uf8_cps_encode by (apply flt_map_scalar; [exact Hs|apply uf8_cps_scalar]).
    rewrite map_map. f_equal. apply map_ext. exact Hi.
  Qed.

  Lemma C19_upper_idempotent_proof : forall s, flt_upper_bytes up (flt_upper_bytes up s) = flt_upper_bytes up s.
  Proof. intros s. unfold flt_upper_bytes. apply flt_case_idem; assumption. Qed.

  Lemma C19_lower_idempotent_proof : forall s, flt_lower_bytes low (flt_lower_bytes low s) = flt_lower_bytes low s.
  Proof. intros s. unfold flt_lower_bytes. apply flt_case_idem; assumption. Qed.

  (* ---------------------------------------------------------------- capitalize *)
  Hypothesis up_space : forall c, flt_is_space (up c) = flt_is_space c.
  Hypothesis low_space : forall c, flt_is_space (low c) = flt_is_space c.

  (* a word: not empty, no white space *)
  Definition flt_is_word (w : list N) : Prop := w <> [] /\ forallb (fun c => negb (flt_is_space c)) w = true.

  Lemma flt_fields_words : forall l cur,
    forallb (fun c => negb (flt_is_space c)) cur = true ->
    Forall flt_is_word (flt_fields cur l).
  Proof.
    induction l as [|c l IH]; intros cur Hcur; cbn [flt_fields].
    - destruct cur as [|x cur]; [constructor|]. constructor; [|constructor].
      split; [intro E; apply (f_equal (@length N)) in E; rewrite rev_length in E; discriminate|].
      rewrite flt_forallb_rev. exact Hcur.
    - destruct (flt_is_space c) eqn:Hc.
      + destruct cur as [|x cur]; [apply IH; reflexivity|]. constructor; [|apply IH; reflexivity].
        split; [intro E; apply (f_equal (@length N)) in E; rewrite rev_length in E; discriminate|].
        rewrite flt_forallb_rev. exact Hcur.
      + apply IH. cbn [forallb]. rewrite Hc. exact Hcur.
  Qed.

  (* the fields of words joined by single spaces are the words *)
  Fixpoint flt_join_cps (ws : list (list N)) : list N :=
    match ws with
    | [] => []
    | [w] => w
    | w :: r => w ++ 32%N :: flt_join_cps r
    end.

  Lemma flt_fields_acc : forall w cur l,
    forallb (fun c => negb (flt_is_space c)) w = true ->
    flt_fields cur (w ++ l) = flt_fields (rev w ++ cur) l.
  Proof.
    induction w as [|c w IH]; intros cur l Hw; [reflexivity|].
    cbn [forallb] in Hw. apply andb_true_iff in Hw. destruct Hw as [Hc Hw].
    cbn [app flt_fields]. destruct (flt_is_space c); [discriminate|].
    rewrite IH by exact Hw. cbn [rev]. rewrite <- app_assoc. reflexivity.
  Qed.

  Lemma flt_fields_join : forall ws, Forall flt_is_word ws -> flt_fields [] (flt_join_cps ws) = ws.
  Proof.
    induction ws as [|w ws IH]; intros H; [reflexivity|].
    inversion H as [|? ? [Hne Hw] Hws]; subst.
    destruct ws as [|w2 ws].
    - cbn [flt_join_cps]. rewrite <- (app_nil_r w) at 1. rewrite flt_fields_acc by exact Hw.
      cbn [flt_fields]. rewrite app_nil_r. destruct (rev w) eqn:E.
      + apply (f_equal (@rev N)) in E. rewrite rev_involutive in E. contradiction.
      + rewrite <- E, rev_involutive. reflexivity.
    - change (flt_join_cps (w :: w2 :: ws)) with (w ++ 32%N :: flt_join_cps (w2 :: ws)).
      rewrite flt_fields_acc by exact Hw. cbn [flt_fields]. rewrite app_nil_r.
      change (flt_is_space 32) with true. cbn iota.
      destruct (rev w) eqn:E.
      + apply (f_equal (@rev N)) in E. rewrite rev_involutive in E. contradiction.
      + rewrite <- E, rev_involutive. f_equal. apply IH. exact Hws.
  Qed.

  Lemma flt_cap_word_word (w : list N) : flt_is_word w -> flt_is_word (flt_cap_word up low w).
  Proof.
    intros [Hne Hw]. destruct w as [|c r]; [contradiction|]. split; [discriminate|].
    cbn [flt_cap_word forallb] in *. apply andb_true_iff in Hw. destruct Hw as [Hc Hr].
    rewrite up_space, Hc. cbn [andb]. rewrite flt_forallb_map.
    eapply flt_forallb_impl; [|exact Hr]. intros x Hx. cbn beta in *. rewrite low_space. exact Hx.
  Qed.

  Lemma flt_cap_word_idem (w : list N) : flt_cap_word up low (flt_cap_word up low w) = flt_cap_word up low w.
  Proof.
    destruct w as [|c r]; [reflexivity|]. cbn [flt_cap_word]. rewrite up_idem, map_map. f_equal.
    apply map_ext. exact low_idem.
  Qed.

  Lemma flt_cap_word_scalar (w : list N) : forallb uf8_scalar w = true -> forallb uf8_scalar (flt_cap_word up low w) = true.
  Proof.
    destruct w as [|c r]; [reflexivity|]. cbn [flt_cap_word forallb]. intros H. apply andb_true_iff in H.
    destruct H as [Hc Hr]. rewrite (up_scalar _ Hc). cbn [andb]. apply flt_map_scalar; assumption.
  Qed.

  (* the text of the capitalized words, as code points *)
  Lemma flt_join_bytes_encode (ws : list (list N)) :
    flt_join_bytes [x20] (map uf8_encode ws) = uf8_encode (flt_join_cps ws).
  Proof.
    induction ws as [|w ws IH]; [reflexivity|]. destruct ws as [|w2 ws]; [reflexivity|].
    change (flt_join_bytes [x20] (map uf8_encode (w :: w2 :: ws)))
      with (uf8_encode w ++ [x20] ++ flt_join_bytes [x20] (map uf8_encode (w2 :: ws))).
    rewrite IH. change (flt_join_cps (w :: w2 :: ws)) with (w ++ 32%N :: flt_join_cps (w2 :: ws)).
    rewrite uf8_encode_app. reflexivity.
  Qed.

  Lemma flt_join_cps_scalar (ws : list (list N)) :
    Forall (fun w => forallb uf8_scalar w = true) ws -> forallb uf8_scalar (flt_join_cps ws) = true.
  Proof.
    induction ws as [|w ws IH]; intros H; [reflexivity|]. inversion H; subst.
    destruct ws as [|w2 ws]; [assumption|].
    change (flt_join_cps (w :: w2 :: ws)) with (w ++ 32%N :: flt_join_cps (w2 :: ws)).
    rewrite forallb_app. cbn [forallb]. rewrite IH by assumption.
    match goal with Hw : forallb uf8_scalar w = true |- _ => rewrite Hw end. reflexivity.
  Qed.

  Lemma flt_fields_scalar : forall l cur, forallb uf8_scalar l = true -> forallb uf8_scalar cur = true ->
    Forall (fun w => forallb uf8_scalar w = true) (flt_fields cur l).
  Proof.
    induction l as [|c l IH]; intros cur Hl Hcur; cbn [flt_fields].
    - destruct cur; [constructor|]. constructor; [|constructor]. rewrite flt_forallb_rev. exact Hcur.
    - cbn [forallb] in Hl. apply andb_true_iff in Hl. destruct Hl as [Hc Hl].
      destruct (flt_is_space c).
      + destruct cur; [apply IH; auto|]. constructor; [rewrite flt_forallb_rev; exact Hcur|apply IH; auto].
      + apply IH; [exact Hl|]. cbn [forallb]. rewrite Hc. exact Hcur.
  Qed.

  Lemma flt_capitalize_as_cps (ws : list (list N)) :
    flt_join_bytes [x20] (map (fun w => uf8_encode (flt_cap_word up low w)) ws)
    = uf8_encode (flt_join_cps (map (flt_cap_word up low) ws)).
  Proof. rewrite <- (map_map (flt_cap_word up low) uf8_encode). apply flt_join_bytes_encode. Qed.

  Lemma C19_capitalize_idempotent_proof : forall s,
    flt_capitalize_bytes up low (flt_capitalize_bytes up low s) = flt_capitalize_bytes up low s.
  Proof.
    intros s. unfold flt_capitalize_bytes.
    set (ws := flt_fields [] (uf8_cps s)).
    assert (Hwords : Forall flt_is_word ws) by (apply flt_fields_words; reflexivity).
    assert (Hsc : Forall (fun w => forallb uf8_scalar w = true) ws)
      by (apply flt_fields_scalar; [apply uf8_cps_scalar|reflexivity]).
    rewrite (flt_capitalize_as_cps ws).
    set (cw := map (flt_cap_word up low) ws).
    assert (Hcw : Forall flt_is_word cw).
    { unfold cw. clear -Hwords up_space low_space. induction Hwords; constructor; auto. apply flt_cap_word_word. assumption. }
    assert (Hcs : Forall (fun w => forallb uf8_scalar w = true) cw).
    { unfold cw. clear -Hsc up_scalar low_scalar. induction Hsc; constructor; auto. apply flt_cap_word_scalar. assumption. }
    rewrite uf8_cps_encode by (apply flt_join_cps_scalar; exact Hcs).
    rewrite flt_fields_join by exact Hcw.
    rewrite (flt_capitalize_as_cps cw).
    f_equal. f_equal. unfold cw. rewrite map_map. apply map_ext. intros w. apply flt_cap_word_idem.
  Qed.
End CaseLaws.

(* ================================================================== trim *)
Lemma flt_drop_while_skipn {A} (p : A -> bool) (l : list A) : exists j, flt_drop_while p l = skipn j l.
Proof.
  induction l as [|x l [j IH]]; [exists O; reflexivity|]. cbn [flt_drop_while].
  destruct (p x); [exists (S j); exact IH|exists O; reflexivity].
Qed.

Lemma flt_drop_while_idem {A} (p : A -> bool) (l : list A) : flt_drop_while p (flt_drop_while p l) = flt_drop_while p l.
Proof.
  induction l as [|x l IH]; [reflexivity|]. cbn [flt_drop_while]. destruct (p x) eqn:E; [exact IH|].
  cbn [flt_drop_while]. rewrite E. reflexivity.
Qed.

Lemma flt_drop_while_firstn {A} (p : A -> bool) (l : list A) (k : nat) :
  flt_drop_while p l = l -> flt_drop_while p (firstn k l) = firstn k l.
Proof.
  destruct l as [|x l]; [destruct k; reflexivity|]. cbn [flt_drop_while]. destruct (p x) eqn:E.
  - intros H. exfalso. destruct (flt_drop_while_skipn p l) as [j Hj]. rewrite Hj in H.
    apply (f_equal (@length A)) in H. rewrite skipn_length in H. cbn [length] in H. lia.
  - intros _. destruct k; [reflexivity|]. cbn [firstn flt_drop_while]. rewrite E. reflexivity.
Qed.

Lemma flt_rev_skipn_rev {A} (j : nat) (l : list A) : rev (skipn j (rev l)) = firstn (length l - j) l.
Proof. rewrite skipn_rev, rev_involutive. reflexivity. Qed.

Lemma flt_trim_chunks_segment (set : N -> bool) (cs : list (N * bytes)) :
  exists j k, flt_trim_chunks set cs = firstn k (skipn j cs).
Proof.
  unfold flt_trim_chunks. set (p := fun ch : N * bytes => set (fst ch)).
  destruct (flt_drop_while_skipn p cs) as [j Hj]. rewrite Hj.
  destruct (flt_drop_while_skipn p (rev (skipn j cs))) as [i Hi]. rewrite Hi.
  exists j. eexists. apply flt_rev_skipn_rev.
Qed.

Lemma flt_trim_chunks_idem (set : N -> bool) (cs : list (N * bytes)) :
  flt_trim_chunks set (flt_trim_chunks set cs) = flt_trim_chunks set cs.
Proof.
  unfold flt_trim_chunks. set (p := fun ch : N * bytes => set (fst ch)).
  set (A := flt_drop_while p cs). set (B := flt_drop_while p (rev A)).
  assert (HA : flt_drop_while p A = A) by apply flt_drop_while_idem.
  assert (HB : flt_drop_while p B = B) by apply flt_drop_while_idem.
  assert (HrB : flt_drop_while p (rev B) = rev B).
  { unfold B. destruct (flt_drop_while_skipn p (rev A)) as [i Hi]. rewrite Hi, flt_rev_skipn_rev.
    apply flt_drop_while_firstn. exact HA. }
  rewrite HrB, rev_involutive, HB. reflexivity.
Qed.

Lemma C19_trim_idempotent_proof : forall (set : N -> bool) (s : bytes),
  flt_trim_bytes set (flt_trim_bytes set s) = flt_trim_bytes set s.
Proof.
  intros set s. unfold flt_trim_bytes.
  destruct (flt_trim_chunks_segment set (uf8_chunks s)) as [j [k H]].
  rewrite H at 1. rewrite uf8_chunks_segment, <- H, flt_trim_chunks_idem. reflexivity.
Qed.

(* the filter as it is called: with no argument, or with the characters to remove *)
Lemma C19_trim_filter_idempotent_proof : forall (v : value) (args : list value) (w : value),
  flt_trim v args = FltOk w -> flt_trim w args = FltOk w.
Proof.
  intros v args w. unfold flt_trim.
  destruct (flt_to_string v) as [s|]; [|discriminate].
  destruct args as [|a args].
  - intros H. inversion H; subst. cbn [flt_to_string]. rewrite C19_trim_idempotent_proof. reflexivity.
  - destruct (flt_to_string a) as [[|c cut]|]; [| |discriminate]; intros H; inversion H; subst; cbn [flt_to_string].
    + reflexivity.
    + rewrite C19_trim_idempotent_proof. reflexivity.
Qed.

(* ================================================================== reverse *)
Definition flt_reverse_bytes (s : bytes) : bytes := uf8_encode (rev (uf8_cps s)).

Lemma flt_reverse_str (s : bytes) : flt_reverse (VStr s) = FltOk (VStr (flt_reverse_bytes s)).
Proof. reflexivity. Qed.

Lemma flt_cps_reverse (s : bytes) : uf8_cps (flt_reverse_bytes s) = rev (uf8_cps s).
Proof. unfold flt_reverse_bytes. apply uf8_cps_encode. rewrite flt_forallb_rev. apply uf8_cps_scalar. Qed.

Lemma C19_reverse_string_proof : forall s : bytes,
  length (uf8_cps (flt_reverse_bytes s)) = length (uf8_cps s) /\
  uf8_cps (flt_reverse_bytes s) = rev (uf8_cps s) /\
  flt_reverse_bytes (flt_reverse_bytes s) = uf8_sanitize s /\
  (uf8_validb s = true -> flt_reverse_bytes (flt_reverse_bytes s) = s).
Proof.
  intros s. rewrite flt_cps_reverse. split; [apply rev_length|]. split; [reflexivity|].
  assert (H : flt_reverse_bytes (flt_reverse_bytes s) = uf8_sanitize s).
  { unfold flt_reverse_bytes at 1. rewrite flt_cps_reverse, rev_involutive. reflexivity. }
  split; [exact H|]. intros Hv. rewrite H. apply uf8_sanitize_valid. exact Hv.
Qed.

Lemma flt_slice_tag_idem (t : ltag) : flt_slice_tag (flt_slice_tag t) = flt_slice_tag t.
Proof. destruct t; reflexivity. Qed.

Lemma flt_reverse_list (t : ltag) (xs : list value) : flt_reverse (VList t xs) = FltOk (VList (flt_slice_tag t) (rev xs)).
Proof. destruct t; reflexivity. Qed.

Lemma C19_reverse_list_proof : forall (t : ltag) (xs : list value),
  exists t', flt_reverse (VList t xs) = FltOk (VList t' (rev xs)) /\
             length (rev xs) = length xs /\
             flt_reverse (VList t' (rev xs)) = FltOk (VList t' xs).
Proof.
  intros t xs. exists (flt_slice_tag t). split; [apply flt_reverse_list|]. split; [apply rev_length|].
  rewrite flt_reverse_list, flt_slice_tag_idem, rev_involutive. reflexivity.
Qed.

(* ================================================================== sort *)
Section InsertionSort.
  Context {A : Type} (lt : A -> A -> bool).
  Hypothesis lt_asym : forall a b, lt a b = true -> lt b a = false.
  Hypothesis lt_negtrans : forall a b c, lt b a = false -> lt c b = false -> lt c a = false.

  Lemma flt_insert_perm (x : A) (l : list A) : Permutation (x :: l) (flt_insert lt x l).
  Proof.
    induction l as [|y l IH]; [apply Permutation_refl|]. cbn [flt_insert]. destruct (lt y x).
    - eapply perm_trans; [apply perm_swap|]. apply perm_skip. exact IH.
    - apply Permutation_refl.
  Qed.

  Lemma flt_isort_perm (l : list A) : Permutation l (flt_isort lt l).
  Proof.
    induction l as [|x l IH]; [apply Permutation_refl|]. unfold flt_isort in *. cbn [fold_right].
    eapply perm_trans; [apply perm_skip; exact IH|]. apply flt_insert_perm.
  Qed.

  Lemma flt_insert_sorted (x : A) (l : list A) :
    fsp_ordered lt l -> fsp_ordered lt (flt_insert lt x l).
  Proof.
    unfold fsp_ordered. induction l as [|y l IH]; intros H.
    - cbn. constructor; [constructor|constructor].
    - inversion H as [|? ? Hl Hy]; subst. cbn [flt_insert]. destruct (lt y x) eqn:E.
      + constructor; [apply IH; exact Hl|].
        apply Forall_forall. intros z Hz.
        apply (Permutation_in _ (Permutation_sym (flt_insert_perm x l))) in Hz. destruct Hz as [<-|Hz].
        * apply lt_asym. exact E.
        * rewrite Forall_forall in Hy. apply Hy. exact Hz.
      + constructor; [exact H|]. constructor; [exact E|].
        rewrite Forall_forall in *. intros z Hz. eapply lt_negtrans; [exact E|]. apply Hy. exact Hz.
  Qed.

  Lemma flt_isort_sorted (l : list A) : fsp_ordered lt (flt_isort lt l).
  Proof.
    induction l as [|x l IH]; [constructor|]. unfold flt_isort in *. cbn [fold_right].
    apply flt_insert_sorted. exact IH.
  Qed.

  Lemma flt_isort_sorted_perm (l : list A) : fsp_sorted_perm lt l (flt_isort lt l).
  Proof. split; [apply flt_isort_perm|apply flt_isort_sorted]. Qed.
End InsertionSort.

(* Go's order on strings is a strict total order *)
Lemma flt_bytes_ltb_asym : forall a b, flt_bytes_ltb a b = true -> flt_bytes_ltb b a = false.
Proof.
  induction a as [|x a IH]; intros [|y b]; cbn [flt_bytes_ltb]; try congruence.
  destruct (N.ltb_spec (uf8_n x) (uf8_n y)), (N.ltb_spec (uf8_n y) (uf8_n x)); try congruence; try lia; try apply IH.
Qed.

Lemma flt_bytes_ltb_negtrans : forall a b c,
  flt_bytes_ltb b a = false -> flt_bytes_ltb c b = false -> flt_bytes_ltb c a = false.
Proof.
  induction a as [|x a IH]; intros [|y b] [|z c]; cbn [flt_bytes_ltb]; try congruence.
  destruct (N.ltb_spec (uf8_n y) (uf8_n x)), (N.ltb_spec (uf8_n x) (uf8_n y)),
           (N.ltb_spec (uf8_n z) (uf8_n y)), (N.ltb_spec (uf8_n y) (uf8_n z)),
           (N.ltb_spec (uf8_n z) (uf8_n x)), (N.ltb_spec (uf8_n x) (uf8_n z)); try congruence; try lia; try apply IH.
Qed.

Lemma flt_text_lt_asym : forall a b, flt_text_lt a b = true -> flt_text_lt b a = false.
Proof. intros a b. apply flt_bytes_ltb_asym. Qed.
Lemma flt_text_lt_negtrans : forall a b c, flt_text_lt b a = false -> flt_text_lt c b = false -> flt_text_lt c a = false.
Proof. intros a b c. apply flt_bytes_ltb_negtrans. Qed.
Lemma flt_int_lt_asym : forall a b, flt_int_lt a b = true -> flt_int_lt b a = false.
Proof. unfold flt_int_lt. intros. lia. Qed.
Lemma flt_int_lt_negtrans : forall a b c, flt_int_lt b a = false -> flt_int_lt c b = false -> flt_int_lt c a = false.
Proof. unfold flt_int_lt. intros. lia. Qed.
Lemma flt_sort_lt_asym xs : forall a b, flt_sort_lt xs a b = true -> flt_sort_lt xs b a = false.
Proof. unfold flt_sort_lt. destruct (forallb flt_is_int xs); [apply flt_int_lt_asym|apply flt_text_lt_asym]. Qed.
Lemma flt_sort_lt_negtrans xs : forall a b c,
  flt_sort_lt xs b a = false -> flt_sort_lt xs c b = false -> flt_sort_lt xs c a = false.
Proof. unfold flt_sort_lt. destruct (forallb flt_is_int xs); [apply flt_int_lt_negtrans|apply flt_text_lt_negtrans]. Qed.

(* the comparison each representation is sorted by *)
Definition flt_sort_order (t : ltag) (xs : list value) : value -> value -> bool :=
  match t with
  | LStrings => flt_text_lt
  | LInts => flt_int_lt
  | _ => flt_sort_lt xs
  end.

Lemma C19_sort_ordered_permutation_proof : forall (t : ltag) (xs : list value) (r : flt_res),
  flt_sort (VList t xs) = r ->
  r = FltUnmod \/
  exists ys, r = FltOk (VList LAny ys) /\ fsp_sorted_perm (flt_sort_order t xs) xs ys.
Proof.
  intros t xs r <-. destruct t; cbn [flt_sort flt_sort_order].
  - destruct (flt_all_strings xs); [right|left; reflexivity]. eexists. split; [reflexivity|].
    apply flt_isort_sorted_perm; [apply flt_sort_lt_asym|apply flt_sort_lt_negtrans].
  - right. eexists. split; [reflexivity|]. apply flt_isort_sorted_perm; [apply flt_text_lt_asym|apply flt_text_lt_negtrans].
  - right. eexists. split; [reflexivity|]. apply flt_isort_sorted_perm; [apply flt_int_lt_asym|apply flt_int_lt_negtrans].
  - destruct (flt_all_strings xs); [right|left; reflexivity]. eexists. split; [reflexivity|].
    apply flt_isort_sorted_perm; [apply flt_sort_lt_asym|apply flt_sort_lt_negtrans].
Qed.

Lemma flt_all_ints_strings (xs : list value) : forallb flt_is_int xs = true -> exists l, flt_all_strings xs = Some l.
Proof.
  induction xs as [|x xs IH]; [exists []; reflexivity|]. cbn [forallb]. intros H. apply andb_true_iff in H.
  destruct H as [Hx Hxs]. destruct (IH Hxs) as [l Hl]. destruct x; try discriminate. cbn [flt_all_strings flt_to_string].
  rewrite Hl. eexists. reflexivity.
Qed.

(* numbers, in whatever list representation that can hold them, come out in the order of their values *)
Lemma C19_sort_numbers_by_value_proof : forall (t : ltag) (xs : list value),
  t <> LStrings -> forallb flt_is_int xs = true ->
  exists ys, flt_sort (VList t xs) = FltOk (VList LAny ys) /\ Permutation xs ys /\
             StronglySorted (fun a b => flt_int_key a <= flt_int_key b) ys.
Proof.
  intros t xs Ht Hint.
  assert (Hnum : forall ys, fsp_ordered flt_int_lt ys -> StronglySorted (fun a b => flt_int_key a <= flt_int_key b) ys).
  { unfold fsp_ordered. induction 1 as [|a l Hl IH Ha]; constructor; [exact IH|].
    rewrite Forall_forall in *. intros z Hz. specialize (Ha z Hz). unfold flt_int_lt in Ha. lia. }
  destruct (flt_all_ints_strings xs Hint) as [l Hl].
  assert (Hlt : flt_sort_lt xs = flt_int_lt) by (unfold flt_sort_lt; rewrite Hint; reflexivity).
  destruct t; [| congruence | |]; cbn [flt_sort]; rewrite ?Hl, ?Hlt;
    (eexists; split; [reflexivity|]; split; [apply flt_isort_perm|]; apply Hnum;
     apply flt_isort_sorted; [apply flt_int_lt_asym|apply flt_int_lt_negtrans]).
Qed.

(* the unrepaired code: a []interface{} of numbers is ordered by the text of the numbers *)
Lemma C19_sort_pinned_refuted_proof :
  exists xs ys, flt_sort_pinned (VList LAny xs) = FltOk (VList LAny ys) /\ forallb flt_is_int xs = true /\
                ~ StronglySorted (fun a b => flt_int_key a <= flt_int_key b) ys.
Proof.
  exists [VInt 10; VInt 9], [VInt 10; VInt 9]. split; [vm_compute; reflexivity|]. split; [reflexivity|].
  intros H. inversion H as [|? ? _ Hall]; subst. inversion Hall as [|? ? Hlt _]; subst. cbn in Hlt. lia.
Qed.

(* ================================================================== slice *)
Lemma flt_slice_bounds_spec (n start : Z) (len : option Z) : 0 <= n ->
  match flt_slice_bounds n start len with
  | None => n <= fsp_slice_from n start
  | Some (s, e) => s = fsp_slice_from n start /\ e = fsp_slice_to n s len
  end.
Proof.
  intros Hn. unfold flt_slice_bounds, fsp_slice_from, fsp_slice_to. cbv zeta.
  destruct (start <? 0) eqn:?;
    [destruct (n + start <? 0) eqn:?|destruct (start <? 0) eqn:?];
    destruct len as [l|];
    repeat match goal with |- context [if ?c then _ else _] => destruct c eqn:? end; lia.
Qed.

Lemma flt_slice_bounds_refl_eq (n start : Z) (len : option Z) :
  flt_slice_bounds_refl n start len = flt_slice_bounds n start len.
Proof. reflexivity. Qed.

Lemma flt_sub_spec {A} (l : list A) (start : Z) (len : option Z) :
  flt_sub l (flt_slice_bounds (Z.of_nat (length l)) start len) = fsp_slice_list l start len.
Proof.
  unfold fsp_slice_list. pose proof (flt_slice_bounds_spec (Z.of_nat (length l)) start len ltac:(lia)) as H.
  destruct (flt_slice_bounds (Z.of_nat (length l)) start len) as [[s e]|]; cbn [flt_sub].
  - destruct H as [-> ->]. reflexivity.
  - rewrite skipn_all2 by lia. rewrite firstn_nil. reflexivity.
Qed.

Lemma flt_skipn_nth {A} : forall (i : nat) (l : list A),
  skipn i l = match nth_error l i with Some x => x :: skipn (S i) l | None => [] end.
Proof.
  induction i as [|i IH]; intros [|y l]; try reflexivity. cbn [skipn nth_error]. rewrite IH.
  destruct (nth_error l i); reflexivity.
Qed.

Lemma flt_copy_range_spec {A} : forall (k i : nat) (l : list A), flt_copy_range k i l = firstn k (skipn i l).
Proof.
  induction k as [|k IH]; intros i l; [reflexivity|]. cbn [flt_copy_range]. rewrite (flt_skipn_nth i l).
  destruct (nth_error l i); [|reflexivity]. cbn [firstn]. f_equal. apply IH.
Qed.

Lemma flt_sub_refl_eq {A} (l : list A) (b : option (Z * Z)) : flt_sub_refl l b = flt_sub l b.
Proof. destruct b as [[s e]|]; [|reflexivity]. apply flt_copy_range_spec. Qed.

(* the model of filterSlice is Twig's rule, on the code points of a string and on the items of a
   list of every representation *)
Lemma C19_slice_is_spec_proof : forall (args : list value) (start : Z) (len : option Z),
  flt_slice_args args = Some (start, len) ->
  (forall s, flt_slice (VStr s) args = FltOk (VStr (fsp_slice_string s start len))) /\
  (forall t xs, flt_slice (VList t xs) args = FltOk (VList (flt_slice_tag t) (fsp_slice_list xs start len))).
Proof.
  intros args start len Ha. split.
  - intros s. unfold flt_slice. rewrite Ha. unfold fsp_slice_string. rewrite flt_sub_spec. reflexivity.
  - intros t xs. unfold flt_slice. rewrite Ha.
    destruct t; rewrite ?flt_sub_refl_eq, ?flt_slice_bounds_refl_eq, flt_sub_spec; reflexivity.
Qed.

(* which arguments are accepted: start must convert to an integer; the length counts when it is
   there and is not null, and then must convert too *)
Lemma C19_slice_args_proof : forall (a : value) (rest : list value),
  flt_slice_args [] = None /\
  flt_slice_args [a] = option_map (fun s => (s, None)) (flt_to_int a) /\
  flt_slice_args (a :: VNull :: rest) = option_map (fun s => (s, None)) (flt_to_int a).
Proof.
  intros a rest. split; [reflexivity|]. split; cbn [flt_slice_args]; destruct (flt_to_int a); reflexivity.
Qed.

Lemma C19_slice_pinned_refuted_proof :
  flt_slice_pinned (VList LArray [VInt 1; VInt 2]) [VInt 0] = FltPanic /\
  flt_reverse_pinned (VList LArray [VInt 1; VInt 2]) = FltPanic /\
  flt_sort_pinned (VList LArray [VInt 1; VInt 2]) = FltPanic.
Proof. repeat split. Qed.

(* ================================================================== length = what first, last, slice and for see *)
Lemma flt_sorted_entries_perm (kvs : list (value * value)) : Permutation kvs (flt_sorted_entries kvs).
Proof. apply flt_isort_perm. Qed.

Lemma C19_length_counts_elements_proof : forall (v : value) (n : Z),
  flt_length v = FltOk (VInt n) -> n = Z.of_nat (length (flt_elements v)).
Proof.
  intros v n H. destruct v; cbn [flt_length flt_elements] in *; try discriminate; inversion H; subst; clear H.
  - reflexivity.
  - unfold uf8_count, uf8_cps. rewrite !map_length. reflexivity.
  - reflexivity.
  - rewrite map_length, <- (Permutation_length (flt_sorted_entries_perm kvs)). reflexivity.
Qed.

Lemma flt_slice_all {A} (l : list A) : fsp_slice_list l 0 None = l.
Proof.
  unfold fsp_slice_list, fsp_slice_from, fsp_slice_to. cbn [Z.geb Z.compare].
  rewrite Z.min_l by lia. cbn [Z.to_nat skipn]. rewrite Z.sub_0_r, Nat2Z.id. apply firstn_all.
Qed.

(* lists and maps: first, last and slice(0) return what the loop visits first, last, and all of it *)
Lemma C19_observers_list_proof : forall (t : ltag) (xs : list value),
  flt_first (VList t xs) = FltOk (hd VNull (flt_elements (VList t xs))) /\
  flt_last (VList t xs) = FltOk (last (flt_elements (VList t xs)) VNull) /\
  flt_slice (VList t xs) [VInt 0] = FltOk (VList (flt_slice_tag t) (flt_elements (VList t xs))).
Proof.
  intros t xs. split; [destruct xs; reflexivity|]. split; [reflexivity|].
  destruct (C19_slice_is_spec_proof [VInt 0] 0 None eq_refl) as [_ H]. rewrite H, flt_slice_all. reflexivity.
Qed.

Lemma C19_observers_map_proof : forall (t : mtag) (kvs : list (value * value)),
  flt_first (VMap t kvs) = FltOk (hd VNull (flt_elements (VMap t kvs))) /\
  flt_last (VMap t kvs) = FltErr /\ flt_slice (VMap t kvs) [VInt 0] = FltErr.
Proof.
  intros t kvs. split; [|split; reflexivity]. cbn [flt_first flt_elements].
  destruct (flt_sorted_entries kvs); reflexivity.
Qed.

(* strings: first and last are the bytes of the first and last code point, slice(0) has all the
   code points; the loop visits the code points *)
Lemma flt_chunk_cps (k j : nat) (s : bytes) :
  uf8_cps (concat (map snd (firstn k (skipn j (uf8_chunks s))))) = firstn k (skipn j (uf8_cps s)).
Proof. unfold uf8_cps. rewrite uf8_chunks_segment, skipn_map, firstn_map. reflexivity. Qed.

Lemma flt_last_skipn {A} (l : list A) (d : A) : l <> [] -> [last l d] = skipn (length l - 1) l.
Proof.
  induction l as [|x l IH]; [congruence|]. intros _. destruct l as [|y l]; [reflexivity|].
  change (last (x :: y :: l) d) with (last (y :: l) d). rewrite IH by discriminate.
  cbn [length]. replace (S (S (length l)) - 1)%nat with (S (length l - 0)) by lia.
  cbn [skipn]. replace (length l - 0)%nat with (S (length l) - 1)%nat by lia. reflexivity.
Qed.

Lemma flt_last_chunk_cps (s : bytes) : uf8_chunks s <> [] ->
  uf8_cps (snd (last (uf8_chunks s) (0%N, []))) = skipn (length (uf8_cps s) - 1) (uf8_cps s).
Proof.
  intros Hne. pose proof (flt_chunk_cps 1 (length (uf8_chunks s) - 1) s) as H.
  rewrite <- (flt_last_skipn (uf8_chunks s) (0%N, []) Hne) in H.
  replace (concat (map snd (firstn 1 [last (uf8_chunks s) (0%N, [])]))) with (snd (last (uf8_chunks s) (0%N, []))) in H
    by (cbn [firstn map concat]; rewrite app_nil_r; reflexivity).
  rewrite H. assert (Hl : length (uf8_cps s) = length (uf8_chunks s)) by (unfold uf8_cps; apply map_length).
  rewrite Hl. apply firstn_all2. rewrite skipn_length. lia.
Qed.

Lemma C19_observers_string_proof : forall s : bytes,
  flt_elements (VStr s) = map (fun c => VStr (uf8_enc1 c)) (uf8_cps s) /\
  (exists b, flt_first (VStr s) = FltOk (VStr b) /\ uf8_cps b = firstn 1 (uf8_cps s)) /\
  (exists b, flt_last (VStr s) = FltOk (VStr b) /\ uf8_cps b = skipn (length (uf8_cps s) - 1) (uf8_cps s)) /\
  (exists b, flt_slice (VStr s) [VInt 0] = FltOk (VStr b) /\ uf8_cps b = uf8_cps s).
Proof.
  intros s. split; [reflexivity|]. split; [|split].
  - eexists. split; [reflexivity|].
    pose proof (flt_chunk_cps 1 0 s) as H. cbn [skipn] in H. rewrite <- H.
    destruct (uf8_chunks s) as [|ch cs]; [reflexivity|]. cbn [firstn map concat]. rewrite app_nil_r. reflexivity.
  - eexists. split; [reflexivity|].
    destruct (uf8_chunks s) as [|ch cs] eqn:E.
    + unfold uf8_cps. rewrite E. reflexivity.
    + rewrite <- E. apply flt_last_chunk_cps. rewrite E. discriminate.
  - destruct (C19_slice_is_spec_proof [VInt 0] 0 None eq_refl) as [H _]. eexists. split; [apply H|].
    unfold fsp_slice_string. rewrite flt_slice_all. apply uf8_cps_sanitize.
Qed.

(* ================================================================== join then split *)
Lemma flt_split_byte_run (b : byte) : forall (x cur rest : bytes),
  ~ In b x -> flt_split_byte b None cur (x ++ rest) = flt_split_byte b None (rev x ++ cur) rest.
Proof.
  induction x as [|c x IH]; intros cur rest Hx; [reflexivity|].
  cbn [app flt_split_byte]. destruct (Byte.eqb c b) eqn:E.
  - apply byte_eqb_eq in E. subst. exfalso. apply Hx. left. reflexivity.
  - rewrite IH by (intro H; apply Hx; right; exact H). cbn [rev]. rewrite <- app_assoc. reflexivity.
Qed.

(* a one-byte separator: the strings.Split path *)
Lemma C19_split_join_byte_proof : forall (b : byte) (xs : list bytes),
  xs <> [] -> (forall x, In x xs -> ~ In b x) ->
  flt_split_str [b] None (flt_join_bytes [b] xs) = xs.
Proof.
  intros b xs Hne Hfree. cbn [flt_split_str].
  induction xs as [|x xs IH]; [congruence|]. destruct xs as [|y xs].
  - cbn [flt_join_bytes]. rewrite <- (app_nil_r x) at 1. rewrite flt_split_byte_run by (apply Hfree; left; reflexivity).
    cbn [flt_split_byte]. rewrite app_nil_r, rev_involutive. reflexivity.
  - change (flt_join_bytes [b] (x :: y :: xs)) with (x ++ [b] ++ flt_join_bytes [b] (y :: xs)).
    rewrite flt_split_byte_run by (apply Hfree; left; reflexivity).
    cbn [app flt_split_byte option_map]. rewrite byte_eqb_refl, app_nil_r, rev_involutive. f_equal.
    apply IH; [discriminate|]. intros z Hz. apply Hfree. right. exact Hz.
Qed.

(* a separator that is one code point of several bytes: the regular-expression path, where the
   class has one member *)
Fixpoint flt_join_cps_with (c : N) (ls : list (list N)) : list N :=
  match ls with
  | [] => []
  | [l] => l
  | l :: r => l ++ c :: flt_join_cps_with c r
  end.

Lemma flt_join_bytes_encode_with (c : N) (ls : list (list N)) :
  flt_join_bytes (uf8_enc1 c) (map uf8_encode ls) = uf8_encode (flt_join_cps_with c ls).
Proof.
  induction ls as [|l ls IH]; [reflexivity|]. destruct ls as [|l2 ls]; [reflexivity|].
  change (flt_join_bytes (uf8_enc1 c) (map uf8_encode (l :: l2 :: ls)))
    with (uf8_encode l ++ uf8_enc1 c ++ flt_join_bytes (uf8_enc1 c) (map uf8_encode (l2 :: ls))).
  rewrite IH. change (flt_join_cps_with c (l :: l2 :: ls)) with (l ++ c :: flt_join_cps_with c (l2 :: ls)).
  rewrite uf8_encode_app. reflexivity.
Qed.

Lemma flt_split_class_run (cls : N -> bool) : forall (l : list N) (cur : bytes) (rest : list (N * bytes)),
  forallb (fun x => negb (cls x)) l = true ->
  flt_split_class cls None cur (map (fun x => (x, uf8_enc1 x)) l ++ rest)
  = flt_split_class cls None (cur ++ uf8_encode l) rest.
Proof.
  induction l as [|x l IH]; intros cur rest H; [cbn; rewrite app_nil_r; reflexivity|].
  cbn [forallb] in H. apply andb_true_iff in H. destruct H as [Hx Hl].
  cbn [map app flt_split_class fst snd]. destruct (cls x); [discriminate|].
  rewrite IH by exact Hl. unfold uf8_encode. cbn [flat_map]. rewrite <- app_assoc. reflexivity.
Qed.

Lemma flt_split_class_joined (c : N) (cls : N -> bool) : forall ls : list (list N),
  ls <> [] -> cls c = true -> Forall (fun l => forallb (fun x => negb (cls x)) l = true) ls ->
  flt_split_class cls None [] (map (fun x => (x, uf8_enc1 x)) (flt_join_cps_with c ls)) = map uf8_encode ls.
Proof.
  intros ls Hne Hc Hfree. induction ls as [|l ls IH]; [congruence|]. inversion Hfree as [|? ? Hl Hls]; subst.
  destruct ls as [|l2 ls].
  - cbn [flt_join_cps_with]. rewrite <- (app_nil_r (map _ l)). rewrite flt_split_class_run by exact Hl. reflexivity.
  - change (flt_join_cps_with c (l :: l2 :: ls)) with (l ++ c :: flt_join_cps_with c (l2 :: ls)).
    rewrite map_app. rewrite flt_split_class_run by exact Hl.
    cbn [map flt_split_class fst option_map app]. rewrite Hc. f_equal. apply IH; [discriminate|exact Hls].
Qed.

Lemma flt_enc1_long (c : N) : (128 <= c)%N -> exists b1 b2 r, uf8_enc1 c = b1 :: b2 :: r.
Proof.
  intros H. unfold uf8_enc1. destruct (N.ltb_spec c 128); [lia|].
  repeat match goal with |- context [if ?b then _ else _] => destruct b end; eauto.
Qed.

Lemma flt_forallb_joined_scalar (c : N) (ls : list (list N)) :
  uf8_scalar c = true -> Forall (fun l => forallb uf8_scalar l = true) ls -> forallb uf8_scalar (flt_join_cps_with c ls) = true.
Proof.
  intros Hc H. induction H as [|l ls Hl Hls IH]; [reflexivity|]. destruct ls as [|l2 ls]; [exact Hl|].
  change (flt_join_cps_with c (l :: l2 :: ls)) with (l ++ c :: flt_join_cps_with c (l2 :: ls)).
  rewrite forallb_app. cbn [forallb]. rewrite Hl, Hc, IH. reflexivity.
Qed.

Lemma C19_split_join_codepoint_proof : forall (c : N) (ls : list (list N)),
  uf8_scalar c = true -> (128 <= c)%N -> ls <> [] ->
  Forall (fun l => forallb uf8_scalar l = true /\ ~ In c l) ls ->
  flt_split_str (uf8_enc1 c) None (flt_join_bytes (uf8_enc1 c) (map uf8_encode ls)) = map uf8_encode ls.
Proof.
  intros c ls Hsc Hc Hne Hls.
  assert (Hs : Forall (fun l => forallb uf8_scalar l = true) ls) by (eapply Forall_impl; [|exact Hls]; intros l [H _]; exact H).
  assert (Hf : Forall (fun l => forallb (fun x => negb (flt_mem_n [c] x)) l = true) ls).
  { eapply Forall_impl; [|exact Hls]. intros l [_ Hn]. apply forallb_forall. intros x Hx.
    unfold flt_mem_n. cbn [existsb]. rewrite orb_false_r. destruct (N.eqb_spec x c); [subst; contradiction|reflexivity]. }
  rewrite flt_join_bytes_encode_with.
  destruct (flt_enc1_long c Hc) as [b1 [b2 [r Hd]]].
  unfold flt_split_str. rewrite Hd. rewrite <- Hd.
  assert (Hcps : uf8_cps (uf8_enc1 c) = [c]).
  { rewrite <- (app_nil_r (uf8_enc1 c)). change (uf8_enc1 c ++ []) with (uf8_encode [c]). apply uf8_cps_encode. cbn. rewrite Hsc. reflexivity. }
  rewrite Hcps.
  assert (Hch : uf8_chunks (uf8_encode (flt_join_cps_with c ls)) = map (fun x => (x, uf8_enc1 x)) (flt_join_cps_with c ls)).
  { rewrite <- (app_nil_r (uf8_encode _)). rewrite uf8_chunks_encode by (apply flt_forallb_joined_scalar; assumption).
    rewrite uf8_chunks_nil, app_nil_r. reflexivity. }
  assert (Hsplit : flt_split_class (flt_mem_n [c]) None [] (uf8_chunks (uf8_encode (flt_join_cps_with c ls))) = map uf8_encode ls).
  { rewrite Hch. apply flt_split_class_joined; [exact Hne| |exact Hf]. unfold flt_mem_n. cbn. rewrite N.eqb_refl. reflexivity. }
  destruct (uf8_encode (flt_join_cps_with c ls)) eqn:E; [|exact Hsplit].
  rewrite <- Hsplit. rewrite uf8_chunks_nil. reflexivity.
Qed.

(* a separator of several code points is treated as a set of characters: the law fails *)
Lemma C19_split_join_refuted_proof :
  exists (d : bytes) (xs : list bytes),
    d <> [] /\ xs <> [] /\ (forall x b, In x xs -> In b d -> ~ In b x) /\
    flt_split_str d None (flt_join_bytes d xs) <> xs.
Proof.
  exists b#"-+", [b#"a"; b#"b"]. split; [discriminate|]. split; [discriminate|]. split.
  - intros x b [<-|[<-|[]]] [<-|[<-|[]]] [H|[]]; discriminate.
  - vm_compute. discriminate.
Qed.

(* the empty string and the empty list: join of no strings is the empty string, and splitting the
   empty string gives one empty string (none when the separator is empty too) *)
Lemma C19_split_empty_proof : forall d : bytes,
  flt_join_bytes d [] = [] /\
  flt_split_str d None [] = match d with [] => [] | _ => [[]] end.
Proof. intros d. split; [reflexivity|]. destruct d as [|b [|b2 d]]; reflexivity. Qed.

(* ================================================================== default *)
Lemma flt_is_empty_spec (v : value) : flt_is_empty v = fsp_empty v.
Proof. destruct v as [| [|] | | [|] | ? [|] | ? [|] | | | | |]; reflexivity. Qed.

Lemma C19_default_replaces_exactly_empty_proof : forall (v d : value) (rest : list value),
  flt_default v (d :: rest) = FltOk (if fsp_empty v then d else v) /\ flt_default v [] = FltOk v.
Proof.
  intros v d rest. split; [|reflexivity]. unfold flt_default. rewrite flt_is_empty_spec.
  destruct (fsp_empty v); reflexivity.
Qed.

(* the table: which values are empty *)
Lemma C19_empty_table_proof :
  fsp_empty VNull = true /\ fsp_empty (VStr []) = true /\ fsp_empty (VBool false) = true /\
  (forall t, fsp_empty (VList t []) = true) /\ (forall t, fsp_empty (VMap t []) = true) /\
  (forall z, fsp_empty (VInt z) = false) /\ fsp_empty (VBool true) = false /\
  (forall b s, fsp_empty (VStr (b :: s)) = false) /\
  (forall t x xs, fsp_empty (VList t (x :: xs)) = false) /\ (forall t e kvs, fsp_empty (VMap t (e :: kvs)) = false).
Proof. repeat split; intros; try reflexivity; destruct t; reflexivity. Qed.

(* the unrepaired code: the same number is empty or not depending on its Go type *)
Lemma C19_default_pinned_refuted_proof :
  flt_is_empty_pinned NRInt (VInt 0) = true /\
  flt_is_empty_pinned NRInt64 (VInt 0) = false /\ flt_is_empty_pinned NRFloat64 (VInt 0) = false.
Proof. repeat split. Qed.

(* ================================================================== merge *)
Definition flt_list_of_arg (a : value) : list value := match a with VList _ ys => ys | _ => [] end.
Definition flt_map_of_arg (a : value) : list (list (value * value)) := match a with VMap _ kvs => [kvs] | _ => [] end.

Lemma flt_list_args_concat (args : list value) : flt_list_args args = concat (map flt_list_of_arg args).
Proof.
  induction args as [|a args IH]; [reflexivity|]. destruct a; cbn [flt_list_args map concat flt_list_of_arg]; rewrite IH; reflexivity.
Qed.

Lemma C19_merge_lists_append_proof : forall (t : ltag) (xs : list value) (args : list value),
  flt_merge (VList t xs) args = FltOk (VList LAny (xs ++ concat (map flt_list_of_arg args))).
Proof. intros. cbn [flt_merge]. rewrite flt_list_args_concat. reflexivity. Qed.

Definition flt_key_text_of (e : value * value) : bytes := flt_key_string (fst e).
Definition flt_str_keys (m : list (value * value)) : Prop := Forall (fun e => exists s, fst e = VStr s) m.

Lemma flt_map_set_str_keys m k x : flt_str_keys m -> flt_str_keys (flt_map_set m k x).
Proof.
  unfold flt_str_keys. induction 1 as [|[k' y] m Hk Hm IH]; cbn [flt_map_set].
  - constructor; [exists k; reflexivity|constructor].
  - destruct (flt_value_is_str k k'); constructor; auto.
Qed.

Lemma flt_lookup_set m k x k' : flt_str_keys m ->
  fsp_lookup flt_key_string (flt_map_set m k x) k' = if bytes_eqb k k' then Some x else fsp_lookup flt_key_string m k'.
Proof.
  unfold flt_str_keys. induction 1 as [|[k0 y] m [s Hs] Hm IH]; cbn [flt_map_set fsp_lookup].
  - cbn [flt_key_string flt_to_string]. destruct (bytes_eqb k k'); reflexivity.
  - cbn [fst] in Hs. subst k0. cbn [flt_value_is_str]. destruct (bytes_eqb s k) eqn:E.
    + apply bytes_eqb_eq in E. subst s. cbn [fsp_lookup flt_key_string flt_to_string].
      destruct (bytes_eqb k k'); reflexivity.
    + cbn [fsp_lookup flt_key_string flt_to_string]. rewrite IH.
      destruct (bytes_eqb s k') eqn:E2; [|reflexivity].
      apply bytes_eqb_eq in E2. subst k'. destruct (bytes_eqb k s) eqn:E3; [|reflexivity].
      apply bytes_eqb_eq in E3. subst. rewrite bytes_eqb_refl in E. discriminate.
Qed.

Lemma flt_lookup_none_notin kvs k : ~ In k (map flt_key_text_of kvs) -> fsp_lookup flt_key_string kvs k = None.
Proof.
  induction kvs as [|[k0 y] kvs IH]; [reflexivity|]. cbn [map In fsp_lookup]. intros H.
  destruct (bytes_eqb (flt_key_string k0) k) eqn:E.
  - apply bytes_eqb_eq in E. exfalso. apply H. left. exact E.
  - apply IH. intro Hin. apply H. right. exact Hin.
Qed.

Lemma flt_add_all_str_keys : forall kvs m, flt_str_keys m -> flt_str_keys (flt_map_add_all m kvs).
Proof.
  unfold flt_map_add_all. induction kvs as [|e kvs IH]; intros m Hm; [exact Hm|].
  cbn [fold_left]. apply IH. apply flt_map_set_str_keys. exact Hm.
Qed.

Lemma flt_lookup_add_all : forall kvs m k, flt_str_keys m -> NoDup (map flt_key_text_of kvs) ->
  fsp_lookup flt_key_string (flt_map_add_all m kvs) k =
  match fsp_lookup flt_key_string kvs k with Some x => Some x | None => fsp_lookup flt_key_string m k end.
Proof.
  unfold flt_map_add_all. induction kvs as [|[k0 y] kvs IH]; intros m k Hm Hnd; [reflexivity|].
  cbn [fold_left fst snd]. inversion Hnd as [|? ? Hnotin Hnd']; subst.
  rewrite IH by (try apply flt_map_set_str_keys; assumption).
  rewrite flt_lookup_set by exact Hm. cbn [fsp_lookup].
  destruct (bytes_eqb (flt_key_string k0) k) eqn:E.
  - apply bytes_eqb_eq in E. subst k. change (~ In (flt_key_string k0) (map flt_key_text_of kvs)) in Hnotin.
    rewrite (flt_lookup_none_notin kvs _ Hnotin). reflexivity.
  - destruct (fsp_lookup flt_key_string kvs k); reflexivity.
Qed.

Definition flt_maps_wf (ms : list (list (value * value))) : Prop := Forall (fun kvs => NoDup (map flt_key_text_of kvs)) ms.

Lemma flt_map_args_str_keys : forall args m, flt_str_keys m -> flt_str_keys (flt_map_args m args).
Proof.
  induction args as [|a args IH]; intros m Hm; [exact Hm|]. destruct a; cbn [flt_map_args]; try (apply IH; exact Hm).
  apply IH. apply flt_add_all_str_keys. exact Hm.
Qed.

Lemma flt_lookup_map_args : forall args m k, flt_str_keys m -> flt_maps_wf (concat (map flt_map_of_arg args)) ->
  fsp_lookup flt_key_string (flt_map_args m args) k =
  match fsp_merged_lookup flt_key_string (concat (map flt_map_of_arg args)) k with
  | Some x => Some x
  | None => fsp_lookup flt_key_string m k
  end.
Proof.
  induction args as [|a args IH]; intros m k Hm Hwf; [reflexivity|].
  destruct a; cbn [flt_map_args map concat flt_map_of_arg app] in *; try (apply IH; assumption).
  inversion Hwf as [|? ? Hnd Hwf']; subst.
  rewrite IH by (try apply flt_add_all_str_keys; assumption).
  cbn [fsp_merged_lookup]. destruct (fsp_merged_lookup flt_key_string (concat (map flt_map_of_arg args)) k); [reflexivity|].
  apply flt_lookup_add_all; assumption.
Qed.

(* merge of maps: a map[string]interface{} in which every key has the value of the last map that has it *)
Lemma C19_merge_maps_later_wins_proof : forall (t : mtag) (kvs : list (value * value)) (args : list value),
  flt_maps_wf (kvs :: concat (map flt_map_of_arg args)) ->
  exists r, flt_merge (VMap t kvs) args = FltOk (VMap MAny r) /\ flt_str_keys r /\
    forall k, fsp_lookup flt_key_string r k = fsp_merged_lookup flt_key_string (kvs :: concat (map flt_map_of_arg args)) k.
Proof.
  intros t kvs args Hwf. inversion Hwf as [|? ? Hnd Hwf']; subst. eexists. split; [reflexivity|].
  assert (H0 : flt_str_keys []) by constructor.
  split; [apply flt_map_args_str_keys, flt_add_all_str_keys; exact H0|].
  intros k. rewrite flt_lookup_map_args by (try apply flt_add_all_str_keys; assumption).
  cbn [fsp_merged_lookup]. destruct (fsp_merged_lookup flt_key_string (concat (map flt_map_of_arg args)) k); [reflexivity|].
  rewrite flt_lookup_add_all by assumption. cbn [fsp_lookup]. destruct (fsp_lookup flt_key_string kvs k); reflexivity.
Qed.

Lemma C19_merge_other_proof : forall (v : value) (args : list value),
  (forall t xs, v <> VList t xs) -> (forall t kvs, v <> VMap t kvs) -> flt_merge v args = FltOk v.
Proof. intros v args H1 H2. destruct v; try reflexivity; [exfalso; eapply H1|exfalso; eapply H2]; reflexivity. Qed.

(* the unrepaired code: a typed map merged with a hash literal panics *)
Lemma C19_merge_pinned_refuted_proof :
  flt_merge_pinned (VMap MStrStr [(VStr b#"a", VStr b#"1")]) [VMap MAny [(VStr b#"b", VInt 3)]] = FltPanic.
Proof. reflexivity. Qed.

(* ================================================================== keys *)
Lemma flt_ordered_map_fst (l : list (value * value)) :
  fsp_ordered flt_entry_lt l ->
  fsp_ordered (fun a b => flt_bytes_ltb (flt_key_string a) (flt_key_string b)) (map fst l).
Proof.
  unfold fsp_ordered. induction 1 as [|e l Hl IH He]; [constructor|]. cbn [map]. constructor; [exact IH|].
  rewrite Forall_forall in *. intros k Hk. apply in_map_iff in Hk. destruct Hk as [e' [<- He']]. apply (He _ He').
Qed.

Lemma C19_keys_each_once_proof : forall (t : mtag) (kvs : list (value * value)),
  exists t' ks, flt_keys (VMap t kvs) = FltOk (VList t' ks) /\
    Permutation (map fst kvs) ks /\ (NoDup (map fst kvs) -> NoDup ks) /\
    fsp_ordered (fun a b => flt_bytes_ltb (flt_key_string a) (flt_key_string b)) ks.
Proof.
  intros t kvs.
  assert (Hp : Permutation (map fst kvs) (map fst (flt_sorted_entries kvs))) by (apply Permutation_map, flt_sorted_entries_perm).
  assert (Ho : fsp_ordered (fun a b => flt_bytes_ltb (flt_key_string a) (flt_key_string b)) (map fst (flt_sorted_entries kvs))).
  { apply flt_ordered_map_fst.
    apply flt_isort_sorted; unfold flt_entry_lt; intros; [eapply flt_bytes_ltb_asym|eapply flt_bytes_ltb_negtrans]; eauto. }
  exists (match t with MAny => LStrings | _ => LAny end), (map fst (flt_sorted_entries kvs)).
  split; [destruct t; reflexivity|]. split; [exact Hp|]. split; [|exact Ho].
  intros Hnd. eapply Permutation_NoDup; eauto.
Qed.

(* ================================================================== abs, round, number_format *)
Ltac Zify.zify_post_hook ::= Z.to_euclidean_division_equations.

(* what rounding x / d to an integer means, for each method *)
Lemma C19_round_div_characterisation_proof : forall (x d : Z), 0 < d ->
  (let k := fsp_round_div FMFloor x d in k * d <= x < (k + 1) * d) /\
  (let k := fsp_round_div FMCeil x d in (k - 1) * d < x <= k * d) /\
  (let k := fsp_round_div FMCommon x d in
     2 * Z.abs (x - k * d) <= d /\ (2 * Z.abs (x - k * d) = d -> Z.abs x < Z.abs (k * d))).
Proof.
  intros x d Hd. unfold fsp_round_div. cbv zeta. split; [|split].
  - nia.
  - nia.
  - destruct (Z.sgn_spec x) as [[Hx Hs]|[[Hx Hs]|[Hx Hs]]]; rewrite Hs.
    + rewrite (Z.abs_eq x) by lia. nia.
    + subst x. lia.
    + rewrite (Z.abs_neq x) by lia. nia.
Qed.

Definition flt_method_spec (m : flt_rmethod) : fsp_method :=
  match m with RCommon => FMCommon | RCeil => FMCeil | RFloor => FMFloor end.

Lemma flt_div_round_spec (m : flt_rmethod) (x d : Z) : 0 < d -> flt_div_round m x d = fsp_round_div (flt_method_spec m) x d.
Proof.
  intros Hd. destruct m; cbn [flt_div_round fsp_round_div flt_method_spec]; try reflexivity.
  destruct (Z.sgn_spec x) as [[Hx Hs]|[[Hx Hs]|[Hx Hs]]]; rewrite Hs.
  - rewrite (Z.abs_eq x) by lia. destruct (Z.geb_spec x 0); [|lia].
    match goal with |- context [?a / ?b] => generalize (a / b); intros end. lia.
  - subst x. change (0 >=? 0) with true. cbv iota. rewrite Z.mul_0_l, Z.mul_0_r, Z.add_0_l, Z.div_small by lia. reflexivity.
  - rewrite (Z.abs_neq x) by lia. destruct (Z.geb_spec x 0); [lia|].
    match goal with |- context [?a / ?b] => generalize (a / b); intros end. lia.
Qed.

(* on integers the model of round is exact decimal arithmetic *)
Lemma C19_round_int_exact_proof : forall (m : flt_rmethod) (z p : Z),
  fsp_dec_round (flt_method_spec m) {| fd_m := z; fd_sc := 0 |} p = {| fd_m := flt_round_int m z p; fd_sc := 0 |}.
Proof.
  intros m z p. unfold fsp_dec_round, flt_round_int. cbn [fd_m fd_sc Z.of_nat].
  destruct (Z.geb_spec p 0); [reflexivity|].
  rewrite Z.sub_0_l. rewrite flt_div_round_spec by (apply Z.pow_pos_nonneg; lia). reflexivity.
Qed.

Lemma C19_abs_proof : forall x : fsp_dec,
  fd_m (fsp_dec_abs x) = Z.abs (fd_m x) /\ fd_sc (fsp_dec_abs x) = fd_sc x /\ 0 <= fd_m (fsp_dec_abs x) /\
  fsp_dec_abs (fsp_dec_abs x) = fsp_dec_abs x /\
  (forall z, flt_abs (VInt z) = FltOk (VInt (fd_m (fsp_dec_abs {| fd_m := z; fd_sc := 0 |})))).
Proof.
  intros [m sc]. unfold fsp_dec_abs. cbn [fd_m fd_sc]. repeat split; try lia.
  rewrite Z.abs_involutive. reflexivity.
Qed.

(* number_format of an integer: the model is the exact specification *)
Lemma flt_n_digits_eq : forall f n acc, flt_n_digits f n acc = fsp_n_digits f n acc.
Proof. induction f as [|f IH]; intros n acc; [reflexivity|]. cbn [flt_n_digits fsp_n_digits]. rewrite IH. reflexivity. Qed.
Lemma flt_n_to_dec_eq (n : N) : flt_n_to_dec n = fsp_n_to_dec n.
Proof. apply flt_n_digits_eq. Qed.
Lemma flt_group_eq (sep digits : bytes) : flt_group sep digits = fsp_group sep digits.
Proof. induction digits as [|c r IH]; [reflexivity|]. cbn [flt_group fsp_group]. rewrite IH. reflexivity. Qed.

Lemma flt_pow10_N (n : nat) : 10 ^ Z.of_nat n = Z.of_N (10 ^ N.of_nat n).
Proof. rewrite N2Z.inj_pow, nat_N_Z. reflexivity. Qed.

Lemma C19_number_format_int_exact_proof : forall (z d : Z) (point sep : bytes),
  flt_number_format_int z d point sep = fsp_dec_number_format {| fd_m := z; fd_sc := 0 |} d point sep.
Proof.
  intros z d point sep. unfold flt_number_format_int, fsp_dec_number_format. cbn [fd_m fd_sc Z.of_nat].
  set (d' := Z.max d 0).
  assert (Hd : (if d <? 0 then 0 else d) = d') by (unfold d'; destruct (Z.ltb_spec d 0); lia).
  rewrite Hd. assert (Hd0 : 0 <= d') by (unfold d'; lia).
  destruct (Z.geb_spec d' 0); [|lia]. rewrite Z.sub_0_r.
  unfold fsp_dec_fixed. cbn [fd_m fd_sc].
  set (n := Z.to_nat d'). assert (Hn : d' = Z.of_nat n) by (unfold n; lia).
  set (D := (10 ^ N.of_nat n)%N).
  assert (HD : 10 ^ d' = Z.of_N D) by (rewrite Hn; apply flt_pow10_N).
  assert (HDpos : (D <> 0)%N) by (unfold D; apply N.pow_nonzero; discriminate).
  assert (Ha : Z.to_N (Z.abs (z * 10 ^ d')) = (Z.to_N (Z.abs z) * D)%N).
  { rewrite HD, Z.abs_mul, (Z.abs_eq (Z.of_N D)) by lia. rewrite Z2N.inj_mul by lia. rewrite N2Z.id. reflexivity. }
  rewrite Ha, N.div_mul, N.mod_mul by exact HDpos.
  assert (Hsign : (z * 10 ^ d' <? 0) = (z <? 0)).
  { assert (0 < 10 ^ d') by (apply Z.pow_pos_nonneg; lia).
    destruct (Z.ltb_spec (z * 10 ^ d') 0), (Z.ltb_spec z 0); try reflexivity; nia. }
  rewrite Hsign, flt_n_to_dec_eq, flt_group_eq.
  destruct n as [|k] eqn:En.
  - assert (d' = 0) by lia. destruct (Z.gtb_spec d' 0); [lia|]. rewrite app_nil_r.
    destruct (z <? 0); reflexivity.
  - destruct (Z.gtb_spec d' 0); [|lia].
    change (fsp_n_to_dec 0) with [x30]. unfold fsp_pad_left. cbn [length].
    replace (S k - 1)%nat with k by lia. rewrite <- repeat_cons.
    destruct (z <? 0); cbn [app]; rewrite <- ?app_assoc; reflexivity.
Qed.

(* ================================================================== the case filters, as they are called *)
Lemma C19_upper_filter_idempotent_proof : forall up : N -> N,
  (forall c, up (up c) = up c) -> (forall c, uf8_scalar c = true -> uf8_scalar (up c) = true) ->
  forall v w : value, flt_upper up v = FltOk w -> flt_upper up w = FltOk w.
Proof.
  intros up H1 H2 v w. unfold flt_upper. destruct (flt_to_string v); [|discriminate]. intros H. inversion H; subst.
  cbn [flt_to_string]. rewrite C19_upper_idempotent_proof by assumption. reflexivity.
Qed.

Lemma C19_lower_filter_idempotent_proof : forall low : N -> N,
  (forall c, low (low c) = low c) -> (forall c, uf8_scalar c = true -> uf8_scalar (low c) = true) ->
  forall v w : value, flt_lower low v = FltOk w -> flt_lower low w = FltOk w.
Proof.
  intros low H1 H2 v w. unfold flt_lower. destruct (flt_to_string v); [|discriminate]. intros H. inversion H; subst.
  cbn [flt_to_string]. rewrite C19_lower_idempotent_proof by assumption. reflexivity.
Qed.

Lemma C19_capitalize_filter_idempotent_proof : forall up low : N -> N,
  (forall c, up (up c) = up c) -> (forall c, low (low c) = low c) ->
  (forall c, uf8_scalar c = true -> uf8_scalar (up c) = true) ->
  (forall c, uf8_scalar c = true -> uf8_scalar (low c) = true) ->
  (forall c, flt_is_space (up c) = flt_is_space c) -> (forall c, flt_is_space (low c) = flt_is_space c) ->
  forall v w : value, flt_capitalize up low v = FltOk w -> flt_capitalize up low w = FltOk w.
Proof.
  intros up low H1 H2 H3 H4 H5 H6 v w. unfold flt_capitalize. destruct (flt_to_string v); [|discriminate].
  intros H. inversion H; subst. cbn [flt_to_string]. rewrite C19_capitalize_idempotent_proof by assumption. reflexivity.
Qed.

(* reverse on a string with an invalid byte: the byte comes back as U+FFFD *)
Lemma C19_reverse_invalid_example_proof :
  flt_reverse_bytes (flt_reverse_bytes [x61; xff; x62]) = [x61; xef; xbf; xbd; x62].
Proof. vm_compute. reflexivity. Qed.

(* the classes of decimal inputs on which binary floating point leaves exact arithmetic *)
Lemma C19_known_classes_examples_proof :
  fsp_tie_not_binary_exact {| fd_m := 2675; fd_sc := 3 |} 2 = true /\
  fsp_dec_text (fsp_dec_round FMCommon {| fd_m := 2675; fd_sc := 3 |} 2) = b#"2.68" /\
  fsp_dec_number_format {| fd_m := 2675; fd_sc := 3 |} 2 b#"." b#"," = b#"2.68" /\
  fsp_tie_binary_exact_even {| fd_m := 12345; fd_sc := 1 |} 0 = true /\
  fsp_dec_number_format {| fd_m := 12345; fd_sc := 1 |} 0 b#"." b#"," = b#"1,235" /\
  fsp_grid_not_binary_exact {| fd_m := 7; fd_sc := 2 |} 2 = true /\
  fsp_dec_text (fsp_dec_round FMCeil {| fd_m := 7; fd_sc := 2 |} 2) = b#"0.07" /\
  fsp_tie_not_binary_exact {| fd_m := 25; fd_sc := 1 |} 0 = false /\
  fsp_dec_text (fsp_dec_round FMCommon {| fd_m := -25; fd_sc := 1 |} 0) = b#"-3".
Proof. vm_compute. repeat split. Qed.
