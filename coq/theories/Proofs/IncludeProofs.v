(* Proofs of property C11 (include scope and non-interference) about the evaluator model Model/Eval.v
   (ev_include, render_node, render) against Spec/IncludeSpec.v.
   Part 1: lookups in association lists, the flattened view of a context chain.
   Part 2: the normal form of ev_include: name, lookup, with values evaluated in the includer's context, the
           start context as a function of those values (inc_model_start).
   Part 3: the statements of Properties/C11.v. *)
From Twig Require Import Base.Bytes Base.Utf8 Model.Ast Model.Value Model.ValueOps Model.EvalBuiltins Model.Ctx
                         Model.TemplateSet Model.Eval Spec.ControlSpec Spec.IncludeSpec Proofs.EvalProofs Gen.IncludeShape.

(* ================================================================ Part 1 *)
Lemma inc_assoc_app {A} (l1 l2 : list (bytes * A)) x :
  assoc_bytes (l1 ++ l2) x = match assoc_bytes l1 x with Some v => Some v | None => assoc_bytes l2 x end.
Proof.
  induction l1 as [|[k v] r IH]; cbn [app assoc_bytes]; [reflexivity|].
  destruct (bytes_eqb k x); [reflexivity|exact IH].
Qed.

Lemma inc_assoc_filter {A} (l1 l2 : list (bytes * A)) x :
  assoc_bytes l1 x = None ->
  assoc_bytes (filter (fun kv => negb (inc_has l1 (fst kv))) l2) x = assoc_bytes l2 x.
Proof.
  intro H. induction l2 as [|[k v] r IH]; cbn [filter fst]; [reflexivity|].
  destruct (bytes_eqb k x) eqn:E.
  - pose proof E as E'. apply bytes_eqb_eq in E'. subst k. unfold inc_has. rewrite H. cbn [negb assoc_bytes].
    rewrite E. reflexivity.
  - destruct (negb (inc_has l1 k)); cbn [assoc_bytes]; rewrite E; exact IH.
Qed.

(* induction along the parent chain of a context *)
Fixpoint inc_rctx_ind (P : rctx -> Prop)
  (H : forall c, (forall p, rc_parent c = Some p -> P p) -> P c) (c : rctx) {struct c} : P c.
Proof.
  apply H. destruct c as [vs par ms bl pb ch ex cb cd dp ip sbx ll tp]. cbn [rc_parent].
  intros p Hp. destruct par as [q|]; [|discriminate].
  injection Hp as <-. exact (inc_rctx_ind P H q).
Qed.

Lemma inc_flat_vars_unfold c :
  inc_flat_vars c = rc_vars c ++ filter (fun kv => negb (inc_has (rc_vars c) (fst kv)))
                                        (match rc_parent c with Some p => inc_flat_vars p | None => [] end).
Proof. destruct c. reflexivity. Qed.
Lemma inc_flat_macros_unfold c :
  inc_flat_macros c = rc_macros c ++ filter (fun kv => negb (inc_has (rc_macros c) (fst kv)))
                                            (match rc_parent c with Some p => inc_flat_macros p | None => [] end).
Proof. destruct c. reflexivity. Qed.
Lemma rc_get_macro_unfold c x :
  rc_get_macro c x = match assoc_bytes (rc_macros c) x with
                     | Some m => Some m
                     | None => match rc_parent c with Some p => rc_get_macro p x | None => None end
                     end.
Proof. destruct c. reflexivity. Qed.

(* the flattened list reads like the chain *)
Lemma inc_flat_vars_get : forall c x,
  rc_get_var c x = match assoc_bytes (inc_flat_vars c) x with Some v => v | None => VNull end.
Proof.
  intro c. induction c as [c IH] using inc_rctx_ind. intro x.
  rewrite rc_get_var_unfold, inc_flat_vars_unfold, inc_assoc_app. unfold rc_own_var.
  destruct (assoc_bytes (rc_vars c) x) eqn:E; [reflexivity|].
  rewrite inc_assoc_filter by exact E.
  destruct (rc_parent c) as [p|] eqn:Ep; [|reflexivity]. apply (IH p eq_refl).
Qed.

Lemma inc_flat_macros_get : forall c x, rc_get_macro c x = assoc_bytes (inc_flat_macros c) x.
Proof.
  intro c. induction c as [c IH] using inc_rctx_ind. intro x.
  rewrite rc_get_macro_unfold, inc_flat_macros_unfold, inc_assoc_app.
  destruct (assoc_bytes (rc_macros c) x) eqn:E; [reflexivity|].
  rewrite inc_assoc_filter by exact E.
  destruct (rc_parent c) as [p|] eqn:Ep; [|reflexivity]. apply (IH p eq_refl).
Qed.

(* the list the sandboxed include copies (Ctx.rc_visible_vars: own map, then the parents, nearest first, a name
   already there is kept) reads like the chain *)
Lemma inc_flat_vars_assoc c x :
  assoc_bytes (inc_flat_vars c) x =
  match assoc_bytes (rc_vars c) x with
  | Some v => Some v
  | None => match rc_parent c with Some p => assoc_bytes (inc_flat_vars p) x | None => None end
  end.
Proof.
  rewrite inc_flat_vars_unfold, inc_assoc_app.
  destruct (assoc_bytes (rc_vars c) x) eqn:E; [reflexivity|].
  rewrite inc_assoc_filter by exact E. destruct (rc_parent c); reflexivity.
Qed.

Lemma rc_add_missing_assoc : forall vars acc x,
  assoc_bytes (rc_add_missing acc vars) x =
  match assoc_bytes acc x with Some v => Some v | None => assoc_bytes vars x end.
Proof.
  induction vars as [|[k v] r IH]; intros acc x.
  - cbn. destruct (assoc_bytes acc x); reflexivity.
  - change (rc_add_missing acc ((k, v) :: r))
      with (rc_add_missing (match assoc_bytes acc k with Some _ => acc | None => acc ++ [(k, v)] end) r).
    rewrite IH. cbn [assoc_bytes].
    destruct (assoc_bytes acc k) eqn:Ek.
    + destruct (assoc_bytes acc x) eqn:Ex; [reflexivity|].
      destruct (bytes_eqb k x) eqn:E; [|reflexivity].
      apply bytes_eqb_eq in E. subst k. congruence.
    + rewrite inc_assoc_app. destruct (assoc_bytes acc x); [reflexivity|].
      cbn [assoc_bytes]. destruct (bytes_eqb k x); reflexivity.
Qed.

Lemma rc_flatten_vars_unfold c acc :
  rc_flatten_vars c acc =
  match rc_parent c with
  | Some p => rc_flatten_vars p (rc_add_missing acc (rc_vars c))
  | None => rc_add_missing acc (rc_vars c)
  end.
Proof. destruct c. reflexivity. Qed.

Lemma rc_flatten_vars_assoc : forall c acc x,
  assoc_bytes (rc_flatten_vars c acc) x =
  match assoc_bytes acc x with Some v => Some v | None => assoc_bytes (inc_flat_vars c) x end.
Proof.
  intro c. induction c as [c IH] using inc_rctx_ind. intros acc x.
  rewrite rc_flatten_vars_unfold, (inc_flat_vars_assoc c x).
  destruct (rc_parent c) as [p|] eqn:Ep.
  - rewrite (IH p eq_refl), rc_add_missing_assoc.
    destruct (assoc_bytes acc x); [reflexivity|]. destruct (assoc_bytes (rc_vars c) x); reflexivity.
  - rewrite rc_add_missing_assoc.
    destruct (assoc_bytes acc x); [reflexivity|]. destruct (assoc_bytes (rc_vars c) x); reflexivity.
Qed.

Lemma rc_visible_vars_get c x :
  match assoc_bytes (rc_visible_vars c) x with Some v => v | None => VNull end = rc_get_var c x.
Proof. unfold rc_visible_vars. rewrite rc_flatten_vars_assoc. cbn [assoc_bytes]. symmetry. apply inc_flat_vars_get. Qed.

(* with values written over a variable list: the last value of a name, otherwise what the list held *)
Lemma inc_override_cons base k v r : inc_override base ((k, v) :: r) = inc_override (rc_assoc_set base k v) r.
Proof. reflexivity. Qed.

Lemma inc_override_assoc : forall ws base x,
  assoc_bytes (inc_override base ws) x =
  match inc_with_lookup ws x with Some v => Some v | None => assoc_bytes base x end.
Proof.
  induction ws as [|[k v] r IH]; intros base x; [reflexivity|].
  rewrite inc_override_cons, IH. cbn [inc_with_lookup].
  destruct (inc_with_lookup r x); [reflexivity|].
  destruct (bytes_eqb k x) eqn:E.
  - apply bytes_eqb_eq in E. subst k. apply rc_assoc_set_same.
  - apply rc_assoc_set_other. intro Hk. subst k. rewrite bytes_eqb_refl in E. discriminate.
Qed.

(* SetVariable for every with value, in order *)
Definition inc_bind_all (ic : rctx) (ws : list (bytes * value)) : rctx :=
  fold_left (fun acc kv => rc_set_var acc (fst kv) (snd kv)) ws ic.

Lemma inc_bind_all_vars : forall ws ic,
  inc_bind_all ic ws = rc_with_vars ic (inc_override (rc_vars ic) ws).
Proof.
  induction ws as [|[k v] r IH]; intro ic.
  - destruct ic. reflexivity.
  - change (inc_bind_all ic ((k, v) :: r)) with (inc_bind_all (rc_set_var ic k v) r).
    rewrite IH, inc_override_cons. destruct ic. reflexivity.
Qed.

(* the model evaluates a with value and binds it, one after the other; the evaluations do not depend on the
   context being filled: all values first, then all bindings *)
Lemma ev_with_vars_split : forall evc kvs ic,
  ev_with_vars evc kvs ic =
  match inc_with_values evc kvs with
  | (Ok ws, t) => (Ok (inc_bind_all ic ws), t)
  | (o, t) => (ev_cast o Unmodelled, t)
  end.
Proof.
  intros evc kvs. induction kvs as [|[k x] r IH]; intro ic; [reflexivity|].
  cbn [ev_with_vars inc_with_values].
  destruct (evc x) as [[v| | |] t]; cbn [ev_bind ev_cast]; try reflexivity.
  destruct (vo_has_callable v); [reflexivity|].
  rewrite IH. destruct (inc_with_values evc r) as [[ws| | |] t2]; cbn [ev_bind ev_cast ev_ret]; rewrite ?app_nil_r; reflexivity.
Qed.

(* ================================================================ Part 2 *)
(* the context of the include as the model builds it, before the with values are bound *)
Definition inc_mk (name : bytes) (base : rctx) : rctx :=
  MkRc (rc_vars base) (rc_parent base) (rc_macros base) (rc_blocks base) (rc_parent_blocks base) (rc_chain base)
       (rc_extending base) (rc_cur_block base) (rc_cur_defs base) (rc_depth base) (rc_in_parent_call base)
       (rc_sandboxed base) (Some name) name.
Definition inc_model_base (only sb : bool) (c : rctx) (name : bytes) : rctx :=
  if negb only && negb sb then rc_clone c
  else rc_derive (rc_fresh (if only then [] else rc_visible_vars c) name) None (rc_sandboxed c || sb) None.
(* and the context the included template starts in *)
Definition inc_model_start (only sb : bool) (c : rctx) (name : bytes) (ws : list (bytes * value)) : rctx :=
  inc_bind_all (inc_mk name (inc_model_base only sb c name)) ws.

(* an include in normal form, over the function that builds the start context *)
Definition inc_normal (start : bytes -> list (bytes * value) -> rctx)
                      (ev : rctx -> expr -> ev_res) (root : rctx -> list node -> ev_rres) (env : ev_env) (c : rctx)
                      (e : expr) (withs : option expr) (ign sb : bool) : ev_rres :=
  ev_rexpr (ev_load ev env c e) c (fun nl =>
    match snd nl with
    | None => if ign then ev_rret [] c else ev_rfail (Err ENotFound) c
    | Some inodes =>
      match inc_with_exprs withs with
      | None => ev_rfail Unmodelled c
      | Some kvs =>
        if sb && inc_no_policy env then ev_rfail (Err EOther) c
        else
          ev_rexpr (inc_with_values (ev c) kvs) c (fun ws =>
            let '(r, _, t) := root (start (fst nl) ws) inodes in (r, c, t))
      end
    end).

Lemma ev_include_normal ev root env c e withs ign only sb :
  ev_include ev root env c e withs ign only sb =
  inc_normal (inc_model_start only sb c) ev root env c e withs ign sb.
Proof.
  unfold ev_include, inc_normal. apply ev_rexpr_ext. intros [name [inodes|]]; cbn [fst snd]; [|reflexivity].
  unfold inc_with_exprs.
  destruct (match withs with None => _ | Some _ => _ end) as [kvs|]; [|reflexivity].
  unfold inc_model_start, inc_model_base, inc_no_policy.
  destruct only, sb; cbn [negb andb orb]; try destruct (e_policy env); try reflexivity;
    rewrite ev_with_vars_split;
    destruct (inc_with_values (ev c) kvs) as [[ws| | |] t]; reflexivity.
Qed.

Lemma inc_spec_exec_normal ev root env c e withs ign only sb :
  inc_spec_exec ev root env c e withs ign only sb =
  inc_normal (inc_spec_start only sb c) ev root env c e withs ign sb.
Proof. reflexivity. Qed.

(* a normal-form include whose start context is admissible satisfies the relation *)
Lemma inc_normal_spec start ev root env c e withs ign only sb :
  (forall name ws, inc_start_ok only sb c name ws (start name ws)) ->
  inc_spec ev root env c e withs ign only sb (inc_normal start ev root env c e withs ign sb).
Proof.
  intro Hs. unfold inc_spec, inc_normal.
  destruct (ev_load ev env c e) as [[[name [inodes|]]| | |] t]; cbn [ev_rexpr ev_cast fst snd]; try reflexivity.
  - destruct (inc_with_exprs withs) as [kvs|]; [|cbn; rewrite app_nil_r; reflexivity].
    destruct (sb && inc_no_policy env); [cbn; rewrite app_nil_r; reflexivity|].
    destruct (inc_with_values (ev c) kvs) as [[ws| | |] t2]; cbn [ev_rexpr ev_cast]; try reflexivity.
    exists (start name ws). split; [apply Hs|].
    destruct (root (start name ws) inodes) as [[r ci] t3]. reflexivity.
  - destruct ign; cbn; rewrite app_nil_r; reflexivity.
Qed.

(* ---------------------------------------------------------------- the start contexts are admissible *)
Lemma inc_spec_start_ok only sb c name ws : inc_start_ok only sb c name ws (inc_spec_start only sb c name ws).
Proof.
  unfold inc_start_ok, inc_spec_start. cbn [rc_sandboxed rc_tpl rc_last_loaded rc_blocks rc_parent_blocks rc_chain
    rc_extending rc_cur_block rc_cur_defs rc_depth rc_in_parent_call].
  repeat split.
  - intro x. rewrite rc_get_var_unfold. unfold rc_own_var. cbn [rc_vars rc_parent].
    unfold inc_visible_vars, inc_visible. rewrite inc_override_assoc.
    destruct (inc_with_lookup ws x); [reflexivity|].
    destruct only; [reflexivity|]. symmetry. apply inc_flat_vars_get.
  - intros x v H. unfold rc_own_var. cbn [rc_vars]. unfold inc_visible_vars. rewrite inc_override_assoc, H. reflexivity.
  - intro x. rewrite rc_get_macro_unfold. cbn [rc_macros rc_parent].
    destruct (only || sb); [reflexivity|]. rewrite inc_flat_macros_get.
    destruct (assoc_bytes (inc_flat_macros c) x); reflexivity.
Qed.

Lemma inc_model_start_fields only sb c name ws :
  inc_model_start only sb c name ws =
  rc_with_vars (inc_mk name (inc_model_base only sb c name)) (inc_override (rc_vars (inc_model_base only sb c name)) ws).
Proof. unfold inc_model_start. rewrite inc_bind_all_vars. reflexivity. Qed.

(* what the included template reads in the model: for every option set what the specification says *)
Lemma inc_model_start_get only sb c name ws x :
  rc_get_var (inc_model_start only sb c name ws) x = inc_visible only c ws x.
Proof.
  rewrite inc_model_start_fields, rc_get_var_unfold. unfold rc_own_var, inc_visible.
  cbn [rc_with_vars rc_vars rc_parent inc_mk]. rewrite inc_override_assoc.
  destruct (inc_with_lookup ws x); [reflexivity|].
  destruct only, sb; try reflexivity.
  cbn [inc_model_base negb andb orb rc_derive rc_fresh rc_vars rc_parent]. apply rc_visible_vars_get.
Qed.

Lemma inc_model_start_ok only sb c name ws :
  inc_start_ok only sb c name ws (inc_model_start only sb c name ws).
Proof.
  unfold inc_start_ok. repeat split.
  - intro x. apply inc_model_start_get.
  - intros x v H. rewrite inc_model_start_fields. unfold rc_own_var. cbn [rc_with_vars rc_vars].
    rewrite inc_override_assoc, H. reflexivity.
  - intro x. rewrite inc_model_start_fields, rc_get_macro_unfold. cbn [rc_with_vars rc_macros rc_parent inc_mk].
    destruct only, sb; cbn [inc_model_base negb andb orb rc_clone rc_derive rc_fresh rc_macros rc_parent]; try reflexivity.
    rewrite (rc_get_macro_unfold c x). destruct (assoc_bytes (rc_macros c) x); reflexivity.
  - rewrite inc_model_start_fields. destruct only, sb; cbn; rewrite ?orb_false_r, ?orb_true_r; reflexivity.
  - rewrite inc_model_start_fields. reflexivity.
  - rewrite inc_model_start_fields. reflexivity.
  - rewrite inc_model_start_fields. destruct only, sb; reflexivity.
  - rewrite inc_model_start_fields. destruct only, sb; reflexivity.
  - rewrite inc_model_start_fields. destruct only, sb; reflexivity.
  - rewrite inc_model_start_fields. destruct only, sb; reflexivity.
  - rewrite inc_model_start_fields. destruct only, sb; reflexivity.
  - rewrite inc_model_start_fields. destruct only, sb; reflexivity.
  - rewrite inc_model_start_fields. destruct only, sb; reflexivity.
  - rewrite inc_model_start_fields. destruct only, sb; reflexivity.
Qed.

(* ================================================================ Part 3 *)
(* ---------------------------------------------------------------- scope *)
Lemma C11_scope_proof : forall ev root env c e withs ign only sb,
  inc_spec ev root env c e withs ign only sb (ev_include ev root env c e withs ign only sb).
Proof. intros. rewrite ev_include_normal. apply inc_normal_spec. intros. apply inc_model_start_ok. Qed.

(* through the node and for the renderers themselves *)
Lemma C11_scope_node_proof : forall fu env c e withs ign only sb,
  inc_spec (eval fu env) (render_root fu env) env c e withs ign only sb
           (render_node (eval fu env) (render fu env) (render_root fu env) env c (NInclude e withs ign only sb)).
Proof. intros. cbn [render_node]. apply C11_scope_proof. Qed.

(* the table: what a name reads in the included template, per option set *)
Lemma C11_scope_table_proof : forall c name ws x,
  (* plain, with or without with *)
  rc_get_var (inc_model_start false false c name ws) x = inc_visible false c ws x /\
  (* only *)
  rc_get_var (inc_model_start true false c name ws) x = inc_visible true c ws x /\
  (* only sandboxed *)
  rc_get_var (inc_model_start true true c name ws) x = inc_visible true c ws x /\
  (* sandboxed without only: like the plain include, own map and every parent of the includer *)
  rc_get_var (inc_model_start false true c name ws) x = inc_visible false c ws x.
Proof. intros. repeat split; apply inc_model_start_get. Qed.

(* the executable instance of the specification satisfies the relation for every option set *)
Lemma C11_spec_exec_admissible_proof : forall ev root env c e withs ign only sb,
  inc_spec ev root env c e withs ign only sb (inc_spec_exec ev root env c e withs ign only sb).
Proof. intros. rewrite inc_spec_exec_normal. apply inc_normal_spec. intros. apply inc_spec_start_ok. Qed.

(* the model IS the executable instance up to the start context *)
Lemma C11_model_vs_exec_proof : forall ev root env c e withs ign only sb,
  ev_include ev root env c e withs ign only sb = inc_normal (inc_model_start only sb c) ev root env c e withs ign sb /\
  inc_spec_exec ev root env c e withs ign only sb = inc_normal (inc_spec_start only sb c) ev root env c e withs ign sb.
Proof. intros. split; [apply ev_include_normal|reflexivity]. Qed.

(* ---------------------------------------------------------------- the repaired defect (7d45909) on its witness *)
(* the context of an included template: own map empty, the variable x = 1 in its parent; a sandboxed include
   without only in it hands x on *)
Definition c11_w_parent : rctx := rc_derive (rc_fresh [(b#"x", VInt 1)] b#"main") None false (Some b#"main").
Definition c11_w_ctx : rctx := inc_model_start false false c11_w_parent b#"mid" [].
Lemma C11_sandboxed_inherits_witness_proof :
  rc_own_var c11_w_ctx b#"x" = None /\ rc_get_var c11_w_ctx b#"x" = VInt 1 /\
  rc_get_var (inc_model_start false true c11_w_ctx b#"leaf" []) b#"x" = VInt 1.
Proof. repeat split; reflexivity. Qed.

(* ---------------------------------------------------------------- tie to the code *)
(* the shapes of IncludeNode.Render that ev_include mirrors are in node.go now (regenerated on every run): name and
   with values evaluated by the including context, with values bound by SetVariable on the context of the include,
   that context a Clone or a new one, no deferred rewriting of the error, ignore missing confined to return nil
   right after the two Load calls *)
Lemma C11_code_shape_proof : ics_shape_ok = true.
Proof. vm_compute. reflexivity. Qed.

(* sandboxed without only, by what the code copies today (the flag is re-read from node.go on every run): the model
   mirrors the copy of the own map AND every parent; should the code copy the own map only again, the obligation
   is the unprovable False *)
Definition c11_scope_unconditional : Prop :=
  forall ev root env c e withs ign only sb,
    inc_spec ev root env c e withs ign only sb (ev_include ev root env c e withs ign only sb).
Lemma C11_scope_by_code_proof : if ics_sandbox_copies_chain then c11_scope_unconditional else False.
Proof. exact C11_scope_proof. Qed.

(* ---------------------------------------------------------------- non-interference *)
Lemma inc_normal_ctx start ev root env c e withs ign sb :
  snd (fst (inc_normal start ev root env c e withs ign sb)) = c.
Proof.
  unfold inc_normal.
  destruct (ev_load ev env c e) as [[[name [inodes|]]| | |] t]; cbn [ev_rexpr ev_cast fst snd]; try reflexivity.
  - destruct (inc_with_exprs withs) as [kvs|]; [|reflexivity].
    destruct (sb && inc_no_policy env); [reflexivity|].
    destruct (inc_with_values (ev c) kvs) as [[ws| | |] t2]; cbn [ev_rexpr ev_cast fst snd]; try reflexivity.
    destruct (root (start name ws) inodes) as [[r ci] t3]. reflexivity.
  - destruct ign; reflexivity.
Qed.

(* whatever the included template is and does (root is ANY function), the context handed back is the one handed in *)
Lemma C11_noninterference_eq_proof : forall ev root env c e withs ign only sb,
  snd (fst (ev_include ev root env c e withs ign only sb)) = c.
Proof. intros. rewrite ev_include_normal. apply inc_normal_ctx. Qed.

Lemma inc_same_state_refl c : inc_same_state c c.
Proof. constructor; reflexivity. Qed.

Lemma C11_noninterference_proof : forall fu env c e withs ign only sb r c' t,
  render_node (eval fu env) (render fu env) (render_root fu env) env c (NInclude e withs ign only sb) = (r, c', t) ->
  inc_same_state c c'.
Proof.
  intros fu env c e withs ign only sb r c' t H. cbn [render_node] in H.
  pose proof (C11_noninterference_eq_proof (eval fu env) (render_root fu env) env c e withs ign only sb) as E.
  rewrite H in E. cbn [fst snd] in E. subst c'. apply inc_same_state_refl.
Qed.

(* for the helper with arbitrary evaluator and arbitrary renderer of the included template *)
Lemma C11_noninterference_any_proof : forall ev root env c e withs ign only sb r c' t,
  ev_include ev root env c e withs ign only sb = (r, c', t) -> inc_same_state c c'.
Proof.
  intros ev root env c e withs ign only sb r c' t H.
  pose proof (C11_noninterference_eq_proof ev root env c e withs ign only sb) as E.
  rewrite H in E. cbn [fst snd] in E. subst c'. apply inc_same_state_refl.
Qed.

(* what follows an include is rendered in the context that was there before it *)
Lemma C11_rest_unaffected_proof : forall fu env c e withs ign only sb rest,
  render (S fu) env c (NInclude e withs ign only sb :: rest) =
  ev_rseq (ev_include (eval fu env) (render_root fu env) env c e withs ign only sb) (fun _ => render fu env c rest).
Proof.
  intros. cbn [render render_node].
  pose proof (C11_noninterference_eq_proof (eval fu env) (render_root fu env) env c e withs ign only sb) as E.
  destruct (ev_include (eval fu env) (render_root fu env) env c e withs ign only sb) as [[r c'] t].
  cbn [fst snd] in E. subst c'. destruct r; reflexivity.
Qed.

(* ---------------------------------------------------------------- with values, computed names *)
(* the include consults the expression evaluator at the including context only *)
Lemma ev_load_ev_ext ev1 ev2 env c e : ev1 c e = ev2 c e -> ev_load ev1 env c e = ev_load ev2 env c e.
Proof. intro H. unfold ev_load. rewrite H. reflexivity. Qed.

Lemma inc_with_values_ext evc1 evc2 kvs :
  (forall x, evc1 x = evc2 x) -> inc_with_values evc1 kvs = inc_with_values evc2 kvs.
Proof.
  intro H. induction kvs as [|[k x] r IH]; [reflexivity|]. cbn [inc_with_values]. rewrite H.
  apply ev_bind_ext. intro v. rewrite IH. reflexivity.
Qed.

Lemma C11_with_evaluated_in_includer_proof : forall ev1 ev2 root env c e withs ign only sb,
  (forall x, ev1 c x = ev2 c x) ->
  ev_include ev1 root env c e withs ign only sb = ev_include ev2 root env c e withs ign only sb.
Proof.
  intros ev1 ev2 root env c e withs ign only sb H. rewrite !ev_include_normal. unfold inc_normal.
  rewrite (ev_load_ev_ext ev1 ev2 env c e (H e)). apply ev_rexpr_ext. intros [name [inodes|]]; cbn [fst snd]; [|reflexivity].
  destruct (inc_with_exprs withs) as [kvs|]; [|reflexivity].
  destruct (sb && inc_no_policy env); [reflexivity|].
  rewrite (inc_with_values_ext (ev1 c) (ev2 c) kvs H). reflexivity.
Qed.

(* the values: each expression evaluated by the evaluator of c, in order; the included template starts with them *)
Lemma C11_with_values_proof : forall ev root env c e withs ign only sb name inodes t kvs ws t2,
  ev_load ev env c e = (Ok (name, Some inodes), t) ->
  inc_with_exprs withs = Some kvs ->
  sb && inc_no_policy env = false ->
  inc_with_values (ev c) kvs = (Ok ws, t2) ->
  ev_include ev root env c e withs ign only sb =
  (let '(r, _, t3) := root (inc_model_start only sb c name ws) inodes in (r, c, t ++ t2 ++ t3)) /\
  (forall x v, inc_with_lookup ws x = Some v -> rc_get_var (inc_model_start only sb c name ws) x = v).
Proof.
  intros ev root env c e withs ign only sb name inodes t kvs ws t2 Hl Hw Hp Hv.
  split.
  - rewrite ev_include_normal. unfold inc_normal. rewrite Hl. cbn [ev_rexpr fst snd]. rewrite Hw, Hp, Hv.
    cbn [ev_rexpr]. destruct (root (inc_model_start only sb c name ws) inodes) as [[r ci] t3]. reflexivity.
  - intros x v H. rewrite inc_model_start_get. unfold inc_visible. rewrite H. reflexivity.
Qed.

Lemma c9_add_trace_rexpr {A} (t : ev_trace) (r : outcome A * ev_trace) c (k : A -> ev_rres) :
  c9_add_trace t (ev_rexpr r c k) = ev_rexpr (fst r, t ++ snd r) c k.
Proof.
  destruct r as [[a| | |] t1]; cbn [ev_rexpr fst snd c9_add_trace ev_cast]; try reflexivity.
  destruct (k a) as [[o c2] t2]. cbn [c9_add_trace]. rewrite app_assoc. reflexivity.
Qed.

(* a computed name: evaluated in the including context, its text is the name; from there on the include is the
   include of that literal name *)
Lemma C11_computed_name_proof : forall fu env c e v t name root withs ign only sb,
  eval (S fu) env c e = (Ok v, t) -> vo_to_str v = Some name ->
  ev_include (eval (S fu) env) root env c e withs ign only sb =
  c9_add_trace t (ev_include (eval (S fu) env) root env c (ELit (LStr name)) withs ign only sb).
Proof.
  intros fu env c e v t name root withs ign only sb He Hs.
  rewrite !ev_include_normal. unfold inc_normal. rewrite c9_add_trace_rexpr.
  assert (Hl : ev_load (eval (S fu) env) env c (ELit (LStr name)) =
               (if ev_relative name then (Unmodelled, []) else (Ok (name, ts_lookup env name), [TrLoad name]))).
  { unfold ev_load. cbn [eval]. unfold ev_expr, ev_sandbox_denies.
    replace (rc_sandboxed c && match e_policy env with Some _ => false | None => false end) with false
      by (destruct (rc_sandboxed c), (e_policy env); reflexivity).
    cbn [ev_lift ev_lit ev_bind vo_to_str vo_to_str_flat vo_view vo_fmt].
    destruct (ev_relative name); reflexivity. }
  assert (Hl2 : ev_load (eval (S fu) env) env c e =
               (if ev_relative name then (Unmodelled, t) else (Ok (name, ts_lookup env name), t ++ [TrLoad name]))).
  { unfold ev_load. rewrite He. cbn [ev_bind]. rewrite Hs. destruct (ev_relative name); cbn; rewrite ?app_nil_r; reflexivity. }
  rewrite Hl, Hl2. destruct (ev_relative name); cbn [fst snd]; [rewrite app_nil_r; reflexivity|reflexivity].
Qed.

(* ---------------------------------------------------------------- ignore missing *)
Lemma C11_ignore_missing_proof : forall ev root env c e withs only sb name t,
  ev_load ev env c e = (Ok (name, None), t) ->
  ev_include ev root env c e withs true only sb = (Ok [], c, t) /\
  ev_include ev root env c e withs false only sb = (Err ENotFound, c, t).
Proof.
  intros ev root env c e withs only sb name t H. rewrite !ev_include_normal. unfold inc_normal. rewrite H.
  cbn. rewrite app_nil_r. split; reflexivity.
Qed.

(* the option looks at the named template only: once that exists, ignore missing changes nothing -- whatever the
   rendering of the included template returns, a not-found error from inside it included, is the result *)
Lemma C11_ignore_missing_only_the_named_template_proof : forall ev root env c e withs only sb name inodes t,
  ev_load ev env c e = (Ok (name, Some inodes), t) ->
  ev_include ev root env c e withs true only sb = ev_include ev root env c e withs false only sb.
Proof.
  intros ev root env c e withs only sb name inodes t H. rewrite !ev_include_normal. unfold inc_normal. rewrite H.
  reflexivity.
Qed.

(* every failure of the included template is the failure of the include, with or without ignore missing *)
Lemma C11_failure_reported_proof : forall ev root env c e withs ign only sb name inodes t kvs ws t2 err ci t3,
  ev_load ev env c e = (Ok (name, Some inodes), t) ->
  inc_with_exprs withs = Some kvs ->
  sb && inc_no_policy env = false ->
  inc_with_values (ev c) kvs = (Ok ws, t2) ->
  root (inc_model_start only sb c name ws) inodes = (Err err, ci, t3) ->
  ev_include ev root env c e withs ign only sb = (Err err, c, t ++ t2 ++ t3).
Proof.
  intros ev root env c e withs ign only sb name inodes t kvs ws t2 err ci t3 Hl Hw Hp Hv Hr.
  destruct (C11_with_values_proof ev root env c e withs ign only sb name inodes t kvs ws t2 Hl Hw Hp Hv) as [E _].
  rewrite E, Hr. reflexivity.
Qed.

(* the other failures of the include itself: the name expression, a with value, sandboxed without a policy *)
Lemma C11_own_failures_proof : forall ev root env c e withs ign only sb,
  (forall o t, ev_load ev env c e = (o, t) -> (forall a, o <> Ok a) ->
     ev_include ev root env c e withs ign only sb = (ev_cast o Unmodelled, c, t)) /\
  (forall name inodes t kvs o t2, ev_load ev env c e = (Ok (name, Some inodes), t) ->
     inc_with_exprs withs = Some kvs -> sb && inc_no_policy env = false ->
     inc_with_values (ev c) kvs = (o, t2) -> (forall a, o <> Ok a) ->
     ev_include ev root env c e withs ign only sb = (ev_cast o Unmodelled, c, t ++ t2)) /\
  (forall name inodes t kvs, ev_load ev env c e = (Ok (name, Some inodes), t) ->
     inc_with_exprs withs = Some kvs -> sb = true -> e_policy env = None ->
     ev_include ev root env c e withs ign only sb = (Err EOther, c, t)).
Proof.
  intros ev root env c e withs ign only sb. repeat split.
  - intros o t H Ho. rewrite ev_include_normal. unfold inc_normal. rewrite H.
    destruct o; try reflexivity. exfalso. eapply Ho. reflexivity.
  - intros name inodes t kvs o t2 Hl Hw Hp Hv Ho. rewrite ev_include_normal. unfold inc_normal.
    rewrite Hl. cbn [ev_rexpr fst snd]. rewrite Hw, Hp, Hv.
    destruct o; try reflexivity. exfalso. eapply Ho. reflexivity.
  - intros name inodes t kvs Hl Hw -> Hp. rewrite ev_include_normal. unfold inc_normal, inc_no_policy.
    rewrite Hl. cbn [ev_rexpr fst snd]. rewrite Hw, Hp. cbn. rewrite app_nil_r. reflexivity.
Qed.

(* ---------------------------------------------------------------- helpers of the examples of Properties/C11.v *)
Definition c11_env (tpls : list (bytes * list node)) : ev_env := MkEnv tpls [] [] [] (Some ([], [])).
Definition c11_out (tpls : list (bytes * list node)) (vars : list (bytes * value)) : outcome bytes :=
  fst (render_template 80 (c11_env tpls) b#"main" vars).
Definition c11_spec_out (tpls : list (bytes * list node)) (vars : list (bytes * value)) : outcome bytes :=
  fst (c11_render_template 80 (c11_env tpls) b#"main" vars).
