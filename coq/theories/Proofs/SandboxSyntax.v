(* Proofs of property C06, auxiliary: the erased twin of a context (Spec/SandboxSpec.v sb_erase) reads like the
   context and commutes with every context operation. *)
From Twig Require Import Base.Bytes Model.Ast Model.Value Model.ValueOps Model.Ctx Model.TemplateSet Model.Eval
                         Spec.SandboxSpec.

(* ================================================================ the erased twin *)
Lemma sb_erase_sandboxed c : rc_sandboxed (sb_erase c) = false.
Proof. destruct c. reflexivity. Qed.
Lemma sb_erase_vars c : rc_vars (sb_erase c) = rc_vars c.
Proof. destruct c. reflexivity. Qed.
Lemma sb_erase_parent c : rc_parent (sb_erase c) = match rc_parent c with Some p => Some (sb_erase p) | None => None end.
Proof. destruct c. reflexivity. Qed.
Lemma sb_erase_macros c : rc_macros (sb_erase c) = rc_macros c.
Proof. destruct c. reflexivity. Qed.
Lemma sb_erase_blocks c : rc_blocks (sb_erase c) = rc_blocks c.
Proof. destruct c. reflexivity. Qed.
Lemma sb_erase_parent_blocks c : rc_parent_blocks (sb_erase c) = rc_parent_blocks c.
Proof. destruct c. reflexivity. Qed.
Lemma sb_erase_chain c : rc_chain (sb_erase c) = rc_chain c.
Proof. destruct c. reflexivity. Qed.
Lemma sb_erase_extending c : rc_extending (sb_erase c) = rc_extending c.
Proof. destruct c. reflexivity. Qed.
Lemma sb_erase_cur_block c : rc_cur_block (sb_erase c) = rc_cur_block c.
Proof. destruct c. reflexivity. Qed.
Lemma sb_erase_cur_defs c : rc_cur_defs (sb_erase c) = rc_cur_defs c.
Proof. destruct c. reflexivity. Qed.
Lemma sb_erase_depth c : rc_depth (sb_erase c) = rc_depth c.
Proof. destruct c. reflexivity. Qed.
Lemma sb_erase_last_loaded c : rc_last_loaded (sb_erase c) = rc_last_loaded c.
Proof. destruct c. reflexivity. Qed.
Lemma sb_erase_tpl c : rc_tpl (sb_erase c) = rc_tpl c.
Proof. destruct c. reflexivity. Qed.
Lemma sb_erase_own_var c x : rc_own_var (sb_erase c) x = rc_own_var c x.
Proof. destruct c. reflexivity. Qed.

Fixpoint sb_erase_get_var (c : rctx) (x : bytes) {struct c} : rc_get_var (sb_erase c) x = rc_get_var c x.
Proof.
  destruct c as [vars parent macros blocks pblocks chain ext cb cd depth ipc sb last tpl]. cbn.
  destruct (assoc_bytes vars x); [reflexivity|]. destruct parent as [pc|]; [apply sb_erase_get_var|reflexivity].
Qed.

Fixpoint sb_erase_get_macro (c : rctx) (x : bytes) {struct c} : rc_get_macro (sb_erase c) x = rc_get_macro c x.
Proof.
  destruct c as [vars parent macros blocks pblocks chain ext cb cd depth ipc sb last tpl]. cbn.
  destruct (assoc_bytes macros x); [reflexivity|]. destruct parent as [pc|]; [apply sb_erase_get_macro|reflexivity].
Qed.

Lemma sb_erase_set_var c x v : sb_erase (rc_set_var c x v) = rc_set_var (sb_erase c) x v.
Proof. destruct c. reflexivity. Qed.
Lemma sb_erase_with_macros c ms : sb_erase (rc_with_macros c ms) = rc_with_macros (sb_erase c) ms.
Proof. destruct c. reflexivity. Qed.
Lemma sb_erase_with_blocks c bs ch : sb_erase (rc_with_blocks c bs ch) = rc_with_blocks (sb_erase c) bs ch.
Proof. destruct c. reflexivity. Qed.
Lemma sb_erase_with_extending c b : sb_erase (rc_with_extending c b) = rc_with_extending (sb_erase c) b.
Proof. destruct c. reflexivity. Qed.
Lemma sb_erase_with_current c b ds d t : sb_erase (rc_with_current c b ds d t) = rc_with_current (sb_erase c) b ds d t.
Proof. destruct c. reflexivity. Qed.
Lemma sb_erase_with_depth c d t : sb_erase (rc_with_depth c d t) = rc_with_depth (sb_erase c) d t.
Proof. destruct c. reflexivity. Qed.
Lemma sb_erase_clone c : sb_erase (rc_clone c) = rc_clone (sb_erase c).
Proof. destruct c. reflexivity. Qed.
Lemma sb_erase_iter_ctx c k v n i it : sb_erase (ev_iter_ctx c k v n i it) = ev_iter_ctx (sb_erase c) k v n i it.
Proof. unfold ev_iter_ctx. destruct k; rewrite !sb_erase_set_var; reflexivity. Qed.
Lemma sb_erase_chain_defs c name : ev_chain_defs (sb_erase c) name = ev_chain_defs c name.
Proof. unfold ev_chain_defs. rewrite sb_erase_chain. reflexivity. Qed.


(* the variables a context can read are those its twin can read *)
Fixpoint sb_erase_flatten (c : rctx) (acc : list (bytes * value)) {struct c} :
  rc_flatten_vars (sb_erase c) acc = rc_flatten_vars c acc.
Proof.
  destruct c as [vars parent macros blocks pblocks chain ext cb cd depth ipc sb last tpl]. cbn.
  destruct parent as [pc|]; [apply sb_erase_flatten|reflexivity].
Qed.
Lemma sb_erase_visible_vars c : rc_visible_vars (sb_erase c) = rc_visible_vars c.
Proof. unfold rc_visible_vars. apply sb_erase_flatten. Qed.
Lemma sb_erase_var_macro c x : ev_var_macro (sb_erase c) x = ev_var_macro c x.
Proof. unfold ev_var_macro. rewrite sb_erase_own_var, sb_erase_get_macro. reflexivity. Qed.
