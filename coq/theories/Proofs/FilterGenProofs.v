(* The filter names of property C19 are registered to the Go methods that Model/Filters.v mirrors
   (table regenerated from extension.go GetFilters by tools/gogen); proved by computation, so a
   re-registered name stops this file compiling. *)
From Twig Require Import Base.Bytes Gen.Registry.

Definition flt_registered : list (bytes * bytes) := [
  (b#"upper", b#"filterUpper"); (b#"lower", b#"filterLower"); (b#"trim", b#"filterTrim");
  (b#"capitalize", b#"filterCapitalize"); (b#"reverse", b#"filterReverse"); (b#"sort", b#"filterSort");
  (b#"length", b#"filterLength"); (b#"count", b#"filterLength"); (b#"first", b#"filterFirst");
  (b#"last", b#"filterLast"); (b#"slice", b#"filterSlice"); (b#"join", b#"filterJoin");
  (b#"split", b#"filterSplit"); (b#"default", b#"filterDefault"); (b#"merge", b#"filterMerge");
  (b#"keys", b#"filterKeys"); (b#"abs", b#"filterAbs"); (b#"round", b#"filterRound");
  (b#"number_format", b#"filterNumberFormat") ].

Lemma C19_registry_proof :
  forallb (fun e => match assoc_bytes reg_GetFilters (fst e) with Some m => bytes_eqb m (snd e) | None => false end)
          flt_registered = true.
Proof. vm_compute. reflexivity. Qed.
