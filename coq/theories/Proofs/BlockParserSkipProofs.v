(* The two concrete stand-ins for parseExpression of Model/BlockParser.v (the bracket-balanced scan used by the
   correspondence driver and the greedy run) satisfy bp_expr_spec, so the C05 theorems apply to them. *)
From Twig Require Import Base.Bytes Model.BlockParser.
From Coq Require Import Arith Lia Wf_nat.

(* ------------------------------------------------------------------ the two concrete stand-ins satisfy the assumption *)
Lemma bp_skipn_cons (toks : list token) i t r : skipn i toks = t :: r -> tok_at toks i = Some t /\ skipn (S i) toks = r.
Proof.
  revert i. induction toks as [|x l IH]; intros i H.
  - destruct i; discriminate.
  - destruct i as [|i]; simpl in *.
    + inversion H; subst. split; reflexivity.
    + apply IH in H. exact H.
Qed.

Definition bp_run_ok (toks : list token) (i j : nat) : Prop :=
  i <= j /\ forall k, i <= k < j -> exists t, tok_at toks k = Some t /\ k_expr (t_kind t) = true.

Lemma bp_run_ok_refl toks i : bp_run_ok toks i i.
Proof. split; [lia|]. intros k Hk. lia. Qed.

Lemma bp_run_ok_step toks i j t : tok_at toks i = Some t -> k_expr (t_kind t) = true -> bp_run_ok toks (S i) j -> bp_run_ok toks i j.
Proof.
  intros Ht Kt [Hle Hk]. split; [lia|]. intros k Hr.
  destruct (Nat.eq_dec k i) as [->|]; [exists t; split; assumption|]. apply Hk. lia.
Qed.

Lemma bp_run_ok_lt toks i j : bp_run_ok toks (S i) j -> i < j.
Proof. intros [H _]. lia. Qed.

Lemma bp_std_go_ok toks : forall l i need depth q opened j,
  skipn i toks = l -> bp_std_go l i need depth q opened = Some j ->
  bp_run_ok toks i j /\ (need = true -> i < j).
Proof.
  induction l as [l IH] using (well_founded_induction (well_founded_ltof _ (@length token))).
  intros i need depth q opened j Hl Hgo.
  destruct l as [|t r].
  - simpl in Hgo. destruct need; simpl in Hgo; [discriminate|].
    destruct (0 <? depth); inversion Hgo; subst. split; [apply bp_run_ok_refl|discriminate].
  - apply bp_skipn_cons in Hl. destruct Hl as [Ht Hr].
    assert (IH1 : forall need' depth' q' opened' j', bp_std_go r (S i) need' depth' q' opened' = Some j' ->
                  bp_run_ok toks (S i) j' /\ (need' = true -> S i < j')).
    { intros. eapply IH; [|exact Hr|eassumption]. unfold ltof. simpl. lia. }
    assert (Stop : forall j', (if need || (0 <? depth) then None else Some i) = Some j' ->
                   bp_run_ok toks i j' /\ (need = true -> i < j')).
    { intros j' Hs. destruct need; simpl in Hs; [discriminate|]. destruct (0 <? depth); inversion Hs; subst.
      split; [apply bp_run_ok_refl|discriminate]. }
    cbn [bp_std_go] in Hgo.
    destruct (k_expr (t_kind t)) eqn:Ke; cbn [negb] in Hgo; [|apply Stop; exact Hgo].
    assert (One : forall need' depth' q' opened', bp_std_go r (S i) need' depth' q' opened' = Some j ->
                  bp_run_ok toks i j /\ (need = true -> i < j)).
    { intros need' depth' q' opened' H1. apply IH1 in H1. destruct H1 as [H1 _]. split.
      - eapply bp_run_ok_step; eassumption.
      - intros _. eapply bp_run_ok_lt; eassumption. }
    assert (Two : forall u r' need' depth' q' opened', r = u :: r' -> k_name (t_kind u) = true ->
                  bp_std_go r' (S (S i)) need' depth' q' opened' = Some j ->
                  bp_run_ok toks i j /\ (need = true -> i < j)).
    { intros u r' need' depth' q' opened' Hru Ku H2. rewrite Hru in Hr.
      apply bp_skipn_cons in Hr. destruct Hr as [Hu Hr'].
      assert (G : bp_run_ok toks (S (S i)) j).
      { eapply (IH r'); [unfold ltof; rewrite Hru; simpl; lia|exact Hr'|exact H2]. }
      assert (Kue : k_expr (t_kind u) = true) by (destruct (t_kind u); try discriminate; reflexivity).
      split.
      - eapply bp_run_ok_step; [exact Ht|exact Ke|]. eapply bp_run_ok_step; [exact Hu|exact Kue|exact G].
      - intros _. destruct G. lia. }
    destruct need.
    + destruct (t_kind t); try discriminate;
        repeat match type of Hgo with
               | (if ?b then _ else _) = _ => destruct b
               end; try discriminate; eapply One; exact Hgo.
    + destruct (t_kind t) eqn:Kt; try (apply Stop; exact Hgo).
      * (* name *)
        destruct (bp_word_binop (t_val t)); [eapply One; exact Hgo|].
        destruct r as [|u r']; [apply Stop; exact Hgo|].
        destruct (k_name (t_kind u)) eqn:Ku; cbn [andb] in Hgo; [|apply Stop; exact Hgo].
        repeat match type of Hgo with
               | (if ?b then _ else _) = _ => destruct b
               end; first [ apply Stop; exact Hgo | eapply Two; [reflexivity|exact Ku|exact Hgo] ].
      * (* operator *)
        destruct (bp_op_stops (t_val t)); [apply Stop; exact Hgo|eapply One; exact Hgo].
      * (* punctuation *)
        cbv zeta in Hgo.
        repeat match type of Hgo with
               | (if ?b then _ else _) = _ => destruct b
               end; first [ apply Stop; exact Hgo | eapply One; exact Hgo ].
Qed.

Lemma bp_skip_std_spec : bp_expr_spec bp_skip_std.
Proof.
  intros toks i j H. unfold bp_skip_std in H.
  destruct (bp_std_go_ok toks _ _ _ _ _ _ _ eq_refl H) as [[_ Hk] Hlt]. split; [apply Hlt; reflexivity|exact Hk].
Qed.

Lemma bp_greedy_go_ok toks : forall l i, skipn i toks = l -> bp_run_ok toks i (bp_greedy_go l i).
Proof.
  induction l as [|t r IH]; intros i Hl; simpl; [apply bp_run_ok_refl|].
  apply bp_skipn_cons in Hl. destruct Hl as [Ht Hr].
  destruct (k_expr (t_kind t)) eqn:Ke; [|apply bp_run_ok_refl].
  eapply bp_run_ok_step; [exact Ht|exact Ke|apply IH; exact Hr].
Qed.

Lemma bp_skip_greedy_spec : bp_expr_spec bp_skip_greedy.
Proof.
  intros toks i j H. unfold bp_skip_greedy in H.
  destruct (i <? bp_greedy_go (skipn i toks) i) eqn:L; [|discriminate]. inversion H; subst.
  apply Nat.ltb_lt in L. split; [exact L|]. apply (bp_greedy_go_ok toks _ i eq_refl).
Qed.
