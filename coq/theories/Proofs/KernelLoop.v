(* The loop counters every loop of renderForLoop writes (Gen/KernelsLoop.v) are the record Model/Eval.v gives iteration i of n. *)
From Coq Require Import ZArith List Bool Lia.
From Twig Require Import Base.Bytes Base.Kernel Gen.KernelsLoop Model.Value Model.Eval Proofs.KernelTactics.
Import ListNotations.
Local Open Scope Z_scope.

(* ---- the loop counters: every loop of renderForLoop writes the record the model gives iteration i of n ---- *)

Definition kloop_spec (i n : Z) : kres :=
  KRet b#"loop" [KZ (i + 1); KZ i; KZ (n - i); KZ (n - i - 1); KB (i =? 0); KB (i =? n - 1)].

(* the record of Model/Eval.v built from the fields the code assigns (length is assigned once before the loop) *)
Definition kloop_record (r : kres) (n : Z) : option value :=
  match r with
  | KRet _ [KZ ix; KZ ix0; KZ rev; KZ rev0; KB fst; KB lst] =>
      Some (VMap MAny [ (VStr b#"index", VInt ix); (VStr b#"index0", VInt ix0);
                        (VStr b#"revindex", VInt rev); (VStr b#"revindex0", VInt rev0);
                        (VStr b#"first", VBool fst); (VStr b#"last", VBool lst);
                        (VStr b#"length", VInt n) ])
  | _ => None
  end.

Definition kloop_good (q : (Z -> Z -> kres) * (Z -> Z -> bool) * kstm * (Z -> Z -> kenv)) : Prop :=
  let '(f, sf, ir, env) := q in
  forall i n,
    f i n = kloop_spec i n /\
    kloop_record (f i n) n = Some (ev_loop_record i n) /\
    krun kid (env i n) ir = f i n /\
    ksafe (env i n) ir = sf i n /\
    (0 <= i < n -> n < 2^63 -> sf i n = true).

Lemma kloop_spec_record i n : kloop_record (kloop_spec i n) n = Some (ev_loop_record i n).
Proof. reflexivity. Qed.

Lemma k_loop_counters_all_good : k_loop_counters_list <> [] /\ Forall kloop_good k_loop_counters_list.
Proof.
  split; [discriminate|].
  unfold k_loop_counters_list.
  repeat (constructor; [ unfold kloop_good; intros i n; repeat (split; [reflexivity|]); intros Hi Hn;
                         match goal with |- ?sf i n = true => unfold sf, kall end;
                         cbv zeta; cbn [forallb]; ksafe_finish | ]).
  constructor.
Qed.

(* on the machine: iteration i of n, 0 <= i < n < 2^63 *)
Lemma kloop_good_machine q : kloop_good q ->
  let '(f, sf, ir, env) := q in forall i n, 0 <= i < n -> n < 2^63 -> krun w64 (env i n) ir = kloop_spec i n.
Proof.
  destruct q as [[[f sf] ir] env]. intros H i n Hi Hn. destruct (H i n) as (Hf & _ & Hr & Hs & Hok).
  rewrite ksafe_sound; [rewrite Hr; exact Hf|]. rewrite Hs. apply Hok; assumption.
Qed.
