From Twig Require Import Base.Bytes Model.Escape.

Local Arguments prefixb : simpl nomatch.

Definition raw_danger (c : byte) : bool :=    (* the four characters that never appear at all *)
  Byte.eqb c c_lt || Byte.eqb c c_gt || Byte.eqb c c_dq || Byte.eqb c c_sq.

Definition clean_ref (r : bytes) : Prop :=
  forallb (fun c => negb (raw_danger c)) r = true /\
  match r with a :: t => a = c_amp /\ forallb (fun c => negb (Byte.eqb c c_amp)) t = true | [] => False end.

Lemma clean_refs : Forall (fun rc => clean_ref (fst rc)) refs.
Proof. repeat constructor. Qed.

Lemma is_special_split c : is_special c = Byte.eqb c c_amp || raw_danger c.
Proof. unfold is_special, raw_danger. destruct (Byte.eqb c c_amp), (Byte.eqb c c_lt), (Byte.eqb c c_gt), (Byte.eqb c c_dq), (Byte.eqb c c_sq); reflexivity. Qed.

Lemma esc1_cases dq c :
  (is_special c = false /\ esc1 dq c = [c]) \/
  (is_special c = true /\ (esc1 dq c = r_amp \/ esc1 dq c = r_lt \/ esc1 dq c = r_gt \/ esc1 dq c = dq \/ esc1 dq c = r_sq)).
Proof.
  unfold esc1, is_special.
  destruct (Byte.eqb c c_amp); [right; split; [reflexivity|tauto]|].
  destruct (Byte.eqb c c_lt); [right; split; [reflexivity|tauto]|].
  destruct (Byte.eqb c c_gt); [right; split; [reflexivity|tauto]|].
  destruct (Byte.eqb c c_dq); [right; split; [reflexivity|tauto]|].
  destruct (Byte.eqb c c_sq); [right; split; [reflexivity|tauto]|].
  left. split; reflexivity.
Qed.

Lemma esc1_clean dq c : clean_ref dq -> is_special c = true -> clean_ref (esc1 dq c).
Proof.
  intros Hdq Hs. destruct (esc1_cases dq c) as [[H _]|[_ H]]; [congruence|].
  destruct H as [-> | [-> | [-> | [-> | ->]]]]; try exact Hdq; repeat constructor.
Qed.

Lemma escape_with_app dq a b : escape_with dq (a ++ b) = escape_with dq a ++ escape_with dq b.
Proof. unfold escape_with. apply flat_map_app. Qed.

Lemma escape_with_cons dq c s : escape_with dq (c :: s) = esc1 dq c ++ escape_with dq s.
Proof. reflexivity. Qed.

(* 1. none of the four characters lt gt dquote squote occurs in the output *)
Lemma no_raw_danger dq s : clean_ref dq -> forallb (fun c => negb (raw_danger c)) (escape_with dq s) = true.
Proof.
  intros Hdq. induction s as [|c s IH]; [reflexivity|].
  rewrite escape_with_cons, forallb_app, IH, andb_true_r.
  destruct (esc1_cases dq c) as [[Hn ->]|[Hs _]].
  - simpl. rewrite is_special_split in Hn. apply orb_false_iff in Hn. destruct Hn as [_ ->]. reflexivity.
  - apply (esc1_clean dq c Hdq Hs).
Qed.

(* 2. every & in the output is the first byte of one of the references *)
Lemma app_eq_mid {A} (a b pre post : list A) (x : A) :
  a ++ b = pre ++ x :: post ->
  (exists mid, a = pre ++ x :: mid /\ post = mid ++ b) \/ (exists pre', pre = a ++ pre' /\ b = pre' ++ x :: post).
Proof.
  revert pre; induction a as [|y a IH]; intros pre H; simpl in *.
  - right. exists pre. split; [reflexivity|exact H].
  - destruct pre as [|p pre]; simpl in *.
    + inversion H; subst. left. exists a. split; reflexivity.
    + inversion H; subst. destruct (IH pre H2) as [[mid [-> ->]]|[pre' [-> ->]]].
      * left. exists mid. split; reflexivity.
      * right. exists pre'. split; reflexivity.
Qed.

Lemma clean_ref_amp_first r pre post :
  clean_ref r -> r = pre ++ c_amp :: post -> pre = [].
Proof.
  intros [_ Hr] E. destruct r as [|a t]; [contradiction|]. destruct Hr as [-> Ht].
  destruct pre as [|p pre]; [reflexivity|]. simpl in E. inversion E; subst.
  rewrite forallb_app in Ht. apply andb_true_iff in Ht. destruct Ht as [_ Ht]. simpl in Ht.
  try rewrite byte_eqb_refl in Ht. discriminate.
Qed.

Lemma amp_starts_reference dq s pre post :
  clean_ref dq ->
  escape_with dq s = pre ++ c_amp :: post ->
  exists r, (In r (map fst refs) \/ r = dq) /\ prefixb r (c_amp :: post) = true.
Proof.
  intros Hdq. revert pre. induction s as [|c s IH]; intros pre H.
  - destruct pre; discriminate.
  - rewrite escape_with_cons in H. apply app_eq_mid in H.
    destruct H as [[mid [Hc ->]]|[pre' [-> H]]]; [|exact (IH _ H)].
    destruct (esc1_cases dq c) as [[Hn E]|[Hs E]].
    + rewrite E in Hc. destruct pre as [|p [|q pre]]; simpl in Hc; inversion Hc; subst.
      rewrite is_special_split, byte_eqb_refl in Hn. discriminate.
    + pose proof (esc1_clean dq c Hdq Hs) as Hcl.
      pose proof (clean_ref_amp_first _ _ _ Hcl Hc) as ->. simpl in Hc.
      exists (esc1 dq c). split.
      * destruct E as [-> | [-> | [-> | [-> | ->]]]]; simpl; tauto.
      * rewrite Hc. apply prefixb_spec. exists (escape_with dq s). reflexivity.
Qed.

(* 3. decoding the references gives back the input *)
Lemma match_ref_nonamp c rest : Byte.eqb c c_amp = false -> match_ref refs (c :: rest) = None.
Proof.
  intros H. assert (Byte.eqb c_amp c = false) as H'.
  { apply byte_eqb_neq. intro E. subst. rewrite byte_eqb_refl in H. discriminate. }
  unfold refs, match_ref, r_amp, r_lt, r_gt, r_dq, r_sq, r_quot, prefixb. fold c_amp. rewrite H'. reflexivity.
Qed.

Ltac ustep :=
  match goal with
  | |- unescape_fuel (S ?f) (?r ++ ?X) = ?c :: _ =>
      change (unescape_fuel (S f) (r ++ X)) with (c :: unescape_fuel f X)
  end.

Lemma unescape_fuel_escape dq s :
  dq = r_dq \/ dq = r_quot ->
  forall fuel, length (escape_with dq s) <= fuel -> unescape_fuel fuel (escape_with dq s) = s.
Proof.
  intros Hdq. induction s as [|c s IH]; intros fuel Hf.
  - destruct fuel; reflexivity.
  - rewrite escape_with_cons in *. rewrite app_length in Hf.
    unfold esc1 in *.
    destruct (Byte.eqb c c_amp) eqn:E1; [apply byte_eqb_eq in E1; subst c|].
    { destruct fuel as [|fuel]; [simpl in Hf; lia|]. simpl in Hf. ustep. f_equal. apply IH. lia. }
    destruct (Byte.eqb c c_lt) eqn:E2; [apply byte_eqb_eq in E2; subst c|].
    { destruct fuel as [|fuel]; [simpl in Hf; lia|]. simpl in Hf. ustep. f_equal. apply IH. lia. }
    destruct (Byte.eqb c c_gt) eqn:E3; [apply byte_eqb_eq in E3; subst c|].
    { destruct fuel as [|fuel]; [simpl in Hf; lia|]. simpl in Hf. ustep. f_equal. apply IH. lia. }
    destruct (Byte.eqb c c_dq) eqn:E4; [apply byte_eqb_eq in E4; subst c|].
    { destruct Hdq as [-> | ->].
      - destruct fuel as [|fuel]; [simpl in Hf; lia|]. simpl in Hf. ustep. f_equal. apply IH. lia.
      - destruct fuel as [|fuel]; [simpl in Hf; lia|]. simpl in Hf. ustep. f_equal. apply IH. lia. }
    destruct (Byte.eqb c c_sq) eqn:E5; [apply byte_eqb_eq in E5; subst c|].
    { destruct fuel as [|fuel]; [simpl in Hf; lia|]. simpl in Hf. ustep. f_equal. apply IH. lia. }
    destruct fuel as [|fuel]; [simpl in Hf; lia|].
    simpl app. cbn [unescape_fuel]. rewrite (match_ref_nonamp c _ E1). f_equal. apply IH. simpl in Hf. lia.
Qed.

Lemma unescape_escape dq s : dq = r_dq \/ dq = r_quot -> unescape (escape_with dq s) = s.
Proof. intros H. unfold unescape. apply unescape_fuel_escape; [exact H|lia]. Qed.

(* 4. bytes other than the five pass through unchanged, in place *)
Lemma esc1_other dq c : is_special c = false -> esc1 dq c = [c].
Proof. intros H. destruct (esc1_cases dq c) as [[_ E]|[E _]]; [exact E|congruence]. Qed.

Lemma escape_nonspecial_id dq s : forallb (fun c => negb (is_special c)) s = true -> escape_with dq s = s.
Proof.
  induction s as [|c s IH]; intro H; [reflexivity|]. simpl in H.
  apply andb_true_iff in H. destruct H as [Hc Hs]. apply negb_true_iff in Hc.
  rewrite escape_with_cons, (esc1_other dq c Hc), (IH Hs). reflexivity.
Qed.

Lemma clean_r_dq : clean_ref r_dq.  Proof. repeat constructor. Qed.
Lemma clean_r_quot : clean_ref r_quot.  Proof. repeat constructor. Qed.

(* ---- the statements of Properties/C07.v ---- *)
Lemma danger_split c : raw_danger c = false -> c <> c_lt /\ c <> c_gt /\ c <> c_dq /\ c <> c_sq.
Proof.
  unfold raw_danger. intro H. repeat (apply orb_false_iff in H; destruct H as [H ?]).
  repeat split; apply byte_eqb_neq; assumption.
Qed.

Lemma no_raw_In dq s c : clean_ref dq -> In c (escape_with dq s) -> c <> c_lt /\ c <> c_gt /\ c <> c_dq /\ c <> c_sq.
Proof.
  intros Hdq Hin. pose proof (no_raw_danger dq s Hdq) as H. rewrite forallb_forall in H.
  specialize (H c Hin). apply negb_true_iff in H. apply danger_split; exact H.
Qed.

Lemma C07_no_raw_special_proof : forall (s : bytes) (c : byte),
  In c (escape s) -> c <> c_lt /\ c <> c_gt /\ c <> c_dq /\ c <> c_sq.
Proof. intros s c. apply no_raw_In. exact clean_r_dq. Qed.

Lemma C07_amp_only_in_reference_proof : forall (s pre post : bytes),
  escape s = pre ++ c_amp :: post ->
  exists r, In r (map fst refs) /\ prefixb r (c_amp :: post) = true.
Proof.
  intros s pre post H. destruct (amp_starts_reference r_dq s pre post clean_r_dq H) as [r [[Hin| ->] Hp]].
  - exists r. split; assumption.
  - exists r_dq. split; [simpl; tauto|exact Hp].
Qed.

Lemma C07_roundtrip_proof : forall s : bytes, unescape (escape s) = s.
Proof. intro s. apply unescape_escape. left. reflexivity. Qed.

Lemma other_unchanged dq a b c : is_special c = false ->
  escape_with dq (a ++ c :: b) = escape_with dq a ++ c :: escape_with dq b.
Proof. intro H. rewrite escape_with_app, escape_with_cons, (esc1_other dq c H). reflexivity. Qed.

Lemma C07_other_bytes_unchanged_proof : forall (a b : bytes) (c : byte),
  is_special c = false -> escape (a ++ c :: b) = escape a ++ c :: escape b.
Proof. intros. apply other_unchanged; assumption. Qed.

Lemma C07_fallback_proof : forall s : bytes,
  (forall c, In c (escape_fallback s) -> c <> c_lt /\ c <> c_gt /\ c <> c_dq /\ c <> c_sq) /\
  unescape (escape_fallback s) = s /\
  (forall a b c, is_special c = false -> escape_fallback (a ++ c :: b) = escape_fallback a ++ c :: escape_fallback b).
Proof.
  intro s. split; [|split].
  - intro c. apply no_raw_In. exact clean_r_quot.
  - apply unescape_escape. right. reflexivity.
  - intros. apply other_unchanged; assumption.
Qed.

(* escape applied to its own output any number of times: every layer is undone by one decoding, and no layer
   leaves a raw special byte *)
Lemma iter_shift {A : Type} (f : A -> A) (n : nat) (x : A) : Nat.iter n f (f x) = f (Nat.iter n f x).
Proof. induction n as [|n IH]; [reflexivity|]. cbn [Nat.iter nat_rect]. f_equal. exact IH. Qed.

Lemma C07_iterated_proof : forall (n : nat) (s : bytes),
  Nat.iter n unescape (Nat.iter n escape s) = s /\
  (forall c, In c (Nat.iter (S n) escape s) -> c <> c_lt /\ c <> c_gt /\ c <> c_dq /\ c <> c_sq).
Proof.
  intros n s. split.
  - revert s. induction n as [|n IH]; intro s; [reflexivity|].
    change (unescape (Nat.iter n unescape (escape (Nat.iter n escape s))) = s).
    rewrite <- (iter_shift unescape). rewrite C07_roundtrip_proof. apply IH.
  - intro c. change (Nat.iter (S n) escape s) with (escape (Nat.iter n escape s)). apply C07_no_raw_special_proof.
Qed.
