(* Proofs of property C06 (sandbox confinement), part 1: confinement.
   The invariant: in a sandboxed context the trace holds allowed filter and function invocations only, and the
   context handed on is sandboxed again (sb_conf). Every helper of Model/Eval.v gets one lemma of the form: if the
   evaluator and the renderers it is handed keep the invariant ON SANDBOXED CONTEXTS (nothing is assumed of them
   elsewhere), so does the helper; the theorem is the induction on fuel over render and render_root together.
   Because nothing is assumed of the renderers on a context that is not sandboxed, these lemmas also say that no
   helper hands such a context to a renderer; the second half of the file makes that explicit (the guarded
   renderers of Spec/SandboxSpec.v). *)
From Twig Require Import Base.Bytes Base.Utf8 Model.Ast Model.Value Model.ValueOps Model.EvalBuiltins Model.Ctx
                         Model.TemplateSet Model.Eval Spec.SandboxSpec Proofs.EvalProofs.

(* ================================================================ traces *)
Lemma tr_confined_nil p : tr_confined p [].
Proof. constructor. Qed.

Lemma tr_confined_app p t1 t2 : tr_confined p t1 -> tr_confined p t2 -> tr_confined p (t1 ++ t2).
Proof. intros H1 H2. apply Forall_app. split; assumption. Qed.

Lemma tr_confined_app_inv p t1 t2 : tr_confined p (t1 ++ t2) -> tr_confined p t1 /\ tr_confined p t2.
Proof. intro H. apply Forall_app in H. exact H. Qed.

Lemma tr_confined_one p ev : sb_event_ok p ev = true -> tr_confined p [ev].
Proof. intro H. constructor; [exact H|constructor]. Qed.

Lemma tr_confinedb_spec p t : tr_confinedb p t = true <-> tr_confined p t.
Proof. unfold tr_confinedb, tr_confined. rewrite forallb_forall, Forall_forall. reflexivity. Qed.

Lemma tr_confined_In p t ev : tr_confined p t -> In ev t -> sb_event_ok p ev = true.
Proof. intros H Hin. unfold tr_confined in H. rewrite Forall_forall in H. apply H. exact Hin. Qed.

(* ================================================================ the flag is copied by every context operation *)
Lemma sb_set_var c x v : rc_sandboxed (rc_set_var c x v) = rc_sandboxed c.
Proof. reflexivity. Qed.
Lemma sb_with_macros c ms : rc_sandboxed (rc_with_macros c ms) = rc_sandboxed c.
Proof. reflexivity. Qed.
Lemma sb_with_blocks c bs ch : rc_sandboxed (rc_with_blocks c bs ch) = rc_sandboxed c.
Proof. reflexivity. Qed.
Lemma sb_with_extending c b : rc_sandboxed (rc_with_extending c b) = rc_sandboxed c.
Proof. reflexivity. Qed.
Lemma sb_with_current c b ds d t : rc_sandboxed (rc_with_current c b ds d t) = rc_sandboxed c.
Proof. reflexivity. Qed.
Lemma sb_with_depth c d t : rc_sandboxed (rc_with_depth c d t) = rc_sandboxed c.
Proof. reflexivity. Qed.
Lemma sb_clone c : rc_sandboxed (rc_clone c) = rc_sandboxed c.
Proof. reflexivity. Qed.
Lemma sb_derive c p s l : rc_sandboxed (rc_derive c p s l) = s.
Proof. reflexivity. Qed.
Lemma sb_iter_ctx c k v n i it : rc_sandboxed (ev_iter_ctx c k v n i it) = rc_sandboxed c.
Proof. unfold ev_iter_ctx. destruct k; reflexivity. Qed.

(* ================================================================ the policy of an environment *)
Lemma ev_filter_allowed_pol env pol f : e_policy env = Some pol -> ev_filter_allowed env f = sb_filter_ok pol f.
Proof. intro H. unfold ev_filter_allowed, sb_filter_ok. rewrite H. destruct pol. reflexivity. Qed.
Lemma ev_function_allowed_pol env pol f : e_policy env = Some pol -> ev_function_allowed env f = sb_function_ok pol f.
Proof. intro H. unfold ev_function_allowed, sb_function_ok. rewrite H. destruct pol. reflexivity. Qed.

(* ================================================================ the three places that invoke something *)
Section Confined.
  Variable env : ev_env.
  Variable pol : sb_policy.
  Hypothesis Hpol : e_policy env = Some pol.

  (* ApplyFilter in a sandboxed context: a refusal, or the invocation of an allowed filter *)
  Lemma ev_apply_filter_confined c f v args :
    rc_sandboxed c = true -> sb_econf pol (ev_apply_filter env c f v args).
  Proof.
    intro Hs. unfold sb_econf, ev_apply_filter. rewrite Hs, (ev_filter_allowed_pol env pol f Hpol). cbn [andb].
    destruct (sb_filter_ok pol f) eqn:Ea; cbn [negb snd]; [|apply tr_confined_nil].
    destruct (assoc_bytes (e_filters env) f); cbn [snd]; [apply tr_confined_one; exact Ea|].
    destruct (ev_registered _ f); cbn [snd]; [apply tr_confined_one; exact Ea|].
    destruct (_ || _); cbn [snd]; apply tr_confined_nil.
  Qed.

  Lemma ev_call_function_confined c f args :
    rc_sandboxed c = true -> sb_econf pol (ev_call_function env c f args).
  Proof.
    intro Hs. unfold sb_econf, ev_call_function. rewrite Hs, (ev_function_allowed_pol env pol f Hpol). cbn [andb].
    destruct (sb_function_ok pol f) eqn:Ea; cbn [negb snd]; [|apply tr_confined_nil].
    destruct (assoc_bytes (e_functions env) f); cbn [snd]; [apply tr_confined_one; exact Ea|].
    destruct (ev_registered _ f); cbn [snd]; [apply tr_confined_one; exact Ea|].
    destruct (bytes_eqb f _); cbn [snd]; [apply tr_confined_one; exact Ea|].
    destruct (rc_get_macro c f) as [[tpl nm]|]; cbn [snd]; apply tr_confined_nil.
  Qed.

  (* module.name(...) that is not an imported macro: a macro of that name, else CallFunction *)
  Lemma ev_self_call_confined c f args :
    rc_sandboxed c = true -> sb_econf pol (ev_self_call env c f args).
  Proof.
    intro Hs. unfold ev_self_call. destruct (rc_get_macro c f) as [[tpl nm]|]; [apply tr_confined_nil|].
    apply ev_call_function_confined. exact Hs.
  Qed.

  (* tests are not restricted by the policy *)
  Lemma ev_call_test_confined t v args : sb_econf pol (ev_call_test env t v args).
  Proof.
    unfold sb_econf, ev_call_test.
    destruct (assoc_bytes (e_tests env) t); cbn [snd]; [apply tr_confined_one; reflexivity|].
    destruct (ev_registered _ t); cbn [snd]; [apply tr_confined_one; reflexivity|apply tr_confined_nil].
  Qed.

  (* ---------------------------------------------------------------- sequencing *)
  Lemma sb_bind {A B} (r : outcome A * ev_trace) (k : A -> outcome B * ev_trace) :
    sb_econf pol r -> (forall a, sb_econf pol (k a)) -> sb_econf pol (ev_bind r k).
  Proof.
    unfold sb_econf. intros Hr Hk. destruct r as [o t]. cbn [snd] in Hr.
    destruct o as [a| | |]; cbn [ev_bind snd]; try exact Hr.
    specialize (Hk a). destruct (k a) as [r2 t2]. cbn [snd] in *. apply tr_confined_app; assumption.
  Qed.
  Lemma sb_ret {A} (a : A) : sb_econf pol (ev_ret a).
  Proof. apply tr_confined_nil. Qed.
  Lemma sb_lift {A} (o : outcome A) : sb_econf pol (ev_lift o).
  Proof. apply tr_confined_nil. Qed.
  Lemma sb_opt {A} (o : option A) : sb_econf pol (ev_opt o).
  Proof. destruct o; apply tr_confined_nil. Qed.

  (* ---------------------------------------------------------------- expressions *)
  Section Expr.
    Variable ev : expr -> ev_res.
    Hypothesis Hev : forall e, sb_econf pol (ev e).

    Lemma ev_list_confined es : sb_econf pol (ev_list ev es).
    Proof.
      induction es as [|e r IH]; cbn [ev_list]; [apply sb_ret|].
      apply sb_bind; [apply Hev|]. intro v. apply sb_bind; [exact IH|]. intro vs. apply sb_ret.
    Qed.

    Lemma ev_pairs_confined kvs : forall acc, sb_econf pol (ev_pairs ev kvs acc).
    Proof.
      induction kvs as [|[k x] r IH]; intro acc; cbn [ev_pairs]; [apply sb_ret|].
      apply sb_bind; [apply Hev|]. intro kv. destruct (vo_to_str kv); [|apply sb_lift].
      apply sb_bind; [apply Hev|]. intro xv. apply IH.
    Qed.

    Lemma ev_chain_args_confined ch : sb_econf pol (ev_chain_args ev ch).
    Proof.
      induction ch as [|[f args] r IH]; cbn [ev_chain_args]; [apply sb_ret|].
      apply sb_bind; [apply ev_list_confined|]. intro vs. apply sb_bind; [exact IH|]. intro rest. apply sb_ret.
    Qed.

    Lemma ev_apply_chain_confined c : rc_sandboxed c = true ->
      forall ch v, sb_econf pol (ev_apply_chain env c v ch).
    Proof.
      intro Hs. induction ch as [|[f vs] r IH]; intro v; cbn [ev_apply_chain]; [apply sb_ret|].
      apply sb_bind; [apply ev_apply_filter_confined; exact Hs|]. intro w. apply IH.
    Qed.

    Lemma ev_filter_chain_confined c e nil_to_empty : rc_sandboxed c = true ->
      sb_econf pol (ev_filter_chain ev env c e nil_to_empty).
    Proof.
      intro Hs. unfold ev_filter_chain. destruct (ev_unchain e) as [base ch].
      apply sb_bind; [apply ev_chain_args_confined|]. intro args.
      apply sb_bind; [apply Hev|]. intro v.
      apply sb_bind; [apply ev_apply_chain_confined; exact Hs|]. intro w. apply sb_ret.
    Qed.

    Lemma ev_defined_var_confined c x : sb_econf pol (ev_defined_var c x).
    Proof.
      unfold ev_defined_var. destruct (rc_own_var c x); [apply sb_ret|].
      destruct (rc_hack_name x); [apply sb_lift|apply sb_ret].
    Qed.

    Lemma ev_defined_attr_confined o a : sb_econf pol (ev_defined_attr ev o a).
    Proof.
      unfold ev_defined_attr. pose proof (Hev o) as H. unfold sb_econf in *. destruct (ev o) as [r t]. cbn [snd] in H.
      destruct r as [obj| | |]; cbn [snd]; try exact H.
      destruct obj; try exact H. destruct tag; exact H.
    Qed.

    (* one level of EvaluateExpression *)
    Lemma ev_expr_confined c e : rc_sandboxed c = true -> sb_econf pol (ev_expr ev env c e).
    Proof.
      intro Hs. unfold ev_expr. destruct (ev_sandbox_denies env c e); [apply tr_confined_nil|].
      destruct e as [l|x|o a|o i|u a|b l r|q a b|es|kvs|o f args|f args|m f args|a t args neg].
      - apply sb_lift.
      - destruct (ev_var_macro c x) as [[tpl nm]|]; [apply sb_ret|].
        destruct (rc_hack_name x); [apply sb_lift|apply sb_ret].
      - apply sb_bind; [apply Hev|]. intro obj. apply sb_lift.
      - apply sb_bind; [apply Hev|]. intro ov. apply sb_bind; [apply Hev|]. intro iv. apply sb_lift.
      - apply sb_bind; [apply Hev|]. intro v. apply sb_lift.
      - apply sb_bind; [apply Hev|]. intro lv.
        destruct b; try (apply sb_bind; [apply Hev|]; intro rv; apply sb_lift).
        + destruct (vo_to_bool lv); [apply sb_ret|]. apply sb_bind; [apply Hev|]. intro rv. apply sb_lift.
        + destruct (vo_to_bool lv); [|apply sb_ret]. apply sb_bind; [apply Hev|]. intro rv. apply sb_lift.
      - apply sb_bind; [apply Hev|]. intro qv. destruct (vo_to_bool qv); apply Hev.
      - apply sb_bind; [apply ev_list_confined|]. intro vs. apply sb_ret.
      - apply ev_pairs_confined.
      - apply ev_filter_chain_confined. exact Hs.
      - destruct (rc_get_macro c f) as [[tpl nm]|].
        + apply sb_bind; [apply ev_list_confined|]. intro vs. apply sb_ret.
        + apply sb_bind; [apply ev_list_confined|]. intro vs.
          apply sb_bind; [apply ev_call_function_confined; exact Hs|]. intro r. apply sb_ret.
      - apply sb_bind; [apply Hev|]. intro mo. apply sb_bind; [apply ev_list_confined|]. intro vs.
        destruct mo; try (apply ev_self_call_confined; exact Hs).
        destruct tag; try (apply ev_self_call_confined; exact Hs).
        destruct (vo_map_find kvs (VStr f)) as [[]|]; try (apply ev_self_call_confined; exact Hs). apply sb_ret.
      - assert (Hstd : sb_econf pol (ev_bind (ev a) (fun v => ev_bind (ev_list ev args) (fun vs => ev_call_test env t v vs)))).
        { apply sb_bind; [apply Hev|]. intro v. apply sb_bind; [apply ev_list_confined|]. intro vs. apply ev_call_test_confined. }
        assert (Hr : sb_econf pol (if bytes_eqb t b#"defined"
                                   then match a with
                                        | EAttr o attr => ev_defined_attr ev o attr
                                        | EVar x => ev_defined_var c x
                                        | _ => ev_bind (ev a) (fun v => ev_bind (ev_list ev args) (fun vs => ev_call_test env t v vs))
                                        end
                                   else ev_bind (ev a) (fun v => ev_bind (ev_list ev args) (fun vs => ev_call_test env t v vs)))).
        { destruct (bytes_eqb t b#"defined"); [|exact Hstd].
          destruct a; try exact Hstd; [apply ev_defined_var_confined|apply ev_defined_attr_confined]. }
        destruct neg; [|exact Hr]. apply sb_bind; [exact Hr|]. intro v. apply sb_ret.
    Qed.
  End Expr.

  (* EvaluateExpression, any depth *)
  Lemma eval_confined : forall fuel c e, rc_sandboxed c = true -> sb_econf pol (eval fuel env c e).
  Proof.
    induction fuel as [|fu IH]; intros c e Hs; cbn [eval]; [apply tr_confined_nil|].
    apply ev_expr_confined; [|exact Hs]. intro e'. apply IH. exact Hs.
  Qed.

  (* ================================================================ rendering *)
  Lemma sb_conf_ret o c : rc_sandboxed c = true -> sb_conf pol (ev_rret o c).
  Proof. intro Hs. split; [apply tr_confined_nil|exact Hs]. Qed.
  Lemma sb_conf_fail o c : rc_sandboxed c = true -> sb_conf pol (ev_rfail o c).
  Proof. intro Hs. split; [apply tr_confined_nil|exact Hs]. Qed.

  Lemma sb_conf_rexpr {A} (r : outcome A * ev_trace) c (k : A -> ev_rres) :
    sb_econf pol r -> rc_sandboxed c = true -> (forall a, sb_conf pol (k a)) -> sb_conf pol (ev_rexpr r c k).
  Proof.
    unfold sb_econf. intros Hr Hs Hk. destruct r as [o t]. cbn [snd] in Hr.
    destruct o as [a| | |]; cbn [ev_rexpr]; try (split; [exact Hr|exact Hs]).
    specialize (Hk a). destruct (k a) as [[r2 c2] t2]. destruct Hk as [Ht Hc]. cbn in Ht, Hc.
    split; cbn; [apply tr_confined_app; assumption|exact Hc].
  Qed.

  Lemma sb_conf_rseq (r : ev_rres) (k : rctx -> ev_rres) :
    sb_conf pol r -> (forall c, rc_sandboxed c = true -> sb_conf pol (k c)) -> sb_conf pol (ev_rseq r k).
  Proof.
    intros Hr Hk. destruct r as [[o c] t]. destruct Hr as [Ht Hc]. cbn in Ht, Hc.
    destruct o as [o1| | |]; cbn [ev_rseq]; try (split; [exact Ht|exact Hc]).
    specialize (Hk c Hc). destruct (k c) as [[o2 c2] t2]. destruct Hk as [Ht2 Hc2]. cbn in Ht2, Hc2.
    destruct o2; split; cbn; try (apply tr_confined_app; assumption); exact Hc2.
  Qed.

  (* what the renderers and the evaluator a helper is handed are assumed to do: only on sandboxed contexts *)
  Definition sb_rend_ok (rend : rctx -> list node -> ev_rres) : Prop :=
    forall c ns, rc_sandboxed c = true -> sb_conf pol (rend c ns).
  Definition sb_ev_ok (ev : rctx -> expr -> ev_res) : Prop :=
    forall c e, rc_sandboxed c = true -> sb_econf pol (ev c e).

  Section Helpers.
    Variable ev : rctx -> expr -> ev_res.
    Variables rend root : rctx -> list node -> ev_rres.
    Hypothesis Hev : sb_ev_ok ev.
    Hypothesis Hrend : sb_rend_ok rend.
    Hypothesis Hroot : sb_rend_ok root.

    Lemma ev_if_confined c bs els : rc_sandboxed c = true -> sb_conf pol (ev_if ev rend c bs els).
    Proof.
      intro Hs. induction bs as [|[cond body] rest IH]; cbn [ev_if].
      - destruct els; [apply Hrend; exact Hs|apply sb_conf_ret; exact Hs].
      - apply sb_conf_rexpr; [apply Hev; exact Hs|exact Hs|]. intro v.
        destruct (vo_to_bool v); [apply Hrend; exact Hs|exact IH].
    Qed.

    Lemma ev_loop_items_confined (body : rctx -> ev_rres) k v n :
      (forall c, rc_sandboxed c = true -> sb_conf pol (body c)) ->
      forall items i c, rc_sandboxed c = true -> sb_conf pol (ev_loop_items body k v n i items c).
    Proof.
      intro Hb. induction items as [|it rest IH]; intros i c Hs; cbn [ev_loop_items]; [apply sb_conf_ret; exact Hs|].
      apply sb_conf_rseq; [apply Hb; rewrite sb_iter_ctx; exact Hs|]. intros c1 H1. apply IH. exact H1.
    Qed.

    Lemma ev_for_loop_confined c k v seq body els :
      rc_sandboxed c = true -> sb_conf pol (ev_for_loop rend c k v seq body els).
    Proof.
      intro Hs. unfold ev_for_loop.
      assert (Helse : sb_conf pol (match els with Some b => rend c b | None => ev_rret [] c end)).
      { destruct els; [apply Hrend; exact Hs|apply sb_conf_ret; exact Hs]. }
      destruct (ev_loop_items_of seq) as [[|it items]|]; try exact Helse.
      pose proof (ev_loop_items_confined (fun c0 => rend c0 body) k v (Z.of_nat (length (it :: items)))
                    (fun c0 H0 => Hrend c0 body H0) (it :: items) 0%Z c Hs) as HL.
      destruct (ev_loop_items _ k v _ 0%Z (it :: items) c) as [[r c'] t]. destruct HL as [Ht Hc]. cbn in Ht, Hc.
      split; cbn; [exact Ht|]. destruct (rc_own_var c _); exact Hc.
    Qed.

    Lemma ev_for_seq_confined c seq : rc_sandboxed c = true -> sb_econf pol (ev_for_seq ev env c seq).
    Proof.
      intro Hs. unfold ev_for_seq.
      destruct seq; try (apply Hev; exact Hs).
      - destruct (existsb _ x); [apply sb_lift|apply Hev; exact Hs].
      - apply ev_filter_chain_confined; [|exact Hs]. intro e'. apply Hev. exact Hs.
    Qed.

    Lemma ev_for_confined c k v seq body els : rc_sandboxed c = true -> sb_conf pol (ev_for ev rend env c k v seq body els).
    Proof.
      intro Hs. unfold ev_for. apply sb_conf_rexpr; [apply ev_for_seq_confined; exact Hs|exact Hs|].
      intro sv. apply ev_for_loop_confined. exact Hs.
    Qed.

    Lemma ev_set_confined c x e : rc_sandboxed c = true -> sb_conf pol (ev_set ev c x e).
    Proof.
      intro Hs. unfold ev_set. apply sb_conf_rexpr; [apply Hev; exact Hs|exact Hs|]. intro v.
      destruct (ev_set_guard c v); [apply sb_conf_fail; exact Hs|apply sb_conf_ret; rewrite sb_set_var; exact Hs].
    Qed.

    (* the parameters of a macro: the defaults are evaluated by the CALLER's evaluator; the context being filled
       keeps its flag *)
    Lemma ev_bind_params_confined (evc : expr -> ev_res) : (forall e, sb_econf pol (evc e)) ->
      forall params args mc, rc_sandboxed mc = true ->
        sb_econf pol (ev_bind_params evc params args mc) /\
        (forall mc' t, ev_bind_params evc params args mc = (Ok mc', t) -> rc_sandboxed mc' = true).
    Proof.
      intro Hc. induction params as [|[p d] rest IH]; intros args mc Hs; cbn [ev_bind_params].
      - split; [apply sb_ret|]. intros mc' t H. inversion H; subst. exact Hs.
      - destruct args as [|a args'].
        + destruct d as [de|].
          * split.
            -- apply sb_bind; [apply Hc|]. intro v. apply IH. rewrite sb_set_var. exact Hs.
            -- intros mc' t H. pose proof (Hc de) as Hd. destruct (evc de) as [o td].
               destruct o as [v| | |]; cbn [ev_bind] in H; try discriminate.
               destruct (ev_bind_params evc rest [] (rc_set_var mc p v)) as [o2 t2] eqn:E2.
               inversion H; subst. eapply (proj2 (IH [] (rc_set_var mc p v) ltac:(rewrite sb_set_var; exact Hs))). exact E2.
          * apply IH. rewrite sb_set_var. exact Hs.
        + apply IH. rewrite sb_set_var. exact Hs.
    Qed.

    (* CallMacro: the fresh context of the macro inherits the flag before anything is evaluated or rendered in it *)
    Lemma ev_call_macro_confined c tpl name args :
      rc_sandboxed c = true -> sb_econf pol (ev_call_macro ev rend env c tpl name args).
    Proof.
      intro Hs. unfold ev_call_macro. destruct (ts_find_macro env tpl name) as [[params body]|]; [|apply tr_confined_nil].
      destruct (_ || _); [apply tr_confined_nil|].
      set (mc0 := rc_with_macros (rc_derive (rc_fresh [] tpl) (Some c) (rc_sandboxed c) (rc_last_loaded c)) (ts_sibling_macros env tpl)).
      assert (H0 : rc_sandboxed mc0 = true) by (unfold mc0; rewrite sb_with_macros, sb_derive; exact Hs).
      destruct (ev_bind_params_confined (ev c) (fun e => Hev c e Hs) params args mc0 H0) as [Hb Hmc].
      unfold sb_econf in *. destruct (ev_bind_params (ev c) params args mc0) as [o t] eqn:E. cbn [snd] in Hb.
      destruct o as [mc| | |]; cbn [ev_bind snd]; try exact Hb.
      pose proof (Hrend mc body (Hmc mc t eq_refl)) as [Hr _].
      destruct (rend mc body) as [[r c2] t2]. cbn in Hr. cbn [snd]. apply tr_confined_app; assumption.
    Qed.

    (* parent(): the next definition up the chain, in the same context *)
    Lemma ev_parent_call_confined c : rc_sandboxed c = true -> sb_conf pol (ev_parent_call rend c).
    Proof.
      intro Hs. unfold ev_parent_call. destruct (rc_cur_block c); [|apply sb_conf_fail; exact Hs].
      destruct (nth_error (rc_cur_defs c) (S (rc_depth c))) as [d|]; [|apply sb_conf_fail; exact Hs].
      pose proof (Hrend (rc_with_depth c (S (rc_depth c)) (bd_tpl d)) (bd_body d) ltac:(rewrite sb_with_depth; exact Hs)) as [Ht Hc].
      destruct (rend _ (bd_body d)) as [[r c'] t]. cbn in Ht, Hc. split; [exact Ht|exact Hc].
    Qed.

    Lemma ev_print_confined c e : rc_sandboxed c = true -> sb_conf pol (ev_print ev rend env c e).
    Proof.
      intro Hs. unfold ev_print. apply sb_conf_rexpr; [apply Hev; exact Hs|exact Hs|]. intro v.
      destruct (vo_view v); try (destruct (vo_to_str v); [apply sb_conf_ret|apply sb_conf_fail]; exact Hs).
      - pose proof (ev_call_macro_confined c tpl name args Hs) as H. unfold sb_econf in H.
        destruct (ev_call_macro ev rend env c tpl name args) as [r t]. split; [exact H|exact Hs].
      - apply ev_parent_call_confined. exact Hs.
    Qed.

    Lemma ev_block_confined c name body : rc_sandboxed c = true -> sb_conf pol (ev_block rend c name body).
    Proof.
      intro Hs. unfold ev_block. destruct (if existsb _ _ then _ else _) as [|d ds]; [apply sb_conf_fail; exact Hs|].
      match goal with |- context [rend ?c1 ?b] =>
        pose proof (Hrend c1 b ltac:(rewrite sb_with_current; exact Hs)) as [Ht Hc]; destruct (rend c1 b) as [[r c'] t] end.
      cbn in Ht, Hc. split; [exact Ht|exact Hc].
    Qed.

    Lemma ev_load_confined c e : rc_sandboxed c = true -> sb_econf pol (ev_load ev env c e).
    Proof.
      intro Hs. unfold ev_load. apply sb_bind; [apply Hev; exact Hs|]. intro v.
      destruct (vo_to_str v); [|apply sb_lift]. destruct (ev_relative _); [apply sb_lift|].
      apply tr_confined_one. reflexivity.
    Qed.

    (* extends: the context of the parent template inherits the flag *)
    Lemma ev_extends_confined c e : rc_sandboxed c = true -> sb_conf pol (ev_extends ev root env c e).
    Proof.
      intro Hs. unfold ev_extends.
      apply sb_conf_rexpr; [apply ev_load_confined; rewrite sb_with_extending; exact Hs|rewrite sb_with_extending; exact Hs|].
      intros [name [pnodes|]]; cbn [fst snd]; [|apply sb_conf_fail; rewrite sb_with_extending; exact Hs].
      match goal with |- context [root ?pc pnodes] =>
        pose proof (Hroot pc pnodes ltac:(cbn; exact Hs)) as [Ht _]; destruct (root pc pnodes) as [[r c'] t] end.
      cbn in Ht. split; cbn; [exact Ht|exact Hs].
    Qed.

    Lemma ev_root_confined c ns : rc_sandboxed c = true -> sb_conf pol (ev_root ev rend root env c ns).
    Proof.
      intro Hs. unfold ev_root. destruct (negb (ts_wf ns)); [apply sb_conf_fail; exact Hs|].
      destruct (ev_first_pass ns (rc_extending c) (rc_blocks c) None) as [blocks [e|]].
      - apply ev_extends_confined. rewrite sb_with_blocks. exact Hs.
      - apply Hrend. rewrite sb_with_blocks. exact Hs.
    Qed.

    Lemma ev_with_vars_confined (evc : expr -> ev_res) : (forall e, sb_econf pol (evc e)) ->
      forall kvs ic, rc_sandboxed ic = true ->
        sb_econf pol (ev_with_vars evc kvs ic) /\
        (forall ic' t, ev_with_vars evc kvs ic = (Ok ic', t) -> rc_sandboxed ic' = true).
    Proof.
      intro Hc. induction kvs as [|[k x] r IH]; intros ic Hs; cbn [ev_with_vars].
      - split; [apply sb_ret|]. intros ic' t H. inversion H; subst. exact Hs.
      - split.
        + apply sb_bind; [apply Hc|]. intro v. destruct (vo_has_callable v); [apply sb_lift|].
          apply IH. rewrite sb_set_var. exact Hs.
        + intros ic' t H. destruct (evc x) as [o tx]. destruct o as [v| | |]; cbn [ev_bind] in H; try discriminate.
          destruct (vo_has_callable v); [discriminate|].
          destruct (ev_with_vars evc r (rc_set_var ic k v)) as [o2 t2] eqn:E2. inversion H; subst.
          eapply (proj2 (IH (rc_set_var ic k v) ltac:(rewrite sb_set_var; exact Hs))). exact E2.
    Qed.

    (* include from a sandboxed context, whatever its options: the context of the included template is sandboxed *)
    Lemma ev_include_confined c e withs ign only sb :
      rc_sandboxed c = true -> sb_conf pol (ev_include ev root env c e withs ign only sb).
    Proof.
      intro Hs. unfold ev_include. apply sb_conf_rexpr; [apply ev_load_confined; exact Hs|exact Hs|].
      intros [name [inodes|]]; cbn [fst snd]; [|destruct ign; [apply sb_conf_ret|apply sb_conf_fail]; exact Hs].
      destruct (match withs with None => _ | Some _ => _ end) as [kvs|]; [|apply sb_conf_fail; exact Hs].
      assert (Hinner : forall ic0, rc_sandboxed ic0 = true ->
                sb_conf pol (ev_rexpr (ev_with_vars (ev c) kvs ic0) c (fun ic => let '(r, _, t) := root ic inodes in (r, c, t)))).
      { intros ic0 H0. destruct (ev_with_vars_confined (ev c) (fun e' => Hev c e' Hs) kvs ic0 H0) as [Hw Hic].
        unfold sb_econf in Hw. destruct (ev_with_vars (ev c) kvs ic0) as [o t] eqn:E. cbn [snd] in Hw.
        destruct o as [ic| | |]; cbn [ev_rexpr]; try (split; [exact Hw|exact Hs]).
        pose proof (Hroot ic inodes (Hic ic t eq_refl)) as [Ht _]. destruct (root ic inodes) as [[r c2] t2]. cbn in Ht.
        split; cbn; [apply tr_confined_app; assumption|exact Hs]. }
      destruct (negb only && negb sb).
      - apply Hinner. cbn. exact Hs.
      - destruct (sb && _); [apply sb_conf_fail; exact Hs|]. apply Hinner. cbn. rewrite Hs. reflexivity.
    Qed.

    (* import and from: the context the imported template is rendered in inherits the flag *)
    Lemma ev_import_macros_confined c e : rc_sandboxed c = true ->
      tr_confined pol (snd (ev_import_macros ev root env c e)) /\ snd (fst (ev_import_macros ev root env c e)) = c.
    Proof.
      intro Hs. unfold ev_import_macros. pose proof (ev_load_confined c e Hs) as Hl. unfold sb_econf in Hl.
      destruct (ev_load ev env c e) as [o t]. cbn [snd] in Hl.
      destruct o as [[name [inodes|]]| | |]; cbn [snd fst]; try (split; [exact Hl|reflexivity]).
      pose proof (Hroot (rc_derive (rc_fresh [] name) None (rc_sandboxed c) (Some name)) inodes ltac:(rewrite sb_derive; exact Hs)) as [Ht _].
      destruct (root _ inodes) as [[r ic'] t2]. cbn in Ht.
      destruct r; cbn [snd fst]; (split; [apply tr_confined_app; assumption|reflexivity]).
    Qed.

    Lemma ev_import_confined c e alias : rc_sandboxed c = true -> sb_conf pol (ev_import ev root env c e alias).
    Proof.
      intro Hs. unfold ev_import. destruct (ev_import_macros_confined c e Hs) as [Ht _].
      destruct (ev_import_macros ev root env c e) as [[o c1] t]. cbn [snd] in Ht.
      destruct o; split; cbn; try exact Ht; try exact Hs.
    Qed.

    Lemma ev_from_names_sandboxed ms names : forall c c', ev_from_names ms names c = Ok c' -> rc_sandboxed c' = rc_sandboxed c.
    Proof.
      induction names as [|[m alias] r IH]; intros c c' H; cbn [ev_from_names] in H.
      - inversion H; subst. reflexivity.
      - destruct (assoc_bytes ms m); [|discriminate]. apply IH in H. rewrite H. reflexivity.
    Qed.

    Lemma ev_from_confined c e names : rc_sandboxed c = true -> sb_conf pol (ev_from ev root env c e names).
    Proof.
      intro Hs. unfold ev_from. destruct (ev_import_macros_confined c e Hs) as [Ht _].
      destruct (ev_import_macros ev root env c e) as [[o c1] t]. cbn [snd] in Ht.
      destruct o as [ms| | |]; try (split; cbn; [exact Ht|exact Hs]).
      destruct (negb (ts_no_dup (map fst names))); [split; cbn; [exact Ht|exact Hs]|].
      destruct (ev_from_names ms names c) as [c'| | |] eqn:E; split; cbn; try exact Ht; try exact Hs.
      rewrite (ev_from_names_sandboxed ms names c c' E). exact Hs.
    Qed.

    (* the apply tag: the body, the arguments, then ApplyFilter on the rendered text *)
    Lemma ev_apply_confined c f args body : rc_sandboxed c = true -> sb_conf pol (ev_apply ev rend env c f args body).
    Proof.
      intro Hs. unfold ev_apply. pose proof (Hrend c body Hs) as [Ht Hc]. destruct (rend c body) as [[r c1] t1]. cbn in Ht, Hc.
      destruct r as [content| | |]; try (split; cbn; [exact Ht|exact Hc]).
      assert (H2 : sb_econf pol (ev_bind (ev_list (ev c1) args) (fun vs =>
                     ev_bind (ev_apply_filter env c1 f (VStr content) vs) (fun w => ev_opt (vo_to_str w))))).
      { apply sb_bind; [apply ev_list_confined; intro e'; apply Hev; exact Hc|]. intro vs.
        apply sb_bind; [apply ev_apply_filter_confined; exact Hc|]. intro w. apply sb_opt. }
      unfold sb_econf in H2. destruct (ev_bind (ev_list (ev c1) args) _) as [o t2]. cbn [snd] in H2.
      destruct o; split; cbn; try (apply tr_confined_app; assumption); exact Hc.
    Qed.

    (* the spaceless tag: ApplyFilter with the name spaceless; its error is swallowed, its invocation is not *)
    Lemma ev_spaceless_confined c body : rc_sandboxed c = true -> sb_conf pol (ev_spaceless rend env c body).
    Proof.
      intro Hs. unfold ev_spaceless. pose proof (Hrend c body Hs) as [Ht Hc]. destruct (rend c body) as [[r c1] t1]. cbn in Ht, Hc.
      destruct r as [content| | |]; try (split; cbn; [exact Ht|exact Hc]).
      pose proof (ev_apply_filter_confined c1 b#"spaceless" (VStr content) [] Hc) as H2. unfold sb_econf in H2.
      destruct (ev_apply_filter env c1 b#"spaceless" (VStr content) []) as [o t2]. cbn [snd] in H2.
      destruct o; split; cbn; try (apply tr_confined_app; assumption); exact Hc.
    Qed.

    (* every node kind *)
    Lemma render_node_confined c n : rc_sandboxed c = true -> sb_conf pol (render_node ev rend root env c n).
    Proof.
      intro Hs. destruct n; cbn [render_node].
      - apply sb_conf_ret. exact Hs.
      - apply ev_print_confined. exact Hs.
      - apply ev_if_confined. exact Hs.
      - apply ev_for_confined. exact Hs.
      - apply ev_set_confined. exact Hs.
      - apply sb_conf_rexpr; [apply Hev; exact Hs|exact Hs|]. intros _. apply sb_conf_ret. exact Hs.
      - apply ev_block_confined. exact Hs.
      - apply ev_extends_confined. exact Hs.
      - apply ev_include_confined. exact Hs.
      - apply sb_conf_ret. rewrite sb_with_macros. exact Hs.
      - apply ev_import_confined. exact Hs.
      - apply ev_from_confined. exact Hs.
      - apply sb_conf_ret. exact Hs.
      - apply ev_apply_confined. exact Hs.
      - apply ev_spaceless_confined. exact Hs.
    Qed.
  End Helpers.

  (* ---------------------------------------------------------------- the induction on fuel *)
  Lemma render_confined_both : forall fuel, sb_rend_ok (render fuel env) /\ sb_rend_ok (render_root fuel env).
  Proof.
    induction fuel as [|fu [IHr IHt]]; split; intros c ns Hs.
    - cbn [render]. split; [apply tr_confined_nil|exact Hs].
    - cbn [render_root]. split; [apply tr_confined_nil|exact Hs].
    - cbn [render]. destruct ns as [|n rest]; [apply sb_conf_ret; exact Hs|].
      apply sb_conf_rseq.
      + apply render_node_confined; [intros c0 e H0; apply eval_confined; exact H0|exact IHr|exact IHt|exact Hs].
      + intros c1 H1. apply IHr. exact H1.
    - cbn [render_root]. apply ev_root_confined; [intros c0 e H0; apply eval_confined; exact H0|exact IHr|exact IHt|exact Hs].
  Qed.
End Confined.

(* ================================================================ C06_confinement *)
Lemma C06_confinement_proof : forall fuel env pol c,
  e_policy env = Some pol -> rc_sandboxed c = true ->
  (forall ns, tr_confined pol (sb_tr (render fuel env c ns)) /\ rc_sandboxed (sb_ctx (render fuel env c ns)) = true) /\
  (forall ns, tr_confined pol (sb_tr (render_root fuel env c ns)) /\ rc_sandboxed (sb_ctx (render_root fuel env c ns)) = true) /\
  (forall e, tr_confined pol (snd (eval fuel env c e))).
Proof.
  intros fuel env pol c Hpol Hs. destruct (render_confined_both env pol Hpol fuel) as [Hr Ht].
  split; [|split].
  - intro ns. apply Hr. exact Hs.
  - intro ns. apply Ht. exact Hs.
  - intro e. apply eval_confined; assumption.
Qed.

(* ================================================================ a sandboxed include reached from ANY context *)
Lemma ev_with_vars_flag (evc : expr -> ev_res) : forall kvs ic ic' t,
  ev_with_vars evc kvs ic = (Ok ic', t) -> rc_sandboxed ic' = rc_sandboxed ic.
Proof.
  induction kvs as [|[k x] r IH]; intros ic ic' t H; cbn [ev_with_vars] in H.
  - inversion H; subst. reflexivity.
  - destruct (evc x) as [o tx]. destruct o as [v| | |]; cbn [ev_bind] in H; try discriminate.
    destruct (vo_has_callable v); [discriminate|].
    destruct (ev_with_vars evc r (rc_set_var ic k v)) as [o2 t2] eqn:E2. inversion H; subst.
    rewrite (IH _ _ _ E2). reflexivity.
Qed.

(* the trace of include ... sandboxed splits into a part that does not depend on how templates are rendered (the
   template name and the with values, evaluated by the includer in ITS context) and the trace of at most one
   rendering, of the included template, in a context whose flag is set; the includer's context comes back as it was *)
Lemma ev_include_sandboxed_shape ev env c e withs ign only :
  exists t_args, forall root, exists t_in,
    sb_tr (ev_include ev root env c e withs ign only true) = t_args ++ t_in /\
    sb_ctx (ev_include ev root env c e withs ign only true) = c /\
    (t_in = [] \/ exists ic ns, rc_sandboxed ic = true /\ t_in = sb_tr (root ic ns)).
Proof.
  assert (Hdone : forall (t : ev_trace) (o : outcome bytes), exists t_args, forall root : rctx -> list node -> ev_rres, exists t_in,
            sb_tr (o, c, t) = t_args ++ t_in /\ sb_ctx (o, c, t) = c /\
            (t_in = [] \/ exists ic ns, rc_sandboxed ic = true /\ t_in = sb_tr (root ic ns))).
  { intros t o. exists t. intro root. exists []. rewrite app_nil_r. split; [reflexivity|split; [reflexivity|left; reflexivity]]. }
  unfold ev_include. destruct (ev_load ev env c e) as [o t].
  destruct o as [[name [inodes|]]| | |]; cbn [ev_rexpr fst snd ev_cast]; try apply Hdone.
  - destruct (match withs with None => _ | Some _ => _ end) as [kvs|].
    2:{ unfold ev_rfail. rewrite app_nil_r. apply Hdone. }
    rewrite andb_false_r. cbn [andb].
    destruct (e_policy env) as [pol|].
    2:{ unfold ev_rfail. rewrite app_nil_r. apply Hdone. }
    match goal with |- context [ev_with_vars (ev c) kvs ?ic0] => set (ic0v := ic0) end.
    destruct (ev_with_vars (ev c) kvs ic0v) as [o2 tw] eqn:Ew.
    destruct o2 as [ic| | |]; cbn [ev_rexpr ev_cast]; try apply Hdone.
    exists (t ++ tw). intro root. exists (sb_tr (root ic inodes)).
    destruct (root ic inodes) as [[r c2] t2] eqn:Er. cbn [sb_tr sb_ctx fst snd].
    split; [rewrite app_assoc; reflexivity|split; [reflexivity|]].
    right. exists ic, inodes. split; [|rewrite Er; reflexivity].
    rewrite (ev_with_vars_flag _ _ _ _ _ Ew). unfold ic0v. cbn. apply orb_true_r.
  - destruct ign; unfold ev_rret, ev_rfail; rewrite app_nil_r; apply Hdone.
Qed.

Lemma C06_sandboxed_include_confined_proof : forall fuel env pol c e withs ign only,
  e_policy env = Some pol ->
  let node := NInclude e withs ign only true in
  exists t_args,
    (forall root, exists t_in,
        sb_tr (render_node (eval fuel env) (render fuel env) root env c node) = t_args ++ t_in /\
        (t_in = [] \/ exists ic ns, rc_sandboxed ic = true /\ t_in = sb_tr (root ic ns))) /\
    (exists t_in,
        sb_tr (render_node (eval fuel env) (render fuel env) (render_root fuel env) env c node) = t_args ++ t_in /\
        tr_confined pol t_in /\
        sb_ctx (render_node (eval fuel env) (render fuel env) (render_root fuel env) env c node) = c).
Proof.
  intros fuel env pol c e withs ign only Hpol node. unfold node. cbn [render_node].
  destruct (ev_include_sandboxed_shape (eval fuel env) env c e withs ign only) as [t_args H].
  exists t_args. split.
  - intro root. destruct (H root) as [t_in [E [_ Hin]]]. exists t_in. split; assumption.
  - destruct (H (render_root fuel env)) as [t_in [E [Ec Hin]]]. exists t_in. split; [exact E|split; [|exact Ec]].
    destruct Hin as [->|[ic [ns [Hs ->]]]]; [apply tr_confined_nil|].
    apply (render_confined_both env pol Hpol fuel). exact Hs.
Qed.

(* the same at the level of a rendered node list: a template whose only node is the sandboxed include *)
Lemma C06_sandboxed_include_render_proof : forall fuel env pol c e withs ign only r c' tr,
  e_policy env = Some pol ->
  render (S fuel) env c [NInclude e withs ign only true] = (r, c', tr) ->
  c' = c /\
  exists t_args t_in, tr = t_args ++ t_in /\ tr_confined pol t_in /\
    (forall root, exists t_in', sb_tr (ev_include (eval fuel env) root env c e withs ign only true) = t_args ++ t_in').
Proof.
  intros fuel env pol c e withs ign only r c' tr Hpol H.
  destruct (C06_sandboxed_include_confined_proof fuel env pol c e withs ign only Hpol) as [t_args [Hall [t_in [E [Hc Ec]]]]].
  cbn [render] in H.
  destruct (render_node (eval fuel env) (render fuel env) (render_root fuel env) env c (NInclude e withs ign only true))
    as [[o c1] t1] eqn:En.
  cbn [sb_tr sb_ctx fst snd] in E, Ec. subst c1.
  assert (Hrest : render fuel env c [] = (OutOfFuel, c, []) \/ render fuel env c [] = (Ok [], c, [])).
  { destruct fuel; [left|right]; reflexivity. }
  assert (Hres : c' = c /\ tr = t1).
  { destruct o; cbn [ev_rseq] in H.
    - destruct Hrest as [Hr|Hr]; rewrite Hr in H; inversion H; subst; rewrite app_nil_r; split; reflexivity.
    - inversion H; subst. split; reflexivity.
    - inversion H; subst. split; reflexivity.
    - inversion H; subst. split; reflexivity. }
  destruct Hres as [-> ->]. split; [reflexivity|].
  exists t_args, t_in. split; [exact E|split; [exact Hc|]].
  intro root. destruct (Hall root) as [t_in' [E' _]]. exists t_in'. exact E'.
Qed.

(* ================================================================ no context below a sandboxed one loses the flag *)
(* The helpers depend on the evaluator and the renderers they are handed only through their values on SANDBOXED
   contexts, as long as the context is sandboxed: every context a helper derives (clone, fresh context of an include,
   of a macro call, of an import, of the parent template of extends, the iteration contexts of a loop, the block and
   parent() contexts) carries the flag. *)
Lemma ev_list_fext (f g : expr -> ev_res) : (forall e, f e = g e) -> forall es, ev_list f es = ev_list g es.
Proof. intros H es. induction es as [|e r IH]; cbn [ev_list]; [reflexivity|]. rewrite H, IH. reflexivity. Qed.

Lemma ev_chain_args_fext (f g : expr -> ev_res) : (forall e, f e = g e) -> forall ch, ev_chain_args f ch = ev_chain_args g ch.
Proof.
  intros H ch. induction ch as [|[n args] r IH]; cbn [ev_chain_args]; [reflexivity|].
  rewrite (ev_list_fext f g H), IH. reflexivity.
Qed.

Lemma ev_filter_chain_fext (f g : expr -> ev_res) env c e b :
  (forall e, f e = g e) -> ev_filter_chain f env c e b = ev_filter_chain g env c e b.
Proof.
  intro H. unfold ev_filter_chain. destruct (ev_unchain e) as [base ch].
  rewrite (ev_chain_args_fext f g H). apply ev_bind_ext. intro args. rewrite H. reflexivity.
Qed.

Lemma ev_bind_params_fext (f g : expr -> ev_res) : (forall e, f e = g e) ->
  forall params args mc, ev_bind_params f params args mc = ev_bind_params g params args mc.
Proof.
  intro H. induction params as [|[p d] rest IH]; intros args mc; cbn [ev_bind_params]; [reflexivity|].
  destruct args as [|a args']; [|apply IH]. destruct d as [de|]; [|apply IH].
  rewrite H. apply ev_bind_ext. intro v. apply IH.
Qed.

Lemma ev_with_vars_fext (f g : expr -> ev_res) : (forall e, f e = g e) ->
  forall kvs ic, ev_with_vars f kvs ic = ev_with_vars g kvs ic.
Proof.
  intro H. induction kvs as [|[k x] r IH]; intro ic; cbn [ev_with_vars]; [reflexivity|].
  rewrite H. apply ev_bind_ext. intro v. destruct (vo_has_callable v); [reflexivity|apply IH].
Qed.

Lemma ev_bind_params_flag (evc : expr -> ev_res) : forall params args mc mc' t,
  ev_bind_params evc params args mc = (Ok mc', t) -> rc_sandboxed mc' = rc_sandboxed mc.
Proof.
  induction params as [|[p d] rest IH]; intros args mc mc' t H; cbn [ev_bind_params] in H.
  - inversion H; subst. reflexivity.
  - destruct args as [|a args'].
    + destruct d as [de|].
      * destruct (evc de) as [o td]. destruct o as [v| | |]; cbn [ev_bind] in H; try discriminate.
        destruct (ev_bind_params evc rest [] (rc_set_var mc p v)) as [o2 t2] eqn:E2. inversion H; subst.
        rewrite (IH _ _ _ _ E2). reflexivity.
      * rewrite (IH _ _ _ _ H). reflexivity.
    + rewrite (IH _ _ _ _ H). reflexivity.
Qed.

Section GuardExt.
  Variable env : ev_env.
  Variable pol : sb_policy.
  Hypothesis Hpol : e_policy env = Some pol.
  Variables ev1 ev2 : rctx -> expr -> ev_res.
  Variables rend1 rend2 root1 root2 : rctx -> list node -> ev_rres.
  Hypothesis Hev : forall c e, rc_sandboxed c = true -> ev1 c e = ev2 c e.
  Hypothesis Hrend : forall c ns, rc_sandboxed c = true -> rend1 c ns = rend2 c ns.
  Hypothesis Hroot : forall c ns, rc_sandboxed c = true -> root1 c ns = root2 c ns.
  Hypothesis Hok : sb_rend_ok pol rend1.

  Lemma sg_if c bs els : rc_sandboxed c = true -> ev_if ev1 rend1 c bs els = ev_if ev2 rend2 c bs els.
  Proof.
    intro Hs. induction bs as [|[cond body] rest IH]; cbn [ev_if].
    - destruct els; [apply Hrend; exact Hs|reflexivity].
    - rewrite (Hev c cond Hs). apply ev_rexpr_ext. intro v. rewrite (Hrend c body Hs), IH. reflexivity.
  Qed.

  Lemma sg_loop_items body k v n : forall items i c, rc_sandboxed c = true ->
    ev_loop_items (fun c0 => rend1 c0 body) k v n i items c = ev_loop_items (fun c0 => rend2 c0 body) k v n i items c.
  Proof.
    induction items as [|it rest IH]; intros i c Hs; cbn [ev_loop_items]; [reflexivity|].
    assert (H1 : rc_sandboxed (ev_iter_ctx c k v n i it) = true) by (rewrite sb_iter_ctx; exact Hs).
    rewrite <- (Hrend _ body H1). pose proof (Hok _ body H1) as [_ Hc].
    destruct (rend1 (ev_iter_ctx c k v n i it) body) as [[o c1] t1]. cbn in Hc.
    destruct o; cbn [ev_rseq]; try reflexivity. rewrite (IH (i + 1)%Z c1 Hc). reflexivity.
  Qed.

  Lemma sg_for_loop c k v seq body els : rc_sandboxed c = true ->
    ev_for_loop rend1 c k v seq body els = ev_for_loop rend2 c k v seq body els.
  Proof.
    intro Hs. unfold ev_for_loop. destruct (ev_loop_items_of seq) as [[|it items]|].
    - destruct els; [apply Hrend; exact Hs|reflexivity].
    - rewrite (sg_loop_items body k v _ (it :: items) 0%Z c Hs). reflexivity.
    - destruct els; [apply Hrend; exact Hs|reflexivity].
  Qed.

  Lemma sg_for_seq c seq : rc_sandboxed c = true -> ev_for_seq ev1 env c seq = ev_for_seq ev2 env c seq.
  Proof.
    intro Hs. unfold ev_for_seq. destruct seq; try (apply Hev; exact Hs).
    - destruct (existsb _ x); [reflexivity|apply Hev; exact Hs].
    - apply ev_filter_chain_fext. intro e'. apply Hev. exact Hs.
  Qed.

  Lemma sg_call_macro c tpl name args : rc_sandboxed c = true ->
    ev_call_macro ev1 rend1 env c tpl name args = ev_call_macro ev2 rend2 env c tpl name args.
  Proof.
    intro Hs. unfold ev_call_macro. destruct (ts_find_macro env tpl name) as [[params body]|]; [|reflexivity].
    destruct (_ || _); [reflexivity|].
    rewrite (ev_bind_params_fext (ev1 c) (ev2 c) (fun e => Hev c e Hs)).
    destruct (ev_bind_params (ev2 c) params args _) as [o t] eqn:E. destruct o as [mc| | |]; cbn [ev_bind]; try reflexivity.
    rewrite (Hrend mc body); [reflexivity|]. rewrite (ev_bind_params_flag _ _ _ _ _ _ E). cbn. exact Hs.
  Qed.

  Lemma sg_parent_call c : rc_sandboxed c = true -> ev_parent_call rend1 c = ev_parent_call rend2 c.
  Proof.
    intro Hs. unfold ev_parent_call. destruct (rc_cur_block c); [|reflexivity].
    destruct (nth_error (rc_cur_defs c) (S (rc_depth c))) as [d|]; [|reflexivity].
    rewrite (Hrend _ (bd_body d)); [reflexivity|exact Hs].
  Qed.

  Lemma sg_print c e : rc_sandboxed c = true -> ev_print ev1 rend1 env c e = ev_print ev2 rend2 env c e.
  Proof.
    intro Hs. unfold ev_print. rewrite (Hev c e Hs). apply ev_rexpr_ext. intro v.
    destruct (vo_view v); try reflexivity.
    - rewrite (sg_call_macro c tpl name args Hs). reflexivity.
    - apply sg_parent_call. exact Hs.
  Qed.

  Lemma sg_block c name body : rc_sandboxed c = true -> ev_block rend1 c name body = ev_block rend2 c name body.
  Proof.
    intro Hs. unfold ev_block. destruct (if existsb _ _ then _ else _) as [|d ds]; [reflexivity|].
    rewrite (Hrend _ (bd_body d)); [reflexivity|exact Hs].
  Qed.

  Lemma sg_load c e : rc_sandboxed c = true -> ev_load ev1 env c e = ev_load ev2 env c e.
  Proof. intro Hs. unfold ev_load. rewrite (Hev c e Hs). reflexivity. Qed.

  Lemma sg_extends c e : rc_sandboxed c = true -> ev_extends ev1 root1 env c e = ev_extends ev2 root2 env c e.
  Proof.
    intro Hs. unfold ev_extends. rewrite (sg_load (rc_with_extending c true) e Hs).
    apply ev_rexpr_ext. intros [name [pnodes|]]; cbn [fst snd]; [|reflexivity].
    rewrite (Hroot _ pnodes); [reflexivity|exact Hs].
  Qed.

  Lemma sg_root c ns : rc_sandboxed c = true -> ev_root ev1 rend1 root1 env c ns = ev_root ev2 rend2 root2 env c ns.
  Proof.
    intro Hs. unfold ev_root. destruct (negb (ts_wf ns)); [reflexivity|].
    destruct (ev_first_pass ns (rc_extending c) (rc_blocks c) None) as [blocks [e|]].
    - apply sg_extends. exact Hs.
    - apply Hrend. exact Hs.
  Qed.

  Lemma sg_include c e withs ign only sb : rc_sandboxed c = true ->
    ev_include ev1 root1 env c e withs ign only sb = ev_include ev2 root2 env c e withs ign only sb.
  Proof.
    intro Hs. unfold ev_include. rewrite (sg_load c e Hs).
    apply ev_rexpr_ext. intros [name [inodes|]]; cbn [fst snd]; [|reflexivity].
    destruct (match withs with None => _ | Some _ => _ end) as [kvs|]; [|reflexivity].
    assert (Hinner : forall ic0, rc_sandboxed ic0 = true ->
              ev_rexpr (ev_with_vars (ev1 c) kvs ic0) c (fun ic => let '(r, _, t) := root1 ic inodes in (r, c, t)) =
              ev_rexpr (ev_with_vars (ev2 c) kvs ic0) c (fun ic => let '(r, _, t) := root2 ic inodes in (r, c, t))).
    { intros ic0 H0. rewrite (ev_with_vars_fext (ev1 c) (ev2 c) (fun e' => Hev c e' Hs)).
      destruct (ev_with_vars (ev2 c) kvs ic0) as [o t] eqn:E. destruct o as [ic| | |]; cbn [ev_rexpr]; try reflexivity.
      rewrite (Hroot ic inodes); [reflexivity|]. rewrite (ev_with_vars_flag _ _ _ _ _ E). exact H0. }
    destruct (negb only && negb sb).
    - apply Hinner. exact Hs.
    - destruct (sb && _); [reflexivity|]. apply Hinner. cbn. rewrite Hs. reflexivity.
  Qed.

  Lemma sg_import_macros c e : rc_sandboxed c = true ->
    ev_import_macros ev1 root1 env c e = ev_import_macros ev2 root2 env c e.
  Proof.
    intro Hs. unfold ev_import_macros. rewrite (sg_load c e Hs).
    destruct (ev_load ev2 env c e) as [[[name [inodes|]]| | |] t]; try reflexivity.
    rewrite (Hroot _ inodes); [reflexivity|]. cbn. exact Hs.
  Qed.

  Lemma sg_apply c f args body : rc_sandboxed c = true ->
    ev_apply ev1 rend1 env c f args body = ev_apply ev2 rend2 env c f args body.
  Proof.
    intro Hs. unfold ev_apply. rewrite <- (Hrend c body Hs). pose proof (Hok c body Hs) as [_ Hc].
    destruct (rend1 c body) as [[o c1] t1]. cbn in Hc. destruct o; try reflexivity.
    rewrite (ev_list_fext (ev1 c1) (ev2 c1) (fun e' => Hev c1 e' Hc)). reflexivity.
  Qed.

  Lemma sg_render_node c n : rc_sandboxed c = true ->
    render_node ev1 rend1 root1 env c n = render_node ev2 rend2 root2 env c n.
  Proof.
    intro Hs. destruct n; cbn [render_node]; try reflexivity.
    - apply sg_print. exact Hs.
    - apply sg_if. exact Hs.
    - unfold ev_for. rewrite (sg_for_seq c seq Hs). apply ev_rexpr_ext. intro sv. apply sg_for_loop. exact Hs.
    - unfold ev_set. rewrite (Hev c e Hs). reflexivity.
    - rewrite (Hev c e Hs). reflexivity.
    - apply sg_block. exact Hs.
    - apply sg_extends. exact Hs.
    - apply sg_include. exact Hs.
    - unfold ev_import. rewrite (sg_import_macros c e Hs). reflexivity.
    - unfold ev_from. rewrite (sg_import_macros c e Hs). reflexivity.
    - apply sg_apply. exact Hs.
    - unfold ev_spaceless. rewrite (Hrend c body Hs). reflexivity.
  Qed.
End GuardExt.

Lemma sb_guard_r_on f c ns : rc_sandboxed c = true -> sb_guard_r f c ns = f c ns.
Proof. intro H. unfold sb_guard_r. rewrite H. reflexivity. Qed.
Lemma sb_guard_e_on f c e : rc_sandboxed c = true -> sb_guard_e f c e = f c e.
Proof. intro H. unfold sb_guard_e. rewrite H. reflexivity. Qed.

(* below a sandboxed context the renderers ARE the guarded renderers: no evaluation and no rendering ever happens in
   a context without the flag *)
Lemma C06_stays_sandboxed_both : forall env pol, e_policy env = Some pol -> forall fuel,
  (forall c ns, rc_sandboxed c = true -> render fuel env c ns = sb_render fuel env c ns) /\
  (forall c ns, rc_sandboxed c = true -> render_root fuel env c ns = sb_render_root fuel env c ns).
Proof.
  intros env pol Hpol. induction fuel as [|fu [IHr IHt]]; split; intros c ns Hs; try reflexivity.
  - cbn [render sb_render]. destruct ns as [|n rest]; [reflexivity|].
    rewrite (sg_render_node env pol (eval fu env) (sb_guard_e (eval fu env)) (render fu env) (sb_guard_r (sb_render fu env))
               (render_root fu env) (sb_guard_r (sb_render_root fu env))).
    + pose proof (render_node_confined env pol Hpol (sb_guard_e (eval fu env)) (sb_guard_r (sb_render fu env))
                    (sb_guard_r (sb_render_root fu env))) as Hn.
      assert (Hconf : sb_conf pol (render_node (sb_guard_e (eval fu env)) (sb_guard_r (sb_render fu env))
                                               (sb_guard_r (sb_render_root fu env)) env c n)).
      { apply Hn; [| | |exact Hs].
        - intros c0 e H0. rewrite sb_guard_e_on by exact H0. apply eval_confined; assumption.
        - intros c0 ns0 H0. rewrite sb_guard_r_on by exact H0. rewrite <- IHr by exact H0.
          apply (render_confined_both env pol Hpol fu). exact H0.
        - intros c0 ns0 H0. rewrite sb_guard_r_on by exact H0. rewrite <- IHt by exact H0.
          apply (render_confined_both env pol Hpol fu). exact H0. }
      destruct (render_node _ _ _ env c n) as [[o c1] t1]. destruct Hconf as [_ Hc1]. cbn in Hc1.
      destruct o; cbn [ev_rseq]; try reflexivity.
      rewrite sb_guard_r_on by exact Hc1. rewrite (IHr c1 rest Hc1). reflexivity.
    + intros c0 e H0. rewrite sb_guard_e_on by exact H0. reflexivity.
    + intros c0 ns0 H0. rewrite sb_guard_r_on by exact H0. apply IHr. exact H0.
    + intros c0 ns0 H0. rewrite sb_guard_r_on by exact H0. apply IHt. exact H0.
    + apply (render_confined_both env pol Hpol fu).
    + exact Hs.
  - cbn [render_root sb_render_root].
    apply sg_root.
    + intros c0 e H0. rewrite sb_guard_e_on by exact H0. reflexivity.
    + intros c0 ns0 H0. rewrite sb_guard_r_on by exact H0. apply IHr. exact H0.
    + intros c0 ns0 H0. rewrite sb_guard_r_on by exact H0. apply IHt. exact H0.
    + exact Hs.
Qed.
