(* The phase theorems of Proofs/SchedProofs.v on a concrete two-phase scenario (non-vacuity of their hypotheses). *)
From Coq Require Import ZifyBool ZifyNat ZifyN.
From Twig Require Import Base.Bytes Gen.LockMap Model.Sched Spec.SchedSpec Proofs.SchedProofs.

(* the seeded scenario in the model: a/t cached from the first phase, its file rewritten with a later time stamp,
   auto-reload on; the left-over entry is a good start and both goroutines of the second phase get the new text *)
Definition sc_w_ph (txt : bytes) (mt : Z) : sc_world :=
  mk_sc_world [mk_sc_loader true [[(b#"a/t.twig", mk_sc_file (ScSrcTpl (mk_sc_tpl None [ScItFlat (ScFText txt)] [])) mt)]]]
    false [] [] [] true true.
Definition sc_sh_ph : sc_shared :=
  st_sh (sc_run (sc_w_ph b#"old" 10) (repeat 0 40) (sc_init 5 (sc_w_ph b#"old" 10) [[ScCRender false b#"a/t.twig" []]])).

Lemma sc_phase_example :
  sc_results (sc_run (sc_w_ph b#"new" 20) ([0; 1; 0; 1; 1; 0] ++ repeat 0 40 ++ repeat 1 40)
                (sc_phase_state 5 (sc_w_ph b#"new" 20) sc_sh_ph [[ScCRender false b#"a/t.twig" []]; [ScCRender true b#"a/t.twig" []]]))
  = [Some [ScOOk b#"new"]; Some [ScOOk b#"new"]].
Proof. vm_compute. reflexivity. Qed.

(* the hypothesis of the phase theorem holds at the start of that second phase, through the left-over entry *)
Lemma assoc_bytes_single {A} (k : bytes) (v : A) n x : assoc_bytes [(k, v)] n = Some x -> n = k /\ x = v.
Proof.
  cbn [assoc_bytes]. destruct (bytes_eqb k n) eqn:En; [|discriminate].
  apply bytes_eqb_eq in En. intros H. inversion H. subst. split; reflexivity.
Qed.
Lemma sc_phase_example_start_ok : sc_phase_start_ok (sc_w_ph b#"new" 20) sc_sh_ph.
Proof.
  assert (Hsh : sc_sh_ph = mk_sc_shared
            [(b#"a/t.twig", mk_sc_entry (mk_sc_tpl None [ScItFlat (ScFText b#"old")] []) b#"a/t.twig" (Some 0) 10%Z)]
            [[(b#"a/t.twig", 0)]] [] [] []) by (vm_compute; reflexivity).
  unfold sc_phase_start_ok. rewrite Hsh. constructor; cbn [sh_cache sh_memo sh_attrs].
  - intros n e H. apply assoc_bytes_single in H. destruct H as [-> ->]. right.
    split; [reflexivity|split; [reflexivity|]]. exists 0. split; [reflexivity|]. right.
    split; [reflexivity|split; [vm_compute; reflexivity|vm_compute; reflexivity]].
  - intros n [H|H]; exfalso; apply H; reflexivity.
  - intros [|i] l Hl.
    + cbn in Hl. inversion Hl; subst l. cbn [nth]. intros n d H.
      apply assoc_bytes_single in H. destruct H as [-> ->]. eexists. vm_compute. reflexivity.
    + destruct i; discriminate.
  - intros ty a e H. discriminate.
Qed.
