(* Tactics shared by the proofs about the translated kernels (Gen/Kernels*.v). *)
From Coq Require Import ZArith List Bool Lia.
From Twig Require Import Base.Bytes Base.Kernel.
Import ListNotations.
Local Open Scope Z_scope.

Ltac zcase :=
  match goal with
  | |- context [Z.ltb ?a ?b] => destruct (Z.ltb_spec a b)
  | |- context [Z.leb ?a ?b] => destruct (Z.leb_spec a b)
  | |- context [Z.gtb ?a ?b] => rewrite (Z.gtb_ltb a b)
  | |- context [Z.geb ?a ?b] => rewrite (Z.geb_leb a b)
  | |- context [Z.eqb ?a ?b] => destruct (Z.eqb_spec a b)
  end.

Ltac zhyps :=
  repeat match goal with
  | H : (_ <? _) = true |- _ => apply Z.ltb_lt in H
  | H : (_ <? _) = false |- _ => apply Z.ltb_ge in H
  | H : (_ >=? _) = true |- _ => apply Z.geb_le in H
  | H : (_ >=? _) = false |- _ => rewrite Z.geb_leb in H; apply Z.leb_gt in H
  | H : (_ >? _) = true |- _ => apply Z.gtb_lt in H
  | H : (_ >? _) = false |- _ => rewrite Z.gtb_ltb in H; apply Z.ltb_ge in H
  | H : (_ <=? _) = true |- _ => apply Z.leb_le in H
  | H : (_ <=? _) = false |- _ => apply Z.leb_gt in H
  | H : (_ =? _) = true |- _ => apply Z.eqb_eq in H
  | H : (_ =? _) = false |- _ => apply Z.eqb_neq in H
  | H : negb _ = true |- _ => apply negb_true_iff in H
  | H : negb _ = false |- _ => apply negb_false_iff in H
  end.

Ltac split_ifs :=
  repeat match goal with
  | H : context [if ?c then _ else _] |- _ => destruct c eqn:?
  | |- context [if ?c then _ else _] => destruct c eqn:?
  end.
Ltac ksafe_finish :=
  repeat match goal with
  | |- true = true => reflexivity
  | |- _ && _ = true => apply andb_true_iff; split
  | |- in64 _ = true => apply in64_spec; zhyps; lia
  | |- (_ >=? _) = true => apply Z.geb_le; zhyps; lia
  | |- (_ <? _) = true => apply Z.ltb_lt; zhyps; lia
  | |- negb (_ =? _) = true => apply negb_true_iff, Z.eqb_neq; zhyps; lia
  end.

Ltac kfin :=
  repeat match goal with
  | |- true = true => reflexivity
  | |- negb false = true => reflexivity
  | |- _ && _ = true => apply andb_true_iff; split
  | |- in64 _ = true => apply in64_spec; lia
  | |- (_ >=? _) = true => apply Z.geb_le; lia
  | |- (_ <? _) = true => apply Z.ltb_lt; lia
  | |- negb (_ =? _) = true => apply negb_true_iff, Z.eqb_neq; lia
  end.

