(* Facts about the tables regenerated from extension.go; proved by computation, so a changed
   table either still satisfies them or this file stops compiling. *)
From Twig Require Import Base.Bytes Gen.Registry.

Lemma C07_alias_proof :
  assoc_bytes reg_GetFilters b#"e" = Some b#"filterEscape" /\
  assoc_bytes reg_GetFilters b#"escape" = Some b#"filterEscape".
Proof. split; vm_compute; reflexivity. Qed.
