(* C17: a failure during rendering surfaces as an error of its class, wherever it happens.

   The core is ONE simulation between two runs of the evaluator model (Model/Eval.v) on the same template set,
   context and fuel: a run with environment env, and the run with an environment env' in which one registered
   callback is faulty - it fails with a sentinel (es_env_fail), or it is not registered at all (es_env_without).
   With E the invocation event of that callback:

     either E does not occur in the trace of the first run, and the two runs are equal (result, context, trace),
     or the first run's trace is p ++ E :: q with E not in p, and the second run is (Err ef, p ++ sfx): it is the
        first run up to the first invocation of the callback, it ends there, and its outcome is the fault's
        error (ef = ESentinel s and sfx = [E] for a failing callback, ef = EOther and sfx = [] for an unknown name).

   The simulation is proved helper by helper (every helper of Eval.v with its evaluators / renderers as arbitrary
   functions that satisfy it), then lifted through the induction on fuel over eval, render and render_root.
   No helper needs a side condition: the two sites of the pinned tree that swallowed an error (x.y is defined,
   the spaceless tag) were repaired (aee56e1, 36660ef) and the model follows; c17_defined_attr and c17_spaceless are
   the lemmas about them. Everything else of the property follows from the simulation. *)
From Twig Require Import Base.Bytes Base.Utf8 Model.Ast Model.Value Model.ValueOps Model.Escape Model.EvalBuiltins Model.Ctx
                         Model.TemplateSet Model.Eval Spec.ErrSpec Gen.Registry.
From Coq Require Import ZifyBool ZifyNat ZifyN.

(* ================================================================ lookups in a modified environment *)
Lemma es_rebind_same l name cb cb0 :
  assoc_bytes l name = Some cb0 -> assoc_bytes (es_rebind l name cb) name = Some cb.
Proof.
  induction l as [|[n c] r IH]; cbn [assoc_bytes es_rebind]; [discriminate|].
  destruct (bytes_eqb n name) eqn:E; cbn [assoc_bytes]; rewrite E; [reflexivity|exact IH].
Qed.

Lemma es_rebind_other l name cb name' :
  name' <> name -> assoc_bytes (es_rebind l name cb) name' = assoc_bytes l name'.
Proof.
  intro Hne. induction l as [|[n c] r IH]; cbn [assoc_bytes es_rebind]; [reflexivity|].
  destruct (bytes_eqb n name) eqn:E; cbn [assoc_bytes].
  - apply bytes_eqb_eq in E. subst n.
    destruct (bytes_eqb name name') eqn:E2; [apply bytes_eqb_eq in E2; congruence|reflexivity].
  - rewrite IH. reflexivity.
Qed.

Lemma es_remove_same l name : assoc_bytes (es_remove l name) name = None.
Proof.
  unfold es_remove. induction l as [|[n c] r IH]; cbn [filter fst assoc_bytes]; [reflexivity|].
  destruct (bytes_eqb n name) eqn:E; cbn [negb]; [exact IH|].
  cbn [assoc_bytes]. rewrite E. exact IH.
Qed.

Lemma es_remove_other l name name' :
  name' <> name -> assoc_bytes (es_remove l name) name' = assoc_bytes l name'.
Proof.
  intro Hne. unfold es_remove. induction l as [|[n c] r IH]; cbn [filter fst assoc_bytes]; [reflexivity|].
  destruct (bytes_eqb n name) eqn:E; cbn [negb].
  - apply bytes_eqb_eq in E. subst n.
    destruct (bytes_eqb name name') eqn:E2; [apply bytes_eqb_eq in E2; congruence|exact IH].
  - cbn [assoc_bytes]. rewrite IH. reflexivity.
Qed.

(* putting the old behaviour back gives the old list *)
Lemma es_rebind_undo l name cb cb0 :
  assoc_bytes l name = Some cb0 -> es_rebind (es_rebind l name cb) name cb0 = l.
Proof.
  induction l as [|[n c] r IH]; cbn [assoc_bytes es_rebind]; [discriminate|].
  destruct (bytes_eqb n name) eqn:E; cbn [es_rebind]; rewrite E.
  - intro H. inversion H. reflexivity.
  - intro H. rewrite IH by exact H. reflexivity.
Qed.

Lemma es_event_inj k1 n1 k2 n2 : es_event k1 n1 = es_event k2 n2 -> k1 = k2 /\ n1 = n2.
Proof. destruct k1, k2; cbn; intro H; inversion H; auto. Qed.

Lemma es_with_cbs_tpls env k l : e_tpls (es_with_cbs env k l) = e_tpls env.
Proof. destruct k; reflexivity. Qed.
Lemma es_with_cbs_policy env k l : e_policy (es_with_cbs env k l) = e_policy env.
Proof. destruct k; reflexivity. Qed.
Lemma es_with_cbs_same env k l : es_cbs (es_with_cbs env k l) k = l.
Proof. destruct k; reflexivity. Qed.
Lemma es_with_cbs_other env k l k' : k' <> k -> es_cbs (es_with_cbs env k l) k' = es_cbs env k'.
Proof. destruct k, k'; intro H; try reflexivity; congruence. Qed.

Lemma es_with_cbs_id env k : es_with_cbs env k (es_cbs env k) = env.
Proof. destruct env, k; reflexivity. Qed.
Lemma es_with_cbs_twice env k l1 l2 : es_with_cbs (es_with_cbs env k l1) k l2 = es_with_cbs env k l2.
Proof. destruct k; reflexivity. Qed.

(* x.y is defined invokes what its object expression invokes, whatever it does with the outcome *)
Lemma ev_defined_attr_trace ev o a : snd (ev_defined_attr ev o a) = snd (ev o).
Proof.
  unfold ev_defined_attr. destruct (ev o) as [[obj|e| |] t]; try reflexivity.
  destruct obj as [|b|z|str|lt xs|mt kvs|ty fs|pt|tp nm|tp|id]; try reflexivity. destruct mt; reflexivity.
Qed.

Lemma es_kind_dec (a b : es_kind) : {a = b} + {a <> b}.
Proof. decide equality. Qed.

Lemma ev_cast_same (o : outcome bytes) : (forall b, o <> Ok b) -> ev_cast o (@Unmodelled bytes) = o.
Proof. destruct o; intro H; try reflexivity. exfalso. eapply H. reflexivity. Qed.

(* ================================================================ the simulation *)
Section Sim.
  (* the two runs: environment env, and environment env' in which one callback is faulty. E is the invocation
     event of that callback, ef the error class the faulty run ends in, sfx what its trace ends in after the common
     prefix: [E] when the callback is invoked and fails, [] when its name cannot be resolved. *)
  Variable E : tr_event.
  Variable ef : errclass.
  Variable sfx : ev_trace.
  Variables env env' : ev_env.
  Hypothesis Htpls : e_tpls env' = e_tpls env.
  Hypothesis Hpol : e_policy env' = e_policy env.
  Hypothesis HEload : forall n, TrLoad n <> E.

  Lemma c17_ts_lookup name : ts_lookup env' name = ts_lookup env name.
  Proof. unfold ts_lookup. rewrite Htpls. reflexivity. Qed.
  Lemma c17_ts_find_macro tpl name : ts_find_macro env' tpl name = ts_find_macro env tpl name.
  Proof. unfold ts_find_macro. rewrite c17_ts_lookup. reflexivity. Qed.
  Lemma c17_ts_sibling_macros tpl : ts_sibling_macros env' tpl = ts_sibling_macros env tpl.
  Proof. unfold ts_sibling_macros. rewrite c17_ts_lookup. reflexivity. Qed.
  Lemma c17_filter_allowed name : ev_filter_allowed env' name = ev_filter_allowed env name.
  Proof. unfold ev_filter_allowed. rewrite Hpol. reflexivity. Qed.
  Lemma c17_function_allowed name : ev_function_allowed env' name = ev_function_allowed env name.
  Proof. unfold ev_function_allowed. rewrite Hpol. reflexivity. Qed.
  Lemma c17_sandbox_denies c e : ev_sandbox_denies env' c e = ev_sandbox_denies env c e.
  Proof.
    unfold ev_sandbox_denies. rewrite Hpol.
    generalize (e_policy env). intros [pp|]; [|reflexivity].
    destruct e; try reflexivity; rewrite ?c17_function_allowed, ?c17_filter_allowed; reflexivity.
  Qed.

  (* ---------------------------------------------------------------- the relation *)
  Definition c17_sim {A} (x x' : outcome A * ev_trace) : Prop :=
    (~ In E (snd x) /\ x' = x) \/
    (exists p q, ~ In E p /\ snd x = p ++ E :: q /\ x' = (Err ef, p ++ sfx)).

  Definition c17_simr {A} (x x' : outcome A * rctx * ev_trace) : Prop :=
    (~ In E (snd x) /\ x' = x) \/
    (exists p q c', ~ In E p /\ snd x = p ++ E :: q /\ x' = (Err ef, c', p ++ sfx)).

  Lemma c17_sim_same {A} (x : outcome A * ev_trace) : ~ In E (snd x) -> c17_sim x x.
  Proof. intro H. left. split; [exact H|reflexivity]. Qed.
  Lemma c17_simr_same {A} (x : outcome A * rctx * ev_trace) : ~ In E (snd x) -> c17_simr x x.
  Proof. intro H. left. split; [exact H|reflexivity]. Qed.
  Lemma c17_sim_ret {A} (a : A) : c17_sim (ev_ret a) (ev_ret a).
  Proof. apply c17_sim_same. cbn. tauto. Qed.
  Lemma c17_sim_lift {A} (o : outcome A) : c17_sim (ev_lift o) (ev_lift o).
  Proof. apply c17_sim_same. cbn. tauto. Qed.
  Lemma c17_sim_nil {A} (o : outcome A) : c17_sim (o, []) (o, []).
  Proof. apply c17_sim_same. cbn. tauto. Qed.
  Lemma c17_simr_ret o c : c17_simr (ev_rret o c) (ev_rret o c).
  Proof. apply c17_simr_same. cbn. tauto. Qed.
  Lemma c17_simr_fail o c : c17_simr (ev_rfail o c) (ev_rfail o c).
  Proof. apply c17_simr_same. cbn. tauto. Qed.
  Lemma c17_not_in_single ev : ev <> E -> ~ In E [ev].
  Proof. intros H [H1|[]]. congruence. Qed.

  (* an expression-level step that keeps the trace and keeps the fault's error *)
  Lemma c17_sim_post {A B} (g : outcome A * ev_trace -> outcome B * ev_trace) x x' :
    (forall y, snd (g y) = snd y) -> (forall t, g (Err ef, t) = (Err ef, t)) ->
    c17_sim x x' -> c17_sim (g x) (g x').
  Proof.
    intros Htr Herr [[Hq ->]|[p [q [Hp [Ht ->]]]]].
    - left. split; [rewrite Htr; exact Hq|reflexivity].
    - right. exists p, q. rewrite Htr, Herr. auto.
  Qed.

  (* the same for a rendering step; the context of the faulty run is whatever it is *)
  Lemma c17_simr_post {A B} (g : outcome A * rctx * ev_trace -> outcome B * rctx * ev_trace) x x' :
    (forall y, snd (g y) = snd y) ->
    (forall c' t, exists c'', g (Err ef, c', t) = (Err ef, c'', t)) ->
    c17_simr x x' -> c17_simr (g x) (g x').
  Proof.
    intros Htr Herr [[Hq ->]|[p [q [c3 [Hp [Ht ->]]]]]].
    - left. split; [rewrite Htr; exact Hq|reflexivity].
    - right. destruct (Herr c3 (p ++ sfx)) as [c4 Hg]. exists p, q, c4. rewrite Htr. auto.
  Qed.

  Lemma c17_sim_bind {A B} (x x' : outcome A * ev_trace) (k k' : A -> outcome B * ev_trace) :
    c17_sim x x' -> (forall a, c17_sim (k a) (k' a)) -> c17_sim (ev_bind x k) (ev_bind x' k').
  Proof.
    intros [[Hq ->]|[p [q [Hp [Ht ->]]]]] Hk.
    - destruct x as [[a|e| |] t]; cbn [ev_bind ev_cast snd] in *; try (left; split; [exact Hq|reflexivity]).
      specialize (Hk a). destruct (k a) as [r2 t2], (k' a) as [r2' t2'].
      destruct Hk as [[Hq2 Heq]|[p2 [q2 [Hp2 [Ht2 Heq]]]]]; cbn [snd] in *; inversion Heq; subst.
      + left. split; [|reflexivity]. cbn [snd]. rewrite in_app_iff. tauto.
      + right. exists (t ++ p2), q2. split; [rewrite in_app_iff; tauto|].
        split; cbn [snd]; rewrite <- app_assoc; reflexivity.
    - right. destruct x as [r t]. cbn [snd] in Ht. subst t. cbn [ev_bind ev_cast].
      destruct r as [a|e| |]; cbn [ev_cast].
      + destruct (k a) as [r2 t2]. exists p, (q ++ t2). split; [exact Hp|]. split; [|reflexivity].
        cbn [snd]. rewrite <- app_assoc. reflexivity.
      + exists p, q. auto.
      + exists p, q. auto.
      + exists p, q. auto.
  Qed.

  Lemma c17_simr_rexpr {A} (x x' : outcome A * ev_trace) (c : rctx) (k k' : A -> ev_rres) :
    c17_sim x x' -> (forall a, c17_simr (k a) (k' a)) -> c17_simr (ev_rexpr x c k) (ev_rexpr x' c k').
  Proof.
    intros [[Hq ->]|[p [q [Hp [Ht ->]]]]] Hk.
    - destruct x as [[a|e| |] t]; cbn [ev_rexpr ev_cast snd] in *; try (left; split; [exact Hq|reflexivity]).
      specialize (Hk a). destruct (k a) as [[r2 c2] t2], (k' a) as [[r2' c2'] t2'].
      destruct Hk as [[Hq2 Heq]|[p2 [q2 [c3 [Hp2 [Ht2 Heq]]]]]]; cbn [snd] in *; inversion Heq; subst.
      + left. split; [|reflexivity]. cbn [snd]. rewrite in_app_iff. tauto.
      + right. exists (t ++ p2), q2, c3. split; [rewrite in_app_iff; tauto|].
        split; cbn [snd]; rewrite <- app_assoc; reflexivity.
    - right. destruct x as [r t]. cbn [snd] in Ht. subst t. cbn [ev_rexpr ev_cast].
      destruct r as [a|e| |]; cbn [ev_cast].
      + destruct (k a) as [[r2 c2] t2]. exists p, (q ++ t2), c. split; [exact Hp|]. split; [|reflexivity].
        cbn [snd]. rewrite <- app_assoc. reflexivity.
      + exists p, q, c. auto.
      + exists p, q, c. auto.
      + exists p, q, c. auto.
  Qed.

  Lemma c17_simr_rseq (x x' : ev_rres) (k k' : rctx -> ev_rres) :
    c17_simr x x' -> (forall c, c17_simr (k c) (k' c)) -> c17_simr (ev_rseq x k) (ev_rseq x' k').
  Proof.
    intros [[Hq ->]|[p [q [c3 [Hp [Ht ->]]]]]] Hk.
    - destruct x as [[[o|e| |] c] t]; cbn [ev_rseq snd] in *; try (left; split; [exact Hq|reflexivity]).
      specialize (Hk c). destruct (k c) as [[r2 c2] t2], (k' c) as [[r2' c2'] t2'].
      destruct Hk as [[Hq2 Heq]|[p2 [q2 [c4 [Hp2 [Ht2 Heq]]]]]]; cbn [snd] in *; inversion Heq; subst.
      + left. split; [|reflexivity]. destruct r2; cbn [snd]; rewrite in_app_iff; tauto.
      + right. exists (t ++ p2), q2, c4. split; [rewrite in_app_iff; tauto|].
        split; [destruct r2; cbn [snd]; rewrite <- app_assoc; reflexivity|]. rewrite <- app_assoc. reflexivity.
    - right. destruct x as [[r c] t]. cbn [snd] in Ht. subst t. cbn [ev_rseq].
      destruct r as [o|e| |].
      + destruct (k c) as [[r2 c2] t2]. exists p, (q ++ t2), c3. split; [exact Hp|]. split; [|reflexivity].
        destruct r2; cbn [snd]; rewrite <- app_assoc; reflexivity.
      + exists p, q, c3. auto.
      + exists p, q, c3. auto.
      + exists p, q, c3. auto.
  Qed.

  (* the context of a finished step replaced: let (r, c1, t) := x in (r, g c1, t) *)
  Definition c17_mapctx {A} (g : rctx -> rctx) (x : outcome A * rctx * ev_trace) : outcome A * rctx * ev_trace :=
    let '(r, c1, t) := x in (r, g c1, t).
  Lemma c17_simr_mapctx {A} (g : rctx -> rctx) (x x' : outcome A * rctx * ev_trace) :
    c17_simr x x' -> c17_simr (c17_mapctx g x) (c17_mapctx g x').
  Proof.
    apply (c17_simr_post (c17_mapctx g)); [intros [[r c1] t]; reflexivity|intros c' t; eexists; reflexivity].
  Qed.

  (* an expression-level result carried into a rendering result with context c, and back *)
  Definition c17_inctx {A} (c : rctx) (x : outcome A * ev_trace) : outcome A * rctx * ev_trace := let '(r, t) := x in (r, c, t).
  Lemma c17_simr_inctx {A} c (x x' : outcome A * ev_trace) : c17_sim x x' -> c17_simr (c17_inctx c x) (c17_inctx c x').
  Proof.
    intros [[Hq ->]|[p [q [Hp [Ht ->]]]]].
    - left. destruct x as [r t]. split; [exact Hq|reflexivity].
    - right. destruct x as [r t]. exists p, q, c. auto.
  Qed.
  Definition c17_unctx (x : ev_rres) : outcome bytes * ev_trace := let '(r, _, t) := x in (r, t).
  Lemma c17_sim_unctx x x' : c17_simr x x' -> c17_sim (c17_unctx x) (c17_unctx x').
  Proof.
    intros [[Hq ->]|[p [q [c3 [Hp [Ht ->]]]]]].
    - left. destruct x as [[r c0] t]. split; [exact Hq|reflexivity].
    - right. destruct x as [[r c0] t]. exists p, q. auto.
  Qed.

  (* ---------------------------------------------------------------- callbacks: what the two environments differ in *)
  Hypothesis Hflt : forall c name v args,
    c17_sim (ev_apply_filter env c name v args) (ev_apply_filter env' c name v args).
  (* ctx.CallFunction is reached only when no macro of that name is in scope *)
  Hypothesis Hfun : forall c name args, rc_get_macro c name = None ->
    c17_sim (ev_call_function env c name args) (ev_call_function env' c name args).
  Hypothesis Htst : forall name v args,
    c17_sim (ev_call_test env name v args) (ev_call_test env' name v args).

  Lemma c17_self_call c name args : c17_sim (ev_self_call env c name args) (ev_self_call env' c name args).
  Proof.
    unfold ev_self_call. destruct (rc_get_macro c name) as [[tpl nm]|] eqn:Em; [apply c17_sim_nil|apply Hfun; exact Em].
  Qed.

  (* ---------------------------------------------------------------- expressions *)
  Definition c17_ev_ok (ev ev' : expr -> ev_res) : Prop := forall e, c17_sim (ev e) (ev' e).

  Section Expr.
    Variables ev ev' : expr -> ev_res.
    Hypothesis Hev : c17_ev_ok ev ev'.
    Variable c : rctx.

    Lemma c17_list es : c17_sim (ev_list ev es) (ev_list ev' es).
    Proof.
      induction es as [|e r IH]; cbn [ev_list]; [apply c17_sim_ret|].
      apply c17_sim_bind; [apply Hev|]. intros v.
      apply c17_sim_bind; [apply IH|]. intros vs. apply c17_sim_ret.
    Qed.

    Lemma c17_pairs kvs : forall acc, c17_sim (ev_pairs ev kvs acc) (ev_pairs ev' kvs acc).
    Proof.
      induction kvs as [|[k x] r IH]; cbn [ev_pairs]; intros acc; [apply c17_sim_ret|].
      apply c17_sim_bind; [apply Hev|]. intros kv.
      destruct (vo_to_str kv); [|apply c17_sim_lift].
      apply c17_sim_bind; [apply Hev|]. intros xv. apply IH.
    Qed.

    Lemma c17_chain_args ch : c17_sim (ev_chain_args ev ch) (ev_chain_args ev' ch).
    Proof.
      induction ch as [|[g args] r IH]; cbn [ev_chain_args]; [apply c17_sim_ret|].
      apply c17_sim_bind; [apply c17_list|]. intros vs.
      apply c17_sim_bind; [apply IH|]. intros rest. apply c17_sim_ret.
    Qed.

    Lemma c17_apply_chain ch : forall v, c17_sim (ev_apply_chain env c v ch) (ev_apply_chain env' c v ch).
    Proof.
      induction ch as [|[g vs] r IH]; intro v; cbn [ev_apply_chain]; [apply c17_sim_ret|].
      apply c17_sim_bind; [apply Hflt|]. intros w. apply IH.
    Qed.

    Lemma c17_filter_chain e nil_to_empty :
      c17_sim (ev_filter_chain ev env c e nil_to_empty) (ev_filter_chain ev' env' c e nil_to_empty).
    Proof.
      unfold ev_filter_chain. destruct (ev_unchain e) as [base ch].
      apply c17_sim_bind; [apply c17_chain_args|]. intros args.
      apply c17_sim_bind; [apply Hev|]. intros v.
      apply c17_sim_bind; [apply c17_apply_chain|]. intros w. apply c17_sim_ret.
    Qed.

    (* x.y is defined: an error of the object expression is the error of the test (render.go TestNode, aee56e1) *)
    Lemma c17_defined_attr o a : c17_sim (ev_defined_attr ev o a) (ev_defined_attr ev' o a).
    Proof.
      destruct (Hev o) as [[Hq Heq]|[p [q [Hp [Ht Heq]]]]].
      - assert (Hsame : ev_defined_attr ev' o a = ev_defined_attr ev o a) by (unfold ev_defined_attr; rewrite Heq; reflexivity).
        rewrite Hsame. apply c17_sim_same. rewrite ev_defined_attr_trace. exact Hq.
      - right. exists p, q. split; [exact Hp|]. split; [rewrite ev_defined_attr_trace; exact Ht|].
        unfold ev_defined_attr. rewrite Heq. reflexivity.
    Qed.

    Lemma c17_test a t args :
      c17_sim (ev_bind (ev a) (fun v => ev_bind (ev_list ev args) (fun vs => ev_call_test env t v vs)))
              (ev_bind (ev' a) (fun v => ev_bind (ev_list ev' args) (fun vs => ev_call_test env' t v vs))).
    Proof.
      apply c17_sim_bind; [apply Hev|]. intros v.
      apply c17_sim_bind; [apply c17_list|]. intros vs. apply Htst.
    Qed.

    Lemma c17_expr e : c17_sim (ev_expr ev env c e) (ev_expr ev' env' c e).
    Proof.
      unfold ev_expr. rewrite c17_sandbox_denies.
      destruct (ev_sandbox_denies env c e); [apply c17_sim_nil|].
      destruct e as [l|x|o a|o i|uo a|bo l r|q a b|es|kvs|o g args|g args|m g args|a t args neg].
      - apply c17_sim_lift.
      - match goal with |- c17_sim (match ?m with _ => _ end) _ => destruct m as [[tpl nm]|] end; [apply c17_sim_ret|].
        destruct (rc_hack_name x); [apply c17_sim_lift|apply c17_sim_ret].
      - apply c17_sim_bind; [apply Hev|]. intros obj. apply c17_sim_lift.
      - apply c17_sim_bind; [apply Hev|]. intros ov.
        apply c17_sim_bind; [apply Hev|]. intros iv. apply c17_sim_lift.
      - apply c17_sim_bind; [apply Hev|]. intros v. apply c17_sim_lift.
      - apply c17_sim_bind; [apply Hev|]. intros lv.
        destruct bo; try (apply c17_sim_bind; [apply Hev|]; intros rv; apply c17_sim_lift).
        + destruct (vo_to_bool lv); [apply c17_sim_ret|].
          apply c17_sim_bind; [apply Hev|]. intros rv. apply c17_sim_lift.
        + destruct (vo_to_bool lv); [|apply c17_sim_ret].
          apply c17_sim_bind; [apply Hev|]. intros rv. apply c17_sim_lift.
      - apply c17_sim_bind; [apply Hev|]. intros qv. destruct (vo_to_bool qv); apply Hev.
      - apply c17_sim_bind; [apply c17_list|]. intros vs. apply c17_sim_ret.
      - apply c17_pairs.
      - apply c17_filter_chain.
      - destruct (rc_get_macro c g) as [[tpl nm]|] eqn:Em.
        + apply c17_sim_bind; [apply c17_list|]. intros vs. apply c17_sim_ret.
        + apply c17_sim_bind; [apply c17_list|]. intros vs.
          apply c17_sim_bind; [apply Hfun; exact Em|]. intros rv. apply c17_sim_ret.
      - apply c17_sim_bind; [apply Hev|]. intros mo.
        apply c17_sim_bind; [apply c17_list|]. intros vs.
        destruct mo as [|b|z|str|lt xs|mt mkvs|ty fs|pt|tp nm|tp|id]; try apply c17_self_call.
        destruct mt; try apply c17_self_call.
        destruct (vo_map_find mkvs (VStr g)) as [[|b|z|str|lt xs|mt mkvs2|ty fs|pt|tp nm|tp|id]|]; try apply c17_self_call.
        apply c17_sim_ret.
      - assert (Hr : c17_sim
          (if bytes_eqb t b#"defined" then
             match a with
             | EAttr o attr => ev_defined_attr ev o attr
             | EVar x => ev_defined_var c x
             | _ => ev_bind (ev a) (fun v => ev_bind (ev_list ev args) (fun vs => ev_call_test env t v vs))
             end
           else ev_bind (ev a) (fun v => ev_bind (ev_list ev args) (fun vs => ev_call_test env t v vs)))
          (if bytes_eqb t b#"defined" then
             match a with
             | EAttr o attr => ev_defined_attr ev' o attr
             | EVar x => ev_defined_var c x
             | _ => ev_bind (ev' a) (fun v => ev_bind (ev_list ev' args) (fun vs => ev_call_test env' t v vs))
             end
           else ev_bind (ev' a) (fun v => ev_bind (ev_list ev' args) (fun vs => ev_call_test env' t v vs)))).
        { destruct (bytes_eqb t b#"defined"); [|apply c17_test].
          destruct a as [l|x|o at0|o i|uo a0|bo l r|q a0 b0|es|kvs|o g args0|g args0|m g args0|a0 t0 args0 neg0]; try apply c17_test.
          - unfold ev_defined_var. destruct (rc_own_var c x); [apply c17_sim_ret|].
            destruct (rc_hack_name x); [apply c17_sim_lift|apply c17_sim_ret].
          - apply c17_defined_attr. }
        destruct neg; [|exact Hr].
        apply c17_sim_bind; [exact Hr|]. intros v. apply c17_sim_ret.
    Qed.

    Lemma c17_for_seq_aux seq :
      c17_sim (match seq with
               | EFilter _ _ _ => ev_filter_chain ev env c seq false
               | EVar x => if existsb (Byte.eqb x7c) x then ev_lift Unmodelled else ev seq
               | _ => ev seq
               end)
              (match seq with
               | EFilter _ _ _ => ev_filter_chain ev' env' c seq false
               | EVar x => if existsb (Byte.eqb x7c) x then ev_lift Unmodelled else ev' seq
               | _ => ev' seq
               end).
    Proof.
      destruct seq; try apply Hev.
      - destruct (existsb (Byte.eqb x7c) x); [apply c17_sim_lift|apply Hev].
      - apply c17_filter_chain.
    Qed.
  End Expr.

  Lemma c17_eval_ok : forall fuel c, c17_ev_ok (eval fuel env c) (eval fuel env' c).
  Proof.
    induction fuel as [|fu IH]; intros c e.
    - apply c17_sim_nil.
    - cbn [eval]. apply c17_expr. apply IH.
  Qed.

  (* ---------------------------------------------------------------- rendering *)
  Definition c17_evs_ok (ev ev' : rctx -> expr -> ev_res) : Prop := forall c, c17_ev_ok (ev c) (ev' c).
  Definition c17_rend_ok (rend rend' : rctx -> list node -> ev_rres) : Prop :=
    forall c ns, c17_simr (rend c ns) (rend' c ns).

  Section Render.
    Variables ev ev' : rctx -> expr -> ev_res.
    Variables rend rend' root root' : rctx -> list node -> ev_rres.
    Hypothesis Hevs : c17_evs_ok ev ev'.
    Hypothesis Hrend : c17_rend_ok rend rend'.
    Hypothesis Hroot : c17_rend_ok root root'.

    Lemma c17_else c els :
      c17_simr (match els with Some b => rend c b | None => ev_rret [] c end)
               (match els with Some b => rend' c b | None => ev_rret [] c end).
    Proof. destruct els; [apply Hrend|apply c17_simr_ret]. Qed.

    Lemma c17_if c brs els :
      c17_simr (ev_if (fun c e => ev c e) rend c brs els) (ev_if (fun c e => ev' c e) rend' c brs els).
    Proof.
      induction brs as [|[cnd body] rest IH]; cbn [ev_if].
      - apply c17_else.
      - apply c17_simr_rexpr; [apply Hevs|]. intros v. destruct (vo_to_bool v); [apply Hrend|apply IH].
    Qed.

    Lemma c17_loop_items (body body' : rctx -> ev_rres) k v n :
      (forall c, c17_simr (body c) (body' c)) ->
      forall items i c, c17_simr (ev_loop_items body k v n i items c) (ev_loop_items body' k v n i items c).
    Proof.
      intro Hb. induction items as [|it rest IH]; intros i c; cbn [ev_loop_items].
      - apply c17_simr_ret.
      - apply c17_simr_rseq; [apply Hb|]. intros c1. apply IH.
    Qed.

    Lemma c17_for_loop c k v sv body els :
      c17_simr (ev_for_loop rend c k v sv body els) (ev_for_loop rend' c k v sv body els).
    Proof.
      unfold ev_for_loop.
      destruct (ev_loop_items_of sv) as [[|it items]|]; try apply c17_else.
      exact (c17_simr_mapctx (fun c' => match rc_own_var c b#"loop" with Some outer => rc_set_var c' b#"loop" outer | None => c' end) _ _
               (c17_loop_items (fun c0 => rend c0 body) (fun c0 => rend' c0 body) k v
                  (Z.of_nat (length (it :: items))) (fun c0 => Hrend c0 body) (it :: items) 0%Z c)).
    Qed.

    Lemma c17_for c k v seq body els :
      c17_simr (ev_for ev rend env c k v seq body els) (ev_for ev' rend' env' c k v seq body els).
    Proof.
      unfold ev_for, ev_for_seq.
      apply c17_simr_rexpr; [apply c17_for_seq_aux; apply Hevs|]. intros sv. apply c17_for_loop.
    Qed.

    Lemma c17_set c x e : c17_simr (ev_set ev c x e) (ev_set ev' c x e).
    Proof.
      unfold ev_set. apply c17_simr_rexpr; [apply Hevs|]. intros v.
      destruct (ev_set_guard c v); [apply c17_simr_fail|apply c17_simr_ret].
    Qed.

    Lemma c17_bind_params (evc evc' : expr -> ev_res) : c17_ev_ok evc evc' -> forall params args mc,
      c17_sim (ev_bind_params evc params args mc) (ev_bind_params evc' params args mc).
    Proof.
      intro Hc. induction params as [|[pn d] rest IH]; intros args mc; cbn [ev_bind_params].
      - apply c17_sim_ret.
      - destruct args as [|a args']; [|apply IH].
        destruct d as [de|]; [|apply IH].
        apply c17_sim_bind; [apply Hc|]. intros v. apply IH.
    Qed.

    Lemma c17_call_macro c tpl name args :
      c17_sim (ev_call_macro ev rend env c tpl name args) (ev_call_macro ev' rend' env' c tpl name args).
    Proof.
      unfold ev_call_macro. rewrite c17_ts_find_macro, c17_ts_sibling_macros.
      destruct (ts_find_macro env tpl name) as [[params body]|]; [|apply c17_sim_nil].
      destruct (existsb vo_has_callable args || negb (ev_macro_body_plain body)); [apply c17_sim_nil|].
      apply c17_sim_bind; [apply c17_bind_params; apply Hevs|]. intros mc.
      exact (c17_sim_unctx _ _ (Hrend mc body)).
    Qed.

    Lemma c17_parent_call c : c17_simr (ev_parent_call rend c) (ev_parent_call rend' c).
    Proof.
      unfold ev_parent_call. destruct (rc_cur_block c); [|apply c17_simr_fail].
      destruct (nth_error (rc_cur_defs c) (S (rc_depth c))) as [d|]; [|apply c17_simr_fail].
      exact (c17_simr_mapctx (fun c' => rc_with_depth c' (S (rc_depth c) - 1) (rc_tpl c)) _ _
               (Hrend (rc_with_depth c (S (rc_depth c)) (bd_tpl d)) (bd_body d))).
    Qed.

    Lemma c17_print c e : c17_simr (ev_print ev rend env c e) (ev_print ev' rend' env' c e).
    Proof.
      unfold ev_print. apply c17_simr_rexpr; [apply Hevs|]. intros v.
      destruct (vo_view v); try (destruct (vo_to_str v); [apply c17_simr_ret|apply c17_simr_fail]).
      - exact (c17_simr_inctx c _ _ (c17_call_macro c tpl name args)).
      - apply c17_parent_call.
    Qed.

    Lemma c17_block c name body : c17_simr (ev_block rend c name body) (ev_block rend' c name body).
    Proof.
      unfold ev_block.
      destruct (if existsb (fun d => bytes_eqb (bd_tpl d) (rc_tpl c)) (ev_chain_defs c name)
                then ev_chain_defs c name else ev_chain_defs c name ++ [MkBd (rc_tpl c) body]) as [|d ds]; [apply c17_simr_fail|].
      exact (c17_simr_mapctx (fun c' => rc_with_current c' (rc_cur_block c) (rc_cur_defs c) (rc_depth c) (rc_tpl c)) _ _
               (Hrend (rc_with_current c (Some name) (d :: ds) 0 (bd_tpl d)) (bd_body d))).
    Qed.

    Lemma c17_load c e : c17_sim (ev_load ev env c e) (ev_load ev' env' c e).
    Proof.
      unfold ev_load. apply c17_sim_bind; [apply Hevs|]. intros v.
      destruct (vo_to_str v) as [name|]; [|apply c17_sim_lift].
      destruct (ev_relative name); [apply c17_sim_lift|].
      rewrite c17_ts_lookup. apply c17_sim_same. apply c17_not_in_single. apply HEload.
    Qed.

    Lemma c17_extends c e : c17_simr (ev_extends ev root env c e) (ev_extends ev' root' env' c e).
    Proof.
      unfold ev_extends. apply c17_simr_rexpr; [apply c17_load|]. intros [name [pnodes|]]; cbn [fst snd]; [|apply c17_simr_fail].
      exact (c17_simr_mapctx (fun _ => rc_with_extending c true) _ _ (Hroot _ pnodes)).
    Qed.

    Lemma c17_root c ns : c17_simr (ev_root ev rend root env c ns) (ev_root ev' rend' root' env' c ns).
    Proof.
      unfold ev_root. destruct (negb (ts_wf ns)); [apply c17_simr_fail|].
      destruct (ev_first_pass ns (rc_extending c) (rc_blocks c) None) as [blocks [e|]]; [apply c17_extends|apply Hrend].
    Qed.

    Lemma c17_with_vars (evc evc' : expr -> ev_res) : c17_ev_ok evc evc' -> forall kvs ic,
      c17_sim (ev_with_vars evc kvs ic) (ev_with_vars evc' kvs ic).
    Proof.
      intro Hc. induction kvs as [|[k x] rest IH]; intros ic; cbn [ev_with_vars]; [apply c17_sim_ret|].
      apply c17_sim_bind; [apply Hc|]. intros v.
      destruct (vo_has_callable v); [apply c17_sim_lift|apply IH].
    Qed.

    Lemma c17_include c e withs ign only sb :
      c17_simr (ev_include ev root env c e withs ign only sb) (ev_include ev' root' env' c e withs ign only sb).
    Proof.
      unfold ev_include. apply c17_simr_rexpr; [apply c17_load|]. intros [name [inodes|]]; cbn [fst snd].
      2:{ destruct ign; [apply c17_simr_ret|apply c17_simr_fail]. }
      destruct (match withs with None => Some [] | Some (EHash kvs) => ev_with_dedup kvs | Some _ => None end) as [kvs|];
        [|apply c17_simr_fail].
      rewrite Hpol.
      assert (Hfin : forall ic0,
        c17_simr (ev_rexpr (ev_with_vars (ev c) kvs ic0) c (fun ic => let '(r, _, t0) := root ic inodes in (r, c, t0)))
                 (ev_rexpr (ev_with_vars (ev' c) kvs ic0) c (fun ic => let '(r, _, t0) := root' ic inodes in (r, c, t0)))).
      { intros ic0. apply c17_simr_rexpr; [apply c17_with_vars; apply Hevs|]. intros ic.
        exact (c17_simr_mapctx (fun _ => c) _ _ (Hroot ic inodes)). }
      destruct (negb only && negb sb); [apply Hfin|].
      destruct (sb && match e_policy env with None => true | Some _ => false end); [apply c17_simr_fail|apply Hfin].
    Qed.

    Lemma c17_import_macros c e : c17_simr (ev_import_macros ev root env c e) (ev_import_macros ev' root' env' c e).
    Proof.
      unfold ev_import_macros. pose proof (c17_load c e) as Hl.
      destruct (ev_load ev env c e) as [rl tl].
      destruct Hl as [[Hq ->]|[p [q [Hp [Ht ->]]]]]; cbn [snd] in *.
      - destruct rl as [[name [inodes|]]|er| |]; cbn [ev_cast]; try (apply c17_simr_same; exact Hq).
        destruct (Hroot (rc_derive (rc_fresh [] name) None (rc_sandboxed c) (Some name)) inodes) as [[Hq2 ->]|[p2 [q2 [c3 [Hp2 [Ht2 ->]]]]]].
        + apply c17_simr_same. destruct (root _ inodes) as [[[o|er| |] ic'] t2]; cbn [snd ev_cast] in *; rewrite in_app_iff; tauto.
        + right. exists (tl ++ p2), q2, c. split; [rewrite in_app_iff; tauto|].
          destruct (root _ inodes) as [[ro ic'] t2]. cbn [snd] in Ht2. subst t2. cbn [ev_cast].
          split; [destruct ro; cbn [snd]; rewrite <- app_assoc; reflexivity|rewrite <- app_assoc; reflexivity].
      - right. subst tl.
        destruct rl as [[name [inodes|]]|er| |]; cbn [ev_cast snd]; try solve [exists p, q, c; auto].
        destruct (root _ inodes) as [[ro ic'] t2]. exists p, (q ++ t2), c. split; [exact Hp|]. split; [|reflexivity].
        destruct ro; cbn [snd ev_cast]; rewrite <- app_assoc; reflexivity.
    Qed.

    Lemma c17_import c e alias : c17_simr (ev_import ev root env c e alias) (ev_import ev' root' env' c e alias).
    Proof.
      unfold ev_import.
      exact (c17_simr_post
          (fun y : outcome (list (bytes * (bytes * bytes))) * rctx * ev_trace =>
             match y with
             | (Ok ms, _, t) => (Ok [], rc_set_var c alias (VMap MAny (map (fun m => (VStr (fst m), VMacro (fst (snd m)) (snd (snd m)))) ms)), t)
             | (o, _, t) => (ev_cast o (@Unmodelled bytes), c, t)
             end) _ _
          (fun y => ltac:(destruct y as [[[ms|er| |] c0] t]; reflexivity))
          (fun c' t => ex_intro _ c eq_refl) (c17_import_macros c e)).
    Qed.

    Lemma c17_from c e names : c17_simr (ev_from ev root env c e names) (ev_from ev' root' env' c e names).
    Proof.
      unfold ev_from.
      exact (c17_simr_post
          (fun y : outcome (list (bytes * (bytes * bytes))) * rctx * ev_trace =>
             match y with
             | (Ok ms, _, t) =>
               if negb (ts_no_dup (map fst names)) then (@Unmodelled bytes, c, t)
               else match ev_from_names ms names c with
                    | Ok c' => (Ok [], c', t)
                    | o => (ev_cast o (@Unmodelled bytes), c, t)
                    end
             | (o, _, t) => (ev_cast o (@Unmodelled bytes), c, t)
             end) _ _
          (fun y => ltac:(destruct y as [[[ms|er| |] c0] t]; try reflexivity;
                          destruct (negb (ts_no_dup (map fst names))); [reflexivity|];
                          destruct (ev_from_names ms names c); reflexivity))
          (fun c' t => ex_intro _ c eq_refl) (c17_import_macros c e)).
    Qed.

    (* a rendered body followed by an expression-level step that replaces the output *)
    Lemma c17_body_then (c : rctx) (body : list node) (k k' : bytes -> rctx -> outcome bytes * ev_trace) :
      (forall content c1, c17_sim (k content c1) (k' content c1)) ->
      c17_simr (match rend c body with
                | (Ok content, c1, t1) => let '(o, t2) := k content c1 in (o, c1, t1 ++ t2)
                | other => other
                end)
               (match rend' c body with
                | (Ok content, c1, t1) => let '(o, t2) := k' content c1 in (o, c1, t1 ++ t2)
                | other => other
                end).
    Proof.
      intros Hk. destruct (Hrend c body) as [[Hq ->]|[p [q [c3 [Hp [Ht ->]]]]]].
      - destruct (rend c body) as [[[content|er| |] c1] t1]; try (apply c17_simr_same; exact Hq).
        cbn [snd] in *.
        destruct (Hk content c1) as [[Hq2 ->]|[p2 [q2 [Hp2 [Ht2 ->]]]]].
        + apply c17_simr_same. destruct (k content c1) as [o t2]. cbn [snd] in *. rewrite in_app_iff. tauto.
        + right. destruct (k content c1) as [o t2]. cbn [snd] in Ht2. subst t2.
          exists (t1 ++ p2), q2, c1. split; [rewrite in_app_iff; tauto|].
          split; cbn [snd]; rewrite <- app_assoc; reflexivity.
      - right. destruct (rend c body) as [[[content|er| |] c1] t1]; cbn [snd] in *; try solve [exists p, q, c3; auto].
        destruct (k content c1) as [o t2]. exists p, (q ++ t2), c3. split; [exact Hp|]. split; [|reflexivity].
        cbn [snd]. subst t1. rewrite <- app_assoc. reflexivity.
    Qed.

    Lemma c17_apply c g args body :
      c17_simr (ev_apply ev rend env c g args body) (ev_apply ev' rend' env' c g args body).
    Proof.
      assert (Hk : forall content c1,
        c17_sim (ev_bind (ev_list (ev c1) args) (fun vs => ev_bind (ev_apply_filter env c1 g (VStr content) vs) (fun w => ev_opt (vo_to_str w))))
                (ev_bind (ev_list (ev' c1) args) (fun vs => ev_bind (ev_apply_filter env' c1 g (VStr content) vs) (fun w => ev_opt (vo_to_str w))))).
      { intros content c1. apply c17_sim_bind; [apply c17_list; apply Hevs|]. intros vs.
        apply c17_sim_bind; [apply Hflt|]. intros w. destruct (vo_to_str w); apply c17_sim_nil. }
      pose proof (c17_body_then c body _ _ Hk) as H. unfold ev_apply.
      destruct (rend c body) as [[[content|er| |] c1] t1], (rend' c body) as [[[content'|er'| |] c1'] t1']; try exact H;
        repeat match goal with
        | |- context [ev_bind ?a ?b] => destruct (ev_bind a b) as [[?|?| |] ?]
        | H : context [ev_bind ?a ?b] |- _ => destruct (ev_bind a b) as [[?|?| |] ?]
        end; exact H.
    Qed.

    (* the spaceless tag: a failing filter fails the tag (whitespace.go SpacelessNode.Render, 36660ef) *)
    Lemma c17_spaceless c body : c17_simr (ev_spaceless rend env c body) (ev_spaceless rend' env' c body).
    Proof.
      set (g := fun y : outcome value * ev_trace =>
        match y with
        | (Ok w, t2) => (match vo_to_str w with Some s0 => Ok s0 | None => @Unmodelled bytes end, t2)
        | (Err e, t2) => (Err e, t2)
        | (o, t2) => (ev_cast o (@Unmodelled bytes), t2)
        end).
      set (k := fun (en : ev_env) (content : bytes) (c1 : rctx) => g (ev_apply_filter en c1 b#"spaceless" (VStr content) [])).
      assert (Hk : forall content c1, c17_sim (k env content c1) (k env' content c1)).
      { intros content c1. unfold k. apply c17_sim_post; [intros [[w|er| |] t2]; reflexivity|reflexivity|apply Hflt]. }
      pose proof (c17_body_then c body (k env) (k env') Hk) as H. unfold ev_spaceless, k, g in *.
      destruct (rend c body) as [[[content|er| |] c1] t1], (rend' c body) as [[[content'|er'| |] c1'] t1']; try exact H;
        repeat match goal with
        | |- context [ev_apply_filter ?a ?b ?c0 ?d ?e0] => destruct (ev_apply_filter a b c0 d e0) as [[?|?| |] ?]
        | H : context [ev_apply_filter ?a ?b ?c0 ?d ?e0] |- _ => destruct (ev_apply_filter a b c0 d e0) as [[?|?| |] ?]
        end; exact H.
    Qed.

    Lemma c17_render_node c n :
      c17_simr (render_node ev rend root env c n) (render_node ev' rend' root' env' c n).
    Proof.
      destruct n; cbn [render_node].
      - apply c17_simr_ret.
      - apply c17_print.
      - apply c17_if.
      - apply c17_for.
      - apply c17_set.
      - apply c17_simr_rexpr; [apply Hevs|]. intros v. apply c17_simr_ret.
      - apply c17_block.
      - apply c17_extends.
      - apply c17_include.
      - apply c17_simr_ret.
      - apply c17_import.
      - apply c17_from.
      - apply c17_simr_ret.
      - apply c17_apply.
      - apply c17_spaceless.
    Qed.
  End Render.

  (* ---------------------------------------------------------------- the induction on fuel *)
  Lemma c17_render_both : forall fuel,
    c17_rend_ok (render fuel env) (render fuel env') /\ c17_rend_ok (render_root fuel env) (render_root fuel env').
  Proof.
    induction fuel as [|fu [IHr IHt]]; split; intros c ns.
    - cbn [render]. apply c17_simr_same. cbn. tauto.
    - cbn [render_root]. apply c17_simr_same. cbn. tauto.
    - cbn [render]. destruct ns as [|n rest]; [apply c17_simr_ret|].
      apply c17_simr_rseq.
      + apply c17_render_node; try assumption. intro c0. apply c17_eval_ok.
      + intros c1. apply IHr.
    - cbn [render_root]. apply c17_root; try assumption. intro c0. apply c17_eval_ok.
  Qed.

  Lemma c17_render_template_sim fuel name vars :
    c17_sim (render_template fuel env name vars) (render_template fuel env' name vars).
  Proof.
    unfold render_template. rewrite c17_ts_lookup.
    destruct (ts_lookup env name) as [ns|].
    - destruct (c17_render_both fuel) as [_ Ht].
      destruct (Ht (rc_derive (rc_fresh vars name) None false (Some name)) ns) as [[Hq ->]|[p [q [c3 [Hp [Hx ->]]]]]].
      + left. destruct (render_root fuel env _ ns) as [[r c1] t]. split; [|reflexivity].
        cbn [snd] in *. intros [H|H]; [exact (HEload name H)|exact (Hq H)].
      + right. destruct (render_root fuel env _ ns) as [[r c1] t]. cbn [snd] in *. subst t.
        exists (TrLoad name :: p), q. split; [|split; reflexivity].
        intros [H|H]; [exact (HEload name H)|exact (Hp H)].
    - apply c17_sim_same. apply c17_not_in_single. apply HEload.
  Qed.
End Sim.

(* ================================================================ instance 1: the callback fails *)
Section Fail.
  Variable K : es_kind.
  Variable f : bytes.
  Variable s : nat.
  Variable env : ev_env.
  Variable cb0 : cb_kind.
  Hypothesis Hbound : es_lookup env K f = Some cb0.

  Let env' := es_env_fail K f s env.
  Let E := es_event K f.
  Let sim {A} := @c17_sim E (ESentinel s) [E] A.

  Lemma c17f_lookup_hit : es_lookup env' K f = Some (CbFail s).
  Proof.
    unfold es_lookup, env', es_env_fail. rewrite es_with_cbs_same.
    eapply es_rebind_same. exact Hbound.
  Qed.
  Lemma c17f_lookup_miss k name : es_event k name <> E -> es_lookup env' k name = es_lookup env k name.
  Proof.
    intro Hne. unfold es_lookup, env', es_env_fail.
    destruct (es_kind_dec k K) as [->|Hk].
    - rewrite es_with_cbs_same. apply es_rebind_other. intro Heq. apply Hne. subst name. reflexivity.
    - rewrite es_with_cbs_other by exact Hk. reflexivity.
  Qed.
  Lemma c17f_cb_lookup k name :
    (es_event k name = E /\ es_lookup env k name = Some cb0 /\ es_lookup env' k name = Some (CbFail s)) \/
    (es_event k name <> E /\ es_lookup env' k name = es_lookup env k name).
  Proof.
    destruct (es_kind_dec k K) as [->|Hk].
    - destruct (bytes_eqb name f) eqn:Ef.
      + apply bytes_eqb_eq in Ef. subst name. left. split; [reflexivity|]. split; [exact Hbound|apply c17f_lookup_hit].
      + right. assert (Hne : es_event K name <> E).
        { intro H. apply es_event_inj in H. destruct H as [_ H]. subst name. rewrite bytes_eqb_refl in Ef. discriminate. }
        split; [exact Hne|apply c17f_lookup_miss; exact Hne].
    - right. assert (Hne : es_event k name <> E).
      { intro H. apply es_event_inj in H. tauto. }
      split; [exact Hne|apply c17f_lookup_miss; exact Hne].
  Qed.

  Lemma c17f_filter_allowed name : ev_filter_allowed env' name = ev_filter_allowed env name.
  Proof. unfold ev_filter_allowed, env', es_env_fail. rewrite es_with_cbs_policy. reflexivity. Qed.
  Lemma c17f_function_allowed name : ev_function_allowed env' name = ev_function_allowed env name.
  Proof. unfold ev_function_allowed, env', es_env_fail. rewrite es_with_cbs_policy. reflexivity. Qed.

  Lemma c17f_apply_filter c name v args :
    sim (ev_apply_filter env c name v args) (ev_apply_filter env' c name v args).
  Proof.
    unfold ev_apply_filter. rewrite c17f_filter_allowed.
    destruct (rc_sandboxed c && negb (ev_filter_allowed env name)); [apply c17_sim_nil|].
    destruct (c17f_cb_lookup EsFilter name) as [[HE [H1 H2]]|[HE H2]];
      unfold es_lookup in *; cbn [es_cbs] in *.
    - rewrite H1, H2. right. exists [], []. split; [tauto|]. cbn [es_event] in HE. cbn [snd app ev_callback]. rewrite HE. auto.
    - rewrite H2. cbn [es_event] in HE.
      destruct (assoc_bytes (e_filters env) name).
      + apply c17_sim_same. apply c17_not_in_single. exact HE.
      + destruct (ev_registered reg_GetFilters name); [apply c17_sim_same; apply c17_not_in_single; exact HE|].
        destruct (bytes_eqb name b#"e" || bytes_eqb name b#"escape"); apply c17_sim_nil.
  Qed.

  Lemma c17f_call_function c name args :
    sim (ev_call_function env c name args) (ev_call_function env' c name args).
  Proof.
    unfold ev_call_function. rewrite c17f_function_allowed.
    destruct (rc_sandboxed c && negb (ev_function_allowed env name)); [apply c17_sim_nil|].
    destruct (c17f_cb_lookup EsFunction name) as [[HE [H1 H2]]|[HE H2]];
      unfold es_lookup in *; cbn [es_cbs] in *.
    - rewrite H1, H2. right. exists [], []. split; [tauto|]. cbn [es_event] in HE. cbn [snd app ev_callback]. rewrite HE. auto.
    - rewrite H2. cbn [es_event] in HE.
      destruct (assoc_bytes (e_functions env) name).
      + apply c17_sim_same. apply c17_not_in_single. exact HE.
      + destruct (ev_registered reg_GetFunctions name); [apply c17_sim_same; apply c17_not_in_single; exact HE|].
        destruct (bytes_eqb name b#"count"); [apply c17_sim_same; apply c17_not_in_single; exact HE|].
        destruct (rc_get_macro c name) as [[tpl nm]|]; apply c17_sim_nil.
  Qed.

  Lemma c17f_call_test name v args :
    sim (ev_call_test env name v args) (ev_call_test env' name v args).
  Proof.
    unfold ev_call_test.
    destruct (c17f_cb_lookup EsTest name) as [[HE [H1 H2]]|[HE H2]];
      unfold es_lookup in *; cbn [es_cbs] in *.
    - rewrite H1, H2. right. exists [], []. split; [tauto|]. cbn [es_event] in HE. cbn [snd app]. rewrite HE. auto.
    - rewrite H2. cbn [es_event] in HE.
      destruct (assoc_bytes (e_tests env) name).
      + apply c17_sim_same. apply c17_not_in_single. exact HE.
      + destruct (ev_registered reg_GetTests name); [apply c17_sim_same; apply c17_not_in_single; exact HE|].
        apply c17_sim_nil.
  Qed.

  Lemma c17_event_not_load k name n : TrLoad n <> es_event k name.
  Proof. destruct k; discriminate. Qed.

  (* the two runs, for every template of the set, context and fuel *)
  Lemma c17_fail_sim : forall fuel name vars,
    sim (render_template fuel env name vars) (render_template fuel env' name vars).
  Proof.
    intros fuel name vars.
    apply (c17_render_template_sim E (ESentinel s) [E] env env').
    - apply es_with_cbs_tpls.
    - apply es_with_cbs_policy.
    - intro n. apply c17_event_not_load.
    - apply c17f_apply_filter.
    - intros c nm args _. apply c17f_call_function.
    - apply c17f_call_test.
  Qed.
End Fail.

(* ================================================================ instance 2: the name is not registered *)
(* the name is not one the core answers to: without a registered callback of that name it cannot be resolved *)
Definition c17_not_core (k : es_kind) (name : bytes) : Prop :=
  match k with
  | EsFilter => ev_registered reg_GetFilters name = false /\ bytes_eqb name b#"e" || bytes_eqb name b#"escape" = false
  | EsFunction => ev_registered reg_GetFunctions name = false /\ bytes_eqb name b#"count" = false
  | EsTest => ev_registered reg_GetTests name = false
  end.

Section Unbind.
  Variable K : es_kind.
  Variable f : bytes.
  Variable env : ev_env.
  Variable cb0 : cb_kind.
  Hypothesis Hbound : es_lookup env K f = Some cb0.
  Hypothesis Hcore : c17_not_core K f.

  Let env' := es_env_without K f env.
  Let E := es_event K f.
  Let sim {A} := @c17_sim E EOther [] A.

  Lemma c17u_cb_lookup k name :
    (es_event k name = E /\ es_lookup env k name = Some cb0 /\ es_lookup env' k name = None) \/
    (es_event k name <> E /\ es_lookup env' k name = es_lookup env k name).
  Proof.
    unfold es_lookup, env', es_env_without.
    destruct (es_kind_dec k K) as [->|Hk].
    - rewrite es_with_cbs_same. destruct (bytes_eqb name f) eqn:Ef.
      + apply bytes_eqb_eq in Ef. subst name. left. split; [reflexivity|]. split; [exact Hbound|apply es_remove_same].
      + right. assert (Hne : es_event K name <> E).
        { intro H. apply es_event_inj in H. destruct H as [_ H]. subst name. rewrite bytes_eqb_refl in Ef. discriminate. }
        split; [exact Hne|]. apply es_remove_other. intro Heq. subst name. rewrite bytes_eqb_refl in Ef. discriminate.
    - right. split; [intro H; apply es_event_inj in H; tauto|]. rewrite es_with_cbs_other by exact Hk. reflexivity.
  Qed.

  Lemma c17u_filter_allowed name : ev_filter_allowed env' name = ev_filter_allowed env name.
  Proof. unfold ev_filter_allowed, env', es_env_without. rewrite es_with_cbs_policy. reflexivity. Qed.
  Lemma c17u_function_allowed name : ev_function_allowed env' name = ev_function_allowed env name.
  Proof. unfold ev_function_allowed, env', es_env_without. rewrite es_with_cbs_policy. reflexivity. Qed.

  Lemma c17u_apply_filter c name v args :
    sim (ev_apply_filter env c name v args) (ev_apply_filter env' c name v args).
  Proof.
    unfold ev_apply_filter. rewrite c17u_filter_allowed.
    destruct (rc_sandboxed c && negb (ev_filter_allowed env name)); [apply c17_sim_nil|].
    destruct (c17u_cb_lookup EsFilter name) as [[HE [H1 H2]]|[HE H2]];
      unfold es_lookup in *; cbn [es_cbs] in *.
    - rewrite H1, H2. apply es_event_inj in HE. destruct HE as [HK Hn]. subst name.
      unfold c17_not_core in Hcore. rewrite <- HK in Hcore. destruct Hcore as [Hr He]. rewrite Hr, He.
      right. exists [], []. split; [tauto|]. unfold E. rewrite <- HK. auto.
    - rewrite H2. cbn [es_event] in HE.
      destruct (assoc_bytes (e_filters env) name).
      + apply c17_sim_same. apply c17_not_in_single. exact HE.
      + destruct (ev_registered reg_GetFilters name); [apply c17_sim_same; apply c17_not_in_single; exact HE|].
        destruct (bytes_eqb name b#"e" || bytes_eqb name b#"escape"); apply c17_sim_nil.
  Qed.

  Lemma c17u_call_function c name args : rc_get_macro c name = None ->
    sim (ev_call_function env c name args) (ev_call_function env' c name args).
  Proof.
    intro Hm. unfold ev_call_function. rewrite c17u_function_allowed.
    destruct (rc_sandboxed c && negb (ev_function_allowed env name)); [apply c17_sim_nil|].
    destruct (c17u_cb_lookup EsFunction name) as [[HE [H1 H2]]|[HE H2]];
      unfold es_lookup in *; cbn [es_cbs] in *.
    - rewrite H1, H2. apply es_event_inj in HE. destruct HE as [HK Hn]. subst name.
      unfold c17_not_core in Hcore. rewrite <- HK in Hcore. destruct Hcore as [Hr He]. rewrite Hr, He, Hm.
      right. exists [], []. split; [tauto|]. unfold E. rewrite <- HK. auto.
    - rewrite H2. cbn [es_event] in HE.
      destruct (assoc_bytes (e_functions env) name).
      + apply c17_sim_same. apply c17_not_in_single. exact HE.
      + destruct (ev_registered reg_GetFunctions name); [apply c17_sim_same; apply c17_not_in_single; exact HE|].
        destruct (bytes_eqb name b#"count"); [apply c17_sim_same; apply c17_not_in_single; exact HE|].
        destruct (rc_get_macro c name) as [[tpl nm]|]; apply c17_sim_nil.
  Qed.

  Lemma c17u_call_test name v args :
    sim (ev_call_test env name v args) (ev_call_test env' name v args).
  Proof.
    unfold ev_call_test.
    destruct (c17u_cb_lookup EsTest name) as [[HE [H1 H2]]|[HE H2]];
      unfold es_lookup in *; cbn [es_cbs] in *.
    - rewrite H1, H2. apply es_event_inj in HE. destruct HE as [HK Hn]. subst name.
      unfold c17_not_core in Hcore. rewrite <- HK in Hcore. rewrite Hcore.
      right. exists [], []. split; [tauto|]. unfold E. rewrite <- HK. auto.
    - rewrite H2. cbn [es_event] in HE.
      destruct (assoc_bytes (e_tests env) name).
      + apply c17_sim_same. apply c17_not_in_single. exact HE.
      + destruct (ev_registered reg_GetTests name); [apply c17_sim_same; apply c17_not_in_single; exact HE|].
        apply c17_sim_nil.
  Qed.

  Lemma c17_unbind_sim : forall fuel name vars,
    sim (render_template fuel env name vars) (render_template fuel env' name vars).
  Proof.
    intros fuel name vars.
    apply (c17_render_template_sim E EOther [] env env').
    - apply es_with_cbs_tpls.
    - apply es_with_cbs_policy.
    - intro n. apply c17_event_not_load.
    - apply c17u_apply_filter.
    - apply c17u_call_function.
    - apply c17u_call_test.
  Qed.
End Unbind.

(* ================================================================ the statements of C17 *)
Lemma c17_first_occurrence {A} (x : A) t p q k :
  t = p ++ x :: q -> ~ In x p -> nth_error t k = Some x -> ~ In x (firstn k t) -> k = length p.
Proof.
  intros -> Hp Hn Hf.
  destruct (Nat.lt_trichotomy k (length p)) as [Hlt|[Heq|Hgt]]; [|exact Heq|].
  - exfalso. rewrite nth_error_app1 in Hn by exact Hlt. apply Hp. eapply nth_error_In. exact Hn.
  - exfalso. apply Hf. rewrite firstn_app. apply in_or_app. right.
    replace (k - length p) with (S (k - length p - 1)) by lia. cbn [firstn]. left. reflexivity.
Qed.

Lemma c17_firstn_prefix {A} (x : A) p q : firstn (S (length p)) (p ++ x :: q) = p ++ [x].
Proof.
  rewrite firstn_app. replace (S (length p) - length p) with 1 by lia.
  rewrite firstn_all2 by lia. reflexivity.
Qed.

Lemma c17_last_unique {A} (x : A) p : forall t1 t2, p ++ [x] = t1 ++ x :: t2 -> ~ In x p -> t2 = [] /\ t1 = p.
Proof.
  induction p as [|a p IH]; intros t1 t2 H Hp.
  - destruct t1 as [|b t1]; cbn in H; inversion H; [auto|]. destruct t1; discriminate.
  - destruct t1 as [|b t1]; cbn in H; inversion H; subst.
    + exfalso. apply Hp. left. reflexivity.
    + destruct (IH t1 t2 H2) as [H3 H4]; [intro Hi; apply Hp; right; exact Hi|]. subst. auto.
Qed.

Lemma c17_env_fail_at_event t k s env K f :
  nth_error t k = Some (es_event K f) -> env_fail_at t k s env = es_env_fail K f s env.
Proof. intro H. unfold env_fail_at. rewrite H. destruct K; reflexivity. Qed.

(* ---- 1. the two runs *)
Lemma C17_fault_simulation_proof : forall K f s env cb0 fuel name vars,
  es_lookup env K f = Some cb0 ->
  let E := es_event K f in
  let x := render_template fuel env name vars in
  let x' := render_template fuel (es_env_fail K f s env) name vars in
  (~ In E (snd x) /\ x' = x) \/
  (exists p q, ~ In E p /\ snd x = p ++ E :: q /\ x' = (Err (ESentinel s), p ++ [E])).
Proof. intros K f s env cb0 fuel name vars Hb. exact (c17_fail_sim K f s env cb0 Hb fuel name vars). Qed.

(* ---- 2. the k-th invocation of the fault-free run, made to fail, ends the render with its error *)
Lemma C17_faults_surface_proof : forall env fuel name vars r t k K f cb0 s,
  render_template fuel env name vars = (r, t) ->
  es_first_at t k (es_event K f) ->
  es_lookup env K f = Some cb0 ->
  render_template fuel (env_fail_at t k s env) name vars = (Err (ESentinel s), firstn (S k) t) /\
  es_go_result (Err (ESentinel s)) = Some ([], Some (ESentinel s)).
Proof.
  intros env fuel name vars r t k K f cb0 s Hrun [Hnth Hfirst] Hb. split; [|reflexivity].
  rewrite (c17_env_fail_at_event t k s env K f Hnth).
  pose proof (c17_fail_sim K f s env cb0 Hb fuel name vars) as H. unfold c17_sim in H. rewrite Hrun in H. cbn [snd] in H.
  destruct H as [[Hq _]|[p [q [Hp [Ht Hx]]]]].
  - exfalso. apply Hq. eapply nth_error_In. exact Hnth.
  - rewrite Hx. pose proof (c17_first_occurrence _ t p q k Ht Hp Hnth Hfirst) as Hk. subst k.
    rewrite Ht, c17_firstn_prefix. reflexivity.
Qed.

(* ---- 3. in ANY run: an invocation that fails is the last event, and the outcome is its error *)
Lemma C17_failing_invocation_is_final_proof : forall env fuel name vars r t,
  render_template fuel env name vars = (r, t) -> es_surfaces env r t.
Proof.
  intros env fuel name vars r t Hrun t1 ev t2 e Ht He.
  assert (Hev : exists K f n, ev = es_event K f /\ es_lookup env K f = Some (CbFail n) /\ e = ESentinel n).
  { unfold es_event_fails in He. destruct ev as [g|g|g|g]; try discriminate.
    - exists EsFilter, g. destruct (es_lookup env EsFilter g) as [[| n |]|] eqn:El; try discriminate. exists n. inversion He. auto.
    - exists EsFunction, g. destruct (es_lookup env EsFunction g) as [[| n |]|] eqn:El; try discriminate. exists n. inversion He. auto.
    - exists EsTest, g. destruct (es_lookup env EsTest g) as [[| n |]|] eqn:El; try discriminate. exists n. inversion He. auto. }
  destruct Hev as [K [f [n [-> [Hl ->]]]]].
  set (env0 := es_with_cbs env K (es_rebind (es_cbs env K) f CbId)).
  assert (Hb0 : es_lookup env0 K f = Some CbId).
  { unfold es_lookup, env0. rewrite es_with_cbs_same. eapply es_rebind_same. exact Hl. }
  assert (Hback : es_env_fail K f n env0 = env).
  { unfold es_env_fail, env0. rewrite es_with_cbs_same, es_with_cbs_twice.
    rewrite (es_rebind_undo _ f CbId (CbFail n) Hl). apply es_with_cbs_id. }
  clearbody env0.
  pose proof (c17_fail_sim K f n env0 CbId Hb0 fuel name vars) as H.
  unfold c17_sim in H. rewrite Hback, Hrun in H.
  destruct H as [[Hq Heq]|[p [q [Hp [_ Hx]]]]].
  - exfalso. apply Hq. rewrite <- Heq. cbn [snd]. rewrite Ht. apply in_or_app. right. left. reflexivity.
  - inversion Hx; subst. destruct (c17_last_unique _ p t1 t2 (eq_sym H1) Hp) as [H2 _]. auto.
Qed.

(* ---- 4. an unknown filter / function / test at a position that is reached *)
Lemma C17_unknown_callback_fails_proof : forall env fuel name vars r t k K f cb0,
  render_template fuel env name vars = (r, t) ->
  es_first_at t k (es_event K f) ->
  es_lookup env K f = Some cb0 ->
  c17_not_core K f ->
  render_template fuel (es_env_without K f env) name vars = (Err EOther, firstn k t).
Proof.
  intros env fuel name vars r t k K f cb0 Hrun [Hnth Hfirst] Hb Hcore.
  pose proof (c17_unbind_sim K f env cb0 Hb Hcore fuel name vars) as H. unfold c17_sim in H. rewrite Hrun in H. cbn [snd] in H.
  destruct H as [[Hq _]|[p [q [Hp [Ht Hx]]]]].
  - exfalso. apply Hq. eapply nth_error_In. exact Hnth.
  - rewrite Hx. pose proof (c17_first_occurrence _ t p q k Ht Hp Hnth Hfirst) as Hk. subst k.
    rewrite Ht, app_nil_r, firstn_app, Nat.sub_diag, firstn_all. cbn [firstn]. rewrite app_nil_r. reflexivity.
Qed.

(* ---- 5. names that cannot be resolved, at the place of the lookup *)
Lemma C17_unknown_filter_local : forall env c name v args,
  rc_sandboxed c && negb (ev_filter_allowed env name) = false ->
  assoc_bytes (e_filters env) name = None -> c17_not_core EsFilter name ->
  ev_apply_filter env c name v args = (Err EOther, []).
Proof. intros env c name v args Hs Hc [Hr He]. unfold ev_apply_filter. rewrite Hs, Hc, Hr, He. reflexivity. Qed.

Lemma C17_unknown_function_local : forall env c name args,
  rc_sandboxed c && negb (ev_function_allowed env name) = false ->
  assoc_bytes (e_functions env) name = None -> c17_not_core EsFunction name -> rc_get_macro c name = None ->
  ev_call_function env c name args = (Err EOther, []).
Proof. intros env c name args Hs Hc [Hr He] Hm. unfold ev_call_function. rewrite Hs, Hc, Hr, He, Hm. reflexivity. Qed.

Lemma C17_unknown_test_local : forall env name v args,
  assoc_bytes (e_tests env) name = None -> c17_not_core EsTest name ->
  ev_call_test env name v args = (Err EOther, []).
Proof. intros env name v args Hc Hr. unfold ev_call_test. unfold c17_not_core in Hr. rewrite Hc, Hr. reflexivity. Qed.

(* from ... import m: a macro the imported template does not define *)
Lemma C17_unknown_macro_from : forall ms names, (exists m alias, In (m, alias) names /\ assoc_bytes ms m = None) ->
  forall c, ev_from_names ms names c = Err EOther.
Proof.
  intros ms names. induction names as [|[m0 a0] r IH]; intros [m [alias [Hin Hm]]] c; [destruct Hin|].
  cbn [ev_from_names]. destruct Hin as [Heq|Hin].
  - inversion Heq; subst. rewrite Hm. reflexivity.
  - destruct (assoc_bytes ms m0); [|reflexivity]. apply IH. exists m, alias. auto.
Qed.

(* name(args) where name is neither a macro in scope nor a function: the arguments are evaluated, then the call fails *)
Lemma C17_unknown_macro_call : forall ev env c g args vs t,
  ev_sandbox_denies env c (ECall g args) = false -> rc_get_macro c g = None ->
  ev_list ev args = (Ok vs, t) ->
  rc_sandboxed c && negb (ev_function_allowed env g) = false ->
  assoc_bytes (e_functions env) g = None -> c17_not_core EsFunction g ->
  ev_expr ev env c (ECall g args) = (Err EOther, t).
Proof.
  intros ev env c g args vs t Hd Hm Hl Hs Hc Hcore. unfold ev_expr. rewrite Hd, Hm, Hl. cbn [ev_bind].
  rewrite (C17_unknown_function_local env c g vs Hs Hc Hcore Hm). cbn [ev_bind ev_cast]. rewrite app_nil_r. reflexivity.
Qed.

(* templates *)
Lemma C17_missing_template_top : forall fuel env name vars,
  ts_lookup env name = None -> render_template fuel env name vars = (Err ENotFound, [TrLoad name]).
Proof. intros. unfold render_template. rewrite H. reflexivity. Qed.

Lemma c17_load_missing : forall ev env c e v t name,
  ev c e = (Ok v, t) -> vo_to_str v = Some name -> ev_relative name = false -> ts_lookup env name = None ->
  ev_load ev env c e = (Ok (name, None), t ++ [TrLoad name]).
Proof. intros ev env c e v t name He Hv Hr Hl. unfold ev_load. rewrite He. cbn [ev_bind]. rewrite Hv, Hr, Hl. reflexivity. Qed.

Lemma C17_missing_include : forall ev root env c e withs ign only sb name t,
  ev_load ev env c e = (Ok (name, None), t) ->
  ev_include ev root env c e withs ign only sb = if ign then (Ok [], c, t) else (Err ENotFound, c, t).
Proof.
  intros ev root env c e withs ign only sb name t Hl. unfold ev_include. rewrite Hl. cbn [ev_rexpr snd].
  destruct ign; cbn [ev_rret ev_rfail]; rewrite app_nil_r; reflexivity.
Qed.

Lemma C17_missing_extends : forall ev root env c e name t,
  ev_load ev env (rc_with_extending c true) e = (Ok (name, None), t) ->
  ev_extends ev root env c e = (Err ENotFound, rc_with_extending c true, t).
Proof.
  intros ev root env c e name t Hl. unfold ev_extends. rewrite Hl. cbn [ev_rexpr snd ev_rfail]. rewrite app_nil_r. reflexivity.
Qed.

Lemma C17_missing_import : forall ev root env c e name t,
  ev_load ev env c e = (Ok (name, None), t) ->
  ev_import_macros ev root env c e = (Err ENotFound, c, t) /\
  (forall alias, ev_import ev root env c e alias = (Err ENotFound, c, t)) /\
  (forall names, ev_from ev root env c e names = (Err ENotFound, c, t)).
Proof.
  intros ev root env c e name t Hl.
  assert (H : ev_import_macros ev root env c e = (Err ENotFound, c, t)) by (unfold ev_import_macros; rewrite Hl; reflexivity).
  split; [exact H|]. split; intros; [unfold ev_import|unfold ev_from]; rewrite H; reflexivity.
Qed.

(* ---- 6. the documented tolerances, and that they are the only ones *)
Lemma C17_tolerances_exact_proof :
  (* an undefined variable is null and prints as the empty string *)
  (forall fu env c x, rc_get_macro c x = None -> rc_hack_name x = false ->
     assoc_bytes (rc_vars c) x = None -> rc_parent c = None ->
     eval (S fu) env c (EVar x) = (Ok VNull, [])) /\
  vo_to_str VNull = Some [] /\
  (* an attribute that is not there is null *)
  (forall a, vo_get_attr VNull a = Ok VNull) /\
  (forall kvs a, vo_map_find kvs (VStr a) = None -> vo_get_attr (VMap MAny kvs) a = Ok VNull) /\
  (* include ... ignore missing of a template no loader has renders nothing; without it, and for every other tag that
     loads a template, a missing template is the error not-found *)
  (forall ev root env c e withs only sb name t, ev_load ev env c e = (Ok (name, None), t) ->
     ev_include ev root env c e withs true only sb = (Ok [], c, t) /\
     ev_include ev root env c e withs false only sb = (Err ENotFound, c, t)) /\
  (forall ev root env c e name t, ev_load ev env (rc_with_extending c true) e = (Ok (name, None), t) ->
     ev_extends ev root env c e = (Err ENotFound, rc_with_extending c true, t)) /\
  (forall ev root env c e name t, ev_load ev env c e = (Ok (name, None), t) ->
     (forall alias, ev_import ev root env c e alias = (Err ENotFound, c, t)) /\
     (forall names, ev_from ev root env c e names = (Err ENotFound, c, t))) /\
  (forall fuel env name vars, ts_lookup env name = None -> render_template fuel env name vars = (Err ENotFound, [TrLoad name])).
Proof.
  repeat split.
  - intros fu env c x Hm Hh Hv Hp. cbn [eval]. unfold ev_expr.
    assert (Hd : ev_sandbox_denies env c (EVar x) = false).
    { unfold ev_sandbox_denies. destruct (rc_sandboxed c), (e_policy env); reflexivity. }
    rewrite Hd. try unfold ev_var_macro. unfold rc_own_var. rewrite Hv, Hm, Hh. destruct c. cbn in *. rewrite Hv, Hp. reflexivity.
  - intros kvs a H. unfold vo_get_attr. cbn [vo_view]. rewrite H. reflexivity.
  - rewrite (C17_missing_include ev root env c e withs true only sb name t H). reflexivity.
  - rewrite (C17_missing_include ev root env c e withs false only sb name t H). reflexivity.
  - intros. eapply C17_missing_extends. eassumption.
  - intros. eapply (C17_missing_import ev root env c e name t). assumption.
  - intros. eapply (C17_missing_import ev root env c e name t). assumption.
  - intros. apply C17_missing_template_top. assumption.
Qed.

(* ---- 7. an error carries no output *)
Lemma C17_no_partial_output_proof : forall fuel env name vars r t,
  render_template fuel env name vars = (r, t) ->
  (forall e, r = Err e -> es_go_result r = Some ([], Some e)) /\
  (forall out e, es_go_result r = Some (out, Some e) -> out = [] /\ r = Err e) /\
  (forall out, es_go_result r = Some (out, None) -> r = Ok out).
Proof.
  intros fuel env name vars r t _. repeat split.
  - intros e ->. reflexivity.
  - destruct r; cbn in H; inversion H; reflexivity.
  - destruct r; cbn in H; inversion H; reflexivity.
  - intros out H. destruct r; cbn in H; inversion H; reflexivity.
Qed.

(* ---- 8. structure by structure: an error of a part is the error of the whole *)
(* a node list: nothing behind a failing node runs, and what was written before it is dropped *)
Lemma C17_sequence_stops_proof : forall e c t k,
  ev_rseq (Err e, c, t) k = (Err e, c, t).
Proof. reflexivity. Qed.
Lemma C17_sequence_drops_output_proof : forall o c t k e c2 t2,
  k c = (Err e, c2, t2) -> ev_rseq (Ok o, c, t) k = (Err e, c2, t ++ t2).
Proof. intros. cbn [ev_rseq]. rewrite H. reflexivity. Qed.

(* loops: the iteration that fails ends the loop; a failing sequence expression or else branch likewise *)
Lemma C17_loop_iteration_fails_proof : forall body k v n i it rest c e c1 t1,
  body (ev_iter_ctx c k v n i it) = (Err e, c1, t1) ->
  ev_loop_items body k v n i (it :: rest) c = (Err e, c1, t1).
Proof. intros. cbn [ev_loop_items]. rewrite H. reflexivity. Qed.
Lemma C17_loop_later_iteration_fails_proof : forall body k v n i it rest c o c1 t1 e c2 t2,
  body (ev_iter_ctx c k v n i it) = (Ok o, c1, t1) ->
  ev_loop_items body k v n (i + 1) rest c1 = (Err e, c2, t2) ->
  ev_loop_items body k v n i (it :: rest) c = (Err e, c2, t1 ++ t2).
Proof. intros. cbn [ev_loop_items]. rewrite H. cbn [ev_rseq]. rewrite H0. reflexivity. Qed.
Lemma C17_for_sequence_fails_proof : forall ev rend env c k v seq body els e t,
  ev_for_seq ev env c seq = (Err e, t) -> ev_for ev rend env c k v seq body els = (Err e, c, t).
Proof. intros. unfold ev_for. rewrite H. reflexivity. Qed.

(* blocks, also through parent() *)
Lemma C17_block_body_fails_proof : forall rend c name body d ds e c' t,
  (if existsb (fun d0 => bytes_eqb (bd_tpl d0) (rc_tpl c)) (ev_chain_defs c name)
   then ev_chain_defs c name else ev_chain_defs c name ++ [MkBd (rc_tpl c) body]) = d :: ds ->
  rend (rc_with_current c (Some name) (d :: ds) 0 (bd_tpl d)) (bd_body d) = (Err e, c', t) ->
  ev_block rend c name body = (Err e, rc_with_current c' (rc_cur_block c) (rc_cur_defs c) (rc_depth c) (rc_tpl c), t).
Proof. intros rend c name body d ds e c' t Hd Hr. unfold ev_block. rewrite Hd, Hr. reflexivity. Qed.
Lemma C17_parent_call_fails_proof : forall rend c b d e c' t,
  rc_cur_block c = Some b -> nth_error (rc_cur_defs c) (S (rc_depth c)) = Some d ->
  rend (rc_with_depth c (S (rc_depth c)) (bd_tpl d)) (bd_body d) = (Err e, c', t) ->
  ev_parent_call rend c = (Err e, rc_with_depth c' (S (rc_depth c) - 1) (rc_tpl c), t).
Proof. intros rend c b d e c' t Hb Hn Hr. unfold ev_parent_call. rewrite Hb, Hn, Hr. reflexivity. Qed.

(* includes: an error inside the included template is the error of the include, whether or not it says
   ignore missing (that option is about the template not being there, nothing else) *)
Lemma C17_include_body_fails_proof : forall ev root env c e ign name inodes t er c' t2,
  ev_load ev env c e = (Ok (name, Some inodes), t) ->
  root (MkRc (rc_vars (rc_clone c)) (rc_parent (rc_clone c)) (rc_macros (rc_clone c)) (rc_blocks (rc_clone c))
             (rc_parent_blocks (rc_clone c)) (rc_chain (rc_clone c)) (rc_extending (rc_clone c)) (rc_cur_block (rc_clone c))
             (rc_cur_defs (rc_clone c)) (rc_depth (rc_clone c)) (rc_in_parent_call (rc_clone c)) (rc_sandboxed (rc_clone c))
             (Some name) name) inodes = (Err er, c', t2) ->
  ev_include ev root env c e None ign false false = (Err er, c, t ++ t2).
Proof.
  intros ev root env c e ign name inodes t er c' t2 Hl Hr. unfold ev_include. rewrite Hl.
  cbn [ev_rexpr snd fst negb andb ev_with_vars ev_ret]. rewrite Hr. cbn. reflexivity.
Qed.

(* inherited parents *)
Lemma C17_extends_parent_fails_proof : forall ev root env c e name pnodes t er c' t2,
  let c1 := rc_with_extending c true in
  ev_load ev env c1 e = (Ok (name, Some pnodes), t) ->
  root (MkRc (rc_vars c1) (rc_parent c1) [] (rc_blocks c1) (ev_parent_blocks pnodes (rc_parent_blocks c1))
             (match rc_chain c1 with Some ((_ :: _) as ch) => Some ch | _ => None end)
             true None [] 0 false (rc_sandboxed c1) (Some name) name) pnodes = (Err er, c', t2) ->
  ev_extends ev root env c e = (Err er, c1, t ++ t2).
Proof.
  intros ev root env c e name pnodes t er c' t2 c1 Hl Hr. unfold ev_extends. fold c1. rewrite Hl.
  cbn [ev_rexpr snd fst]. rewrite Hr. reflexivity.
Qed.

(* macros: a failing default, a failing body, and the print tag that runs the call - whichever way the macro was
   reached (by name, through _self, through an import alias, through from ... import [as]) the value is a call
   of (template, macro) that the print tag runs *)
Lemma C17_macro_default_fails_proof : forall evc p de rest mc e t,
  evc de = (Err e, t) -> ev_bind_params evc ((p, Some de) :: rest) [] mc = (Err e, t).
Proof. intros. cbn [ev_bind_params]. rewrite H. reflexivity. Qed.
Lemma C17_macro_body_fails_proof : forall ev rend env c tpl name args params body mc t1 e c' t2,
  ts_find_macro env tpl name = Some (params, body) ->
  existsb vo_has_callable args || negb (ev_macro_body_plain body) = false ->
  ev_bind_params (ev c) params args
    (rc_with_macros (rc_derive (rc_fresh [] tpl) (Some c) (rc_sandboxed c) (rc_last_loaded c)) (ts_sibling_macros env tpl)) = (Ok mc, t1) ->
  rend mc body = (Err e, c', t2) ->
  ev_call_macro ev rend env c tpl name args = (Err e, t1 ++ t2).
Proof.
  intros ev rend env c tpl name args params body mc t1 e c' t2 Hf Hp Hb Hr. unfold ev_call_macro.
  rewrite Hf, Hp, Hb. cbn [ev_bind]. rewrite Hr. reflexivity.
Qed.
Lemma C17_print_macro_call_fails_proof : forall ev rend env c e v t tpl nm args er t2,
  ev c e = (Ok v, t) -> vo_view v = KCallable tpl nm args ->
  ev_call_macro ev rend env c tpl nm args = (Err er, t2) ->
  ev_print ev rend env c e = (Err er, c, t ++ t2).
Proof. intros ev rend env c e v t tpl nm args er t2 He Hv Hc. unfold ev_print. rewrite He. cbn [ev_rexpr]. rewrite Hv, Hc. reflexivity. Qed.
Lemma C17_macro_call_forms_proof : forall ev env c g args vs t tpl nm,
  ev_list ev args = (Ok vs, t) ->
  (* by name *)
  (ev_sandbox_denies env c (ECall g args) = false -> rc_get_macro c g = Some (tpl, nm) ->
     ev_expr ev env c (ECall g args) = (Ok (VCallable tpl nm vs), t)) /\
  (* through a module: an import alias, or _self *)
  (forall m kvs tm, ev_sandbox_denies env c (EModCall m g args) = false ->
     ev m = (Ok (VMap MAny kvs), tm) -> vo_map_find kvs (VStr g) = Some (VMacro tpl nm) ->
     ev_expr ev env c (EModCall m g args) = (Ok (VCallable tpl nm vs), tm ++ t)).
Proof.
  intros ev env c g args vs t tpl nm Hl. split.
  - intros Hd Hm. unfold ev_expr. rewrite Hd, Hm, Hl. cbn [ev_bind ev_ret]. rewrite app_nil_r. reflexivity.
  - intros m kvs tm Hd Hm Hf. unfold ev_expr. rewrite Hd, Hm. cbn [ev_bind]. rewrite Hl. cbn [ev_bind]. rewrite Hf.
    cbn [ev_ret]. rewrite app_nil_r. reflexivity.
Qed.

(* imported libraries: the body of an imported template fails *)
Lemma C17_import_body_fails_proof : forall ev root env c e name inodes t er ic' t2,
  ev_load ev env c e = (Ok (name, Some inodes), t) ->
  root (rc_derive (rc_fresh [] name) None (rc_sandboxed c) (Some name)) inodes = (Err er, ic', t2) ->
  ev_import_macros ev root env c e = (Err er, c, t ++ t2) /\
  (forall alias, ev_import ev root env c e alias = (Err er, c, t ++ t2)) /\
  (forall names, ev_from ev root env c e names = (Err er, c, t ++ t2)).
Proof.
  intros ev root env c e name inodes t er ic' t2 Hl Hr.
  assert (H : ev_import_macros ev root env c e = (Err er, c, t ++ t2)) by (unfold ev_import_macros; rewrite Hl, Hr; reflexivity).
  split; [exact H|]. split; intros; [unfold ev_import|unfold ev_from]; rewrite H; reflexivity.
Qed.

(* apply: a failing body, and a failing filter *)
Lemma C17_apply_fails_proof : forall ev rend env c g body,
  (forall e c1 t1, rend c body = (Err e, c1, t1) -> ev_apply ev rend env c g [] body = (Err e, c1, t1)) /\
  (forall content c1 t1 e t2, rend c body = (Ok content, c1, t1) ->
     ev_apply_filter env c1 g (VStr content) [] = (Err e, t2) ->
     ev_apply ev rend env c g [] body = (Err e, c1, t1 ++ t2)).
Proof.
  intros ev rend env c g body. split.
  - intros e c1 t1 H. unfold ev_apply. rewrite H. reflexivity.
  - intros content c1 t1 e t2 H Hf. unfold ev_apply. rewrite H. cbn [ev_list ev_ret ev_bind]. rewrite Hf. reflexivity.
Qed.

(* ---- 9. classes and causes: what the class ESentinel n of an outcome says about the Go error value *)
Lemma C17_cause_reachable_proof : forall (tree : er_tree) s,
  er_class tree = ESentinel s -> is_cause s tree = true.
Proof. intros tree s H. apply er_class_sentinel_iff. exact H. Qed.
Lemma C17_wrapping_keeps_cause_proof : forall n s, er_class (er_wraps n (ErLeaf s)) = ESentinel s /\ is_cause s (er_wraps n (ErLeaf s)) = true.
Proof. intros n s. split; [apply er_class_sentinel_iff|]; apply er_wraps_keep_cause. Qed.
Lemma C17_message_only_loses_cause_proof : forall n s, is_cause s (er_wraps n ErOpaque) = false.
Proof. exact er_opaque_loses_cause. Qed.

(* ================================================================ the two former swallow sites, as they are now *)
(* x.y is defined with a failing object expression; the spaceless tag with a failing filter *)
Lemma C17_defined_attr_propagates_proof : forall (ev : expr -> ev_res) o a e t,
  ev o = (Err e, t) -> ev_defined_attr ev o a = (Err e, t).
Proof. intros ev o a e t H. unfold ev_defined_attr. rewrite H. reflexivity. Qed.

Lemma C17_spaceless_propagates_proof : forall rend env c body content c1 t1 e t2,
  rend c body = (Ok content, c1, t1) ->
  ev_apply_filter env c1 b#"spaceless" (VStr content) [] = (Err e, t2) ->
  ev_spaceless rend env c body = (Err e, c1, t1 ++ t2).
Proof. intros rend env c body content c1 t1 e t2 H Hf. unfold ev_spaceless. rewrite H, Hf. reflexivity. Qed.

(* the inputs on which the pinned tree violated the property (AFB / A<a> <b>B with a nil error), for the examples *)
Definition c17_w_defined_env : ev_env :=
  MkEnv [(b#"main", [NText b#"A";
                    NIf [(ETest (EAttr (ECall b#"fn" [EVar b#"m"]) b#"y") b#"defined" [] false, [NText b#"T"])] (Some [NText b#"F"]);
                    NText b#"B"])]
        [] [(b#"fn", CbId)] [] None.
Definition c17_w_spaceless_env : ev_env :=
  MkEnv [(b#"main", [NText b#"A"; NSpaceless [NText b#"<a> <b>"]; NText b#"B"])]
        [(b#"spaceless", CbId)] [] [] None.
