(* Proofs of property C12 (Spec/MacroSpec.v) about the evaluator model Model/Eval.v.
   Part 1  binding: ev_bind_params is the positional rule c12_param_values; what the body context holds
   Part 2  the call: ev_call_macro = c12_call; the renderer is the specification renderer
   Part 3  the five call forms evaluate to the same closure; printing it leaves the caller's context alone
   Part 4  call sites in loops, blocks, includes, other macros
   Part 5  registration: macro tags, import, from; wrappers pass registrations through
   Part 6  the refutation of path independence for bodies that call a macro of their own template
   Part 7  the second declaration parser of parse_macro.go is unreachable
   Part 8  the shapes of node.go / render.go / zero_alloc_tokenizer.go the statements rest on (Gen/MacroShape.v) *)
From Twig Require Import Base.Bytes Base.Utf8 Model.Ast Model.Value Model.ValueOps Model.EvalBuiltins Model.Ctx
                         Model.TemplateSet Model.Eval Model.ExprLexer Spec.ControlSpec Spec.MacroSpec Proofs.EvalProofs
                         Gen.Registry Gen.CharClass Gen.MacroShape.
From Coq Require Import ZifyBool ZifyNat ZifyN.

(* ================================================================ Part 1: binding *)
Lemma ev_bind_ret_l {A B} (a : A) (k : A -> outcome B * ev_trace) : ev_bind (ev_ret a) k = k a.
Proof. unfold ev_ret. cbn [ev_bind]. destruct (k a) as [r t]. reflexivity. Qed.

Lemma ev_bind_assoc {A B C} (r : outcome A * ev_trace) (k1 : A -> outcome B * ev_trace) (k2 : B -> outcome C * ev_trace) :
  ev_bind (ev_bind r k1) k2 = ev_bind r (fun a => ev_bind (k1 a) k2).
Proof.
  destruct r as [o t]. destruct o; cbn [ev_bind ev_cast]; try reflexivity.
  destruct (k1 a) as [o1 t1]. destruct o1; cbn [ev_bind ev_cast]; try reflexivity.
  destruct (k2 a0) as [o2 t2]. rewrite app_assoc. reflexivity.
Qed.

Lemma ev_bind_ret_r {A} (r : outcome A * ev_trace) : ev_bind r (fun a => ev_ret a) = r.
Proof.
  destruct r as [o t]. destruct o; cbn [ev_bind ev_ret ev_cast]; try reflexivity.
  rewrite app_nil_r. reflexivity.
Qed.

(* the operational binding loop is the positional rule; args is what is left of the argument list full after
   the first i arguments *)
Lemma ev_bind_params_spec evc : forall params args full i mc,
  (forall j, nth_error args j = nth_error full (i + j)) ->
  ev_bind_params evc params args mc =
  ev_bind (c12_param_values evc full i params) (fun bs => ev_ret (c12_bind_all mc bs)).
Proof.
  induction params as [|[p d] rest IH]; intros args full i mc H.
  - cbn [ev_bind_params c12_param_values]. rewrite ev_bind_ret_l. reflexivity.
  - cbn [ev_bind_params c12_param_values]. unfold c12_arg_or_default.
    pose proof (H 0) as H0. rewrite Nat.add_0_r in H0.
    assert (Hnext : forall a args', args = a :: args' \/ (args = [] /\ args' = []) ->
                    forall j, nth_error args' j = nth_error full (S i + j)).
    { intros a args' [->|[-> ->]] j.
      - specialize (H (S j)). cbn [nth_error] in H. rewrite H. f_equal. lia.
      - specialize (H (S j)). cbn [nth_error] in H. destruct j; cbn [nth_error]; rewrite H; f_equal; lia. }
    destruct args as [|a args'].
    + cbn [nth_error] in H0. rewrite <- H0.
      destruct d as [de|].
      * rewrite ev_bind_assoc. apply ev_bind_ext. intro v.
        rewrite (IH [] full (S i) (rc_set_var mc p v)) by (apply (Hnext v []); right; split; reflexivity).
        rewrite ev_bind_assoc. apply ev_bind_ext. intro vs. rewrite ev_bind_ret_l. reflexivity.
      * rewrite ev_bind_ret_l.
        rewrite (IH [] full (S i) (rc_set_var mc p VNull)) by (apply (Hnext VNull []); right; split; reflexivity).
        rewrite ev_bind_assoc. apply ev_bind_ext. intro vs. rewrite ev_bind_ret_l. reflexivity.
    + cbn [nth_error] in H0. rewrite <- H0. rewrite ev_bind_ret_l.
      rewrite (IH args' full (S i) (rc_set_var mc p a)) by (apply (Hnext a args'); left; reflexivity).
      rewrite ev_bind_assoc. apply ev_bind_ext. intro vs. rewrite ev_bind_ret_l. reflexivity.
Qed.

(* ---- the three cases of the rule *)
Lemma c12_arg_present evc args i d a : nth_error args i = Some a -> c12_arg_or_default evc args i d = ev_ret a.
Proof. intro H. unfold c12_arg_or_default. rewrite H. reflexivity. Qed.
Lemma c12_arg_default evc args i de : length args <= i -> c12_arg_or_default evc args i (Some de) = evc de.
Proof. intro H. unfold c12_arg_or_default. apply nth_error_None in H. rewrite H. reflexivity. Qed.
Lemma c12_arg_null evc args i : length args <= i -> c12_arg_or_default evc args i None = ev_ret VNull.
Proof. intro H. unfold c12_arg_or_default. apply nth_error_None in H. rewrite H. reflexivity. Qed.

(* the bindings depend on the argument list only at the positions of the parameters *)
Lemma c12_param_values_args_ext evc : forall params a1 a2 i,
  (forall j, i <= j < i + length params -> nth_error a1 j = nth_error a2 j) ->
  c12_param_values evc a1 i params = c12_param_values evc a2 i params.
Proof.
  induction params as [|[p d] rest IH]; intros a1 a2 i H; cbn [c12_param_values]; [reflexivity|].
  cbn [length] in H. unfold c12_arg_or_default. rewrite (H i) by lia.
  apply ev_bind_ext. intro v. rewrite (IH a1 a2 (S i)); [reflexivity|]. intros j Hj. apply H. lia.
Qed.

(* arguments beyond the last parameter are ignored *)
Lemma C12_extra_arguments_ignored_proof : forall evc params args extra,
  length params <= length args ->
  c12_param_values evc (args ++ extra) 0 params = c12_param_values evc args 0 params.
Proof.
  intros evc params args extra H. apply c12_param_values_args_ext. intros j Hj.
  apply nth_error_app1. lia.
Qed.

(* when every parameter has its argument no default is evaluated: the bindings do not depend on the evaluator *)
Lemma c12_param_values_no_default evc1 evc2 : forall params args i,
  i + length params <= length args ->
  c12_param_values evc1 args i params = c12_param_values evc2 args i params.
Proof.
  induction params as [|[p d] rest IH]; intros args i H; cbn [c12_param_values]; [reflexivity|].
  cbn [length] in H. unfold c12_arg_or_default.
  destruct (nth_error args i) as [a|] eqn:E; [|apply nth_error_None in E; lia].
  apply ev_bind_ext. intro v. rewrite (IH args (S i)) by lia. reflexivity.
Qed.

(* and they are the parameters paired with the first arguments, without any trace *)
Lemma c12_param_values_all_present evc : forall params args i,
  i + length params <= length args ->
  c12_param_values evc args i params = (Ok (combine (map fst params) (firstn (length params) (skipn i args))), []).
Proof.
  induction params as [|[p d] rest IH]; intros args i H; cbn [c12_param_values map length]; [reflexivity|].
  cbn [length] in H. unfold c12_arg_or_default.
  destruct (nth_error args i) as [a|] eqn:E; [|apply nth_error_None in E; lia].
  rewrite ev_bind_ret_l, (IH args (S i)) by lia.
  cbn [ev_bind ev_ret app].
  assert (Hs : skipn i args = a :: skipn (S i) args).
  { clear - E. revert args E. induction i as [|i IHi]; intros [|x r] E; cbn in *; try discriminate.
    - inversion E; reflexivity.
    - apply IHi. exact E. }
  rewrite Hs. reflexivity.
Qed.

(* ---- shape of a successful binding *)
Lemma c12_param_values_nth evc args : forall params i bs t,
  c12_param_values evc args i params = (Ok bs, t) ->
  length bs = length params /\
  forall j p d, nth_error params j = Some (p, d) ->
    exists v tj, nth_error bs j = Some (p, v) /\ c12_arg_or_default evc args (i + j) d = (Ok v, tj).
Proof.
  induction params as [|[p0 d0] rest IH]; intros i bs t H; cbn [c12_param_values] in H.
  - inversion H; subst. split; [reflexivity|]. intros j p d Hj. destruct j; discriminate.
  - destruct (c12_arg_or_default evc args i d0) as [o0 t0] eqn:E0.
    destruct o0 as [v0| | |]; cbn [ev_bind ev_cast] in H; try discriminate.
    destruct (c12_param_values evc args (S i) rest) as [o1 t1] eqn:E1.
    destruct o1 as [vs| | |]; cbn [ev_bind ev_cast ev_ret] in H; try discriminate.
    inversion H; subst. destruct (IH (S i) vs t1 E1) as [Hlen Hnth].
    split; [cbn [length]; rewrite Hlen; reflexivity|].
    intros j p d Hj. destruct j as [|j]; cbn [nth_error] in *.
    + inversion Hj; subst. exists v0, t0. rewrite Nat.add_0_r. split; [reflexivity|exact E0].
    + destruct (Hnth j p d Hj) as [v [tj [Hb Ha]]]. exists v, tj. split; [exact Hb|].
      replace (i + S j) with (S i + j) by lia. exact Ha.
Qed.

Lemma c12_param_values_names evc args : forall params i bs t,
  c12_param_values evc args i params = (Ok bs, t) -> map fst bs = map fst params.
Proof.
  induction params as [|[p0 d0] rest IH]; intros i bs t H; cbn [c12_param_values] in H.
  - inversion H; reflexivity.
  - destruct (c12_arg_or_default evc args i d0) as [o0 t0].
    destruct o0 as [v0| | |]; cbn [ev_bind ev_cast] in H; try discriminate.
    destruct (c12_param_values evc args (S i) rest) as [o1 t1] eqn:E1.
    destruct o1 as [vs| | |]; cbn [ev_bind ev_cast ev_ret] in H; try discriminate.
    inversion H; subst. cbn [map fst]. rewrite (IH (S i) vs t1 E1). reflexivity.
Qed.

(* ---- what the body context holds *)
Lemma c12_bind_all_fields mc bs :
  rc_parent (c12_bind_all mc bs) = rc_parent mc /\ rc_macros (c12_bind_all mc bs) = rc_macros mc /\
  rc_sandboxed (c12_bind_all mc bs) = rc_sandboxed mc /\ rc_tpl (c12_bind_all mc bs) = rc_tpl mc /\
  rc_last_loaded (c12_bind_all mc bs) = rc_last_loaded mc /\ rc_blocks (c12_bind_all mc bs) = rc_blocks mc.
Proof.
  revert mc. induction bs as [|[q v] r IH]; intro mc; cbn [c12_bind_all fold_left fst snd].
  - repeat split.
  - change (fold_left _ r (rc_set_var mc q v)) with (c12_bind_all (rc_set_var mc q v) r).
    destruct (IH (rc_set_var mc q v)) as [H1 [H2 [H3 [H4 [H5 H6]]]]].
    rewrite H1, H2, H3, H4, H5, H6. repeat split.
Qed.

Lemma c12_bind_all_own mc : forall bs p,
  rc_own_var (c12_bind_all mc bs) p =
  match c12_last_binding bs p with Some v => Some v | None => rc_own_var mc p end.
Proof.
  intros bs. revert mc. induction bs as [|[q v] r IH]; intros mc p; cbn [c12_bind_all fold_left fst snd c12_last_binding].
  - reflexivity.
  - change (fold_left _ r (rc_set_var mc q v)) with (c12_bind_all (rc_set_var mc q v) r).
    rewrite IH. destruct (c12_last_binding r p) as [w|]; [reflexivity|].
    destruct (bytes_eqb q p) eqn:E.
    + apply bytes_eqb_eq in E. subst q. apply rc_own_set_same.
    + apply rc_own_set_other. intro Hq. subst q. rewrite bytes_eqb_refl in E. discriminate.
Qed.

Lemma rc_get_macro_unfold c x :
  rc_get_macro c x = match assoc_bytes (rc_macros c) x with
                     | Some m => Some m
                     | None => match rc_parent c with Some p => rc_get_macro p x | None => None end
                     end.
Proof. destruct c. reflexivity. Qed.

(* a variable read in the body: the last binding of that name, else whatever the caller reads *)
Lemma c12_macro_ctx_get_var env c tpl bs x :
  rc_get_var (c12_macro_ctx env c tpl bs) x =
  match c12_last_binding bs x with Some v => v | None => rc_get_var c x end.
Proof.
  unfold c12_macro_ctx. rewrite rc_get_var_unfold, c12_bind_all_own.
  destruct (c12_last_binding bs x) as [v|]; [reflexivity|].
  destruct (c12_bind_all_fields (c12_body_ctx0 env c tpl) bs) as [Hp _]. rewrite Hp. reflexivity.
Qed.

Lemma c12_macro_ctx_own_var env c tpl bs x : rc_own_var (c12_macro_ctx env c tpl bs) x = c12_last_binding bs x.
Proof.
  unfold c12_macro_ctx. rewrite c12_bind_all_own. destruct (c12_last_binding bs x); reflexivity.
Qed.

(* a macro looked up in the body: a macro of the defining template, else whatever the caller finds *)
Lemma c12_macro_ctx_get_macro env c tpl bs x :
  rc_get_macro (c12_macro_ctx env c tpl bs) x =
  match assoc_bytes (ts_sibling_macros env tpl) x with Some r => Some r | None => rc_get_macro c x end.
Proof.
  unfold c12_macro_ctx. rewrite rc_get_macro_unfold.
  destruct (c12_bind_all_fields (c12_body_ctx0 env c tpl) bs) as [Hp [Hm _]]. rewrite Hp, Hm. reflexivity.
Qed.

Lemma c12_macro_ctx_sandboxed env c tpl bs : rc_sandboxed (c12_macro_ctx env c tpl bs) = rc_sandboxed c.
Proof.
  unfold c12_macro_ctx. destruct (c12_bind_all_fields (c12_body_ctx0 env c tpl) bs) as [_ [_ [Hs _]]]. rewrite Hs. reflexivity.
Qed.

Lemma c12_last_binding_none bs x : ~ In x (map fst bs) -> c12_last_binding bs x = None.
Proof.
  induction bs as [|[q v] r IH]; intro H; cbn [c12_last_binding]; [reflexivity|].
  cbn [map fst In] in H. rewrite IH by tauto.
  destruct (bytes_eqb q x) eqn:E; [|reflexivity]. apply bytes_eqb_eq in E. tauto.
Qed.

Lemma c12_last_binding_nodup : forall bs j p v,
  NoDup (map fst bs) -> nth_error bs j = Some (p, v) -> c12_last_binding bs p = Some v.
Proof.
  induction bs as [|[q w] r IH]; intros j p v Hnd Hj; [destruct j; discriminate|].
  cbn [map fst] in Hnd. inversion Hnd as [|? ? Hnotin Hnd']; subst.
  destruct j as [|j]; cbn [nth_error c12_last_binding] in *.
  - inversion Hj; subst. rewrite c12_last_binding_none by exact Hnotin. rewrite bytes_eqb_refl. reflexivity.
  - rewrite (IH j p v Hnd' Hj). reflexivity.
Qed.

(* with distinct parameter names: parameter number j is bound to its argument, default or null, whatever the
   caller holds under that name *)
Lemma C12_binding_lookup_proof : forall evc args params bs t env c tpl,
  c12_param_values evc args 0 params = (Ok bs, t) -> NoDup (map fst params) ->
  forall j p d, nth_error params j = Some (p, d) ->
    exists v tj, c12_arg_or_default evc args j d = (Ok v, tj) /\
                 rc_own_var (c12_macro_ctx env c tpl bs) p = Some v /\ rc_get_var (c12_macro_ctx env c tpl bs) p = v.
Proof.
  intros evc args params bs t env c tpl H Hnd j p d Hj.
  destruct (c12_param_values_nth evc args params 0 bs t H) as [_ Hnth].
  destruct (Hnth j p d Hj) as [v [tj [Hb Ha]]]. cbn [Nat.add] in Ha.
  exists v, tj. split; [exact Ha|].
  assert (Hl : c12_last_binding bs p = Some v).
  { apply (c12_last_binding_nodup bs j p v); [|exact Hb].
    rewrite (c12_param_values_names evc args params 0 bs t H). exact Hnd. }
  rewrite c12_macro_ctx_own_var, c12_macro_ctx_get_var, Hl. split; reflexivity.
Qed.

(* names that are not parameters are read from the caller (its own variables and its parents) *)
Lemma C12_outer_visible_proof : forall evc args params bs t env c tpl x,
  c12_param_values evc args 0 params = (Ok bs, t) -> ~ In x (map fst params) ->
  rc_get_var (c12_macro_ctx env c tpl bs) x = rc_get_var c x /\ rc_own_var (c12_macro_ctx env c tpl bs) x = None.
Proof.
  intros evc args params bs t env c tpl x H Hx.
  rewrite <- (c12_param_values_names evc args params 0 bs t H) in Hx.
  rewrite c12_macro_ctx_get_var, c12_macro_ctx_own_var, c12_last_binding_none by exact Hx. split; reflexivity.
Qed.

(* ================================================================ Part 2: the call *)
Lemma C12_binding_proof : forall ev rend env c tpl name args,
  ev_call_macro ev rend env c tpl name args = c12_call ev rend env c tpl name args.
Proof.
  intros. unfold ev_call_macro, c12_call.
  destruct (ts_find_macro env tpl name) as [[params body]|]; [|reflexivity].
  destruct (existsb vo_has_callable args || negb (ev_macro_body_plain body)); [reflexivity|].
  rewrite (ev_bind_params_spec (ev c) params args args 0) by (intro j; reflexivity).
  rewrite ev_bind_assoc. apply ev_bind_ext. intro bs. rewrite ev_bind_ret_l. reflexivity.
Qed.

(* the defaults are evaluated by the evaluator of the CALLER's context and by nothing else: the call depends on
   the expression evaluator only through its values on the default expressions in context c *)
Lemma c12_param_values_evc_ext evc1 evc2 args : forall params i,
  (forall p de, In (p, Some de) params -> evc1 de = evc2 de) ->
  c12_param_values evc1 args i params = c12_param_values evc2 args i params.
Proof.
  induction params as [|[p d] rest IH]; intros i H; cbn [c12_param_values]; [reflexivity|].
  assert (Hd : c12_arg_or_default evc1 args i d = c12_arg_or_default evc2 args i d).
  { unfold c12_arg_or_default. destruct (nth_error args i); [reflexivity|].
    destruct d as [de|]; [|reflexivity]. apply (H p de). left. reflexivity. }
  rewrite Hd. apply ev_bind_ext. intro v. rewrite (IH (S i)); [reflexivity|].
  intros q de Hin. apply (H q de). right. exact Hin.
Qed.

Lemma C12_defaults_in_caller_context_proof : forall ev1 ev2 rend env c tpl name args,
  (forall params body p de, ts_find_macro env tpl name = Some (params, body) -> In (p, Some de) params ->
     ev1 c de = ev2 c de) ->
  ev_call_macro ev1 rend env c tpl name args = ev_call_macro ev2 rend env c tpl name args.
Proof.
  intros ev1 ev2 rend env c tpl name args H. rewrite !C12_binding_proof. unfold c12_call.
  destruct (ts_find_macro env tpl name) as [[params body]|] eqn:E; [|reflexivity].
  destruct (existsb vo_has_callable args || negb (ev_macro_body_plain body)); [reflexivity|].
  rewrite (c12_param_values_evc_ext (ev1 c) (ev2 c) args params 0); [reflexivity|].
  intros p de Hin. apply (H params body p de eq_refl Hin).
Qed.

(* ---- the renderer is the specification renderer *)
Lemma ev_print_is_spec ev rend env c e : ev_print ev rend env c e = c12_print ev rend env c e.
Proof.
  unfold ev_print, c12_print. apply ev_rexpr_ext. intro v.
  destruct (vo_view v); try reflexivity. rewrite C12_binding_proof. reflexivity.
Qed.

Lemma render_node_is_c12 ev rend root env c n : render_node ev rend root env c n = c12_node ev rend root env c n.
Proof. destruct n; cbn [render_node c12_node]; try reflexivity. apply ev_print_is_spec. Qed.

Lemma C12_refines_spec_both : forall fuel,
  (forall env c ns, render fuel env c ns = c12_render fuel env c ns) /\
  (forall env c ns, render_root fuel env c ns = c12_render_root fuel env c ns).
Proof.
  induction fuel as [|fu [IHr IHt]]; split; intros env c ns; try reflexivity.
  - destruct ns as [|n rest]; [reflexivity|]. cbn [render c12_render].
    rewrite (render_node_ext (render fu env) (c12_render fu env)
                             (render_root fu env) (c12_render_root fu env) (IHr env) (IHt env)).
    rewrite render_node_is_c12. apply ev_rseq_ext. intro c1. apply IHr.
  - cbn [render_root c12_render_root]. apply ev_root_ext; [apply IHr|apply IHt].
Qed.

Lemma C12_refines_spec_proof : forall fuel env c ns, render fuel env c ns = c12_render fuel env c ns.
Proof. intros. apply C12_refines_spec_both. Qed.

Lemma C12_refines_spec_template_proof : forall fuel env name vars,
  render_template fuel env name vars = c12_render_template fuel env name vars.
Proof.
  intros. unfold render_template, c12_render_template. destruct (ts_lookup env name); [|reflexivity].
  rewrite (proj2 (C12_refines_spec_both fuel)). reflexivity.
Qed.

(* ================================================================ Part 3: the call forms *)
Lemma ev_sandbox_denies_var' env c x : ev_sandbox_denies env c (EVar x) = false.
Proof. unfold ev_sandbox_denies. destruct (rc_sandboxed c), (e_policy env); reflexivity. Qed.

Lemma eval_var fu env c x :
  c12_reads_variable c x -> rc_hack_name x = false ->
  eval (S fu) env c (EVar x) = ev_ret (rc_get_var c x).
Proof.
  intros Hm Hh. cbn [eval]. unfold ev_expr. unfold c12_reads_variable in Hm. unfold ev_var_macro in *.
  rewrite ev_sandbox_denies_var', Hm, Hh. reflexivity.
Qed.

Lemma c12_reads_variable_no_macro c x : rc_get_macro c x = None -> c12_reads_variable c x.
Proof. intro H. unfold c12_reads_variable, ev_var_macro. rewrite H. destruct (rc_own_var c x); reflexivity. Qed.
Lemma c12_reads_variable_own c x v : rc_own_var c x = Some v -> c12_reads_variable c x.
Proof. intro H. unfold c12_reads_variable, ev_var_macro. rewrite H. reflexivity. Qed.

Definition c12_closure (ev : expr -> ev_res) (tpl nm : bytes) (args : list expr) : ev_res :=
  ev_bind (ev_list ev args) (fun vs => ev_ret (VCallable tpl nm vs)).

(* name(args) where name is a macro of the context *)
Lemma eval_call_macro fu env c f tpl nm args :
  rc_get_macro c f = Some (tpl, nm) -> ev_sandbox_denies env c (ECall f args) = false ->
  eval (S fu) env c (ECall f args) = c12_closure (eval fu env c) tpl nm args.
Proof.
  intros Hm Hd. cbn [eval]. unfold ev_expr. rewrite Hd, Hm. reflexivity.
Qed.

(* x.m(args) where x holds a module map with m *)
Lemma eval_modcall_import fu env c x m tpl nm args kvs :
  c12_reads_variable c x -> rc_hack_name x = false ->
  rc_get_var c x = VMap MAny kvs -> vo_map_find kvs (VStr m) = Some (VMacro tpl nm) ->
  ev_sandbox_denies env c (EModCall (EVar x) m args) = false ->
  eval (S (S fu)) env c (EModCall (EVar x) m args) = c12_closure (eval (S fu) env c) tpl nm args.
Proof.
  intros Hm Hh Hv Hf Hd. cbn [eval]. unfold ev_expr at 1. rewrite Hd.
  change (ev_expr (eval fu env c) env c (EVar x)) with (eval (S fu) env c (EVar x)).
  rewrite (eval_var fu env c x Hm Hh), ev_bind_ret_l, Hv.
  unfold c12_closure. apply ev_bind_ext. intro vs. rewrite Hf. reflexivity.
Qed.

(* _self.m(args): _self is unbound, the call falls back to the lookup of m by name *)
Lemma eval_modcall_self fu env c m tpl nm args :
  c12_reads_variable c c12_self -> rc_get_var c c12_self = VNull ->
  rc_get_macro c m = Some (tpl, nm) ->
  ev_sandbox_denies env c (EModCall (EVar c12_self) m args) = false ->
  eval (S (S fu)) env c (EModCall (EVar c12_self) m args) = c12_closure (eval (S fu) env c) tpl nm args.
Proof.
  intros Hs Hv Hm Hd. cbn [eval]. unfold ev_expr at 1. rewrite Hd.
  change (ev_expr (eval fu env c) env c (EVar c12_self)) with (eval (S fu) env c (EVar c12_self)).
  rewrite (eval_var fu env c c12_self Hs eq_refl), ev_bind_ret_l, Hv.
  unfold c12_closure. apply ev_bind_ext. intro vs.
  unfold ev_self_call. rewrite Hm. reflexivity.
Qed.

(* every form that reaches the definition (tpl, nm) evaluates to the closure over the evaluated arguments:
   same value, same trace, same error when an argument fails *)
Lemma C12_forms_evaluate_alike_proof : forall fu env c f tpl nm args,
  c12_reaches env c f tpl nm -> ev_sandbox_denies env c (c12_form_expr f args) = false ->
  eval (S (S fu)) env c (c12_form_expr f args) = c12_closure (eval (S fu) env c) tpl nm args.
Proof.
  intros fu env c f tpl nm args Hr Hd. destruct f as [m|m|x m|m|y]; cbn [c12_form_expr c12_reaches] in *.
  - apply eval_call_macro; assumption.
  - destruct Hr as [H1 [H2 H3]]. apply eval_modcall_self; assumption.
  - destruct Hr as [H1 [H2 [kvs [H3 H4]]]]. eapply eval_modcall_import; eassumption.
  - apply eval_call_macro; assumption.
  - apply eval_call_macro; assumption.
Qed.

Lemma vo_view_callable tpl nm vs : vo_view (VCallable tpl nm vs) = KCallable tpl nm vs.
Proof. reflexivity. Qed.

(* printing a closure: the arguments, then the call by the binding rule in the context of the print tag; that
   context is handed on unchanged *)
Lemma c12_print_closure ev rend env c e tpl nm args :
  ev c e = c12_closure (ev c) tpl nm args ->
  ev_print ev rend env c e =
  ev_rexpr (ev_list (ev c) args) c (fun vs => let '(r, t) := c12_call ev rend env c tpl nm vs in (r, c, t)).
Proof.
  intro H. rewrite ev_print_is_spec. unfold c12_print. rewrite H. unfold c12_closure.
  destruct (ev_list (ev c) args) as [o t]. destruct o as [vs| | |]; cbn [ev_bind ev_ret ev_cast ev_rexpr]; try reflexivity.
  rewrite vo_view_callable. rewrite app_nil_r.
  destruct (c12_call ev rend env c tpl nm vs) as [r t2]. reflexivity.
Qed.

Lemma C12_call_printed_proof : forall fu env c f tpl nm args,
  c12_reaches env c f tpl nm -> ev_sandbox_denies env c (c12_form_expr f args) = false ->
  render_node (eval (S (S fu)) env) (render (S (S fu)) env) (render_root (S (S fu)) env) env c (NPrint (c12_form_expr f args)) =
  ev_rexpr (ev_list (eval (S fu) env c) args) c
    (fun vs => let '(r, t) := c12_call (eval (S (S fu)) env) (render (S (S fu)) env) env c tpl nm vs in (r, c, t)).
Proof.
  intros fu env c f tpl nm args Hr Hd. cbn [render_node].
  rewrite ev_print_is_spec. unfold c12_print.
  rewrite (C12_forms_evaluate_alike_proof fu env c f tpl nm args Hr Hd). unfold c12_closure.
  destruct (ev_list (eval (S fu) env c) args) as [o t]. destruct o as [vs| | |]; cbn [ev_bind ev_ret ev_cast ev_rexpr]; try reflexivity.
  rewrite vo_view_callable, app_nil_r.
  destruct (c12_call (eval (S (S fu)) env) (render (S (S fu)) env) env c tpl nm vs) as [r t2]. reflexivity.
Qed.

(* two forms that reach the same definition from the same context: same output, same trace, same context afterwards *)
Lemma C12_paths_agree_in_context_proof : forall fu env c f1 f2 tpl nm args,
  c12_reaches env c f1 tpl nm -> c12_reaches env c f2 tpl nm ->
  ev_sandbox_denies env c (c12_form_expr f1 args) = false -> ev_sandbox_denies env c (c12_form_expr f2 args) = false ->
  render_node (eval (S (S fu)) env) (render (S (S fu)) env) (render_root (S (S fu)) env) env c (NPrint (c12_form_expr f1 args)) =
  render_node (eval (S (S fu)) env) (render (S (S fu)) env) (render_root (S (S fu)) env) env c (NPrint (c12_form_expr f2 args)).
Proof.
  intros fu env c f1 f2 tpl nm args H1 H2 D1 D2.
  rewrite (C12_call_printed_proof fu env c f1 tpl nm args H1 D1), (C12_call_printed_proof fu env c f2 tpl nm args H2 D2).
  reflexivity.
Qed.

(* whatever a print tag prints, unless it is the closure of parent(), the context after it is the context before
   it: a macro call writes nothing into its caller *)
Lemma C12_body_assignments_local_proof : forall ev rend env c e r c' t,
  ev_print ev rend env c e = (r, c', t) ->
  (forall v t0, ev c e = (Ok v, t0) -> vo_view v <> KParent) ->
  c' = c.
Proof.
  intros ev rend env c e r c' t H Hnp. unfold ev_print in H.
  destruct (ev c e) as [o t0] eqn:E. destruct o as [v| | |]; cbn [ev_rexpr ev_cast] in H; try (inversion H; reflexivity).
  specialize (Hnp v t0 eq_refl).
  destruct (vo_view v) eqn:V; try congruence;
    try (destruct (vo_to_str v); cbn [ev_rret ev_rfail] in H; inversion H; reflexivity).
  destruct (ev_call_macro ev rend env c tpl name args) as [r2 t2]. inversion H; reflexivity.
Qed.

(* ================================================================ Part 4: call sites *)
Lemma rc_get_macro_with_current c b defs d tpl x : rc_get_macro (rc_with_current c b defs d tpl) x = rc_get_macro c x.
Proof. destruct c. reflexivity. Qed.
Lemma rc_get_var_with_current c b defs d tpl x : rc_get_var (rc_with_current c b defs d tpl) x = rc_get_var c x.
Proof. destruct c. reflexivity. Qed.

Lemma c12_include_ctx_get_macro c name x : rc_get_macro (c12_include_ctx c name) x = rc_get_macro c x.
Proof.
  unfold c12_include_ctx, rc_clone. rewrite rc_get_macro_unfold. cbn [rc_macros rc_parent].
  rewrite (rc_get_macro_unfold c x). destruct (assoc_bytes (rc_macros c) x); reflexivity.
Qed.
Lemma c12_include_ctx_get_var c name x : rc_get_var (c12_include_ctx c name) x = rc_get_var c x.
Proof. unfold c12_include_ctx, rc_clone. rewrite rc_get_var_unfold. reflexivity. Qed.

(* inside a construct a macro name denotes a macro of the construct itself (the body of a macro sees the macros
   of its template), else what it denotes outside *)
Lemma c12_site_get_macro env c s x :
  rc_get_macro (c12_site_ctx env c s) x =
  match assoc_bytes (c12_site_macros env s) x with Some r => Some r | None => rc_get_macro c x end.
Proof.
  destruct s; cbn [c12_site_ctx c12_site_macros assoc_bytes].
  - rewrite ev_iter_ctx_is_spec. apply rc_get_macro_iter.
  - apply rc_get_macro_with_current.
  - apply c12_include_ctx_get_macro.
  - apply c12_macro_ctx_get_macro.
Qed.

Lemma c12_site_get_var env c s x : ~ In x (c12_site_binds s) -> rc_get_var (c12_site_ctx env c s) x = rc_get_var c x.
Proof.
  intro H. destruct s; cbn [c12_site_ctx c12_site_binds] in *.
  - rewrite ev_iter_ctx_is_spec. apply C09_iter_frame.
    + intro E. apply H. left. symmetry. exact E.
    + intro E. apply H. right. left. symmetry. exact E.
    + intro E. subst k. apply H. right. right. left. reflexivity.
  - apply rc_get_var_with_current.
  - apply c12_include_ctx_get_var.
  - rewrite c12_macro_ctx_get_var, c12_last_binding_none by exact H. reflexivity.
Qed.

Lemma c12_site_sandboxed env c s : rc_sandboxed (c12_site_ctx env c s) = rc_sandboxed c.
Proof.
  destruct s; cbn [c12_site_ctx].
  - unfold ev_iter_ctx. destruct k; destruct c; reflexivity.
  - destruct c; reflexivity.
  - reflexivity.
  - apply c12_macro_ctx_sandboxed.
Qed.

Lemma c12_site_denies env c s e : ev_sandbox_denies env (c12_site_ctx env c s) e = ev_sandbox_denies env c e.
Proof. unfold ev_sandbox_denies. rewrite c12_site_sandboxed. reflexivity. Qed.

(* the variable a form reads (x of x.m, _self) is not the name of a macro *)
Definition c12_no_macro_named (c : rctx) (f : c12_form) : Prop :=
  match f with
  | FSelf _ => rc_get_macro c c12_self = None
  | FImport x _ => rc_get_macro c x = None
  | _ => True
  end.

Lemma c12_same_macro sib c m tpl nm :
  assoc_bytes sib m = None \/ assoc_bytes sib m = Some (tpl, nm) -> rc_get_macro c m = Some (tpl, nm) ->
  match assoc_bytes sib m with Some r => Some r | None => rc_get_macro c m end = Some (tpl, nm).
Proof. intros [H|H] Hm; rewrite H; [exact Hm|reflexivity]. Qed.

(* a form that reaches a definition from a context reaches it from inside a loop, a block, an included template
   and another macro of that context, provided the construct does not bind the variable the form reads and does
   not capture the names it looks up *)
Lemma C12_reaches_inside_proof : forall env c s f tpl nm,
  c12_reaches env c f tpl nm -> c12_no_macro_named c f -> c12_site_keeps env s f tpl nm ->
  (forall x, In x (c12_form_names f) -> In x (c12_site_binds s) ->
     match f with FSelf _ | FImport _ _ => False | _ => True end) ->
  c12_reaches env (c12_site_ctx env c s) f tpl nm /\ c12_no_macro_named (c12_site_ctx env c s) f.
Proof.
  intros env c s f tpl nm Hr Hnm Hk Hfresh.
  destruct f as [m|m|x m|m|y]; cbn [c12_reaches c12_form_names c12_no_macro_named c12_site_keeps] in *.
  - split; [|exact I]. rewrite c12_site_get_macro. apply c12_same_macro; assumption.
  - destruct Hr as [H1 [H2 H3]]. destruct Hk as [Hk1 Hk2].
    assert (Hs : rc_get_macro (c12_site_ctx env c s) c12_self = None) by (rewrite c12_site_get_macro, Hk1; exact Hnm).
    split; [|exact Hs]. split; [apply c12_reads_variable_no_macro; exact Hs|]. split.
    + rewrite c12_site_get_var; [exact H2|]. intro Hin. apply (Hfresh c12_self); [left; reflexivity|exact Hin].
    + rewrite c12_site_get_macro. apply c12_same_macro; assumption.
  - destruct Hr as [H1 [H2 [kvs [H3 H4]]]].
    assert (Hs : rc_get_macro (c12_site_ctx env c s) x = None) by (rewrite c12_site_get_macro, Hk; exact Hnm).
    split; [|exact Hs]. split; [apply c12_reads_variable_no_macro; exact Hs|]. split; [exact H2|].
    exists kvs. split; [|exact H4]. rewrite c12_site_get_var; [exact H3|].
    intro Hin. apply (Hfresh x); [left; reflexivity|exact Hin].
  - split; [|exact I]. rewrite c12_site_get_macro. apply c12_same_macro; assumption.
  - split; [|exact I]. rewrite c12_site_get_macro. apply c12_same_macro; assumption.
Qed.

Definition c12_sites_ctx (env : ev_env) (c : rctx) (sites : list c12_site) : rctx := fold_left (c12_site_ctx env) sites c.

Lemma C12_reaches_nested_proof : forall env sites c f tpl nm,
  c12_reaches env c f tpl nm -> c12_no_macro_named c f ->
  (forall s, In s sites -> c12_site_keeps env s f tpl nm) ->
  (forall s x, In s sites -> In x (c12_form_names f) -> In x (c12_site_binds s) ->
     match f with FSelf _ | FImport _ _ => False | _ => True end) ->
  c12_reaches env (c12_sites_ctx env c sites) f tpl nm.
Proof.
  intros env sites. induction sites as [|s rest IH]; intros c f tpl nm Hr Hnm Hk Hfresh; cbn [c12_sites_ctx fold_left].
  - exact Hr.
  - destruct (C12_reaches_inside_proof env c s f tpl nm Hr Hnm (Hk s (or_introl eq_refl))) as [Hr' Hnm'].
    { intros x H1 H2. apply (Hfresh s x); [left; reflexivity|exact H1|exact H2]. }
    apply IH; [exact Hr'|exact Hnm'| |].
    + intros s' Hin. apply Hk. right. exact Hin.
    + intros s' x Hin. apply Hfresh. right. exact Hin.
Qed.

Lemma c12_sites_denies env sites : forall c e, ev_sandbox_denies env (c12_sites_ctx env c sites) e = ev_sandbox_denies env c e.
Proof.
  induction sites as [|s rest IH]; intros c e; cbn [c12_sites_ctx fold_left]; [reflexivity|].
  unfold c12_sites_ctx in IH. rewrite IH. apply c12_site_denies.
Qed.

(* the same rule wherever the call stands: inside any nesting of loops, blocks, included templates and macro
   bodies the call prints c12_call of the context of the call site *)
Lemma C12_callable_from_anywhere_proof : forall fu env c sites f tpl nm args,
  c12_reaches env c f tpl nm -> c12_no_macro_named c f -> ev_sandbox_denies env c (c12_form_expr f args) = false ->
  (forall s, In s sites -> c12_site_keeps env s f tpl nm) ->
  (forall s x, In s sites -> In x (c12_form_names f) -> In x (c12_site_binds s) ->
     match f with FSelf _ | FImport _ _ => False | _ => True end) ->
  let c' := c12_sites_ctx env c sites in
  render_node (eval (S (S fu)) env) (render (S (S fu)) env) (render_root (S (S fu)) env) env c' (NPrint (c12_form_expr f args)) =
  ev_rexpr (ev_list (eval (S fu) env c') args) c'
    (fun vs => let '(r, t) := c12_call (eval (S (S fu)) env) (render (S (S fu)) env) env c' tpl nm vs in (r, c', t)).
Proof.
  intros fu env c sites f tpl nm args Hr Hnm Hd Hk Hfresh c'. apply C12_call_printed_proof.
  - apply C12_reaches_nested_proof; assumption.
  - unfold c'. rewrite c12_sites_denies. exact Hd.
Qed.

(* excluded: a template included with only or sandboxed starts from a context without parent and without
   macros: no macro of the includer is reachable by name there *)
Lemma C12_isolated_include_sees_no_macro_proof : forall vars name sb last m,
  rc_get_macro (rc_derive (rc_fresh vars name) None sb last) m = None.
Proof. reflexivity. Qed.

(* ================================================================ Part 5: registration *)
(* a macro tag registers (template being rendered, name) under its name and touches nothing else *)
Lemma C12_macro_tag_registers_proof : forall ev rend root env c m ps body,
  exists c', render_node ev rend root env c (NMacro m ps body) = (Ok [], c', []) /\
             rc_get_macro c' m = Some (rc_tpl c, m) /\
             (forall x, x <> m -> rc_get_macro c' x = rc_get_macro c x) /\
             (forall x, rc_get_var c' x = rc_get_var c x).
Proof.
  intros. eexists. split; [reflexivity|]. split; [|split].
  - rewrite rc_get_macro_unfold. destruct c; cbn. rewrite rc_assoc_set_same. reflexivity.
  - intros x Hx. rewrite rc_get_macro_unfold, (rc_get_macro_unfold c x). destruct c; cbn.
    rewrite rc_assoc_set_other by (intro E; apply Hx; symmetry; exact E). reflexivity.
  - intro x. destruct c; reflexivity.
Qed.

(* the module map finds what the macro table of the imported context holds *)
Lemma c12_module_find ms m :
  match c12_module_of ms with
  | VMap MAny kvs => vo_map_find kvs (VStr m) =
                     match assoc_bytes ms m with Some ref => Some (VMacro (fst ref) (snd ref)) | None => None end
  | _ => False
  end.
Proof.
  unfold c12_module_of. induction ms as [|[k [t n]] r IH]; cbn [map vo_map_find assoc_bytes fst snd]; [reflexivity|].
  destruct (bytes_eqb k m); [reflexivity|exact IH].
Qed.

(* import: the WHOLE imported template is rendered (through the root renderer) in a fresh context that has the
   importer's sandbox flag; the macro table that rendering leaves becomes the module map bound to the alias *)
Lemma C12_import_renders_whole_template_proof : forall ev root env c e alias name inodes t,
  ev_load ev env c e = (Ok (name, Some inodes), t) ->
  let ic := rc_derive (rc_fresh [] name) None (rc_sandboxed c) (Some name) in
  ev_import ev root env c e alias =
  match root ic inodes with
  | (Ok _, ic', t2) => (Ok [], rc_set_var c alias (c12_module_of (rc_macros ic')), t ++ t2)
  | (o, _, t2) => (ev_cast o Unmodelled, c, t ++ t2)
  end.
Proof.
  intros ev root env c e alias name inodes t H ic. unfold ev_import, ev_import_macros. rewrite H.
  fold ic. destruct (root ic inodes) as [[o ic'] t2]. destruct o; reflexivity.
Qed.

Lemma C12_from_renders_whole_template_proof : forall ev root env c e names name inodes t,
  ev_load ev env c e = (Ok (name, Some inodes), t) -> ts_no_dup (map fst names) = true ->
  let ic := rc_derive (rc_fresh [] name) None (rc_sandboxed c) (Some name) in
  ev_from ev root env c e names =
  match root ic inodes with
  | (Ok _, ic', t2) =>
    match ev_from_names (rc_macros ic') names c with
    | Ok c' => (Ok [], c', t ++ t2)
    | o => (ev_cast o Unmodelled, c, t ++ t2)
    end
  | (o, _, t2) => (ev_cast o Unmodelled, c, t ++ t2)
  end.
Proof.
  intros ev root env c e names name inodes t H Hnd ic. unfold ev_from, ev_import_macros. rewrite H.
  fold ic. destruct (root ic inodes) as [[o ic'] t2]. destruct o; try reflexivity.
  rewrite Hnd. reflexivity.
Qed.

(* after import t as x: x.m reaches what the imported context registered under m (x is now a variable of the
   importing context itself, so it is read as a variable even if a macro x is visible) *)
Lemma C12_import_reaches_proof : forall env c x ms m tpl nm,
  rc_hack_name x = false -> assoc_bytes ms m = Some (tpl, nm) ->
  c12_reaches env (rc_set_var c x (c12_module_of ms)) (FImport x m) tpl nm.
Proof.
  intros env c x ms m tpl nm Hh Ha. cbn [c12_reaches].
  split; [eapply c12_reads_variable_own; apply rc_own_set_same|]. split; [exact Hh|].
  pose proof (c12_module_find ms m) as Hf. unfold c12_module_of in *.
  eexists. split; [apply rc_get_set_same|]. rewrite Hf, Ha. reflexivity.
Qed.

(* after from t import m as y: y reaches what the imported context registered under m, and the other names
   of the list reach theirs (a later entry of the list may take the same alias: the last one wins) *)
Lemma c12_from_names_last ms : forall names c c' m y ref,
  ev_from_names ms (names ++ [(m, y)]) c = Ok c' -> assoc_bytes ms m = Some ref ->
  rc_get_macro c' y = Some ref /\ forall x, rc_get_var c' x = rc_get_var c x.
Proof.
  induction names as [|[m0 y0] r IH]; intros c c' m y ref H Ha; cbn [app ev_from_names] in H.
  - rewrite Ha in H. inversion H; subst. split.
    + rewrite rc_get_macro_unfold. destruct c; cbn. rewrite rc_assoc_set_same. reflexivity.
    + intro x. destruct c; reflexivity.
  - destruct (assoc_bytes ms m0) as [ref0|]; [|discriminate].
    destruct (IH _ c' m y ref H Ha) as [H1 H2]. split; [exact H1|].
    intro x. rewrite H2. destruct c; reflexivity.
Qed.

Lemma C12_from_reaches_proof : forall env ms c c' m y tpl nm,
  ev_from_names ms [(m, y)] c = Ok c' -> assoc_bytes ms m = Some (tpl, nm) ->
  c12_reaches env c' (FAlias y) tpl nm /\ (forall x, rc_get_var c' x = rc_get_var c x).
Proof.
  intros env ms c c' m y tpl nm H Ha. cbn [c12_reaches].
  apply (c12_from_names_last ms [] c c' m y (tpl, nm) H Ha).
Qed.

(* wrappers: the context a wrapper hands on is the context its body left (up to the fields a block restores),
   so a macro tag inside spaceless, apply, a block, a taken if branch or a loop iteration is registered like one
   at the top level *)
Lemma C12_spaceless_passes_context_proof : forall rend env c body,
  snd (fst (ev_spaceless rend env c body)) = snd (fst (rend c body)).
Proof.
  intros. unfold ev_spaceless. destruct (rend c body) as [[o c1] t1]. destruct o; try reflexivity.
  destruct (ev_apply_filter env c1 b#"spaceless" (VStr a) []) as [o2 t2]. destruct o2; reflexivity.
Qed.

Lemma C12_apply_passes_context_proof : forall ev rend env c f args body,
  snd (fst (ev_apply ev rend env c f args body)) = snd (fst (rend c body)).
Proof.
  intros. unfold ev_apply. destruct (rend c body) as [[o c1] t1]. destruct o; try reflexivity.
  destruct (ev_bind _ _) as [o2 t2]. destruct o2; reflexivity.
Qed.

Lemma C12_block_passes_macros_proof : forall rend c name body r c' t,
  ev_block rend c name body = (r, c', t) ->
  c' = c \/
  exists d defs, forall m, rc_get_macro c' m = rc_get_macro (snd (fst (rend (rc_with_current c (Some name) defs 0 (bd_tpl d)) (bd_body d)))) m.
Proof.
  intros rend c name body r c' t H. unfold ev_block in H.
  destruct (if existsb _ _ then _ else _) as [|d ds] eqn:E.
  - inversion H. left. reflexivity.
  - right. exists d, (d :: ds).
    destruct (rend (rc_with_current c (Some name) (d :: ds) 0 (bd_tpl d)) (bd_body d)) as [[r1 c1] t1].
    inversion H; subst. cbn [fst snd]. intro x. apply rc_get_macro_with_current.
Qed.

Lemma C12_if_passes_context_proof : forall ev rend c cond body rest els v t,
  ev c cond = (Ok v, t) -> vo_to_bool v = true ->
  ev_if ev rend c ((cond, body) :: rest) els = c9_add_trace t (rend c body).
Proof.
  intros. cbn [ev_if]. rewrite H, ev_rexpr_ok, H0. reflexivity.
Qed.

Lemma C12_for_passes_macros_proof : forall rend c k v tag x body els r c' t,
  ev_for_loop rend c k v (VList tag [x]) body els = (r, c', t) ->
  forall m, rc_get_macro c' m = rc_get_macro (snd (fst (rend (ev_iter_ctx c k v 1 0 (VInt 0, x)) body))) m.
Proof.
  intros rend c k v tag x body els r c' t H. unfold ev_for_loop in H. cbn [ev_loop_items_of vo_view ev_indexed length] in H.
  cbn [ev_loop_items Z.of_nat Pos.of_succ_nat] in H.
  destruct (rend (ev_iter_ctx c k v 1 0 (VInt 0, x)) body) as [[o c1] t1] eqn:E.
  intro m. cbn [fst snd].
  destruct o; cbn [ev_rseq ev_rret] in H; destruct (rc_own_var c b#"loop"); inversion H; subst;
    rewrite ?rc_get_macro_set_var; reflexivity.
Qed.

(* ================================================================ Part 6: three repaired defects, as regressions *)
(* Found while building this property and repaired in the engine (e1487ea, 8789b1e, 81c1e66); the model follows.
   Before: b failed with an unknown function a through import / from (the body looked macro names up in the caller's
   table only); the parameter a of c printed nothing in the defining template (the macro a hid it); _self.max(7)
   called the registered function max. *)
Definition c12_five_names : list bytes := [b#"local"; b#"self"; b#"import"; b#"from"; b#"alias"].

(* a library whose macro b uses its sibling a *)
Definition c12_w_sibling : list node :=
  [ NMacro b#"a" [(b#"x", None)] [NText b#"<a"; NPrint (EVar b#"x"); NText b#">"];
    NMacro b#"b" [(b#"y", None)] [NText b#"[b"; NPrint (EVar b#"y"); NPrint (ECall b#"a" [EVar b#"y"]); NText b#"]"] ].
Lemma C12_sibling_call_all_paths_proof :
  map (c12_five_out 40 c12_w_sibling b#"b" [ELit (LInt 1)] []) c12_five_names = map (fun _ => Ok b#"[b1<a1>]") c12_five_names.
Proof. vm_compute. reflexivity. Qed.

(* a parameter that has the name of a macro of the library *)
Definition c12_w_param : list node :=
  [ NMacro b#"a" [(b#"x", None)] [NText b#"<a"; NPrint (EVar b#"x"); NText b#">"];
    NMacro b#"c" [(b#"a", None)] [NText b#"[c"; NPrint (EVar b#"a"); NText b#"]"] ].
Lemma C12_parameter_named_like_macro_all_paths_proof :
  map (c12_five_out 40 c12_w_param b#"c" [ELit (LInt 7)] []) c12_five_names = map (fun _ => Ok b#"[c7]") c12_five_names.
Proof. vm_compute. reflexivity. Qed.

(* a macro that has the name of a registered function *)
Definition c12_w_fname : list node :=
  [ NMacro b#"max" [(b#"x", None)] [NText b#"<mymax"; NPrint (EVar b#"x"); NText b#">"] ].
Lemma C12_macro_named_like_function_all_paths_proof :
  map (c12_five_out 40 c12_w_fname b#"max" [ELit (LInt 7)] []) c12_five_names = map (fun _ => Ok b#"<mymax7>") c12_five_names.
Proof. vm_compute. reflexivity. Qed.

(* what remains path dependent (known finding default-calls-sibling-macro): a DEFAULT that calls a macro of its own
   template. Defaults are evaluated in the caller's context, and only the defining template holds the library's macros
   by name; C12_paths_agree excludes it by its side condition on the defaults of the called macro *)
Definition c12_w_default : list node :=
  [ NMacro b#"a" [(b#"x", None)] [NText b#"<a"; NPrint (EVar b#"x"); NText b#">"];
    NMacro b#"b" [(b#"y", Some (ECall b#"a" [ELit (LInt 1)]))] [NText b#"[b"; NPrint (EVar b#"y"); NText b#"]"] ].
Lemma C12_default_sibling_refuted_proof :
  exists D m args,
    c12_five_out 40 D m args [] b#"local" = Ok b#"[b<a1>]" /\
    c12_five_out 40 D m args [] b#"self" = Ok b#"[b<a1>]" /\
    c12_five_out 40 D m args [] b#"import" = Err EOther /\
    c12_five_out 40 D m args [] b#"from" = Err EOther /\
    c12_five_out 40 D m args [] b#"alias" = Err EOther /\
    (* and the side condition of C12_paths_agree is what fails: the default looks up the sibling a *)
    c12_params_ok (c12_minus [b#"loop"; b#"x"; b#"y"; b#"a"] (ts_sibling_macros (c12_five_env D m args) c12_lib_name))
                  [(b#"y", Some (ECall b#"a" [ELit (LInt 1)]))] = false.
Proof. exists c12_w_default, b#"b", []. vm_compute. repeat split; reflexivity. Qed.

(* ================================================================ Part 7: the second declaration parser *)
Definition c12_name_clean (t : xtok) : bool :=
  match t with XT XName v => negb (existsb (Byte.eqb c12_lparen) v) | _ => true end.

Lemma xl_cons_ok_inv t o l : xl_cons t o = Ok l -> exists l', o = Ok l' /\ l = t :: l'.
Proof. destruct o; cbn; intro H; try discriminate. inversion H. eexists. split; reflexivity. Qed.

Lemma xl_span_forall p : forall s a rest, xl_span p s = (a, rest) -> forallb p a = true.
Proof.
  induction s as [|c r IH]; intros a rest H; cbn [xl_span] in H.
  - inversion H; reflexivity.
  - destruct (p c) eqn:E.
    + destruct (xl_span p r) as [a' b'] eqn:E2. inversion H; subst. cbn. rewrite E. apply (IH a' rest eq_refl).
    + inversion H; reflexivity.
Qed.

Lemma c12_ident_start_not_paren c : xl_ident_start c = true -> Byte.eqb c12_lparen c = false.
Proof.
  intro H. destruct (Byte.eqb c12_lparen c) eqn:E; [|reflexivity].
  apply byte_eqb_eq in E. subst c. vm_compute in H. discriminate.
Qed.
Lemma c12_ident_cont_not_paren c : xl_ident_cont c = true -> Byte.eqb c12_lparen c = false.
Proof.
  intro H. destruct (Byte.eqb c12_lparen c) eqn:E; [|reflexivity].
  apply byte_eqb_eq in E. subst c. vm_compute in H. discriminate.
Qed.
Lemma c12_ident_run_no_paren a : forallb xl_ident_cont a = true -> existsb (Byte.eqb c12_lparen) a = false.
Proof.
  induction a as [|c r IH]; cbn; [reflexivity|]. intro H. apply andb_prop in H. destruct H as [H1 H2].
  rewrite (c12_ident_cont_not_paren c H1), (IH H2). reflexivity.
Qed.

(* no NAME token of TokenizeExpression contains an opening parenthesis *)
Lemma xl_loop_names_clean : forall f pb st s l, xl_loop f pb st s = Ok l -> forallb c12_name_clean l = true.
Proof.
  induction f as [|f IH]; intros pb st s l H; [discriminate|].
  cbn [xl_loop] in H. destruct s as [|c r]; [inversion H; reflexivity|].
  destruct (xl_is_quote c && negb pb).
  { destruct st as [[d acc]|].
    - destruct (Byte.eqb c d).
      + apply xl_cons_ok_inv in H. destruct H as [l' [H ->]]. cbn [forallb c12_name_clean]. eapply IH; eassumption.
      + eapply IH; eassumption.
    - eapply IH; eassumption. }
  destruct st as [[d acc]|]; [eapply IH; eassumption|].
  destruct (xl_is_operator c).
  { destruct r as [|d r']; [inversion H; reflexivity|].
    destruct (xl_two_char c d); apply xl_cons_ok_inv in H; destruct H as [l' [H ->]];
      cbn [forallb c12_name_clean]; eapply IH; eassumption. }
  destruct (xl_is_punct c).
  { apply xl_cons_ok_inv in H. destruct H as [l' [H ->]]. cbn [forallb c12_name_clean]. eapply IH; eassumption. }
  destruct (xl_is_space c); [eapply IH; eassumption|].
  destruct (xl_ident_start c) eqn:Es.
  { destruct (xl_span xl_ident_cont r) as [a rest] eqn:Ea.
    apply xl_cons_ok_inv in H. destruct H as [l' [H ->]].
    cbn [forallb c12_name_clean existsb]. rewrite (IH _ _ _ _ H), andb_true_r.
    rewrite (c12_ident_start_not_paren c Es), (c12_ident_run_no_paren a (xl_span_forall _ _ _ _ Ea)). reflexivity. }
  destruct (xl_is_digit c).
  { destruct (xl_number false (c :: r)) as [v rest].
    apply xl_cons_ok_inv in H. destruct H as [l' [H ->]]. cbn [forallb c12_name_clean]. eapply IH; eassumption. }
  destruct (cc_number_minus && Byte.eqb c XMINUS && match r with d :: _ => xl_is_digit d | [] => false end).
  { destruct (xl_number true r) as [v rest].
    apply xl_cons_ok_inv in H. destruct H as [l' [H ->]]. cbn [forallb c12_name_clean]. eapply IH; eassumption. }
  eapply IH; eassumption.
Qed.

(* whatever stands behind the tag name of a macro tag, parseMacro finds no NAME with a parenthesis in front of
   it: the declaration parser for combined tokens is never entered *)
Lemma C12_combined_declaration_unreachable_proof : forall content toks,
  xl_lex content = Ok toks -> c12_takes_combined_path toks = false.
Proof.
  intros content toks H. unfold xl_lex in H. apply xl_loop_names_clean in H.
  unfold c12_takes_combined_path. destruct toks as [|[k v] rest]; [reflexivity|].
  destruct k; try reflexivity. cbn [forallb c12_name_clean] in H. apply andb_prop in H. destruct H as [H _].
  apply negb_true_iff in H. exact H.
Qed.

(* ================================================================ non-vacuity *)
(* m(a, b = 'd', c = n + 1): fewer, equal and more arguments; the third default reads the caller's n *)
Definition c12_x_sig : list node :=
  [ NMacro b#"m" [(b#"a", None); (b#"b", Some (ELit (LStr b#"d"))); (b#"c", Some (EBin BAdd (EVar b#"n") (ELit (LInt 1))))]
      [NText b#"["; NPrint (EVar b#"a"); NText b#"|"; NPrint (EVar b#"b"); NText b#"|"; NPrint (EVar b#"c"); NText b#"]"] ].
Definition c12_x_vars : list (bytes * value) := [(b#"n", VInt 10)].

(* definitions that are not children of the template root *)
Definition c12_x_wrapped : list node :=
  [ NSpaceless [NMacro b#"w1" [] [NText b#"w1"]];
    NIf [(ELit (LBool true), [NMacro b#"w2" [] [NText b#"w2"]])] None;
    NFor None b#"i" (EArr [ELit (LInt 1)]) [NMacro b#"w3" [] [NText b#"w3"]] None;
    NBlock b#"bb" [NMacro b#"w4" [] [NText b#"w4"]];
    NApply b#"upper" [] [NMacro b#"w5" [(b#"p", Some (ELit (LStr b#"q")))] [NText b#"w5"; NPrint (EVar b#"p")]] ].

(* a body that assigns names the caller uses, runs a loop and imports: the caller reads its own values afterwards *)
Definition c12_x_effects : list node :=
  [ NMacro b#"e" [] [NSet b#"v" (ELit (LStr b#"in")); NFor None b#"i" (EArr [ELit (LInt 8); ELit (LInt 9)]) [NPrint (EVar b#"i")] None;
                     NPrint (EVar b#"v")];
    NSet b#"v" (ELit (LStr b#"out")); NSet b#"i" (ELit (LStr b#"I"));
    NPrint (ECall b#"e" []); NText b#"|"; NPrint (EVar b#"v"); NPrint (EVar b#"i"); NPrint (EAttr (EVar b#"loop") b#"index") ].

(* ================================================================ Part 8: the code has the shape the model assumes *)
(* regenerated from node.go, render.go and zero_alloc_tokenizer.go on every run (tools/gogen/gen_macro.go) *)
Lemma C12_code_shape_proof :
  ms_body_in_fresh_ctx = true /\ ms_defaults_in_caller = true /\ ms_binding_three_way = true /\
  ms_parent_read_only = true /\ ms_import_renders_whole = true /\ ms_macro_tag_by_expression_lexer = true.
Proof. repeat split; vm_compute; reflexivity. Qed.
