(* On the machine (64-bit wrap-around) the translated index computations of filterSlice give the model result: from the check lists (KernelSliceSafe) and ksafe_sound. *)
From Coq Require Import ZArith List Bool Lia.
From Twig Require Import Base.Bytes Base.Kernel Gen.KernelsSlice Model.Filters Proofs.KernelTactics Proofs.KernelSliceModel Proofs.KernelSliceSafe.
Import ListNotations.
Local Open Scope Z_scope.

(* ---- the machine reading (64-bit wrap-around) of the slice kernels ---- *)
Lemma k_slice_string_machine start len hl n :
  in64 start = true -> in64 len = true -> 0 <= n < 2^63 ->
  krun w64 (k_slice_string_env start len hl n) k_slice_string_ir = ksl_res (flt_slice_bounds n start (ksl_len hl len)).
Proof.
  intros Hs Hl Hn. rewrite ksafe_sound; [rewrite k_slice_string_is_ir; apply k_slice_string_model|].
  rewrite k_slice_string_safe_is_ir. apply k_slice_string_safe_all; assumption.
Qed.
Lemma k_slice_list_machine start len hl n :
  in64 start = true -> in64 len = true -> 0 <= n < 2^63 ->
  krun w64 (k_slice_list_env start len hl n) k_slice_list_ir = ksl_res (flt_slice_bounds n start (ksl_len hl len)).
Proof.
  intros Hs Hl Hn. rewrite ksafe_sound; [rewrite k_slice_list_is_ir; apply k_slice_list_model|].
  rewrite k_slice_list_safe_is_ir. apply k_slice_list_safe_all; assumption.
Qed.
Lemma k_slice_refl_string_machine start len hl n :
  in64 start = true -> in64 len = true -> 0 <= n < 2^63 ->
  krun w64 (k_slice_refl_string_env start len hl n) k_slice_refl_string_ir = ksl_res (flt_slice_bounds n start (ksl_len hl len)).
Proof.
  intros Hs Hl Hn. rewrite ksafe_sound; [rewrite k_slice_refl_string_is_ir; apply k_slice_refl_string_model|].
  rewrite k_slice_refl_string_safe_is_ir. apply k_slice_refl_string_safe_all; assumption.
Qed.
Lemma k_slice_refl_slice_machine start len hl n :
  in64 start = true -> in64 len = true -> 0 <= n < 2^63 ->
  krun w64 (k_slice_refl_slice_env start len hl n) k_slice_refl_slice_ir = ksl_res (flt_slice_bounds_refl n start (ksl_len hl len)).
Proof.
  intros Hs Hl Hn. rewrite ksafe_sound; [rewrite k_slice_refl_slice_is_ir; apply k_slice_refl_slice_model|].
  rewrite k_slice_refl_slice_safe_is_ir. apply k_slice_refl_slice_safe_all; assumption.
Qed.

