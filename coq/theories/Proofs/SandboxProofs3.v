(* Proofs of property C06 (sandbox confinement), part 3: the sandboxed run and its erased twin.
   Every context c has a twin sb_erase c: the same context without the sandbox flag (in it and in its parents).
   Theorem (sd_render_both): rendering in c either ends in the security class, or it is the rendering in the twin:
   same outcome, same trace, and the context handed on is the twin of the twin run's context. So a sandboxed render
   that is not refused produces exactly what it would produce without the sandbox (C06_allowed_still_works), and a
   sandboxed render whose twin invokes a forbidden name is refused with the security class (C06_forbidden_fails):
   the two can only part at a refusal, and a refusal is never turned into another outcome -- no helper of the model
   swallows an error. *)
From Twig Require Import Base.Bytes Base.Utf8 Model.Ast Model.Value Model.ValueOps Model.EvalBuiltins Model.Ctx
                         Model.TemplateSet Model.Eval Spec.SandboxSpec Proofs.EvalProofs Proofs.SandboxProofs
                         Proofs.SandboxProofs2 Proofs.SandboxSyntax.

(* ================================================================ expressions *)
Lemma ed_refl {A} (r : outcome A * ev_trace) : sb_edich r r.
Proof. right. reflexivity. Qed.

Lemma ed_bind {A B} (rs ru : outcome A * ev_trace) (ks ku : A -> outcome B * ev_trace) :
  sb_edich rs ru -> (forall a, sb_edich (ks a) (ku a)) -> sb_edich (ev_bind rs ks) (ev_bind ru ku).
Proof.
  intros [Hl|Hr] Hk.
  - left. destruct rs as [o t]. cbn in Hl. subst o. reflexivity.
  - subst ru. destruct rs as [o t]. destruct o as [a| | |]; cbn [ev_bind]; try (right; reflexivity).
    destruct (Hk a) as [Hl|Hr].
    + left. destruct (ks a) as [o2 t2]. cbn in Hl. subst o2. reflexivity.
    + rewrite Hr. right. reflexivity.
Qed.

Lemma sb_erase_extends_ctx c1 pnodes name :
  MkRc (rc_vars (sb_erase c1)) (rc_parent (sb_erase c1)) [] (rc_blocks (sb_erase c1))
       (ev_parent_blocks pnodes (rc_parent_blocks (sb_erase c1)))
       (match rc_chain (sb_erase c1) with Some ((_ :: _) as ch) => Some ch | _ => None end)
       true None [] 0 false (rc_sandboxed (sb_erase c1)) (Some name) name =
  sb_erase (MkRc (rc_vars c1) (rc_parent c1) [] (rc_blocks c1) (ev_parent_blocks pnodes (rc_parent_blocks c1))
                 (match rc_chain c1 with Some ((_ :: _) as ch) => Some ch | _ => None end)
                 true None [] 0 false (rc_sandboxed c1) (Some name) name).
Proof. destruct c1. reflexivity. Qed.

Section Dich.
  Variable env : ev_env.

  Lemma ed_apply_filter c f v args : sb_edich (ev_apply_filter env c f v args) (ev_apply_filter env (sb_erase c) f v args).
  Proof.
    unfold ev_apply_filter. rewrite sb_erase_sandboxed. cbn [andb].
    destruct (rc_sandboxed c && negb (ev_filter_allowed env f)); [left; reflexivity|right; reflexivity].
  Qed.

  Lemma ed_call_function c f args : sb_edich (ev_call_function env c f args) (ev_call_function env (sb_erase c) f args).
  Proof.
    unfold ev_call_function. rewrite sb_erase_sandboxed, sb_erase_get_macro. cbn [andb].
    destruct (rc_sandboxed c && negb (ev_function_allowed env f)); [left; reflexivity|right; reflexivity].
  Qed.

  Lemma ed_self_call c f args : sb_edich (ev_self_call env c f args) (ev_self_call env (sb_erase c) f args).
  Proof.
    unfold ev_self_call. rewrite sb_erase_get_macro. destruct (rc_get_macro c f) as [[tpl nm]|]; [apply ed_refl|apply ed_call_function].
  Qed.

  Lemma ed_apply_chain c : forall ch v, sb_edich (ev_apply_chain env c v ch) (ev_apply_chain env (sb_erase c) v ch).
  Proof.
    induction ch as [|[f vs] r IH]; intro v; cbn [ev_apply_chain]; [apply ed_refl|].
    apply ed_bind; [apply ed_apply_filter|]. intro w. apply IH.
  Qed.

  Section Expr.
    Variables evs evu : expr -> ev_res.
    Hypothesis Hev : forall e, sb_edich (evs e) (evu e).

    Lemma ed_list es : sb_edich (ev_list evs es) (ev_list evu es).
    Proof.
      induction es as [|e r IH]; cbn [ev_list]; [apply ed_refl|].
      apply ed_bind; [apply Hev|]. intro v. apply ed_bind; [apply IH|]. intro vs. apply ed_refl.
    Qed.

    Lemma ed_pairs kvs : forall acc, sb_edich (ev_pairs evs kvs acc) (ev_pairs evu kvs acc).
    Proof.
      induction kvs as [|[k x] r IH]; intro acc; cbn [ev_pairs]; [apply ed_refl|].
      apply ed_bind; [apply Hev|]. intro kv. destruct (vo_to_str kv); [|apply ed_refl].
      apply ed_bind; [apply Hev|]. intro xv. apply IH.
    Qed.

    Lemma ed_chain_args ch : sb_edich (ev_chain_args evs ch) (ev_chain_args evu ch).
    Proof.
      induction ch as [|[f args] r IH]; cbn [ev_chain_args]; [apply ed_refl|].
      apply ed_bind; [apply ed_list|]. intro vs. apply ed_bind; [apply IH|]. intro rest. apply ed_refl.
    Qed.

    Lemma ed_filter_chain c e b : sb_edich (ev_filter_chain evs env c e b) (ev_filter_chain evu env (sb_erase c) e b).
    Proof.
      unfold ev_filter_chain. destruct (ev_unchain e) as [base ch].
      apply ed_bind; [apply ed_chain_args|]. intro args.
      apply ed_bind; [apply Hev|]. intro v.
      apply ed_bind; [apply ed_apply_chain|]. intro w. apply ed_refl.
    Qed.

    (* x.a is defined: a failure of x is a failure of the test *)
    Lemma ed_defined_attr o a : sb_edich (ev_defined_attr evs o a) (ev_defined_attr evu o a).
    Proof.
      unfold ev_defined_attr. destruct (Hev o) as [Hl|Hr].
      - left. destruct (evs o) as [r t]. cbn in Hl. subst r. reflexivity.
      - rewrite Hr. apply ed_refl.
    Qed.

    Lemma ed_expr c e : sb_edich (ev_expr evs env c e) (ev_expr evu env (sb_erase c) e).
    Proof.
      unfold ev_expr. destruct (ev_sandbox_denies env c e) eqn:Ed; [left; reflexivity|].
      assert (Hd : ev_sandbox_denies env (sb_erase c) e = false).
      { unfold ev_sandbox_denies. rewrite sb_erase_sandboxed. reflexivity. }
      rewrite Hd. clear Hd Ed.
      destruct e as [l|x|o a|o i|u a|b l r|q a b|es|kvs|o f args|f args|m f args|a t args neg].
      - apply ed_refl.
      - rewrite sb_erase_var_macro, sb_erase_get_var. apply ed_refl.
      - apply ed_bind; [apply Hev|]. intro obj. apply ed_refl.
      - apply ed_bind; [apply Hev|]. intro ov. apply ed_bind; [apply Hev|]. intro iv. apply ed_refl.
      - apply ed_bind; [apply Hev|]. intro v. apply ed_refl.
      - apply ed_bind; [apply Hev|]. intro lv.
        destruct b; try (apply ed_bind; [apply Hev|]; intro rv; apply ed_refl).
        + destruct (vo_to_bool lv); [apply ed_refl|]. apply ed_bind; [apply Hev|]. intro rv. apply ed_refl.
        + destruct (vo_to_bool lv); [|apply ed_refl]. apply ed_bind; [apply Hev|]. intro rv. apply ed_refl.
      - apply ed_bind; [apply Hev|]. intro qv. destruct (vo_to_bool qv); apply Hev.
      - apply ed_bind; [apply ed_list|]. intro vs. apply ed_refl.
      - apply ed_pairs.
      - apply ed_filter_chain.
      - rewrite sb_erase_get_macro. destruct (rc_get_macro c f) as [[tpl nm]|].
        + apply ed_bind; [apply ed_list|]. intro vs. apply ed_refl.
        + apply ed_bind; [apply ed_list|]. intro vs.
          apply ed_bind; [apply ed_call_function|]. intro r. apply ed_refl.
      - apply ed_bind; [apply Hev|]. intro mo. apply ed_bind; [apply ed_list|]. intro vs.
        destruct mo; try apply ed_self_call. destruct tag; try apply ed_self_call.
        destruct (vo_map_find kvs (VStr f)) as [[]|]; try apply ed_self_call. apply ed_refl.
      - assert (Hstd : sb_edich (ev_bind (evs a) (fun v => ev_bind (ev_list evs args) (fun vs => ev_call_test env t v vs)))
                                (ev_bind (evu a) (fun v => ev_bind (ev_list evu args) (fun vs => ev_call_test env t v vs)))).
        { apply ed_bind; [apply Hev|]. intro v. apply ed_bind; [apply ed_list|]. intro vs. apply ed_refl. }
        assert (Hr : sb_edich
                  (if bytes_eqb t b#"defined"
                   then match a with
                        | EAttr o attr => ev_defined_attr evs o attr
                        | EVar x => ev_defined_var c x
                        | _ => ev_bind (evs a) (fun v => ev_bind (ev_list evs args) (fun vs => ev_call_test env t v vs))
                        end
                   else ev_bind (evs a) (fun v => ev_bind (ev_list evs args) (fun vs => ev_call_test env t v vs)))
                  (if bytes_eqb t b#"defined"
                   then match a with
                        | EAttr o attr => ev_defined_attr evu o attr
                        | EVar x => ev_defined_var (sb_erase c) x
                        | _ => ev_bind (evu a) (fun v => ev_bind (ev_list evu args) (fun vs => ev_call_test env t v vs))
                        end
                   else ev_bind (evu a) (fun v => ev_bind (ev_list evu args) (fun vs => ev_call_test env t v vs)))).
        { destruct (bytes_eqb t b#"defined"); [|exact Hstd].
          destruct a; try exact Hstd.
          - unfold ev_defined_var. rewrite sb_erase_own_var, sb_erase_get_var. apply ed_refl.
          - apply ed_defined_attr. }
        destruct neg; [|exact Hr]. apply ed_bind; [exact Hr|]. intro v. apply ed_refl.
    Qed.
  End Expr.

  Lemma ed_eval : forall fuel c e, sb_edich (eval fuel env c e) (eval fuel env (sb_erase c) e).
  Proof.
    induction fuel as [|fu IH]; intros c e; cbn [eval]; [apply ed_refl|].
    apply ed_expr. intro e'. apply IH.
  Qed.

  (* ================================================================ rendering *)
  Notation D := sb_dich.

  Lemma rd_ret o c : D (ev_rret o c) (ev_rret o (sb_erase c)).
  Proof. right. reflexivity. Qed.
  Lemma rd_fail o c : D (ev_rfail o c) (ev_rfail o (sb_erase c)).
  Proof. right. reflexivity. Qed.

  Lemma rd_left (rs ru : ev_rres) : sb_out rs = Err ESecurity -> D rs ru.
  Proof. intro H. left. exact H. Qed.

  Lemma rd_rexpr {A} (rs ru : outcome A * ev_trace) c (ks ku : A -> ev_rres) :
    sb_edich rs ru -> (forall a, D (ks a) (ku a)) -> D (ev_rexpr rs c ks) (ev_rexpr ru (sb_erase c) ku).
  Proof.
    intros [Hl|Hr] Hk.
    - left. destruct rs as [o t]. cbn in Hl. subst o. reflexivity.
    - subst ru. destruct rs as [o t]. destruct o as [a| | |]; cbn [ev_rexpr]; try (right; reflexivity).
      destruct (Hk a) as [Hl|Hr].
      + left. destruct (ks a) as [[o2 c2] t2]. cbn in Hl. subst o2. reflexivity.
      + rewrite Hr. destruct (ks a) as [[o2 c2] t2]. right. reflexivity.
  Qed.

  Lemma rd_rseq (rs ru : ev_rres) (ks ku : rctx -> ev_rres) :
    D rs ru -> (forall c, D (ks c) (ku (sb_erase c))) -> D (ev_rseq rs ks) (ev_rseq ru ku).
  Proof.
    intros [Hl|Hr] Hk.
    - left. destruct rs as [[o c] t]. cbn in Hl. subst o. reflexivity.
    - subst ru. destruct rs as [[o c] t]. unfold sb_erase_res. cbn [sb_out sb_ctx sb_tr fst snd].
      destruct o as [o1| | |]; cbn [ev_rseq]; try (right; reflexivity).
      destruct (Hk c) as [Hl|Hr].
      + left. destruct (ks c) as [[o2 c2] t2]. cbn in Hl. subst o2. reflexivity.
      + rewrite Hr. destruct (ks c) as [[o2 c2] t2]. unfold sb_erase_res. cbn [sb_out sb_ctx sb_tr fst snd].
        destruct o2; right; reflexivity.
  Qed.

  (* a context being filled with variables: parameters of a macro, with values of an include; phi is the erasure or
     the identity (a sandboxed include builds the same context in both runs) *)
  Definition cd (phi : rctx -> rctx) (rs ru : outcome rctx * ev_trace) : Prop :=
    fst rs = Err ESecurity \/
    (snd ru = snd rs /\ fst ru = match fst rs with Ok mc => Ok (phi mc) | Err e => Err e | OutOfFuel => OutOfFuel | Unmodelled => Unmodelled end).

  Lemma cd_bind_params phi (evs evu : expr -> ev_res) :
    (forall e, sb_edich (evs e) (evu e)) -> (forall c x v, phi (rc_set_var c x v) = rc_set_var (phi c) x v) ->
    forall params args mc, cd phi (ev_bind_params evs params args mc) (ev_bind_params evu params args (phi mc)).
  Proof.
    intros Hev Hphi. induction params as [|[p d] rest IH]; intros args mc; cbn [ev_bind_params].
    - right. split; reflexivity.
    - destruct args as [|a args'].
      + destruct d as [de|].
        * destruct (Hev de) as [Hl|Hr].
          -- left. destruct (evs de) as [o t]. cbn in Hl. subst o. reflexivity.
          -- rewrite Hr. destruct (evs de) as [o t]. destruct o as [v| | |]; cbn [ev_bind]; try (right; split; reflexivity).
             rewrite <- Hphi. destruct (IH [] (rc_set_var mc p v)) as [Hl|[Ht Ho]].
             ++ left. destruct (ev_bind_params evs rest [] (rc_set_var mc p v)) as [o2 t2]. cbn in Hl. subst o2. reflexivity.
             ++ right. destruct (ev_bind_params evs rest [] (rc_set_var mc p v)) as [o2 t2],
                               (ev_bind_params evu rest [] (phi (rc_set_var mc p v))) as [o3 t3].
                cbn in Ht, Ho. subst. split; reflexivity.
        * rewrite <- Hphi. apply IH.
      + rewrite <- Hphi. apply IH.
  Qed.

  Lemma cd_with_vars phi (evs evu : expr -> ev_res) :
    (forall e, sb_edich (evs e) (evu e)) -> (forall c x v, phi (rc_set_var c x v) = rc_set_var (phi c) x v) ->
    forall kvs ic, cd phi (ev_with_vars evs kvs ic) (ev_with_vars evu kvs (phi ic)).
  Proof.
    intros Hev Hphi. induction kvs as [|[k x] r IH]; intro ic; cbn [ev_with_vars].
    - right. split; reflexivity.
    - destruct (Hev x) as [Hl|Hr].
      + left. destruct (evs x) as [o t]. cbn in Hl. subst o. reflexivity.
      + rewrite Hr. destruct (evs x) as [o t]. destruct o as [v| | |]; cbn [ev_bind]; try (right; split; reflexivity).
        destruct (vo_has_callable v); [right; split; reflexivity|].
        rewrite <- Hphi. destruct (IH (rc_set_var ic k v)) as [Hl|[Ht Ho]].
        * left. destruct (ev_with_vars evs r (rc_set_var ic k v)) as [o2 t2]. cbn in Hl. subst o2. reflexivity.
        * right. destruct (ev_with_vars evs r (rc_set_var ic k v)) as [o2 t2],
                          (ev_with_vars evu r (phi (rc_set_var ic k v))) as [o3 t3].
          cbn in Ht, Ho. subst. split; reflexivity.
  Qed.

  Section Helpers.
    Variable ev : rctx -> expr -> ev_res.
    Variables rend root : rctx -> list node -> ev_rres.
    Hypothesis Hev : forall c e, sb_edich (ev c e) (ev (sb_erase c) e).
    Hypothesis Hrend : forall c ns, D (rend c ns) (rend (sb_erase c) ns).
    Hypothesis Hroot : forall c ns, D (root c ns) (root (sb_erase c) ns).

    Lemma sd_if c bs els : D (ev_if ev rend c bs els) (ev_if ev rend (sb_erase c) bs els).
    Proof.
      induction bs as [|[cond body] rest IH]; cbn [ev_if].
      - destruct els; [apply Hrend|apply rd_ret].
      - apply rd_rexpr; [apply Hev|]. intro v. destruct (vo_to_bool v); [apply Hrend|apply IH].
    Qed.

    Lemma sd_loop_items body k v n : forall items i c,
      D (ev_loop_items (fun c0 => rend c0 body) k v n i items c) (ev_loop_items (fun c0 => rend c0 body) k v n i items (sb_erase c)).
    Proof.
      induction items as [|it rest IH]; intros i c; cbn [ev_loop_items]; [apply rd_ret|].
      apply rd_rseq.
      - rewrite <- sb_erase_iter_ctx. apply Hrend.
      - intro c1. apply IH.
    Qed.

    Lemma sd_for_loop c k v seq body els :
      D (ev_for_loop rend c k v seq body els) (ev_for_loop rend (sb_erase c) k v seq body els).
    Proof.
      unfold ev_for_loop.
      assert (Helse : D (match els with Some b => rend c b | None => ev_rret [] c end)
                        (match els with Some b => rend (sb_erase c) b | None => ev_rret [] (sb_erase c) end)).
      { destruct els; [apply Hrend|apply rd_ret]. }
      destruct (ev_loop_items_of seq) as [[|it items]|]; try exact Helse.
      destruct (sd_loop_items body k v (Z.of_nat (length (it :: items))) (it :: items) 0%Z c) as [Hl|Hr].
      - left. destruct (ev_loop_items _ k v _ 0%Z (it :: items) c) as [[r c'] t]. cbn in Hl. subst r. reflexivity.
      - rewrite Hr; clear Hr. destruct (ev_loop_items _ k v _ 0%Z (it :: items) c) as [[r c'] t].
        unfold sb_erase_res. cbn [sb_out sb_ctx sb_tr fst snd]. right. rewrite sb_erase_own_var.
        destruct (rc_own_var c _); unfold sb_erase_res; cbn [sb_out sb_ctx sb_tr fst snd]; rewrite ?sb_erase_set_var; reflexivity.
    Qed.

    Lemma sd_for_seq c seq : sb_edich (ev_for_seq ev env c seq) (ev_for_seq ev env (sb_erase c) seq).
    Proof.
      unfold ev_for_seq. destruct seq; try apply Hev.
      - destruct (existsb _ x); [apply ed_refl|apply Hev].
      - apply ed_filter_chain. intro e'. apply Hev.
    Qed.

    Lemma sd_call_macro c tpl name args :
      sb_edich (ev_call_macro ev rend env c tpl name args) (ev_call_macro ev rend env (sb_erase c) tpl name args).
    Proof.
      unfold ev_call_macro. destruct (ts_find_macro env tpl name) as [[params body]|]; [|apply ed_refl].
      destruct (_ || _); [apply ed_refl|].
      rewrite sb_erase_sandboxed, sb_erase_last_loaded.
      set (mc0 := rc_with_macros (rc_derive (rc_fresh [] tpl) (Some c) (rc_sandboxed c) (rc_last_loaded c)) (ts_sibling_macros env tpl)).
      change (rc_with_macros (rc_derive (rc_fresh [] tpl) (Some (sb_erase c)) false (rc_last_loaded c)) (ts_sibling_macros env tpl))
        with (sb_erase mc0).
      destruct (cd_bind_params sb_erase (ev c) (ev (sb_erase c)) (Hev c) sb_erase_set_var params args mc0) as [Hl|[Ht Ho]].
      - left. destruct (ev_bind_params (ev c) params args mc0) as [o t]. cbn in Hl. subst o. reflexivity.
      - destruct (ev_bind_params (ev c) params args mc0) as [o t],
                 (ev_bind_params (ev (sb_erase c)) params args (sb_erase mc0)) as [o3 t3].
        cbn in Ht, Ho. subst. destruct o as [mc| | |]; cbn [ev_bind]; try (right; reflexivity).
        destruct (Hrend mc body) as [Hl|Hr].
        + left. destruct (rend mc body) as [[r c2] t2]. cbn in Hl. subst r. reflexivity.
        + rewrite Hr; clear Hr. destruct (rend mc body) as [[r c2] t2]. right. reflexivity.
    Qed.

    Lemma sd_parent_call c : D (ev_parent_call rend c) (ev_parent_call rend (sb_erase c)).
    Proof.
      unfold ev_parent_call. cbv zeta. rewrite sb_erase_cur_block, sb_erase_cur_defs, sb_erase_depth.
      destruct (rc_cur_block c); [|apply rd_fail].
      destruct (nth_error (rc_cur_defs c) (S (rc_depth c))) as [d|]; [|apply rd_fail].
      rewrite <- sb_erase_with_depth.
      destruct (Hrend (rc_with_depth c (S (rc_depth c)) (bd_tpl d)) (bd_body d)) as [Hl|Hr].
      - left. destruct (rend _ (bd_body d)) as [[r c'] t]. cbn in Hl. subst r. reflexivity.
      - rewrite Hr; clear Hr. destruct (rend _ (bd_body d)) as [[r c'] t]. right.
        unfold sb_erase_res. cbn [sb_out sb_ctx sb_tr fst snd]. rewrite sb_erase_with_depth, sb_erase_tpl. reflexivity.
    Qed.

    Lemma sd_print c e : D (ev_print ev rend env c e) (ev_print ev rend env (sb_erase c) e).
    Proof.
      unfold ev_print. apply rd_rexpr; [apply Hev|]. intro v.
      destruct (vo_view v); try (destruct (vo_to_str v); [apply rd_ret|apply rd_fail]).
      - destruct (sd_call_macro c tpl name args) as [Hl|Hr].
        + left. destruct (ev_call_macro ev rend env c tpl name args) as [r t]. cbn in Hl. subst r. reflexivity.
        + rewrite Hr; clear Hr. destruct (ev_call_macro ev rend env c tpl name args) as [r t]. right. reflexivity.
      - apply sd_parent_call.
    Qed.

    Lemma sd_block c name body : D (ev_block rend c name body) (ev_block rend (sb_erase c) name body).
    Proof.
      unfold ev_block. rewrite sb_erase_chain_defs, sb_erase_tpl, sb_erase_cur_block, sb_erase_cur_defs, sb_erase_depth.
      destruct (if existsb _ _ then _ else _) as [|d ds]; [apply rd_fail|].
      rewrite <- sb_erase_with_current.
      destruct (Hrend (rc_with_current c (Some name) (d :: ds) 0 (bd_tpl d)) (bd_body d)) as [Hl|Hr].
      - left. destruct (rend _ (bd_body d)) as [[r c'] t]. cbn in Hl. subst r. reflexivity.
      - rewrite Hr; clear Hr. destruct (rend _ (bd_body d)) as [[r c'] t]. right.
        unfold sb_erase_res. cbn [sb_out sb_ctx sb_tr fst snd]. rewrite sb_erase_with_current. reflexivity.
    Qed.

    Lemma sd_load c e : sb_edich (ev_load ev env c e) (ev_load ev env (sb_erase c) e).
    Proof. unfold ev_load. apply ed_bind; [apply Hev|]. intro v. apply ed_refl. Qed.

    Lemma sd_extends c e : D (ev_extends ev root env c e) (ev_extends ev root env (sb_erase c) e).
    Proof.
      unfold ev_extends. cbv zeta. rewrite <- sb_erase_with_extending.
      apply rd_rexpr; [apply sd_load|]. intros [name [pnodes|]]; cbn [fst snd]; [|apply rd_fail].
      set (c1 := rc_with_extending c true). rewrite sb_erase_extends_ctx.
      set (pc := MkRc (rc_vars c1) (rc_parent c1) [] (rc_blocks c1) (ev_parent_blocks pnodes (rc_parent_blocks c1))
                      (match rc_chain c1 with Some ((_ :: _) as ch) => Some ch | _ => None end)
                      true None [] 0 false (rc_sandboxed c1) (Some name) name).
      destruct (Hroot pc pnodes) as [Hl|Hr].
      - left. destruct (root pc pnodes) as [[r c'] t0]. cbn in Hl. subst r. reflexivity.
      - rewrite Hr; clear Hr. destruct (root pc pnodes) as [[r c'] t0]. right. reflexivity.
    Qed.

    Lemma sd_root c ns : D (ev_root ev rend root env c ns) (ev_root ev rend root env (sb_erase c) ns).
    Proof.
      unfold ev_root. destruct (negb (ts_wf ns)); [apply rd_fail|].
      rewrite sb_erase_extending, sb_erase_blocks, sb_erase_chain, sb_erase_tpl.
      destruct (ev_first_pass ns (rc_extending c) (rc_blocks c) None) as [blocks ext].
      rewrite <- sb_erase_with_blocks.
      destruct ext as [e|]; [apply sd_extends|apply Hrend].
    Qed.

    Lemma sb_erase_mk base name :
      MkRc (rc_vars (sb_erase base)) (rc_parent (sb_erase base)) (rc_macros (sb_erase base)) (rc_blocks (sb_erase base))
           (rc_parent_blocks (sb_erase base)) (rc_chain (sb_erase base)) (rc_extending (sb_erase base))
           (rc_cur_block (sb_erase base)) (rc_cur_defs (sb_erase base)) (rc_depth (sb_erase base))
           (rc_in_parent_call (sb_erase base)) (rc_sandboxed (sb_erase base)) (Some name) name =
      sb_erase (MkRc (rc_vars base) (rc_parent base) (rc_macros base) (rc_blocks base) (rc_parent_blocks base) (rc_chain base)
                     (rc_extending base) (rc_cur_block base) (rc_cur_defs base) (rc_depth base) (rc_in_parent_call base)
                     (rc_sandboxed base) (Some name) name).
    Proof. destruct base. reflexivity. Qed.

    (* the included template: name and with values by the includer, then the root of the included template *)
    Lemma sd_include_inner phi c kvs inodes ic0 :
      (forall c0 x v, phi (rc_set_var c0 x v) = rc_set_var (phi c0) x v) ->
      (forall ic, sb_out (root ic inodes) = Err ESecurity \/
                  (sb_out (root (phi ic) inodes) = sb_out (root ic inodes) /\ sb_tr (root (phi ic) inodes) = sb_tr (root ic inodes))) ->
      D (ev_rexpr (ev_with_vars (ev c) kvs ic0) c (fun ic => let '(r, _, t) := root ic inodes in (r, c, t)))
        (ev_rexpr (ev_with_vars (ev (sb_erase c)) kvs (phi ic0)) (sb_erase c)
                  (fun ic => let '(r, _, t) := root ic inodes in (r, sb_erase c, t))).
    Proof.
      intros Hphi Hr.
      destruct (cd_with_vars phi (ev c) (ev (sb_erase c)) (Hev c) Hphi kvs ic0) as [Hl|[Ht Ho]].
      - left. destruct (ev_with_vars (ev c) kvs ic0) as [o t]. cbn in Hl. subst o. reflexivity.
      - destruct (ev_with_vars (ev c) kvs ic0) as [o t], (ev_with_vars (ev (sb_erase c)) kvs (phi ic0)) as [o3 t3].
        cbn in Ht, Ho. subst. destruct o as [ic| | |]; cbn [ev_rexpr]; try (right; reflexivity).
        destruct (Hr ic) as [Hl|[Eo Et]].
        + left. destruct (root ic inodes) as [[r c2] t2]. cbn in Hl. subst r. reflexivity.
        + destruct (root ic inodes) as [[r c2] t2], (root (phi ic) inodes) as [[r3 c3] t3]. cbn in Eo, Et. subst.
          right. reflexivity.
    Qed.

    Lemma sd_include c e withs ign only sb :
      D (ev_include ev root env c e withs ign only sb) (ev_include ev root env (sb_erase c) e withs ign only sb).
    Proof.
      unfold ev_include.
      apply rd_rexpr; [apply sd_load|]. intros [name [inodes|]]. 2:{ cbn [fst snd]. destruct ign; [apply rd_ret|apply rd_fail]. }
      cbn [fst snd].
      destruct (match withs with None => Some [] | Some (EHash kvs) => ev_with_dedup kvs | Some _ => None end) as [kvs|];
        [|apply rd_fail].
      assert (Hroot_e : forall ic, sb_out (root ic inodes) = Err ESecurity \/
                (sb_out (root (sb_erase ic) inodes) = sb_out (root ic inodes) /\ sb_tr (root (sb_erase ic) inodes) = sb_tr (root ic inodes))).
      { intro ic. destruct (Hroot ic inodes) as [Hl|Hr]; [left; exact Hl|right]. rewrite Hr. split; reflexivity. }
      assert (Hroot_i : forall ic, sb_out (root ic inodes) = Err ESecurity \/
                (sb_out (root ((fun x : rctx => x) ic) inodes) = sb_out (root ic inodes) /\ sb_tr (root ((fun x : rctx => x) ic) inodes) = sb_tr (root ic inodes))).
      { intro ic. right. split; reflexivity. }
      destruct (negb only && negb sb).
      - rewrite <- sb_erase_clone, sb_erase_mk.
        apply (sd_include_inner sb_erase c kvs inodes); [exact sb_erase_set_var|exact Hroot_e].
      - rewrite sb_erase_visible_vars, sb_erase_sandboxed. cbn [orb].
        destruct sb.
        + cbn [andb]. destruct (e_policy env); [|apply rd_fail]. rewrite orb_true_r.
          apply (sd_include_inner (fun x : rctx => x) c kvs inodes); [reflexivity|exact Hroot_i].
        + cbn [andb]. rewrite orb_false_r.
          match goal with |- D (ev_rexpr (ev_with_vars _ _ ?ics) _ _) (ev_rexpr (ev_with_vars _ _ ?icu) _ _) =>
            change icu with (sb_erase ics) end.
          apply (sd_include_inner sb_erase c kvs inodes); [exact sb_erase_set_var|exact Hroot_e].
    Qed.

    Lemma sd_import_macros c e :
      fst (fst (ev_import_macros ev root env c e)) = Err ESecurity \/
      ev_import_macros ev root env (sb_erase c) e =
        (fst (fst (ev_import_macros ev root env c e)), sb_erase (snd (fst (ev_import_macros ev root env c e))),
         snd (ev_import_macros ev root env c e)).
    Proof.
      unfold ev_import_macros. destruct (sd_load c e) as [Hl|Hr].
      - left. destruct (ev_load ev env c e) as [o t]. cbn in Hl. subst o. reflexivity.
      - rewrite Hr; clear Hr. destruct (ev_load ev env c e) as [o t].
        destruct o as [[name [inodes|]]| | |]; try (right; reflexivity).
        rewrite sb_erase_sandboxed.
        set (ic := rc_derive (rc_fresh [] name) None (rc_sandboxed c) (Some name)).
        change (rc_derive (rc_fresh [] name) None false (Some name)) with (sb_erase ic).
        destruct (Hroot ic inodes) as [Hl|Hr].
        + left. destruct (root ic inodes) as [[r ic'] t2]. cbn in Hl. subst r. reflexivity.
        + rewrite Hr; clear Hr. destruct (root ic inodes) as [[r ic'] t2]. unfold sb_erase_res. cbn [sb_out sb_ctx sb_tr fst snd].
          right. destruct r; cbn [fst snd]; rewrite ?sb_erase_macros; reflexivity.
    Qed.

    Lemma sd_import c e alias : D (ev_import ev root env c e alias) (ev_import ev root env (sb_erase c) e alias).
    Proof.
      unfold ev_import. destruct (sd_import_macros c e) as [Hl|Hr].
      - left. destruct (ev_import_macros ev root env c e) as [[o c1] t]. cbn in Hl. subst o. reflexivity.
      - rewrite Hr; clear Hr. destruct (ev_import_macros ev root env c e) as [[o c1] t]. cbn [fst snd].
        right. destruct o; unfold sb_erase_res; cbn [sb_out sb_ctx sb_tr fst snd]; rewrite ?sb_erase_set_var; reflexivity.
    Qed.

    Lemma ev_from_names_erase ms names : forall c,
      ev_from_names ms names (sb_erase c) =
      match ev_from_names ms names c with Ok c' => Ok (sb_erase c') | Err e => Err e | OutOfFuel => OutOfFuel | Unmodelled => Unmodelled end.
    Proof.
      induction names as [|[m alias] r IH]; intro c; cbn [ev_from_names]; [reflexivity|].
      destruct (assoc_bytes ms m); [|reflexivity]. rewrite sb_erase_macros, <- sb_erase_with_macros. apply IH.
    Qed.

    Lemma sd_from c e names : D (ev_from ev root env c e names) (ev_from ev root env (sb_erase c) e names).
    Proof.
      unfold ev_from. destruct (sd_import_macros c e) as [Hl|Hr].
      - left. destruct (ev_import_macros ev root env c e) as [[o c1] t]. cbn in Hl. subst o. reflexivity.
      - rewrite Hr; clear Hr. destruct (ev_import_macros ev root env c e) as [[o c1] t]. cbn [fst snd].
        destruct o as [ms| | |]; try (right; reflexivity).
        destruct (negb (ts_no_dup (map fst names))); [right; reflexivity|].
        rewrite ev_from_names_erase. destruct (ev_from_names ms names c) as [c'| | |]; right; reflexivity.
    Qed.

    Lemma sd_apply c f args body : D (ev_apply ev rend env c f args body) (ev_apply ev rend env (sb_erase c) f args body).
    Proof.
      unfold ev_apply. destruct (Hrend c body) as [Hl|Hr].
      - left. destruct (rend c body) as [[o c1] t1]. cbn in Hl. subst o. reflexivity.
      - rewrite Hr; clear Hr. destruct (rend c body) as [[o c1] t1].
        unfold sb_erase_res. cbn [sb_out sb_ctx sb_tr fst snd].
        destruct o as [content| | |]; try (right; reflexivity).
        assert (H2 : sb_edich
                  (ev_bind (ev_list (ev c1) args) (fun vs => ev_bind (ev_apply_filter env c1 f (VStr content) vs) (fun w => ev_opt (vo_to_str w))))
                  (ev_bind (ev_list (ev (sb_erase c1)) args) (fun vs => ev_bind (ev_apply_filter env (sb_erase c1) f (VStr content) vs) (fun w => ev_opt (vo_to_str w))))).
        { apply ed_bind; [apply ed_list; apply Hev|]. intro vs.
          apply ed_bind; [apply ed_apply_filter|]. intro w. apply ed_refl. }
        destruct H2 as [Hl|Hr].
        + left. destruct (ev_bind (ev_list (ev c1) args) _) as [o t2]. cbn in Hl. subst o. reflexivity.
        + rewrite Hr; clear Hr. destruct (ev_bind (ev_list (ev c1) args) _) as [o t2].
          right. destruct o; reflexivity.
    Qed.

    (* the spaceless tag: a refusal of the spaceless filter is the outcome of the tag *)
    Lemma sd_spaceless c body : D (ev_spaceless rend env c body) (ev_spaceless rend env (sb_erase c) body).
    Proof.
      unfold ev_spaceless. destruct (Hrend c body) as [Hl|Hr].
      - left. destruct (rend c body) as [[o c1] t1]. cbn in Hl. subst o. reflexivity.
      - rewrite Hr; clear Hr. destruct (rend c body) as [[o c1] t1].
        unfold sb_erase_res. cbn [sb_out sb_ctx sb_tr fst snd].
        destruct o as [content| | |]; try (right; reflexivity).
        destruct (ed_apply_filter c1 b#"spaceless" (VStr content) []) as [Hl|Hr].
        + left. destruct (ev_apply_filter env c1 b#"spaceless" (VStr content) []) as [o t2]. cbn in Hl. subst o. reflexivity.
        + rewrite Hr; clear Hr. destruct (ev_apply_filter env c1 b#"spaceless" (VStr content) []) as [o t2].
          right. destruct o as [w| | |]; reflexivity.
    Qed.

    Lemma sd_render_node c n : D (render_node ev rend root env c n) (render_node ev rend root env (sb_erase c) n).
    Proof.
      destruct n; cbn [render_node].
      - apply rd_ret.
      - apply sd_print.
      - apply sd_if.
      - unfold ev_for. apply rd_rexpr; [apply sd_for_seq|]. intro sv. apply sd_for_loop.
      - unfold ev_set. apply rd_rexpr; [apply Hev|]. intro v.
        assert (Eg : ev_set_guard (sb_erase c) v = ev_set_guard c v) by (unfold ev_set_guard; rewrite sb_erase_get_var; reflexivity).
        rewrite Eg. destruct (ev_set_guard c v); [apply rd_fail|]. rewrite <- sb_erase_set_var. apply rd_ret.
      - apply rd_rexpr; [apply Hev|]. intros _. apply rd_ret.
      - apply sd_block.
      - apply sd_extends.
      - apply sd_include.
      - rewrite sb_erase_macros, sb_erase_tpl, <- sb_erase_with_macros. apply rd_ret.
      - apply sd_import.
      - apply sd_from.
      - apply rd_ret.
      - apply sd_apply.
      - apply sd_spaceless.
    Qed.
  End Helpers.
End Dich.

(* ================================================================ the induction on fuel *)
Lemma sd_render_both : forall env fuel,
  (forall c ns, sb_dich (render fuel env c ns) (render fuel env (sb_erase c) ns)) /\
  (forall c ns, sb_dich (render_root fuel env c ns) (render_root fuel env (sb_erase c) ns)).
Proof.
  intro env. induction fuel as [|fu [IHr IHt]]; split; intros c ns.
  - right. reflexivity.
  - right. reflexivity.
  - cbn [render]. destruct ns as [|n rest]; [right; reflexivity|].
    apply rd_rseq.
    + apply sd_render_node; [intros c0 e; apply ed_eval|exact IHr|exact IHt].
    + intro c1. apply IHr.
  - cbn [render_root]. apply sd_root; [intros c0 e; apply ed_eval|exact IHr|exact IHt].
Qed.

(* ================================================================ C06_forbidden_fails, C06_allowed_still_works *)
(* reaching a forbidden name: the twin run, which has the includer's permissions, invokes it *)
Lemma C06_forbidden_fails_proof : forall fuel env pol c ns ev,
  e_policy env = Some pol -> rc_sandboxed c = true -> sb_event_ok pol ev = false ->
  (In ev (sb_tr (render fuel env (sb_erase c) ns)) -> sb_out (render fuel env c ns) = Err ESecurity) /\
  (In ev (sb_tr (render_root fuel env (sb_erase c) ns)) -> sb_out (render_root fuel env c ns) = Err ESecurity) /\
  (forall e, In ev (snd (eval fuel env (sb_erase c) e)) -> fst (eval fuel env c e) = Err ESecurity).
Proof.
  intros fuel env pol c ns ev Hpol Hs Hev.
  destruct (sd_render_both env fuel) as [Hr Ht].
  destruct (C06_confinement_proof fuel env pol c Hpol Hs) as [Cr [Ct Ce]].
  split; [|split].
  - intro Hin. destruct (Hr c ns) as [Hl|He]; [exact Hl|]. exfalso. rewrite He in Hin. cbn [sb_erase_res sb_tr snd] in Hin.
    pose proof (tr_confined_In pol _ ev (proj1 (Cr ns)) Hin) as Hok. rewrite Hok in Hev. discriminate.
  - intro Hin. destruct (Ht c ns) as [Hl|He]; [exact Hl|]. exfalso. rewrite He in Hin. cbn [sb_erase_res sb_tr snd] in Hin.
    pose proof (tr_confined_In pol _ ev (proj1 (Ct ns)) Hin) as Hok. rewrite Hok in Hev. discriminate.
  - intros e Hin. destruct (ed_eval env fuel c e) as [Hl|He]; [exact Hl|]. exfalso. rewrite He in Hin.
    pose proof (tr_confined_In pol _ ev (Ce e) Hin) as Hok. rewrite Hok in Hev. discriminate.
Qed.

(* a sandboxed render that is not refused IS the unsandboxed render: output, trace, and the context handed on up to
   the flag; no policy, no guard: the statement holds for every environment *)
Lemma C06_allowed_still_works_proof : forall fuel env c ns,
  (sb_out (render fuel env c ns) <> Err ESecurity ->
     render fuel env (sb_erase c) ns = sb_erase_res (render fuel env c ns)) /\
  (sb_out (render_root fuel env c ns) <> Err ESecurity ->
     render_root fuel env (sb_erase c) ns = sb_erase_res (render_root fuel env c ns)) /\
  (forall e, fst (eval fuel env c e) <> Err ESecurity -> eval fuel env (sb_erase c) e = eval fuel env c e).
Proof.
  intros fuel env c ns. destruct (sd_render_both env fuel) as [Hr Ht].
  split; [|split].
  - intro Hne. destruct (Hr c ns) as [Hl|He]; [contradiction|exact He].
  - intro Hne. destruct (Ht c ns) as [Hl|He]; [contradiction|exact He].
  - intros e Hne. destruct (ed_eval env fuel c e) as [Hl|He]; [contradiction|exact He].
Qed.
