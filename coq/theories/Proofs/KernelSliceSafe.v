(* The index computations of filterSlice (Gen/KernelsSlice.v) never leave the int64 range and never ask make / MakeSlice for a negative length, for every int64 start and length and every length of a Go value. *)
From Coq Require Import ZArith List Bool Lia.
From Twig Require Import Base.Bytes Base.Kernel Gen.KernelsSlice Proofs.KernelTactics.
Import ListNotations.
Local Open Scope Z_scope.

Lemma k_slice_string_safe_all start len hl n :
  in64 start = true -> in64 len = true -> 0 <= n < 2^63 -> k_slice_string_safe start len hl n = true.
Proof.
  intros Hs Hl Hn. apply in64_spec in Hs. apply in64_spec in Hl. unfold k_slice_string_safe, kall.
  cbv zeta. cbn [forallb]. split_ifs; ksafe_finish.
Qed.
Lemma k_slice_list_safe_all start len hl n :
  in64 start = true -> in64 len = true -> 0 <= n < 2^63 -> k_slice_list_safe start len hl n = true.
Proof.
  intros Hs Hl Hn. apply in64_spec in Hs. apply in64_spec in Hl. unfold k_slice_list_safe, kall.
  cbv zeta. cbn [forallb]. split_ifs; ksafe_finish.
Qed.
Lemma k_slice_refl_string_safe_all start len hl n :
  in64 start = true -> in64 len = true -> 0 <= n < 2^63 -> k_slice_refl_string_safe start len hl n = true.
Proof.
  intros Hs Hl Hn. apply in64_spec in Hs. apply in64_spec in Hl. unfold k_slice_refl_string_safe, kall.
  cbv zeta. cbn [forallb]. split_ifs; ksafe_finish.
Qed.
Lemma k_slice_refl_slice_safe_all start len hl n :
  in64 start = true -> in64 len = true -> 0 <= n < 2^63 -> k_slice_refl_slice_safe start len hl n = true.
Proof.
  intros Hs Hl Hn. apply in64_spec in Hs. apply in64_spec in Hl. unfold k_slice_refl_slice_safe, kall.
  cbv zeta. cbn [forallb]. split_ifs; ksafe_finish.
Qed.

