(* Proofs of property C06 (sandbox confinement), part 4: the statements at the include tag, and runs of the model on
   concrete template sets (non-vacuity; the two places that used to swallow a security violation). *)
From Twig Require Import Base.Bytes Base.Utf8 Model.Ast Model.Value Model.ValueOps Model.EvalBuiltins Model.Ctx
                         Model.TemplateSet Model.Eval Spec.SandboxSpec Proofs.EvalProofs Proofs.SandboxProofs
                         Proofs.SandboxProofs2 Proofs.SandboxSyntax Proofs.SandboxProofs3.

(* filling a context with the with values, from the same evaluator: the twin context gives the twin result *)
Lemma ev_with_vars_erase (evc : expr -> ev_res) : forall kvs ic,
  ev_with_vars evc kvs (sb_erase ic) =
  (match fst (ev_with_vars evc kvs ic) with Ok ic' => Ok (sb_erase ic') | Err e => Err e | OutOfFuel => OutOfFuel | Unmodelled => Unmodelled end,
   snd (ev_with_vars evc kvs ic)).
Proof.
  induction kvs as [|[k x] r IH]; intro ic; cbn [ev_with_vars]; [reflexivity|].
  destruct (evc x) as [o t]. destruct o as [v| | |]; cbn [ev_bind]; try reflexivity.
  destruct (vo_has_callable v); [reflexivity|]. rewrite <- sb_erase_set_var, IH.
  destruct (ev_with_vars evc r (rc_set_var ic k v)) as [o2 t2]. reflexivity.
Qed.

(* include ... only sandboxed against include ... only, from ANY including context: the sandboxed one is refused, or
   the two tags render alike (output, trace; the includer's context is handed on unchanged by both) *)
Lemma C06_sandboxed_include_as_plain_proof : forall fuel env pol c e withs ign,
  e_policy env = Some pol ->
  let ev := eval fuel env in let rend := render fuel env in let root := render_root fuel env in
  sb_out (render_node ev rend root env c (NInclude e withs ign true true)) = Err ESecurity \/
  render_node ev rend root env c (NInclude e withs ign true true) = render_node ev rend root env c (NInclude e withs ign true false).
Proof.
  intros fuel env pol c e withs ign Hpol ev rend root. cbn [render_node]. unfold ev_include.
  destruct (ev_load ev env c e) as [o t]. destruct o as [[name tpl]| | |]; cbn [ev_rexpr]; try (right; reflexivity).
  cbn [fst snd]. destruct tpl as [inodes|]; [|right; reflexivity].
  destruct (match withs with None => Some [] | Some (EHash kvs) => ev_with_dedup kvs | Some _ => None end) as [kvs|]; [|right; reflexivity].
  cbn [negb andb orb]. rewrite Hpol, orb_true_r, orb_false_r.
  destruct (rc_sandboxed c) eqn:Esc; [right; reflexivity|].
  cbn [rc_derive rc_fresh rc_vars rc_parent rc_macros rc_blocks rc_parent_blocks rc_chain rc_extending rc_cur_block
       rc_cur_defs rc_depth rc_in_parent_call rc_sandboxed].
  set (ics := MkRc [] None [] [] [] None false None [] 0 false true (Some name) name).
  change (MkRc [] None [] [] [] None false None [] 0 false false (Some name) name) with (sb_erase ics).
  rewrite (ev_with_vars_erase (ev c) kvs ics).
  destruct (ev_with_vars (ev c) kvs ics) as [o2 t2]. cbn [fst snd].
  destruct o2 as [ic| | |]; cbn [ev_rexpr]; try (right; reflexivity).
  destruct (sd_render_both env fuel) as [_ Ht]. destruct (Ht ic inodes) as [Hl|He].
  - left. fold root in Hl. destruct (root ic inodes) as [[r c2] t3]. cbn in Hl. subst r. reflexivity.
  - right. fold root in He. rewrite He. destruct (root ic inodes) as [[r c2] t3]. reflexivity.
Qed.

(* ================================================================ runs of the model *)
(* the policy that allows nothing; a context as include ... sandboxed builds it *)
Definition c06_pol0 : sb_policy := ([], []).
Definition c06_env (ns : list node) : ev_env :=
  MkEnv [(b#"in", ns)] [(b#"spy", CbId)] [(b#"spyfn", CbConst (VMap MAny [(VStr b#"a", VInt 1)]))] [] (Some c06_pol0).
Definition c06_sandboxed_ctx : rctx := rc_derive (rc_fresh [(b#"x", VStr b#"v")] b#"in") None true (Some b#"in").

(* the spaceless tag while the policy does not allow the spaceless filter *)
Definition c06_w_spaceless : list node := [NSpaceless [NText b#"<a> <b>"]].
(* forbidden().a is defined *)
Definition c06_w_defined : list node :=
  [NIf [(ETest (EAttr (ECall b#"spyfn" []) b#"a") b#"defined" [] false, [NText b#"Y"])] (Some [NText b#"N"])].
(* (x|forbidden).a is defined *)
Definition c06_w_defined_filter : list node :=
  [NIf [(ETest (EAttr (EFilter (EVar b#"x") b#"spy" []) b#"a") b#"defined" [] false, [NText b#"Y"])] (Some [NText b#"N"])].

(* the two places that swallowed the violation before aee56e1 / 36660ef: refused now, nothing invoked, while the twin
   without the flag invokes the name *)
Lemma C06_former_swallow_sites_proof :
  let run ns := render_root 20 (c06_env ns) c06_sandboxed_ctx ns in
  let twin ns := render_root 20 (c06_env ns) (sb_erase c06_sandboxed_ctx) ns in
  (sb_out (run c06_w_spaceless) = Err ESecurity /\ sb_tr (run c06_w_spaceless) = [] /\
   In (TrFilter b#"spaceless") (sb_tr (twin c06_w_spaceless)) /\ sb_out (twin c06_w_spaceless) = Ok b#"<a><b>") /\
  (sb_out (run c06_w_defined) = Err ESecurity /\ sb_tr (run c06_w_defined) = [] /\
   In (TrFunction b#"spyfn") (sb_tr (twin c06_w_defined)) /\ sb_out (twin c06_w_defined) = Ok b#"Y") /\
  (sb_out (run c06_w_defined_filter) = Err ESecurity /\ sb_tr (run c06_w_defined_filter) = [] /\
   In (TrFilter b#"spy") (sb_tr (twin c06_w_defined_filter))).
Proof. vm_compute. repeat match goal with |- _ /\ _ => split | |- _ \/ _ => left end; reflexivity. Qed.

Definition c06_pol1 : sb_policy := ([b#"upper"], [b#"range"]).
Definition c06_env1 (ns : list node) : ev_env :=
  MkEnv [(b#"in", ns)] [(b#"spy", CbId)] [(b#"spyfn", CbId)] [] (Some c06_pol1).

(* x|spy|upper: the forbidden filter in first position of a chain *)
Definition c06_ex_chain : list node := [NPrint (EFilter (EFilter (EVar b#"x") b#"spy" []) b#"upper" [])].
(* x|upper with an allowed filter only *)
Definition c06_ex_allowed : list node := [NPrint (EFilter (EVar b#"x") b#"upper" []); NFor None b#"i" (ECall b#"range" [ELit (LInt 1); ELit (LInt 3)]) [NPrint (EVar b#"i")] None].

Lemma C06_examples_proof :
  (* refused, nothing invoked; the twin invokes the forbidden filter *)
  sb_out (render_root 20 (c06_env1 c06_ex_chain) c06_sandboxed_ctx c06_ex_chain) = Err ESecurity /\
  sb_tr (render_root 20 (c06_env1 c06_ex_chain) c06_sandboxed_ctx c06_ex_chain) = [] /\
  In (TrFilter b#"spy") (sb_tr (render_root 20 (c06_env1 c06_ex_chain) (sb_erase c06_sandboxed_ctx) c06_ex_chain)) /\
  (* allowed names: the same output and trace with and without the flag *)
  sb_out (render_root 20 (c06_env1 c06_ex_allowed) c06_sandboxed_ctx c06_ex_allowed) = Ok b#"V123" /\
  sb_tr (render_root 20 (c06_env1 c06_ex_allowed) c06_sandboxed_ctx c06_ex_allowed) = [TrFilter b#"upper"; TrFunction b#"range"] /\
  render_root 20 (c06_env1 c06_ex_allowed) (sb_erase c06_sandboxed_ctx) c06_ex_allowed =
    sb_erase_res (render_root 20 (c06_env1 c06_ex_allowed) c06_sandboxed_ctx c06_ex_allowed).
Proof. vm_compute. repeat match goal with |- _ /\ _ => split | |- _ \/ _ => left end; reflexivity. Qed.
