(* The count computation of functionRange (Gen/KernelsRange.v) stays within int64 / never divides by zero / never asks make for a negative length, for all int64 arguments. *)
From Coq Require Import ZArith List Bool Lia.
From Twig Require Import Base.Bytes Base.Kernel Gen.KernelsRange Proofs.KernelTactics Proofs.KernelRangeModel.
Import ListNotations.
Local Open Scope Z_scope.

(* the computation of the count and of every stored item stays within int64 *)
Lemma k_range_count_safe_all start stop step :
  in64 start = true -> in64 stop = true -> in64 step = true -> k_range_count_safe start stop step = true.
Proof.
  intros Hs He Hst. unfold k_range_count_safe, kall. cbv zeta. cbn [forallb].
  pose proof (proj1 (in64_spec _) Hs) as Hs'. pose proof (proj1 (in64_spec _) He) as He'.
  pose proof (proj1 (in64_spec _) Hst) as Hst'.
  destruct (Z.eqb_spec step 0) as [->|Hnz]; [reflexivity|].
  rewrite Z.gtb_ltb. destruct (Z.ltb_spec 0 step) as [Hpos|Hneg].
  - rewrite Z.gtb_ltb. destruct (Z.ltb_spec stop start) as [Hlt|Hge]; [reflexivity|].
    rewrite (u64_sub start stop Hs He Hge), (u64_small step) by lia.
    assert (Hq : 0 <= (stop - start) / step <= stop - start).
    { split; [apply Z.div_pos; lia|]. apply Z.div_le_upper_bound; nia. }
    destruct ((stop - start) / step >=? 10000000) eqn:Hlim; [kfin|].
    rewrite Z.geb_leb in Hlim. apply Z.leb_gt in Hlim. rewrite i64of_small by lia. kfin.
  - assert (Hn : step < 0) by lia.
    destruct (Z.ltb_spec start stop) as [Hlt|Hge]; [reflexivity|].
    rewrite (u64_sub stop start He Hs Hge), (u64_neg step Hst Hn).
    assert (Hq : 0 <= (start - stop) / - step <= start - stop).
    { split; [apply Z.div_pos; lia|]. apply Z.div_le_upper_bound; nia. }
    destruct ((start - stop) / - step >=? 10000000) eqn:Hlim; [kfin|].
    rewrite Z.geb_leb in Hlim. apply Z.leb_gt in Hlim. rewrite i64of_small by lia. kfin.
Qed.


(* on the machine the count computation gives the number of items of the property *)
Lemma k_range_count_machine start stop step :
  in64 start = true -> in64 stop = true -> in64 step = true ->
  krun w64 (k_range_count_env start stop step) k_range_count_ir = krange_spec start stop step.
Proof.
  intros Hs He Hst. rewrite ksafe_sound; [rewrite k_range_count_is_ir; apply k_range_count_model; assumption|].
  rewrite k_range_count_safe_is_ir. apply k_range_count_safe_all; assumption.
Qed.

