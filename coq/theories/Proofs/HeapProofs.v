(* C18 -- proofs about the heap model (Model/Heap.v).

   Two relations between the state before and after a computation:
     hs_pres  st st'   nothing that existed changed: the heap of the caller is equal and the fresh region only grew at the end
                       (what every expression, filter and function satisfies: they write only to what they allocate)
     hs_frame st st'   the heap of the caller is equal (what every node satisfies: set, for, include and macro calls also
                       write to objects allocated earlier in this render -- variable maps and loop maps)
   Both are preorders; hM_spec R Q m says that m relates its input and output state by R and returns a result satisfying Q.
   The invariant of the node level is rc_new: the variable map of every context of the chain is a fresh object. *)
From Coq Require Import ZifyBool ZifyNat ZifyN.
From Twig Require Import Base.Bytes Model.Ast Model.Value Gen.FilterWrites Model.Heap.

(* ------------------------------------------------------------------------------------------------ *)
Section HpSpec.
  Variable R : hpstate -> hpstate -> Prop.
  Hypothesis R_refl : forall st, R st st.
  Hypothesis R_trans : forall a b c, R a b -> R b c -> R a c.

  Definition hM_spec {A} (Q : A -> Prop) (m : hpM A) : Prop :=
    forall st a st', m st = Ok (a, st') -> R st st' /\ Q a.

  Lemma spec_ret {A} (Q : A -> Prop) (a : A) : Q a -> hM_spec Q (hp_ret a).
  Proof. intros HQ st a' st' H. unfold hp_ret in H. inversion H; subst. split; [apply R_refl|exact HQ]. Qed.

  Lemma spec_fail {A} (Q : A -> Prop) e : hM_spec Q (@hp_fail A e).
  Proof. intros st a st' H. discriminate H. Qed.

  Lemma spec_unmodelled {A} (Q : A -> Prop) : hM_spec Q (@hp_unmodelled A).
  Proof. intros st a st' H. discriminate H. Qed.

  Lemma spec_nofuel {A} (Q : A -> Prop) : hM_spec Q (@hp_nofuel A).
  Proof. intros st a st' H. discriminate H. Qed.

  Lemma spec_bind {A B} (P : A -> Prop) (Q : B -> Prop) (m : hpM A) (f : A -> hpM B) :
    hM_spec P m -> (forall a, P a -> hM_spec Q (f a)) -> hM_spec Q (hp_bind m f).
  Proof.
    intros Hm Hf st b st' H. unfold hp_bind in H.
    destruct (m st) as [[a st1]| | |] eqn:E; try discriminate.
    destruct (Hm _ _ _ E) as [R1 Pa].
    destruct (Hf a Pa _ _ _ H) as [R2 Qb].
    split; [eapply R_trans; eassumption|exact Qb].
  Qed.

  Lemma spec_bind_T {A B} (Q : B -> Prop) (m : hpM A) (f : A -> hpM B) :
    hM_spec (fun _ => True) m -> (forall a, hM_spec Q (f a)) -> hM_spec Q (hp_bind m f).
  Proof. intros Hm Hf. eapply spec_bind; [exact Hm|intros a _; apply Hf]. Qed.

  Lemma spec_weaken {A} (P Q : A -> Prop) (m : hpM A) : (forall a, P a -> Q a) -> hM_spec P m -> hM_spec Q m.
  Proof. intros HPQ Hm st a st' H. destruct (Hm _ _ _ H) as [HR HP]. split; [exact HR|apply HPQ; exact HP]. Qed.

  Lemma spec_T {A} (P : A -> Prop) (m : hpM A) : hM_spec P m -> hM_spec (fun _ => True) m.
  Proof. apply spec_weaken. trivial. Qed.

  Lemma spec_reader {A} (f : hpstate -> outcome A) : hM_spec (fun _ => True) (hp_reader f).
  Proof. intros st a st' H. unfold hp_reader in H. destruct (f st); try discriminate. inversion H; subst. split; [apply R_refl|exact I]. Qed.

  Lemma spec_reado {A} (f : hpstate -> option A) : hM_spec (fun _ => True) (hp_reado f).
  Proof. intros st a st' H. unfold hp_reado in H. destruct (f st); try discriminate. inversion H; subst. split; [apply R_refl|exact I]. Qed.

  Lemma spec_read l : hM_spec (fun _ => True) (hp_read l).
  Proof. apply spec_reado. Qed.
End HpSpec.

Lemma spec_mono {A} (R R' : hpstate -> hpstate -> Prop) (Q : A -> Prop) (m : hpM A) :
  (forall a b, R a b -> R' a b) -> hM_spec R Q m -> hM_spec R' Q m.
Proof. intros HRR Hm st a st' H. destruct (Hm _ _ _ H) as [HR HQ]. split; [apply HRR; exact HR|exact HQ]. Qed.

(* ------------------------------------------------------------------------------------------------ *)
(* the two relations                                                                                 *)

Definition hs_pres (st st' : hpstate) : Prop := hs_old st' = hs_old st /\ exists ext, hs_new st' = hs_new st ++ ext.
Definition hs_frame (st st' : hpstate) : Prop := hs_old st' = hs_old st.

Lemma hs_pres_refl st : hs_pres st st.
Proof. split; [reflexivity|exists []; rewrite app_nil_r; reflexivity]. Qed.
Lemma hs_pres_trans a b c : hs_pres a b -> hs_pres b c -> hs_pres a c.
Proof.
  intros [O1 [e1 N1]] [O2 [e2 N2]]. split; [congruence|].
  exists (e1 ++ e2). rewrite N2, N1, app_assoc. reflexivity.
Qed.
Lemma hs_frame_refl st : hs_frame st st.
Proof. reflexivity. Qed.
Lemma hs_frame_trans a b c : hs_frame a b -> hs_frame b c -> hs_frame a c.
Proof. unfold hs_frame. congruence. Qed.
Lemma hs_pres_frame a b : hs_pres a b -> hs_frame a b.
Proof. intros [O _]. exact O. Qed.

(* what hs_pres means for the objects: every object that existed is still there with the same content *)
Lemma hs_pres_get st st' l o : hs_pres st st' -> hp_get st l = Some o -> hp_get st' l = Some o.
Proof.
  intros [HO [ext HN]] H. destruct l as [n|n]; simpl in *.
  - rewrite HO. exact H.
  - rewrite HN. rewrite nth_error_app1; [exact H|]. apply nth_error_Some. congruence.
Qed.

Notation hM_pres := (hM_spec hs_pres (fun _ => True)).
Notation hM_presQ := (hM_spec hs_pres).
Notation hM_frame := (hM_spec hs_frame).

Global Hint Resolve hs_pres_refl hs_pres_trans hs_frame_refl hs_frame_trans : hpdb.

Lemma pres_to_frame {A} (Q : A -> Prop) (m : hpM A) : hM_presQ Q m -> hM_frame Q m.
Proof. apply spec_mono. apply hs_pres_frame. Qed.

(* ------------------------------------------------------------------------------------------------ *)
(* the primitives                                                                                    *)

Lemma hp_list_set_last {A} (l : list A) (a b : A) : hp_list_set (l ++ [a]) (length l) b = l ++ [b].
Proof. induction l as [|x l IH]; simpl; [reflexivity|rewrite IH; reflexivity]. Qed.

Lemma pres_alloc o : hM_pres (hp_alloc o).
Proof.
  intros st n st' H. unfold hp_alloc in H. inversion H; subst; clear H.
  split; [|exact I]. split; [reflexivity|]. exists [o]. reflexivity.
Qed.

Lemma hp_last_nonempty {A} (l : list A) : forall (h a b : A), last (h :: l) a = last (h :: l) b.
Proof. induction l as [|x l IH]; intros h a b; [reflexivity|]. change (last (x :: l) a = last (x :: l) b). apply IH. Qed.

(* a sequence of writes to the object just allocated leaves an allocation of the last content *)
Lemma hp_puts_fresh ws : forall old new o,
  hp_puts (HlNew (length new)) ws (mk_hpstate old (new ++ [o])) = Ok (tt, mk_hpstate old (new ++ [last ws o])).
Proof.
  induction ws as [|w ws IH]; intros old new o; simpl.
  - reflexivity.
  - unfold hp_bind, hp_put. simpl. rewrite hp_list_set_last. rewrite IH.
    destruct ws as [|h ws]; [reflexivity|]. rewrite (hp_last_nonempty ws h w o). reflexivity.
Qed.

Lemma pres_alloc_fill zero ws : hM_pres (hp_alloc_fill zero ws).
Proof.
  intros st n st' H. unfold hp_alloc_fill, hp_bind, hp_alloc in H.
  destruct st as [old new]. simpl in H. rewrite hp_puts_fresh in H. unfold hp_ret in H. inversion H; subst; clear H.
  split; [|exact I]. split; [reflexivity|]. eexists. reflexivity.
Qed.

(* the location returned by an allocation is the next fresh one *)
Lemma alloc_fill_index zero ws st n st' : hp_alloc_fill zero ws st = Ok (n, st') -> n = length (hs_new st) /\ length (hs_new st') = S n.
Proof.
  intros H. unfold hp_alloc_fill, hp_bind, hp_alloc in H. destruct st as [old new]. simpl in H.
  rewrite hp_puts_fresh in H. unfold hp_ret in H. inversion H; subst; clear H. simpl. split; [reflexivity|].
  rewrite app_length. simpl. lia.
Qed.

(* the combinator lemmas at the two relations *)
Definition pres_ret {A} Q a := @spec_ret hs_pres hs_pres_refl A Q a.
Definition pres_bind {A B} P Q m f := @spec_bind hs_pres hs_pres_trans A B P Q m f.
Definition pres_bind_T {A B} Q m f := @spec_bind_T hs_pres hs_pres_trans A B Q m f.
Definition pres_reader {A} f := @spec_reader hs_pres hs_pres_refl A f.
Definition pres_reado {A} f := @spec_reado hs_pres hs_pres_refl A f.
Definition pres_read l := @spec_read hs_pres hs_pres_refl l.
Definition frame_ret {A} Q a := @spec_ret hs_frame hs_frame_refl A Q a.
Definition frame_bind {A B} P Q m f := @spec_bind hs_frame hs_frame_trans A B P Q m f.
Definition frame_bind_T {A B} Q m f := @spec_bind_T hs_frame hs_frame_trans A B Q m f.
Definition frame_reader {A} f := @spec_reader hs_frame hs_frame_refl A f.
Definition frame_reado {A} f := @spec_reado hs_frame hs_frame_refl A f.
Definition frame_read l := @spec_read hs_frame hs_frame_refl l.

Ltac spec_step :=
  match goal with
  | |- hM_spec hs_pres _ (hp_ret _) => apply pres_ret; auto
  | |- hM_spec hs_frame _ (hp_ret _) => apply frame_ret; auto
  | |- hM_spec _ _ (hp_fail _) => apply spec_fail
  | |- hM_spec _ _ hp_unmodelled => apply spec_unmodelled
  | |- hM_spec _ _ hp_nofuel => apply spec_nofuel
  | |- hM_spec hs_pres (fun _ => True) (hp_reader _) => apply pres_reader
  | |- hM_spec hs_pres (fun _ => True) (hp_reado _) => apply pres_reado
  | |- hM_spec hs_pres (fun _ => True) (hp_read _) => apply pres_read
  | |- hM_spec hs_frame (fun _ => True) (hp_reader _) => apply frame_reader
  | |- hM_spec hs_frame (fun _ => True) (hp_reado _) => apply frame_reado
  | |- hM_spec hs_frame (fun _ => True) (hp_read _) => apply frame_read
  | |- hM_spec hs_pres (fun _ => True) (hp_alloc _) => apply pres_alloc
  | |- hM_spec hs_pres (fun _ => True) (hp_alloc_fill _ _) => apply pres_alloc_fill
  | |- hM_spec hs_pres _ (hp_bind _ _) => apply pres_bind_T; [ | intros ]
  | |- hM_spec hs_frame _ (hp_bind _ _) => apply frame_bind_T; [ | intros ]
  | |- hM_spec _ _ (match ?x with _ => _ end) => destruct x
  | |- hM_spec _ _ (if ?x then _ else _) => destruct x
  | H : _ |- _ => solve [apply H; auto]
  end.
Ltac spec_auto := repeat spec_step.

Lemma pres_new_slice t xs : hM_pres (hp_new_slice t xs).
Proof. unfold hp_new_slice. spec_auto. Qed.
Lemma pres_lit_slice t xs : hM_pres (hp_lit_slice t xs).
Proof. unfold hp_lit_slice. spec_auto. Qed.
Lemma pres_new_map t kvs : hM_pres (hp_new_map t kvs).
Proof. unfold hp_new_map. spec_auto. Qed.

Global Hint Resolve pres_new_slice pres_lit_slice pres_new_map pres_alloc pres_alloc_fill : hpdb.

Ltac spec_go := repeat first [ spec_step | apply pres_new_slice | apply pres_lit_slice | apply pres_new_map ].

(* ------------------------------------------------------------------------------------------------ *)
(* every built-in filter writes only to what it allocates                                            *)

Lemma pres_f_default v args : hM_pres (hp_f_default v args).
Proof. unfold hp_f_default. spec_go. Qed.
Lemma pres_f_length v : hM_pres (hp_f_length v).
Proof. unfold hp_f_length. spec_go. Qed.
Lemma pres_f_join v args : hM_pres (hp_f_join v args).
Proof. unfold hp_f_join. spec_go. Qed.
Lemma pres_f_split v args : hM_pres (hp_f_split v args).
Proof. unfold hp_f_split. spec_go. Qed.
Lemma pres_f_first v : hM_pres (hp_f_first v).
Proof. unfold hp_f_first. spec_go. Qed.
Lemma pres_f_last v : hM_pres (hp_f_last v).
Proof. unfold hp_f_last. spec_go. Qed.
Lemma pres_f_reverse v : hM_pres (hp_f_reverse v).
Proof. unfold hp_f_reverse. spec_go. Qed.
Lemma pres_f_slice w v args : hM_pres (hp_f_slice w v args).
Proof. unfold hp_f_slice. spec_go. Qed.
Lemma pres_f_sort v : hM_pres (hp_f_sort v).
Proof. unfold hp_f_sort. spec_go. Qed.
Lemma pres_f_keys_map t m : hM_pres (hp_f_keys_map t m).
Proof. unfold hp_f_keys_map. spec_go. Qed.
Lemma pres_f_keys v : hM_pres (hp_f_keys v).
Proof. unfold hp_f_keys. spec_go; apply pres_f_keys_map. Qed.
Lemma pres_f_merge v args : hM_pres (hp_f_merge v args).
Proof. unfold hp_f_merge. spec_go. Qed.
Lemma pres_f_case up v : hM_pres (hp_f_case up v).
Proof. unfold hp_f_case. spec_go. Qed.

Lemma pres_filter_run w f v args : hM_pres (hp_filter_run w f v args).
Proof.
  destruct f; cbn [hp_filter_run].
  - apply pres_f_default.
  - apply pres_ret; exact I.
  - apply pres_f_length.
  - apply pres_f_join.
  - apply pres_f_split.
  - apply pres_f_first.
  - apply pres_f_last.
  - apply pres_f_reverse.
  - apply pres_f_slice.
  - apply pres_f_sort.
  - apply pres_f_keys.
  - apply pres_f_merge.
  - apply pres_f_case.
  - apply pres_f_case.
Qed.

Lemma pres_apply_filter w name v args : hM_pres (hp_apply_filter w name v args).
Proof. unfold hp_apply_filter. destruct (assoc_bytes hp_filter_table name); [apply pres_filter_run|apply spec_unmodelled]. Qed.

Lemma pres_fn_range args : hM_pres (hp_fn_range args).
Proof. unfold hp_fn_range. spec_go. Qed.
Lemma pres_fn_merge args : hM_pres (hp_fn_merge args).
Proof. unfold hp_fn_merge. spec_go. Qed.
Lemma pres_fn_cycle args : hM_pres (hp_fn_cycle args).
Proof. unfold hp_fn_cycle. spec_go. Qed.
Lemma pres_get_attr v a : hM_pres (hp_get_attr v a).
Proof. unfold hp_get_attr. spec_go. Qed.
Lemma pres_get_item v i : hM_pres (hp_get_item v i).
Proof. unfold hp_get_item. spec_go. Qed.
Lemma pres_u_alias args : hM_pres (hp_u_alias args).
Proof. unfold hp_u_alias. spec_go. Qed.

(* ------------------------------------------------------------------------------------------------ *)
(* expressions write only to what they allocate, provided the callbacks of the caller do              *)

Definition hp_user_pres (user : hp_user) : Prop := forall name f, user name = Some f -> forall args, hM_pres (f args).

Lemma hp_user_none_pres : hp_user_pres hp_user_none.
Proof. intros name f H. discriminate H. Qed.

Lemma hp_user_alias_pres : hp_user_pres hp_user_alias.
Proof.
  intros name f H args. unfold hp_user_alias in H. destruct (bytes_eqb name b#"verif_alias"); [|discriminate].
  inversion H; subst. apply pres_u_alias.
Qed.

Lemma pres_eval_list ev es : (forall e, hM_pres (ev e)) -> hM_pres (hp_eval_list ev es).
Proof. intros Hev. induction es as [|e es IH]; cbn [hp_eval_list]; spec_auto. Qed.

Lemma pres_eval_pairs ev kvs : (forall e, hM_pres (ev e)) -> hM_pres (hp_eval_pairs ev kvs).
Proof. intros Hev. induction kvs as [|[k e] kvs IH]; cbn [hp_eval_pairs]; spec_auto. Qed.

Lemma pres_binop o a b : hM_pres (hp_binop o a b).
Proof. unfold hp_binop. spec_auto. Qed.
Lemma pres_truth v : hM_pres (hp_truth v).
Proof. unfold hp_truth. spec_auto. Qed.

Section HpEvalProofs.
  Variable window : bool.
  Variable user : hp_user.
  Hypothesis Huser : hp_user_pres user.

  Lemma pres_apply_chain ev : (forall e, hM_pres (ev e)) -> forall chain v, hM_pres (hp_apply_chain window ev v chain).
  Proof.
    intros Hev. induction chain as [|[name args] rest IH]; intros v; cbn [hp_apply_chain].
    - apply pres_ret; exact I.
    - apply pres_bind_T; [apply pres_eval_list; exact Hev|intros avs].
      apply pres_bind_T; [apply pres_apply_filter|intros r]. apply IH.
  Qed.

  Lemma pres_eval : forall fu rc e, hM_pres (hp_eval window user fu rc e).
  Proof.
    induction fu as [|fu IH]; intros rc e; [apply spec_nofuel|].
    assert (Hl : forall es, hM_pres (hp_eval_list (hp_eval window user fu rc) es)) by (intros; apply pres_eval_list; intros; apply IH).
    assert (Hp : forall kvs, hM_pres (hp_eval_pairs (hp_eval window user fu rc) kvs)) by (intros; apply pres_eval_pairs; intros; apply IH).
    destruct e; cbn [hp_eval].
    - spec_auto.
    - spec_auto.
    - spec_auto. apply pres_get_attr.
    - spec_auto. apply pres_get_item.
    - destruct o; spec_auto. apply pres_truth.
    - destruct o; spec_auto; first [apply pres_truth | apply pres_binop].
    - spec_auto. apply pres_truth.
    - spec_auto. apply pres_lit_slice.
    - spec_auto. apply pres_new_map.
    - spec_auto. apply pres_apply_chain. intros; apply IH.
    - destruct (hp_find_macro rc f); [apply spec_unmodelled|].
      apply pres_bind_T; [apply Hl|intros avs].
      destruct (user f) as [g|] eqn:Eu; [eapply Huser; exact Eu|].
      spec_auto; first [apply pres_fn_range | apply pres_fn_merge | apply pres_fn_cycle].
    - apply spec_unmodelled.
    - apply spec_unmodelled.
  Qed.
End HpEvalProofs.

(* ------------------------------------------------------------------------------------------------ *)
(* nodes: every write targets an object allocated during this render                                  *)

(* the invariant: the variable map of every context of the chain is a fresh object *)
Definition hp_is_new (l : hploc) : Prop := exists n, l = HlNew n.
Definition rc_new (rc : hp_ctx) : Prop := Forall (fun f => hp_is_new (hf_vars f)) rc.
Definition rc_post (r : bytes * hp_ctx) : Prop := rc_new (snd r).
Notation hM_nframe := (hM_frame rc_post).

Lemma frame_put_new n o : hM_frame (fun _ => True) (hp_put (HlNew n) o).
Proof. intros st a st' H. unfold hp_put in H. inversion H; subst. split; [reflexivity|exact I]. Qed.

Lemma frame_put l o : hp_is_new l -> hM_frame (fun _ => True) (hp_put l o).
Proof. intros [n ->]. apply frame_put_new. Qed.

Lemma frame_alloc o : hM_frame (fun _ => True) (hp_alloc o).
Proof. apply pres_to_frame. apply pres_alloc. Qed.
Lemma frame_alloc_fill z ws : hM_frame (fun _ => True) (hp_alloc_fill z ws).
Proof. apply pres_to_frame. apply pres_alloc_fill. Qed.

Lemma frame_setvar rc x v : rc_new rc -> hM_frame (fun _ => True) (hp_setvar rc x v).
Proof.
  intros Hrc. unfold hp_setvar. destruct rc as [|f parents]; [apply spec_unmodelled|].
  inversion Hrc as [|? ? Hf Hp]; subst.
  apply frame_bind_T; [apply frame_read|intros o]. destruct o; try apply spec_unmodelled. apply frame_put. exact Hf.
Qed.

Lemma frame_new_context entries : hM_frame (fun f => hp_is_new (hf_vars f)) (hp_new_context entries).
Proof.
  unfold hp_new_context. eapply frame_bind; [apply frame_alloc_fill|]. intros n _.
  apply frame_ret. simpl. exists n. reflexivity.
Qed.

Lemma rc_new_add_macro rc name m : rc_new rc -> rc_new (hp_add_macro rc name m).
Proof. intros H. destruct rc as [|f p]; [exact H|]. inversion H; subst. constructor; assumption. Qed.

Ltac fstep :=
  first [ spec_step
        | apply frame_put_new
        | apply frame_alloc
        | apply frame_alloc_fill
        | (apply frame_setvar; assumption) ].
Ltac fauto := repeat fstep.

Section HpNodeProofs.
  Variable window : bool.
  Variable user : hp_user.
  Hypothesis Huser : hp_user_pres user.

  Lemma frame_eval fu rc e : hM_frame (fun _ => True) (hp_eval window user fu rc e).
  Proof. apply pres_to_frame. apply pres_eval. exact Huser. Qed.
  Lemma frame_eval_list fu rc es : hM_frame (fun _ => True) (hp_eval_list (hp_eval window user fu rc) es).
  Proof. apply pres_to_frame. apply pres_eval_list. intros. apply pres_eval. exact Huser. Qed.
  Lemma frame_apply_filter name v args : hM_frame (fun _ => True) (hp_apply_filter window name v args).
  Proof. apply pres_to_frame. apply pres_apply_filter. Qed.
  Lemma frame_truth v : hM_frame (fun _ => True) (hp_truth v).
  Proof. apply pres_to_frame. apply pres_truth. Qed.
  Lemma frame_print v : hM_frame (fun _ => True) (hp_print v).
  Proof. unfold hp_print. apply frame_reado. Qed.

  (* a body: whatever runs inside a loop, a branch, an include or a macro *)
  Definition body_ok (body : hp_ctx -> hpM (bytes * hp_ctx)) : Prop := forall rc, rc_new rc -> hM_nframe (body rc).

  Lemma frame_iteration body rc lm kvar vvar index length key value :
    body_ok body -> rc_new rc -> hM_nframe (hp_iteration body rc lm kvar vvar index length key value).
  Proof.
    intros Hb Hrc. unfold hp_iteration. fauto; try (apply Hb; exact Hrc).
  Qed.

  Lemma frame_loop_slice body lm kvar vvar arr off length : body_ok body ->
    forall todo index rc acc, rc_new rc -> hM_nframe (hp_loop_slice body lm kvar vvar arr off length todo index rc acc).
  Proof.
    intros Hb. induction todo as [|todo IH]; intros index rc acc Hrc; cbn [hp_loop_slice].
    - apply frame_ret. exact Hrc.
    - apply frame_bind_T; [apply frame_reado|intros x].
      eapply frame_bind; [apply frame_iteration; assumption|].
      intros [out rc'] Hq. apply IH. exact Hq.
  Qed.

  Lemma frame_loop_pairs body lm kvar vvar length : body_ok body ->
    forall items index rc acc, rc_new rc -> hM_nframe (hp_loop_pairs body lm kvar vvar length items index rc acc).
  Proof.
    intros Hb. induction items as [|[k x] items IH]; intros index rc acc Hrc; cbn [hp_loop_pairs].
    - apply frame_ret. exact Hrc.
    - eapply frame_bind; [apply frame_iteration; assumption|].
      intros [out rc'] Hq. apply IH. exact Hq.
  Qed.

  Lemma frame_loop_map body lm kvar vvar m length : body_ok body ->
    forall keys index rc acc, rc_new rc -> hM_nframe (hp_loop_map body lm kvar vvar m length keys index rc acc).
  Proof.
    intros Hb. induction keys as [|k keys IH]; intros index rc acc Hrc; cbn [hp_loop_map].
    - apply frame_ret. exact Hrc.
    - apply frame_bind_T; [apply frame_reado|intros x].
      eapply frame_bind; [apply frame_iteration; assumption|].
      intros [out rc'] Hq. apply IH. exact Hq.
  Qed.

  Lemma frame_for body els rc kvar vvar seq : body_ok body -> body_ok els -> rc_new rc -> hM_nframe (hp_for body els rc kvar vvar seq).
  Proof.
    intros Hb He Hrc. unfold hp_for.
    assert (Hels : hM_nframe (els rc)) by (apply He; exact Hrc).
    destruct seq; try exact Hels.
    all: apply frame_bind_T; [apply frame_alloc|intros lm].
    all: apply frame_bind_T; [apply frame_reado|intros outer].
    all: try exact Hels.
    all: set (finish := fun r : bytes * hp_ctx => match outer with Some o => _ | None => _ end).
    all: assert (Hfin : forall r, rc_post r -> hM_nframe (finish r))
      by (intros r Hr; unfold finish; destruct outer; [apply frame_bind_T; [apply frame_setvar; exact Hr|intros; apply frame_ret; exact Hr]|apply frame_ret; exact Hr]).
    all: assert (Hgo : forall length run, hM_nframe run ->
                   hM_nframe (hp_bind (hp_put (HlNew lm) (HoMap (hp_map_set hp_loop_zero (HvStr b#"length") (HvInt (Z.of_nat length)))))
                                     (fun _ => hp_bind run (fun r => finish r))))
      by (intros length run Hrun; apply frame_bind_T; [apply frame_put_new|intros _]; eapply frame_bind; [exact Hrun|exact Hfin]).
    all: assert (Hstart : forall length run, hM_nframe run ->
                   hM_nframe (if Nat.eqb length 0 then els rc
                              else hp_bind (hp_put (HlNew lm) (HoMap (hp_map_set hp_loop_zero (HvStr b#"length") (HvInt (Z.of_nat length)))))
                                     (fun _ => hp_bind run (fun r => finish r))))
      by (intros length run Hrun; destruct (Nat.eqb length 0); [exact Hels|apply Hgo; exact Hrun]).
    - (* strings *)
      destruct (hp_all_ascii s); [|apply spec_unmodelled]. apply Hstart. apply frame_loop_pairs; assumption.
    - (* slices *)
      destruct tag.
      + apply Hstart. apply frame_loop_slice; assumption.
      + destruct (Nat.eqb len 0); [exact Hels|]. apply frame_bind_T; [apply frame_reado|intros xs].
        apply frame_bind_T; [apply frame_alloc_fill|intros n]. apply Hgo. apply frame_loop_slice; assumption.
      + destruct (Nat.eqb len 0); [exact Hels|]. apply frame_bind_T; [apply frame_reado|intros xs].
        apply frame_bind_T; [apply frame_alloc_fill|intros n]. apply Hgo. apply frame_loop_slice; assumption.
      + destruct (Nat.eqb len 0); [exact Hels|]. apply frame_bind_T; [apply frame_reado|intros xs].
        apply frame_bind_T; [apply frame_alloc_fill|intros n]. apply Hgo. apply frame_loop_slice; assumption.
    - (* maps *)
      apply frame_bind_T; [apply frame_reado|intros kvs].
      destruct (hp_sorted_entries kvs); [|apply spec_unmodelled]. apply Hstart. apply frame_loop_map; assumption.
    - (* array values *)
      destruct tag.
      + apply Hstart. apply frame_loop_pairs; assumption.
      + destruct (Nat.eqb (length xs) 0); [exact Hels|].
        apply frame_bind_T; [apply frame_alloc_fill|intros n]. apply Hgo. apply frame_loop_slice; assumption.
      + destruct (Nat.eqb (length xs) 0); [exact Hels|].
        apply frame_bind_T; [apply frame_alloc_fill|intros n]. apply Hgo. apply frame_loop_slice; assumption.
      + destruct (Nat.eqb (length xs) 0); [exact Hels|].
        apply frame_bind_T; [apply frame_alloc_fill|intros n]. apply Hgo. apply frame_loop_slice; assumption.
  Qed.

  Lemma frame_if fu rc0 (rn : list node -> hp_ctx -> hpM (bytes * hp_ctx)) rc els :
    (forall b, body_ok (rn b)) -> rc_new rc ->
    forall branches, hM_nframe (hp_if (hp_eval window user fu rc0) rn rc branches els).
  Proof.
    intros Hrn Hrc. induction branches as [|[c b] r IH]; cbn [hp_if].
    - destruct els; [apply Hrn; exact Hrc|apply frame_ret; exact Hrc].
    - apply frame_bind_T; [apply frame_eval|intros cv].
      apply frame_bind_T; [apply frame_truth|intros t].
      destruct t; [apply Hrn; exact Hrc|exact IH].
  Qed.

  Lemma frame_set_all fu rc0 target : rc_new target ->
    forall kvs, hM_frame (fun _ => True) (hp_set_all (hp_eval window user fu rc0) target kvs).
  Proof.
    intros Ht. induction kvs as [|[k e] kvs IH]; cbn [hp_set_all].
    - apply frame_ret; exact I.
    - destruct k; try apply spec_unmodelled. destruct l; try apply spec_unmodelled.
      apply frame_bind_T; [apply frame_eval|intros v].
      apply frame_bind_T; [apply frame_setvar; exact Ht|intros _]. exact IH.
  Qed.

  Lemma frame_bind_params fu rc0 target : rc_new target ->
    forall params args, hM_frame (fun _ => True) (hp_bind_params (hp_eval window user fu rc0) target params args).
  Proof.
    intros Ht. induction params as [|[p d] params IH]; intros args; cbn [hp_bind_params].
    - apply frame_ret; exact I.
    - destruct args as [|a args'].
      + apply frame_bind_T; [destruct d; [apply frame_eval|apply frame_ret; exact I]|intros v].
        apply frame_bind_T; [apply frame_setvar; exact Ht|intros _]. apply IH.
      + apply frame_bind_T; [apply frame_setvar; exact Ht|intros _]. apply IH.
  Qed.

  Lemma frame_nodes_with rnode : (forall n, body_ok (rnode n)) -> forall ns, body_ok (hp_nodes_with rnode ns).
  Proof.
    intros Hn. induction ns as [|n ns IH]; intros rc Hrc; cbn [hp_nodes_with].
    - apply frame_ret. exact Hrc.
    - eapply frame_bind; [apply Hn; exact Hrc|]. intros [o1 rc1] H1.
      eapply frame_bind; [apply IH; exact H1|]. intros [o2 rc2] H2.
      apply frame_ret. exact H2.
  Qed.

  Lemma frame_node : forall fu tpls n, body_ok (hp_node window user fu tpls n).
  Proof.
    induction fu as [|fu IH]; intros tpls n rc Hrc; [apply spec_nofuel|].
    assert (Hrn : forall b, body_ok (hp_nodes_with (hp_node window user fu tpls) b))
      by (intros b; apply frame_nodes_with; intros; apply IH).
    assert (Hkeep : forall (m : hpM (bytes * hp_ctx)) , hM_nframe m ->
              hM_nframe (hp_bind m (fun x => match x with (out, _) => hp_ret (out, rc) end)))
      by (intros m Hm; eapply frame_bind; [exact Hm|]; intros [out rc'] _; apply frame_ret; exact Hrc).
    destruct n; cbn [hp_node]; try apply spec_unmodelled.
    - (* text *) apply frame_ret. exact Hrc.
    - (* print *)
      assert (Hplain : forall e0, hM_nframe (hp_bind (hp_eval window user fu rc e0)
                                    (fun v => hp_bind (hp_print v) (fun s => hp_ret (s, rc)))))
        by (intros e0; apply frame_bind_T; [apply frame_eval|intros val]; apply frame_bind_T; [apply frame_print|intros s];
            apply frame_ret; exact Hrc).
      destruct e; try apply Hplain.
      destruct (hp_find_macro rc f) as [m|]; [|apply Hplain].
      apply frame_bind_T; [apply frame_eval_list|intros avs].
      eapply frame_bind; [apply frame_new_context|]. intros fr Hfr.
      assert (Hmc : rc_new (fr :: rc)) by (constructor; assumption).
      apply frame_bind_T; [apply frame_bind_params; exact Hmc|intros _].
      apply Hkeep. apply Hrn. exact Hmc.
    - (* if *) apply frame_if; assumption.
    - (* for *)
      apply frame_bind_T.
      + destruct seq; try apply frame_eval.
        apply frame_bind_T; [apply frame_eval|intros val]. apply pres_to_frame. apply pres_apply_chain.
        intros; apply pres_eval; exact Huser.
      + intros sv. apply frame_for; [apply Hrn| |exact Hrc].
        destruct els; [apply Hrn|]. intros rc1 H1. apply frame_ret. exact H1.
    - (* set *)
      apply frame_bind_T; [apply frame_eval|intros val]. apply frame_bind_T; [apply frame_setvar; exact Hrc|intros _].
      apply frame_ret. exact Hrc.
    - (* do *)
      apply frame_bind_T; [apply frame_eval|intros val]. apply frame_ret. exact Hrc.
    - (* include *)
      destruct e; try apply spec_unmodelled. destruct l; try apply spec_unmodelled.
      destruct sandboxed; try apply spec_unmodelled.
      destruct (assoc_bytes tpls s) as [body|]; [|destruct ignore_missing; [apply frame_ret; exact Hrc|apply spec_fail]].
      apply frame_bind_T.
      { destruct withs as [w|]; [destruct w; try apply spec_unmodelled|]; apply frame_ret; exact I. }
      intros kvs.
      eapply (frame_bind (fun ic => rc_new ic)).
      { destruct only.
        - apply frame_bind_T; [apply frame_alloc|intros _].
          eapply frame_bind; [apply frame_new_context|]. intros fr Hfr. apply frame_ret. constructor; [exact Hfr|constructor].
        - eapply frame_bind; [apply frame_new_context|]. intros fr Hfr. apply frame_ret. constructor; [exact Hfr|exact Hrc]. }
      intros ic Hic.
      apply frame_bind_T; [apply frame_set_all; exact Hic|intros _].
      apply Hkeep. apply Hrn. exact Hic.
    - (* macro definition *) apply frame_ret. apply rc_new_add_macro. exact Hrc.
    - (* verbatim *) apply frame_ret. exact Hrc.
    - (* apply *)
      eapply frame_bind; [apply Hrn; exact Hrc|]. intros [out rc1] H1.
      apply frame_bind_T; [apply frame_eval_list|intros avs].
      apply frame_bind_T; [apply frame_apply_filter|intros r].
      apply frame_bind_T; [apply frame_print|intros s]. apply frame_ret. exact H1.
  Qed.

  Lemma frame_render_st fu tpls name root : hM_frame (fun _ => True) (hp_render_st window user fu tpls name root).
  Proof.
    unfold hp_render_st. destruct (assoc_bytes tpls name) as [body|]; [|apply spec_fail].
    apply frame_bind_T; [apply frame_read|intros o]. destruct o; try apply spec_unmodelled.
    eapply frame_bind; [apply frame_new_context|]. intros fr Hfr.
    eapply frame_bind.
    - unfold hp_nodes. apply frame_nodes_with; [intros; apply frame_node|]. constructor; [exact Hfr|constructor].
    - intros [out rc'] _. apply frame_ret. exact I.
  Qed.
End HpNodeProofs.

(* ------------------------------------------------------------------------------------------------ *)
(* deep snapshots are stable under hs_pres: the tree the caller sees through a value does not change    *)

Lemma hp_opt_all_mono {A B} (f g : A -> option B) (xs : list A) :
  (forall x y, In x xs -> f x = Some y -> g x = Some y) ->
  forall l, hp_opt_all (map f xs) = Some l -> hp_opt_all (map g xs) = Some l.
Proof.
  induction xs as [|x xs IH]; intros H l Hl; simpl in *; [exact Hl|].
  destruct (f x) as [y|] eqn:Ef; [|discriminate].
  destruct (hp_opt_all (map f xs)) as [r|] eqn:Er; [|discriminate].
  rewrite (H x y (or_introl eq_refl) Ef). rewrite (IH (fun x0 y0 Hin => H x0 y0 (or_intror Hin)) r eq_refl). exact Hl.
Qed.

Lemma hs_pres_window st st' arr off len xs : hs_pres st st' -> hp_window st arr off len = Some xs -> hp_window st' arr off len = Some xs.
Proof.
  intros Hp H. unfold hp_window in *. destruct (hp_get st arr) as [o|] eqn:E; [|discriminate].
  rewrite (hs_pres_get _ _ _ _ Hp E). exact H.
Qed.

Lemma hs_pres_map_entries st st' m kvs : hs_pres st st' -> hp_map_entries st m = Some kvs -> hp_map_entries st' m = Some kvs.
Proof.
  intros Hp H. unfold hp_map_entries in *. destruct (hp_get st m) as [o|] eqn:E; [|discriminate].
  rewrite (hs_pres_get _ _ _ _ Hp E). exact H.
Qed.

Lemma hs_pres_snap st st' : hs_pres st st' -> forall fu v x, hp_snap fu st v = Some x -> hp_snap fu st' v = Some x.
Proof.
  intros Hp. induction fu as [|fu IH]; intros v x H; [discriminate|].
  destruct v; cbn [hp_snap] in *; try exact H.
  - destruct (hp_window st arr off len) as [xs|] eqn:Ew; [|discriminate].
    rewrite (hs_pres_window _ _ _ _ _ _ Hp Ew).
    destruct (hp_opt_all (map (hp_snap fu st) xs)) as [l|] eqn:El; [|discriminate].
    rewrite (hp_opt_all_mono (hp_snap fu st) (hp_snap fu st') xs (fun x0 y0 _ => IH x0 y0) l El). exact H.
  - destruct (hp_map_entries st m) as [kvs|] eqn:Em; [|discriminate].
    rewrite (hs_pres_map_entries _ _ _ _ Hp Em).
    match type of H with match hp_opt_all (map ?f kvs) with _ => _ end = _ =>
      destruct (hp_opt_all (map f kvs)) as [l|] eqn:El; [|discriminate] end.
    match goal with |- match hp_opt_all (map ?g kvs) with _ => _ end = _ =>
      match type of El with hp_opt_all (map ?f kvs) = _ =>
        rewrite (hp_opt_all_mono f g kvs) with (l := l); [exact H| |exact El] end end.
    intros [k0 v0] y _ Hy. simpl in *.
    destruct (hp_snap fu st k0) as [a|] eqn:Ea; [|discriminate].
    destruct (hp_snap fu st v0) as [b|] eqn:Eb; [|discriminate].
    rewrite (IH _ _ Ea), (IH _ _ Eb). exact Hy.
  - match type of H with match hp_opt_all (map ?f fields) with _ => _ end = _ =>
      destruct (hp_opt_all (map f fields)) as [l|] eqn:El; [|discriminate] end.
    match goal with |- match hp_opt_all (map ?g fields) with _ => _ end = _ =>
      match type of El with hp_opt_all (map ?f fields) = _ =>
        rewrite (hp_opt_all_mono f g fields) with (l := l); [exact H| |exact El] end end.
    intros [k0 v0] y _ Hy. simpl in *.
    destruct (hp_snap fu st v0) as [b|] eqn:Eb; [|discriminate]. rewrite (IH _ _ Eb). exact Hy.
  - destruct (hp_opt_all (map (hp_snap fu st) xs)) as [l|] eqn:El; [|discriminate].
    rewrite (hp_opt_all_mono (hp_snap fu st) (hp_snap fu st') xs (fun x0 y0 _ => IH x0 y0) l El). exact H.
  - destruct (hp_get st p) as [o|] eqn:Eg; [|discriminate].
    rewrite (hs_pres_get _ _ _ _ Hp Eg). destruct o; try discriminate.
    destruct (hp_snap fu st v) as [c|] eqn:Ec; [|discriminate]. rewrite (IH _ _ Ec). exact H.
Qed.

(* ------------------------------------------------------------------------------------------------ *)
(* the theorems of Properties/C18.v                                                                   *)

(* with any callbacks that write only to what they allocate, whatever slice does *)
Lemma C18_frame_with_callbacks_proof : forall window user, hp_user_pres user ->
  forall fu tpls name root h out h', hp_render_with window user fu tpls name root h = Ok (out, h') -> h' = h.
Proof.
  intros window user Hu fu tpls name root h out h' H. unfold hp_render_with in H.
  destruct (hp_render_st window user fu tpls name root (mk_hpstate h [])) as [[o st]| | |] eqn:E; try discriminate.
  inversion H; subst; clear H.
  destruct (frame_render_st window user Hu fu tpls name root _ _ _ E) as [Hf _]. exact Hf.
Qed.

Lemma C18_frame_proof : forall fu tpls name root h out h',
  render_heap fu tpls name root h = Ok (out, h') -> h' = h /\ forall l, nth_error h' l = nth_error h l.
Proof.
  intros fu tpls name root h out h' H.
  assert (E : h' = h) by (eapply C18_frame_with_callbacks_proof; [apply hp_user_alias_pres|exact H]).
  subst. split; reflexivity.
Qed.

(* expressions: nothing that exists is written, in either region *)
Lemma C18_expressions_do_not_write_proof : forall window user, hp_user_pres user ->
  forall fu rc e st v st', hp_eval window user fu rc e st = Ok (v, st') ->
  hs_old st' = hs_old st /\ forall l o, hp_get st l = Some o -> hp_get st' l = Some o.
Proof.
  intros window user Hu fu rc e st v st' H. destruct (pres_eval window user Hu fu rc e _ _ _ H) as [Hp _].
  split; [apply Hp|]. intros l o. apply hs_pres_get. exact Hp.
Qed.

Lemma C18_filters_do_not_write_inputs_proof : forall window name v args st r st',
  hp_apply_filter window name v args st = Ok (r, st') ->
  hs_old st' = hs_old st /\
  (forall l o, hp_get st l = Some o -> hp_get st' l = Some o) /\
  (forall fu x, hp_snap fu st v = Some x -> hp_snap fu st' v = Some x) /\
  (forall fu a x, In a args -> hp_snap fu st a = Some x -> hp_snap fu st' a = Some x).
Proof.
  intros window name v args st r st' H. destruct (pres_apply_filter window name v args _ _ _ H) as [Hp _].
  split; [apply Hp|]. split; [intros l o; apply hs_pres_get; exact Hp|].
  split; [intros fu x; apply hs_pres_snap; exact Hp|intros fu a x _; apply hs_pres_snap; exact Hp].
Qed.

Lemma C18_second_filter_preserves_first_result_proof : forall window f a g b v st r st1 r2 st2,
  hp_apply_filter window f v a st = Ok (r, st1) ->
  (hp_apply_filter window g r b st1 = Ok (r2, st2) \/ hp_apply_filter window g v b st1 = Ok (r2, st2)) ->
  (forall l o, hp_get st1 l = Some o -> hp_get st2 l = Some o) /\
  (forall fu x, hp_snap fu st1 r = Some x -> hp_snap fu st2 r = Some x) /\
  (forall fu x, hp_snap fu st1 v = Some x -> hp_snap fu st2 v = Some x) /\
  hs_old st2 = hs_old st.
Proof.
  intros window f a g b v st r st1 r2 st2 H1 H2.
  destruct (pres_apply_filter window f v a _ _ _ H1) as [Hp1 _].
  assert (Hp2 : hs_pres st1 st2) by (destruct H2 as [H2|H2]; eapply pres_apply_filter; exact H2).
  split; [intros l o; apply hs_pres_get; exact Hp2|].
  split; [intros fu x; apply hs_pres_snap; exact Hp2|].
  split; [intros fu x; apply hs_pres_snap; exact Hp2|].
  destruct Hp1 as [O1 _], Hp2 as [O2 _]. congruence.
Qed.

Lemma C18_two_renders_independent_proof : forall fu1 tpls1 name1 fu2 tpls2 name2 root h out1 h1,
  render_heap fu1 tpls1 name1 root h = Ok (out1, h1) ->
  render_heap fu2 tpls2 name2 root h1 = render_heap fu2 tpls2 name2 root h.
Proof.
  intros. destruct (C18_frame_proof _ _ _ _ _ _ _ H) as [E _]. subst. reflexivity.
Qed.

(* ------------------------------------------------------------------------------------------------ *)
(* aliasing classes: which results are fresh objects, which are the input, which are windows           *)

(* the reference a result holds at its top is to an object that did not exist in st *)
Definition hp_top_fresh (st : hpstate) (r : hpval) : Prop :=
  match r with
  | HvSlice _ (HlNew n) _ _ _ | HvMap _ (HlNew n) | HvPtr (HlNew n) => length (hs_new st) <= n
  | HvSlice _ (HlOld _) _ _ _ | HvMap _ (HlOld _) | HvPtr (HlOld _) => False
  | _ => True
  end.

Definition hp_scalar (r : hpval) : Prop :=
  match r with HvNull | HvBool _ | HvInt _ | HvStr _ => True | _ => False end.

Lemma hp_scalar_fresh st r : hp_scalar r -> hp_top_fresh st r.
Proof. destruct r; simpl; intros H; try exact I; contradiction. Qed.

Lemma hp_top_fresh_mono st st1 r : hs_pres st st1 -> hp_top_fresh st1 r -> hp_top_fresh st r.
Proof.
  intros [_ [ext HN]] H. assert (L : length (hs_new st) <= length (hs_new st1)) by (rewrite HN, app_length; lia).
  destruct r; simpl in *; try exact H; destruct arr || destruct m || destruct p; simpl in *; try exact H; lia.
Qed.

Definition hM_fresh (m : hpM hpval) : Prop := forall st r st', m st = Ok (r, st') -> hp_top_fresh st r.

Lemma fresh_bind {A} (m : hpM A) (f : A -> hpM hpval) : hM_pres m -> (forall a, hM_fresh (f a)) -> hM_fresh (hp_bind m f).
Proof.
  intros Hm Hf st r st' H. unfold hp_bind in H. destruct (m st) as [[a st1]| | |] eqn:E; try discriminate.
  destruct (Hm _ _ _ E) as [Hp _]. eapply hp_top_fresh_mono; [exact Hp|]. eapply Hf. exact H.
Qed.
Lemma fresh_ret r : hp_scalar r -> hM_fresh (hp_ret r).
Proof. intros Hs st r' st' H. unfold hp_ret in H. inversion H; subst. apply hp_scalar_fresh. exact Hs. Qed.
Lemma fresh_unmodelled : hM_fresh hp_unmodelled.
Proof. intros st r st' H. discriminate. Qed.
Lemma fresh_fail e : hM_fresh (hp_fail e).
Proof. intros st r st' H. discriminate. Qed.
Lemma fresh_reader f : (forall st a, f st = Ok a -> hp_scalar a) -> hM_fresh (hp_reader f).
Proof.
  intros Hf st r st' H. unfold hp_reader in H. destruct (f st) as [a| | |] eqn:E; try discriminate. inversion H; subst.
  apply hp_scalar_fresh. eapply Hf. exact E.
Qed.

Lemma fresh_alloc_slice_aux t len (m : hpM nat) :
  (forall st n st', m st = Ok (n, st') -> n = length (hs_new st)) ->
  hM_fresh (hp_bind m (fun n => hp_ret (HvSlice t (HlNew n) 0 len len))).
Proof.
  intros Hm st r st' H. unfold hp_bind in H. destruct (m st) as [[n st1]| | |] eqn:E; try discriminate.
  unfold hp_ret in H. inversion H; subst. simpl. rewrite (Hm _ _ _ E). lia.
Qed.
Lemma alloc_index o st n st' : hp_alloc o st = Ok (n, st') -> n = length (hs_new st).
Proof. unfold hp_alloc. intros H. inversion H. reflexivity. Qed.
Lemma alloc_fill_index' z ws st n st' : hp_alloc_fill z ws st = Ok (n, st') -> n = length (hs_new st).
Proof. intros H. apply alloc_fill_index in H. apply H. Qed.

Lemma fresh_new_slice t xs : hM_fresh (hp_new_slice t xs).
Proof. unfold hp_new_slice. apply fresh_alloc_slice_aux. apply alloc_fill_index'. Qed.
Lemma fresh_lit_slice t xs : hM_fresh (hp_lit_slice t xs).
Proof. unfold hp_lit_slice. apply fresh_alloc_slice_aux. apply alloc_index. Qed.
Lemma fresh_new_map t kvs : hM_fresh (hp_new_map t kvs).
Proof.
  unfold hp_new_map. intros st r st' H. unfold hp_bind in H.
  destruct (hp_alloc_fill (HoMap []) [HoMap kvs] st) as [[n st1]| | |] eqn:E; try discriminate.
  unfold hp_ret in H. inversion H; subst. simpl. rewrite (alloc_fill_index' _ _ _ _ _ E). lia.
Qed.

Ltac fresh_step :=
  match goal with
  | |- hM_fresh (hp_ret _) => apply fresh_ret; exact I
  | |- hM_fresh hp_unmodelled => apply fresh_unmodelled
  | |- hM_fresh (hp_fail _) => apply fresh_fail
  | |- hM_fresh (hp_new_slice _ _) => apply fresh_new_slice
  | |- hM_fresh (hp_lit_slice _ _) => apply fresh_lit_slice
  | |- hM_fresh (hp_new_map _ _) => apply fresh_new_map
  | |- hM_fresh (hp_bind _ _) => apply fresh_bind; [spec_go | intros]
  | |- hM_fresh (match ?x with _ => _ end) => destruct x
  | |- hM_fresh (if ?x then _ else _) => destruct x
  end.
Ltac fresh_go := repeat fresh_step.

(* reverse, keys, split: always a fresh object (or a scalar) *)
Lemma fresh_f_reverse v : hM_fresh (hp_f_reverse v).
Proof. unfold hp_f_reverse. fresh_go. Qed.
Lemma fresh_f_keys v : hM_fresh (hp_f_keys v).
Proof. unfold hp_f_keys, hp_f_keys_map. fresh_go. Qed.
Lemma fresh_f_split v args : hM_fresh (hp_f_split v args).
Proof. unfold hp_f_split. fresh_go. Qed.
Lemma fresh_fn_range args : hM_fresh (hp_fn_range args).
Proof. unfold hp_fn_range. fresh_go. Qed.
Lemma fresh_fn_merge args : hM_fresh (hp_fn_merge args).
Proof. unfold hp_fn_merge. fresh_go. Qed.

(* join, length, upper, lower: scalars *)
Lemma fresh_f_join v args : hM_fresh (hp_f_join v args).
Proof.
  unfold hp_f_join. apply fresh_reader. intros st a H.
  repeat match type of H with
         | Ok _ = Ok _ => inversion H; subst; exact I
         | match ?x with _ => _ end = _ => destruct x; try discriminate
         end.
Qed.
Lemma fresh_f_length v : hM_fresh (hp_f_length v).
Proof.
  unfold hp_f_length. apply fresh_reader. intros st a H. unfold hp_length_of in H.
  repeat match type of H with
         | Ok _ = Ok _ => inversion H; subst; exact I
         | match ?x with _ => _ end = _ => destruct x; try discriminate
         end.
Qed.
Lemma fresh_f_case up v : hM_fresh (hp_f_case up v).
Proof.
  unfold hp_f_case. apply fresh_reader. intros st a H.
  repeat match type of H with
         | Ok _ = Ok _ => inversion H; subst; exact I
         | match ?x with _ => _ end = _ => destruct x; try discriminate
         | (if ?x then _ else _) = _ => destruct x; try discriminate
         end.
Qed.

(* sort: fresh, except that an empty generic list is returned itself *)
Lemma alias_f_sort v st r st' : hp_f_sort v st = Ok (r, st') ->
  hp_top_fresh st r \/ (r = v /\ exists arr off cap, v = HvSlice LAny arr off 0 cap).
Proof.
  intros H.
  assert (Hfill : forall t len z ws, hM_fresh (hp_bind (hp_alloc_fill z ws) (fun n => hp_ret (HvSlice t (HlNew n) 0 len len))))
    by (intros; apply fresh_alloc_slice_aux; apply alloc_fill_index').
  destruct v; try (left; revert H; unfold hp_f_sort; match goal with |- ?m st = _ -> _ => assert (Hf : hM_fresh m) by fresh_go; apply Hf end).
  - (* slices *)
    destruct tag, len;
      try solve [left; revert H; cbn [hp_f_sort];
                 match goal with |- ?m st = _ -> _ => assert (Hf : hM_fresh m); [|apply Hf] end;
                 repeat first [ apply Hfill | fresh_step ]].
    right. simpl in H. unfold hp_ret in H. inversion H; subst. split; [reflexivity|eauto].
  - (* array values *)
    left. revert H. cbn [hp_f_sort]. match goal with |- ?m st = _ -> _ => assert (Hf : hM_fresh m); [|apply Hf] end.
    apply fresh_bind; [spec_go|intros sorted]. apply Hfill.
Qed.

(* merge: fresh on lists, arrays and maps; any other value is returned itself *)
Definition hp_is_collection (v : hpval) : Prop :=
  match v with HvSlice _ _ _ _ _ | HvArr _ _ | HvMap _ _ => True | _ => False end.
Lemma alias_f_merge v args st r st' : hp_f_merge v args st = Ok (r, st') ->
  (hp_is_collection v /\ hp_top_fresh st r) \/ (~ hp_is_collection v /\ r = v).
Proof.
  intros H. destruct v; simpl hp_is_collection;
    try (right; split; [tauto|]; simpl in H; unfold hp_ret in H; inversion H; reflexivity);
    left; (split; [exact I|]); revert H; unfold hp_f_merge;
    match goal with |- ?m st = _ -> _ => assert (Hf : hM_fresh m) by fresh_go; apply Hf end.
Qed.

Lemma hp_slice_bounds_lt count start len a b : hp_slice_bounds count start len = Some (a, b) -> a < count.
Proof.
  unfold hp_slice_bounds. intros H.
  destruct (Z.ltb start 0) eqn:E1.
  - destruct (Z.ltb (Z.of_nat count + start) 0) eqn:E2.
    + destruct (Z.leb (Z.of_nat count) 0) eqn:E3; [discriminate|]. inversion H; subst. lia.
    + destruct (Z.leb (Z.of_nat count) (Z.of_nat count + start)) eqn:E3; [discriminate|]. inversion H; subst. lia.
  - destruct (Z.ltb start 0) eqn:E2; [discriminate|].
    destruct (Z.leb (Z.of_nat count) start) eqn:E3; [discriminate|]. inversion H; subst. lia.
Qed.

(* slice on the generic slice type: a window of the input array when the code says so, otherwise and for every
   typed slice a fresh object *)
Lemma alias_f_slice window v args st r st' : hp_f_slice window v args st = Ok (r, st') ->
  hp_top_fresh st r \/
  (window = true /\ exists arr off len cap a b, v = HvSlice LAny arr off len cap /\ a < len /\
                     r = HvSlice LAny arr (off + a) (b - a) (cap - a)).
Proof.
  intros H. unfold hp_f_slice in H.
  destruct v; try (left; revert H; match goal with |- ?m st = _ -> _ => assert (Hf : hM_fresh m) by fresh_go; apply Hf end).
  destruct args as [|a0 rest]; [discriminate|].
  destruct (hp_arg_int a0) as [start|]; [|discriminate].
  destruct (match rest with [] => Some None | HvNull :: _ => Some None | HvInt l :: _ => Some (Some l) | _ => None end) as [olen|]; [|discriminate].
  destruct tag.
  - destruct (hp_slice_bounds len start olen) as [[a b]|] eqn:Eb.
    + destruct window.
      * right. unfold hp_ret in H. inversion H; subst. split; [reflexivity|]. exists arr, off, len, cap, a, b. split; [reflexivity|]. split; [|reflexivity].
        eapply hp_slice_bounds_lt. exact Eb.
      * left. revert H. match goal with |- ?m st = _ -> _ => assert (Hf : hM_fresh m) by fresh_go; apply Hf end.
    + left. revert H. match goal with |- ?m st = _ -> _ => assert (Hf : hM_fresh m) by fresh_go; apply Hf end.
  - left. revert H. match goal with |- ?m st = _ -> _ => assert (Hf : hM_fresh m) by fresh_go; apply Hf end.
  - left. revert H. match goal with |- ?m st = _ -> _ => assert (Hf : hM_fresh m) by fresh_go; apply Hf end.
  - left. revert H. match goal with |- ?m st = _ -> _ => assert (Hf : hM_fresh m) by fresh_go; apply Hf end.
Qed.

(* default and raw return the input or the argument itself *)
Lemma alias_f_default v args st r st' : hp_f_default v args st = Ok (r, st') -> r = v \/ exists d rest, args = d :: rest /\ r = d.
Proof.
  intros H. unfold hp_f_default in H. destruct args as [|d rest].
  - unfold hp_ret in H. inversion H. left. reflexivity.
  - unfold hp_reader in H. destruct (hp_is_empty st v) as [[|]|]; try discriminate; inversion H; subst; [right; eauto|left; reflexivity].
Qed.

(* first and last return an element itself: a nested list or map is shared with the input, not copied *)
Lemma alias_f_first v st r st' : hp_f_first v st = Ok (r, st') ->
  hp_scalar r \/ (exists xs, hp_elems st v = Some xs /\ In r xs) \/
  (exists t m kvs, v = HvMap t m /\ hp_map_entries st m = Some kvs /\ In r (map snd kvs)).
Proof.
  intros H. unfold hp_f_first, hp_reader in H.
  destruct v; try discriminate.
  - inversion H. left. exact I.
  - destruct s as [|c s]; [inversion H; left; exact I|]. destruct (hp_is_ascii c); [|discriminate]. inversion H. left. exact I.
  - destruct (hp_elems st (HvSlice tag arr off len cap)) as [[|x xs]|] eqn:E; try discriminate; inversion H; subst.
    + left. exact I.
    + right. left. exists (r :: xs). split; [reflexivity|left; reflexivity].
  - destruct (hp_map_entries st m) as [kvs|] eqn:E; [|discriminate].
    destruct (hp_sorted_entries kvs) as [[|[k x] es]|] eqn:Es; try discriminate; inversion H; subst.
    + left. exact I.
    + right. right. exists tag, m, kvs. split; [reflexivity|]. split; [exact E|].
      unfold hp_sorted_entries in Es. destruct (hp_keyed kvs) as [l|] eqn:Ek; [|discriminate]. inversion Es as [Es'].
      (* the sorted entries are a rearrangement of the entries *)
      assert (Hin : forall A (l0 : list (bytes * A)) y, In y (hp_sort_by l0) -> In y l0).
      { intros A. assert (Hins : forall k0 a0 (l1 : list (bytes * A)) y, In y (hp_insert_by k0 a0 l1) -> y = (k0, a0) \/ In y l1).
        { intros k0 a0. induction l1 as [|[k1 a1] l1 IH]; intros y Hy; simpl in Hy.
          - destruct Hy as [Hy|[]]. left. symmetry. exact Hy.
          - destruct (hp_bytes_ltb k1 k0).
            + destruct Hy as [Hy|Hy]; [right; left; exact Hy|]. destruct (IH _ Hy) as [Hy'|Hy']; [left; exact Hy'|right; right; exact Hy'].
            + destruct Hy as [Hy|Hy]; [left; symmetry; exact Hy|right; exact Hy]. }
        induction l0 as [|[k1 a1] l0 IH]; intros y Hy; simpl in Hy; [contradiction|].
        destruct (Hins _ _ _ _ Hy) as [Hy'|Hy']; [left; symmetry; exact Hy'|right; apply IH; exact Hy']. }
      assert (Hk : forall kvs0 l0, hp_keyed kvs0 = Some l0 -> forall y, In y (map snd l0) -> In y kvs0).
      { induction kvs0 as [|[k1 v1] kvs0 IH]; intros l0 Hl y Hy; simpl in Hl.
        - inversion Hl; subst. contradiction.
        - destruct (hp_key_string k1); [|discriminate]. destruct (hp_keyed kvs0) as [l1|]; [|discriminate]. inversion Hl; subst.
          simpl in Hy. destruct Hy as [Hy|Hy]; [left; exact Hy|right; eapply IH; [reflexivity|exact Hy]]. }
      assert (Hx : In (k, r) (map snd (hp_stable_sort l))) by (rewrite Es'; left; reflexivity).
      apply in_map_iff in Hx. destruct Hx as [[s0 kv] [Hs Hx]]. simpl in Hs. subst kv.
      apply Hin in Hx. apply in_map_iff. exists (k, r). split; [reflexivity|].
      eapply Hk; [exact Ek|]. apply in_map_iff. exists (s0, (k, r)). split; [reflexivity|exact Hx].
  - destruct (hp_elems st (HvArr tag xs)) as [[|x xs']|] eqn:E; try discriminate; inversion H; subst.
    + left. exact I.
    + right. left. exists (r :: xs'). split; [reflexivity|left; reflexivity].
Qed.

(* ------------------------------------------------------------------------------------------------ *)
(* the tie to the source text: Gen/FilterWrites.v, regenerated from the working tree on every run       *)

Definition hp_site_eqb (a b : bytes * bytes * bytes) : bool :=
  match a, b with (f1, k1, t1), (f2, k2, t2) => bytes_eqb f1 f2 && bytes_eqb k1 k2 && bytes_eqb t1 t2 end.

(* The hand-justified suspicious statements (function, kind, target). Each entry says why the write cannot reach
   the data of the caller.
   - functionCycle, values[i] = firstArgVal.Index(i).Interface(): the analysis is flow-insensitive; values is assigned
     args[:len(args)-1] and args in the else branch, but the indexed assignment stands in the branch that has just
     assigned values = make([]interface{}, firstArgVal.Len()), so it fills the new slice.
   - filterFormat, args[i] = cyclicValueText: the statement directly before it in the same branch rebinds args to
     append([]interface{}(nil), args...), a private copy of the variadic slice, so the indexed assignment fills the copy. *)
Definition hp_fw_justified : list (bytes * bytes * bytes) :=
  [ (b#"CoreExtension.functionCycle", b#"index-assign", b#"values[i]");
    (b#"CoreExtension.filterFormat", b#"index-assign", b#"args[i]") ].

(* the functions the model speaks about must have been scanned *)
Definition hp_fw_must_scan : list bytes :=
  [ b#"CoreExtension.filterDefault"; b#"CoreExtension.filterRaw"; b#"CoreExtension.filterLength"; b#"CoreExtension.filterJoin";
    b#"CoreExtension.filterSplit"; b#"CoreExtension.filterFirst"; b#"CoreExtension.filterLast"; b#"CoreExtension.filterReverse";
    b#"CoreExtension.filterSlice"; b#"CoreExtension.filterSort"; b#"CoreExtension.filterKeys"; b#"CoreExtension.filterMerge";
    b#"CoreExtension.filterUpper"; b#"CoreExtension.filterLower";
    b#"CoreExtension.functionRange"; b#"CoreExtension.functionMerge"; b#"CoreExtension.functionCycle"; b#"CoreExtension.functionLength";
    b#"NewRenderContext"; b#"RenderContext.SetVariable"; b#"RenderContext.ApplyFilter"; b#"RenderContext.getItem"; b#"RenderContext.getAttribute";
    b#"RenderContext.EvaluateExpression"; b#"ForNode.Render"; b#"ForNode.renderForLoop"; b#"SetNode.Render"; b#"IncludeNode.Render";
    b#"MacroNode.CallMacro"; b#"PrintNode.Render"; b#"IfNode.Render"; b#"join"; b#"sortedMapKeys"; b#"length"; b#"isEmptyValue" ].

Definition hp_fw_obligation : bool :=
  forallb (fun s => existsb (hp_site_eqb s) hp_fw_justified) fw_suspicious
  && forallb (fun f => existsb (bytes_eqb f) fw_scanned) hp_fw_must_scan
  && fw_newctx_copies && bytes_eqb fw_setvar_target b#"ctx.context" && fw_clone_fresh_map && fw_shape_ok.

Lemma C18_code_shape_proof : hp_fw_obligation = true.
Proof. vm_compute. reflexivity. Qed.

(* ------------------------------------------------------------------------------------------------ *)
(* witnesses                                                                                          *)

(* a context { xs: [3, 1, 2] with two spare slots } *)
Definition hp_w_heap : hp_heap :=
  [ HoArr [HvInt 3; HvInt 1; HvInt 2; HvNull; HvNull];
    HoMap [(HvStr b#"xs", HvSlice LAny (HlOld 0) 0 3 5)] ].

(* {% set s = xs|slice(0, 2) %}{{ verif_poke(s) }} and the same with sort *)
Definition hp_w_tpl (filter : bytes) (args : list expr) : hp_tplset :=
  [ (b#"main", [ NSet b#"s" (EFilter (EVar b#"xs") filter args); NPrint (ECall b#"verif_poke" [EVar b#"s"]) ]) ].

(* slice on []interface{} is no private copy: a callback that writes to the RESULT of slice (its first element, and one
   appended element) writes to the list of the caller -- the appended element even lands on xs[2], beyond the result *)
Lemma C18_slice_private_copy_refuted_proof :
  fw_slice_window = true ->
  exists h', render_heap_poke 20 (hp_w_tpl b#"slice" [ELit (LInt 0); ELit (LInt 2)]) b#"main" 1 hp_w_heap = Ok ([], h') /\
             nth_error h' 0 = Some (HoArr [hp_poke_mark; HvInt 1; hp_poke_mark; HvNull; HvNull]) /\ h' <> hp_w_heap.
Proof.
  intros Hw. unfold render_heap_poke. rewrite Hw. eexists. split; [vm_compute; reflexivity|].
  split; [reflexivity|]. intros E. discriminate E.
Qed.

(* the same callback on the result of sort, reverse or merge touches nothing of the caller *)
Lemma C18_sort_private_copy_witness_proof :
  render_heap_poke 20 (hp_w_tpl b#"sort" []) b#"main" 1 hp_w_heap = Ok ([], hp_w_heap) /\
  render_heap_poke 20 (hp_w_tpl b#"reverse" []) b#"main" 1 hp_w_heap = Ok ([], hp_w_heap) /\
  render_heap_poke 20 (hp_w_tpl b#"merge" [EArr [ELit (LInt 7)]]) b#"main" 1 hp_w_heap = Ok ([], hp_w_heap).
Proof. unfold render_heap_poke. destruct fw_slice_window; vm_compute; repeat split; reflexivity. Qed.

(* the frame statement can fail in this heap model: a sort that works in place (as a callback) breaks it *)
Definition hp_u_sort_inplace (args : list hpval) : hpM hpval :=
  match args with
  | [HvSlice LAny arr off len cap] =>
      hdo o <- hp_read arr;
      match o with
      | HoArr xs =>
          hdo sorted <- hp_reado (fun st => match hp_sort_keys st (firstn len (skipn off xs)) with
                                            | Some l => Some (map snd (hp_stable_sort l)) | None => None end);
          hdo _ <- hp_put arr (HoArr (firstn off xs ++ sorted ++ skipn (off + len) xs));
          hp_ret (HvSlice LAny arr off len cap)
      | _ => hp_unmodelled
      end
  | _ => hp_unmodelled
  end.
Definition hp_user_mutant : hp_user := fun name => if bytes_eqb name b#"sort_in_place" then Some hp_u_sort_inplace else None.

Lemma C18_frame_is_falsifiable_proof :
  exists out h', hp_render_with true hp_user_mutant 20
                   [(b#"main", [NPrint (EFilter (ECall b#"sort_in_place" [EVar b#"xs"]) b#"join" [ELit (LStr b#",")])])] b#"main" 1 hp_w_heap
                 = Ok (out, h') /\ out = b#"1,2,3" /\ h' <> hp_w_heap.
Proof. eexists. eexists. split; [vm_compute; reflexivity|]. split; [reflexivity|]. intros E. discriminate E. Qed.

(* the aliasing class of every filter of the fragment, as one statement *)
Definition hp_alias_classes_stmt : Prop :=
  forall window v args st r st',
    (* fresh object or scalar *)
    (forall f, In f [HfReverse; HfKeys; HfSplit; HfJoin; HfLength; HfUpper; HfLower] ->
               hp_filter_run window f v args st = Ok (r, st') -> hp_top_fresh st r) /\
    (* sort: fresh, an empty generic list is returned itself *)
    (hp_filter_run window HfSort v args st = Ok (r, st') ->
       hp_top_fresh st r \/ (r = v /\ exists arr off cap, v = HvSlice LAny arr off 0 cap)) /\
    (* merge: fresh on collections, the input itself otherwise *)
    (hp_filter_run window HfMerge v args st = Ok (r, st') ->
       (hp_is_collection v /\ hp_top_fresh st r) \/ (~ hp_is_collection v /\ r = v)) /\
    (* slice: a window of the array of the input for the generic slice type when the code does v[a:b], fresh otherwise *)
    (hp_filter_run window HfSlice v args st = Ok (r, st') ->
       hp_top_fresh st r \/
       (window = true /\ exists arr off len cap a b, v = HvSlice LAny arr off len cap /\ a < len /\
                          r = HvSlice LAny arr (off + a) (b - a) (cap - a))) /\
    (* default, raw: the input or the argument itself *)
    (hp_filter_run window HfDefault v args st = Ok (r, st') -> r = v \/ exists d rest, args = d :: rest /\ r = d) /\
    (hp_filter_run window HfRaw v args st = Ok (r, st') -> r = v) /\
    (* first: an element itself *)
    (hp_filter_run window HfFirst v args st = Ok (r, st') ->
       hp_scalar r \/ (exists xs, hp_elems st v = Some xs /\ In r xs) \/
       (exists t m kvs, v = HvMap t m /\ hp_map_entries st m = Some kvs /\ In r (map snd kvs))).


(* hp_filter_run on each name, as equations (used by rewriting, so that no proof term depends on the order in which
   the conversion test unfolds constants) *)
Lemma hp_run_reverse w v args st : hp_filter_run w HfReverse v args st = hp_f_reverse v st. Proof. reflexivity. Qed.
Lemma hp_run_keys w v args st : hp_filter_run w HfKeys v args st = hp_f_keys v st. Proof. reflexivity. Qed.
Lemma hp_run_split w v args st : hp_filter_run w HfSplit v args st = hp_f_split v args st. Proof. reflexivity. Qed.
Lemma hp_run_join w v args st : hp_filter_run w HfJoin v args st = hp_f_join v args st. Proof. reflexivity. Qed.
Lemma hp_run_length w v args st : hp_filter_run w HfLength v args st = hp_f_length v st. Proof. reflexivity. Qed.
Lemma hp_run_upper w v args st : hp_filter_run w HfUpper v args st = hp_f_case true v st. Proof. reflexivity. Qed.
Lemma hp_run_lower w v args st : hp_filter_run w HfLower v args st = hp_f_case false v st. Proof. reflexivity. Qed.
Lemma hp_run_sort w v args st : hp_filter_run w HfSort v args st = hp_f_sort v st. Proof. reflexivity. Qed.
Lemma hp_run_merge w v args st : hp_filter_run w HfMerge v args st = hp_f_merge v args st. Proof. reflexivity. Qed.
Lemma hp_run_slice w v args st : hp_filter_run w HfSlice v args st = hp_f_slice w v args st. Proof. reflexivity. Qed.
Lemma hp_run_default w v args st : hp_filter_run w HfDefault v args st = hp_f_default v args st. Proof. reflexivity. Qed.
Lemma hp_run_raw w v args st : hp_filter_run w HfRaw v args st = hp_ret v st. Proof. reflexivity. Qed.
Lemma hp_run_first w v args st : hp_filter_run w HfFirst v args st = hp_f_first v st. Proof. reflexivity. Qed.

Lemma C18_alias_classes_proof : hp_alias_classes_stmt.
Proof.
  intros window v args st r st'.
  split; [|split; [|split; [|split; [|split; [|split]]]]].
  - intros f Hf H.
    destruct Hf as [E|[E|[E|[E|[E|[E|[E|[]]]]]]]]; subst f.
    + rewrite hp_run_reverse in H. revert H. apply fresh_f_reverse.
    + rewrite hp_run_keys in H. revert H. apply fresh_f_keys.
    + rewrite hp_run_split in H. revert H. apply fresh_f_split.
    + rewrite hp_run_join in H. revert H. apply fresh_f_join.
    + rewrite hp_run_length in H. revert H. apply fresh_f_length.
    + rewrite hp_run_upper in H. revert H. apply fresh_f_case.
    + rewrite hp_run_lower in H. revert H. apply fresh_f_case.
  - rewrite hp_run_sort. apply alias_f_sort.
  - rewrite hp_run_merge. apply alias_f_merge.
  - rewrite hp_run_slice. apply alias_f_slice.
  - rewrite hp_run_default. apply alias_f_default.
  - rewrite hp_run_raw. unfold hp_ret. intros H. inversion H. reflexivity.
  - rewrite hp_run_first. apply alias_f_first.
Qed.
