(* Proofs of property C10 (Spec/InheritSpec.v) about the evaluator model (Model/Eval.v).
   Part A: the static walk collectBlocks (ts_blocks): unfoldings, closure under descent, the table of definitions
           that RootNode.Render accumulates along the chain is inh_defs.
   Part B: frame: rendering any node list leaves blockChain, currentBlock, currentDefs, blockDepth and the
           template of the context as they were.
   Part C: the body renderer refines the specification under the invariant (table = D, position consistent).
   Part D: the root renderer refines the walk; the theorem about Engine.Render.
   Part E: the sentences of the property one by one. *)
From Twig Require Import Base.Bytes Base.Utf8 Model.Ast Model.Value Model.ValueOps Model.EvalBuiltins Model.Ctx
                         Model.TemplateSet Model.Eval Spec.ControlSpec Spec.InheritSpec Proofs.EvalProofs.
From Coq Require Import ZifyBool ZifyNat ZifyN.

(* ================================================================ Part A *)

(* ---- induction over nodes that reaches the bodies *)
Section InhNodeInd.
  Variable P : node -> Prop.
  Definition inh_PO (o : option (list node)) : Prop := match o with Some b => Forall P b | None => True end.
  Hypothesis HText : forall s, P (NText s).
  Hypothesis HPrint : forall e, P (NPrint e).
  Hypothesis HIf : forall brs els, Forall (fun br => Forall P (snd br)) brs -> inh_PO els -> P (NIf brs els).
  Hypothesis HFor : forall k v s body els, Forall P body -> inh_PO els -> P (NFor k v s body els).
  Hypothesis HSet : forall x e, P (NSet x e).
  Hypothesis HDo : forall e, P (NDo e).
  Hypothesis HBlock : forall name body, Forall P body -> P (NBlock name body).
  Hypothesis HExtends : forall e, P (NExtends e).
  Hypothesis HInclude : forall e w i o s, P (NInclude e w i o s).
  Hypothesis HMacro : forall name ps body, Forall P body -> P (NMacro name ps body).
  Hypothesis HImport : forall e a, P (NImport e a).
  Hypothesis HFrom : forall e ns, P (NFrom e ns).
  Hypothesis HVerbatim : forall s, P (NVerbatim s).
  Hypothesis HApply : forall f args body, Forall P body -> P (NApply f args body).
  Hypothesis HSpaceless : forall body, Forall P body -> P (NSpaceless body).

  Fixpoint inh_node_ind (n : node) : P n :=
    let fix go (l : list node) : Forall P l :=
      match l with
      | [] => Forall_nil P
      | x :: r => Forall_cons x (inh_node_ind x) (go r)
      end in
    let fix gob (l : list (expr * list node)) : Forall (fun br => Forall P (snd br)) l :=
      match l with
      | [] => Forall_nil _
      | (e, b) :: r => Forall_cons (e, b) (go b) (gob r)
      end in
    let goo (o : option (list node)) : inh_PO o :=
      match o as o' return inh_PO o' with Some b => go b | None => I end in
    match n with
    | NText s => HText s
    | NPrint e => HPrint e
    | NIf brs els => HIf brs els (gob brs) (goo els)
    | NFor k v s body els => HFor k v s body els (go body) (goo els)
    | NSet x e => HSet x e
    | NDo e => HDo e
    | NBlock name body => HBlock name body (go body)
    | NExtends e => HExtends e
    | NInclude e w i o s => HInclude e w i o s
    | NMacro name ps body => HMacro name ps body (go body)
    | NImport e a => HImport e a
    | NFrom e ns => HFrom e ns
    | NVerbatim s => HVerbatim s
    | NApply f args body => HApply f args body (go body)
    | NSpaceless body => HSpaceless body (go body)
    end.
End InhNodeInd.

(* ---- what collectBlocks finds, node kind by node kind *)
Lemma inh_blocks_go (l : list node) :
  (fix go (l : list node) : list (bytes * list node) :=
     match l with [] => [] | x :: r => ts_blocks_node x ++ go r end) l = ts_blocks l.
Proof.
  induction l as [|x r IH]; [reflexivity|].
  change (ts_blocks (x :: r)) with (ts_blocks_node x ++ ts_blocks r). rewrite <- IH. reflexivity.
Qed.

Definition inh_opt_blocks (o : option (list node)) : list (bytes * list node) :=
  match o with Some b => ts_blocks b | None => [] end.

Lemma inh_blocks_block name body : ts_blocks_node (NBlock name body) = (name, body) :: ts_blocks body.
Proof. reflexivity. Qed.

Lemma inh_blocks_if brs els :
  ts_blocks_node (NIf brs els) = flat_map (fun br => ts_blocks (snd br)) brs ++ inh_opt_blocks els.
Proof.
  cbn [ts_blocks_node]. f_equal.
  induction brs as [|[e b] r IH]; [reflexivity|]. cbn [flat_map snd]. rewrite <- IH. reflexivity.
Qed.

Lemma inh_blocks_for k v s body els :
  ts_blocks_node (NFor k v s body els) = ts_blocks body ++ inh_opt_blocks els.
Proof. destruct els; reflexivity. Qed.

Lemma inh_blocks_apply f args body : ts_blocks_node (NApply f args body) = ts_blocks body.
Proof. reflexivity. Qed.

Lemma inh_blocks_spaceless body : ts_blocks_node (NSpaceless body) = ts_blocks body.
Proof. reflexivity. Qed.

Lemma inh_blocks_cons n rest : ts_blocks (n :: rest) = ts_blocks_node n ++ ts_blocks rest.
Proof. reflexivity. Qed.

Lemma inh_blocks_app l1 l2 : ts_blocks (l1 ++ l2) = ts_blocks l1 ++ ts_blocks l2.
Proof. unfold ts_blocks. apply flat_map_app. Qed.

(* ---- closure: the blocks inside the body of a collected block are collected too *)
Definition inh_closed_at (bl : list (bytes * list node)) : Prop :=
  forall b body, In (b, body) bl -> incl (ts_blocks body) bl.

Lemma inh_closed_app l1 l2 : inh_closed_at l1 -> inh_closed_at l2 -> inh_closed_at (l1 ++ l2).
Proof.
  intros H1 H2 b body Hin. apply in_app_or in Hin. destruct Hin as [Hin|Hin].
  - apply incl_appl. eapply H1. exact Hin.
  - apply incl_appr. eapply H2. exact Hin.
Qed.

Lemma inh_closed_nil : inh_closed_at [].
Proof. intros b body []. Qed.

Lemma inh_closed_list (l : list node) :
  Forall (fun n => inh_closed_at (ts_blocks_node n)) l -> inh_closed_at (ts_blocks l).
Proof.
  induction 1 as [|n r Hn _ IH]; [apply inh_closed_nil|].
  rewrite inh_blocks_cons. apply inh_closed_app; assumption.
Qed.

Lemma inh_closed_opt (o : option (list node)) :
  inh_PO (fun n => inh_closed_at (ts_blocks_node n)) o -> inh_closed_at (inh_opt_blocks o).
Proof. destruct o; cbn; [apply inh_closed_list|intros _; apply inh_closed_nil]. Qed.

Lemma inh_closed_node : forall n, inh_closed_at (ts_blocks_node n).
Proof.
  apply inh_node_ind; intros; try (apply inh_closed_nil).
  - rewrite inh_blocks_if. apply inh_closed_app; [|apply inh_closed_opt; assumption].
    induction H as [|[e b] r Hb _ IH]; [apply inh_closed_nil|].
    cbn [flat_map snd]. apply inh_closed_app; [apply inh_closed_list; exact Hb|exact IH].
  - rewrite inh_blocks_for. apply inh_closed_app; [apply inh_closed_list|apply inh_closed_opt]; assumption.
  - rewrite inh_blocks_block. intros b bd [E|Hin].
    + inversion E; subst. apply incl_tl. apply incl_refl.
    + apply incl_tl. eapply inh_closed_list; eassumption.
  - rewrite inh_blocks_apply. apply inh_closed_list. assumption.
  - rewrite inh_blocks_spaceless. apply inh_closed_list. assumption.
Qed.

Lemma inh_blocks_closed (ns : list node) : inh_closed_at (ts_blocks ns).
Proof. apply inh_closed_list. apply Forall_forall. intros n _. apply inh_closed_node. Qed.

(* ---- the table RootNode.Render accumulates is inh_defs *)
Definition inh_lookup (ch : list (bytes * list blockdef)) (b : bytes) : list blockdef :=
  match assoc_bytes ch b with Some ds => ds | None => [] end.

Lemma inh_lookup_append ch name d b :
  inh_lookup (ts_chain_append ch name d) b = inh_lookup ch b ++ (if bytes_eqb name b then [d] else []).
Proof.
  unfold inh_lookup. induction ch as [|[k ds] r IH]; cbn [ts_chain_append assoc_bytes].
  - destruct (bytes_eqb name b); reflexivity.
  - destruct (bytes_eqb k name) eqn:E; cbn [assoc_bytes].
    + apply bytes_eqb_eq in E. subst k. destruct (bytes_eqb name b); [reflexivity|rewrite app_nil_r; reflexivity].
    + destruct (bytes_eqb k b) eqn:E2; [|exact IH].
      apply bytes_eqb_eq in E2. subst k.
      destruct (bytes_eqb name b) eqn:E3; [|rewrite app_nil_r; reflexivity].
      apply bytes_eqb_eq in E3. subst name. rewrite bytes_eqb_refl in E. discriminate.
Qed.

Lemma inh_lookup_collect tpl : forall bl ch b,
  inh_lookup (fold_left (fun c0 nb => ts_chain_append c0 (fst nb) (MkBd tpl (snd nb))) bl ch) b
  = inh_lookup ch b ++ inh_defs_in (tpl, bl) b.
Proof.
  induction bl as [|[n body] r IH]; intros ch b; cbn [fold_left].
  - unfold inh_defs_in. cbn. rewrite app_nil_r. reflexivity.
  - rewrite IH, inh_lookup_append. cbn [fst snd]. rewrite <- app_assoc. f_equal.
    unfold inh_defs_in. cbn [snd fst filter]. destruct (bytes_eqb n b); reflexivity.
Qed.

Lemma inh_lookup_ts_collect tpl ns ch b :
  inh_lookup (ts_collect tpl ns ch) b = inh_lookup ch b ++ inh_defs_in (inh_level_of tpl ns) b.
Proof. unfold ts_collect, inh_level_of. apply inh_lookup_collect. Qed.

Lemma inh_defs_app ch1 ch2 b : inh_defs (ch1 ++ ch2) b = inh_defs ch1 b ++ inh_defs ch2 b.
Proof. unfold inh_defs. apply flat_map_app. Qed.

Lemma inh_defs_single l b : inh_defs [l] b = inh_defs_in l b.
Proof. unfold inh_defs. cbn. apply app_nil_r. Qed.

Lemma inh_defs_in_In l b d : In d (inh_defs_in l b) <-> exists body, d = MkBd (fst l) body /\ In (b, body) (snd l).
Proof.
  unfold inh_defs_in. rewrite in_map_iff. split.
  - intros [[n body] [E Hin]]. apply filter_In in Hin. destruct Hin as [Hin Hb]. cbn in *.
    apply bytes_eqb_eq in Hb. subst n. exists body. split; [symmetry; exact E|exact Hin].
  - intros [body [E Hin]]. exists (b, body). split; [symmetry; exact E|].
    apply filter_In. split; [exact Hin|apply bytes_eqb_refl].
Qed.

Lemma inh_defs_In ch b d :
  In d (inh_defs ch b) <-> exists l body, In l ch /\ d = MkBd (fst l) body /\ In (b, body) (snd l).
Proof.
  unfold inh_defs. rewrite in_flat_map. split.
  - intros [l [Hl Hd]]. apply inh_defs_in_In in Hd. destruct Hd as [body [E Hin]]. exists l, body. auto.
  - intros [l [body [Hl [E Hin]]]]. exists l. split; [exact Hl|]. apply inh_defs_in_In. exists body. auto.
Qed.

(* ================================================================ Part B: frame *)
Definition inh_ctx_of (r : ev_rres) : rctx := snd (fst r).

Definition inh_frame (c c' : rctx) : Prop :=
  rc_chain c' = rc_chain c /\ rc_cur_block c' = rc_cur_block c /\ rc_cur_defs c' = rc_cur_defs c /\
  rc_depth c' = rc_depth c /\ rc_tpl c' = rc_tpl c.

Lemma inh_frame_refl c : inh_frame c c.
Proof. repeat split. Qed.

Lemma inh_frame_trans c1 c2 c3 : inh_frame c1 c2 -> inh_frame c2 c3 -> inh_frame c1 c3.
Proof. unfold inh_frame. intros (A1 & A2 & A3 & A4 & A5) (B1 & B2 & B3 & B4 & B5). repeat split; congruence. Qed.

Lemma inh_frame_set_var c x v : inh_frame c (rc_set_var c x v).
Proof. repeat split. Qed.

Lemma inh_frame_macros c ms : inh_frame c (rc_with_macros c ms).
Proof. repeat split. Qed.

Lemma inh_frame_extending c b : inh_frame c (rc_with_extending c b).
Proof. repeat split. Qed.

Lemma inh_frame_iter c k v n i it : inh_frame c (ev_iter_ctx c k v n i it).
Proof. unfold ev_iter_ctx. destruct k; repeat split. Qed.

Lemma inh_frame_rseq c r k :
  inh_frame c (inh_ctx_of r) -> (forall c1, inh_frame c1 (inh_ctx_of (k c1))) ->
  inh_frame c (inh_ctx_of (ev_rseq r k)).
Proof.
  intros Hr Hk. destruct r as [[o c1] t1]. destruct o; cbn [ev_rseq]; try exact Hr.
  specialize (Hk c1). destruct (k c1) as [[o2 c2] t2]. cbn in *.
  destruct o2; cbn; eapply inh_frame_trans; eassumption.
Qed.

Lemma inh_frame_rexpr {A} c (r : outcome A * ev_trace) k :
  (forall a, inh_frame c (inh_ctx_of (k a))) -> inh_frame c (inh_ctx_of (ev_rexpr r c k)).
Proof.
  intro Hk. destruct r as [o t]. destruct o; cbn [ev_rexpr]; try apply inh_frame_refl.
  specialize (Hk a). destruct (k a) as [[o2 c2] t2]. exact Hk.
Qed.

Section Frame.
  Variable rend : rctx -> list node -> ev_rres.
  Hypothesis Hrend : forall c ns, inh_frame c (inh_ctx_of (rend c ns)).
  Variable root : rctx -> list node -> ev_rres.
  Variable ev : rctx -> expr -> ev_res.
  Variable env : ev_env.

  Lemma inh_frame_opt c (els : option (list node)) :
    inh_frame c (inh_ctx_of (match els with Some b => rend c b | None => ev_rret [] c end)).
  Proof. destruct els; [apply Hrend|apply inh_frame_refl]. Qed.

  Lemma inh_frame_if c bs els : inh_frame c (inh_ctx_of (ev_if ev rend c bs els)).
  Proof.
    induction bs as [|[cond body] rest IH]; cbn [ev_if]; [apply inh_frame_opt|].
    apply inh_frame_rexpr. intro v. destruct (vo_to_bool v); [apply Hrend|exact IH].
  Qed.

  Lemma inh_frame_loop_items (body : rctx -> ev_rres) k v n :
    (forall c, inh_frame c (inh_ctx_of (body c))) ->
    forall items i c, inh_frame c (inh_ctx_of (ev_loop_items body k v n i items c)).
  Proof.
    intro Hb. induction items as [|it rest IH]; intros i c; cbn [ev_loop_items]; [apply inh_frame_refl|].
    apply inh_frame_rseq.
    - eapply inh_frame_trans; [apply inh_frame_iter|apply Hb].
    - intro c1. apply IH.
  Qed.

  Lemma inh_frame_for_loop c k v seq body els : inh_frame c (inh_ctx_of (ev_for_loop rend c k v seq body els)).
  Proof.
    unfold ev_for_loop. destruct (ev_loop_items_of seq) as [[|it items]|]; try apply inh_frame_opt.
    pose proof (inh_frame_loop_items (fun c0 => rend c0 body) k v (Z.of_nat (length (it :: items)))
                  (fun c0 => Hrend c0 body) (it :: items) 0%Z c) as F.
    destruct (ev_loop_items _ k v _ 0%Z (it :: items) c) as [[r c'] t]. cbn in F |- *.
    match goal with |- context [match ?x with Some _ => _ | None => _ end] => destruct x end; [|exact F].
    eapply inh_frame_trans; [exact F|apply inh_frame_set_var].
  Qed.

  Lemma inh_frame_parent_call c : inh_frame c (inh_ctx_of (ev_parent_call rend c)).
  Proof.
    unfold ev_parent_call. destruct (rc_cur_block c); [|apply inh_frame_refl].
    destruct (nth_error (rc_cur_defs c) (S (rc_depth c))) as [d|]; [|apply inh_frame_refl].
    pose proof (Hrend (rc_with_depth c (S (rc_depth c)) (bd_tpl d)) (bd_body d)) as F.
    destruct (rend _ (bd_body d)) as [[r c'] t]. cbn in F |- *.
    destruct F as (F1 & F2 & F3 & F4 & F5). cbn in F1, F2, F3, F4, F5.
    repeat split; cbn; try assumption. apply Nat.sub_0_r.
  Qed.

  Lemma inh_frame_print c e : inh_frame c (inh_ctx_of (ev_print ev rend env c e)).
  Proof.
    unfold ev_print. apply inh_frame_rexpr. intro v. destruct (vo_view v); try apply inh_frame_refl;
      try (destruct (vo_to_str v); apply inh_frame_refl).
    - destruct (ev_call_macro ev rend env c tpl name args). apply inh_frame_refl.
    - apply inh_frame_parent_call.
  Qed.

  Lemma inh_frame_block c name body : inh_frame c (inh_ctx_of (ev_block rend c name body)).
  Proof.
    unfold ev_block. destruct (if existsb _ _ then _ else _) as [|d ds] eqn:E; [apply inh_frame_refl|].
    match goal with |- context [rend ?cc ?bb] => pose proof (Hrend cc bb) as F; destruct (rend cc bb) as [[r c'] t] end.
    cbn in F |- *. destruct F as (F1 & F2 & F3 & F4 & F5). cbn in F1. repeat split; cbn; assumption.
  Qed.

  Lemma inh_frame_extends c e : inh_frame c (inh_ctx_of (ev_extends ev root env c e)).
  Proof.
    unfold ev_extends. eapply inh_frame_trans; [apply (inh_frame_extending c true)|].
    apply inh_frame_rexpr. intros [name [pnodes|]]; cbn [fst snd]; [|apply inh_frame_refl].
    destruct (root _ pnodes) as [[r c'] t]. apply inh_frame_refl.
  Qed.

  Lemma inh_frame_include c e withs ign only sb : inh_frame c (inh_ctx_of (ev_include ev root env c e withs ign only sb)).
  Proof.
    unfold ev_include. apply inh_frame_rexpr. intros [name [inodes|]]; cbn [fst snd].
    2:{ destruct ign; apply inh_frame_refl. }
    destruct (match withs with None => _ | Some _ => _ end) as [kvs|]; [|apply inh_frame_refl].
    destruct (negb only && negb sb).
    - apply inh_frame_rexpr. intro ic. destruct (root ic inodes) as [[r c'] t]. apply inh_frame_refl.
    - destruct (sb && _); [apply inh_frame_refl|].
      apply inh_frame_rexpr. intro ic. destruct (root ic inodes) as [[r c'] t]. apply inh_frame_refl.
  Qed.

  Lemma inh_frame_import c e alias : inh_frame c (inh_ctx_of (ev_import ev root env c e alias)).
  Proof.
    unfold ev_import. destruct (ev_import_macros ev root env c e) as [[o c1] t].
    destruct o; cbn; try apply inh_frame_refl. apply inh_frame_set_var.
  Qed.

  Lemma inh_frame_from_names ms : forall names c c', ev_from_names ms names c = Ok c' -> inh_frame c c'.
  Proof.
    induction names as [|[m alias] r IH]; intros c c' H; cbn [ev_from_names] in H.
    - inversion H. apply inh_frame_refl.
    - destruct (assoc_bytes ms m); [|discriminate].
      eapply inh_frame_trans; [apply inh_frame_macros|apply IH; exact H].
  Qed.

  Lemma inh_frame_from c e names : inh_frame c (inh_ctx_of (ev_from ev root env c e names)).
  Proof.
    unfold ev_from. destruct (ev_import_macros ev root env c e) as [[o c1] t].
    destruct o; cbn; try apply inh_frame_refl.
    destruct (negb (ts_no_dup (map fst names))); [apply inh_frame_refl|].
    destruct (ev_from_names a names c) eqn:E; cbn; try apply inh_frame_refl.
    eapply inh_frame_from_names. exact E.
  Qed.

  Lemma inh_frame_apply c f args body : inh_frame c (inh_ctx_of (ev_apply ev rend env c f args body)).
  Proof.
    unfold ev_apply. pose proof (Hrend c body) as F. destruct (rend c body) as [[o c1] t1].
    destruct o; try exact F.
    destruct (ev_bind _ _) as [o2 t2]. destruct o2; exact F.
  Qed.

  Lemma inh_frame_spaceless c body : inh_frame c (inh_ctx_of (ev_spaceless rend env c body)).
  Proof.
    unfold ev_spaceless. pose proof (Hrend c body) as F. destruct (rend c body) as [[o c1] t1].
    destruct o; try exact F.
    destruct (ev_apply_filter _ _ _ _ _) as [o2 t2]. destruct o2; try exact F.
  Qed.

  Lemma inh_frame_node c n : inh_frame c (inh_ctx_of (render_node ev rend root env c n)).
  Proof.
    destruct n; cbn [render_node]; try apply inh_frame_refl.
    - apply inh_frame_print.
    - apply inh_frame_if.
    - unfold ev_for. apply inh_frame_rexpr. intro sv. apply inh_frame_for_loop.
    - unfold ev_set. apply inh_frame_rexpr. intro v. destruct (ev_set_guard c v); [apply inh_frame_refl|apply inh_frame_set_var].
    - apply inh_frame_rexpr. intros _. apply inh_frame_refl.
    - apply inh_frame_block.
    - apply inh_frame_extends.
    - apply inh_frame_include.
    - apply inh_frame_macros.
    - apply inh_frame_import.
    - apply inh_frame_from.
    - apply inh_frame_apply.
    - apply inh_frame_spaceless.
  Qed.
End Frame.

Lemma inh_render_frame : forall fuel env c ns, inh_frame c (inh_ctx_of (render fuel env c ns)).
Proof.
  induction fuel as [|fu IH]; intros env c ns; [apply inh_frame_refl|].
  destruct ns as [|n rest]; [apply inh_frame_refl|]. cbn [render].
  apply inh_frame_rseq; [|intro c1; apply IH].
  apply inh_frame_node. intros c0 ns0. apply IH.
Qed.

(* ================================================================ Part C: the body renderer *)
(* the invariant of a context of the inheriting world: the table the engine carries is D, and the definitions
   recorded for the block being rendered are the table's *)
Definition inh_inv (D : bytes -> list blockdef) (c : rctx) : Prop :=
  (forall b, ev_chain_defs c b = D b) /\ (forall b, rc_cur_block c = Some b -> rc_cur_defs c = D b).
(* every block of the node list ns, which stands in template tpl, is a definition of the table *)
Definition inh_cov (D : bytes -> list blockdef) (tpl : bytes) (bl : list (bytes * list node)) : Prop :=
  forall b body, In (b, body) bl -> In (MkBd tpl body) (D b).
(* so is every block inside a definition of the table *)
Definition inh_closed (D : bytes -> list blockdef) : Prop :=
  forall b d, In d (D b) -> inh_cov D (bd_tpl d) (ts_blocks (bd_body d)).

Lemma inh_inv_frame D c c' : inh_frame c c' -> inh_inv D c -> inh_inv D c'.
Proof.
  intros (F1 & F2 & F3 & F4 & F5) [I1 I2]. split.
  - intro b. unfold ev_chain_defs. rewrite F1. apply I1.
  - intros b Hb. rewrite F3. apply I2. rewrite <- F2. exact Hb.
Qed.

Lemma inh_cov_app D tpl l1 l2 : inh_cov D tpl (l1 ++ l2) <-> inh_cov D tpl l1 /\ inh_cov D tpl l2.
Proof.
  unfold inh_cov. split.
  - intro H. split; intros b body Hin; apply H; apply in_or_app; auto.
  - intros [H1 H2] b body Hin. apply in_app_or in Hin. destruct Hin; auto.
Qed.

(* levels whose block lists are closed under descent: every level made by inh_level_of *)
Definition inh_chain_ok (ch : inh_chain) : Prop := forall l, In l ch -> inh_closed_at (snd l).

Lemma inh_defs_closed ch : inh_chain_ok ch -> inh_closed (inh_defs ch).
Proof.
  intros Hok b d Hd b2 body2 Hin. apply inh_defs_In in Hd. destruct Hd as [l [body [Hl [E Hb]]]]. subst d. cbn in *.
  apply inh_defs_In. exists l, body2. split; [exact Hl|]. split; [reflexivity|].
  eapply Hok; eassumption.
Qed.

Lemma inh_chain_ok_app ch tpl ns : inh_chain_ok ch -> inh_chain_ok (ch ++ [inh_level_of tpl ns]).
Proof.
  intros H l Hl. apply in_app_or in Hl. destruct Hl as [Hl|[<-|[]]]; [apply H; exact Hl|].
  apply inh_blocks_closed.
Qed.

Lemma ev_rseq_ext_at (r : ev_rres) (k1 k2 : rctx -> ev_rres) :
  k1 (inh_ctx_of r) = k2 (inh_ctx_of r) -> ev_rseq r k1 = ev_rseq r k2.
Proof. destruct r as [[o c] t]. cbn. intro H. destruct o; cbn [ev_rseq]; try reflexivity. rewrite H. reflexivity. Qed.

Lemma inh_with_current_restore c b ds k t :
  rc_with_current (rc_with_current c b ds k t) (rc_cur_block c) (rc_cur_defs c) (rc_depth c) (rc_tpl c) = c.
Proof. destruct c. reflexivity. Qed.

Section Refine.
  Variable D : bytes -> list blockdef.
  Hypothesis Hclosed : inh_closed D.
  Variables rend1 rend2 : rctx -> list node -> ev_rres.
  Hypothesis Hr : forall c ns, inh_inv D c -> inh_cov D (rc_tpl c) (ts_blocks ns) -> rend1 c ns = rend2 c ns.
  Hypothesis Hf : forall c ns, inh_frame c (inh_ctx_of (rend1 c ns)).
  Variable root : rctx -> list node -> ev_rres.
  Variable ev : rctx -> expr -> ev_res.
  Variable env : ev_env.

  Lemma inh_ref_opt c (els : option (list node)) :
    inh_inv D c -> inh_cov D (rc_tpl c) (inh_opt_blocks els) ->
    match els with Some b => rend1 c b | None => ev_rret [] c end = match els with Some b => rend2 c b | None => ev_rret [] c end.
  Proof. intros Hi Hc. destruct els; [apply Hr; assumption|reflexivity]. Qed.

  Lemma inh_ref_if c bs els :
    inh_inv D c -> inh_cov D (rc_tpl c) (flat_map (fun br => ts_blocks (snd br)) bs) ->
    inh_cov D (rc_tpl c) (inh_opt_blocks els) ->
    ev_if ev rend1 c bs els = ev_if ev rend2 c bs els.
  Proof.
    intros Hi Hc He. induction bs as [|[cond body] rest IH]; cbn [ev_if]; [apply inh_ref_opt; assumption|].
    cbn [flat_map snd] in Hc. apply inh_cov_app in Hc. destruct Hc as [Hc1 Hc2].
    apply ev_rexpr_ext. intro v. destruct (vo_to_bool v); [apply Hr; assumption|apply IH; exact Hc2].
  Qed.

  Lemma inh_ref_loop_items body k v n : forall items i c,
    inh_inv D c -> inh_cov D (rc_tpl c) (ts_blocks body) ->
    ev_loop_items (fun c0 => rend1 c0 body) k v n i items c = ev_loop_items (fun c0 => rend2 c0 body) k v n i items c.
  Proof.
    induction items as [|it rest IH]; intros i c Hi Hc; cbn [ev_loop_items]; [reflexivity|].
    pose proof (inh_frame_iter c k v n i it) as Fi.
    assert (Hi2 : inh_inv D (ev_iter_ctx c k v n i it)) by (eapply inh_inv_frame; eassumption).
    assert (Ht : rc_tpl (ev_iter_ctx c k v n i it) = rc_tpl c) by apply Fi.
    rewrite <- (Hr (ev_iter_ctx c k v n i it) body Hi2) by (rewrite Ht; exact Hc).
    apply ev_rseq_ext_at.
    pose proof (Hf (ev_iter_ctx c k v n i it) body) as F.
    apply IH.
    - eapply inh_inv_frame; eassumption.
    - replace (rc_tpl (inh_ctx_of (rend1 (ev_iter_ctx c k v n i it) body))) with (rc_tpl c); [exact Hc|].
      symmetry. rewrite <- Ht. apply F.
  Qed.

  Lemma inh_ref_for_loop c k v seq body els :
    inh_inv D c -> inh_cov D (rc_tpl c) (ts_blocks body) -> inh_cov D (rc_tpl c) (inh_opt_blocks els) ->
    ev_for_loop rend1 c k v seq body els = ev_for_loop rend2 c k v seq body els.
  Proof.
    intros Hi Hc He. unfold ev_for_loop. destruct (ev_loop_items_of seq) as [[|it items]|]; try (apply inh_ref_opt; assumption).
    rewrite inh_ref_loop_items by assumption. reflexivity.
  Qed.

  Lemma inh_ref_parent_call c :
    inh_inv D c -> ev_parent_call rend1 c = inh_parent_call rend2 D c.
  Proof.
    intros [I1 I2]. unfold ev_parent_call, inh_parent_call. destruct (rc_cur_block c) as [b|] eqn:Eb; [|reflexivity].
    rewrite (I2 b eq_refl).
    destruct (nth_error (D b) (S (rc_depth c))) as [d|] eqn:En; [|reflexivity].
    rewrite Hr.
    - destruct (rend2 _ (bd_body d)) as [[r c'] t]. cbn [Nat.sub]. rewrite Nat.sub_0_r. reflexivity.
    - split; [exact I1|]. cbn. intros b0 Hb0. rewrite Eb in Hb0. inversion Hb0; subst. apply I2. reflexivity.
    - cbn. apply (Hclosed b). eapply nth_error_In. exact En.
  Qed.

  Lemma inh_ref_print c e : inh_inv D c -> ev_print ev rend1 env c e = inh_print ev rend2 rend1 env D c e.
  Proof.
    intro Hi. unfold ev_print, inh_print. apply ev_rexpr_ext. intro v. destruct (vo_view v); try reflexivity.
    apply inh_ref_parent_call. exact Hi.
  Qed.

  Lemma inh_ref_block c name body :
    inh_inv D c -> In (MkBd (rc_tpl c) body) (D name) ->
    ev_block rend1 c name body = inh_block rend2 D c name.
  Proof.
    intros [I1 I2] Hin. unfold ev_block, inh_block. rewrite I1.
    assert (Hreg : existsb (fun d => bytes_eqb (bd_tpl d) (rc_tpl c)) (D name) = true).
    { apply existsb_exists. eexists. split; [exact Hin|]. apply bytes_eqb_refl. }
    rewrite Hreg. destruct (D name) as [|d ds] eqn:ED; [reflexivity|].
    rewrite Hr; [reflexivity| |].
    - split; [exact I1|]. cbn. intros b0 Hb0. inversion Hb0; subst. symmetry. exact ED.
    - cbn. apply (Hclosed name). rewrite ED. left. reflexivity.
  Qed.

  Lemma inh_ref_node c n :
    inh_inv D c -> inh_cov D (rc_tpl c) (ts_blocks_node n) ->
    render_node ev rend1 root env c n = inh_node ev rend2 rend1 root env D c n.
  Proof.
    intros Hi Hc. destruct n; cbn [render_node inh_node]; try reflexivity.
    - apply inh_ref_print. exact Hi.
    - rewrite inh_blocks_if in Hc. apply inh_cov_app in Hc. destruct Hc. apply inh_ref_if; assumption.
    - rewrite inh_blocks_for in Hc. apply inh_cov_app in Hc. destruct Hc.
      unfold ev_for. apply ev_rexpr_ext. intro sv. apply inh_ref_for_loop; assumption.
    - apply inh_ref_block; [exact Hi|]. apply Hc. rewrite inh_blocks_block. left. reflexivity.
    - rewrite inh_blocks_apply in Hc. unfold ev_apply. rewrite Hr by assumption. reflexivity.
    - rewrite inh_blocks_spaceless in Hc. unfold ev_spaceless. rewrite Hr by assumption. reflexivity.
  Qed.
End Refine.

Lemma inh_render_refines D : inh_closed D -> forall fuel env c ns,
  inh_inv D c -> inh_cov D (rc_tpl c) (ts_blocks ns) ->
  render fuel env c ns = inh_render fuel env D c ns.
Proof.
  intros Hclosed. induction fuel as [|fu IH]; intros env c ns Hi Hc; [reflexivity|].
  destruct ns as [|n rest]; [reflexivity|]. cbn [render inh_render].
  rewrite inh_blocks_cons in Hc. apply inh_cov_app in Hc. destruct Hc as [Hn Hrest].
  rewrite <- (inh_ref_node D Hclosed (render fu env) (inh_render fu env D) (IH env) (inh_render_frame fu env)
                (render_root fu env) (eval fu env) env c n Hi Hn).
  apply ev_rseq_ext_at.
  pose proof (inh_frame_node (render fu env) (inh_render_frame fu env) (render_root fu env) (eval fu env) env c n) as F.
  apply IH.
  - eapply inh_inv_frame; eassumption.
  - replace (rc_tpl (inh_ctx_of (render_node (eval fu env) (render fu env) (render_root fu env) env c n))) with (rc_tpl c);
      [exact Hrest|]. symmetry. apply F.
Qed.

(* ================================================================ Part D: the root renderer and the walk *)
Lemma inh_first_pass_ext : forall ns hc bl acc, snd (ev_first_pass ns hc bl acc) = inh_extends_of ns acc.
Proof.
  induction ns as [|n r IH]; intros hc bl acc; [reflexivity|].
  destruct n; cbn [ev_first_pass inh_extends_of]; apply IH.
Qed.

Lemma inh_chain_defs_book c ns derived :
  (forall b, ev_chain_defs c b = inh_defs derived b) ->
  forall b, ev_chain_defs (inh_book c ns) b = inh_defs (derived ++ [inh_level_of (rc_tpl c) ns]) b.
Proof.
  intros H b. unfold ev_chain_defs, inh_book. cbn [rc_chain rc_with_blocks].
  change (match assoc_bytes ?ch b with Some ds => ds | None => [] end) with (inh_lookup ch b).
  rewrite inh_lookup_ts_collect, inh_defs_app, inh_defs_single. f_equal.
  rewrite <- H. unfold ev_chain_defs, inh_lookup. destruct (rc_chain c); reflexivity.
Qed.

Lemma inh_chain_defs_parent_ctx c name pnodes b :
  ev_chain_defs (inh_parent_ctx c name pnodes) b = ev_chain_defs c b.
Proof.
  unfold ev_chain_defs, inh_parent_ctx. cbn [rc_chain]. destruct (rc_chain c) as [[|x r]|]; reflexivity.
Qed.

Lemma inh_root_refines : forall fuel env derived c ns,
  inh_chain_ok derived -> (forall b, ev_chain_defs c b = inh_defs derived b) -> rc_cur_block c = None ->
  render_root fuel env c ns = inh_root fuel env derived c ns.
Proof.
  induction fuel as [|fu IH]; intros env derived c ns Hok Hch Hcur; [reflexivity|].
  cbn [render_root inh_root]. unfold ev_root. destruct (negb (ts_wf ns)); [reflexivity|].
  pose proof (inh_first_pass_ext ns (rc_extending c) (rc_blocks c) None) as Hext.
  change (rc_with_blocks c (fst (ev_first_pass ns (rc_extending c) (rc_blocks c) None))
            (Some (ts_collect (rc_tpl c) ns (match rc_chain c with Some ch => ch | None => [] end))))
    with (inh_book c ns) in *.
  assert (Hbook : forall blocks, blocks = fst (ev_first_pass ns (rc_extending c) (rc_blocks c) None) ->
            rc_with_blocks c blocks (Some (ts_collect (rc_tpl c) ns (match rc_chain c with Some ch => ch | None => [] end)))
            = inh_book c ns) by (intros blocks ->; reflexivity).
  destruct (ev_first_pass ns (rc_extending c) (rc_blocks c) None) as [blocks ext]. cbn [snd fst] in *.
  rewrite (Hbook blocks eq_refl). subst ext.
  pose proof (inh_chain_defs_book c ns derived Hch) as Hch1.
  pose proof (inh_chain_ok_app derived (rc_tpl c) ns Hok) as Hok1.
  destruct (inh_extends_of ns None) as [e|].
  - unfold ev_extends. apply ev_rexpr_ext. intros [name [pnodes|]]; cbn [fst snd]; [|reflexivity].
    change (MkRc (rc_vars (rc_with_extending (inh_book c ns) true)) (rc_parent (rc_with_extending (inh_book c ns) true)) []
              (rc_blocks (rc_with_extending (inh_book c ns) true))
              (ev_parent_blocks pnodes (rc_parent_blocks (rc_with_extending (inh_book c ns) true)))
              (match rc_chain (rc_with_extending (inh_book c ns) true) with Some ((_ :: _) as ch) => Some ch | _ => None end)
              true None [] 0 false (rc_sandboxed (rc_with_extending (inh_book c ns) true)) (Some name) name)
      with (inh_parent_ctx (rc_with_extending (inh_book c ns) true) name pnodes).
    rewrite (IH env (derived ++ [inh_level_of (rc_tpl c) ns])); [reflexivity|exact Hok1| |reflexivity].
    intro b. rewrite inh_chain_defs_parent_ctx. apply Hch1.
  - apply inh_render_refines.
    + apply inh_defs_closed. exact Hok1.
    + split; [exact Hch1|]. intros b Hb. cbn in Hb. congruence.
    + intros b body Hin. apply inh_defs_In. exists (inh_level_of (rc_tpl c) ns), body.
      split; [apply in_or_app; right; left; reflexivity|]. split; [reflexivity|exact Hin].
Qed.

Lemma C10_inheritance_is_substitution_proof : forall fuel env name vars,
  render_template fuel env name vars = inh_render_template fuel env name vars.
Proof.
  intros. unfold render_template, inh_render_template. destruct (ts_lookup env name) as [ns|]; [|reflexivity].
  rewrite (inh_root_refines fuel env [] _ ns); [reflexivity| | |reflexivity].
  - intros l [].
  - intro b. reflexivity.
Qed.

(* ================================================================ Part E: the sentences of the property *)
Definition inh_restore (c c' : rctx) : rctx :=
  rc_with_current c' (rc_cur_block c) (rc_cur_defs c) (rc_depth c) (rc_tpl c).

(* ---- every block occurrence renders the most derived definition of its name *)
Lemma C10_block_renders_most_derived_proof : forall rend D c name d ds,
  D name = d :: ds ->
  inh_block rend D c name =
  (let '(r, c', t) := rend (rc_with_current c (Some name) (d :: ds) 0 (bd_tpl d)) (bd_body d) in (r, inh_restore c c', t)).
Proof. intros rend D c name d ds H. unfold inh_block. rewrite H. reflexivity. Qed.

(* the table, level by level: a level that defines the block puts its definition in front of those of the levels
   above; a level that does not define it leaves them as they are *)
Lemma C10_most_derived_first_proof : forall (l : inh_level) (rest : inh_chain) b,
  inh_defs (l :: rest) b = inh_defs_in l b ++ inh_defs rest b.
Proof. reflexivity. Qed.

Lemma inh_mem_In x l : ev_mem x l = true <-> In x l.
Proof.
  unfold ev_mem. rewrite existsb_exists. split.
  - intros [y [Hy E]]. apply bytes_eqb_eq in E. subst. exact Hy.
  - intro H. exists x. split; [exact H|apply bytes_eqb_refl].
Qed.

Lemma inh_filter_nodup : forall (bl : list (bytes * list node)) b body,
  ts_no_dup (map fst bl) = true -> In (b, body) bl ->
  filter (fun nb => bytes_eqb (fst nb) b) bl = [(b, body)].
Proof.
  induction bl as [|[n bd] r IH]; intros b body Hnd Hin; [destruct Hin|].
  cbn [map fst ts_no_dup] in Hnd. apply andb_true_iff in Hnd. destruct Hnd as [Hn Hr].
  cbn [filter fst]. destruct Hin as [E|Hin].
  - inversion E; subst. rewrite bytes_eqb_refl. f_equal.
    assert (Hnone : forall l : list (bytes * list node), ~ In b (map fst l) -> filter (fun nb => bytes_eqb (fst nb) b) l = []).
    { induction l as [|[n2 b2] l IHl]; intro Hni; [reflexivity|]. cbn [filter fst].
      destruct (bytes_eqb n2 b) eqn:E2.
      - apply bytes_eqb_eq in E2. subst. exfalso. apply Hni. left. reflexivity.
      - apply IHl. intro H. apply Hni. right. exact H. }
    apply Hnone. intro H. apply inh_mem_In in H. rewrite H in Hn. discriminate.
  - destruct (bytes_eqb n b) eqn:E.
    + apply bytes_eqb_eq in E. subst n. exfalso.
      assert (In b (map fst r)) by (apply in_map_iff; exists (b, body); auto).
      apply inh_mem_In in H. rewrite H in Hn. discriminate.
    + apply IH; assumption.
Qed.

(* a template defines a block at most once (ts_wf): its contribution to the table is that one definition *)
Lemma inh_defs_in_wf tpl ns b body :
  ts_wf ns = true -> In (b, body) (ts_blocks ns) -> inh_defs_in (inh_level_of tpl ns) b = [MkBd tpl body].
Proof.
  intros Hwf Hin. unfold ts_wf in Hwf. apply andb_true_iff in Hwf. destruct Hwf as [Hnd _].
  unfold inh_defs_in, inh_level_of. cbn [fst snd]. rewrite (inh_filter_nodup _ b body Hnd Hin). reflexivity.
Qed.

Lemma inh_defs_in_none (l : inh_level) b : ~ In b (map fst (snd l)) -> inh_defs_in l b = [].
Proof.
  intro Hni. unfold inh_defs_in. replace (filter _ (snd l)) with (@nil (bytes * list node)); [reflexivity|].
  symmetry. induction (snd l) as [|[n2 b2] r IH]; [reflexivity|]. cbn [filter fst].
  destruct (bytes_eqb n2 b) eqn:E2.
  - apply bytes_eqb_eq in E2. subst. exfalso. apply Hni. left. reflexivity.
  - apply IH. intro H. apply Hni. right. exact H.
Qed.

(* ---- blocks nobody overrides keep the default body *)
Lemma C10_unoverridden_keeps_default_proof : forall rend derived tn ns b body c,
  ts_wf ns = true -> In (b, body) (ts_blocks ns) ->
  (forall l, In l derived -> ~ In b (map fst (snd l))) ->
  inh_defs (derived ++ [inh_level_of tn ns]) b = [MkBd tn body] /\
  inh_block rend (inh_defs (derived ++ [inh_level_of tn ns])) c b =
  (let '(r, c', t) := rend (rc_with_current c (Some b) [MkBd tn body] 0 tn) body in (r, inh_restore c c', t)).
Proof.
  intros rend derived tn ns b body c Hwf Hin Hnone.
  assert (HD : inh_defs (derived ++ [inh_level_of tn ns]) b = [MkBd tn body]).
  { rewrite inh_defs_app, inh_defs_single, (inh_defs_in_wf tn ns b body Hwf Hin).
    replace (inh_defs derived b) with (@nil blockdef); [reflexivity|].
    symmetry. unfold inh_defs. induction derived as [|l r IH]; [reflexivity|]. cbn [flat_map].
    rewrite (inh_defs_in_none l b) by (apply Hnone; left; reflexivity).
    apply IH. intros l0 Hl0. apply Hnone. right. exact Hl0. }
  split; [exact HD|]. rewrite (C10_block_renders_most_derived_proof rend _ c b _ _ HD). reflexivity.
Qed.

(* ---- an override with an empty body produces nothing *)
Lemma C10_empty_override_is_empty_proof : forall fu env D c b t ds,
  D b = MkBd t [] :: ds ->
  inh_block (inh_render (S fu) env D) D c b = (Ok [], c, []).
Proof.
  intros fu env D c b t ds H. rewrite (C10_block_renders_most_derived_proof _ D c b _ _ H).
  cbn [inh_render bd_body ev_rret]. unfold inh_restore. rewrite inh_with_current_restore. reflexivity.
Qed.

(* the same through the engine model: a block tag whose most derived definition is empty renders nothing,
   whatever the body written at the occurrence *)
Lemma C10_empty_override_model_proof : forall fu env D c b body0 t ds,
  inh_closed D -> inh_inv D c -> In (MkBd (rc_tpl c) body0) (D b) -> inh_cov D (rc_tpl c) (ts_blocks body0) ->
  D b = MkBd t [] :: ds ->
  render (S (S fu)) env c [NBlock b body0] = (Ok [], c, []).
Proof.
  intros fu env D c b body0 t ds Hcl Hi Hin Hcov H.
  rewrite (inh_render_refines D Hcl (S (S fu)) env c [NBlock b body0] Hi).
  - change (inh_render (S (S fu)) env D c [NBlock b body0])
      with (ev_rseq (inh_block (inh_render (S fu) env D) D c b) (fun c1 => inh_render (S fu) env D c1 [])).
    rewrite (C10_empty_override_is_empty_proof fu env D c b t ds H). reflexivity.
  - rewrite inh_blocks_cons, inh_blocks_block. cbn [ts_blocks flat_map]. rewrite app_nil_r.
    intros b2 body2 [E|Hin2]; [inversion E; subst; exact Hin|apply Hcov; exact Hin2].
Qed.

(* ---- blocks nested in blocks, loops and conditions are definitions and are substituted where they stand *)
Lemma C10_nested_blocks_in_place_proof :
  (* what collectBlocks finds *)
  (forall name body, ts_blocks_node (NBlock name body) = (name, body) :: ts_blocks body) /\
  (forall brs els, ts_blocks_node (NIf brs els) = flat_map (fun br => ts_blocks (snd br)) brs ++ inh_opt_blocks els) /\
  (forall k v s body els, ts_blocks_node (NFor k v s body els) = ts_blocks body ++ inh_opt_blocks els) /\
  (forall n rest, ts_blocks (n :: rest) = ts_blocks_node n ++ ts_blocks rest) /\
  (* a for tag of the layout: the loop of C09 whose body is rendered by the substituting renderer, once per
     iteration, in the context of that iteration *)
  (forall ev rend mrend root env D c k v seq body els,
     inh_node ev rend mrend root env D c (NFor k v seq body els) = c9_for ev rend env c k v seq body els) /\
  (forall ev rend mrend root env D c bs els,
     inh_node ev rend mrend root env D c (NIf bs els) = c9_if vo_to_bool ev rend c bs els) /\
  (* a block tag anywhere in a body that is being rendered: the rule of block occurrences, then the rest *)
  (forall fu env D c name body rest,
     inh_render (S fu) env D c (NBlock name body :: rest) =
     ev_rseq (inh_block (inh_render fu env D) D c name) (fun c1 => inh_render fu env D c1 rest)).
Proof.
  split; [exact inh_blocks_block|]. split; [exact inh_blocks_if|]. split; [exact inh_blocks_for|].
  split; [exact inh_blocks_cons|]. split; [|split].
  - intros. cbn [inh_node]. apply C09_for_refines_spec_proof.
  - intros. cbn [inh_node render_node]. apply ev_if_is_spec.
  - reflexivity.
Qed.

(* ---- text, prints and set tags outside blocks in a child produce nothing and are not executed *)
Lemma inh_silent_facts n : inh_silent n = true ->
  ts_blocks_node n = [] /\ ts_macros_node n = [] /\
  (forall r hc bl acc, ev_first_pass (n :: r) hc bl acc = ev_first_pass r hc bl acc) /\
  (forall r acc, inh_extends_of (n :: r) acc = inh_extends_of r acc).
Proof.
  intro H. unfold inh_silent in H.
  assert (HB : ts_blocks_node n = [] /\ ts_macros_node n = []).
  { destruct n; try discriminate;
      (destruct (ts_blocks_node _); [|discriminate]); (destruct (ts_macros_node _); [|discriminate]); split; reflexivity. }
  destruct HB as [HB HM]. split; [exact HB|]. split; [exact HM|].
  split; intros; destruct n; try discriminate; reflexivity.
Qed.

Lemma inh_silent_remove pre n post : inh_silent n = true ->
  ts_blocks (pre ++ n :: post) = ts_blocks (pre ++ post) /\
  ts_macros (pre ++ n :: post) = ts_macros (pre ++ post) /\
  (forall hc bl acc, ev_first_pass (pre ++ n :: post) hc bl acc = ev_first_pass (pre ++ post) hc bl acc) /\
  (forall acc, inh_extends_of (pre ++ n :: post) acc = inh_extends_of (pre ++ post) acc).
Proof.
  intro H. destruct (inh_silent_facts n H) as (HB & HM & HF & HE). split; [|split; [|split]].
  - rewrite !inh_blocks_app, inh_blocks_cons, HB. reflexivity.
  - unfold ts_macros. rewrite !flat_map_app. cbn [flat_map]. rewrite HM. reflexivity.
  - induction pre as [|x pre IH]; intros hc bl acc; cbn [app]; [apply HF|].
    destruct x; cbn [ev_first_pass]; apply IH.
  - induction pre as [|x pre IH]; intros acc; cbn [app]; [apply HE|].
    destruct x; cbn [inh_extends_of]; apply IH.
Qed.

Lemma C10_child_text_outside_blocks_silent_proof : forall fuel env derived c pre n post,
  inh_silent n = true -> inh_extends_of (pre ++ post) None <> None ->
  inh_root fuel env derived c (pre ++ n :: post) = inh_root fuel env derived c (pre ++ post).
Proof.
  intros fuel env derived c pre n post Hs Hext. destruct fuel as [|fu]; [reflexivity|].
  destruct (inh_silent_remove pre n post Hs) as (HB & HM & HF & HE).
  cbn [inh_root]. unfold ts_wf, inh_book, inh_level_of, ts_collect. rewrite HB, HM, HF, HE.
  destruct (inh_extends_of (pre ++ post) None) as [e|]; [reflexivity|congruence].
Qed.

(* ---- parent() *)
Lemma C10_parent_is_next_definition_proof : forall rend D c b d,
  rc_cur_block c = Some b -> nth_error (D b) (S (rc_depth c)) = Some d ->
  let c_up := rc_with_depth c (S (rc_depth c)) (bd_tpl d) in
  inh_parent_call rend D c =
    (let '(r, c', t) := rend c_up (bd_body d) in (r, rc_with_depth c' (rc_depth c) (rc_tpl c), t)) /\
  rc_vars c_up = rc_vars c /\ rc_parent c_up = rc_parent c /\ rc_macros c_up = rc_macros c /\
  rc_cur_block c_up = Some b /\ rc_depth c_up = S (rc_depth c).
Proof.
  intros rend D c b d Hb Hn c_up. split.
  - unfold inh_parent_call. rewrite Hb, Hn. reflexivity.
  - subst c_up. cbn. auto.
Qed.

(* no enclosing block, or no definition further up: an error *)
Lemma C10_parent_errors_proof : forall rend D c,
  (rc_cur_block c = None -> inh_parent_call rend D c = (Err EOther, c, [])) /\
  (forall b, rc_cur_block c = Some b -> nth_error (D b) (S (rc_depth c)) = None ->
     inh_parent_call rend D c = (Err EOther, c, [])).
Proof.
  intros rend D c. split.
  - intro H. unfold inh_parent_call. rewrite H. reflexivity.
  - intros b Hb Hn. unfold inh_parent_call. rewrite Hb, Hn. reflexivity.
Qed.

(* the expression parent() evaluates to the function value that a print tag runs *)
Lemma inh_eval_parent fu env c :
  rc_get_macro c b#"parent" = None -> assoc_bytes (e_functions env) b#"parent" = None -> rc_sandboxed c = false ->
  eval (S fu) env c (ECall b#"parent" []) = (Ok VParentCall, [TrFunction b#"parent"]).
Proof.
  intros Hm Hf Hs. cbn [eval]. unfold ev_expr, ev_sandbox_denies. rewrite Hs. cbn [andb].
  rewrite Hm. cbn [ev_list ev_ret ev_bind]. unfold ev_call_function. rewrite Hs, Hf. cbn [andb].
  replace (ev_registered Gen.Registry.reg_GetFunctions b#"parent") with true by (vm_compute; reflexivity).
  reflexivity.
Qed.

(* the tag that prints parent(), in the specification and in the engine model: at any depth, also inside a definition
   that was itself reached through parent() *)
Lemma C10_parent_tag_proof : forall fu env D c b d,
  inh_closed D -> inh_inv D c ->
  rc_get_macro c b#"parent" = None -> assoc_bytes (e_functions env) b#"parent" = None -> rc_sandboxed c = false ->
  rc_cur_block c = Some b -> nth_error (D b) (S (rc_depth c)) = Some d ->
  render (S (S fu)) env c [NPrint (ECall b#"parent" [])] =
  c9_add_trace [TrFunction b#"parent"]
    (let '(r, c', t) := render (S fu) env (rc_with_depth c (S (rc_depth c)) (bd_tpl d)) (bd_body d) in
     (r, rc_with_depth c' (rc_depth c) (rc_tpl c), t)).
Proof.
  intros fu env D c b d Hcl Hi Hm Hf Hs Hb Hn.
  change (render (S (S fu)) env c [NPrint (ECall b#"parent" [])])
    with (ev_rseq (render_node (eval (S fu) env) (render (S fu) env) (render_root (S fu) env) env c (NPrint (ECall b#"parent" [])))
                  (fun c1 : rctx => ev_rret [] c1)).
  rewrite ev_rseq_ret_r.
  cbn [render_node]. unfold ev_print. rewrite (inh_eval_parent fu env c Hm Hf Hs), ev_rexpr_ok.
  change (vo_view VParentCall) with KParent. cbv iota.
  rewrite (inh_ref_parent_call D Hcl (render (S fu) env) (render (S fu) env) (fun _ _ _ _ => eq_refl) c Hi).
  destruct (C10_parent_is_next_definition_proof (render (S fu) env) D c b d Hb Hn) as [E _]. rewrite E.
  reflexivity.
Qed.

(* ---- the parent template is chosen by evaluating the extends expression in the context of THIS render *)
Lemma C10_dynamic_parent_per_render_proof : forall fu env derived c ns e v t pname,
  ts_wf ns = true -> inh_extends_of ns None = Some e ->
  let c2 := rc_with_extending (inh_book c ns) true in
  eval fu env c2 e = (Ok v, t) -> vo_to_str v = Some pname -> ev_relative pname = false ->
  (rc_vars c2 = rc_vars c /\ rc_parent c2 = rc_parent c /\ rc_macros c2 = rc_macros c /\ rc_sandboxed c2 = rc_sandboxed c) /\
  inh_root (S fu) env derived c ns =
    match ts_lookup env pname with
    | None => (Err ENotFound, c2, t ++ [TrLoad pname])
    | Some pnodes =>
      let '(r, _, t2) := inh_root fu env (derived ++ [inh_level_of (rc_tpl c) ns]) (inh_parent_ctx c2 pname pnodes) pnodes in
      (r, c2, (t ++ [TrLoad pname]) ++ t2)
    end.
Proof.
  intros fu env derived c ns e v t pname Hwf He c2 Hev Hs Hrel. split; [repeat split|].
  cbn [inh_root]. rewrite Hwf, He. cbn [negb]. fold c2.
  unfold ev_load. rewrite Hev. cbn [ev_bind]. rewrite Hs, Hrel. cbn [ev_rexpr fst snd].
  destruct (ts_lookup env pname) as [pnodes|]; [|cbn; rewrite app_nil_r; reflexivity].
  destruct (inh_root fu env _ _ pnodes) as [[r c'] t3]. reflexivity.
Qed.

(* ---- chains as data: whatever the length of the chain found by the walk, the result is the last template of
   the chain rendered by the substituting renderer over the definitions of the whole chain *)
Definition inh_out (r : ev_rres) : outcome bytes * ev_trace := (fst (fst r), snd r).

Lemma C10_chain_any_length_proof : forall env fuel derived c ns ch bc bns fu tr,
  inh_walk env fuel derived c ns ch bc bns fu tr ->
  inh_out (inh_root fuel env derived c ns) =
  (let '(r, _, t) := inh_render fu env (inh_defs ch) bc bns in (r, tr ++ t)).
Proof.
  intros env fuel derived c ns ch bc bns fu tr W.
  induction W as [fu derived c ns Hwf He|fu derived c ns e v t pname pnodes ch bc bns fu' tr Hwf He Hev Hs Hrel Hl W IH].
  - cbn [inh_root]. rewrite Hwf, He. cbn [negb].
    destruct (inh_render fu env _ (inh_book c ns) ns) as [[r c'] t]. reflexivity.
  - destruct (C10_dynamic_parent_per_render_proof fu env derived c ns e v t pname Hwf He Hev Hs Hrel) as [_ E].
    rewrite E, Hl. clear E.
    destruct (inh_root fu env _ _ pnodes) as [[r c'] t3]. unfold inh_out in *. cbn [fst snd] in *.
    destruct (inh_render fu' env (inh_defs ch) bc bns) as [[r2 c2] t2].
    inversion IH; subst. rewrite <- !app_assoc. reflexivity.
Qed.

(* the context the last template is rendered in carries the variables of the render: nothing a child does at its
   top level can change them *)
Lemma inh_walk_ctx : forall env fuel derived c ns ch bc bns fu tr,
  inh_walk env fuel derived c ns ch bc bns fu tr ->
  rc_vars bc = rc_vars c /\ rc_parent bc = rc_parent c /\ rc_sandboxed bc = rc_sandboxed c /\
  (rc_cur_block c = None -> rc_cur_block bc = None) /\
  exists levels, ch = derived ++ levels /\ length levels = (fuel - fu)%nat /\ (fu < fuel)%nat.
Proof.
  intros env fuel derived c ns ch bc bns fu tr W.
  induction W as [fu derived c ns Hwf He|fu derived c ns e v t pname pnodes ch bc bns fu' tr Hwf He Hev Hs Hrel Hl W IH].
  - split; [reflexivity|]. split; [reflexivity|]. split; [reflexivity|]. split; [intro H; exact H|].
    exists [inh_level_of (rc_tpl c) ns]. split; [reflexivity|]. cbn [length]. lia.
  - destruct IH as (V & P & Sb & B & levels & E & L & F). cbn in V, P, Sb, B.
    split; [exact V|]. split; [exact P|]. split; [exact Sb|]. split; [intros _; apply B; reflexivity|].
    exists (inh_level_of (rc_tpl c) ns :: levels).
    split; [rewrite E, <- app_assoc; reflexivity|]. cbn [length]. lia.
Qed.

Lemma C10_chain_any_length_template_proof : forall env fuel name vars ns ch bc bns fu tr,
  ts_lookup env name = Some ns ->
  inh_walk env fuel [] (rc_derive (rc_fresh vars name) None false (Some name)) ns ch bc bns fu tr ->
  render_template fuel env name vars =
    (let '(r, _, t) := inh_render fu env (inh_defs ch) bc bns in (r, TrLoad name :: tr ++ t)) /\
  rc_vars bc = vars /\ rc_parent bc = None /\ rc_cur_block bc = None /\ length ch = (fuel - fu)%nat.
Proof.
  intros env fuel name vars ns ch bc bns fu tr Hl W.
  pose proof (C10_chain_any_length_proof _ _ _ _ _ _ _ _ _ _ W) as E.
  destruct (inh_walk_ctx _ _ _ _ _ _ _ _ _ _ W) as (V & P & _ & B & levels & Ech & L & _).
  split; [|cbn in *; subst ch; repeat split; auto].
  rewrite C10_inheritance_is_substitution_proof. unfold inh_render_template. rewrite Hl.
  destruct (inh_root fuel env [] _ ns) as [[r c'] t]. unfold inh_out in E. cbn [fst snd] in E.
  destruct (inh_render fu env (inh_defs ch) bc bns) as [[r2 c2] t2]. inversion E; subst. reflexivity.
Qed.

(* helpers of the non-vacuity examples of Properties/C10.v *)
Definition c10_env (tpls : list (bytes * list node)) : ev_env := MkEnv tpls [] [] [] None.
Definition c10_out (tpls : list (bytes * list node)) (main : bytes) (vars : list (bytes * value)) : outcome bytes :=
  fst (render_template 60 (c10_env tpls) main vars).
Definition c10_spec_out (tpls : list (bytes * list node)) (main : bytes) (vars : list (bytes * value)) : outcome bytes :=
  fst (inh_render_template 60 (c10_env tpls) main vars).
