(* The expression lexer model reads back every token list written with lexically safe spacing
   (property C08, lexer half), never runs out of fuel, and the single-name shortcut of the print tag
   agrees with it. Facts about the generated character classes are decided by computation over all
   256 bytes, so a changed class in the Go code re-checks them. *)
From Coq Require Import ZifyBool ZifyNat Arith.
From Twig Require Import Base.Bytes Model.Ast Model.ExprLexer Model.Parser Model.Pretty Gen.CharClass.

(* ---- the branch order of the loop body is the one the model implements ---- *)
Lemma lexer_branch_order : cc_shape_ok = true /\ cc_branch_order = xl_model_branch_order.
Proof. split; reflexivity. Qed.

(* ---- character classes ---- *)
Lemma cc_space c : xl_is_space c = true ->
  xl_is_quote c = false /\ xl_is_operator c = false /\ xl_is_punct c = false /\ xl_is_bsl c = false /\
  xl_ident_cont c = false /\ xl_is_digit c = false /\ Byte.eqb c XDOT = false /\
  (forall d, xl_two_char d c = false).
Proof.
  destruct c; intro H; vm_compute in H; try discriminate H;
    (repeat split; try reflexivity; intro d; destruct d; reflexivity).
Qed.

Lemma cc_ident_start c : xl_ident_start c = true ->
  xl_is_quote c = false /\ xl_is_operator c = false /\ xl_is_punct c = false /\ xl_is_space c = false /\
  xl_is_bsl c = false /\ xl_ident_cont c = true.
Proof. destruct c; intro H; vm_compute in H; try discriminate H; repeat split; reflexivity. Qed.

Lemma cc_ident_cont c : xl_ident_cont c = true -> xl_is_bsl c = false.
Proof. destruct c; intro H; vm_compute in H; try discriminate H; reflexivity. Qed.

Lemma cc_digit c : xl_is_digit c = true ->
  xl_is_quote c = false /\ xl_is_operator c = false /\ xl_is_punct c = false /\ xl_is_space c = false /\
  xl_is_bsl c = false /\ xl_ident_start c = false /\ Byte.eqb c XDOT = false.
Proof. destruct c; intro H; vm_compute in H; try discriminate H; repeat split; reflexivity. Qed.

Lemma cc_operator c : xl_is_operator c = true -> xl_is_quote c = false /\ xl_is_bsl c = false.
Proof. destruct c; intro H; vm_compute in H; try discriminate H; repeat split; reflexivity. Qed.

Lemma cc_punct c : xl_is_punct c = true ->
  xl_is_quote c = false /\ xl_is_operator c = false /\ xl_is_bsl c = false.
Proof. destruct c; intro H; vm_compute in H; try discriminate H; repeat split; reflexivity. Qed.

Lemma cc_two_char c d : xl_two_char c d = true -> xl_is_bsl d = false.
Proof.
  unfold xl_two_char. intro H. apply existsb_exists in H. destruct H as [[a b] [Hin H]].
  cbn [fst snd] in H. apply andb_true_iff in H. destruct H as [_ H]. apply byte_eqb_eq in H. subst b.
  unfold cc_two_char_ops in Hin. cbn [In] in Hin.
  repeat (destruct Hin as [Hin|Hin]; [inversion Hin; reflexivity|]). destruct Hin.
Qed.

Lemma quote_is_quote q : q = XSQ \/ q = XDQ -> xl_is_quote q = true.
Proof. intros [->| ->]; reflexivity. Qed.

(* ---- the loop, one iteration ---- *)
Definition xl_step (f : nat) (pb : bool) (st : option (byte * bytes)) (c : byte) (r : bytes) : outcome (list xtok) :=
  if xl_is_quote c && negb pb then
    match st with
    | Some (d, acc) =>
        if Byte.eqb c d then xl_cons (XT XString (rev acc)) (xl_loop f false None r)
        else xl_loop f false (Some (d, c :: acc)) r
    | None => xl_loop f false (Some (c, [])) r
    end
  else
  match st with
  | Some (d, acc) => xl_loop f (xl_esc_next pb c) (Some (d, c :: acc)) r
  | None =>
    if xl_is_operator c then
      match r with
      | d :: r' =>
          if xl_two_char c d then xl_cons (XT XOp [c; d]) (xl_loop f (xl_last_bsl pb [c; d]) None r')
          else xl_cons (XT XOp [c]) (xl_loop f (xl_esc_next pb c) None r)
      | [] => Ok [XT XOp [c]]
      end
    else if xl_is_punct c then xl_cons (XT XPunct [c]) (xl_loop f (xl_esc_next pb c) None r)
    else if xl_is_space c then xl_loop f (xl_esc_next pb c) None r
    else if xl_ident_start c then
      let (a, rest) := xl_span xl_ident_cont r in
      xl_cons (XT XName (c :: a)) (xl_loop f (xl_last_bsl pb (c :: a)) None rest)
    else if xl_is_digit c then
      let (v, rest) := xl_number false (c :: r) in
      xl_cons (XT XNumber v) (xl_loop f (xl_last_bsl pb v) None rest)
    else if cc_number_minus && Byte.eqb c XMINUS &&
            match r with d :: _ => xl_is_digit d | [] => false end then
      let (v, rest) := xl_number true r in
      xl_cons (XT XNumber v) (xl_loop f (xl_last_bsl pb v) None rest)
    else xl_loop f (xl_esc_next pb c) None r
  end.

Lemma xl_loop_S f pb st c r : xl_loop (S f) pb st (c :: r) = xl_step f pb st c r.
Proof. reflexivity. Qed.
Lemma xl_loop_nil f pb st : xl_loop (S f) pb st [] = Ok [].
Proof. reflexivity. Qed.
Global Opaque xl_loop.

Lemma esc_next_plain pb c : xl_is_bsl c = false -> xl_esc_next pb c = false.
Proof. intro H. unfold xl_esc_next. rewrite H. reflexivity. Qed.

(* ---- spans ---- *)
Definition stops (p : byte -> bool) (rest : bytes) : Prop :=
  match rest with d :: _ => p d = false | [] => True end.

Lemma span_all p v rest : forallb p v = true -> stops p rest -> xl_span p (v ++ rest) = (v, rest).
Proof.
  induction v as [|c v IH]; intros Hv Hs.
  - cbn [app]. destruct rest as [|d r]; [reflexivity|]. cbn [xl_span]. cbn in Hs. rewrite Hs. reflexivity.
  - cbn [forallb] in Hv. apply andb_true_iff in Hv. destruct Hv as [Hc Hv].
    cbn [app xl_span]. rewrite Hc, (IH Hv Hs). reflexivity.
Qed.

Lemma span_len p s : length (snd (xl_span p s)) <= length s.
Proof.
  induction s as [|c s IH]; [cbn; lia|]. cbn [xl_span]. destruct (p c); [|cbn; lia].
  destruct (xl_span p s) as [a b]. cbn [snd length] in *. lia.
Qed.

Lemma last_bsl_false v : forallb (fun c => negb (xl_is_bsl c)) v = true -> xl_last_bsl false v = false.
Proof.
  assert (G : forall pb, pb = false -> forallb (fun c => negb (xl_is_bsl c)) v = true -> xl_last_bsl pb v = false).
  { induction v as [|c v IH]; intros pb Hpb Hv; [exact Hpb|].
    cbn [forallb] in Hv. apply andb_true_iff in Hv. destruct Hv as [Hc Hv].
    cbn [xl_last_bsl]. apply IH; [|exact Hv]. apply negb_true_iff in Hc. apply esc_next_plain, Hc. }
  apply G. reflexivity.
Qed.

Lemma forallb_imp {A} (p q : A -> bool) l : (forall a, p a = true -> q a = true) -> forallb p l = true -> forallb q l = true.
Proof.
  intros H. induction l as [|a l IH]; [reflexivity|]. cbn [forallb]. intro Hl.
  apply andb_true_iff in Hl. destruct Hl as [Ha Hl]. rewrite (H a Ha), (IH Hl). reflexivity.
Qed.

(* ---- one piece of text at a time ---- *)
Lemma lex_ws w : forall f rest, forallb xl_is_space w = true ->
  xl_loop (length w + f) false None (w ++ rest) = xl_loop f false None rest.
Proof.
  induction w as [|c w IH]; intros f rest Hw; [reflexivity|].
  cbn [forallb] in Hw. apply andb_true_iff in Hw. destruct Hw as [Hc Hw].
  destruct (cc_space c Hc) as (Hq & Ho & Hp & Hb & _).
  cbn [length app Nat.add]. rewrite xl_loop_S. unfold xl_step. rewrite Hq. cbn [andb]. rewrite Ho, Hp, Hc, (esc_next_plain _ _ Hb).
  apply IH, Hw.
Qed.

Lemma lex_name v f rest : pp_is_ident v = true -> stops xl_ident_cont rest ->
  xl_loop (S f) false None (v ++ rest) = xl_cons (XT XName v) (xl_loop f false None rest).
Proof.
  destruct v as [|c v]; [discriminate|]. cbn [pp_is_ident]. intros Hv Hs.
  apply andb_true_iff in Hv. destruct Hv as [Hc Hv].
  destruct (cc_ident_start c Hc) as (Hq & Ho & Hp & Hsp & Hb & Hcc).
  cbn [app]. rewrite xl_loop_S. unfold xl_step. rewrite Hq. cbn [andb]. rewrite Ho, Hp, Hsp, Hc.
  rewrite (span_all _ _ _ Hv Hs).
  rewrite last_bsl_false; [reflexivity|].
  cbn [forallb]. rewrite Hb. cbn [negb andb].
  eapply forallb_imp; [|exact Hv]. intros a Ha. rewrite (cc_ident_cont a Ha). reflexivity.
Qed.

Lemma lex_number v f rest : v <> [] -> forallb xl_is_digit v = true ->
  stops xl_is_digit rest -> stops (fun d => Byte.eqb d XDOT) rest ->
  xl_loop (S f) false None (v ++ rest) = xl_cons (XT XNumber v) (xl_loop f false None rest).
Proof.
  intros Hne Hv Hs Hdot. destruct v as [|c v]; [congruence|].
  pose proof Hv as Hv'. cbn [forallb] in Hv'. apply andb_true_iff in Hv'. destruct Hv' as [Hc _].
  destruct (cc_digit c Hc) as (Hq & Ho & Hp & Hsp & Hb & Hi & _).
  cbn [app]. rewrite xl_loop_S. unfold xl_step. rewrite Hq. cbn [andb]. rewrite Ho, Hp, Hsp, Hi, Hc.
  assert (Hn : xl_number false (c :: v ++ rest) = (c :: v, rest)).
  { unfold xl_number. change (c :: v ++ rest) with ((c :: v) ++ rest). rewrite (span_all _ _ _ Hv Hs).
    destruct rest as [|d r].
    - cbn [app]. rewrite app_nil_r. reflexivity.
    - cbn [stops] in Hdot. rewrite Hdot. cbn [app]. rewrite app_nil_r. reflexivity. }
  rewrite Hn. rewrite last_bsl_false; [reflexivity|].
  eapply forallb_imp; [|exact Hv]. intros a Ha. destruct (cc_digit a Ha) as (_ & _ & _ & _ & -> & _). reflexivity.
Qed.

Lemma lex_op1 c f rest : xl_is_operator c = true -> stops (xl_two_char c) rest -> 1 <= f ->
  xl_loop (S f) false None (c :: rest) = xl_cons (XT XOp [c]) (xl_loop f false None rest).
Proof.
  intros Hc Hs Hf. destruct (cc_operator c Hc) as [Hq Hb].
  rewrite xl_loop_S. unfold xl_step. rewrite Hq. cbn [andb]. rewrite Hc.
  destruct rest as [|d r].
  - destruct f as [|f]; [lia|]. rewrite xl_loop_nil. reflexivity.
  - cbn [stops] in Hs. rewrite Hs, (esc_next_plain _ _ Hb). reflexivity.
Qed.

Lemma lex_op2 c d f rest : xl_is_operator c = true -> xl_two_char c d = true ->
  xl_loop (S f) false None (c :: d :: rest) = xl_cons (XT XOp [c; d]) (xl_loop f false None rest).
Proof.
  intros Hc Hd. destruct (cc_operator c Hc) as [Hq Hb].
  rewrite xl_loop_S. unfold xl_step. rewrite Hq. cbn [andb]. rewrite Hc, Hd. cbn [xl_last_bsl].
  rewrite (esc_next_plain _ _ Hb), (esc_next_plain _ _ (cc_two_char c d Hd)). reflexivity.
Qed.

Lemma lex_punct c f rest : xl_is_punct c = true ->
  xl_loop (S f) false None (c :: rest) = xl_cons (XT XPunct [c]) (xl_loop f false None rest).
Proof.
  intros Hc. destruct (cc_punct c Hc) as (Hq & Ho & Hb).
  rewrite xl_loop_S. unfold xl_step. rewrite Hq. cbn [andb]. rewrite Ho, Hc, (esc_next_plain _ _ Hb). reflexivity.
Qed.

Lemma lex_in_string q f rest : xl_is_quote q = true -> forall v acc pb, pp_raw_ok q pb v = true ->
  xl_loop (length v + 1 + f) pb (Some (q, acc)) (v ++ q :: rest)
  = xl_cons (XT XString (rev acc ++ v)) (xl_loop f false None rest).
Proof.
  intros Hq. induction v as [|c v IH]; intros acc pb Hv.
  - cbn [pp_raw_ok] in Hv. apply negb_true_iff in Hv. subst pb.
    cbn [length app Nat.add]. rewrite xl_loop_S. unfold xl_step. rewrite Hq. cbn [andb negb].
    rewrite byte_eqb_refl, app_nil_r. reflexivity.
  - cbn [pp_raw_ok] in Hv. apply andb_true_iff in Hv. destruct Hv as [Hc Hv].
    cbn [length app Nat.add]. rewrite xl_loop_S. unfold xl_step.
    destruct (xl_is_quote c && negb pb) eqn:E.
    + apply andb_true_iff in E. destruct E as [Ecq Epb]. apply negb_true_iff in Epb. subst pb.
      destruct (Byte.eqb c q) eqn:Ecq2; [discriminate Hc|].
      assert (Hb : xl_is_bsl c = false).
      { unfold xl_is_quote in Ecq. apply orb_true_iff in Ecq. destruct Ecq as [H|H]; apply byte_eqb_eq in H; subst; reflexivity. }
      rewrite (esc_next_plain _ _ Hb) in Hv. etransitivity; [apply (IH (c :: acc) false Hv)|]. cbn [rev]. rewrite <- app_assoc. reflexivity.
    + etransitivity; [apply (IH (c :: acc) (xl_esc_next pb c) Hv)|]. cbn [rev]. rewrite <- app_assoc. reflexivity.
Qed.

Lemma lex_string q v f rest : xl_is_quote q = true -> pp_raw_ok q false v = true ->
  xl_loop (S (length v + 1 + f)) false None (q :: v ++ q :: rest)
  = xl_cons (XT XString v) (xl_loop f false None rest).
Proof.
  intros Hq Hv. rewrite xl_loop_S. unfold xl_step. rewrite Hq. cbn [andb negb].
  etransitivity; [apply (lex_in_string q f rest Hq v [] false Hv)|]. reflexivity.
Qed.

(* ---- one token followed by something that does not extend it ---- *)
Definition follows_ok (q : byte) (t : xtok) (rest : bytes) : Prop :=
  match t with
  | XT XName _ => stops xl_ident_cont rest
  | XT XNumber _ => stops xl_is_digit rest /\ stops (fun d => Byte.eqb d XDOT) rest
  | XT XOp [c] => stops (xl_two_char c) rest
  | _ => True
  end.

Lemma lex_token q t rest F : xl_is_quote q = true -> pp_tok_ok q t = true -> follows_ok q t rest ->
  length (pp_tok_bytes q t ++ rest) < F ->
  exists f, length rest < f /\
    xl_loop F false None (pp_tok_bytes q t ++ rest) = xl_cons t (xl_loop f false None rest).
Proof.
  intros Hq Hok Hfol Hlen. destruct t as [k v]. destruct k; cbn [pp_tok_bytes pp_tok_ok] in *.
  - (* name *)
    destruct F as [|f]; [lia|]. exists f. rewrite app_length in Hlen. split.
    + destruct v; [discriminate|]. cbn [length] in Hlen. lia.
    + apply lex_name; assumption.
  - (* number *)
    destruct F as [|f]; [lia|]. exists f. rewrite app_length in Hlen.
    destruct v as [|c v]; [discriminate|]. split; [cbn [length] in Hlen; lia|].
    destruct Hfol as [H1 H2]. apply lex_number; [discriminate|assumption..].
  - (* string *)
    cbn [app] in *. rewrite <- app_assoc in *. cbn [app] in *.
    cbn [length] in Hlen. rewrite app_length in Hlen. cbn [length] in Hlen.
    exists (F - S (length v + 1)). split; [lia|].
    replace F with (S (length v + 1 + (F - S (length v + 1)))) at 1 by lia.
    apply lex_string; assumption.
  - (* operator *)
    destruct v as [|c [|d [|e v]]]; try discriminate.
    + destruct F as [|f]; [cbn in Hlen; lia|]. exists f. cbn [app length] in *. split; [lia|].
      apply lex_op1; [exact Hok|exact Hfol|lia].
    + apply andb_true_iff in Hok. destruct Hok as [Hc Hd].
      destruct F as [|f]; [cbn in Hlen; lia|]. exists f. cbn [app length] in *. split; [lia|].
      apply lex_op2; assumption.
  - (* punctuation *)
    destruct v as [|c [|d v]]; try discriminate.
    destruct F as [|f]; [cbn in Hlen; lia|]. exists f. cbn [app length] in *. split; [lia|].
    apply lex_punct; assumption.
Qed.

(* white space then a token cannot be extended by what follows when the spacing is safe *)
Lemma first_byte_app q t rest :
  pp_tok_ok q t = true -> xl_is_quote q = true ->
  exists c r, pp_tok_bytes q t ++ rest = c :: r /\ pp_first_byte q t = Some c.
Proof.
  intros Hok Hq. unfold pp_first_byte. destruct t as [[] v]; cbn [pp_tok_bytes pp_tok_ok] in *.
  - destruct v as [|c v]; [discriminate|]. exists c, (v ++ rest). split; reflexivity.
  - destruct v as [|c v]; [discriminate|]. exists c, (v ++ rest). split; reflexivity.
  - exists q, ((v ++ [q]) ++ rest). split; reflexivity.
  - destruct v as [|c v]; [discriminate|]. exists c, (v ++ rest). split; reflexivity.
  - destruct v as [|c v]; [discriminate|]. exists c, (v ++ rest). split; reflexivity.
Qed.

Lemma follows_space q t w rest : xl_is_space w = true -> follows_ok q t (w :: rest).
Proof.
  intro Hw. destruct (cc_space w Hw) as (_ & _ & _ & _ & Hic & Hd & Hdot & Htc).
  destruct t as [[] v]; cbn [follows_ok stops]; auto.
  destruct v as [|c [|d v]]; cbn [stops]; auto.
Qed.

Lemma follows_token q t t2 rest : pp_need_space q t t2 = false -> pp_tok_ok q t2 = true -> xl_is_quote q = true ->
  follows_ok q t (pp_tok_bytes q t2 ++ rest).
Proof.
  intros Hn Hok Hq. destruct (first_byte_app q t2 rest Hok Hq) as (c & r & -> & Hfb).
  unfold pp_need_space in Hn. rewrite Hfb in Hn.
  destruct t as [[] v]; cbn [follows_ok stops]; auto.
  - apply orb_false_iff in Hn. exact Hn.
  - destruct v as [|a [|b v]]; cbn [stops]; auto.
Qed.

Theorem lex_render q sp : xl_is_quote q = true -> forall ts i F,
  pp_safe q sp i ts = true -> length (pp_render q sp i ts) < F ->
  xl_loop F false None (pp_render q sp i ts) = Ok ts.
Proof.
  intros Hq. induction ts as [|t r IH]; intros i F Hs Hlen.
  - cbn [pp_safe pp_render] in *. rewrite andb_true_r in Hs.
    pose proof (lex_ws (sp i) (F - length (sp i)) [] Hs) as Hw. rewrite app_nil_r in Hw.
    replace (length (sp i) + (F - length (sp i))) with F in Hw by lia. rewrite Hw.
    destruct (F - length (sp i)) as [|f] eqn:E; [lia|]. apply xl_loop_nil.
  - cbn [pp_safe] in Hs. apply andb_true_iff in Hs. destruct Hs as [Hws Hs].
    apply andb_true_iff in Hs. destruct Hs as [Hs Hrest]. apply andb_true_iff in Hs. destruct Hs as [Hok Hgap].
    cbn [pp_render] in *. rewrite app_length in Hlen.
    replace F with (length (sp i) + (F - length (sp i))) by lia.
    rewrite lex_ws by exact Hws.
    assert (Hfol : follows_ok q t (pp_render q sp (S i) r)).
    { destruct r as [|t2 r2].
      - cbn [pp_render]. destruct (sp (S i)) as [|w ws] eqn:Esp.
        + destruct t as [[] v]; cbn [follows_ok stops]; auto. destruct v as [|a [|b v]]; cbn [stops]; auto.
        + cbn [pp_safe] in Hrest. rewrite Esp in Hrest. cbn [forallb] in Hrest.
          apply andb_true_iff in Hrest. destruct Hrest as [Hrest _]. apply andb_true_iff in Hrest.
          apply follows_space. tauto.
      - cbn [pp_render]. destruct (sp (S i)) as [|w ws] eqn:Esp.
        + cbn [app]. apply negb_true_iff in Hgap.
          cbn [pp_safe] in Hrest. apply andb_true_iff in Hrest. destruct Hrest as [_ Hrest].
          apply andb_true_iff in Hrest. destruct Hrest as [Hrest _]. apply andb_true_iff in Hrest.
          apply follows_token; tauto.
        + cbn [pp_safe] in Hrest. rewrite Esp in Hrest. cbn [forallb] in Hrest.
          apply andb_true_iff in Hrest. destruct Hrest as [Hrest _]. apply andb_true_iff in Hrest.
          cbn [app]. apply follows_space. tauto. }
    destruct (lex_token q t (pp_render q sp (S i) r) (F - length (sp i)) Hq Hok Hfol) as (f & Hf & ->); [lia|].
    rewrite (IH (S i) f Hrest Hf). reflexivity.
Qed.

Theorem lex_roundtrip q sp ts : q = XSQ \/ q = XDQ -> pp_safe q sp 0 ts = true ->
  xl_lex (pp_render q sp 0 ts) = Ok ts.
Proof.
  intros Hq Hs. unfold xl_lex, xl_lex_fuel. apply lex_render; [apply quote_is_quote, Hq|exact Hs|lia].
Qed.

(* ---- the lexer never runs out of fuel: every iteration consumes at least one byte ---- *)
Lemma xl_cons_nf t o : o <> OutOfFuel -> xl_cons t o <> OutOfFuel.
Proof. destruct o; cbn; congruence. Qed.

Lemma number_len m body : length (snd (xl_number m body)) <= length body.
Proof.
  unfold xl_number. pose proof (span_len xl_is_digit body) as H1.
  destruct (xl_span xl_is_digit body) as [ds r1]. cbn [snd] in H1.
  destruct r1 as [|d r1'].
  - cbn [snd length]. lia.
  - destruct (Byte.eqb d XDOT).
    + pose proof (span_len xl_is_digit r1') as H2. destruct (xl_span xl_is_digit r1') as [fs r2].
      cbn [snd length] in *. lia.
    + cbn [snd]. exact H1.
Qed.

Lemma number_len_digit m c r : xl_is_digit c = true -> length (snd (xl_number m (c :: r))) <= length r.
Proof.
  intro Hc. unfold xl_number. cbn [xl_span]. rewrite Hc.
  pose proof (span_len xl_is_digit r) as H1. destruct (xl_span xl_is_digit r) as [ds r1]. cbn [snd] in H1.
  destruct r1 as [|d r1'].
  - cbn [snd length]. lia.
  - destruct (Byte.eqb d XDOT).
    + pose proof (span_len xl_is_digit r1') as H2. destruct (xl_span xl_is_digit r1') as [fs r2].
      cbn [snd length] in *. lia.
    + cbn [snd]. exact H1.
Qed.

Lemma xl_loop_total f : forall pb st s, length s < f -> xl_loop f pb st s <> OutOfFuel.
Proof.
  induction f as [|f IH]; intros pb st s Hlen; [lia|].
  destruct s as [|c r]; [rewrite xl_loop_nil; discriminate|]. cbn [length] in Hlen.
  rewrite xl_loop_S. unfold xl_step.
  assert (Hr : forall pb' st', xl_loop f pb' st' r <> OutOfFuel) by (intros; apply IH; lia).
  destruct (xl_is_quote c && negb pb).
  { destruct st as [[d acc]|]; [destruct (Byte.eqb c d)|]; try apply xl_cons_nf; apply Hr. }
  destruct st as [[d acc]|]; [apply Hr|].
  destruct (xl_is_operator c).
  { destruct r as [|d r']; [discriminate|]. destruct (xl_two_char c d); apply xl_cons_nf; [apply IH; cbn [length] in *; lia|apply Hr]. }
  destruct (xl_is_punct c); [apply xl_cons_nf, Hr|].
  destruct (xl_is_space c); [apply Hr|].
  destruct (xl_ident_start c).
  { pose proof (span_len xl_ident_cont r) as Hs. destruct (xl_span xl_ident_cont r) as [a rest].
    cbn [snd] in Hs. apply xl_cons_nf, IH. lia. }
  destruct (xl_is_digit c) eqn:Hd.
  { pose proof (number_len_digit false c r Hd) as Hs. destruct (xl_number false (c :: r)) as [v rest].
    cbn [snd] in Hs. apply xl_cons_nf, IH. lia. }
  destruct (cc_number_minus && Byte.eqb c XMINUS && match r with d :: _ => xl_is_digit d | [] => false end).
  { pose proof (number_len true r) as Hs. destruct (xl_number true r) as [v rest].
    cbn [snd] in Hs. apply xl_cons_nf, IH. lia. }
  apply Hr.
Qed.

Theorem xl_lex_total s : xl_lex s <> OutOfFuel.
Proof. unfold xl_lex, xl_lex_fuel. apply xl_loop_total. lia. Qed.

(* the lexer model has no error result *)
Lemma xl_cons_ok t o : (exists l, o = Ok l) -> exists l, xl_cons t o = Ok l.
Proof. intros [l ->]. eexists. reflexivity. Qed.

(* the minus alternative of the number branch is dead code: a minus sign is an operator character and
   the operator branch comes first, so no NUMBER token begins with a minus sign *)
Lemma minus_is_operator : xl_is_operator XMINUS = true.
Proof. reflexivity. Qed.

(* ---- the single-name shortcut of the print tag gives what TokenizeExpression would give ---- *)
Lemma valid_var_name_ident s : xl_valid_var_name s = true -> pp_is_ident s = true.
Proof.
  destruct s as [|c r]; [discriminate|]. cbn [xl_valid_var_name pp_is_ident]. intro H.
  apply andb_true_iff in H. destruct H as [H _]. apply andb_true_iff in H. destruct H as [Hc Hr].
  apply andb_true_iff. split.
  - revert Hc. clear. destruct c; intro H; vm_compute in H; try discriminate H; reflexivity.
  - eapply forallb_imp; [|exact Hr]. clear. intros a H. destruct a; vm_compute in H; try discriminate H; reflexivity.
Qed.

Theorem var_tag_shortcut s : xl_valid_var_name s = true -> xl_lex s = xl_lex_var_tag s.
Proof.
  intro H. unfold xl_lex_var_tag. destruct s as [|c r] eqn:Es; [discriminate|]. rewrite <- Es in *. rewrite H.
  pose proof (valid_var_name_ident s H) as Hid.
  unfold xl_lex, xl_lex_fuel. rewrite <- (app_nil_r s) at 2.
  rewrite lex_name; [|exact Hid|exact I]. subst s. cbn [length]. rewrite xl_loop_nil. reflexivity.
Qed.
