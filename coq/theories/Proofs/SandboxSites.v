(* Proofs of property C06 (sandbox confinement), part 5: the tie to the Go code through the translator.
   Gen/CtxSites.v is regenerated from the working tree on every run (tools/gogen/gen_ctxsites.go): every statement
   that creates a render context, with how and WHEN the new context gets its sandboxed field, and where the policy
   checks sit. The obligation below is computed on those tables; it is what the model assumes of the code:
     - every creation site that has a creating context copies the flag from it (directly, or through Clone) before
       the new context is used for anything (Model/Eval.v: rc_derive ... (rc_sandboxed c) ..., rc_clone);
     - the include tag additionally forces the flag when the tag says sandboxed (rc_sandboxed c || sandboxed);
     - the sites are the ones the model has a counterpart for (ev_extends, ev_include, ev_call_macro,
       ev_import_macros), and contexts created out of nothing only at the three entry points of the engine;
     - ApplyFilter and CallFunction begin with the policy check (ev_apply_filter, ev_call_function), and
       EvaluateExpression has the refusal by node name (ev_sandbox_denies);
     - the filter table is read by ApplyFilter only, apart from the legacy loop-sequence route of ForNode.Render that
       needs a variable NAME containing a bar (no tokenised name does: Model/Eval.v ev_for_seq answers Unmodelled);
       the function table by CallFunction only. *)
From Twig Require Import Base.Bytes Gen.CtxSites.

Definition cs_mem (x : bytes) (l : list bytes) : bool := existsb (bytes_eqb x) l.
Definition cs_incl (a b : list bytes) : bool := forallb (fun x => cs_mem x b) a.
Definition cs_nil (l : list bytes) : bool := match l with [] => true | _ => false end.

(* functions whose creation sites the model mirrors *)
Definition cs_model_sites : list bytes :=
  [b#"ExtendsNode.Render"; b#"IncludeNode.Render"; b#"MacroNode.CallMacro"; b#"ImportNode.Render"; b#"FromImportNode.Render"].
(* entry points: a context made from the caller's variables, never sandboxed *)
Definition cs_entry_points : list bytes := [b#"Engine.Render"; b#"Engine.RenderTo"; b#"Template.RenderTo"].

Definition cs_site_ok (s : cs_site) : bool :=
  if cs_has_creator s then
    cs_mem (cs_func s) cs_model_sites &&
    match cs_kind_of s, cs_prop_of s with
    | CsClone, CsViaClone => true
    | CsNew, CsInherit => cs_nil (cs_uses_before s)
    | _, _ => false
    end
  else cs_mem (cs_func s) cs_entry_points.

Definition cs_include_forces : bool :=
  existsb (fun s => bytes_eqb (cs_func s) b#"IncludeNode.Render" &&
                    match cs_kind_of s with CsNew => true | CsClone => false end &&
                    match cs_forced_if s with [c] => bytes_eqb c b#"n.sandboxed" | _ => false end) cs_sites.

Definition cs_clone_ok : bool :=
  match cs_clone_prop with CsInherit => cs_nil cs_clone_uses_before | _ => false end.

Definition cs_checks_ok : bool := cs_applyfilter_check_first && cs_callfunction_check_first && cs_evalexpr_check.

Definition cs_readers_ok : bool :=
  cs_incl cs_filter_readers [b#"RenderContext.ApplyFilter"; b#"ForNode.Render"] &&
  cs_mem b#"RenderContext.ApplyFilter" cs_filter_readers &&
  cs_incl cs_function_readers [b#"RenderContext.CallFunction"] &&
  cs_mem b#"RenderContext.CallFunction" cs_function_readers.

Definition cs_obligation : bool :=
  forallb cs_site_ok cs_sites && cs_include_forces && cs_clone_ok && cs_new_resets_flag && cs_checks_ok && cs_readers_ok.

Lemma C06_sites_propagate_proof :
  (* every site propagates before first use *)
  (forall s, In s cs_sites -> cs_site_ok s = true) /\
  (* each function the model mirrors has a site *)
  (forall f, In f cs_model_sites -> exists s, In s cs_sites /\ cs_func s = f) /\
  cs_include_forces = true /\ cs_clone_ok = true /\ cs_new_resets_flag = true /\
  (* the checks are present, and nothing else looks a filter or a function up *)
  cs_applyfilter_check_first = true /\ cs_callfunction_check_first = true /\ cs_evalexpr_check = true /\
  cs_readers_ok = true.
Proof.
  assert (Hsites : forallb cs_site_ok cs_sites = true) by (vm_compute; reflexivity).
  assert (Hall : forallb (fun f0 => existsb (fun s => bytes_eqb (cs_func s) f0) cs_sites) cs_model_sites = true)
    by (vm_compute; reflexivity).
  split; [|split; [|repeat split; vm_compute; reflexivity]].
  - rewrite forallb_forall in Hsites. exact Hsites.
  - intros f Hf. rewrite forallb_forall in Hall. specialize (Hall f Hf). apply existsb_exists in Hall.
    destruct Hall as [s [Hs He]]. exists s. split; [exact Hs|]. apply bytes_eqb_eq. exact He.
Qed.

Lemma C06_sites_obligation_proof : cs_obligation = true.
Proof. vm_compute. reflexivity. Qed.
