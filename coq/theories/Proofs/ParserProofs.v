(* Proofs for property C08: the generated tables have the shape the property states, the parser
   model reads back every well-formed tree printed by pp with any choice of redundant parentheses,
   fuel xp_fuel always suffices, the lexer reads back every safely spaced token list, and the laws
   of the reference evaluator. *)
From Coq Require Import ZifyBool ZifyNat ZifyN Arith NArith Nnat.
From Twig Require Import Base.Bytes Model.Ast Model.AstInd Model.Value Model.ExprLexer Model.Parser Model.Pretty
  Gen.PrecTable Gen.CharClass Spec.ExprEval.

(* ------------------------------------------------------------------------------------------- *)
(* 1. The generated precedence table                                                            *)
(* ------------------------------------------------------------------------------------------- *)

(* every operator of the property, with the level the property gives it *)
Definition c08_level_of (o : binop) : nat :=
  match o with
  | BOr => prec_or
  | BAnd => prec_and
  | BEq | BNe | BLt | BGt | BLe | BGe | BIn | BNotIn | BMatches | BStartsWith | BEndsWith => prec_compare
  | BAdd | BSub | BConcat => prec_sum
  | BMul | BDiv | BMod => prec_product
  | BPow => prec_power
  end.

Definition c08_table_ok : bool :=
  prec_shape_found &&
  (* strict chain: conditional (0) < or < and < comparison < sum < product < power < prefix *)
  (0 <? prec_or) && (prec_or <? prec_and) && (prec_and <? prec_compare) && (prec_compare <? prec_sum) &&
  (prec_sum <? prec_product) && (prec_product <? prec_power) && (prec_power <? prec_prefix) &&
  (* every operator of the property is listed at its level *)
  forallb (fun o => pp_bprec o =? c08_level_of o) all_binops &&
  (* the spellings map back to the operators, word operators are found by peekBinaryOperator *)
  forallb (fun o => match xp_binop_of (binop_str o) with Some o' => bytes_eqb (binop_str o') (binop_str o) | None => false end) all_binops &&
  (* parseExpression starts at the lowest level; equal precedence groups from the left *)
  (prec_start =? prec_or) && (prec_right_incr =? 1) &&
  (* anything that is not in the table binds weaker than every operator *)
  (prec_default <? prec_or) && (prec_lowest =? prec_default).

Lemma c08_table_ok_true : c08_table_ok = true.
Proof. vm_compute. reflexivity. Qed.

Lemma all_binops_complete o : In o all_binops.
Proof. destruct o; cbn; tauto. Qed.

Lemma bprec_level o : pp_bprec o = c08_level_of o.
Proof. destruct o; vm_compute; reflexivity. Qed.

Lemma bprec_bounds o : prec_start <= pp_bprec o /\ pp_bprec o < pp_lv_postfix.
Proof. destruct o; vm_compute; lia. Qed.

Lemma prec_start_pos : 1 <= prec_start. Proof. vm_compute. lia. Qed.
Lemma prec_compare_bounds : prec_start <= prec_compare /\ prec_compare < pp_lv_postfix.
Proof. vm_compute. lia. Qed.
Lemma prec_right_incr_1 : prec_right_incr = 1. Proof. reflexivity. Qed.

Lemma binop_of_str o : xp_binop_of (binop_str o) = Some o.
Proof. destruct o; vm_compute; reflexivity. Qed.

(* ------------------------------------------------------------------------------------------- *)
(* 2. Basic machinery: bind, unfolding equations, eventually                                    *)
(* ------------------------------------------------------------------------------------------- *)

Definition obind {A B} (r : outcome (A * list xtok)) (k : A -> list xtok -> outcome B) : outcome B :=
  match r with
  | Ok (a, ts) => k a ts
  | Err x => Err x
  | OutOfFuel => OutOfFuel
  | Unmodelled => Unmodelled
  end.

Definition xp_loop_body (f minp : nat) (left : expr) (ts : list xtok) : xp_res :=
  match xp_peek ts with
  | None => Ok (left, ts)
  | Some (op, w) =>
      if bytes_eqb op b#"not defined" then
        if prec_compare <? minp then Ok (left, ts)
        else xp_loop f minp (ETest left b#"defined" [] true) (skipn w ts)
      else if (bytes_eqb op b#"is" || bytes_eqb op b#"is not") && xp_name_at (skipn w ts) then
        if prec_compare <? minp then Ok (left, ts)
        else obind (xp_test (xp_expr f) f left (bytes_eqb op b#"is not") (skipn w ts)) (fun l' ts' => xp_loop f minp l' ts')
      else
        if xp_get_prec op <? minp then Ok (left, ts)
        else obind (xp_level f (xp_get_prec op + prec_right_incr) (skipn w ts)) (fun r ts2 =>
               match xp_binop_of op with
               | Some o => xp_loop f minp (EBin o left r) ts2
               | None => Unmodelled
               end)
  end.

Definition xp_simple_body (f : nat) (ts : list xtok) : xp_res :=
  match ts with
  | [] => Err EParse
  | XT k v :: r =>
      match xp_unop_of k v with
      | Some o => obind (xp_simple f r) (fun e ts1 => Ok (EUn o e, ts1))
      | None =>
          match k with
          | XString => Ok (ELit (LStr (xl_unescape v)), r)
          | XNumber => if xp_has_dot v then Unmodelled else Ok (ELit (LInt (xp_atoi v)), r)
          | XName =>
              if bytes_eqb v b#"true" then Ok (ELit (LBool true), r)
              else if bytes_eqb v b#"false" then Ok (ELit (LBool false), r)
              else if bytes_eqb v b#"null" || bytes_eqb v b#"nil" then Ok (ELit LNull, r)
              else if xp_at_punct b#"(" r then
                obind (xp_list (xp_expr f) f b#")" (tl r)) (fun args ts1 => Ok (ECall v args, ts1))
              else xp_chain (xp_expr f) f (EVar v) r
          | XPunct =>
              if bytes_eqb v b#"[" then
                obind (xp_list (xp_expr f) f b#"]" r) (fun es ts1 => Ok (EArr es, ts1))
              else if bytes_eqb v b#"{" then xp_hash (xp_expr f) f r
              else if bytes_eqb v b#"(" then
                obind (xp_expr f r) (fun e ts1 => if xp_at_punct b#")" ts1 then Ok (e, tl ts1) else Err EParse)
              else Err EParse
          | XOp => Err EParse
          end
      end
  end.

Ltac eq_crush :=
  unfold xp_loop_body, xp_simple_body, xp_list, xp_hash, xp_test, obind;
  cbn [xp_expr xp_level xp_loop xp_operand xp_postfix xp_simple xp_items xp_pairs xp_chain xp_filters];
  try reflexivity;
  repeat (match goal with
          | |- context [match ?x with _ => _ end] => destruct x
          | |- context [if ?x then _ else _] => destruct x
          end; try reflexivity).

Lemma xp_expr_S f ts :
  xp_expr (S f) ts =
  obind (xp_level f prec_start ts) (fun c ts1 =>
    if xp_at_punct b#"?" ts1 then
      obind (xp_expr f (tl ts1)) (fun t ts2 =>
        if xp_at_punct b#":" ts2 then obind (xp_expr f (tl ts2)) (fun e ts3 => Ok (ECond c t e, ts3))
        else Err EParse)
    else Ok (c, ts1)).
Proof. eq_crush. Qed.

Lemma xp_level_S f p ts : xp_level (S f) p ts = obind (xp_operand f ts) (fun l ts1 => xp_loop f p l ts1).
Proof. cbn [xp_level obind]. destruct (xp_operand f ts) as [[l ts1]| | |]; reflexivity. Qed.

Lemma xp_operand_S f ts : xp_operand (S f) ts = obind (xp_simple f ts) (fun e ts1 => xp_postfix f e ts1).
Proof. cbn [xp_operand obind]. destruct (xp_simple f ts) as [[l ts1]| | |]; reflexivity. Qed.

Lemma xp_loop_S f minp left ts : xp_loop (S f) minp left ts = xp_loop_body f minp left ts.
Proof. eq_crush. Qed.

Lemma xp_postfix_S f e ts :
  xp_postfix (S f) e ts =
  if xp_at_punct b#"[" ts then
    obind (xp_expr f (tl ts)) (fun i ts1 => if xp_at_punct b#"]" ts1 then xp_postfix f (EItem e i) (tl ts1) else Err EParse)
  else if xp_at_punct b#"|" ts then
    obind (xp_filters (xp_expr f) f e ts) (fun e' ts1 => xp_postfix f e' ts1)
  else if xp_at_punct b#"." ts then
    match tl ts with
    | XT XName a :: ts1 =>
        if xp_at_punct b#"(" ts1 then
          obind (xp_list (xp_expr f) f b#")" (tl ts1)) (fun args ts2 => xp_postfix f (EModCall e a args) ts2)
        else xp_postfix f (EAttr e a) ts1
    | _ => Err EParse
    end
  else Ok (e, ts).
Proof. eq_crush. Qed.

Lemma xp_simple_S f ts : xp_simple (S f) ts = xp_simple_body f ts.
Proof. eq_crush. Qed.

Lemma xp_items_S pe n ts :
  xp_items pe (S n) ts =
  obind (pe ts) (fun e ts1 =>
    if xp_at_punct b#"," ts1 then obind (xp_items pe n (tl ts1)) (fun es ts2 => Ok (e :: es, ts2))
    else Ok ([e], ts1)).
Proof. eq_crush. Qed.

Lemma xp_list_eq pe n close ts :
  xp_list pe n close ts =
  obind (if xp_nonempty ts && negb (xp_at_punct close ts) then xp_items pe n ts else Ok ([], ts))
        (fun es ts1 => if xp_at_punct close ts1 then Ok (es, tl ts1) else Err EParse).
Proof. eq_crush. Qed.

Lemma xp_pairs_S pe n ts :
  xp_pairs pe (S n) ts =
  obind (pe ts) (fun k ts1 =>
    if xp_at_punct b#":" ts1 then
      obind (pe (tl ts1)) (fun v ts2 =>
        if xp_at_punct b#"," ts2 then obind (xp_pairs pe n (tl ts2)) (fun kvs ts3 => Ok ((k, v) :: kvs, ts3))
        else Ok ([(k, v)], ts2))
    else Err EParse).
Proof. eq_crush. Qed.

Lemma xp_hash_eq pe n ts :
  xp_hash pe n ts =
  obind (if xp_nonempty ts && negb (xp_at_punct b#"}" ts) then xp_pairs pe n ts else Ok ([], ts))
        (fun kvs ts1 => if xp_at_punct b#"}" ts1 then Ok (EHash kvs, tl ts1) else Err EParse).
Proof. eq_crush. Qed.

Lemma xp_chain_S pe n base ts :
  xp_chain pe (S n) base ts =
  if xp_at_punct b#"." ts then
    match tl ts with
    | XT XName a :: ts1 =>
        if xp_at_punct b#"(" ts1 then
          obind (xp_list pe n b#")" (tl ts1)) (fun args ts2 => xp_chain pe n (EModCall base a args) ts2)
        else xp_chain pe n (EAttr base a) ts1
    | _ => Err EParse
    end
  else Ok (base, ts).
Proof. eq_crush. Qed.

Lemma xp_filters_S pe n node ts :
  xp_filters pe (S n) node ts =
  if xp_at_punct b#"|" ts then
    match tl ts with
    | XT XName fname :: ts1 =>
        if xp_at_punct b#"(" ts1 then
          obind (xp_list pe n b#")" (tl ts1)) (fun args ts2 => xp_filters pe n (EFilter node fname args) ts2)
        else xp_filters pe n (EFilter node fname []) ts1
    | _ => Err EParse
    end
  else Ok (node, ts).
Proof. eq_crush. Qed.

Lemma xp_test_eq pe n left neg ts :
  xp_test pe n left neg ts =
  match ts with
  | XT _ tname :: ts1 =>
      if xp_at_punct b#"(" ts1 then
        obind (xp_list pe n b#")" (tl ts1)) (fun args ts2 => Ok (ETest left tname args neg, ts2))
      else Ok (ETest left tname [] neg, ts1)
  | [] => Err EParse
  end.
Proof. eq_crush. Qed.

Global Opaque xp_expr xp_level xp_loop xp_operand xp_postfix xp_simple.

(* eventually: for all sufficiently large fuel; ev2 for the helpers that take the expression parser
   and their own fuel separately *)
Ltac norm_app := repeat first [rewrite <- app_assoc | progress cbn [app]].

Definition ev (P : nat -> Prop) : Prop := exists n, forall f, n <= f -> P f.
Definition ev2 (P : nat -> nat -> Prop) : Prop := exists n, forall g k, n <= g -> n <= k -> P g k.

Lemma ev_const (P : Prop) : P -> ev (fun _ => P).
Proof. intro H. exists 0. intros. exact H. Qed.

Lemma ev_and P Q : ev P -> ev Q -> ev (fun f => P f /\ Q f).
Proof. intros [n Hn] [m Hm]. exists (max n m). intros f Hf. split; [apply Hn|apply Hm]; lia. Qed.

Lemma ev_imp (P Q : nat -> Prop) : (forall f, P f -> Q f) -> ev P -> ev Q.
Proof. intros H [n Hn]. exists n. intros f Hf. apply H, Hn, Hf. Qed.

Lemma ev2_diag P : ev2 P -> ev (fun f => P f f).
Proof. intros [n Hn]. exists n. intros f Hf. apply Hn; exact Hf. Qed.

Lemma ev_Forall {A} (P : A -> nat -> Prop) (l : list A) :
  Forall (fun a => ev (P a)) l -> ev (fun f => Forall (fun a => P a f) l).
Proof.
  induction 1 as [|a l Ha _ IH].
  - exists 0. intros. constructor.
  - destruct Ha as [n Hn]. destruct IH as [m Hm]. exists (max n m). intros f Hf.
    constructor; [apply Hn|apply Hm]; lia.
Qed.

(* ------------------------------------------------------------------------------------------- *)
(* 3. What may follow a printed sub-expression; where the loops stop                            *)
(* ------------------------------------------------------------------------------------------- *)

Definition ok_simple (rest : list xtok) : Prop :=
  xp_at_punct b#"(" rest = false /\ xp_at_punct b#"." rest = false.
Definition ok_follow (rest : list xtok) : Prop :=
  ok_simple rest /\ xp_at_punct b#"[" rest = false /\ xp_at_punct b#"|" rest = false.

(* the precedence with which the loop of parseBinaryLevel treats the head of the tokens *)
Definition xp_peek_prec (ts : list xtok) : option nat :=
  match xp_peek ts with
  | None => None
  | Some (op, w) =>
      if bytes_eqb op b#"not defined" then Some prec_compare
      else if (bytes_eqb op b#"is" || bytes_eqb op b#"is not") && xp_name_at (skipn w ts) then Some prec_compare
      else Some (xp_get_prec op)
  end.
Definition ok_rest (q : nat) (ts : list xtok) : Prop :=
  match xp_peek_prec ts with None => True | Some p => p < q end.
Definition no_cont (rest : list xtok) : Prop :=
  ok_follow rest /\ ok_rest prec_start rest /\ xp_at_punct b#"?" rest = false.

Lemma ok_rest_mono q q' rest : q <= q' -> ok_rest q rest -> ok_rest q' rest.
Proof. unfold ok_rest. destruct (xp_peek_prec rest); [lia|tauto]. Qed.

Lemma loop_stop f p e rest : ok_rest p rest -> xp_loop (S f) p e rest = Ok (e, rest).
Proof.
  rewrite xp_loop_S. unfold xp_loop_body, ok_rest, xp_peek_prec.
  destruct (xp_peek rest) as [[op w]|]; [|reflexivity].
  destruct (bytes_eqb op b#"not defined").
  { intro H. assert (E : (prec_compare <? p) = true) by (apply Nat.ltb_lt; exact H). rewrite E. reflexivity. }
  destruct ((bytes_eqb op b#"is" || bytes_eqb op b#"is not") && xp_name_at (skipn w rest)).
  { intro H. assert (E : (prec_compare <? p) = true) by (apply Nat.ltb_lt; exact H). rewrite E. reflexivity. }
  intro H. assert (E : (xp_get_prec op <? p) = true) by (apply Nat.ltb_lt; exact H). rewrite E. reflexivity.
Qed.

Lemma postfix_stop f e rest :
  xp_at_punct b#"[" rest = false -> xp_at_punct b#"|" rest = false -> xp_at_punct b#"." rest = false ->
  xp_postfix (S f) e rest = Ok (e, rest).
Proof. intros H1 H2 H3. rewrite xp_postfix_S, H1, H2, H3. reflexivity. Qed.

(* what must not follow an operand: never an opening parenthesis (it would make a call of a name); a dot
   only matters when the printed form ends in a bare name chain (flag c) *)
Definition osc (c : bool) (rest : list xtok) : Prop :=
  xp_at_punct b#"(" rest = false /\ (c = true -> xp_at_punct b#"." rest = false).
Lemma osc_of_simple c rest : ok_simple rest -> osc c rest.
Proof. intros [H1 H2]. split; [exact H1|intros _; exact H2]. Qed.
Lemma osc_weaken c rest : osc true rest -> osc c rest.
Proof. intros [H1 H2]. split; [exact H1|intros _; apply H2; reflexivity]. Qed.
Lemma osc_true_simple rest : osc true rest -> ok_simple rest.
Proof. intros [H1 H2]. split; [exact H1|apply H2; reflexivity]. Qed.

Lemma at_punct_same c r : xp_at_punct c (pp_P c :: r) = true.
Proof. unfold xp_at_punct, pp_P. apply bytes_eqb_refl. Qed.

Definition closers : list bytes := [b#")"; b#"]"; b#"}"; b#","; b#":"].

Lemma no_cont_closer c rest : In c closers -> no_cont (pp_P c :: rest).
Proof.
  intro H. unfold closers in H. cbn [In] in H.
  destruct H as [<-|[<-|[<-|[<-|[<-|[]]]]]];
    (unfold no_cont, ok_follow, ok_simple, ok_rest, xp_peek_prec; repeat split; try reflexivity; exact I).
Qed.

Lemma no_cont_nil : no_cont [].
Proof. unfold no_cont, ok_follow, ok_simple, ok_rest, xp_peek_prec. repeat split; try reflexivity. Qed.

(* a closing token cannot start an expression *)
Lemma xp_expr_not_closer g c ts :
  In c [b#")"; b#"]"; b#"}"] -> xp_at_punct c ts = true -> forall e r, xp_expr g ts <> Ok (e, r).
Proof.
  intros Hc Hat e r.
  destruct ts as [|[k v] ts']; [discriminate|]. destruct k; try discriminate.
  cbn [xp_at_punct] in Hat. apply bytes_eqb_eq in Hat. subst v.
  destruct g as [|g]; [discriminate|]. rewrite xp_expr_S.
  destruct g as [|g]; [discriminate|]. rewrite xp_level_S.
  destruct g as [|g]; [discriminate|]. rewrite xp_operand_S.
  destruct g as [|g]; [discriminate|]. rewrite xp_simple_S.
  cbn [In] in Hc. destruct Hc as [<-|[<-|[<-|[]]]]; discriminate.
Qed.

(* ------------------------------------------------------------------------------------------- *)
(* 4. The four statements, for an arbitrary token list t that prints e                          *)
(* ------------------------------------------------------------------------------------------- *)

Definition gS (c : bool) (t : list xtok) (e : expr) : Prop :=
  forall rest, osc c rest -> ev (fun f => xp_simple f (t ++ rest) = Ok (e, rest)).
Definition gO (c : bool) (t : list xtok) (e : expr) : Prop :=
  forall rest res, osc c rest -> res <> OutOfFuel ->
    ev (fun f => xp_postfix f e rest = res) -> ev (fun f => xp_operand f (t ++ rest) = res).
Definition gD (t : list xtok) (e : expr) (lv : nat) : Prop :=
  forall p rest res, prec_start <= p -> p <= lv -> ok_follow rest -> ok_rest (S lv) rest ->
    ev (fun f => xp_loop f p e rest = res) -> ev (fun f => xp_level f p (t ++ rest) = res).
Definition gE (t : list xtok) (e : expr) : Prop :=
  forall rest, no_cont rest -> ev (fun f => xp_expr f (t ++ rest) = Ok (e, rest)).

Lemma gS_weaken c t e : gS false t e -> gS c t e.
Proof. intros H rest [H1 _]. apply H. split; [exact H1|discriminate]. Qed.
Lemma gO_weaken c t e : gO false t e -> gO c t e.
Proof. intros H rest res [H1 _]. apply H. split; [exact H1|discriminate]. Qed.

Lemma gS_gO c t e : gS c t e -> gO c t e.
Proof.
  intros HS rest res Hs _ [n2 H2]. destruct (HS rest Hs) as [n1 H1].
  exists (S (n1 + n2)). intros f Hf. destruct f as [|f]; [lia|].
  rewrite xp_operand_S, H1 by lia. cbn [obind]. apply H2. lia.
Qed.

Lemma gO_level c t e : gO c t e ->
  forall p rest res, ok_follow rest ->
    ev (fun f => xp_loop f p e rest = res) -> ev (fun f => xp_level f p (t ++ rest) = res).
Proof.
  intros HO p rest res [Hs [Hb Hf]] [n2 H2].
  assert (H1 : ev (fun f => xp_operand f (t ++ rest) = Ok (e, rest))).
  { apply HO; [apply osc_of_simple, Hs|discriminate|]. exists 1. intros f Hf1. destruct f as [|f]; [lia|].
    apply postfix_stop; try assumption. apply Hs. }
  destruct H1 as [n1 H1]. exists (S (n1 + n2)). intros f Hle. destruct f as [|f]; [lia|].
  rewrite xp_level_S, H1 by lia. cbn [obind]. apply H2. lia.
Qed.

Lemma gO_gD c t e lv : gO c t e -> gD t e lv.
Proof. intros HO p rest res _ _ Hfol _ Hloop. eapply gO_level; eassumption. Qed.

Lemma gD_weaken t e lv lv' : lv' <= lv -> gD t e lv -> gD t e lv'.
Proof.
  intros Hle HD p rest res Hp Hpl Hfol Hok Hloop. apply HD; try assumption; [lia|].
  eapply ok_rest_mono; [|exact Hok]. lia.
Qed.

Lemma gD_gE t e lv : prec_start <= lv -> gD t e lv -> gE t e.
Proof.
  intros Hlv HD rest [Hfol [Hok Hq]].
  assert (H1 : ev (fun f => xp_level f prec_start (t ++ rest) = Ok (e, rest))).
  { apply HD; [lia|exact Hlv|exact Hfol| |].
    - eapply ok_rest_mono; [|exact Hok]. lia.
    - exists 1. intros f Hf. destruct f as [|f]; [lia|]. apply loop_stop. exact Hok. }
  destruct H1 as [n1 H1]. exists (S n1). intros f Hf. destruct f as [|f]; [lia|].
  rewrite xp_expr_S, H1 by lia. cbn [obind]. rewrite Hq. reflexivity.
Qed.

Lemma simple_lparen f r :
  xp_simple (S f) (pp_P b#"(" :: r) =
  obind (xp_expr f r) (fun e ts1 => if xp_at_punct b#")" ts1 then Ok (e, tl ts1) else Err EParse).
Proof. rewrite xp_simple_S. reflexivity. Qed.

Lemma paren_gS t e : gE t e -> gS false (pp_P b#"(" :: t ++ [pp_P b#")"]) e.
Proof.
  intros HE rest _.
  destruct (HE (pp_P b#")" :: rest)) as [n Hn]; [apply no_cont_closer; cbn; tauto|].
  exists (S n). intros f Hf. destruct f as [|f]; [lia|].
  cbn [app]. rewrite <- app_assoc. cbn [app]. rewrite simple_lparen, Hn by lia. cbn [obind].
  rewrite at_punct_same. reflexivity.
Qed.

(* ------------------------------------------------------------------------------------------- *)
(* 4b. More fuel never changes an answer                                                         *)
(* ------------------------------------------------------------------------------------------- *)

Definition le_out {A} (r r' : outcome A) : Prop := r = OutOfFuel \/ r = r'.
Definition ple (pe pe' : list xtok -> xp_res) : Prop := forall ts, le_out (pe ts) (pe' ts).

Lemma le_out_refl {A} (r : outcome A) : le_out r r.
Proof. right. reflexivity. Qed.
Lemma le_out_oof {A} (r : outcome A) : le_out OutOfFuel r.
Proof. left. reflexivity. Qed.

Lemma le_obind {A B} (r r' : outcome (A * list xtok)) (k k' : A -> list xtok -> outcome B) :
  le_out r r' -> (forall a t, le_out (k a t) (k' a t)) -> le_out (obind r k) (obind r' k').
Proof.
  intros [->| ->] Hk; [left; reflexivity|]. destruct r' as [[a t]| | |]; cbn [obind].
  - apply Hk.
  - right; reflexivity.
  - left; reflexivity.
  - right; reflexivity.
Qed.

Lemma le_out_eq {A} (r r' res : outcome A) : le_out r r' -> r = res -> res <> OutOfFuel -> r' = res.
Proof. intros [->| ->] H Hn; [congruence|exact H]. Qed.

Ltac le_auto :=
  repeat first
    [ apply le_out_refl
    | apply le_out_oof
    | match goal with
      | |- le_out (if ?c then _ else _) (if ?c then _ else _) => destruct c
      | |- le_out (match ?c with _ => _ end) (match ?c with _ => _ end) => destruct c
      | |- le_out (obind _ _) (obind _ _) => apply le_obind; [|intros ? ?]
      end ].

Lemma items_mono pe pe' : ple pe pe' -> forall n n' ts, n <= n' -> le_out (xp_items pe n ts) (xp_items pe' n' ts).
Proof.
  intros Hpe. induction n as [|n IH]; intros n' ts Hn; [apply le_out_oof|].
  destruct n' as [|n']; [lia|]. rewrite !xp_items_S. le_auto; [apply Hpe|apply IH; lia].
Qed.

Lemma list_mono pe pe' : ple pe pe' -> forall n n' close ts, n <= n' -> le_out (xp_list pe n close ts) (xp_list pe' n' close ts).
Proof.
  intros Hpe n n' close ts Hn. rewrite !xp_list_eq. le_auto. apply items_mono; assumption.
Qed.

Lemma pairs_mono pe pe' : ple pe pe' -> forall n n' ts, n <= n' -> le_out (xp_pairs pe n ts) (xp_pairs pe' n' ts).
Proof.
  intros Hpe. induction n as [|n IH]; intros n' ts Hn; [apply le_out_oof|].
  destruct n' as [|n']; [lia|]. rewrite !xp_pairs_S. le_auto; [apply Hpe|apply Hpe|apply IH; lia].
Qed.

Lemma hash_mono pe pe' : ple pe pe' -> forall n n' ts, n <= n' -> le_out (xp_hash pe n ts) (xp_hash pe' n' ts).
Proof.
  intros Hpe n n' ts Hn. rewrite !xp_hash_eq. le_auto. apply pairs_mono; assumption.
Qed.

Lemma chain_mono pe pe' : ple pe pe' -> forall n n' base ts, n <= n' -> le_out (xp_chain pe n base ts) (xp_chain pe' n' base ts).
Proof.
  intros Hpe. induction n as [|n IH]; intros n' base ts Hn; [apply le_out_oof|].
  destruct n' as [|n']; [lia|]. rewrite !xp_chain_S. le_auto; try (apply IH; lia). apply list_mono; [assumption|lia].
Qed.

Lemma filters_mono pe pe' : ple pe pe' -> forall n n' node ts, n <= n' -> le_out (xp_filters pe n node ts) (xp_filters pe' n' node ts).
Proof.
  intros Hpe. induction n as [|n IH]; intros n' node ts Hn; [apply le_out_oof|].
  destruct n' as [|n']; [lia|]. rewrite !xp_filters_S. le_auto; try (apply IH; lia). apply list_mono; [assumption|lia].
Qed.

Lemma test_mono pe pe' : ple pe pe' -> forall n n' left neg ts, n <= n' -> le_out (xp_test pe n left neg ts) (xp_test pe' n' left neg ts).
Proof.
  intros Hpe n n' left neg ts Hn. rewrite !xp_test_eq. le_auto. apply list_mono; assumption.
Qed.

Definition mono_at (f : nat) : Prop :=
  forall f', f <= f' ->
    (forall ts, le_out (xp_expr f ts) (xp_expr f' ts)) /\
    (forall p ts, le_out (xp_level f p ts) (xp_level f' p ts)) /\
    (forall p l ts, le_out (xp_loop f p l ts) (xp_loop f' p l ts)) /\
    (forall ts, le_out (xp_operand f ts) (xp_operand f' ts)) /\
    (forall e ts, le_out (xp_postfix f e ts) (xp_postfix f' e ts)) /\
    (forall ts, le_out (xp_simple f ts) (xp_simple f' ts)).

Lemma xp_zero :
  (forall ts, xp_expr 0 ts = OutOfFuel) /\ (forall p ts, xp_level 0 p ts = OutOfFuel) /\
  (forall p l ts, xp_loop 0 p l ts = OutOfFuel) /\ (forall ts, xp_operand 0 ts = OutOfFuel) /\
  (forall e ts, xp_postfix 0 e ts = OutOfFuel) /\ (forall ts, xp_simple 0 ts = OutOfFuel).
Proof. Transparent xp_expr xp_level xp_loop xp_operand xp_postfix xp_simple. repeat split; reflexivity. Qed.
Global Opaque xp_expr xp_level xp_loop xp_operand xp_postfix xp_simple.

Lemma mono_all f : mono_at f.
Proof.
  induction f as [|f IH]; intros f' Hle.
  - destruct xp_zero as (H1 & H2 & H3 & H4 & H5 & H6).
    repeat split; intros; rewrite ?H1, ?H2, ?H3, ?H4, ?H5, ?H6; apply le_out_oof.
  - destruct f' as [|f']; [lia|]. destruct (IH f' ltac:(lia)) as (He & Hl & Ho & Hp & Hq & Hs).
    assert (Hple : ple (xp_expr f) (xp_expr f')) by exact He.
    repeat split.
    + intros ts. rewrite !xp_expr_S. le_auto; try apply He. apply Hl.
    + intros p ts. rewrite !xp_level_S. le_auto; [apply Hp|apply Ho].
    + intros p l ts. rewrite !xp_loop_S. unfold xp_loop_body. le_auto; try apply Ho; try apply Hl.
      apply test_mono; [exact Hple|lia].
    + intros ts. rewrite !xp_operand_S. le_auto; [apply Hs|apply Hq].
    + intros e ts. rewrite !xp_postfix_S. le_auto; try apply He; try apply Hq.
      * apply filters_mono; [exact Hple|lia].
      * apply list_mono; [exact Hple|lia].
    + intros ts. rewrite !xp_simple_S. unfold xp_simple_body. le_auto; try apply Hs; try apply He.
      * apply list_mono; [exact Hple|lia].
      * apply chain_mono; [exact Hple|lia].
      * apply list_mono; [exact Hple|lia].
      * apply hash_mono; [exact Hple|lia].
Qed.

Lemma expr_mono f f' ts : f <= f' -> le_out (xp_expr f ts) (xp_expr f' ts).
Proof. intro H. apply (mono_all f f' H). Qed.
Lemma ple_expr f f' : f <= f' -> ple (xp_expr f) (xp_expr f').
Proof. intros H ts. apply expr_mono, H. Qed.
Lemma postfix_mono f f' e ts : f <= f' -> le_out (xp_postfix f e ts) (xp_postfix f' e ts).
Proof. intro H. apply (mono_all f f' H). Qed.

(* ------------------------------------------------------------------------------------------- *)
(* 5. The printer, unfolded                                                                      *)
(* ------------------------------------------------------------------------------------------- *)

Section RoundTrip.
Variable px : expr -> bool.

Definition ppar (q : nat) (e : expr) : list xtok :=
  if (pp_level e <? q) || px e then pp_P b#"(" :: pp px e ++ [pp_P b#")"] else pp px e.
Definition pargs (es : list expr) : list xtok :=
  pp_P b#"(" :: pp_join (pp_P b#",") (map (ppar 0) es) ++ [pp_P b#")"].
Definition poargs (es : list expr) : list xtok := match es with [] => [] | _ => pargs es end.

Definition pdot (e : expr) : list xtok :=
  if (pp_level e <? pp_lv_postfix) || px e || pp_dot_open e then pp_P b#"(" :: pp px e ++ [pp_P b#")"] else pp px e.
Lemma pp_EAttr b a : pp px (EAttr b a) = (if pp_is_chain b then pp px b else pdot b) ++ [pp_P b#"."; pp_N a].
Proof. reflexivity. Qed.
Lemma pp_EModCall m f es :
  pp px (EModCall m f es) = (if pp_is_chain m then pp px m else pdot m) ++ pp_P b#"." :: pp_N f :: pargs es.
Proof. reflexivity. Qed.
Lemma pp_EItem b i : pp px (EItem b i) = ppar pp_lv_postfix b ++ pp_P b#"[" :: ppar 0 i ++ [pp_P b#"]"].
Proof. reflexivity. Qed.
Lemma pp_EUn o a : pp px (EUn o a) = pp_unop_tok o :: ppar pp_lv_simple a.
Proof. reflexivity. Qed.
Lemma pp_EBin o l r :
  pp px (EBin o l r) = ppar (pp_bprec o) l ++ pp_binop_toks o ++ ppar (pp_bprec o + prec_right_incr) r.
Proof. reflexivity. Qed.
Lemma pp_ECond c t f :
  pp px (ECond c t f) = ppar prec_start c ++ pp_P b#"?" :: ppar 0 t ++ pp_P b#":" :: ppar 0 f.
Proof. reflexivity. Qed.
Lemma pp_EArr es : pp px (EArr es) = pp_P b#"[" :: pp_join (pp_P b#",") (map (ppar 0) es) ++ [pp_P b#"]"].
Proof. reflexivity. Qed.
Lemma pp_EHash kvs :
  pp px (EHash kvs) =
  pp_P b#"{" :: pp_join (pp_P b#",") (map (fun kv => ppar 0 (fst kv) ++ pp_P b#":" :: ppar 0 (snd kv)) kvs) ++ [pp_P b#"}"].
Proof.
  cbn [pp]. f_equal. f_equal. f_equal. apply map_ext. intros [k v]. reflexivity.
Qed.
Lemma pp_EFilter b f es : pp px (EFilter b f es) = ppar pp_lv_postfix b ++ pp_P b#"|" :: pp_N f :: poargs es.
Proof. destruct es; reflexivity. Qed.
Lemma pp_ECall f es : pp px (ECall f es) = pp_N f :: pargs es.
Proof. reflexivity. Qed.
Lemma pp_ETest b t es neg :
  pp px (ETest b t es neg) =
  ppar prec_compare b ++ pp_N b#"is" :: (if neg then [pp_N b#"not"] else []) ++ pp_N t :: poargs es.
Proof. destruct es; reflexivity. Qed.

(* the statements for the printed form of e *)
Definition stC (e : expr) : Prop :=
  forall rest res, xp_at_punct b#"(" rest = false ->
    ev2 (fun g k => xp_chain (xp_expr g) k e rest = res) ->
    ev (fun f => xp_simple f (pp px e ++ rest) = res).
Definition stAll (e : expr) : Prop :=
  (pp_is_chain e = true -> stC e) /\
  (pp_lv_simple <= pp_level e -> gS (pp_dot_open e) (pp px e) e) /\
  (pp_lv_postfix <= pp_level e -> gO (pp_dot_open e) (pp px e) e) /\
  gD (pp px e) e (pp_level e) /\
  gE (pp px e) e.

(* from the strongest statement available for the level of e to all the others *)
Lemma stAll_of_S e : pp_level e = pp_lv_simple -> (pp_is_chain e = true -> stC e) -> gS (pp_dot_open e) (pp px e) e -> stAll e.
Proof.
  intros Hl HC HS. pose proof (gS_gO _ _ _ HS) as HO. pose proof (gO_gD _ _ _ (pp_level e) HO) as HD.
  split; [exact HC|]. split; [intros _; exact HS|]. split; [intros _; exact HO|]. split; [exact HD|].
  eapply gD_gE; [|exact HD]. rewrite Hl. vm_compute. lia.
Qed.

Lemma stAll_of_O e : pp_level e = pp_lv_postfix -> pp_is_chain e = false -> gO (pp_dot_open e) (pp px e) e -> stAll e.
Proof.
  intros Hl Hc HO. pose proof (gO_gD _ _ _ (pp_level e) HO) as HD.
  split; [intro H; congruence|]. split; [intro H; rewrite Hl in H; vm_compute in H; lia|].
  split; [intros _; exact HO|]. split; [exact HD|].
  eapply gD_gE; [|exact HD]. rewrite Hl. vm_compute. lia.
Qed.

Lemma stAll_of_D e :
  prec_start <= pp_level e -> pp_level e < pp_lv_postfix -> pp_is_chain e = false ->
  gD (pp px e) e (pp_level e) -> stAll e.
Proof.
  intros Hlo Hhi Hc HD.
  split; [intro H; congruence|]. split; [intro H; unfold pp_lv_simple, pp_lv_postfix in *; lia|].
  split; [intro H; lia|]. split; [exact HD|].
  eapply gD_gE; [exact Hlo|exact HD].
Qed.

(* an operand printed by ppar q, parsed at any level up to q *)
Lemma ppar_paren q e : (pp_level e <? q) || px e = true -> ppar q e = pp_P b#"(" :: pp px e ++ [pp_P b#")"].
Proof. intro H. unfold ppar. rewrite H. reflexivity. Qed.
Lemma ppar_plain q e : (pp_level e <? q) || px e = false -> ppar q e = pp px e /\ q <= pp_level e.
Proof.
  intro H. unfold ppar. rewrite H. apply orb_false_iff in H. destruct H as [H _].
  apply Nat.ltb_ge in H. split; [reflexivity|exact H].
Qed.

Lemma ppar_E e q : stAll e -> gE (ppar q e) e.
Proof.
  intros (_ & _ & _ & _ & HE). destruct ((pp_level e <? q) || px e) eqn:Ep.
  - rewrite (ppar_paren _ _ Ep).
    pose proof (paren_gS _ _ HE) as HS. eapply gD_gE; [|apply (gO_gD false _ _ prec_start), gS_gO, HS]. lia.
  - destruct (ppar_plain _ _ Ep) as [-> _]. exact HE.
Qed.

Lemma ppar_S e : stAll e -> gS (pp_dot_open e) (ppar pp_lv_simple e) e.
Proof.
  intros (HC & HS & HO & HD & HE). destruct ((pp_level e <? pp_lv_simple) || px e) eqn:Ep.
  - rewrite (ppar_paren _ _ Ep). apply gS_weaken, paren_gS, HE.
  - destruct (ppar_plain _ _ Ep) as [-> Hq]. apply HS, Hq.
Qed.

Lemma ppar_O e : stAll e -> gO (pp_dot_open e) (ppar pp_lv_postfix e) e.
Proof.
  intros (HC & HS & HO & HD & HE). destruct ((pp_level e <? pp_lv_postfix) || px e) eqn:Ep.
  - rewrite (ppar_paren _ _ Ep). apply gO_weaken, gS_gO, paren_gS, HE.
  - destruct (ppar_plain _ _ Ep) as [-> Hq]. apply HO, Hq.
Qed.

(* the base of an attribute access: whatever may follow, a dot included *)
Lemma pdot_O e : stAll e -> gO false (pdot e) e.
Proof.
  intros (HC & HS & HO & HD & HE). unfold pdot.
  destruct ((pp_level e <? pp_lv_postfix) || px e || pp_dot_open e) eqn:Ep.
  - apply gS_gO, paren_gS, HE.
  - apply orb_false_iff in Ep. destruct Ep as [Ep Hopen]. apply orb_false_iff in Ep. destruct Ep as [Hlv _].
    apply Nat.ltb_ge in Hlv. rewrite <- Hopen. apply HO, Hlv.
Qed.

Lemma at_punct_diff c d r : bytes_eqb d c = false -> xp_at_punct c (pp_P d :: r) = false.
Proof. intro H. exact H. Qed.

(* parsed by the climbing loop at level p <= q: parenthesised, or of level at least q and followed by
   something that binds no tighter than its own level *)
Lemma ppar_D e q : stAll e ->
  forall p rest res, prec_start <= p -> p <= q -> ok_follow rest ->
    ((pp_level e <? q) || px e = false -> ok_rest (S (pp_level e)) rest) ->
    ev (fun f => xp_loop f p e rest = res) -> ev (fun f => xp_level f p (ppar q e ++ rest) = res).
Proof.
  intros (HC & HS & HO & HD & HE) p rest res Hp Hpq Hfol Hok Hloop.
  destruct ((pp_level e <? q) || px e) eqn:Ep.
  - rewrite (ppar_paren _ _ Ep).
    eapply gO_level; [apply gS_gO, paren_gS, HE|exact Hfol|exact Hloop].
  - destruct (ppar_plain _ _ Ep) as [-> Hq]. apply HD; try assumption; [lia|]. apply Hok. reflexivity.
Qed.

(* ---- expression lists ---- *)
Lemma xp_expr_nil g e r : xp_expr g [] <> Ok (e, r).
Proof.
  destruct g as [|g]; [discriminate|]. rewrite xp_expr_S.
  destruct g as [|g]; [discriminate|]. rewrite xp_level_S.
  destruct g as [|g]; [discriminate|]. rewrite xp_operand_S.
  destruct g as [|g]; [discriminate|]. rewrite xp_simple_S. discriminate.
Qed.

Lemma join_cons2 (sep : xtok) (a b : list xtok) (l : list (list xtok)) :
  pp_join sep (a :: b :: l) = a ++ sep :: pp_join sep (b :: l).
Proof. reflexivity. Qed.

Lemma items_ev es : es <> [] -> Forall (fun e => gE (ppar 0 e) e) es ->
  forall rest, no_cont rest -> xp_at_punct b#"," rest = false ->
  ev2 (fun g k => xp_items (xp_expr g) k (pp_join (pp_P b#",") (map (ppar 0) es) ++ rest) = Ok (es, rest)).
Proof.
  induction es as [|e es IH]; [congruence|]. intros _ HF rest Hnc Hcomma.
  inversion HF as [|? ? He HF']; subst.
  destruct es as [|e2 es'].
  - cbn [map pp_join]. destruct (He rest Hnc) as [n Hn]. exists (S n). intros g k Hg Hk.
    destruct k as [|k]; [lia|]. rewrite xp_items_S, Hn by lia. cbn [obind]. rewrite Hcomma. reflexivity.
  - cbn [map]. rewrite join_cons2, <- app_assoc. cbn [app].
    destruct (He (pp_P b#"," :: pp_join (pp_P b#",") (map (ppar 0) (e2 :: es')) ++ rest)) as [n1 H1].
    { apply no_cont_closer. cbn. tauto. }
    destruct (IH ltac:(discriminate) HF' rest Hnc Hcomma) as [n2 H2].
    exists (S (n1 + n2)). intros g k Hg Hk. destruct k as [|k]; [lia|].
    rewrite xp_items_S, H1 by lia. cbn [obind]. rewrite at_punct_same. cbn [tl].
    cbn [map] in H2. rewrite H2 by lia. reflexivity.
Qed.

Lemma list_ev close es : In close [b#")"; b#"]"] -> Forall (fun e => gE (ppar 0 e) e) es ->
  forall rest,
  ev2 (fun g k => xp_list (xp_expr g) k close (pp_join (pp_P b#",") (map (ppar 0) es) ++ pp_P close :: rest) = Ok (es, rest)).
Proof.
  intros Hc HF rest.
  assert (Hcl : In close closers) by (cbn in *; tauto).
  assert (Hcomma : xp_at_punct b#"," (pp_P close :: rest) = false).
  { cbn [In] in Hc. destruct Hc as [<-|[<-|[]]]; reflexivity. }
  destruct es as [|e es].
  - exists 0. intros g k _ _. cbn [map pp_join app]. rewrite xp_list_eq.
    cbn [xp_nonempty andb]. rewrite at_punct_same. cbn [negb obind]. rewrite at_punct_same. reflexivity.
  - destruct (items_ev (e :: es) ltac:(discriminate) HF (pp_P close :: rest) (no_cont_closer _ _ Hcl) Hcomma) as [n Hn].
    exists (S n). intros g k Hg Hk. rewrite xp_list_eq.
    set (T := pp_join (pp_P b#",") (map (ppar 0) (e :: es)) ++ pp_P close :: rest) in *.
    assert (HT : xp_items (xp_expr g) k T = Ok (e :: es, pp_P close :: rest)) by (apply Hn; lia).
    assert (Hne : xp_nonempty T = true /\ xp_at_punct close T = false).
    { destruct k as [|k]; [lia|]. rewrite xp_items_S in HT.
      destruct (xp_expr g T) as [[e0 r0]| | |] eqn:E0; try discriminate.
      split.
      - destruct T; [exfalso; eapply xp_expr_nil; exact E0|reflexivity].
      - destruct (xp_at_punct close T) eqn:Ec; [|reflexivity]. exfalso.
        eapply (xp_expr_not_closer g close T); [cbn in *; tauto|exact Ec|exact E0]. }
    destruct Hne as [-> ->]. cbn [andb negb]. rewrite HT. cbn [obind]. rewrite at_punct_same. reflexivity.
Qed.

(* an argument list in parentheses, as printed by pargs *)
Lemma pargs_ev es : Forall (fun e => gE (ppar 0 e) e) es -> forall rest,
  ev2 (fun g k => xp_list (xp_expr g) k b#")" (tl (pargs es ++ rest)) = Ok (es, rest)).
Proof.
  intros HF rest. unfold pargs. cbn [app tl]. rewrite <- app_assoc. cbn [app].
  apply list_ev; [cbn; tauto|exact HF].
Qed.

Lemma pargs_at es rest : xp_at_punct b#"(" (pargs es ++ rest) = true.
Proof. unfold pargs. cbn [app]. apply at_punct_same. Qed.

(* ---- hash pairs ---- *)
Definition ppair (kv : expr * expr) : list xtok := ppar 0 (fst kv) ++ pp_P b#":" :: ppar 0 (snd kv).

Lemma pairs_ev kvs : kvs <> [] -> Forall (fun kv => gE (ppar 0 (fst kv)) (fst kv) /\ gE (ppar 0 (snd kv)) (snd kv)) kvs ->
  forall rest, no_cont rest -> xp_at_punct b#"," rest = false ->
  ev2 (fun g k => xp_pairs (xp_expr g) k (pp_join (pp_P b#",") (map ppair kvs) ++ rest) = Ok (kvs, rest)).
Proof.
  induction kvs as [|[k v] kvs IH]; [congruence|]. intros _ HF rest Hnc Hcomma.
  inversion HF as [|? ? [Hk Hv] HF']; subst. cbn [fst snd] in *.
  destruct kvs as [|kv2 kvs'].
  - cbn [map pp_join]. unfold ppair at 1. cbn [fst snd]. rewrite <- app_assoc. cbn [app].
    destruct (Hk (pp_P b#":" :: ppar 0 v ++ rest)) as [n1 H1]; [apply no_cont_closer; cbn; tauto|].
    destruct (Hv rest Hnc) as [n2 H2].
    exists (S (n1 + n2)). intros g q Hg Hq. destruct q as [|q]; [lia|].
    rewrite xp_pairs_S, H1 by lia. cbn [obind]. rewrite at_punct_same. cbn [tl].
    rewrite H2 by lia. cbn [obind]. rewrite Hcomma. reflexivity.
  - cbn [map]. rewrite join_cons2. unfold ppair at 1. cbn [fst snd]. norm_app.
    set (R := pp_join (pp_P b#",") (ppair kv2 :: map ppair kvs') ++ rest).
    destruct (Hk (pp_P b#":" :: ppar 0 v ++ pp_P b#"," :: R)) as [n1 H1]; [apply no_cont_closer; cbn; tauto|].
    destruct (Hv (pp_P b#"," :: R)) as [n2 H2]; [apply no_cont_closer; cbn; tauto|].
    destruct (IH ltac:(discriminate) HF' rest Hnc Hcomma) as [n3 H3].
    exists (S (n1 + n2 + n3)). intros g q Hg Hq. destruct q as [|q]; [lia|].
    rewrite xp_pairs_S, H1 by lia. cbn [obind]. rewrite at_punct_same. cbn [tl].
    rewrite H2 by lia. cbn [obind]. rewrite at_punct_same. cbn [tl].
    cbn [map] in H3. unfold R. rewrite H3 by lia. reflexivity.
Qed.

Lemma hash_ev kvs : Forall (fun kv => gE (ppar 0 (fst kv)) (fst kv) /\ gE (ppar 0 (snd kv)) (snd kv)) kvs ->
  forall rest,
  ev2 (fun g k => xp_hash (xp_expr g) k (pp_join (pp_P b#",") (map ppair kvs) ++ pp_P b#"}" :: rest) = Ok (EHash kvs, rest)).
Proof.
  intros HF rest.
  destruct kvs as [|kv kvs].
  - exists 0. intros g k _ _. cbn [map pp_join app]. rewrite xp_hash_eq.
    cbn [xp_nonempty andb]. rewrite at_punct_same. cbn [negb obind]. rewrite at_punct_same. reflexivity.
  - destruct (pairs_ev (kv :: kvs) ltac:(discriminate) HF (pp_P b#"}" :: rest)) as [n Hn];
      [apply no_cont_closer; cbn; tauto|reflexivity|].
    exists (S n). intros g k Hg Hk. rewrite xp_hash_eq.
    set (T := pp_join (pp_P b#",") (map ppair (kv :: kvs)) ++ pp_P b#"}" :: rest) in *.
    assert (HT : xp_pairs (xp_expr g) k T = Ok (kv :: kvs, pp_P b#"}" :: rest)) by (apply Hn; lia).
    assert (Hne : xp_nonempty T = true /\ xp_at_punct b#"}" T = false).
    { destruct k as [|k]; [lia|]. rewrite xp_pairs_S in HT.
      destruct (xp_expr g T) as [[e0 r0]| | |] eqn:E0; try discriminate.
      split.
      - destruct T; [exfalso; eapply xp_expr_nil; exact E0|reflexivity].
      - destruct (xp_at_punct b#"}" T) eqn:Ec; [|reflexivity]. exfalso.
        eapply (xp_expr_not_closer g b#"}" T); [cbn; tauto|exact Ec|exact E0]. }
    destruct Hne as [-> ->]. cbn [andb negb]. rewrite HT. cbn [obind]. rewrite at_punct_same. reflexivity.
Qed.
(* ---- single tokens ---- *)
Lemma simple_null f r : xp_simple (S f) (pp_N b#"null" :: r) = Ok (ELit LNull, r).
Proof. rewrite xp_simple_S. reflexivity. Qed.
Lemma simple_true f r : xp_simple (S f) (pp_N b#"true" :: r) = Ok (ELit (LBool true), r).
Proof. rewrite xp_simple_S. reflexivity. Qed.
Lemma simple_false f r : xp_simple (S f) (pp_N b#"false" :: r) = Ok (ELit (LBool false), r).
Proof. rewrite xp_simple_S. reflexivity. Qed.
Lemma simple_string f v r : xp_simple (S f) (XT XString v :: r) = Ok (ELit (LStr (xl_unescape v)), r).
Proof. rewrite xp_simple_S. reflexivity. Qed.
Lemma simple_number f v r :
  xp_simple (S f) (XT XNumber v :: r) = if xp_has_dot v then Unmodelled else Ok (ELit (LInt (xp_atoi v)), r).
Proof. rewrite xp_simple_S. reflexivity. Qed.
Lemma simple_unop f o r :
  xp_simple (S f) (pp_unop_tok o :: r) = obind (xp_simple f r) (fun e ts1 => Ok (EUn o e, ts1)).
Proof. rewrite xp_simple_S. destruct o; reflexivity. Qed.
Lemma simple_lbracket f r :
  xp_simple (S f) (pp_P b#"[" :: r) = obind (xp_list (xp_expr f) f b#"]" r) (fun es ts1 => Ok (EArr es, ts1)).
Proof. rewrite xp_simple_S. reflexivity. Qed.
Lemma simple_lbrace f r : xp_simple (S f) (pp_P b#"{" :: r) = xp_hash (xp_expr f) f r.
Proof. rewrite xp_simple_S. reflexivity. Qed.

Lemma bytes_eqb_sym a b : bytes_eqb a b = bytes_eqb b a.
Proof.
  destruct (bytes_eqb a b) eqn:E.
  - apply bytes_eqb_eq in E. subst. symmetry. apply bytes_eqb_refl.
  - destruct (bytes_eqb b a) eqn:E2; [|reflexivity]. apply bytes_eqb_eq in E2. subst.
    rewrite bytes_eqb_refl in E. discriminate.
Qed.

Lemma name_ok_facts x : pp_name_ok x = true ->
  bytes_eqb x b#"true" = false /\ bytes_eqb x b#"false" = false /\ bytes_eqb x b#"null" = false /\
  bytes_eqb x b#"nil" = false /\ bytes_eqb x b#"not" = false.
Proof.
  unfold pp_name_ok, pp_keywords. intro H. apply andb_true_iff in H. destruct H as [_ H].
  apply negb_true_iff in H. cbn [existsb] in H.
  repeat (apply orb_false_iff in H; destruct H as [? H]). repeat split; assumption.
Qed.

Lemma simple_name f x r : pp_name_ok x = true ->
  xp_simple (S f) (pp_N x :: r) =
  if xp_at_punct b#"(" r then obind (xp_list (xp_expr f) f b#")" (tl r)) (fun args ts1 => Ok (ECall x args, ts1))
  else xp_chain (xp_expr f) f (EVar x) r.
Proof.
  intro H. destruct (name_ok_facts x H) as (H1 & H2 & H3 & H4 & H5).
  rewrite xp_simple_S. unfold xp_simple_body, pp_N. cbn [xp_unop_of]. rewrite H5, H1, H2, H3, H4. reflexivity.
Qed.

(* ---- decimal digits ---- *)
Lemma digit_facts d : (d < 10)%N ->
  xp_digit_val (pp_digit d) = Some (Z.of_N d) /\ Byte.eqb (pp_digit d) XDOT = false /\
  Byte.eqb (pp_digit d) x2d = false /\ Byte.eqb (pp_digit d) x2b = false /\ xl_is_digit (pp_digit d) = true.
Proof.
  intro H.
  assert (E : (d = 0 \/ d = 1 \/ d = 2 \/ d = 3 \/ d = 4 \/ d = 5 \/ d = 6 \/ d = 7 \/ d = 8 \/ d = 9)%N) by lia.
  repeat (destruct E as [->|E]; [vm_compute; repeat split; reflexivity|]). subst. vm_compute. repeat split; reflexivity.
Qed.

Lemma digits_acc_app l : forall a c,
  xp_digits_acc a (l ++ [c]) =
  match xp_digits_acc a l with
  | Some v => match xp_digit_val c with Some d => Some (v * 10 + d)%Z | None => None end
  | None => None
  end.
Proof.
  induction l as [|x l IH]; intros a c; cbn [app xp_digits_acc].
  - destruct (xp_digit_val c); reflexivity.
  - destruct (xp_digit_val x); [apply IH|reflexivity].
Qed.

Lemma dec_fuel_spec f : forall n, (n < 10 ^ N.of_nat (S f))%N ->
  xp_digits_acc 0 (pp_dec_fuel f n) = Some (Z.of_N n) /\
  Forall (fun c => exists d, (d < 10)%N /\ c = pp_digit d) (pp_dec_fuel f n) /\ pp_dec_fuel f n <> [].
Proof.
  induction f as [|f IH]; intros n Hn.
  - cbn [pp_dec_fuel]. change (10 ^ N.of_nat 1)%N with 10%N in Hn.
    rewrite N.mod_small by exact Hn. cbn [xp_digits_acc].
    destruct (digit_facts n Hn) as (-> & _). repeat split; [|discriminate].
    constructor; [|constructor]. exists n. split; [exact Hn|reflexivity].
  - cbn [pp_dec_fuel]. destruct (n <? 10)%N eqn:E.
    + apply N.ltb_lt in E. cbn [xp_digits_acc]. destruct (digit_facts n E) as (-> & _).
      repeat split; [|discriminate]. constructor; [|constructor]. exists n. split; [exact E|reflexivity].
    + apply N.ltb_ge in E.
      assert (Hd : (n / 10 < 10 ^ N.of_nat (S f))%N).
      { apply N.div_lt_upper_bound; [lia|]. rewrite <- N.pow_succ_r'. rewrite <- Nat2N.inj_succ. exact Hn. }
      destruct (IH _ Hd) as (H1 & H2 & H3).
      assert (Hm : (n mod 10 < 10)%N) by (apply N.mod_lt; lia).
      rewrite digits_acc_app, H1. destruct (digit_facts _ Hm) as (-> & _).
      repeat split.
      * f_equal. pose proof (N.div_mod n 10 ltac:(lia)). lia.
      * apply Forall_app. split; [exact H2|]. constructor; [|constructor]. exists (n mod 10)%N. split; [exact Hm|reflexivity].
      * destruct (pp_dec_fuel f (n / 10)); discriminate.
Qed.

Lemma simple_int f z r : (0 <= z)%Z -> (z <= xp_max_int)%Z ->
  xp_simple (S f) (XT XNumber (pp_dec (Z.to_N z)) :: r) = Ok (ELit (LInt z), r).
Proof.
  intros H0 H1. rewrite simple_number.
  assert (Hn : (Z.to_N z < 10 ^ N.of_nat 21)%N).
  { change (10 ^ N.of_nat 21)%N with 1000000000000000000000%N. unfold xp_max_int in H1. lia. }
  destruct (dec_fuel_spec 20 _ Hn) as (Hv & Hall & Hne). fold (pp_dec (Z.to_N z)) in *.
  assert (Hdot : xp_has_dot (pp_dec (Z.to_N z)) = false).
  { unfold xp_has_dot. apply not_true_is_false. intro Hx. apply existsb_exists in Hx.
    destruct Hx as [c [Hin Hc]]. rewrite Forall_forall in Hall. destruct (Hall c Hin) as [d [Hd ->]].
    destruct (digit_facts d Hd) as (_ & Hdot & _). apply byte_eqb_eq in Hc. rewrite <- Hc, byte_eqb_refl in Hdot. discriminate. }
  rewrite Hdot. f_equal. f_equal. f_equal. f_equal.
  unfold xp_atoi. destruct (pp_dec (Z.to_N z)) as [|c v] eqn:Ev; [congruence|].
  inversion Hall as [|? ? [d [Hd Hc]] _]; subst c.
  destruct (digit_facts d Hd) as (_ & _ & Hm & Hp & _). rewrite Hm, Hp.
  rewrite Hv. rewrite Z2N.id by exact H0.
  destruct (xp_max_int <? z)%Z eqn:E; [apply Z.ltb_lt in E; lia|reflexivity].
Qed.
(* ---- string literals: processEscapeSequences undoes pp_escape ---- *)
Lemma must_escape_plain c : pp_must_escape c = true ->
  Byte.eqb c x6e = false /\ Byte.eqb c x72 = false /\ Byte.eqb c x74 = false.
Proof.
  unfold pp_must_escape, xl_is_bsl, xl_is_quote. intro H.
  repeat (apply orb_true_iff in H; destruct H as [H|H]); apply byte_eqb_eq in H; subst; repeat split; reflexivity.
Qed.

Lemma unescape_escape s : xl_unescape (pp_escape s) = s.
Proof.
  induction s as [|c s IH]; [reflexivity|]. cbn [pp_escape].
  destruct (pp_must_escape c) eqn:E.
  - cbn [xl_unescape]. change (xl_is_bsl XBSL) with true. cbn iota.
    destruct (must_escape_plain c E) as (-> & -> & ->). rewrite IH. reflexivity.
  - cbn [xl_unescape]. unfold pp_must_escape in E.
    apply orb_false_iff in E. destruct E as [E _]. apply orb_false_iff in E. destruct E as [-> _].
    rewrite IH. reflexivity.
Qed.

(* ---- binary operators in the climbing loop ---- *)
Lemma peek_binop o R : xp_peek (pp_binop_toks o ++ R) = Some (binop_str o, length (pp_binop_toks o)).
Proof. destruct o; reflexivity. Qed.

Lemma binop_not_special o :
  bytes_eqb (binop_str o) b#"not defined" = false /\
  (bytes_eqb (binop_str o) b#"is" || bytes_eqb (binop_str o) b#"is not") = false.
Proof. destruct o; split; reflexivity. Qed.

Lemma skipn_app_len {A} (l r : list A) : skipn (length l) (l ++ r) = r.
Proof. induction l; [reflexivity|exact IHl]. Qed.

Lemma loop_binop f p left o R : p <= pp_bprec o ->
  xp_loop (S f) p left (pp_binop_toks o ++ R) =
  obind (xp_level f (pp_bprec o + prec_right_incr) R) (fun r ts2 => xp_loop f p (EBin o left r) ts2).
Proof.
  intro Hp. rewrite xp_loop_S. unfold xp_loop_body. rewrite peek_binop.
  destruct (binop_not_special o) as [-> ->]. cbn [andb].
  fold (pp_bprec o). assert (E : (pp_bprec o <? p) = false) by (apply Nat.ltb_ge; exact Hp). rewrite E.
  rewrite skipn_app_len, binop_of_str. reflexivity.
Qed.

Lemma peek_prec_binop o R : xp_peek_prec (pp_binop_toks o ++ R) = Some (pp_bprec o).
Proof.
  unfold xp_peek_prec. rewrite peek_binop. destruct (binop_not_special o) as [-> ->]. reflexivity.
Qed.

Lemma ok_follow_binop o R : ok_follow (pp_binop_toks o ++ R).
Proof. destruct o; repeat split; reflexivity. Qed.

(* ---- is / is not ---- *)
Definition ptest_toks (t : bytes) (neg : bool) : list xtok :=
  pp_N b#"is" :: (if neg then [pp_N b#"not"] else []) ++ [pp_N t].

Lemma loop_test f p left t neg R : p <= prec_compare -> bytes_eqb t b#"not" = false ->
  xp_loop (S f) p left (ptest_toks t neg ++ R) =
  obind (xp_test (xp_expr f) f left neg (pp_N t :: R)) (fun l' ts' => xp_loop f p l' ts').
Proof.
  intros Hp Ht. rewrite xp_loop_S. unfold xp_loop_body, ptest_toks.
  assert (E : (prec_compare <? p) = false) by (apply Nat.ltb_ge; exact Hp).
  destruct neg.
  - cbn [app]. change (xp_peek (pp_N b#"is" :: pp_N b#"not" :: pp_N t :: R)) with (Some (b#"is not", 2)).
    cbn [skipn]. change (bytes_eqb b#"is not" b#"not defined") with false.
    change (bytes_eqb b#"is not" b#"is" || bytes_eqb b#"is not" b#"is not") with true.
    cbn [andb xp_name_at pp_N]. rewrite E. reflexivity.
  - cbn [app].
    assert (Hpk : xp_peek (pp_N b#"is" :: pp_N t :: R) = Some (b#"is", 1)).
    { unfold xp_peek, pp_N. change (assoc_bytes peek_words b#"is") with (Some ([(b#"not", b#"is not")], b#"is")).
      cbn [assoc_bytes]. rewrite bytes_eqb_sym, Ht. reflexivity. }
    rewrite Hpk. cbn [skipn]. change (bytes_eqb b#"is" b#"not defined") with false.
    change (bytes_eqb b#"is" b#"is" || bytes_eqb b#"is" b#"is not") with true.
    cbn [andb xp_name_at pp_N]. rewrite E. reflexivity.
Qed.

Lemma peek_prec_test t neg R : bytes_eqb t b#"not" = false -> xp_peek_prec (ptest_toks t neg ++ R) = Some prec_compare.
Proof.
  intro Ht. unfold xp_peek_prec, ptest_toks. destruct neg.
  - reflexivity.
  - cbn [app].
    assert (Hpk : xp_peek (pp_N b#"is" :: pp_N t :: R) = Some (b#"is", 1)).
    { unfold xp_peek, pp_N. change (assoc_bytes peek_words b#"is") with (Some ([(b#"not", b#"is not")], b#"is")).
      cbn [assoc_bytes]. rewrite bytes_eqb_sym, Ht. reflexivity. }
    rewrite Hpk. reflexivity.
Qed.

Lemma ok_follow_test t neg R : ok_follow (ptest_toks t neg ++ R).
Proof. repeat split; reflexivity. Qed.

(* optional argument list after a test or filter name *)
Lemma test_args_ev left t neg es : Forall (fun e => gE (ppar 0 e) e) es ->
  forall rest, xp_at_punct b#"(" rest = false ->
  ev2 (fun g k => xp_test (xp_expr g) k left neg (pp_N t :: poargs es ++ rest) = Ok (ETest left t es neg, rest)).
Proof.
  intros HF rest Hr. destruct es as [|e es].
  - exists 0. intros g k _ _. rewrite xp_test_eq. cbn [pp_N poargs app]. rewrite Hr. reflexivity.
  - destruct (pargs_ev (e :: es) HF rest) as [n Hn]. exists n. intros g k Hg Hk.
    rewrite xp_test_eq. cbn [pp_N poargs]. rewrite pargs_at, Hn by lia. reflexivity.
Qed.

Lemma filters_one_ev node fn es : Forall (fun e => gE (ppar 0 e) e) es ->
  forall rest res, xp_at_punct b#"(" rest = false ->
  ev2 (fun g k => xp_filters (xp_expr g) k (EFilter node fn es) rest = res) ->
  ev2 (fun g k => xp_filters (xp_expr g) k node (pp_P b#"|" :: pp_N fn :: poargs es ++ rest) = res).
Proof.
  intros HF rest res Hr [n2 H2]. destruct es as [|e es].
  - exists (S n2). intros g k Hg Hk. destruct k as [|k]; [lia|].
    rewrite xp_filters_S, at_punct_same. cbn [tl pp_N poargs app]. rewrite Hr. apply H2; lia.
  - destruct (pargs_ev (e :: es) HF rest) as [n1 H1]. exists (S (n1 + n2)). intros g k Hg Hk.
    destruct k as [|k]; [lia|].
    rewrite xp_filters_S, at_punct_same. cbn [tl pp_N poargs]. rewrite pargs_at, H1 by lia. cbn [obind]. apply H2; lia.
Qed.

(* one filter application absorbed by parseFilters *)
Lemma filters_step node fn es : Forall (fun e => gE (ppar 0 e) e) es ->
  forall rest, xp_at_punct b#"(" rest = false ->
  ev2 (fun g k => xp_filters (xp_expr g) (S k) node (pp_P b#"|" :: pp_N fn :: poargs es ++ rest)
                  = xp_filters (xp_expr g) k (EFilter node fn es) rest).
Proof.
  intros HF rest Hr. destruct es as [|e es].
  - exists 0. intros g k _ _. rewrite xp_filters_S, at_punct_same. cbn [tl pp_N poargs app]. rewrite Hr. reflexivity.
  - destruct (pargs_ev (e :: es) HF rest) as [n1 H1]. exists n1. intros g k Hg Hk.
    rewrite xp_filters_S, at_punct_same. cbn [tl pp_N poargs]. rewrite pargs_at, H1 by lia. reflexivity.
Qed.

Lemma at_pipe_not_bracket rest : xp_at_punct b#"|" rest = true -> xp_at_punct b#"[" rest = false.
Proof.
  destruct rest as [|[[] v] r]; try discriminate. cbn [xp_at_punct]. intro H. apply bytes_eqb_eq in H. subst. reflexivity.
Qed.

Lemma filter_postfix b fn es : Forall (fun e => gE (ppar 0 e) e) es ->
  forall rest res, osc false rest -> res <> OutOfFuel ->
  ev (fun f => xp_postfix f (EFilter b fn es) rest = res) ->
  ev (fun f => xp_postfix f b (pp_P b#"|" :: pp_N fn :: poargs es ++ rest) = res).
Proof.
  intros HF rest res [Hp _] Hne [n Hn].
  destruct (filters_step b fn es HF rest Hp) as [n1 H1].
  exists (S (S (S (n + n1)))). intros f Hf. destruct f as [|f]; [lia|]. destruct f as [|k]; [lia|].
  rewrite xp_postfix_S. change (xp_at_punct b#"[" (pp_P b#"|" :: pp_N fn :: poargs es ++ rest)) with false.
  rewrite at_punct_same. rewrite H1 by lia.
  destruct (xp_at_punct b#"|" rest) eqn:Eb.
  - pose proof (Hn (S n) ltac:(lia)) as Hx. rewrite xp_postfix_S, (at_pipe_not_bracket _ Eb), Eb in Hx.
    eapply le_out_eq; [|exact Hx|exact Hne].
    apply le_obind; [apply filters_mono; [apply ple_expr; lia|lia]|]. intros a t. apply postfix_mono. lia.
  - destruct k as [|k]; [lia|]. rewrite xp_filters_S, Eb. cbn [obind]. apply Hn. lia.
Qed.

Lemma wf_forall es : forallb pp_wf es = true -> Forall (fun e => pp_wf e = true -> stAll e) es ->
  Forall (fun e => gE (ppar 0 e) e) es.
Proof.
  intros Hw HF. rewrite forallb_forall in Hw. rewrite Forall_forall in *. intros e Hin.
  apply ppar_E. apply HF; [exact Hin|]. apply Hw, Hin.
Qed.

Lemma chain_gS e : stC e -> gS true (pp px e) e.
Proof.
  intros HC rest Hosc. destruct (osc_true_simple _ Hosc) as [Hp Hd]. apply HC; [exact Hp|]. exists 1. intros g k _ Hk. destruct k as [|k]; [lia|].
  rewrite xp_chain_S, Hd. reflexivity.
Qed.

Lemma test_toks_eq (t : bytes) (neg : bool) (es : list expr) :
  pp_N b#"is" :: (if neg then [pp_N b#"not"] else []) ++ pp_N t :: poargs es = ptest_toks t neg ++ poargs es.
Proof. unfold ptest_toks. destruct neg; reflexivity. Qed.

Theorem roundtrip_all : forall e, pp_wf e = true -> stAll e.
Proof.
  induction e as [l|x|b a IHb|b i IHb IHi|o a IHa|o l r IHl IHr|c t f0 IHc IHt IHf|es IHes|kvs IHkvs
                 |b fn es IHb IHes|fn es IHes|m fn es IHm IHes|b t es neg IHb IHes] using expr_ind'; intro Hwf.
  - (* literal *)
    apply stAll_of_S; [reflexivity|intro H; discriminate|].
    intros rest _. exists 1. intros f Hf. destruct f as [|f]; [lia|].
    destruct l as [|[]|z|s]; cbn [pp app].
    + apply simple_null.
    + apply simple_true.
    + apply simple_false.
    + cbn [pp_wf] in Hwf. apply andb_true_iff in Hwf. destruct Hwf as [H0 H1].
      apply simple_int; lia.
    + rewrite simple_string, unescape_escape. reflexivity.
  - (* variable *)
    cbn [pp_wf] in Hwf.
    assert (HC : stC (EVar x)).
    { intros rest res Hr Hch. destruct (ev2_diag _ Hch) as [n Hn]. exists (S n). intros f Hf.
      destruct f as [|f]; [lia|]. cbn [pp app]. rewrite simple_name, Hr by exact Hwf. apply Hn. lia. }
    apply stAll_of_S; [reflexivity|intros _; exact HC|apply chain_gS, HC].
  - (* attribute *)
    cbn [pp_wf] in Hwf. apply andb_true_iff in Hwf. destruct Hwf as [Hwb Ha].
    specialize (IHb Hwb). destruct (pp_is_chain b) eqn:Hch.
    + destruct IHb as (HCb & _). specialize (HCb Hch).
      assert (HC : stC (EAttr b a)).
      { intros rest res Hr [n Hn]. rewrite pp_EAttr, Hch. norm_app. apply HCb; [reflexivity|].
        exists (S n). intros g k Hg Hk. destruct k as [|k]; [lia|].
        rewrite xp_chain_S, at_punct_same. cbn [tl pp_N]. rewrite Hr. apply Hn; lia. }
      apply stAll_of_S; [cbn [pp_level]; rewrite Hch; reflexivity|intros _; exact HC|].
      cbn [pp_dot_open]. rewrite Hch. apply chain_gS, HC.
    + apply stAll_of_O; [cbn [pp_level]; rewrite Hch; reflexivity|exact Hch|].
      cbn [pp_dot_open]. rewrite Hch.
      intros rest res [Hp _] Hne [n2 H2]. rewrite pp_EAttr, Hch. norm_app.
      apply (pdot_O b IHb); [split; [reflexivity|discriminate]|exact Hne|].
      exists (S n2). intros f Hf. destruct f as [|f]; [lia|].
      rewrite xp_postfix_S, (at_punct_diff b#"[" b#".") by reflexivity.
      rewrite (at_punct_diff b#"|" b#".") by reflexivity. rewrite at_punct_same. cbn [tl pp_N].
      rewrite Hp. apply H2. lia.
  - (* index *)
    cbn [pp_wf] in Hwf. apply andb_true_iff in Hwf. destruct Hwf as [Hwb Hwi].
    specialize (IHb Hwb). specialize (IHi Hwi).
    apply stAll_of_O; [reflexivity|reflexivity|].
    intros rest res Hs Hne [n2 H2]. rewrite pp_EItem. norm_app.
    apply (ppar_O b IHb); [split; [reflexivity|intros _; reflexivity]|exact Hne|].
    destruct (ppar_E i 0 IHi (pp_P b#"]" :: rest)) as [n1 H1]; [apply no_cont_closer; cbn; tauto|].
    exists (S (n1 + n2)). intros f Hf. destruct f as [|f]; [lia|].
    rewrite xp_postfix_S, at_punct_same. cbn [tl]. rewrite H1 by lia. cbn [obind].
    rewrite at_punct_same. cbn [tl]. apply H2. lia.
  - (* unary *)
    cbn [pp_wf] in Hwf. specialize (IHa Hwf).
    apply stAll_of_S; [reflexivity|intro H; discriminate|].
    intros rest Hs. destruct (ppar_S a IHa rest Hs) as [n Hn]. exists (S n). intros f Hf.
    destruct f as [|f]; [lia|]. rewrite pp_EUn. cbn [app]. rewrite simple_unop, Hn by lia. reflexivity.
  - (* binary *)
    cbn [pp_wf] in Hwf. apply andb_true_iff in Hwf. destruct Hwf as [Hwl Hwr].
    specialize (IHl Hwl). specialize (IHr Hwr).
    destruct (bprec_bounds o) as [Hlo Hhi].
    apply stAll_of_D; [exact Hlo|exact Hhi|reflexivity|].
    intros p rest res Hp Hple Hfol Hok Hloop. cbn [pp_level] in *. rewrite pp_EBin. norm_app.
    rewrite prec_right_incr_1 in *.
    assert (HR : ev (fun f => xp_level f (pp_bprec o + 1) (ppar (pp_bprec o + 1) r ++ rest) = Ok (r, rest))).
    { apply (ppar_D r (pp_bprec o + 1) IHr); [lia|lia|exact Hfol| |].
      - intro Ep. destruct (ppar_plain _ _ Ep) as [_ Hq]. eapply ok_rest_mono; [|exact Hok]. lia.
      - exists 1. intros f Hf. destruct f as [|f]; [lia|]. apply loop_stop.
        replace (pp_bprec o + 1) with (S (pp_bprec o)) by lia. exact Hok. }
    apply (ppar_D l (pp_bprec o) IHl); [exact Hp|exact Hple|apply ok_follow_binop| |].
    + intro Ep. destruct (ppar_plain _ _ Ep) as [_ Hq]. unfold ok_rest. rewrite peek_prec_binop. lia.
    + destruct HR as [n1 H1]. destruct Hloop as [n2 H2]. exists (S (n1 + n2)). intros f Hf.
      destruct f as [|f]; [lia|]. rewrite loop_binop by exact Hple. rewrite prec_right_incr_1, H1 by lia.
      cbn [obind]. apply H2. lia.
  - (* conditional *)
    cbn [pp_wf] in Hwf. apply andb_true_iff in Hwf. destruct Hwf as [Hwf Hwf3].
    apply andb_true_iff in Hwf. destruct Hwf as [Hwc Hwt].
    specialize (IHc Hwc). specialize (IHt Hwt). specialize (IHf Hwf3).
    pose proof prec_start_pos as Hps.
    split; [intro H; discriminate|]. split; [cbn [pp_level]; unfold pp_lv_simple; intro H; lia|].
    split; [cbn [pp_level]; unfold pp_lv_postfix; intro H; lia|].
    split; [intros p rest res Hp Hple; cbn [pp_level] in Hple; lia|].
    intros rest Hnc. rewrite pp_ECond. norm_app.
    assert (HC : ev (fun f => xp_level f prec_start (ppar prec_start c ++ pp_P b#"?" :: ppar 0 t ++ pp_P b#":" :: ppar 0 f0 ++ rest)
                              = Ok (c, pp_P b#"?" :: ppar 0 t ++ pp_P b#":" :: ppar 0 f0 ++ rest))).
    { apply (ppar_D c prec_start IHc); [lia|lia|repeat split; reflexivity|intros _; exact I|].
      exists 1. intros f Hf. destruct f as [|f]; [lia|]. apply loop_stop. exact I. }
    destruct HC as [n1 H1].
    destruct (ppar_E t 0 IHt (pp_P b#":" :: ppar 0 f0 ++ rest)) as [n2 H2]; [apply no_cont_closer; cbn; tauto|].
    destruct (ppar_E f0 0 IHf rest Hnc) as [n3 H3].
    exists (S (n1 + n2 + n3)). intros f Hf. destruct f as [|f]; [lia|].
    rewrite xp_expr_S, H1 by lia. cbn [obind]. rewrite at_punct_same. cbn [tl].
    rewrite H2 by lia. cbn [obind]. rewrite at_punct_same. cbn [tl]. rewrite H3 by lia. reflexivity.
  - (* array *)
    cbn [pp_wf] in Hwf. pose proof (wf_forall es Hwf IHes) as HF.
    apply stAll_of_S; [reflexivity|intro H; discriminate|].
    intros rest _. destruct (list_ev b#"]" es ltac:(cbn; tauto) HF rest) as [n Hn].
    exists (S n). intros f Hf. destruct f as [|f]; [lia|].
    rewrite pp_EArr. norm_app. rewrite simple_lbracket, Hn by lia. reflexivity.
  - (* hash *)
    cbn [pp_wf] in Hwf.
    assert (HF : Forall (fun kv => gE (ppar 0 (fst kv)) (fst kv) /\ gE (ppar 0 (snd kv)) (snd kv)) kvs).
    { rewrite forallb_forall in Hwf. rewrite Forall_forall in *. intros [k v] Hin.
      specialize (Hwf _ Hin). cbn in Hwf. apply andb_true_iff in Hwf. destruct Hwf as [Hk Hv].
      destruct (IHkvs _ Hin) as [Pk Pv]. cbn [fst snd] in *. split; apply ppar_E; auto. }
    apply stAll_of_S; [reflexivity|intro H; discriminate|].
    intros rest _. destruct (hash_ev kvs HF rest) as [n Hn].
    exists (S n). intros f Hf. destruct f as [|f]; [lia|].
    rewrite pp_EHash. norm_app. rewrite simple_lbrace. apply Hn; lia.
  - (* filter *)
    cbn [pp_wf] in Hwf. apply andb_true_iff in Hwf. destruct Hwf as [Hwf Hwes].
    apply andb_true_iff in Hwf. destruct Hwf as [Hwb Hfn].
    specialize (IHb Hwb). pose proof (wf_forall es Hwes IHes) as HF.
    apply stAll_of_O; [reflexivity|reflexivity|].
    intros rest res Hs Hne Hpost. rewrite pp_EFilter. norm_app.
    apply (ppar_O b IHb); [split; [reflexivity|intros _; reflexivity]|exact Hne|].
    apply filter_postfix; assumption.
  - (* call *)
    cbn [pp_wf] in Hwf. apply andb_true_iff in Hwf. destruct Hwf as [Hfn Hwes].
    pose proof (wf_forall es Hwes IHes) as HF.
    apply stAll_of_S; [reflexivity|intro H; discriminate|].
    intros rest _. destruct (pargs_ev es HF rest) as [n Hn].
    exists (S n). intros f Hf. destruct f as [|f]; [lia|].
    rewrite pp_ECall. cbn [app]. rewrite simple_name by exact Hfn. rewrite pargs_at, Hn by lia. reflexivity.
  - (* module call *)
    cbn [pp_wf] in Hwf. apply andb_true_iff in Hwf. destruct Hwf as [Hwf Hwes].
    apply andb_true_iff in Hwf. destruct Hwf as [Hwm Hfn].
    specialize (IHm Hwm). pose proof (wf_forall es Hwes IHes) as HF. destruct (pp_is_chain m) eqn:Hch.
    + destruct IHm as (HCm & _). specialize (HCm Hch).
      assert (HC : stC (EModCall m fn es)).
      { intros rest res Hr [n Hn]. rewrite pp_EModCall, Hch. norm_app. apply HCm; [reflexivity|].
        destruct (pargs_ev es HF rest) as [n1 H1].
        exists (S (n + n1)). intros g k Hg Hk. destruct k as [|k]; [lia|].
        rewrite xp_chain_S, at_punct_same. cbn [tl pp_N]. rewrite pargs_at, H1 by lia. cbn [obind]. apply Hn; lia. }
      apply stAll_of_S; [cbn [pp_level]; rewrite Hch; reflexivity|intros _; exact HC|].
      cbn [pp_dot_open]. rewrite Hch. apply chain_gS, HC.
    + apply stAll_of_O; [cbn [pp_level]; rewrite Hch; reflexivity|exact Hch|].
      cbn [pp_dot_open]. rewrite Hch.
      intros rest res _ Hne [n2 H2]. rewrite pp_EModCall, Hch. norm_app.
      apply (pdot_O m IHm); [split; [reflexivity|discriminate]|exact Hne|].
      destruct (pargs_ev es HF rest) as [n1 H1].
      exists (S (n1 + n2)). intros f Hf. destruct f as [|f]; [lia|].
      rewrite xp_postfix_S, (at_punct_diff b#"[" b#".") by reflexivity.
      rewrite (at_punct_diff b#"|" b#".") by reflexivity. rewrite at_punct_same. cbn [tl pp_N].
      rewrite pargs_at, (H1 f f) by lia. cbn [obind]. apply H2. lia.
  - (* test *)
    cbn [pp_wf] in Hwf. apply andb_true_iff in Hwf. destruct Hwf as [Hwf Hwes].
    apply andb_true_iff in Hwf. destruct Hwf as [Hwf Hnot]. apply negb_true_iff in Hnot.
    apply andb_true_iff in Hwf. destruct Hwf as [Hwb Htn].
    specialize (IHb Hwb). pose proof (wf_forall es Hwes IHes) as HF.
    destruct prec_compare_bounds as [Hlo Hhi].
    apply stAll_of_D; [exact Hlo|exact Hhi|reflexivity|].
    intros p rest res Hp Hple Hfol Hok Hloop. cbn [pp_level] in *. rewrite pp_ETest, test_toks_eq. norm_app.
    apply (ppar_D b prec_compare IHb); [exact Hp|exact Hple|apply ok_follow_test| |].
    + intro Ep. destruct (ppar_plain _ _ Ep) as [_ Hq]. unfold ok_rest. rewrite peek_prec_test by exact Hnot. lia.
    + destruct Hfol as [[Hparen _] _].
      destruct (test_args_ev b t neg es HF rest Hparen) as [n1 H1]. destruct Hloop as [n2 H2].
      exists (S (n1 + n2)). intros f Hf. destruct f as [|f]; [lia|].
      unfold ptest_toks. norm_app.
      replace (pp_N b#"is" :: (if neg then [pp_N b#"not"] else []) ++ pp_N t :: poargs es ++ rest)
        with (ptest_toks t neg ++ poargs es ++ rest) by (unfold ptest_toks; destruct neg; reflexivity).
      rewrite loop_test by assumption. rewrite H1 by lia. cbn [obind]. apply H2. lia.
Qed.

Theorem roundtrip_top e : pp_wf e = true -> ev (fun f => xp_expr f (pp_top px e) = Ok (e, [])).
Proof.
  intro Hwf. pose proof (ppar_E e 0 (roundtrip_all e Hwf) [] no_cont_nil) as H.
  rewrite app_nil_r in H. unfold ppar in H. rewrite Nat.ltb_irrefl in H || idtac.
  replace ((pp_level e <? 0) || px e) with (px e) in H by (destruct (pp_level e); reflexivity).
  exact H.
Qed.
End RoundTrip.

(* ------------------------------------------------------------------------------------------- *)
(* 6. Fuel: 6 * tokens + 6 always suffices (the parser terminates)                              *)
(* ------------------------------------------------------------------------------------------- *)

(* never out of fuel, and what remains after a successful parse satisfies Q *)
Definition fin {A} (Q : list xtok -> Prop) (r : outcome (A * list xtok)) : Prop :=
  r <> OutOfFuel /\ forall a t, r = Ok (a, t) -> Q t.

Lemma fin_obind {A B} (Q1 Q2 : list xtok -> Prop) (r : outcome (A * list xtok)) (k : A -> list xtok -> outcome (B * list xtok)) :
  fin Q1 r -> (forall a t, Q1 t -> fin Q2 (k a t)) -> fin Q2 (obind r k).
Proof.
  intros [Hn Hq] Hk. destruct r as [[a t]| | |]; cbn [obind].
  - apply Hk. apply (Hq a t). reflexivity.
  - split; [discriminate|intros; discriminate].
  - congruence.
  - split; [discriminate|intros; discriminate].
Qed.
Lemma fin_ok {A} (Q : list xtok -> Prop) (a : A) t : Q t -> fin Q (Ok (a, t)).
Proof. intro H. split; [discriminate|]. intros a' t' E. inversion E; subst. exact H. Qed.
Lemma fin_err {A} (Q : list xtok -> Prop) x : fin Q (Err x : outcome (A * list xtok)).
Proof. split; [discriminate|intros; discriminate]. Qed.
Lemma fin_unm {A} (Q : list xtok -> Prop) : fin Q (Unmodelled : outcome (A * list xtok)).
Proof. split; [discriminate|intros; discriminate]. Qed.
Lemma fin_weaken {A} (Q1 Q2 : list xtok -> Prop) (r : outcome (A * list xtok)) :
  (forall t, Q1 t -> Q2 t) -> fin Q1 r -> fin Q2 r.
Proof. intros H [Hn Hq]. split; [exact Hn|]. intros a t E. apply H, (Hq a t E). Qed.

Definition lt_len (n : nat) (t : list xtok) : Prop := length t < n.
Definition le_len (n : nat) (t : list xtok) : Prop := length t <= n.
Definition good (pe : list xtok -> xp_res) (m : nat) : Prop :=
  forall ts, length ts <= m -> fin (lt_len (length ts)) (pe ts).

Lemma at_punct_len c ts : xp_at_punct c ts = true -> length ts = S (length (tl ts)).
Proof. destruct ts as [|t r]; [discriminate|reflexivity]. Qed.

Lemma items_fuel pe m : good pe m -> forall k ts, length ts <= m -> length ts < k ->
  fin (lt_len (length ts)) (xp_items pe k ts).
Proof.
  intros Hg. induction k as [|k IH]; intros ts Hm Hk; [lia|]. rewrite xp_items_S.
  eapply fin_obind; [apply Hg; exact Hm|]. intros e ts1 H1. unfold lt_len in H1.
  destruct (xp_at_punct b#"," ts1) eqn:E; [|apply fin_ok; exact H1].
  pose proof (at_punct_len _ _ E) as Hl.
  eapply fin_obind; [apply IH; lia|]. intros es ts2 H2. unfold lt_len in *. apply fin_ok. unfold lt_len. lia.
Qed.

Lemma list_fuel pe m : good pe m -> forall k close ts, length ts <= m -> length ts < k ->
  fin (lt_len (length ts)) (xp_list pe k close ts).
Proof.
  intros Hg k close ts Hm Hk. rewrite xp_list_eq.
  eapply (fin_obind (le_len (length ts))).
  - destruct (xp_nonempty ts && negb (xp_at_punct close ts)).
    + eapply fin_weaken; [|apply (items_fuel pe m Hg); assumption]. unfold lt_len, le_len. intros; lia.
    + apply fin_ok. unfold le_len. lia.
  - intros es ts1 H1. unfold le_len in H1. destruct (xp_at_punct close ts1) eqn:E; [|apply fin_err].
    pose proof (at_punct_len _ _ E). apply fin_ok. unfold lt_len. lia.
Qed.

Lemma pairs_fuel pe m : good pe m -> forall k ts, length ts <= m -> length ts < k ->
  fin (lt_len (length ts)) (xp_pairs pe k ts).
Proof.
  intros Hg. induction k as [|k IH]; intros ts Hm Hk; [lia|]. rewrite xp_pairs_S.
  eapply fin_obind; [apply Hg; exact Hm|]. intros e ts1 H1. unfold lt_len in H1.
  destruct (xp_at_punct b#":" ts1) eqn:E; [|apply fin_err].
  pose proof (at_punct_len _ _ E) as Hl.
  eapply fin_obind; [apply Hg; lia|]. intros v ts2 H2. unfold lt_len in H2.
  destruct (xp_at_punct b#"," ts2) eqn:E2; [|apply fin_ok; unfold lt_len; lia].
  pose proof (at_punct_len _ _ E2) as Hl2.
  eapply fin_obind; [apply IH; lia|]. intros es ts3 H3. unfold lt_len in *. apply fin_ok. unfold lt_len. lia.
Qed.

Lemma hash_fuel pe m : good pe m -> forall k ts, length ts <= m -> length ts < k ->
  fin (lt_len (length ts)) (xp_hash pe k ts).
Proof.
  intros Hg k ts Hm Hk. rewrite xp_hash_eq.
  eapply (fin_obind (le_len (length ts))).
  - destruct (xp_nonempty ts && negb (xp_at_punct b#"}" ts)).
    + eapply fin_weaken; [|apply (pairs_fuel pe m Hg); assumption]. unfold lt_len, le_len. intros; lia.
    + apply fin_ok. unfold le_len. lia.
  - intros es ts1 H1. unfold le_len in H1. destruct (xp_at_punct b#"}" ts1) eqn:E; [|apply fin_err].
    pose proof (at_punct_len _ _ E). apply fin_ok. unfold lt_len. lia.
Qed.

Lemma chain_fuel pe m : good pe m -> forall k base ts, length ts <= m -> length ts < k ->
  fin (le_len (length ts)) (xp_chain pe k base ts).
Proof.
  intros Hg. induction k as [|k IH]; intros base ts Hm Hk; [lia|]. rewrite xp_chain_S.
  destruct (xp_at_punct b#"." ts) eqn:E; [|apply fin_ok; unfold le_len; lia].
  pose proof (at_punct_len _ _ E) as Hl.
  destruct (tl ts) as [|[[] a] ts1] eqn:Et; try apply fin_err. cbn [length] in Hl.
  destruct (xp_at_punct b#"(" ts1) eqn:E1.
  - pose proof (at_punct_len _ _ E1) as Hl1.
    eapply fin_obind; [apply (list_fuel pe m Hg k b#")" (tl ts1)); lia|].
    intros args ts2 H2. unfold lt_len in H2.
    eapply fin_weaken; [|apply IH; lia]. unfold le_len. intros; lia.
  - eapply fin_weaken; [|apply IH; lia]. unfold le_len. intros; lia.
Qed.

Lemma filters_fuel pe m : good pe m -> forall k node ts, length ts <= S m -> length ts < k ->
  fin (fun t => length t <= length ts /\ (xp_at_punct b#"|" ts = true -> length t < length ts)) (xp_filters pe k node ts).
Proof.
  intros Hg. induction k as [|k IH]; intros node ts Hm Hk; [lia|]. rewrite xp_filters_S.
  destruct (xp_at_punct b#"|" ts) eqn:E; [|apply fin_ok; split; [lia|discriminate]].
  pose proof (at_punct_len _ _ E) as Hl.
  destruct (tl ts) as [|[[] a] ts1] eqn:Et; try apply fin_err. cbn [length] in Hl.
  destruct (xp_at_punct b#"(" ts1) eqn:E1.
  - pose proof (at_punct_len _ _ E1) as Hl1.
    eapply fin_obind; [apply (list_fuel pe m Hg k b#")" (tl ts1)); lia|].
    intros args ts2 H2. unfold lt_len in H2.
    eapply fin_weaken; [|apply IH; lia]. cbn beta. intros t [Ht _]. split; [lia|intros _; lia].
  - eapply fin_weaken; [|apply IH; lia]. cbn beta. intros t [Ht _]. split; [lia|intros _; lia].
Qed.

Lemma test_fuel pe m : good pe m -> forall k left neg ts, length ts <= m -> length ts < k -> ts <> [] ->
  fin (lt_len (length ts)) (xp_test pe k left neg ts).
Proof.
  intros Hg k left neg ts Hm Hk Hne. rewrite xp_test_eq. destruct ts as [|[kk t] ts1]; [congruence|].
  cbn [length] in *. destruct (xp_at_punct b#"(" ts1) eqn:E1.
  - pose proof (at_punct_len _ _ E1) as Hl1.
    eapply fin_obind; [apply (list_fuel pe m Hg k b#")" (tl ts1)); lia|].
    intros args ts2 H2. unfold lt_len in H2. apply fin_ok. unfold lt_len. cbn [length]. lia.
  - apply fin_ok. unfold lt_len. cbn [length]. lia.
Qed.

Lemma peek_some ts op w : xp_peek ts = Some (op, w) -> length (skipn w ts) < length ts.
Proof.
  intro H. rewrite skipn_length.
  assert (ts <> [] /\ 1 <= w).
  { destruct ts as [|[k v] r]; [discriminate|]. split; [discriminate|]. cbn [xp_peek] in H.
    destruct k; try discriminate.
    - destruct (assoc_bytes peek_words v) as [[alts dflt]|]; [|discriminate].
      destruct (assoc_bytes alts _); inversion H; lia.
    - inversion H. lia. }
  destruct H0 as [Hne Hw]. destruct ts; [congruence|]. cbn [length]. lia.
Qed.

Definition fuel_at (f : nat) : Prop :=
  (forall ts, 6 * length ts + 4 <= f -> fin (lt_len (length ts)) (xp_expr f ts)) /\
  (forall p ts, 6 * length ts + 3 <= f -> fin (lt_len (length ts)) (xp_level f p ts)) /\
  (forall p l ts, 6 * length ts + 1 <= f -> fin (le_len (length ts)) (xp_loop f p l ts)) /\
  (forall ts, 6 * length ts + 2 <= f -> fin (lt_len (length ts)) (xp_operand f ts)) /\
  (forall e ts, 6 * length ts + 1 <= f -> fin (le_len (length ts)) (xp_postfix f e ts)) /\
  (forall ts, 6 * length ts + 1 <= f -> fin (lt_len (length ts)) (xp_simple f ts)).

Lemma fuel_all f : fuel_at f.
Proof.
  induction f as [|f IH].
  - repeat split; intros; lia.
  - destruct IH as (He & Hl & Ho & Hp & Hq & Hs).
    assert (Hgood : forall m, 6 * m + 4 <= f -> good (xp_expr f) m).
    { intros m Hm ts Hts. apply He. lia. }
    refine (conj _ (conj _ (conj _ (conj _ (conj _ _))))).
    + (* expr *)
      intros ts Hf. rewrite xp_expr_S. eapply fin_obind; [apply Hl; lia|]. intros c ts1 H1. unfold lt_len in H1.
      destruct (xp_at_punct b#"?" ts1) eqn:E; [|apply fin_ok; exact H1].
      pose proof (at_punct_len _ _ E). eapply fin_obind; [apply He; lia|]. intros t ts2 H2. unfold lt_len in H2.
      destruct (xp_at_punct b#":" ts2) eqn:E2; [|apply fin_err].
      pose proof (at_punct_len _ _ E2). eapply fin_obind; [apply He; lia|]. intros e ts3 H3. unfold lt_len in H3.
      apply fin_ok. unfold lt_len. lia.
    + (* level *)
      intros p ts Hf. rewrite xp_level_S. eapply fin_obind; [apply Hp; lia|]. intros l ts1 H1. unfold lt_len in H1.
      eapply fin_weaken; [|apply Ho; lia]. unfold le_len, lt_len. intros; lia.
    + (* loop *)
      intros p l ts Hf. rewrite xp_loop_S. unfold xp_loop_body.
      destruct (xp_peek ts) as [[op w]|] eqn:Epk; [|apply fin_ok; unfold le_len; lia].
      pose proof (peek_some _ _ _ Epk) as Hsk.
      destruct (bytes_eqb op b#"not defined").
      { destruct (prec_compare <? p); [apply fin_ok; unfold le_len; lia|].
        eapply fin_weaken; [|apply Ho; lia]. unfold le_len. intros; lia. }
      destruct ((bytes_eqb op b#"is" || bytes_eqb op b#"is not") && xp_name_at (skipn w ts)) eqn:Et.
      { destruct (prec_compare <? p); [apply fin_ok; unfold le_len; lia|].
        apply andb_true_iff in Et. destruct Et as [_ Et].
        eapply fin_obind.
        - apply (test_fuel (xp_expr f) (length (skipn w ts))); [apply Hgood; lia|lia|lia|].
          destruct (skipn w ts); [discriminate|discriminate].
        - intros l' ts' H'. unfold lt_len in H'. eapply fin_weaken; [|apply Ho; lia]. unfold le_len. intros; lia. }
      destruct (xp_get_prec op <? p); [apply fin_ok; unfold le_len; lia|].
      eapply fin_obind; [apply Hl; lia|]. intros r ts2 H2. unfold lt_len in H2.
      destruct (xp_binop_of op); [|apply fin_unm].
      eapply fin_weaken; [|apply Ho; lia]. unfold le_len. intros; lia.
    + (* operand *)
      intros ts Hf. rewrite xp_operand_S. eapply fin_obind; [apply Hs; lia|]. intros e ts1 H1. unfold lt_len in H1.
      eapply fin_weaken; [|apply Hq; lia]. unfold le_len, lt_len. intros; lia.
    + (* postfix *)
      intros e ts Hf. rewrite xp_postfix_S.
      destruct (xp_at_punct b#"[" ts) eqn:E.
      { pose proof (at_punct_len _ _ E). eapply fin_obind; [apply He; lia|]. intros i ts1 H1. unfold lt_len in H1.
        destruct (xp_at_punct b#"]" ts1) eqn:E1; [|apply fin_err]. pose proof (at_punct_len _ _ E1).
        eapply fin_weaken; [|apply Hq; lia]. unfold le_len. intros; lia. }
      destruct (xp_at_punct b#"|" ts) eqn:E2.
      { pose proof (at_punct_len _ _ E2).
        eapply fin_obind; [apply (filters_fuel (xp_expr f) (length (tl ts))); [apply Hgood; lia|lia|lia]|].
        cbn beta. intros e' ts1 [H1 H1']. specialize (H1' E2).
        eapply fin_weaken; [|apply Hq; lia]. unfold le_len. intros; lia. }
      destruct (xp_at_punct b#"." ts) eqn:E3; [|apply fin_ok; unfold le_len; lia].
      pose proof (at_punct_len _ _ E3) as Hl3.
      destruct (tl ts) as [|[[] a] ts1] eqn:Et; try apply fin_err. cbn [length] in Hl3.
      destruct (xp_at_punct b#"(" ts1) eqn:E4.
      { pose proof (at_punct_len _ _ E4) as Hl4.
        eapply fin_obind; [apply (list_fuel (xp_expr f) (length (tl ts1))); [apply Hgood; lia|lia|lia]|].
        intros args ts2 H2. unfold lt_len in H2.
        eapply fin_weaken; [|apply Hq; lia]. unfold le_len. intros; lia. }
      eapply fin_weaken; [|apply Hq; lia]. unfold le_len. intros; lia.
    + (* simple *)
      intros ts Hf. rewrite xp_simple_S. unfold xp_simple_body.
      destruct ts as [|[k v] r]; [apply fin_err|]. cbn [length] in *.
      destruct (xp_unop_of k v).
      { eapply fin_obind; [apply Hs; lia|]. intros e ts1 H1. unfold lt_len in H1. apply fin_ok. unfold lt_len. lia. }
      destruct k.
      * destruct (bytes_eqb v b#"true"); [apply fin_ok; unfold lt_len; lia|].
        destruct (bytes_eqb v b#"false"); [apply fin_ok; unfold lt_len; lia|].
        destruct (bytes_eqb v b#"null" || bytes_eqb v b#"nil"); [apply fin_ok; unfold lt_len; lia|].
        destruct (xp_at_punct b#"(" r) eqn:E.
        -- pose proof (at_punct_len _ _ E).
           eapply fin_obind; [apply (list_fuel (xp_expr f) (length r)); [apply Hgood; lia|lia|lia]|].
           intros args ts1 H1. unfold lt_len in H1. apply fin_ok. unfold lt_len. lia.
        -- eapply fin_weaken; [|apply (chain_fuel (xp_expr f) (length r)); [apply Hgood; lia|lia|lia]].
           unfold le_len, lt_len. intros; lia.
      * destruct (xp_has_dot v); [apply fin_unm|apply fin_ok; unfold lt_len; lia].
      * apply fin_ok. unfold lt_len. lia.
      * apply fin_err.
      * destruct (bytes_eqb v b#"[").
        { eapply fin_obind; [apply (list_fuel (xp_expr f) (length r)); [apply Hgood; lia|lia|lia]|].
          intros es ts1 H1. unfold lt_len in H1. apply fin_ok. unfold lt_len. lia. }
        destruct (bytes_eqb v b#"{").
        { eapply fin_weaken; [|apply (hash_fuel (xp_expr f) (length r)); [apply Hgood; lia|lia|lia]].
          unfold lt_len. intros; lia. }
        destruct (bytes_eqb v b#"("); [|apply fin_err].
        eapply fin_obind; [apply He; lia|]. intros e ts1 H1. unfold lt_len in H1.
        destruct (xp_at_punct b#")" ts1) eqn:E1; [|apply fin_err]. pose proof (at_punct_len _ _ E1).
        apply fin_ok. unfold lt_len. lia.
Qed.

Theorem xp_fuel_sufficient ts : xp_expr (xp_fuel ts) ts <> OutOfFuel.
Proof.
  destruct (fuel_all (xp_fuel ts)) as (He & _). apply He. unfold xp_fuel. lia.
Qed.

(* with sufficient fuel the answer is the eventual answer *)
Lemma ev_at_fuel ts res : ev (fun f => xp_expr f ts = res) -> xp_expr (xp_fuel ts) ts = res.
Proof.
  intros [n Hn]. pose proof (expr_mono (xp_fuel ts) (max n (xp_fuel ts)) ts ltac:(lia)) as [H|H].
  - exfalso. exact (xp_fuel_sufficient ts H).
  - rewrite H. apply Hn. lia.
Qed.

(* ------------------------------------------------------------------------------------------- *)
(* 7. The statements of property C08                                                            *)
(* ------------------------------------------------------------------------------------------- *)
From Twig Require Import Proofs.ExprLexerProofs Proofs.ExprEvalProofs.

Lemma C08_roundtrip_any_proof : forall (px : expr -> bool) (e : expr),
  pp_wf e = true -> xp_parse (pp_top px e) = Ok e.
Proof.
  intros px e Hwf. unfold xp_parse. rewrite (ev_at_fuel _ _ (roundtrip_top px e Hwf)). reflexivity.
Qed.

Lemma C08_roundtrip_min_proof : forall e, pp_wf e = true -> xp_parse (pp_min e) = Ok e.
Proof. intros. apply C08_roundtrip_any_proof. assumption. Qed.

Lemma C08_roundtrip_full_proof : forall e, pp_wf e = true -> xp_parse (pp_full e) = Ok e.
Proof. intros. apply C08_roundtrip_any_proof. assumption. Qed.

Lemma C08_paren_irrelevant_proof : forall e, pp_wf e = true ->
  xp_parse (pp_min e) = xp_parse (pp_full e) /\
  forall (px : expr -> bool) (A : Type) (value : outcome expr -> A),
    value (xp_parse (pp_top px e)) = value (xp_parse (pp_min e)).
Proof.
  intros e Hwf. split.
  - rewrite C08_roundtrip_min_proof, C08_roundtrip_full_proof by assumption. reflexivity.
  - intros px A value. rewrite C08_roundtrip_min_proof, C08_roundtrip_any_proof by assumption. reflexivity.
Qed.

(* from text to tree: any quote character, any lexically safe spacing, any admissible parentheses *)
Lemma C08_roundtrip_src_proof : forall (px : expr -> bool) (e : expr) (q : byte) (sp : nat -> bytes),
  pp_wf e = true -> q = XSQ \/ q = XDQ -> pp_safe q sp 0 (pp_top px e) = true ->
  xp_parse_src (pp_render q sp 0 (pp_top px e)) = Ok e.
Proof.
  intros px e q sp Hwf Hq Hs. unfold xp_parse_src. rewrite (lex_roundtrip q sp _ Hq Hs).
  apply C08_roundtrip_any_proof, Hwf.
Qed.

Lemma C08_lex_roundtrip_proof : forall (q : byte) (sp : nat -> bytes) (ts : list xtok),
  q = XSQ \/ q = XDQ -> pp_safe q sp 0 ts = true -> xl_lex (pp_render q sp 0 ts) = Ok ts.
Proof. exact lex_roundtrip. Qed.

Lemma C08_fuel_bound_proof : forall ts : list xtok,
  xp_expr (xp_fuel ts) ts <> OutOfFuel /\
  xp_parse ts <> OutOfFuel /\
  (forall f, xp_fuel ts <= f -> xp_expr f ts = xp_expr (xp_fuel ts) ts) /\
  xp_fuel ts = 6 * length ts + 6.
Proof.
  intro ts. pose proof (xp_fuel_sufficient ts) as H. repeat split.
  - exact H.
  - unfold xp_parse. destruct (xp_expr (xp_fuel ts) ts) as [[e [|t r]]| | |]; congruence.
  - intros f Hf. destruct (expr_mono (xp_fuel ts) f ts Hf) as [E|E]; [contradiction|symmetry; exact E].
Qed.

Lemma C08_lexer_total_proof : forall s : bytes,
  xl_lex s <> OutOfFuel /\ (xl_valid_var_name s = true -> xl_lex_var_tag s = xl_lex s).
Proof. intro s. split; [apply xl_lex_total|intro H; symmetry; apply var_tag_shortcut, H]. Qed.

Lemma C08_prec_table_proof :
  c08_table_ok = true /\
  (0 < prec_or /\ prec_or < prec_and /\ prec_and < prec_compare /\ prec_compare < prec_sum /\
   prec_sum < prec_product /\ prec_product < prec_power /\ prec_power < prec_prefix) /\
  (forall o, pp_bprec o = c08_level_of o) /\
  prec_start = prec_or /\ prec_right_incr = 1 /\
  cc_shape_ok = true /\ cc_branch_order = xl_model_branch_order.
Proof.
  split; [exact c08_table_ok_true|]. split; [vm_compute; lia|]. split; [exact bprec_level|].
  repeat split.
Qed.

(* operators of equal precedence group from the left (also the power operator) *)
Lemma C08_left_assoc_proof : forall (o1 o2 : binop) (x y z : bytes),
  pp_name_ok x = true -> pp_name_ok y = true -> pp_name_ok z = true -> pp_bprec o1 = pp_bprec o2 ->
  xp_parse ([pp_N x] ++ pp_binop_toks o1 ++ [pp_N y] ++ pp_binop_toks o2 ++ [pp_N z])
  = Ok (EBin o2 (EBin o1 (EVar x) (EVar y)) (EVar z)).
Proof.
  intros o1 o2 x y z Hx Hy Hz Hp.
  assert (Hwf : pp_wf (EBin o2 (EBin o1 (EVar x) (EVar y)) (EVar z)) = true).
  { cbn [pp_wf]. rewrite Hx, Hy, Hz. reflexivity. }
  rewrite <- (C08_roundtrip_min_proof _ Hwf). f_equal.
  unfold pp_min, pp_top, pp_px_min. apply Nat.eqb_eq in Hp.
  destruct o1, o2; vm_compute in Hp; try discriminate Hp; reflexivity.
Qed.

(* a tighter operator on the right is absorbed by the right operand, a weaker one is not *)
Lemma C08_precedence_proof : forall (o1 o2 : binop) (x y z : bytes),
  pp_name_ok x = true -> pp_name_ok y = true -> pp_name_ok z = true -> pp_bprec o1 < pp_bprec o2 ->
  xp_parse ([pp_N x] ++ pp_binop_toks o1 ++ [pp_N y] ++ pp_binop_toks o2 ++ [pp_N z])
  = Ok (EBin o1 (EVar x) (EBin o2 (EVar y) (EVar z))) /\
  xp_parse ([pp_N x] ++ pp_binop_toks o2 ++ [pp_N y] ++ pp_binop_toks o1 ++ [pp_N z])
  = Ok (EBin o1 (EBin o2 (EVar x) (EVar y)) (EVar z)).
Proof.
  intros o1 o2 x y z Hx Hy Hz Hp. apply Nat.ltb_lt in Hp.
  assert (Hwf1 : pp_wf (EBin o1 (EVar x) (EBin o2 (EVar y) (EVar z))) = true).
  { cbn [pp_wf]. rewrite Hx, Hy, Hz. reflexivity. }
  assert (Hwf2 : pp_wf (EBin o1 (EBin o2 (EVar x) (EVar y)) (EVar z)) = true).
  { cbn [pp_wf]. rewrite Hx, Hy, Hz. reflexivity. }
  split.
  - rewrite <- (C08_roundtrip_min_proof _ Hwf1). f_equal. unfold pp_min, pp_top, pp_px_min.
    destruct o1, o2; vm_compute in Hp; try discriminate Hp; reflexivity.
  - rewrite <- (C08_roundtrip_min_proof _ Hwf2). f_equal. unfold pp_min, pp_top, pp_px_min.
    destruct o1, o2; vm_compute in Hp; try discriminate Hp; reflexivity.
Qed.

(* ------------------------------------------------------------------------------------------- *)
(* 8. Every token the printer writes is one the lexer reads back; single blanks are always safe  *)
(* ------------------------------------------------------------------------------------------- *)

Lemma raw_ok_escape q : xl_is_quote q = true -> forall s, pp_raw_ok q false (pp_escape s) = true.
Proof.
  intros Hq. induction s as [|c s IH]; [reflexivity|].
  cbn [pp_escape]. destruct (pp_must_escape c) eqn:E.
  - cbn [pp_raw_ok]. assert (Hb : Byte.eqb XBSL q = false).
    { unfold xl_is_quote in Hq. apply orb_true_iff in Hq. destruct Hq as [H|H]; apply byte_eqb_eq in H; subst; reflexivity. }
    rewrite Hb. cbn [andb]. change (xl_esc_next false XBSL) with true.
    replace (if Byte.eqb c q then true else true) with true by (destruct (Byte.eqb c q); reflexivity).
    cbn [andb]. replace (xl_esc_next true c) with false by (unfold xl_esc_next; destruct (xl_is_bsl c); reflexivity).
    exact IH.
  - cbn [pp_raw_ok]. assert (Hc : Byte.eqb c q = false).
    { apply byte_eqb_neq. intro Heq. subst c. unfold pp_must_escape in E. rewrite Hq in E.
      rewrite orb_true_r in E. discriminate. }
    rewrite Hc. cbn [andb].
    assert (Hn : xl_is_bsl c = false).
    { unfold pp_must_escape in E. apply orb_false_iff in E. destruct E as [E _]. apply orb_false_iff in E. tauto. }
    unfold xl_esc_next. rewrite Hn. exact IH.
Qed.

Definition all_ok (q : byte) (ts : list xtok) : Prop := Forall (fun t => pp_tok_ok q t = true) ts.

Lemma all_ok_app q a b : all_ok q a -> all_ok q b -> all_ok q (a ++ b).
Proof. intros. apply Forall_app. split; assumption. Qed.
Lemma all_ok_cons q t ts : pp_tok_ok q t = true -> all_ok q ts -> all_ok q (t :: ts).
Proof. intros. constructor; assumption. Qed.
Lemma all_ok_nil q : all_ok q []. Proof. constructor. Qed.

Lemma all_ok_join q sep l : pp_tok_ok q sep = true -> Forall (all_ok q) l -> all_ok q (pp_join sep l).
Proof.
  intros Hs. induction 1 as [|x l Hx Hl IH]; [constructor|].
  cbn [pp_join]. destruct l as [|y l']; [exact Hx|].
  apply all_ok_app; [exact Hx|]. apply all_ok_cons; [exact Hs|exact IH].
Qed.

Lemma all_ok_binop q o : all_ok q (pp_binop_toks o).
Proof. destruct o; repeat constructor. Qed.

Lemma tok_ok_name q x : pp_is_ident x = true -> pp_tok_ok q (pp_N x) = true.
Proof. intro H. exact H. Qed.

Lemma tok_ok_punct q c : xl_is_punct c = true -> pp_tok_ok q (pp_P [c]) = true.
Proof. intro H. exact H. Qed.

Ltac ok_tac :=
  repeat first
    [ apply all_ok_nil
    | apply all_ok_app
    | apply all_ok_cons
    | apply all_ok_binop
    | assumption
    | reflexivity ].

Section TokensOk.
Variable px : expr -> bool.
Variable q : byte.
Hypothesis Hq : xl_is_quote q = true.

Lemma ppar_ok n e : all_ok q (pp px e) -> all_ok q (ppar px n e).
Proof. intro H. unfold ppar. destruct ((pp_level e <? n) || px e); ok_tac. Qed.
Lemma pdot_ok e : all_ok q (pp px e) -> all_ok q (pdot px e).
Proof. intro H. unfold pdot. destruct ((pp_level e <? pp_lv_postfix) || px e || pp_dot_open e); ok_tac. Qed.

Lemma map_ppar_ok es : Forall (fun e => pp_wf e = true -> all_ok q (pp px e)) es -> forallb pp_wf es = true ->
  Forall (all_ok q) (map (ppar px 0) es).
Proof.
  intros HF Hw. rewrite forallb_forall in Hw. rewrite Forall_forall in *. intros t Hin.
  apply in_map_iff in Hin. destruct Hin as [e [<- Hin]]. apply ppar_ok. apply HF; [exact Hin|apply Hw, Hin].
Qed.

Lemma pargs_ok es : Forall (fun e => pp_wf e = true -> all_ok q (pp px e)) es -> forallb pp_wf es = true ->
  all_ok q (pargs px es).
Proof.
  intros HF Hw. unfold pargs. apply all_ok_cons; [reflexivity|]. apply all_ok_app; [|ok_tac].
  apply all_ok_join; [reflexivity|apply map_ppar_ok; assumption].
Qed.

Lemma poargs_ok es : Forall (fun e => pp_wf e = true -> all_ok q (pp px e)) es -> forallb pp_wf es = true ->
  all_ok q (poargs px es).
Proof. intros HF Hw. destruct es; [constructor|apply pargs_ok; assumption]. Qed.

Theorem pp_tokens_ok : forall e, pp_wf e = true -> all_ok q (pp px e).
Proof.
  induction e as [l|x|b a IHb|b i IHb IHi|o a IHa|o l r IHl IHr|c t f0 IHc IHt IHf|es IHes|kvs IHkvs
                 |b fn es IHb IHes|fn es IHes|m fn es IHm IHes|b t es neg IHb IHes] using expr_ind'; intro Hwf.
  - destruct l as [|[]|z|s]; cbn [pp]; try (repeat constructor; fail).
    + cbn [pp_wf] in Hwf. apply andb_true_iff in Hwf. destruct Hwf as [H0 H1].
      assert (Hn : (Z.to_N z < 10 ^ N.of_nat 21)%N).
      { change (10 ^ N.of_nat 21)%N with 1000000000000000000000%N. unfold xp_max_int in H1. lia. }
      destruct (dec_fuel_spec 20 _ Hn) as (_ & Hall & Hne). fold (pp_dec (Z.to_N z)) in *.
      constructor; [|constructor]. cbn [pp_tok_ok]. destruct (pp_dec (Z.to_N z)) as [|c v] eqn:E; [congruence|].
      rewrite <- E in *. apply forallb_forall. intros d Hin. rewrite Forall_forall in Hall.
      destruct (Hall d Hin) as [k [Hk ->]]. apply (digit_facts k Hk).
    + constructor; [|constructor]. cbn [pp_tok_ok]. apply (raw_ok_escape q Hq).
  - cbn [pp pp_wf] in *. unfold pp_name_ok in Hwf. apply andb_true_iff in Hwf. destruct Hwf as [Hi _].
    constructor; [exact Hi|constructor].
  - cbn [pp_wf] in Hwf. apply andb_true_iff in Hwf. destruct Hwf as [Hwb Ha]. rewrite pp_EAttr. specialize (IHb Hwb).
    apply all_ok_app; [destruct (pp_is_chain b); [exact IHb|apply pdot_ok, IHb]|ok_tac].
  - cbn [pp_wf] in Hwf. apply andb_true_iff in Hwf. destruct Hwf as [Hwb Hwi]. rewrite pp_EItem.
    apply all_ok_app; [apply ppar_ok, IHb, Hwb|]. apply all_ok_cons; [reflexivity|].
    apply all_ok_app; [apply ppar_ok, IHi, Hwi|ok_tac].
  - cbn [pp_wf] in Hwf. rewrite pp_EUn. apply all_ok_cons; [destruct o; reflexivity|apply ppar_ok, IHa, Hwf].
  - cbn [pp_wf] in Hwf. apply andb_true_iff in Hwf. destruct Hwf as [Hwl Hwr]. rewrite pp_EBin.
    apply all_ok_app; [apply ppar_ok, IHl, Hwl|]. apply all_ok_app; [apply all_ok_binop|apply ppar_ok, IHr, Hwr].
  - cbn [pp_wf] in Hwf. apply andb_true_iff in Hwf. destruct Hwf as [Hwf Hwf3].
    apply andb_true_iff in Hwf. destruct Hwf as [Hwc Hwt]. rewrite pp_ECond.
    apply all_ok_app; [apply ppar_ok, IHc, Hwc|]. apply all_ok_cons; [reflexivity|].
    apply all_ok_app; [apply ppar_ok, IHt, Hwt|]. apply all_ok_cons; [reflexivity|apply ppar_ok, IHf, Hwf3].
  - cbn [pp_wf] in Hwf. rewrite pp_EArr. apply all_ok_cons; [reflexivity|]. apply all_ok_app; [|ok_tac].
    apply all_ok_join; [reflexivity|apply map_ppar_ok; assumption].
  - cbn [pp_wf] in Hwf. rewrite pp_EHash. apply all_ok_cons; [reflexivity|]. apply all_ok_app; [|ok_tac].
    apply all_ok_join; [reflexivity|].
    rewrite forallb_forall in Hwf. rewrite Forall_forall in *. intros t Hin.
    apply in_map_iff in Hin. destruct Hin as [[k v] [<- Hin]]. specialize (Hwf _ Hin). cbn in Hwf.
    apply andb_true_iff in Hwf. destruct Hwf as [Hk Hv]. destruct (IHkvs _ Hin) as [Pk Pv]. cbn [fst snd] in *.
    apply all_ok_app; [apply ppar_ok, Pk, Hk|]. apply all_ok_cons; [reflexivity|apply ppar_ok, Pv, Hv].
  - cbn [pp_wf] in Hwf. apply andb_true_iff in Hwf. destruct Hwf as [Hwf Hwes].
    apply andb_true_iff in Hwf. destruct Hwf as [Hwb Hfn]. rewrite pp_EFilter.
    apply all_ok_app; [apply ppar_ok, IHb, Hwb|]. apply all_ok_cons; [reflexivity|].
    apply all_ok_cons; [exact Hfn|apply poargs_ok; assumption].
  - cbn [pp_wf] in Hwf. apply andb_true_iff in Hwf. destruct Hwf as [Hfn Hwes]. rewrite pp_ECall.
    unfold pp_name_ok in Hfn. apply andb_true_iff in Hfn. destruct Hfn as [Hi _].
    apply all_ok_cons; [exact Hi|apply pargs_ok; assumption].
  - cbn [pp_wf] in Hwf. apply andb_true_iff in Hwf. destruct Hwf as [Hwf Hwes].
    apply andb_true_iff in Hwf. destruct Hwf as [Hwm Hfn]. rewrite pp_EModCall.
    apply all_ok_app; [destruct (pp_is_chain m); [apply IHm, Hwm|apply pdot_ok, IHm, Hwm]|]. apply all_ok_cons; [reflexivity|].
    apply all_ok_cons; [exact Hfn|apply pargs_ok; assumption].
  - cbn [pp_wf] in Hwf. apply andb_true_iff in Hwf. destruct Hwf as [Hwf Hwes].
    apply andb_true_iff in Hwf. destruct Hwf as [Hwf _].
    apply andb_true_iff in Hwf. destruct Hwf as [Hwb Htn]. rewrite pp_ETest.
    apply all_ok_app; [apply ppar_ok, IHb, Hwb|]. apply all_ok_cons; [reflexivity|].
    apply all_ok_app; [destruct neg; ok_tac|]. apply all_ok_cons; [exact Htn|apply poargs_ok; assumption].
Qed.

Lemma pp_top_ok e : pp_wf e = true -> all_ok q (pp_top px e).
Proof. intro H. unfold pp_top. destruct (px e); [|apply pp_tokens_ok, H]. pose proof (pp_tokens_ok e H). ok_tac. Qed.
End TokensOk.

Lemma safe_single q ts : all_ok q ts -> forall i n, i + length ts = n -> pp_safe q (pp_sp_single n) i ts = true.
Proof.
  induction 1 as [|t r Ht Hr IH]; intros i n Hn.
  - cbn [pp_safe]. rewrite andb_true_r. unfold pp_sp_single. destruct ((i =? 0) || (i =? n)); reflexivity.
  - cbn [pp_safe]. cbn [length] in Hn.
    assert (Hws : forallb xl_is_space (pp_sp_single n i) = true).
    { unfold pp_sp_single. destruct ((i =? 0) || (i =? n)); reflexivity. }
    rewrite Hws, Ht. cbn [andb]. rewrite (IH (S i) n) by lia. rewrite andb_true_r.
    destruct r as [|t2 r2]; [reflexivity|]. cbn [length] in Hn.
    unfold pp_sp_single. assert (E : (S i =? 0) || (S i =? n) = false).
    { apply orb_false_iff. split; [reflexivity|apply Nat.eqb_neq; lia]. }
    rewrite E. reflexivity.
Qed.

(* the source text with single blanks, from text back to the tree: no side condition but pp_wf *)
Lemma C08_roundtrip_text_proof : forall (px : expr -> bool) (e : expr) (q : byte),
  pp_wf e = true -> q = XSQ \/ q = XDQ ->
  let ts := pp_top px e in
  xp_parse_src (pp_render q (pp_sp_single (length ts)) 0 ts) = Ok e.
Proof.
  intros px e q Hwf Hq ts. apply C08_roundtrip_src_proof; [exact Hwf|exact Hq|].
  apply safe_single; [|reflexivity]. apply pp_top_ok; [apply quote_is_quote, Hq|exact Hwf].
Qed.

Lemma C08_roundtrip_text_min_full_proof : forall e : expr, pp_wf e = true ->
  xp_parse_src (pp_src_min e) = Ok e /\ xp_parse_src (pp_src_full e) = Ok e.
Proof.
  intros e Hwf. split; [apply (C08_roundtrip_text_proof pp_px_min e XSQ Hwf)|apply (C08_roundtrip_text_proof pp_px_full e XSQ Hwf)];
    left; reflexivity.
Qed.
