(* C05: index safety and termination of the block parser model (Model/BlockParser.v), for every stand-in
   for parseExpression that satisfies bp_expr_spec and every token list whose last token is EOF. *)
From Twig Require Import Base.Bytes Model.BlockParser Model.BlockParserShape Gen.TokenKinds.
From Coq Require Import Arith Lia.

(* ------------------------------------------------------------------ the tie to the Go text *)
Lemma bp_token_kinds_match :
  gen_token_kinds_shape_ok = true /\
  map (fun k => (tkind_name k, tkind_code k)) bp_all_kinds = gen_token_kinds.
Proof. vm_compute. split; reflexivity. Qed.

Lemma bp_handlers_match :
  map (fun p => (fst p, bp_handler_name (snd p))) bp_handler_table = gen_block_handlers /\
  bp_end_tags = gen_outer_end_tags.
Proof. vm_compute. split; reflexivity. Qed.

Lemma bp_skeletons_match :
  [bp_skel_parseOuterTemplate; bp_skel_parseIf; bp_skel_parseFor; bp_skel_parseSet; bp_skel_parseBlock;
   bp_skel_parseExtends; bp_skel_parseInclude; bp_skel_parseImport; bp_skel_parseFrom; bp_skel_parseMacro;
   bp_skel_parseDo; bp_skel_parseApply; bp_skel_parseSpaceless; bp_skel_parseVerbatim; bp_skel_parseEndTag] =
  [gen_skel_parseOuterTemplate; gen_skel_parseIf; gen_skel_parseFor; gen_skel_parseSet; gen_skel_parseBlock;
   gen_skel_parseExtends; gen_skel_parseInclude; gen_skel_parseImport; gen_skel_parseFrom; gen_skel_parseMacro;
   gen_skel_parseDo; gen_skel_parseApply; gen_skel_parseSpaceless; gen_skel_parseVerbatim; gen_skel_parseEndTag].
Proof. vm_compute. reflexivity. Qed.

(* every tag name the dispatch of parseOuterTemplate can hand to parseEndTag is caught by the end-tag
   test before the map lookup, so parseEndTag is never entered *)
Lemma bp_endtag_unreachable : forall name, bp_dispatch name = Some HEndTag -> bp_is_end_tag name = true.
Proof.
  intros name. unfold bp_dispatch, bp_handler_table. cbn [assoc_bytes].
  repeat match goal with
  | |- context [bytes_eqb ?a name] =>
      let E := fresh "E" in destruct (bytes_eqb a name) eqn:E;
      [apply bytes_eqb_eq in E; subst name; try discriminate; intros _; vm_compute; reflexivity|]
  end.
  discriminate.
Qed.

(* ------------------------------------------------------------------ outcomes *)
(* A: fuel allowance.  A = 0: running out of fuel is not allowed; A > 0: it is.  lo, hi: bounds of the index of a POk *)
Definition bp_good {X} (A lo hi : nat) (r : presult X) : Prop :=
  match r with
  | POk j _ => lo <= j <= hi
  | PErr => True
  | PPanic PTokIndex => False
  | PPanic PStrSlice => True
  | PFuel => 0 < A
  end.

Lemma bp_good_weaken {X} A lo hi lo' hi' (r : presult X) :
  bp_good A lo hi r -> lo' <= lo -> hi <= hi' -> bp_good A lo' hi' r.
Proof. destruct r as [j x| |[|]|]; simpl; intros; try lia; auto. Qed.

Lemma bp_good_cons A lo hi lo' x (r : presult (list bp_tree)) :
  bp_good A lo hi r -> lo' <= lo -> bp_good A lo' hi (bp_cons x r).
Proof. destruct r as [j y| |[|]|]; simpl; intros; try lia; auto. Qed.

Section Safety.
Variable skip : list token -> nat -> option nat.
Variable toks : list token.
Hypothesis Hskip : bp_expr_spec skip.
Hypothesis Heof : bp_ends_in_eof toks.
Let n := length toks.

Lemma bp_n_pos : 1 <= n.
Proof.
  destruct Heof as [t [H _]]. unfold tok_at in H.
  assert (length toks - 1 < length toks) by (apply nth_error_Some; congruence). unfold n. lia.
Qed.

Lemma tok_some_lt i t : tok_at toks i = Some t -> i < n.
Proof. unfold tok_at. intro H. apply nth_error_Some. congruence. Qed.

Lemma tok_none_ge i : tok_at toks i = None -> n <= i.
Proof. unfold tok_at. intro H. apply nth_error_None. exact H. Qed.

Lemma tok_not_eof_lt i t : tok_at toks i = Some t -> t_kind t <> KEof -> S i < n.
Proof.
  intros H K. pose proof (tok_some_lt _ _ H). destruct Heof as [e [He Ke]]. fold n in He.
  destruct (Nat.eq_dec i (n - 1)) as [->|]; [|lia]. rewrite He in H. inversion H; subst. contradiction.
Qed.

Lemma skip_bounds i j : skip toks i = Some j -> i < j /\ j < n.
Proof.
  intro H. destruct (Hskip _ _ _ H) as [Hlt Hk]. split; [exact Hlt|].
  destruct (Hk (j - 1)) as [t [Ht Kt]]; [lia|].
  assert (S (j - 1) < n) by (apply (tok_not_eof_lt _ _ Ht); intro K; rewrite K in Kt; discriminate). lia.
Qed.

Lemma bp_scan_le stop : forall cnt i, i <= n -> i <= bp_scan toks stop cnt i <= n.
Proof.
  induction cnt as [|c IH]; intros i Hi; simpl; [lia|].
  destruct (tok_at toks i) as [t|] eqn:E; [|lia].
  destruct (stop t); [lia|]. pose proof (tok_some_lt _ _ E). specialize (IH (S i)). lia.
Qed.

Lemma bp_scan_lt stop : (forall t, t_kind t = KEof -> stop t = true) ->
  forall cnt i, i < n -> i <= bp_scan toks stop cnt i < n.
Proof.
  intros Hs. induction cnt as [|c IH]; intros i Hi; simpl; [lia|].
  destruct (tok_at toks i) as [t|] eqn:E; [|lia].
  destruct (stop t) eqn:S1; [lia|].
  assert (S i < n) by (apply (tok_not_eof_lt _ _ E); intro K; rewrite (Hs _ K) in S1; discriminate).
  specialize (IH (S i)). lia.
Qed.

(* ---- automation: one case split of the model text at a time, recording what each split tells about indices *)
Ltac bp_noneof B :=
  repeat match goal with
  | E : tok_at toks ?i = Some ?t |- _ =>
      lazymatch goal with
      | _ : S i < n |- _ => fail
      | _ => idtac
      end;
      match type of B with context [t] => idtac end;
      assert (S i < n) by (apply (tok_not_eof_lt _ _ E); let K := fresh "K" in intro K;
                           unfold t_name, t_punct, t_op, t_is in B; rewrite K in B; simpl in B; discriminate)
  end.

Ltac bp_split_true B :=
  match type of B with
  | (_ && _) = true =>
      let B2 := fresh "B" in apply andb_true_iff in B; destruct B as [B B2]; bp_split_true B; bp_split_true B2
  | _ => try bp_noneof B
  end.

(* bp_prune closes a goal whose hypotheses about indices are contradictory; it is tried only after a
   split that added such a hypothesis, which keeps the case analysis small and the proof search fast *)
Ltac bp_prune := try (exfalso; pose proof bp_n_pos; lia).

Ltac bp_case :=
  match goal with
  | |- context [match tok_at toks ?i with _ => _ end] =>
      let E := fresh "E" in let t := fresh "t" in
      destruct (tok_at toks i) as [t|] eqn:E;
      [pose proof (tok_some_lt _ _ E) | pose proof (tok_none_ge _ E)]; bp_prune
  | |- context [match skip toks ?i with _ => _ end] =>
      let E := fresh "E" in let j := fresh "j" in
      destruct (skip toks i) as [j|] eqn:E; [pose proof (skip_bounds _ _ E); bp_prune|]
  | |- context [if (?a <? ?b) then _ else _] =>
      let B := fresh "B" in destruct (a <? b) eqn:B; [apply Nat.ltb_lt in B|apply Nat.ltb_ge in B]; bp_prune
  | |- context [if ?b then _ else _] =>
      let B := fresh "B" in destruct b eqn:B; unfold t_name, t_punct, t_op, t_is in B; try (bp_split_true B; bp_prune)
  end.

Ltac bp_leaf :=
  lazymatch goal with
  | |- bp_good _ _ _ PErr => exact I
  | |- bp_good _ _ _ (PPanic PStrSlice) => exact I
  | |- bp_good _ _ _ (POk _ _) => cbn [bp_good]; pose proof bp_n_pos; lia
  | |- bp_good _ _ _ (PPanic PTokIndex) => exfalso; pose proof bp_n_pos; lia
  | |- bp_good _ _ _ PFuel => cbn [bp_good]; lia
  end.

Ltac bp_unfold :=
  unfold bp_read_back, bp_err_back, bp_read, bp_expect, bp_bind, bp_lift; cbv beta.

Section WithOuter.
Variable A : nat.
Variable outer : nat -> presult (list bp_tree).
Variable cnt : nat.
Hypothesis Houter : forall j, j <= n -> n < cnt + j + A -> bp_good A j n (outer j).
Variable outer_blk : bytes -> option (nat -> presult (list bp_tree)).
Hypothesis Houter_blk : forall nm o, outer_blk nm = Some o ->
  forall j, j <= n -> n < cnt + j + A -> bp_good A j n (o j).

Ltac bp_outer_case :=
  match goal with
  | |- context [match outer ?j with _ => _ end] =>
      let R := fresh "R" in let E := fresh "E" in let j' := fresh "j" in let b := fresh "b" in
      assert (R : bp_good A j n (outer j)) by (apply Houter; lia);
      destruct (outer j) as [j' b| |[|]|] eqn:E; cbn [bp_good] in R; try contradiction; bp_prune
  end.

Ltac bp_go tac := repeat (first [bp_leaf | tac | progress (bp_unfold; cbv zeta) | bp_outer_case | bp_case]).

Lemma bp_extends_good i : 2 <= i -> i <= n -> bp_good A i n (bp_parse_extends skip toks i).
Proof. intros. unfold bp_parse_extends. bp_unfold. bp_go fail. Qed.

Lemma bp_endtag_good i : 2 <= i -> i <= n -> bp_good A i n (bp_parse_endtag toks i).
Proof. intros. unfold bp_parse_endtag. bp_unfold. bp_go fail. Qed.

Lemma bp_set_good i : 2 <= i -> i <= n -> bp_good A i n (bp_parse_set skip toks i).
Proof. intros. unfold bp_parse_set. bp_unfold. bp_go fail. Qed.

Lemma bp_import_good i : 2 <= i -> i <= n -> bp_good A i n (bp_parse_import skip toks i).
Proof. intros. unfold bp_parse_import. bp_unfold. bp_go fail. Qed.

Lemma bp_block_good i : 2 <= i -> i <= n -> n < cnt + i + A -> bp_good A i n (bp_parse_block toks outer_blk i).
Proof.
  intros. unfold bp_parse_block. bp_unfold.
  bp_go ltac:(idtac; match goal with
    | |- context [match outer_blk ?nm with _ => _ end] =>
        let Eo := fresh "Eo" in let o := fresh "o" in
        destruct (outer_blk nm) as [o|] eqn:Eo; [pose proof (Houter_blk _ _ Eo)|]
    | Hb : forall j, j <= n -> n < cnt + j + A -> bp_good A j n (?o j) |- context [match ?o ?j with _ => _ end] =>
        let R := fresh "R" in let j' := fresh "j" in let b := fresh "b" in
        assert (R : bp_good A j n (o j)) by (apply Hb; lia);
        destruct (o j) as [j' b| |[|]|]; cbn [bp_good] in R; try contradiction; bp_prune
    end).
Qed.

Lemma bp_apply_good i : 2 <= i -> i <= n -> n < cnt + i + A -> bp_good A i n (bp_parse_apply toks outer i).
Proof. intros. unfold bp_parse_apply. bp_unfold. bp_go fail. Qed.

Lemma bp_spaceless_good i : 2 <= i -> i <= n -> n < cnt + i + A -> bp_good A i n (bp_parse_spaceless toks outer i).
Proof. intros. unfold bp_parse_spaceless. bp_unfold. bp_go fail. Qed.

Ltac bp_use L := eapply bp_good_weaken; [apply L; lia | lia | lia].

Lemma bp_for_final_good body els k : 1 <= k -> k <= n -> bp_good A k n (bp_for_final toks body els k).
Proof. intros. unfold bp_for_final. bp_go fail. Qed.

Lemma bp_for_tail_good i body : 1 <= i -> i <= n -> n < cnt + i + A -> bp_good A i n (bp_for_tail toks outer i body).
Proof.
  intros. unfold bp_for_tail.
  bp_go ltac:(idtac; match goal with |- bp_good _ _ _ (bp_for_final _ _ _ _) => bp_use bp_for_final_good end).
Qed.

Lemma bp_for_in_good i : 1 <= i -> i <= n -> n < cnt + i + A -> bp_good A i n (bp_for_in skip toks outer i).
Proof.
  intros. unfold bp_for_in.
  bp_go ltac:(idtac; match goal with |- bp_good _ _ _ (bp_for_tail _ _ _ _) => bp_use bp_for_tail_good end).
Qed.

Lemma bp_for_good i : 2 <= i -> i <= n -> n < cnt + i + A -> bp_good A i n (bp_parse_for skip toks outer i).
Proof.
  intros. unfold bp_parse_for.
  bp_go ltac:(idtac; match goal with |- bp_good _ _ _ (bp_for_in _ _ _ _) => bp_use bp_for_in_good end).
Qed.

(* a sub-loop called through bp_bind: record what its lemma says, then split on its outcome *)
Ltac bp_sub L hi :=
  match goal with
  | |- context [match ?f ?c ?i with POk _ _ => _ | PErr => _ | PPanic _ => _ | PFuel => _ end] =>
      let R := fresh "R" in let j' := fresh "j" in
      assert (R : bp_good A i hi (f c i)) by (apply L; lia);
      destruct (f c i) as [j' ?| |[|]|]; cbn [bp_good] in R; try contradiction
  end.

(* a scan: replace it by a fresh index with its bounds *)
Ltac bp_scan_bound :=
  match goal with
  | |- context [bp_scan toks ?st ?c ?j] =>
      let Hs := fresh "Hs" in let sj := fresh "sj" in
      assert (Hs : j <= bp_scan toks st c j <= n) by (apply bp_scan_le; lia);
      remember (bp_scan toks st c j) as sj eqn:Hsj; clear Hsj
  end.
Ltac bp_scan_strict :=
  match goal with
  | |- context [bp_scan toks ?st ?c ?j] =>
      let Hs := fresh "Hs" in let sj := fresh "sj" in
      assert (Hs : j <= bp_scan toks st c j < n)
        by (apply bp_scan_lt; [let u := fresh in let K := fresh in intros u K; rewrite K; reflexivity | lia]);
      remember (bp_scan toks st c j) as sj eqn:Hsj; clear Hsj
  end.

(* ---- if *)
Lemma bp_if_loop_good : forall c i he bodies els, c <= cnt -> 1 <= i -> i <= n -> n < c + i + A ->
  bp_good A i n (bp_if_loop skip toks outer c i he bodies els).
Proof.
  induction c as [|c IH]; intros; cbn [bp_if_loop]; [bp_leaf|].
  bp_go ltac:(idtac; match goal with |- bp_good _ _ _ (bp_if_loop _ _ _ _ _ _ _ _) => bp_use IH end).
Qed.

Lemma bp_if_good i : 2 <= i -> i <= n -> n < cnt + i + A -> bp_good A i n (bp_parse_if skip toks outer cnt i).
Proof.
  intros. unfold bp_parse_if.
  bp_go ltac:(idtac; match goal with |- bp_good _ _ _ (bp_if_loop _ _ _ _ _ _ _ _) => bp_use bp_if_loop_good end).
Qed.

(* ---- include: its loops never consume the last token *)
Lemma bp_incl_hash_good : forall c i, i < n -> n < c + i + A -> bp_good A i (n - 1) (bp_incl_hash skip toks c i).
Proof.
  induction c as [|c IH]; intros; cbn [bp_incl_hash]; [bp_leaf|]. cbv zeta.
  bp_go ltac:(idtac; first [ bp_scan_strict
                           | match goal with |- bp_good _ _ _ (bp_incl_hash _ _ _ _) => bp_use IH end ]).
Qed.

Lemma bp_incl_old_good : forall c i, i < n -> n < c + i + A -> bp_good A i (n - 1) (bp_incl_old skip toks c i).
Proof.
  induction c as [|c IH]; intros; cbn [bp_incl_old]; [bp_leaf|].
  bp_go ltac:(idtac; match goal with |- bp_good _ _ _ (bp_incl_old _ _ _ _) => bp_use IH end).
Qed.

Lemma bp_incl_kw_good : forall c i, i < n -> n < c + i + A -> bp_good A i (n - 1) (bp_incl_kw skip toks c i).
Proof.
  induction c as [|c IH]; intros; cbn [bp_incl_kw]; [bp_leaf|].
  bp_go ltac:(idtac; first [ bp_sub bp_incl_hash_good (n - 1) | bp_sub bp_incl_old_good (n - 1)
                           | match goal with |- bp_good _ _ _ (bp_incl_kw _ _ _ _) => bp_use IH end ]).
Qed.

Lemma bp_include_good i : 2 <= i -> i <= n -> n < cnt + i + A -> bp_good A i n (bp_parse_include skip toks cnt i).
Proof.
  intros. unfold bp_parse_include. bp_go ltac:(idtac; bp_sub bp_incl_kw_good (n - 1)).
Qed.

(* ---- from *)
Definition bp_from_ok (lo : nat) (r : option (nat * nat)) : Prop :=
  match r with Some (j, _) => lo <= j <= n | None => 0 < A end.
Lemma bp_from_ok_weaken lo lo' r : bp_from_ok lo r -> lo' <= lo -> bp_from_ok lo' r.
Proof. destruct r as [[j m]|]; simpl; intros; lia. Qed.

Lemma bp_from_loop_good : forall c i nm, i <= n -> n < c + i + A -> bp_from_ok i (bp_from_loop toks c i nm).
Proof.
  induction c as [|c IH]; intros; cbn [bp_from_loop]; [simpl; lia|].
  repeat first [ progress (cbn [bp_from_ok]); lia
               | match goal with |- bp_from_ok _ (bp_from_loop _ _ _ _) => eapply bp_from_ok_weaken; [apply IH; lia|lia] end
               | bp_case ].
Qed.

Lemma bp_from_fallback_good k : k <= n -> bp_good A k n (bp_from_fallback toks k).
Proof. intros. unfold bp_from_fallback. bp_go ltac:(idtac; bp_scan_bound). Qed.

Lemma bp_from_good i : 2 <= i -> i <= n -> n < cnt + i + A -> bp_good A i n (bp_parse_from toks cnt i).
Proof.
  intros. unfold bp_parse_from.
  bp_go ltac:(idtac; first
    [ match goal with |- bp_good _ _ _ (bp_from_fallback _ _) => bp_use bp_from_fallback_good end
    | match goal with
      | |- context [match bp_from_loop toks ?c ?k ?m with _ => _ end] =>
          let R := fresh "R" in
          assert (R : bp_from_ok k (bp_from_loop toks c k m)) by (apply bp_from_loop_good; lia);
          destruct (bp_from_loop toks c k m) as [[? ?]|]; cbn [bp_from_ok] in R
      end ]).
Qed.

(* ---- macro *)
Lemma bp_macro_params_good : forall c i, i <= n -> n < c + i + A -> bp_good A i n (bp_macro_params skip toks c i).
Proof.
  induction c as [|c IH]; intros; cbn [bp_macro_params]; [bp_leaf|].
  bp_go ltac:(idtac; match goal with |- bp_good _ _ _ (bp_macro_params _ _ _ _) => bp_use IH end).
Qed.

Lemma bp_macro_tail_good j body : j <= n -> bp_good A j n (bp_macro_tail toks j body).
Proof. intros. unfold bp_macro_tail. bp_go fail. Qed.

Lemma bp_macro_body_good i : i <= n -> n < cnt + i + A -> bp_good A i n (bp_macro_body toks outer i).
Proof.
  intros. unfold bp_macro_body.
  bp_go ltac:(idtac; match goal with |- bp_good _ _ _ (bp_macro_tail _ _ _) => bp_use bp_macro_tail_good end).
Qed.

Lemma bp_macro_good i : 2 <= i -> i <= n -> n < cnt + i + A -> bp_good A i n (bp_parse_macro skip toks outer cnt i).
Proof.
  intros. unfold bp_parse_macro.
  bp_go ltac:(idtac; first [ match goal with |- bp_good _ _ _ (bp_macro_body _ _ _) => bp_use bp_macro_body_good end
                           | bp_sub bp_macro_params_good n ]).
Qed.

(* ---- do *)
Lemma bp_do_good i : 2 <= i -> i <= n -> bp_good A i n (bp_parse_do skip toks i).
Proof.
  intros. unfold bp_parse_do.
  bp_go ltac:(idtac; match goal with
                     | |- context [match bp_do_eq toks ?a ?b ?c with _ => _ end] => destruct (bp_do_eq toks a b c) as [[|?]|]
                     end).
Qed.

(* ---- verbatim *)
Lemma bp_verb_loop_good : forall c i, i <= n -> n < c + i + A -> bp_good A i n (bp_verb_loop toks c i).
Proof.
  induction c as [|c IH]; intros; cbn [bp_verb_loop]; [bp_leaf|].
  bp_go ltac:(idtac; first [ bp_scan_bound
                           | match goal with |- bp_good _ _ _ (bp_verb_loop _ _ _) => bp_use IH end ]).
Qed.

Lemma bp_verbatim_good i : 2 <= i -> i <= n -> n < cnt + i + A -> bp_good A i n (bp_parse_verbatim toks cnt i).
Proof.
  intros. unfold bp_parse_verbatim.
  bp_go ltac:(idtac; match goal with |- bp_good _ _ _ (bp_verb_loop _ _ _) => bp_use bp_verb_loop_good end).
Qed.

Lemma bp_run_good h i : 2 <= i -> i <= n -> n < cnt + i + A -> bp_good A i n (bp_run skip toks outer outer_blk h cnt i).
Proof.
  intros. destruct h; cbn [bp_run];
    first [ apply bp_if_good | apply bp_for_good | apply bp_block_good | apply bp_extends_good | apply bp_include_good
          | apply bp_set_good | apply bp_do_good | apply bp_macro_good | apply bp_import_good | apply bp_from_good
          | apply bp_spaceless_good | apply bp_verbatim_good | apply bp_apply_good | apply bp_endtag_good ]; assumption.
Qed.
End WithOuter.

(* ---- parseOuterTemplate: every loop iteration consumes a token or returns *)
Lemma bp_outer_good A : forall fuel opn i, i <= n -> n < fuel + i + A -> bp_good A i n (bp_outer skip toks fuel opn i).
Proof.
  induction fuel as [|f IH]; intros opn i Hi Hf; cbn [bp_outer]; [cbn [bp_good]; lia|].
  destruct (tok_at toks i) as [t|] eqn:E; [|cbn [bp_good]; lia].
  pose proof (tok_some_lt _ _ E) as Hlt.
  destruct (t_kind t) eqn:K;
    try (cbn [bp_good]; first [exact I | lia]);
    try (apply bp_good_cons with (lo := S i); [apply IH; lia | lia]).
  - (* var start *)
    destruct (skip toks (S i)) as [j|] eqn:Es; [|exact I]. pose proof (skip_bounds _ _ Es).
    unfold bp_expect. destruct (tok_at toks j) as [u|] eqn:Eu; [|exact I].
    destruct (k_var_end (t_kind u)); [|exact I].
    apply bp_good_cons with (lo := S j); [apply IH; lia | lia].
  - (* block start *)
    destruct (tok_at toks (S i)) as [nm|] eqn:En; [|exact I]. pose proof (tok_some_lt _ _ En).
    destruct (k_name (t_kind nm)) eqn:Kn; [|exact I].
    assert (S (S i) < n) by (apply (tok_not_eof_lt _ _ En); intro K'; rewrite K' in Kn; discriminate).
    destruct (bp_is_end_tag (t_val nm)); [cbn [bp_good]; lia|].
    destruct (bp_dispatch (t_val nm)) as [h|]; [|exact I].
    set (ob := fun name => if existsb (bytes_eqb name) opn then None else Some (bp_outer skip toks f (name :: opn))).
    assert (R : bp_good A (S (S i)) n (bp_run skip toks (bp_outer skip toks f opn) ob h f (S (S i)))).
    { apply bp_run_good; try lia.
      - intros j Hj Hfj. apply IH; lia.
      - intros nm0 o Ho j Hj Hfj. unfold ob in Ho. destruct (existsb (bytes_eqb nm0) opn); [discriminate|].
        inversion Ho; subst o. apply IH; lia. }
    unfold bp_bind. destruct (bp_run skip toks (bp_outer skip toks f opn) ob h f (S (S i))) as [j nd| |[|]|];
      cbn [bp_good] in R |- *; try first [exact I | contradiction | lia].
    apply bp_good_cons with (lo := j); [apply IH; lia | lia].
  - (* comment *)
    assert (Hs : S i <= bp_scan toks (fun u => k_comment_end (t_kind u)) (length toks) (S i) <= n)
      by (apply bp_scan_le; lia).
    destruct (tok_at toks (bp_scan toks (fun u => k_comment_end (t_kind u)) (length toks) (S i))) as [u|] eqn:Eu; [|exact I].
    pose proof (tok_some_lt _ _ Eu).
    eapply bp_good_weaken; [apply IH; lia | lia | lia].
  - (* name run *)
    assert (Hs : S i <= bp_scan toks (fun u => negb (k_name (t_kind u) && Nat.eqb (t_line u) (t_line t))) (length toks) (S i) <= n)
      by (apply bp_scan_le; lia).
    eapply bp_good_cons; [apply IH; lia | lia].
  - (* var start trim *)
    destruct (skip toks (S i)) as [j|] eqn:Es; [|exact I]. pose proof (skip_bounds _ _ Es).
    unfold bp_expect. destruct (tok_at toks j) as [u|] eqn:Eu; [|exact I].
    destruct (k_var_end (t_kind u)); [|exact I].
    apply bp_good_cons with (lo := S j); [apply IH; lia | lia].
  - (* block start trim *)
    destruct (tok_at toks (S i)) as [nm|] eqn:En; [|exact I]. pose proof (tok_some_lt _ _ En).
    destruct (k_name (t_kind nm)) eqn:Kn; [|exact I].
    assert (S (S i) < n) by (apply (tok_not_eof_lt _ _ En); intro K'; rewrite K' in Kn; discriminate).
    destruct (bp_is_end_tag (t_val nm)); [cbn [bp_good]; lia|].
    destruct (bp_dispatch (t_val nm)) as [h|]; [|exact I].
    set (ob := fun name => if existsb (bytes_eqb name) opn then None else Some (bp_outer skip toks f (name :: opn))).
    assert (R : bp_good A (S (S i)) n (bp_run skip toks (bp_outer skip toks f opn) ob h f (S (S i)))).
    { apply bp_run_good; try lia.
      - intros j Hj Hfj. apply IH; lia.
      - intros nm0 o Ho j Hj Hfj. unfold ob in Ho. destruct (existsb (bytes_eqb nm0) opn); [discriminate|].
        inversion Ho; subst o. apply IH; lia. }
    unfold bp_bind. destruct (bp_run skip toks (bp_outer skip toks f opn) ob h f (S (S i))) as [j nd| |[|]|];
      cbn [bp_good] in R |- *; try first [exact I | contradiction | lia].
    apply bp_good_cons with (lo := j); [apply IH; lia | lia].
Qed.

(* index safety: no fuel whatever makes the model index the token list out of range *)
Lemma bp_index_safe : forall fuel opn i, i <= n -> forall r, bp_outer skip toks fuel opn i = r -> r <> PPanic PTokIndex.
Proof.
  intros fuel opn i Hi r Hr. pose proof (bp_outer_good (S n) fuel opn i Hi ltac:(lia)) as G. rewrite Hr in G.
  intro Hp. rewrite Hp in G. exact G.
Qed.

(* termination: fuel length + 1 is enough from index 0 (and n + 1 - i from index i) *)
Lemma bp_fuel_bound : forall fuel opn i, i <= n -> n < fuel + i -> bp_outer skip toks fuel opn i <> PFuel.
Proof.
  intros fuel opn i Hi Hf Hp. pose proof (bp_outer_good 0 fuel opn i Hi ltac:(lia)) as G. rewrite Hp in G.
  cbn [bp_good] in G. lia.
Qed.

Lemma bp_result_bounds : forall fuel opn i j ns, i <= n -> bp_outer skip toks fuel opn i = POk j ns -> i <= j <= n.
Proof.
  intros fuel opn i j ns Hi Hr. pose proof (bp_outer_good (S n) fuel opn i Hi ltac:(lia)) as G. rewrite Hr in G. exact G.
Qed.
End Safety.


(* ------------------------------------------------------------------ the statements of Properties/C05.v *)
From Twig Require Import Proofs.BlockParserSkipProofs.

Lemma C05_block_parser_index_safe_proof :
  forall (skip : list token -> nat -> option nat) (toks : list token),
    bp_expr_spec skip -> bp_ends_in_eof toks ->
    forall fuel opn i, i <= length toks -> bp_outer skip toks fuel opn i <> PPanic PTokIndex.
Proof. intros skip toks Hs He fuel opn i Hi. eapply bp_index_safe; eauto. Qed.

Lemma C05_block_parser_fuel_bound_proof :
  forall (skip : list token -> nat -> option nat) (toks : list token),
    bp_expr_spec skip -> bp_ends_in_eof toks ->
    bp_parse skip toks <> PFuel /\
    (forall fuel opn i, i <= length toks -> length toks < fuel + i -> bp_outer skip toks fuel opn i <> PFuel) /\
    (forall fuel opn i j ns, i <= length toks -> bp_outer skip toks fuel opn i = POk j ns -> i <= j <= length toks).
Proof.
  intros skip toks Hs He. split; [|split].
  - unfold bp_parse. apply bp_fuel_bound; auto; lia.
  - intros. apply bp_fuel_bound; auto.
  - intros. eapply bp_result_bounds; eauto.
Qed.

Lemma C05_block_parser_std_proof :
  forall toks : list token, bp_ends_in_eofb toks = true ->
    bp_parse_std toks <> PPanic PTokIndex /\ bp_parse_std toks <> PFuel /\
    bp_parse bp_skip_greedy toks <> PPanic PTokIndex /\ bp_parse bp_skip_greedy toks <> PFuel.
Proof.
  intros toks Hb.
  assert (He : bp_ends_in_eof toks).
  { unfold bp_ends_in_eofb in Hb. unfold bp_ends_in_eof. destruct (tok_at toks (length toks - 1)) as [t|]; [|discriminate].
    exists t. split; [reflexivity|]. destruct (t_kind t); try discriminate. reflexivity. }
  unfold bp_parse_std, bp_parse. repeat split.
  - apply C05_block_parser_index_safe_proof; auto using bp_skip_std_spec; lia.
  - apply bp_fuel_bound; auto using bp_skip_std_spec; lia.
  - apply C05_block_parser_index_safe_proof; auto using bp_skip_greedy_spec; lia.
  - apply bp_fuel_bound; auto using bp_skip_greedy_spec; lia.
Qed.

(* the EOF hypothesis is needed: the same model does index out of range on a list that lacks it *)
Definition bp_witness_no_eof : list token :=
  [mkTok KBlockStart [] 1; mkTok KName b#"spaceless" 1; mkTok KBlockEnd [] 1;
   mkTok KBlockStart [] 1; mkTok KName b#"endspaceless" 1].
Lemma C05_eof_needed_proof :
  bp_ends_in_eofb bp_witness_no_eof = false /\ bp_parse_std bp_witness_no_eof = PPanic PTokIndex.
Proof. vm_compute. split; reflexivity. Qed.

(* latent: the two legacy combined-token paths slice a token value without a length test *)
Definition bp_witness_import_slice : list token :=
  [mkTok KBlockStart [] 1; mkTok KName b#"import" 1; mkTok KName [x22; x20; x61; x73; x20; x78] 1;
   mkTok KBlockEnd [] 1; mkTok KEof [] 1].
Definition bp_witness_macro_slice : list token :=
  [mkTok KBlockStart [] 1; mkTok KName b#"macro" 1; mkTok KName [x6d; x28; x61; x3d; x27; x29] 1;
   mkTok KBlockEnd [] 1; mkTok KEof [] 1].
Lemma C05_string_slice_latent_proof :
  bp_parse_std bp_witness_import_slice = PPanic PStrSlice /\ bp_parse_std bp_witness_macro_slice = PPanic PStrSlice.
Proof. vm_compute. split; reflexivity. Qed.

Lemma C05_model_tied_to_code_proof :
  (gen_token_kinds_shape_ok = true /\ map (fun k => (tkind_name k, tkind_code k)) bp_all_kinds = gen_token_kinds) /\
  (map (fun p => (fst p, bp_handler_name (snd p))) bp_handler_table = gen_block_handlers /\ bp_end_tags = gen_outer_end_tags) /\
  [bp_skel_parseOuterTemplate; bp_skel_parseIf; bp_skel_parseFor; bp_skel_parseSet; bp_skel_parseBlock;
   bp_skel_parseExtends; bp_skel_parseInclude; bp_skel_parseImport; bp_skel_parseFrom; bp_skel_parseMacro;
   bp_skel_parseDo; bp_skel_parseApply; bp_skel_parseSpaceless; bp_skel_parseVerbatim; bp_skel_parseEndTag] =
  [gen_skel_parseOuterTemplate; gen_skel_parseIf; gen_skel_parseFor; gen_skel_parseSet; gen_skel_parseBlock;
   gen_skel_parseExtends; gen_skel_parseInclude; gen_skel_parseImport; gen_skel_parseFrom; gen_skel_parseMacro;
   gen_skel_parseDo; gen_skel_parseApply; gen_skel_parseSpaceless; gen_skel_parseVerbatim; gen_skel_parseEndTag].
Proof. split; [exact bp_token_kinds_match|split; [exact bp_handlers_match|exact bp_skeletons_match]]. Qed.
