(* C03: the translator obligation. Gen/MapRanges.v lists every iteration over a Go map in package twig
   (found by static type). Every site whose keys are not sorted in the same function must be in the
   hand-classified list below, with the reason why the order of the iteration cannot reach the output
   (or, for the sites the model covers, which theorem deals with it). A new unsorted map range
   anywhere in the package breaks maprange_obligation, and so does a failing type check. *)
From Coq Require Import List Bool.
From Twig Require Import Base.Bytes Gen.MapRanges.
Import ListNotations.

(* (enclosing function, iterated expression, why the iteration order is immaterial) *)
Definition maprange_classified : list (bytes * bytes * bytes) := [
  (b#"DebugRender", b#"ctx.context", b#"writes to the debug log only, and only at verbose level");
  (b#"GetHashMap", b#"hashMap", b#"deletes every key of a pooled map: the result is the empty map in any order");
  (b#"contains", b#"c", b#"existential test: returns true as soon as some key matches, false after all; no other effect");
  (b#"contains", b#"rv", b#"existential test over MapKeys: true iff some key matches");
  (b#"CoreExtension.filterMerge", b#"rv", b#"ORDER SENSITIVE when two keys of the map have the same string form: every entry is stored under mapKeyString of its key in the order of MapKeys(); modelled with the oracle behind the flag dt_merge_filter_unsorted, independent when the string forms are pairwise different (dt_put_all_str_indep), refuted otherwise by C03_merge_filter_collision_refuted, class merge-filter-key-collision");
  (b#"CoreExtension.filterMerge", b#"argRv", b#"as rv, for every map among the arguments");
  (b#"CoreExtension.functionMerge", b#"baseMap", b#"copies a map[string]interface{} into a fresh map: order immaterial (model dt_merge_function)");
  (b#"CoreExtension.functionMerge", b#"baseRv", b#"(no longer in the tree: the function iterates sortedMapKeys) stores every entry under the string form of its key");
  (b#"CoreExtension.functionMerge", b#"argMap", b#"stores every entry of a map[string]interface{} into the result: order immaterial");
  (b#"CoreExtension.functionMerge", b#"argRv", b#"as baseRv");
  (b#"getMapKeys", b#"m", b#"unused debugging helper; no caller in the package");
  (b#"ExtendsNode.Render", b#"ctx.parentBlocks", b#"copies a map into a map under the same keys");
  (b#"ExtendsNode.Render", b#"ctx.blocks", b#"copies a map into a map under the same keys");
  (b#"ExtendsNode.Render", b#"ctx.blockChain", b#"copies a map into a map under the same keys, each slice copied on its own");
  (b#"IncludeNode.Render", b#"ctx.context", b#"copies the variables into a fresh map under the same names");
  (b#"IncludeNode.Render", b#"c.context", b#"sandboxed include without only: the contexts are walked in a fixed order, nearest first (for c := ctx; c != nil; c = c.parent); within one context every name occurs once and is copied only when not yet present, so the order inside one map is immaterial");
  (b#"MacroNode.CallMacro", b#"n.siblings", b#"copies the macro table of the defining template into the macro context under the same names");
  (b#"IncludeNode.Render", b#"n.variables", b#"every value expression is evaluated in the includer's context, which the loop does not change, and stored under its own name in the child context: order immaterial on success; on failure the first failing entry in map order is reported (error text is not an observable)");
  (b#"ImportNode.Render", b#"importCtx.macros", b#"copies a map into a map under the same keys");
  (b#"NewRenderContext", b#"ctx.context", b#"clears a pooled map");
  (b#"NewRenderContext", b#"ctx.blocks", b#"clears a pooled map");
  (b#"NewRenderContext", b#"ctx.parentBlocks", b#"clears a pooled map");
  (b#"NewRenderContext", b#"ctx.macros", b#"clears a pooled map");
  (b#"NewRenderContext", b#"context", b#"copies the caller's variables into the context map under the same names");
  (b#"RenderContext.Release", b#"contextMap", b#"clears a map before it goes back to the pool");
  (b#"RenderContext.Release", b#"blocksMap", b#"clears a map before it goes back to the pool");
  (b#"RenderContext.Release", b#"parentBlocksMap", b#"clears a map before it goes back to the pool");
  (b#"RenderContext.Release", b#"macrosMap", b#"clears a map before it goes back to the pool");
  (b#"RenderContext.Clone", b#"newCtx.context", b#"clears a pooled map");
  (b#"RenderContext.Clone", b#"newCtx.blocks", b#"clears a pooled map");
  (b#"RenderContext.Clone", b#"newCtx.macros", b#"clears a pooled map");
  (b#"RenderContext.Clone", b#"newCtx.parentBlocks", b#"clears a pooled map");
  (b#"RenderContext.Clone", b#"ctx.blocks", b#"copies a map into a map under the same keys");
  (b#"RenderContext.Clone", b#"ctx.macros", b#"copies a map into a map under the same keys");
  (b#"RenderContext.EvaluateExpression", b#"n.items", b#"(no longer in the tree: hashKeyOrder gives the source order) ORDER SENSITIVE when two keys of a hash literal have the same text: modelled with the oracle behind the flag dt_hash_ranges_go_map, independent under dt_eok (distinct literal keys), refuted otherwise by C03_hash_map_order_refuted");
  (b#"containsItself", b#"v", b#"existential search along the open path of a depth-first walk: true iff some map, slice or pointer reachable from the value is reachable from itself, whatever the order of the walk; the callers (ToString, toString, dump, format) replace the whole value by the constant text cyclicValueText, so neither the answer nor the printed placeholder depends on where the cycle is met first");
  (b#"RenderContext.contains", b#"tempMap", b#"existential test over a set built from a slice: true iff some element equals the item");
  (b#"RenderContext.contains", b#"rv", b#"existential test over MapKeys: true iff some key equals the item");
  (b#"Engine.GetCachedTemplateNames", b#"e.templates", b#"API result outside rendering; the cache checks compare it as a set (C15)");
  (b#"Engine.AddExtension", b#"extension.GetFilters()", b#"registers every entry under its own name: a map copied into a map");
  (b#"Engine.AddExtension", b#"extension.GetFunctions()", b#"registers every entry under its own name");
  (b#"Engine.AddExtension", b#"extension.GetTests()", b#"registers every entry under its own name");
  (b#"Engine.AddExtension", b#"extension.GetOperators()", b#"registers every entry under its own name")
].

(* sites that came with the repairs 0b86a90 / 4c440c3 or come with notes/proposed-fixes/C03-*.patch *)
Definition maprange_classified_after_repair : list (bytes * bytes * bytes) := [
  (b#"sortedMapKeys", b#"val", b#"sorted in the same function by string form and by type name on ties");
  (b#"hashKeyOrder", b#"n.items", b#"fallback for hash nodes built without a source order (NewHashNode, no caller in the package): keys as the map yields them; the parser always records the source order")
].

Definition maprange_is_classified (fn ex : bytes) : bool :=
  existsb (fun c => match c with (f, e, _) => bytes_eqb f fn && bytes_eqb e ex end)
          (maprange_classified ++ maprange_classified_after_repair).

Definition maprange_site_ok (s : bytes * bytes * bytes * bytes * bool) : bool :=
  match s with (_, fn, ex, _, sorted) => sorted || maprange_is_classified fn ex end.

Definition maprange_unclassified : list (bytes * bytes * bytes * bytes * bool) :=
  filter (fun s => negb (maprange_site_ok s)) maprange_sites.

(* the sites the model relies on being sorted are still there and still sorted *)
Definition maprange_has_sorted (fn ex : bytes) : bool :=
  existsb (fun s => match s with (_, f, e, _, sorted) => bytes_eqb f fn && bytes_eqb e ex && sorted end) maprange_sites.

(* no function of the anchored render path ranges over a map directly where the model says it sorts *)
Definition maprange_no_site_in (fn : bytes) : bool :=
  negb (existsb (fun s => match s with (_, f, _, _, _) => bytes_eqb f fn end) maprange_sites).

Lemma maprange_obligation_proof :
  maprange_typecheck_ok = true /\
  maprange_untyped = [] /\
  maprange_unclassified = [] /\
  maprange_has_sorted b#"sortedMapKeys" b#"val" = true /\
  maprange_has_sorted b#"CoreExtension.filterKeys" b#"v" = true /\
  maprange_no_site_in b#"ForNode.renderForLoop" = true /\
  maprange_no_site_in b#"CoreExtension.filterFirst" = true /\
  maprange_no_site_in b#"convertDateFormat" = true /\
  maprange_no_site_in b#"join" = true /\
  maprange_no_site_in b#"CoreExtension.filterJoin" = true /\
  maprange_no_site_in b#"RenderContext.ToString" = true /\
  maprange_no_site_in b#"toString" = true.
Proof. repeat split; vm_compute; reflexivity. Qed.
