(* The tie of the evaluator model to the shapes of node.go / render.go that the translator re-reads on every run
   (tools/gogen/gen_eval.go -> Gen/EvalShape.v). Kept apart from Proofs/EvalProofs.v so that a changed shape breaks
   this obligation (and Properties/C09.v) without taking the reusable lemmas of EvalProofs.v with it. *)
From Twig Require Import Base.Bytes Gen.EvalShape.

(* toBool has its nil guard and type switch; renderForLoop saves the enclosing loop variable and defers its
   restoration, ranges over []rune for strings and over sortedMapKeys for maps *)
Lemma C09_code_shape_proof : evs_shape_ok = true.
Proof. vm_compute. reflexivity. Qed.
