(* Proofs of property C06 (sandbox confinement), part 2: what the policy does NOT touch, and what a refusal is.
   - the helper that applies a filter / calls a function answers a forbidden name in a sandboxed context with the
     security class and without an invocation event;
   - outside the sandbox the policy is never consulted: two environments that differ in the policy only render every
     non-sandboxed context alike, as long as they render the templates inside sandboxed includes alike. *)
From Twig Require Import Base.Bytes Base.Utf8 Model.Ast Model.Value Model.ValueOps Model.EvalBuiltins Model.Ctx
                         Model.TemplateSet Model.Eval Spec.SandboxSpec Proofs.EvalProofs Proofs.SandboxProofs.

(* ================================================================ a refusal *)
Lemma ev_apply_filter_forbidden env pol c f v args :
  e_policy env = Some pol -> rc_sandboxed c = true -> sb_filter_ok pol f = false ->
  ev_apply_filter env c f v args = (Err ESecurity, []).
Proof.
  intros Hpol Hs Hf. unfold ev_apply_filter. rewrite Hs, (ev_filter_allowed_pol env pol f Hpol), Hf. reflexivity.
Qed.

Lemma ev_call_function_forbidden env pol c f args :
  e_policy env = Some pol -> rc_sandboxed c = true -> sb_function_ok pol f = false ->
  ev_call_function env c f args = (Err ESecurity, []).
Proof.
  intros Hpol Hs Hf. unfold ev_call_function. rewrite Hs, (ev_function_allowed_pol env pol f Hpol), Hf. reflexivity.
Qed.

(* the check at the top of EvaluateExpression: a filter or function node with a forbidden name is refused before
   any of its sub-expressions is evaluated *)
Lemma ev_expr_forbidden_head ev env pol c e :
  e_policy env = Some pol -> rc_sandboxed c = true -> sb_names_expr pol e = false ->
  ev_expr ev env c e = (Err ESecurity, []).
Proof.
  intros Hpol Hs Hn. unfold ev_expr.
  assert (Hd : ev_sandbox_denies env c e = true).
  { unfold ev_sandbox_denies. rewrite Hs, Hpol. cbn [andb].
    destruct e; cbn [sb_names_expr] in Hn; try discriminate;
      rewrite ?(ev_filter_allowed_pol env pol _ Hpol), ?(ev_function_allowed_pol env pol _ Hpol), Hn; reflexivity. }
  rewrite Hd. reflexivity.
Qed.

(* an allowed name passes the helper as if there were no sandbox *)
Lemma ev_apply_filter_allowed env pol c f v args :
  e_policy env = Some pol -> sb_filter_ok pol f = true ->
  ev_apply_filter env c f v args = ev_apply_filter env (sb_erase c) f v args.
Proof.
  intros Hpol Hf. unfold ev_apply_filter. rewrite (ev_filter_allowed_pol env pol f Hpol), Hf.
  destruct c. cbn. rewrite andb_false_r. reflexivity.
Qed.

(* ================================================================ outside the sandbox *)
Lemma sb_same_lookup e1 e2 name : sb_same_but_policy e1 e2 -> ts_lookup e1 name = ts_lookup e2 name.
Proof. intros [H _]. unfold ts_lookup. rewrite H. reflexivity. Qed.
Lemma sb_same_find_macro e1 e2 tpl name : sb_same_but_policy e1 e2 -> ts_find_macro e1 tpl name = ts_find_macro e2 tpl name.
Proof. intro H. unfold ts_find_macro. rewrite (sb_same_lookup e1 e2 tpl H). reflexivity. Qed.

Lemma sb_same_siblings e1 e2 tpl : sb_same_but_policy e1 e2 -> ts_sibling_macros e1 tpl = ts_sibling_macros e2 tpl.
Proof. intro H. unfold ts_sibling_macros. rewrite (sb_same_lookup e1 e2 tpl H). reflexivity. Qed.

Lemma ev_load_lookup ev env c e name tpl t : ev_load ev env c e = (Ok (name, tpl), t) -> tpl = ts_lookup env name.
Proof.
  unfold ev_load. destruct (ev c e) as [o t0]. destruct o as [v| | |]; cbn [ev_bind]; try discriminate.
  destruct (vo_to_str v) as [s|]; [|discriminate]. destruct (ev_relative s); [discriminate|].
  intro H. inversion H; subst. reflexivity.
Qed.

Section Outside.
  Variables env1 env2 : ev_env.
  Hypothesis Hsame : sb_same_but_policy env1 env2.

  Lemma so_apply_filter c f v args : rc_sandboxed c = false -> ev_apply_filter env1 c f v args = ev_apply_filter env2 c f v args.
  Proof. intro Hs. destruct Hsame as [_ [Hf _]]. unfold ev_apply_filter. rewrite Hs, Hf. reflexivity. Qed.

  Lemma so_call_function c f args : rc_sandboxed c = false -> ev_call_function env1 c f args = ev_call_function env2 c f args.
  Proof. intro Hs. destruct Hsame as [_ [_ [Hf _]]]. unfold ev_call_function. rewrite Hs, Hf. reflexivity. Qed.

  Lemma so_self_call c f args : rc_sandboxed c = false -> ev_self_call env1 c f args = ev_self_call env2 c f args.
  Proof. intro Hs. unfold ev_self_call. rewrite (so_call_function c f args Hs). reflexivity. Qed.

  Lemma so_call_test t v args : ev_call_test env1 t v args = ev_call_test env2 t v args.
  Proof. destruct Hsame as [_ [_ [_ [Ht _]]]]. unfold ev_call_test. rewrite Ht. reflexivity. Qed.

  Lemma so_denies env c e : rc_sandboxed c = false -> ev_sandbox_denies env c e = false.
  Proof. intro Hs. unfold ev_sandbox_denies. rewrite Hs. reflexivity. Qed.

  Lemma so_apply_chain c : rc_sandboxed c = false -> forall ch v, ev_apply_chain env1 c v ch = ev_apply_chain env2 c v ch.
  Proof.
    intro Hs. induction ch as [|[f vs] r IH]; intro v; cbn [ev_apply_chain]; [reflexivity|].
    rewrite (so_apply_filter c f v vs Hs). apply ev_bind_ext. intro w. apply IH.
  Qed.

  Lemma so_filter_chain (f g : expr -> ev_res) c e b : rc_sandboxed c = false -> (forall e, f e = g e) ->
    ev_filter_chain f env1 c e b = ev_filter_chain g env2 c e b.
  Proof.
    intros Hs H. unfold ev_filter_chain. destruct (ev_unchain e) as [base ch].
    rewrite (ev_chain_args_fext f g H). apply ev_bind_ext. intro args. rewrite H. apply ev_bind_ext. intro v.
    rewrite (so_apply_chain c Hs). reflexivity.
  Qed.

  Lemma ev_pairs_fext (f g : expr -> ev_res) : (forall e, f e = g e) -> forall kvs acc, ev_pairs f kvs acc = ev_pairs g kvs acc.
  Proof.
    intro H. induction kvs as [|[k x] r IH]; intro acc; cbn [ev_pairs]; [reflexivity|].
    rewrite H. apply ev_bind_ext. intro kv. destruct (vo_to_str kv); [|reflexivity].
    rewrite H. apply ev_bind_ext. intro xv. apply IH.
  Qed.

  Lemma so_expr (f g : expr -> ev_res) c e : rc_sandboxed c = false -> (forall e, f e = g e) ->
    ev_expr f env1 c e = ev_expr g env2 c e.
  Proof.
    intros Hs H. unfold ev_expr. rewrite !(so_denies _ c e Hs).
    destruct e as [l|x|o a|o i|u a|b l r|q a b|es|kvs|o fn args|fn args|m fn args|a t args neg];
      rewrite ?H, ?(ev_list_fext f g H); try reflexivity.
    - apply ev_pairs_fext. exact H.
    - apply so_filter_chain; assumption.
    - destruct (rc_get_macro c fn) as [[tpl nm]|]; [reflexivity|].
      apply ev_bind_ext. intro vs. rewrite (so_call_function c fn vs Hs). reflexivity.
    - apply ev_bind_ext. intro mo. apply ev_bind_ext. intro vs.
      rewrite (so_self_call c fn vs Hs). reflexivity.
    - assert (Hstd : ev_bind (g a) (fun v => ev_bind (ev_list g args) (fun vs => ev_call_test env1 t v vs)) =
                     ev_bind (g a) (fun v => ev_bind (ev_list g args) (fun vs => ev_call_test env2 t v vs))).
      { apply ev_bind_ext. intro v. apply ev_bind_ext. intro vs. apply so_call_test. }
      rewrite Hstd. destruct (bytes_eqb t b#"defined"); [|reflexivity].
      destruct a; try reflexivity. unfold ev_defined_attr. rewrite H. reflexivity.
  Qed.

  Lemma so_eval : forall fuel c e, rc_sandboxed c = false -> eval fuel env1 c e = eval fuel env2 c e.
  Proof.
    induction fuel as [|fu IH]; intros c e Hs; cbn [eval]; [reflexivity|].
    apply so_expr; [exact Hs|]. intro e'. apply IH. exact Hs.
  Qed.

  (* a rendering result of a non-sandboxed context: the same under both environments, and the context handed on is
     not sandboxed either *)
  Definition so_same (r1 r2 : ev_rres) : Prop := r1 = r2 /\ rc_sandboxed (sb_ctx r1) = false.

  Lemma so_rexpr {A} (r : outcome A * ev_trace) c (k1 k2 : A -> ev_rres) :
    rc_sandboxed c = false -> (forall a, so_same (k1 a) (k2 a)) -> so_same (ev_rexpr r c k1) (ev_rexpr r c k2).
  Proof.
    intros Hs Hk. destruct r as [o t]. destruct o as [a| | |]; cbn [ev_rexpr]; try (split; [reflexivity|exact Hs]).
    destruct (Hk a) as [E Hc]. rewrite <- E. destruct (k1 a) as [[r2 c2] t2]. split; [reflexivity|exact Hc].
  Qed.

  Lemma so_rexpr_val {A} (r : outcome A * ev_trace) c (k1 k2 : A -> ev_rres) :
    rc_sandboxed c = false -> (forall a t, r = (Ok a, t) -> so_same (k1 a) (k2 a)) -> so_same (ev_rexpr r c k1) (ev_rexpr r c k2).
  Proof.
    intros Hs Hk. destruct r as [o t]. destruct o as [a| | |]; cbn [ev_rexpr]; try (split; [reflexivity|exact Hs]).
    destruct (Hk a t eq_refl) as [E Hc]. rewrite <- E. destruct (k1 a) as [[r2 c2] t2]. split; [reflexivity|exact Hc].
  Qed.

  Lemma so_rseq (r1 r2 : ev_rres) (k1 k2 : rctx -> ev_rres) :
    so_same r1 r2 -> (forall c, rc_sandboxed c = false -> so_same (k1 c) (k2 c)) -> so_same (ev_rseq r1 k1) (ev_rseq r2 k2).
  Proof.
    intros [E Hc] Hk. subst r2. destruct r1 as [[o c] t]. cbn in Hc.
    destruct o as [o1| | |]; cbn [ev_rseq]; try (split; [reflexivity|exact Hc]).
    destruct (Hk c Hc) as [E2 Hc2]. rewrite <- E2. destruct (k1 c) as [[o2 c2] t2]. cbn in Hc2.
    destruct o2; split; try reflexivity; exact Hc2.
  Qed.

  Lemma so_ret o c : rc_sandboxed c = false -> so_same (ev_rret o c) (ev_rret o c).
  Proof. intro Hs. split; [reflexivity|exact Hs]. Qed.
  Lemma so_fail o c : rc_sandboxed c = false -> so_same (ev_rfail o c) (ev_rfail o c).
  Proof. intro Hs. split; [reflexivity|exact Hs]. Qed.

  Section Helpers.
    Variables ev1 ev2 : rctx -> expr -> ev_res.
    Variables rend1 rend2 root1 root2 : rctx -> list node -> ev_rres.
    Hypothesis Hev : forall c e, rc_sandboxed c = false -> ev1 c e = ev2 c e.
    Hypothesis Hrend : forall c ns, rc_sandboxed c = false -> so_same (rend1 c ns) (rend2 c ns).
    Hypothesis Hroot : forall c ns, rc_sandboxed c = false -> so_same (root1 c ns) (root2 c ns).
    (* inside a sandboxed include: the templates of the environment, outcome and trace *)
    Hypothesis Hinside : forall ic name ns, rc_sandboxed ic = true -> ts_lookup env1 name = Some ns ->
      sb_out (root1 ic ns) = sb_out (root2 ic ns) /\ sb_tr (root1 ic ns) = sb_tr (root2 ic ns).

    Lemma so_if c bs els : rc_sandboxed c = false -> so_same (ev_if ev1 rend1 c bs els) (ev_if ev2 rend2 c bs els).
    Proof.
      intro Hs. induction bs as [|[cond body] rest IH]; cbn [ev_if].
      - destruct els; [apply Hrend; exact Hs|apply so_ret; exact Hs].
      - rewrite (Hev c cond Hs). apply so_rexpr; [exact Hs|]. intro v.
        destruct (vo_to_bool v); [apply Hrend; exact Hs|exact IH].
    Qed.

    Lemma so_loop_items body k v n : forall items i c, rc_sandboxed c = false ->
      so_same (ev_loop_items (fun c0 => rend1 c0 body) k v n i items c) (ev_loop_items (fun c0 => rend2 c0 body) k v n i items c).
    Proof.
      induction items as [|it rest IH]; intros i c Hs; cbn [ev_loop_items]; [apply so_ret; exact Hs|].
      apply so_rseq; [apply Hrend; rewrite sb_iter_ctx; exact Hs|]. intros c1 H1. apply IH. exact H1.
    Qed.

    Lemma so_for_loop c k v seq body els : rc_sandboxed c = false ->
      so_same (ev_for_loop rend1 c k v seq body els) (ev_for_loop rend2 c k v seq body els).
    Proof.
      intro Hs. unfold ev_for_loop.
      assert (Helse : so_same (match els with Some b => rend1 c b | None => ev_rret [] c end)
                              (match els with Some b => rend2 c b | None => ev_rret [] c end)).
      { destruct els; [apply Hrend; exact Hs|apply so_ret; exact Hs]. }
      destruct (ev_loop_items_of seq) as [[|it items]|]; try exact Helse.
      destruct (so_loop_items body k v (Z.of_nat (length (it :: items))) (it :: items) 0%Z c Hs) as [E Hc].
      rewrite <- E. destruct (ev_loop_items _ k v _ 0%Z (it :: items) c) as [[r c'] t]. cbn in Hc.
      split; [reflexivity|]. cbn. destruct (rc_own_var c _); exact Hc.
    Qed.

    Lemma so_for_seq c seq : rc_sandboxed c = false -> ev_for_seq ev1 env1 c seq = ev_for_seq ev2 env2 c seq.
    Proof.
      intro Hs. unfold ev_for_seq. destruct seq; try (apply Hev; exact Hs).
      - destruct (existsb _ x); [reflexivity|apply Hev; exact Hs].
      - apply so_filter_chain; [exact Hs|]. intro e'. apply Hev. exact Hs.
    Qed.

    Lemma so_call_macro c tpl name args : rc_sandboxed c = false ->
      ev_call_macro ev1 rend1 env1 c tpl name args = ev_call_macro ev2 rend2 env2 c tpl name args.
    Proof.
      intro Hs. unfold ev_call_macro. rewrite (sb_same_find_macro env1 env2 tpl name Hsame), (sb_same_siblings env1 env2 tpl Hsame).
      destruct (ts_find_macro env2 tpl name) as [[params body]|]; [|reflexivity].
      destruct (_ || _); [reflexivity|].
      rewrite (ev_bind_params_fext (ev1 c) (ev2 c) (fun e => Hev c e Hs)).
      destruct (ev_bind_params (ev2 c) params args _) as [o t] eqn:E. destruct o as [mc| | |]; cbn [ev_bind]; try reflexivity.
      destruct (Hrend mc body) as [E2 _]; [|rewrite E2; reflexivity].
      rewrite (ev_bind_params_flag _ _ _ _ _ _ E). cbn. exact Hs.
    Qed.

    Lemma so_parent_call c : rc_sandboxed c = false -> so_same (ev_parent_call rend1 c) (ev_parent_call rend2 c).
    Proof.
      intro Hs. unfold ev_parent_call. destruct (rc_cur_block c); [|apply so_fail; exact Hs].
      destruct (nth_error (rc_cur_defs c) (S (rc_depth c))) as [d|]; [|apply so_fail; exact Hs].
      destruct (Hrend (rc_with_depth c (S (rc_depth c)) (bd_tpl d)) (bd_body d) Hs) as [E Hc].
      rewrite <- E. destruct (rend1 _ (bd_body d)) as [[r c'] t]. split; [reflexivity|exact Hc].
    Qed.

    Lemma so_print c e : rc_sandboxed c = false -> so_same (ev_print ev1 rend1 env1 c e) (ev_print ev2 rend2 env2 c e).
    Proof.
      intro Hs. unfold ev_print. rewrite (Hev c e Hs). apply so_rexpr; [exact Hs|]. intro v.
      destruct (vo_view v); try (destruct (vo_to_str v); [apply so_ret|apply so_fail]; exact Hs).
      - rewrite (so_call_macro c tpl name args Hs). destruct (ev_call_macro ev2 rend2 env2 c tpl name args). split; [reflexivity|exact Hs].
      - apply so_parent_call. exact Hs.
    Qed.

    Lemma so_block c name body : rc_sandboxed c = false -> so_same (ev_block rend1 c name body) (ev_block rend2 c name body).
    Proof.
      intro Hs. unfold ev_block. destruct (if existsb _ _ then _ else _) as [|d ds]; [apply so_fail; exact Hs|].
      match goal with |- context [rend1 ?c1 ?b] => destruct (Hrend c1 b Hs) as [E Hc]; rewrite <- E; destruct (rend1 c1 b) as [[r c'] t] end.
      split; [reflexivity|exact Hc].
    Qed.

    Lemma so_load c e : rc_sandboxed c = false -> ev_load ev1 env1 c e = ev_load ev2 env2 c e.
    Proof.
      intro Hs. unfold ev_load. rewrite (Hev c e Hs). apply ev_bind_ext. intro v.
      destruct (vo_to_str v); [|reflexivity]. rewrite (sb_same_lookup env1 env2 _ Hsame). reflexivity.
    Qed.

    Lemma so_extends c e : rc_sandboxed c = false -> so_same (ev_extends ev1 root1 env1 c e) (ev_extends ev2 root2 env2 c e).
    Proof.
      intro Hs. unfold ev_extends. rewrite (so_load (rc_with_extending c true) e Hs).
      apply so_rexpr; [exact Hs|]. intros [name [pnodes|]]; cbn [fst snd]; [|apply so_fail; exact Hs].
      match goal with |- context [root1 ?pc pnodes] => destruct (Hroot pc pnodes Hs) as [E _]; rewrite <- E; destruct (root1 pc pnodes) as [[r c'] t] end.
      split; [reflexivity|exact Hs].
    Qed.

    Lemma so_root c ns : rc_sandboxed c = false -> so_same (ev_root ev1 rend1 root1 env1 c ns) (ev_root ev2 rend2 root2 env2 c ns).
    Proof.
      intro Hs. unfold ev_root. destruct (negb (ts_wf ns)); [apply so_fail; exact Hs|].
      destruct (ev_first_pass ns (rc_extending c) (rc_blocks c) None) as [blocks [e|]].
      - apply so_extends. exact Hs.
      - apply Hrend. exact Hs.
    Qed.

    Lemma so_policy_none : (match e_policy env1 with None => true | Some _ => false end) =
                           (match e_policy env2 with None => true | Some _ => false end).
    Proof.
      destruct Hsame as [_ [_ [_ [_ [H1 H2]]]]].
      destruct (e_policy env1), (e_policy env2); try reflexivity.
      - specialize (H2 eq_refl). discriminate.
      - specialize (H1 eq_refl). discriminate.
    Qed.

    Lemma so_include c e withs ign only sb : rc_sandboxed c = false ->
      so_same (ev_include ev1 root1 env1 c e withs ign only sb) (ev_include ev2 root2 env2 c e withs ign only sb).
    Proof.
      intro Hs. unfold ev_include. rewrite <- (so_load c e Hs).
      apply so_rexpr_val; [exact Hs|]. intros [name tpl] t El. cbn [fst snd].
      pose proof (ev_load_lookup _ _ _ _ _ _ _ El) as Htpl.
      destruct tpl as [inodes|]; [|destruct ign; [apply so_ret|apply so_fail]; exact Hs].
      destruct (match withs with None => _ | Some _ => _ end) as [kvs|]; [|apply so_fail; exact Hs].
      rewrite <- so_policy_none.
      assert (Hinner : forall ic0,
                so_same (ev_rexpr (ev_with_vars (ev1 c) kvs ic0) c (fun ic => let '(r, _, t0) := root1 ic inodes in (r, c, t0)))
                        (ev_rexpr (ev_with_vars (ev2 c) kvs ic0) c (fun ic => let '(r, _, t0) := root2 ic inodes in (r, c, t0)))).
      { intro ic0. rewrite (ev_with_vars_fext (ev1 c) (ev2 c) (fun e' => Hev c e' Hs)).
        apply so_rexpr; [exact Hs|]. intro ic. split; [|destruct (root1 ic inodes) as [[r c2] t2]; exact Hs].
        destruct (rc_sandboxed ic) eqn:Eic.
        - destruct (Hinside ic name inodes Eic (eq_sym Htpl)) as [Eo Et].
          destruct (root1 ic inodes) as [[r1 c1] t1], (root2 ic inodes) as [[r2 c2] t2].
          cbn in Eo, Et. subst. reflexivity.
        - destruct (Hroot ic inodes Eic) as [E _]. rewrite E. reflexivity. }
      destruct (negb only && negb sb); [apply Hinner|].
      destruct (sb && _); [apply so_fail; exact Hs|apply Hinner].
    Qed.

    Lemma so_import_macros c e : rc_sandboxed c = false ->
      ev_import_macros ev1 root1 env1 c e = ev_import_macros ev2 root2 env2 c e.
    Proof.
      intro Hs. unfold ev_import_macros. rewrite (so_load c e Hs).
      destruct (ev_load ev2 env2 c e) as [[[name [inodes|]]| | |] t]; try reflexivity.
      destruct (Hroot (rc_derive (rc_fresh [] name) None (rc_sandboxed c) (Some name)) inodes) as [E _]; [cbn; exact Hs|].
      rewrite E. reflexivity.
    Qed.

    Lemma so_import c e alias : rc_sandboxed c = false ->
      so_same (ev_import ev1 root1 env1 c e alias) (ev_import ev2 root2 env2 c e alias).
    Proof.
      intro Hs. unfold ev_import. rewrite (so_import_macros c e Hs).
      destruct (ev_import_macros ev2 root2 env2 c e) as [[o c1] t]. destruct o; split; try reflexivity; exact Hs.
    Qed.

    Lemma so_from c e names : rc_sandboxed c = false ->
      so_same (ev_from ev1 root1 env1 c e names) (ev_from ev2 root2 env2 c e names).
    Proof.
      intro Hs. unfold ev_from. rewrite (so_import_macros c e Hs).
      destruct (ev_import_macros ev2 root2 env2 c e) as [[o c1] t].
      destruct o as [ms| | |]; try (split; [reflexivity|exact Hs]).
      destruct (negb (ts_no_dup (map fst names))); [split; [reflexivity|exact Hs]|].
      destruct (ev_from_names ms names c) as [c'| | |] eqn:E; split; try reflexivity; try exact Hs.
      cbn. rewrite (ev_from_names_sandboxed ms names c c' E). exact Hs.
    Qed.

    Lemma so_apply c f args body : rc_sandboxed c = false ->
      so_same (ev_apply ev1 rend1 env1 c f args body) (ev_apply ev2 rend2 env2 c f args body).
    Proof.
      intro Hs. unfold ev_apply. destruct (Hrend c body Hs) as [E Hc]. rewrite <- E.
      destruct (rend1 c body) as [[o c1] t1]. cbn in Hc. destruct o as [content| | |]; try (split; [reflexivity|exact Hc]).
      rewrite (ev_list_fext (ev1 c1) (ev2 c1) (fun e' => Hev c1 e' Hc)).
      assert (E2 : ev_bind (ev_list (ev2 c1) args) (fun vs => ev_bind (ev_apply_filter env1 c1 f (VStr content) vs) (fun w => ev_opt (vo_to_str w))) =
                   ev_bind (ev_list (ev2 c1) args) (fun vs => ev_bind (ev_apply_filter env2 c1 f (VStr content) vs) (fun w => ev_opt (vo_to_str w)))).
      { apply ev_bind_ext. intro vs. rewrite (so_apply_filter c1 f (VStr content) vs Hc). reflexivity. }
      rewrite E2. clear E2. destruct (ev_bind (ev_list (ev2 c1) args) _) as [o t2]. destruct o; split; try reflexivity; exact Hc.
    Qed.

    Lemma so_spaceless c body : rc_sandboxed c = false ->
      so_same (ev_spaceless rend1 env1 c body) (ev_spaceless rend2 env2 c body).
    Proof.
      intro Hs. unfold ev_spaceless. destruct (Hrend c body Hs) as [E Hc]. rewrite <- E.
      destruct (rend1 c body) as [[o c1] t1]. cbn in Hc. destruct o as [content| | |]; try (split; [reflexivity|exact Hc]).
      rewrite (so_apply_filter c1 b#"spaceless" (VStr content) [] Hc).
      destruct (ev_apply_filter env2 c1 b#"spaceless" (VStr content) []) as [o t2]. destruct o; split; try reflexivity; exact Hc.
    Qed.

    Lemma so_render_node c n : rc_sandboxed c = false ->
      so_same (render_node ev1 rend1 root1 env1 c n) (render_node ev2 rend2 root2 env2 c n).
    Proof.
      intro Hs. destruct n; cbn [render_node].
      - apply so_ret. exact Hs.
      - apply so_print. exact Hs.
      - apply so_if. exact Hs.
      - unfold ev_for. rewrite (so_for_seq c seq Hs). apply so_rexpr; [exact Hs|]. intro sv. apply so_for_loop. exact Hs.
      - unfold ev_set. rewrite (Hev c e Hs). apply so_rexpr; [exact Hs|]. intro v.
        destruct (ev_set_guard c v); [apply so_fail|apply so_ret]; exact Hs.
      - rewrite (Hev c e Hs). apply so_rexpr; [exact Hs|]. intros _. apply so_ret. exact Hs.
      - apply so_block. exact Hs.
      - apply so_extends. exact Hs.
      - apply so_include. exact Hs.
      - apply so_ret. exact Hs.
      - apply so_import. exact Hs.
      - apply so_from. exact Hs.
      - apply so_ret. exact Hs.
      - apply so_apply. exact Hs.
      - apply so_spaceless. exact Hs.
    Qed.
  End Helpers.
End Outside.

(* ================================================================ C06_outside_unaffected *)
Lemma so_render_both : forall env1 env2, sb_same_but_policy env1 env2 ->
  (forall fuel ic name ns, rc_sandboxed ic = true -> ts_lookup env1 name = Some ns ->
     sb_out (render_root fuel env1 ic ns) = sb_out (render_root fuel env2 ic ns) /\
     sb_tr (render_root fuel env1 ic ns) = sb_tr (render_root fuel env2 ic ns)) ->
  forall fuel,
    (forall c ns, rc_sandboxed c = false -> so_same (render fuel env1 c ns) (render fuel env2 c ns)) /\
    (forall c ns, rc_sandboxed c = false -> so_same (render_root fuel env1 c ns) (render_root fuel env2 c ns)).
Proof.
  intros env1 env2 Hsame Hin. induction fuel as [|fu [IHr IHt]]; split; intros c ns Hs.
  - split; [reflexivity|exact Hs].
  - split; [reflexivity|exact Hs].
  - cbn [render]. destruct ns as [|n rest]; [split; [reflexivity|exact Hs]|].
    apply so_rseq.
    + apply (so_render_node env1 env2 Hsame); [intros c0 e H0; apply so_eval; assumption|exact IHr|exact IHt|apply Hin|exact Hs].
    + intros c1 H1. apply IHr. exact H1.
  - cbn [render_root].
    apply (so_root env1 env2 Hsame); [intros c0 e H0; apply so_eval; assumption|exact IHr|exact IHt|exact Hs].
Qed.

Lemma C06_outside_unaffected_proof : forall env1 env2, sb_same_but_policy env1 env2 ->
  (* inside sandboxed includes the two policies make no difference to the templates of the environment *)
  (forall fuel ic name ns, rc_sandboxed ic = true -> ts_lookup env1 name = Some ns ->
     sb_out (render_root fuel env1 ic ns) = sb_out (render_root fuel env2 ic ns) /\
     sb_tr (render_root fuel env1 ic ns) = sb_tr (render_root fuel env2 ic ns)) ->
  forall fuel c, rc_sandboxed c = false ->
    (forall ns, render fuel env1 c ns = render fuel env2 c ns) /\
    (forall ns, render_root fuel env1 c ns = render_root fuel env2 c ns) /\
    (forall e, eval fuel env1 c e = eval fuel env2 c e).
Proof.
  intros env1 env2 Hsame Hin fuel c Hs. destruct (so_render_both env1 env2 Hsame Hin fuel) as [Hr Ht].
  split; [|split].
  - intro ns. apply Hr. exact Hs.
  - intro ns. apply Ht. exact Hs.
  - intro e. apply so_eval; assumption.
Qed.

(* the helpers themselves, outside the sandbox: no policy is consulted *)
Lemma C06_outside_helpers_proof : forall env1 env2 c, sb_same_but_policy env1 env2 -> rc_sandboxed c = false ->
  (forall f v args, ev_apply_filter env1 c f v args = ev_apply_filter env2 c f v args) /\
  (forall f args, ev_call_function env1 c f args = ev_call_function env2 c f args) /\
  (forall e, ev_sandbox_denies env1 c e = false) /\
  (forall fuel e, eval fuel env1 c e = eval fuel env2 c e).
Proof.
  intros env1 env2 c Hsame Hs. repeat split.
  - intros. apply so_apply_filter; assumption.
  - intros. apply so_call_function; assumption.
  - intro e. unfold ev_sandbox_denies. rewrite Hs. reflexivity.
  - intros. apply so_eval; assumption.
Qed.
