(* Lemmas about Base/Utf8F.v: chunks partition the string, decoding inverts encoding on scalar
   values (checked for each of the 1 112 064 scalar values by computation), decoded code points
   are scalar values, a prefix or suffix of the chunk list is the chunk list of its own bytes. *)
From Twig Require Import Base.Bytes Base.Utf8F.
From Coq Require Import NArith ZifyBool ZifyNat ZifyN Lia.
Local Open Scope N_scope.

(* ---------- uf8_step: width and shape ---------- *)
Lemma uf8_step_width (b : byte) (r : bytes) :
  (1 <= snd (fst (uf8_step (b :: r))) <= length (b :: r))%nat.
Proof.
  unfold uf8_step, uf8_err.
  destruct r as [|b1 [|b2 [|b3 r]]]; cbn [length];
    repeat match goal with |- context [if ?c then _ else _] => destruct c end; cbn [fst snd]; lia.
Qed.

Lemma uf8_step_invalid (s : bytes) c w : uf8_step s = (c, w, false) -> s <> [] -> c = uf8_fffd /\ w = 1%nat.
Proof.
  unfold uf8_step, uf8_err. intros H Hs.
  destruct s as [|b0 [|b1 [|b2 [|b3 r]]]]; [congruence| | | |];
    repeat match type of H with context [if ?c then _ else _] => destruct c end;
    inversion H; auto.
Qed.

(* ---------- fuel irrelevance and the unfolding equation ---------- *)
Lemma uf8_chunks_f_any (n : nat) : forall s m, (length s <= n)%nat -> (length s <= m)%nat -> uf8_chunks_f n s = uf8_chunks_f m s.
Proof.
  induction n as [|n IH]; intros s m Hn Hm.
  - destruct s; [destruct m; reflexivity|cbn in Hn; lia].
  - destruct s as [|b r]; [destruct m; reflexivity|].
    destruct m as [|m]; [cbn in Hm; lia|].
    cbn [uf8_chunks_f].
    pose proof (uf8_step_width b r) as Hw.
    destruct (uf8_step (b :: r)) as [[c w] v]. cbn [fst snd] in Hw.
    f_equal.
    assert (Hl : (length (skipn w (b :: r)) <= length r)%nat) by (rewrite skipn_length; cbn [length] in *; lia).
    cbn [length] in Hn, Hm. apply IH; lia.
Qed.

Lemma uf8_chunks_f_enough (n : nat) : forall s, (length s <= n)%nat -> uf8_chunks_f n s = uf8_chunks_f (length s) s.
Proof. intros s H. apply uf8_chunks_f_any; lia. Qed.

Lemma uf8_chunks_nil : uf8_chunks [] = [].
Proof. reflexivity. Qed.

Lemma uf8_chunks_cons (b : byte) (r : bytes) :
  uf8_chunks (b :: r) =
  (fst (fst (uf8_step (b :: r))), firstn (snd (fst (uf8_step (b :: r)))) (b :: r))
    :: uf8_chunks (skipn (snd (fst (uf8_step (b :: r)))) (b :: r)).
Proof.
  unfold uf8_chunks at 1. cbn [length uf8_chunks_f].
  pose proof (uf8_step_width b r) as Hw.
  destruct (uf8_step (b :: r)) as [[c w] v]. cbn [fst snd] in *.
  f_equal. unfold uf8_chunks. apply uf8_chunks_f_enough.
  rewrite skipn_length. cbn [length] in *. lia.
Qed.

(* strong induction on the length of the string *)
Lemma uf8_bytes_ind (P : bytes -> Prop) :
  (forall s, (forall t, (length t < length s)%nat -> P t) -> P s) -> forall s, P s.
Proof.
  intros H s. remember (length s) as n eqn:Hn. revert s Hn.
  induction n as [n IH] using lt_wf_ind. intros s ->. apply H. intros t Ht. eapply IH; eauto.
Qed.

Lemma uf8_skip_shorter (b : byte) (r : bytes) :
  (length (skipn (snd (fst (uf8_step (b :: r)))) (b :: r)) < length (b :: r))%nat.
Proof. pose proof (uf8_step_width b r). rewrite skipn_length. lia. Qed.

(* ---------- the chunks partition the string ---------- *)
Lemma uf8_chunks_concat : forall s, concat (map snd (uf8_chunks s)) = s.
Proof.
  induction s as [s IH] using uf8_bytes_ind. destruct s as [|b r]; [reflexivity|].
  rewrite uf8_chunks_cons. cbn [map concat snd].
  rewrite IH by apply uf8_skip_shorter. apply firstn_skipn.
Qed.

Lemma uf8_chunk_nonempty : forall s ch, In ch (uf8_chunks s) -> snd ch <> [].
Proof.
  induction s as [s IH] using uf8_bytes_ind. destruct s as [|b r]; [intros ? []|].
  rewrite uf8_chunks_cons. intros ch [<-|Hin].
  - cbn [snd]. pose proof (uf8_step_width b r). destruct (snd (fst (uf8_step (b :: r)))); [lia|]. cbn. congruence.
  - eapply IH; [apply uf8_skip_shorter|exact Hin].
Qed.

Lemma uf8_count_le : forall s, (uf8_count s <= length s)%nat.
Proof.
  unfold uf8_count. induction s as [s IH] using uf8_bytes_ind. destruct s as [|b r]; [cbn; lia|].
  rewrite uf8_chunks_cons. cbn [length].
  pose proof (uf8_step_width b r) as Hw.
  specialize (IH _ (uf8_skip_shorter b r)). rewrite skipn_length in IH. cbn [length] in *. lia.
Qed.

(* a suffix of the chunk list is the chunk list of the remaining bytes *)
Lemma uf8_chunks_app_chunk : forall s ch cs, uf8_chunks s = ch :: cs -> uf8_chunks (concat (map snd cs)) = cs /\ s = snd ch ++ concat (map snd cs).
Proof.
  intros s ch cs H. destruct s as [|b r]; [discriminate|].
  rewrite uf8_chunks_cons in H. inversion H as [[H1 H2]]. clear H.
  rewrite uf8_chunks_concat. split; [reflexivity|]. cbn [snd]. symmetry. apply firstn_skipn.
Qed.

Lemma uf8_chunks_skipn : forall k s, uf8_chunks (concat (map snd (skipn k (uf8_chunks s)))) = skipn k (uf8_chunks s).
Proof.
  induction k as [|k IH]; intros s.
  - cbn [skipn]. rewrite uf8_chunks_concat. reflexivity.
  - destruct (uf8_chunks s) as [|ch cs] eqn:E; [reflexivity|].
    cbn [skipn]. destruct (uf8_chunks_app_chunk _ _ _ E) as [H1 _].
    rewrite <- H1. apply IH.
Qed.

(* ---------- a valid sequence is decoded from its own bytes only ---------- *)
Ltac uf8_split_ifs H :=
  repeat match type of H with context [if ?c then _ else _] => destruct c eqn:? end.

Lemma uf8_step_valid_ext (s : bytes) c w :
  uf8_step s = (c, w, true) -> forall r, uf8_step (firstn w s ++ r) = (c, w, true).
Proof.
  unfold uf8_step, uf8_err. intros H r.
  destruct s as [|b0 [|b1 [|b2 [|b3 t]]]]; [discriminate| | | |];
    uf8_split_ifs H; inversion H; subst; cbn [firstn app];
    repeat match goal with Hc : ?c = _ |- context [if ?c then _ else _] => rewrite Hc end; reflexivity.
Qed.

Lemma uf8_step_valid_firstn (s : bytes) c w :
  uf8_step s = (c, w, true) -> uf8_step (firstn w s) = (c, w, true).
Proof. intros H. rewrite <- (app_nil_r (firstn w s)). apply uf8_step_valid_ext. exact H. Qed.

(* ---------- decoding inverts encoding on scalar values ---------- *)
Ltac Zify.zify_post_hook ::= Z.to_euclidean_division_equations.

Lemma uf8_n_byte (n : N) : n < 256 -> uf8_n (uf8_byte n) = n.
Proof.
  intros H. unfold uf8_n, uf8_byte. destruct (Byte.of_N n) as [b|] eqn:E.
  - apply Byte.to_of_N. exact E.
  - apply Byte.of_N_None_iff in E. lia.
Qed.

Ltac uf8_decide_if :=
  match goal with
  | |- context [if ?c then _ else _] =>
    let H := fresh "Hc" in
    first [ assert (H : c = true) by (unfold uf8_second_ok, uf8_cont, uf8_in; rewrite ?uf8_n_byte by lia; lia)
          | assert (H : c = false) by (unfold uf8_second_ok, uf8_cont, uf8_in; rewrite ?uf8_n_byte by lia; lia) ];
    rewrite H; clear H
  end.

Lemma uf8_step_enc1 (c : N) (r : bytes) :
  uf8_scalar c = true -> uf8_step (uf8_enc1 c ++ r) = (c, length (uf8_enc1 c), true).
Proof.
  intros Hs. unfold uf8_enc1. rewrite Hs. cbn [negb]. unfold uf8_scalar in Hs.
  destruct (c <? 128) eqn:H1; [|destruct (c <? 2048) eqn:H2; [|destruct (c <? 65536) eqn:H3]];
    cbn [app length uf8_step]; rewrite ?uf8_n_byte by lia.
  - uf8_decide_if. reflexivity.
  - do 2 uf8_decide_if. unfold uf8_cont. rewrite uf8_n_byte by lia. uf8_decide_if.
    f_equal. f_equal. lia.
  - do 3 uf8_decide_if.
    match goal with |- context [if ?c then _ else _] => assert (Hc : c = true) end.
    { unfold uf8_second_ok, uf8_cont, uf8_in. rewrite ?uf8_n_byte by lia.
      repeat match goal with |- context [if ?a =? ?b then _ else _] => destruct (N.eqb_spec a b) end; lia. }
    rewrite Hc. f_equal. f_equal. lia.
  - do 4 uf8_decide_if.
    match goal with |- context [if ?c then _ else _] => assert (Hc : c = true) end.
    { unfold uf8_second_ok, uf8_cont, uf8_in. rewrite ?uf8_n_byte by lia.
      repeat match goal with |- context [if ?a =? ?b then _ else _] => destruct (N.eqb_spec a b) end; lia. }
    rewrite Hc. f_equal. f_equal. lia.
Qed.

Lemma uf8_enc1_nonempty (c : N) : uf8_enc1 c <> [].
Proof. unfold uf8_enc1. repeat match goal with |- context [if ?b then _ else _] => destruct b end; discriminate. Qed.

Lemma uf8_chunks_enc1 (c : N) (r : bytes) :
  uf8_scalar c = true -> uf8_chunks (uf8_enc1 c ++ r) = (c, uf8_enc1 c) :: uf8_chunks r.
Proof.
  intros Hs. pose proof (uf8_step_enc1 c r Hs) as H. pose proof (uf8_enc1_nonempty c) as Hne.
  destruct (uf8_enc1 c) as [|b t] eqn:E; [congruence|].
  change ((b :: t) ++ r) with (b :: (t ++ r)) in *.
  rewrite uf8_chunks_cons. rewrite H. cbn [fst snd].
  change (b :: t ++ r) with ((b :: t) ++ r).
  rewrite firstn_app, skipn_app, Nat.sub_diag, firstn_all, skipn_all. cbn [firstn skipn]. rewrite app_nil_r. reflexivity.
Qed.

Lemma uf8_chunks_encode (l : list N) (r : bytes) :
  forallb uf8_scalar l = true ->
  uf8_chunks (uf8_encode l ++ r) = map (fun c => (c, uf8_enc1 c)) l ++ uf8_chunks r.
Proof.
  induction l as [|c l IH]; intros H; [reflexivity|].
  cbn [forallb] in H. apply andb_true_iff in H. destruct H as [Hc Hl].
  unfold uf8_encode. cbn [flat_map]. rewrite <- app_assoc. rewrite uf8_chunks_enc1 by exact Hc.
  cbn [map app]. f_equal. apply IH. exact Hl.
Qed.

(* []rune(string(runes)) = runes when every rune is a scalar value *)
Lemma uf8_cps_encode (l : list N) : forallb uf8_scalar l = true -> uf8_cps (uf8_encode l) = l.
Proof.
  intros H. unfold uf8_cps. rewrite <- (app_nil_r (uf8_encode l)). rewrite uf8_chunks_encode by exact H.
  rewrite uf8_chunks_nil, app_nil_r, map_map. cbn [fst]. apply map_id.
Qed.

Lemma uf8_cps_app_encode (l : list N) (r : bytes) :
  forallb uf8_scalar l = true -> uf8_cps (uf8_encode l ++ r) = l ++ uf8_cps r.
Proof.
  intros H. unfold uf8_cps. rewrite uf8_chunks_encode by exact H.
  rewrite map_app, map_map. cbn [fst]. rewrite map_id. reflexivity.
Qed.

Lemma uf8_encode_app (a b : list N) : uf8_encode (a ++ b) = uf8_encode a ++ uf8_encode b.
Proof. unfold uf8_encode. apply flat_map_app. Qed.

(* ---------- every decoded code point is a scalar value ---------- *)
Lemma uf8_n_bound (b : byte) : uf8_n b < 256.
Proof. unfold uf8_n. pose proof (Byte.to_N_bounded b). lia. Qed.

Lemma uf8_step_scalar (s : bytes) : uf8_scalar (fst (fst (uf8_step s))) = true.
Proof.
  unfold uf8_step, uf8_err, uf8_second_ok, uf8_cont, uf8_in, uf8_fffd.
  destruct s as [|b0 [|b1 [|b2 [|b3 t]]]]; try reflexivity;
    pose proof (uf8_n_bound b0);
    repeat match goal with |- context [?a =? ?b] => destruct (N.eqb_spec a b) end;
    repeat match goal with |- context [if ?c then _ else _] => destruct c eqn:? end;
    cbn [fst]; try reflexivity; unfold uf8_scalar;
    try pose proof (uf8_n_bound b1); try pose proof (uf8_n_bound b2); try pose proof (uf8_n_bound b3); lia.
Qed.

Lemma uf8_cps_scalar : forall s, forallb uf8_scalar (uf8_cps s) = true.
Proof.
  unfold uf8_cps. induction s as [s IH] using uf8_bytes_ind. destruct s as [|b r]; [reflexivity|].
  rewrite uf8_chunks_cons. cbn [map forallb fst]. rewrite uf8_step_scalar. cbn [andb].
  apply IH. apply uf8_skip_shorter.
Qed.

(* string([]rune(string([]rune(s)))) = string([]rune(s)) *)
Lemma uf8_cps_sanitize (s : bytes) : uf8_cps (uf8_sanitize s) = uf8_cps s.
Proof. unfold uf8_sanitize. apply uf8_cps_encode. apply uf8_cps_scalar. Qed.

Lemma uf8_sanitize_valid (s : bytes) : uf8_validb s = true -> uf8_sanitize s = s.
Proof.
  unfold uf8_validb, uf8_sanitize, uf8_cps, uf8_encode. intros H.
  rewrite <- (uf8_chunks_concat s) at 2.
  induction (uf8_chunks s) as [|ch cs IH]; [reflexivity|].
  cbn [forallb] in H. apply andb_true_iff in H. destruct H as [H1 H2].
  cbn [map flat_map concat]. apply bytes_eqb_eq in H1. rewrite H1, IH by exact H2. reflexivity.
Qed.

(* ---------- a prefix of the chunk list is the chunk list of its own bytes ---------- *)
Lemma uf8_step_invalid_prefix (b0 : byte) (X Y : bytes) c w :
  uf8_step (b0 :: X ++ Y) = (c, w, false) -> uf8_step (b0 :: X) = (uf8_fffd, 1%nat, false).
Proof.
  unfold uf8_step, uf8_err. intros H.
  destruct X as [|x1 [|x2 [|x3 X']]]; cbn [app] in H;
    repeat match goal with |- context [if ?c then _ else _] => destruct c eqn:? end; try reflexivity;
    repeat match type of H with context [if ?c then _ else _] =>
      match goal with Hc : c = _ |- _ => rewrite Hc in H end end;
    try discriminate.
Qed.

Lemma uf8_chunks_cons_known (b : byte) (r : bytes) c w v :
  uf8_step (b :: r) = (c, w, v) -> uf8_chunks (b :: r) = (c, firstn w (b :: r)) :: uf8_chunks (skipn w (b :: r)).
Proof. intros H. rewrite uf8_chunks_cons, H. reflexivity. Qed.

Lemma uf8_chunks_firstn : forall k s,
  uf8_chunks (concat (map snd (firstn k (uf8_chunks s)))) = firstn k (uf8_chunks s).
Proof.
  induction k as [|k IH]; intros s; [reflexivity|].
  destruct s as [|b r]; [reflexivity|].
  pose proof (uf8_step_width b r) as Hw.
  destruct (uf8_step (b :: r)) as [[c w] v] eqn:E. cbn [fst snd] in Hw.
  rewrite (uf8_chunks_cons_known _ _ _ _ _ E). cbn [firstn map concat snd].
  set (t := skipn w (b :: r)). set (X := concat (map snd (firstn k (uf8_chunks t)))).
  assert (Hlen : length (firstn w (b :: r)) = w) by (apply firstn_length_le; lia).
  assert (Hstep : uf8_step (firstn w (b :: r) ++ X) = (c, w, v)).
  { destruct v.
    - apply uf8_step_valid_ext. exact E.
    - destruct (uf8_step_invalid _ _ _ E ltac:(discriminate)) as [-> ->].
      cbn [firstn app].
      assert (Ht : r = X ++ concat (map snd (skipn k (uf8_chunks t)))).
      { unfold X. rewrite <- concat_app, <- map_app, firstn_skipn, uf8_chunks_concat. reflexivity. }
      rewrite Ht in E. eapply uf8_step_invalid_prefix. exact E. }
  destruct (firstn w (b :: r)) as [|b' f'] eqn:Ef; [cbn in Hlen; lia|].
  change ((b' :: f') ++ X) with (b' :: (f' ++ X)) in *.
  rewrite (uf8_chunks_cons_known _ _ _ _ _ Hstep).
  change (b' :: f' ++ X) with ((b' :: f') ++ X).
  rewrite firstn_app, skipn_app, Hlen, Nat.sub_diag, firstn_all2, skipn_all2 by lia.
  cbn [firstn skipn app]. rewrite app_nil_r. f_equal. apply IH.
Qed.

(* any contiguous segment of the chunk list *)
Lemma uf8_chunks_segment (j k : nat) (s : bytes) :
  uf8_chunks (concat (map snd (firstn k (skipn j (uf8_chunks s))))) = firstn k (skipn j (uf8_chunks s)).
Proof. rewrite <- (uf8_chunks_skipn j s) at 1 2. apply uf8_chunks_firstn. Qed.
