(* C03 proofs: the rendered result does not depend on the permutation oracle, on the address oracle,
   or on the insertion order of map entries (Model/Determ.v); date conversion is a byte-wise
   homomorphism over a functional table (Model/DateFmt.v). *)
From Coq Require Import List ZArith Bool Decimal DecimalZ Permutation Lia.
From Twig Require Import Base.Bytes Base.SortPerm Model.Ast Model.Value Gen.MapRanges Gen.DateTable Model.Determ Model.DateFmt.
Import ListNotations.

(* ================================================================== scalars *)
Lemma dt_uint_bytes_inj (u1 : Decimal.uint) : forall u2, dt_uint_bytes u1 = dt_uint_bytes u2 -> u1 = u2.
Proof.
  induction u1 as [|r IH|r IH|r IH|r IH|r IH|r IH|r IH|r IH|r IH|r IH]; intros u2 H;
    destruct u2; simpl in H; try discriminate; try reflexivity;
    inversion H; f_equal; apply IH; assumption.
Qed.

Lemma dt_uint_bytes_no_minus (u : Decimal.uint) r : dt_uint_bytes u <> x2d :: r.
Proof. destruct u; simpl; intro H; discriminate. Qed.

Lemma dt_itoa_inj (a b : Z) : dt_itoa a = dt_itoa b -> a = b.
Proof.
  unfold dt_itoa. intro H.
  assert (E : Z.to_int a = Z.to_int b).
  { destruct (Z.to_int a) as [u1|u1], (Z.to_int b) as [u2|u2].
    - f_equal. apply dt_uint_bytes_inj. exact H.
    - exfalso. eapply dt_uint_bytes_no_minus. exact H.
    - exfalso. eapply dt_uint_bytes_no_minus. symmetry. exact H.
    - f_equal. apply dt_uint_bytes_inj. inversion H. reflexivity. }
  rewrite <- (DecimalZ.of_to a), <- (DecimalZ.of_to b), E. reflexivity.
Qed.

Lemma dt_key_code_inj (a b : value) : dt_is_key a = true -> dt_is_key b = true -> dt_key_code a = dt_key_code b -> a = b.
Proof.
  destruct a, b; simpl; intros Ha Hb H; try discriminate.
  - inversion H. f_equal. apply dt_itoa_inj. assumption.
  - inversion H. reflexivity.
Qed.

Lemma dt_key_code_keystr (a b : value) : dt_is_key a = true -> dt_is_key b = true -> dt_key_code a = dt_key_code b -> dt_keystr a = dt_keystr b.
Proof. intros Ha Hb H. rewrite (dt_key_code_inj a b Ha Hb H). reflexivity. Qed.

Lemma dt_key_eqb_eq (a b : value) : dt_key_eqb a b = true <-> dt_key_code a = dt_key_code b.
Proof. unfold dt_key_eqb. apply bytes_eqb_eq. Qed.

Lemma dt_key_eqb_neq (a b : value) : dt_key_eqb a b = false <-> dt_key_code a <> dt_key_code b.
Proof.
  unfold dt_key_eqb. split.
  - intros H E. apply bytes_eqb_eq in E. congruence.
  - intro H. destruct (bytes_eqb (dt_key_code a) (dt_key_code b)) eqn:E; [apply bytes_eqb_eq in E; contradiction|reflexivity].
Qed.

(* ================================================================== entry lists *)
Definition dcode (kv : value * value) : bytes := dt_key_code (fst kv).
Definition dkstr (kv : value * value) : bytes := dt_keystr (fst kv).

Definition dt_map_del (k : value) (m : dentries) : dentries :=
  filter (fun kv => negb (dt_key_eqb (fst kv) k)) m.

Lemma Permutation_filter' {A} (f : A -> bool) (l l' : list A) : Permutation l l' -> Permutation (filter f l) (filter f l').
Proof.
  induction 1 as [|x l l' Hp IH|x y l|l l' l'' H1 IH1 H2 IH2]; simpl.
  - constructor.
  - destruct (f x); [constructor|]; assumption.
  - destruct (f x), (f y); try apply Permutation_refl. apply perm_swap.
  - eapply Permutation_trans; eassumption.
Qed.

Lemma dt_map_set_codes (k v : value) (m : dentries) c :
  In c (map dcode (dt_map_set k v m)) -> c = dt_key_code k \/ In c (map dcode m).
Proof.
  induction m as [|[k' v'] r IH]; simpl; intro H.
  - destruct H as [H|[]]. left. symmetry. exact H.
  - destruct (dt_key_eqb k' k) eqn:E; simpl in H.
    + destruct H as [H|H]; [left; symmetry; exact H|right; right; exact H].
    + destruct H as [H|H]; [right; left; exact H|].
      destruct (IH H) as [H'|H']; [left; exact H'|right; right; exact H'].
Qed.

Lemma dt_map_set_nodup (k v : value) (m : dentries) : NoDup (map dcode m) -> NoDup (map dcode (dt_map_set k v m)).
Proof.
  induction m as [|[k' v'] r IH]; simpl; intro H.
  - constructor; [intros []|constructor].
  - inversion H as [|c cs Hnin Hnd]; subst.
    destruct (dt_key_eqb k' k) eqn:E; simpl.
    + apply dt_key_eqb_eq in E. unfold dcode at 1. simpl. rewrite <- E. constructor; assumption.
    + constructor; [|apply IH; exact Hnd].
      intro Hin. apply dt_map_set_codes in Hin. destruct Hin as [Hin|Hin].
      * apply dt_key_eqb_neq in E. apply E. exact Hin.
      * apply Hnin. exact Hin.
Qed.

Lemma dt_map_del_notin (k : value) (m : dentries) : ~ In (dt_key_code k) (map dcode m) -> dt_map_del k m = m.
Proof.
  induction m as [|[k' v'] r IH]; simpl; intro H; [reflexivity|].
  destruct (dt_key_eqb k' k) eqn:E; simpl.
  - exfalso. apply H. left. apply dt_key_eqb_eq in E. exact E.
  - f_equal. apply IH. intro Hin. apply H. right. exact Hin.
Qed.

Lemma dt_map_set_perm (k v : value) (m : dentries) :
  NoDup (map dcode m) -> Permutation (dt_map_set k v m) ((k, v) :: dt_map_del k m).
Proof.
  induction m as [|[k' v'] r IH]; simpl; intro H.
  - apply Permutation_refl.
  - inversion H as [|c cs Hnin Hnd]; subst.
    destruct (dt_key_eqb k' k) eqn:E; simpl.
    + apply dt_key_eqb_eq in E.
      rewrite dt_map_del_notin; [apply Permutation_refl|].
      rewrite <- E. exact Hnin.
    + eapply Permutation_trans; [apply perm_skip; apply IH; exact Hnd|apply perm_swap].
Qed.

Lemma dt_map_del_codes (k : value) (m : dentries) c : In c (map dcode (dt_map_del k m)) -> In c (map dcode m).
Proof.
  unfold dt_map_del. intro H. apply in_map_iff in H. destruct H as [kv [E Hin]].
  apply filter_In in Hin. apply in_map_iff. exists kv. tauto.
Qed.

Lemma dt_map_del_nodup (k : value) (m : dentries) : NoDup (map dcode m) -> NoDup (map dcode (dt_map_del k m)).
Proof.
  induction m as [|[k' v'] r IH]; simpl; intro H; [constructor|].
  inversion H as [|c cs Hnin Hnd]; subst.
  destruct (dt_key_eqb k' k); simpl; [apply IH; exact Hnd|].
  constructor; [|apply IH; exact Hnd].
  intro Hin. apply Hnin. eapply dt_map_del_codes. exact Hin.
Qed.

Lemma dt_map_del_comm (a b : value) (m : dentries) : dt_map_del a (dt_map_del b m) = dt_map_del b (dt_map_del a m).
Proof.
  unfold dt_map_del. induction m as [|kv r IH]; simpl; [reflexivity|].
  destruct (dt_key_eqb (fst kv) b) eqn:Eb, (dt_key_eqb (fst kv) a) eqn:Ea; simpl; rewrite ?Eb, ?Ea; simpl; rewrite IH; reflexivity.
Qed.

Lemma dt_map_set_perm_acc (k v : value) (m m' : dentries) :
  Permutation m m' -> NoDup (map dcode m) -> Permutation (dt_map_set k v m) (dt_map_set k v m').
Proof.
  intros Hp Hnd.
  assert (Hnd' : NoDup (map dcode m')) by (eapply Permutation_NoDup; [apply Permutation_map; exact Hp|exact Hnd]).
  eapply Permutation_trans; [apply dt_map_set_perm; exact Hnd|].
  eapply Permutation_trans; [|apply Permutation_sym, dt_map_set_perm; exact Hnd'].
  apply perm_skip. apply Permutation_filter'. exact Hp.
Qed.

Lemma dt_map_fill_nodup (es : dentries) : forall m, NoDup (map dcode m) -> NoDup (map dcode (dt_map_fill es m)).
Proof.
  unfold dt_map_fill. induction es as [|[k v] r IH]; simpl; intros m H; [exact H|].
  apply IH. apply dt_map_set_nodup. exact H.
Qed.

Lemma dt_map_fill_perm_acc (es : dentries) : forall m m',
  Permutation m m' -> NoDup (map dcode m) -> Permutation (dt_map_fill es m) (dt_map_fill es m').
Proof.
  unfold dt_map_fill. induction es as [|[k v] r IH]; simpl; intros m m' Hp Hnd; [exact Hp|].
  apply IH.
  - apply dt_map_set_perm_acc; assumption.
  - apply dt_map_set_nodup. exact Hnd.
Qed.

Lemma dt_map_set_swap (k1 v1 k2 v2 : value) (m : dentries) :
  NoDup (map dcode m) -> dt_key_code k1 <> dt_key_code k2 ->
  Permutation (dt_map_set k1 v1 (dt_map_set k2 v2 m)) (dt_map_set k2 v2 (dt_map_set k1 v1 m)).
Proof.
  intros Hnd Hne.
  assert (H21 : dt_key_eqb k2 k1 = false) by (apply dt_key_eqb_neq; congruence).
  assert (H12 : dt_key_eqb k1 k2 = false) by (apply dt_key_eqb_neq; congruence).
  assert (L : forall ka va kb vb, dt_key_eqb kb ka = false ->
            Permutation (dt_map_set ka va (dt_map_set kb vb m)) ((ka, va) :: (kb, vb) :: dt_map_del ka (dt_map_del kb m))).
  { intros ka va kb vb Hneq.
    eapply Permutation_trans; [apply dt_map_set_perm; apply dt_map_set_nodup; exact Hnd|].
    apply perm_skip.
    eapply Permutation_trans; [apply Permutation_filter'; apply dt_map_set_perm; exact Hnd|].
    simpl. rewrite Hneq. simpl. apply Permutation_refl. }
  eapply Permutation_trans; [apply L; exact H21|].
  eapply Permutation_trans; [|apply Permutation_sym; apply L; exact H12].
  rewrite dt_map_del_comm. apply perm_swap.
Qed.

Lemma dt_map_fill_perm_es (es es' : dentries) : Permutation es es' -> NoDup (map dcode es) ->
  forall m, NoDup (map dcode m) -> Permutation (dt_map_fill es m) (dt_map_fill es' m).
Proof.
  induction 1 as [|x l l' Hp IH|x y l|l l' l'' H1 IH1 H2 IH2]; intros Hnd m Hm.
  - apply Permutation_refl.
  - destruct x as [k v]. unfold dt_map_fill. simpl. apply IH.
    + inversion Hnd; assumption.
    + apply dt_map_set_nodup. exact Hm.
  - destruct x as [k1 v1], y as [k2 v2]. unfold dt_map_fill. simpl.
    apply dt_map_fill_perm_acc.
    + apply dt_map_set_swap; [exact Hm|].
      simpl in Hnd. inversion Hnd as [|c cs Hnin _]; subst. intro E. apply Hnin. left. unfold dcode. simpl. exact E.
    + apply dt_map_set_nodup, dt_map_set_nodup. exact Hm.
  - eapply Permutation_trans; [apply IH1; assumption|].
    apply IH2; [|exact Hm].
    eapply Permutation_NoDup; [apply Permutation_map; exact H1|exact Hnd].
Qed.

Lemma dt_map_set_notin (k v : value) (m : dentries) : ~ In (dt_key_code k) (map dcode m) -> dt_map_set k v m = m ++ [(k, v)].
Proof.
  induction m as [|[k' v'] r IH]; simpl; intro H; [reflexivity|].
  destruct (dt_key_eqb k' k) eqn:E.
  - exfalso. apply H. left. apply dt_key_eqb_eq. exact E.
  - f_equal. apply IH. intro Hin. apply H. right. exact Hin.
Qed.

Lemma dt_map_fill_fresh (es : dentries) : forall m, NoDup (map dcode (m ++ es)) -> dt_map_fill es m = m ++ es.
Proof.
  unfold dt_map_fill. induction es as [|[k v] r IH]; simpl; intros m H.
  - rewrite app_nil_r. reflexivity.
  - rewrite dt_map_set_notin.
    + rewrite IH; rewrite <- app_assoc; simpl; [reflexivity|exact H].
    + rewrite map_app in H. simpl in H. apply NoDup_remove_2 in H. intro Hin. apply H. apply in_or_app. left. exact Hin.
Qed.

(* canonical order *)
Lemma dt_canon_perm (m : dentries) : Permutation (dt_canon m) m.
Proof. apply sp_isort_perm. Qed.

Lemma dt_canon_eq (m m' : dentries) : Permutation m m' -> NoDup (map dcode m) -> dt_canon m = dt_canon m'.
Proof. intros Hp Hnd. unfold dt_canon. apply sort_by_key_canonical; assumption. Qed.

(* the heart of merge and of hash literals: filling in any two iteration orders gives the same map *)
Lemma dt_put_all_indep (p1 p2 : list nat) (m acc : dentries) :
  NoDup (map dcode m) -> NoDup (map dcode acc) -> dt_map_put_all p1 m acc = dt_map_put_all p2 m acc.
Proof.
  intros Hm Hacc. unfold dt_map_put_all, iter_map.
  apply dt_canon_eq.
  - apply dt_map_fill_perm_es.
    + eapply Permutation_trans; [apply apply_perm_Permutation|apply Permutation_sym, apply_perm_Permutation].
    + eapply Permutation_NoDup; [apply Permutation_map, Permutation_sym, apply_perm_Permutation|exact Hm].
    + exact Hacc.
  - apply dt_map_fill_nodup. exact Hacc.
Qed.

(* ================================================================== generic list facts *)
From Twig Require Import Spec.DetermSpec.

Lemma Forall_perm {A} (P : A -> Prop) (l l' : list A) : Permutation l l' -> Forall P l -> Forall P l'.
Proof.
  intros Hp H. apply Forall_forall. intros x Hx. rewrite Forall_forall in H. apply H.
  eapply Permutation_in; [apply Permutation_sym; exact Hp|exact Hx].
Qed.

Lemma Forall_last {A} (P : A -> Prop) (l : list A) d : Forall P l -> P d -> P (last l d).
Proof.
  induction l as [|x r IH]; simpl; intros H Hd; [exact Hd|].
  inversion H; subst. destruct r; [assumption|]. apply IH; assumption.
Qed.

Lemma NoDup_map_cons_inv {A} (f : A -> bytes) (c : byte) (l : list A) :
  NoDup (map (fun x => c :: f x) l) <-> NoDup (map f l).
Proof.
  induction l as [|x r IH]; simpl; split; intro H; try constructor; inversion H as [|y ys Hnin Hnd]; subst.
  - intro Hin. apply Hnin. apply in_map_iff in Hin. destruct Hin as [z [E Hz]]. apply in_map_iff. exists z. split; [f_equal; exact E|exact Hz].
  - apply IH. exact Hnd.
  - intro Hin. apply Hnin. apply in_map_iff in Hin. destruct Hin as [z [E Hz]]. apply in_map_iff. exists z. split; [inversion E; reflexivity|exact Hz].
  - apply IH. exact Hnd.
Qed.

(* ================================================================== keys of one kind *)
Lemma dt_is_key_vok st na (k : value) : dt_is_key k = true -> dt_vok st na k.
Proof. destruct k; simpl; intro H; try discriminate; constructor. Qed.

Lemma dt_code_of_str (kv : value * value) : dt_is_str (fst kv) = true -> dcode kv = x73 :: dkstr kv.
Proof. destruct kv as [k v]. destruct k; simpl; intro H; try discriminate. reflexivity. Qed.

Lemma dt_code_of_int (kv : value * value) : dt_is_int (fst kv) = true -> dcode kv = x69 :: dkstr kv.
Proof. destruct kv as [k v]. destruct k; simpl; intro H; try discriminate. reflexivity. Qed.

Lemma dt_same_kind_nodup (c : byte) (m : dentries) :
  Forall (fun kv => dcode kv = c :: dkstr kv) m -> (NoDup (map dcode m) <-> NoDup (map dkstr m)).
Proof.
  intro H.
  assert (E : map dcode m = map (fun kv => c :: dkstr kv) m).
  { apply map_ext_in. intros kv Hin. rewrite Forall_forall in H. apply H. exact Hin. }
  rewrite E. apply NoDup_map_cons_inv.
Qed.

Lemma dt_all_keys_Forall (f : value -> bool) (m : dentries) : dt_all_keys f m = true <-> Forall (fun kv => f (fst kv) = true) m.
Proof. unfold dt_all_keys. rewrite forallb_forall, Forall_forall. reflexivity. Qed.

Lemma dt_str_keys_nodup (m : dentries) : Forall (fun kv => dt_is_str (fst kv) = true) m -> (NoDup (map dcode m) <-> NoDup (map dkstr m)).
Proof. intro H. apply (dt_same_kind_nodup x73). eapply Forall_impl; [|exact H]. intros kv Hk. apply dt_code_of_str. exact Hk. Qed.

Lemma dt_int_keys_nodup (m : dentries) : Forall (fun kv => dt_is_int (fst kv) = true) m -> (NoDup (map dcode m) <-> NoDup (map dkstr m)).
Proof. intro H. apply (dt_same_kind_nodup x69). eapply Forall_impl; [|exact H]. intros kv Hk. apply dt_code_of_int. exact Hk. Qed.

(* distinct key strings of proper keys give distinct key codes *)
Lemma dt_kstr_nodup_code (m : dentries) :
  Forall (fun kv => dt_is_key (fst kv) = true) m -> NoDup (map dkstr m) -> NoDup (map dcode m).
Proof.
  induction m as [|kv r IH]; simpl; intros Hk Hnd; [constructor|].
  inversion Hk as [|x xs Hkv Hkr]; subst. inversion Hnd as [|y ys Hnin Hnd']; subst.
  constructor; [|apply IH; assumption].
  intro Hin. apply Hnin. apply in_map_iff in Hin. destruct Hin as [kv' [E Hin']].
  apply in_map_iff. exists kv'. split; [|exact Hin'].
  rewrite Forall_forall in Hkr. unfold dkstr. apply dt_key_code_keystr; [apply Hkr; exact Hin'|exact Hkv|exact E].
Qed.

(* ================================================================== where entries come from *)
Lemma dt_map_set_in (k v : value) (m : dentries) x : In x (dt_map_set k v m) -> x = (k, v) \/ In x m.
Proof.
  induction m as [|[k' v'] r IH]; simpl; intro H.
  - destruct H as [H|[]]. left. symmetry. exact H.
  - destruct (dt_key_eqb k' k); simpl in H.
    + destruct H as [H|H]; [left; symmetry; exact H|right; right; exact H].
    + destruct H as [H|H]; [right; left; exact H|]. destruct (IH H); [left|right; right]; assumption.
Qed.

Lemma dt_map_fill_in (es : dentries) : forall m x, In x (dt_map_fill es m) -> In x es \/ In x m.
Proof.
  unfold dt_map_fill. induction es as [|[k v] r IH]; simpl; intros m x H; [right; exact H|].
  destruct (IH _ _ H) as [H'|H']; [left; right; exact H'|].
  apply dt_map_set_in in H'. destruct H' as [H'|H']; [left; left; symmetry; exact H'|right; exact H'].
Qed.

Lemma dt_map_fill_Forall (P : value * value -> Prop) (es m : dentries) : Forall P es -> Forall P m -> Forall P (dt_map_fill es m).
Proof.
  intros He Hm. apply Forall_forall. intros x Hx. rewrite Forall_forall in He, Hm.
  destruct (dt_map_fill_in _ _ _ Hx); auto.
Qed.

Lemma dt_canon_Forall (P : value * value -> Prop) (m : dentries) : Forall P m -> Forall P (dt_canon m).
Proof. apply Forall_perm. apply Permutation_sym, dt_canon_perm. Qed.

Lemma dt_canon_nodup (m : dentries) : NoDup (map dcode m) -> NoDup (map dcode (dt_canon m)).
Proof. intro H. eapply Permutation_NoDup; [apply Permutation_map, Permutation_sym, dt_canon_perm|exact H]. Qed.

Lemma dt_iter_Forall (P : value * value -> Prop) p (m : dentries) : Forall P m -> Forall P (iter_map p m).
Proof. apply Forall_perm. apply Permutation_sym, apply_perm_Permutation. Qed.

Lemma dt_iter_nodup {B} (f : value * value -> B) p (m : dentries) : NoDup (map f m) -> NoDup (map f (iter_map p m)).
Proof. intro H. eapply Permutation_NoDup; [apply Permutation_map, Permutation_sym, apply_perm_Permutation|exact H]. Qed.

Lemma dt_put_all_Forall (P : value * value -> Prop) p (m acc : dentries) : Forall P m -> Forall P acc -> Forall P (dt_map_put_all p m acc).
Proof. intros Hm Ha. unfold dt_map_put_all. apply dt_canon_Forall, dt_map_fill_Forall; [apply dt_iter_Forall; exact Hm|exact Ha]. Qed.

Lemma dt_put_all_nodup p (m acc : dentries) : NoDup (map dcode acc) -> NoDup (map dcode (dt_map_put_all p m acc)).
Proof. intro H. unfold dt_map_put_all. apply dt_canon_nodup, dt_map_fill_nodup. exact H. Qed.

Lemma dt_sorted_entries_perm p (m : dentries) : Permutation (dt_sorted_entries p m) m.
Proof. unfold dt_sorted_entries, iter_map. eapply Permutation_trans; [apply sp_isort_perm|apply apply_perm_Permutation]. Qed.

(* the sort key of sortedMapKeys (string form, type name) tells proper keys apart *)
Definition dskey (kv : value * value) : bytes * bytes := dt_sort_key kv.

Lemma dt_sort_key_code (a b : value * value) : dt_is_key (fst a) = true -> dt_is_key (fst b) = true ->
  dt_sort_key a = dt_sort_key b -> dcode a = dcode b.
Proof.
  destruct a as [ka va], b as [kb vb]. unfold dt_sort_key, dcode. simpl.
  destruct ka, kb; simpl; intros Ha Hb H; try discriminate; inversion H; reflexivity.
Qed.

Lemma dt_sortkey_nodup (m : dentries) :
  Forall (fun kv => dt_is_key (fst kv) = true) m -> NoDup (map dcode m) -> NoDup (map dt_sort_key m).
Proof.
  induction m as [|kv r IH]; simpl; intros Hk Hnd; [constructor|].
  inversion Hk as [|x xs Hkv Hkr]; subst. inversion Hnd as [|y ys Hnin Hnd']; subst.
  constructor; [|apply IH; assumption].
  intro Hin. apply Hnin. apply in_map_iff in Hin. destruct Hin as [kv' [E Hin']].
  apply in_map_iff. exists kv'. split; [|exact Hin'].
  rewrite Forall_forall in Hkr. apply dt_sort_key_code; [apply Hkr; exact Hin'|exact Hkv|exact E].
Qed.

(* sortedMapKeys does not depend on the map order: the keys of a map are pairwise different and the
   comparator (string form, then type name) tells any two of them apart *)
Lemma dt_sorted_entries_indep p1 p2 (m : dentries) :
  Forall (fun kv => dt_is_key (fst kv) = true) m -> NoDup (map dcode m) -> dt_sorted_entries p1 m = dt_sorted_entries p2 m.
Proof.
  intros Hk H. unfold dt_sorted_entries, iter_map. apply sort_by_key2_canonical.
  - eapply Permutation_trans; [apply apply_perm_Permutation|apply Permutation_sym, apply_perm_Permutation].
  - apply (dt_iter_nodup dt_sort_key). apply dt_sortkey_nodup; assumption.
Qed.

(* the same for range + sort.Strings *)
Lemma dt_sorted_keystrs_indep p1 p2 (m : dentries) : NoDup (map dkstr m) ->
  bytes_sort (map dkstr (iter_map p1 m)) = bytes_sort (map dkstr (iter_map p2 m)).
Proof.
  intro H. apply sort_perm_canonical.
  - apply Permutation_map. unfold iter_map.
    eapply Permutation_trans; [apply apply_perm_Permutation|apply Permutation_sym, apply_perm_Permutation].
  - apply (dt_iter_nodup dkstr). exact H.
Qed.

(* ================================================================== inversion helpers for dt_vok *)
Lemma dt_vok_map_inv st na t m : dt_vok st na (VMap t m) ->
  NoDup (map dcode m) /\ Forall (fun kv => dt_is_key (fst kv) = true) m /\ Forall (fun kv => dt_vok st na (snd kv)) m.
Proof. intro H. inversion H; subst. auto. Qed.

Lemma dt_vok_map_strict st na t m : dt_vok st na (VMap t m) -> st = true -> NoDup (map dkstr m).
Proof. intros H Hs. inversion H; subst. auto. Qed.

Lemma dt_vok_list_inv st na t xs : dt_vok st na (VList t xs) -> Forall (dt_vok st na) xs.
Proof. intro H. inversion H; subst. assumption. Qed.

Lemma dt_vok_map_code st na t m : dt_vok st na (VMap t m) -> NoDup (map dcode m).
Proof. intro H. apply dt_vok_map_inv in H. tauto. Qed.

Lemma dt_vok_map_sorted st na t m p1 p2 : dt_vok st na (VMap t m) -> dt_sorted_entries p1 m = dt_sorted_entries p2 m.
Proof. intro H. apply dt_vok_map_inv in H. destruct H as [H1 [H2 _]]. apply dt_sorted_entries_indep; assumption. Qed.

Lemma dt_map_get_in (m : dentries) k v : dt_map_get m k = Some v -> exists k', In (k', v) m.
Proof.
  induction m as [|[k' v'] r IH]; simpl; intro H; [discriminate|].
  destruct (dt_key_eqb k' k).
  - inversion H; subst. exists k'. left. reflexivity.
  - destruct (IH H) as [k'' Hin]. exists k''. right. exact Hin.
Qed.

(* ================================================================== filters and functions *)
Section Filters.
  Variables st na mu : bool.
  Variables al1 al2 : daddr.
  Hypothesis Hal : na = false -> al1 = al2.
  Hypothesis Hmu : mu = true -> st = true.

  Lemma dt_fmt_elem_indep (v : value) : dt_vok st na v -> dt_fmt_elem al1 v = dt_fmt_elem al2 v.
  Proof.
    intro H. destruct v as [| | | | | | |o| | |]; simpl; try reflexivity.
    - destruct o as [x|]; [|reflexivity].
      assert (Hna : na = false) by (inversion H; assumption). rewrite (Hal Hna). reflexivity.
    - assert (Hna : na = false) by (inversion H; assumption). rewrite (Hal Hna). reflexivity.
  Qed.

  Lemma dt_fmt_elems_indep (vs : list value) : Forall (dt_vok st na) vs -> dt_fmt_elems al1 vs = dt_fmt_elems al2 vs.
  Proof.
    induction vs as [|v r IH]; simpl; intro H; [reflexivity|].
    inversion H; subst. rewrite dt_fmt_elem_indep by assumption. rewrite IH by assumption. reflexivity.
  Qed.

  Fixpoint dt_tostring_indep (v : value) : dt_vok st na v -> dt_tostring al1 v = dt_tostring al2 v.
  Proof.
    destruct v as [| | | |t xs| |ty fs|o| | |]; intro H; simpl; try reflexivity.
    - rewrite dt_fmt_elems_indep; [reflexivity|inversion H; assumption].
    - rewrite dt_fmt_elems_indep; [reflexivity|].
      assert (Hf : Forall (fun f => dt_vok st na (snd f)) fs) by (inversion H; assumption).
      apply Forall_forall. intros x Hx. apply in_map_iff in Hx. destruct Hx as [f [E Hin]]. subst x.
      rewrite Forall_forall in Hf. apply Hf. exact Hin.
    - destruct o as [x|]; [|reflexivity]. apply dt_tostring_indep. inversion H; assumption.
  Qed.

  Lemma dt_tostring_list_indep (vs : list value) : Forall (dt_vok st na) vs -> dt_tostring_list al1 vs = dt_tostring_list al2 vs.
  Proof.
    induction vs as [|v r IH]; simpl; intro H; [reflexivity|].
    inversion H; subst. rewrite dt_tostring_indep by assumption. rewrite IH by assumption. reflexivity.
  Qed.

  Lemma dt_first_indep pi1 pi2 v : dt_vok st na v -> dt_first pi1 v = dt_first pi2 v.
  Proof.
    intro H. destruct v; simpl; try reflexivity.
    rewrite (dt_vok_map_sorted _ _ _ _ (pi1 [0]) (pi2 [0]) H). reflexivity.
  Qed.

  Lemma dt_first_ok pi v r : dt_vok st na v -> dt_first pi v = Ok r -> dt_vok st na r.
  Proof.
    intros H E. destruct v; simpl in E; try discriminate.
    - inversion E. constructor.
    - destruct xs as [|x xs]; inversion E; subst; [constructor|].
      apply dt_vok_list_inv in H. inversion H; assumption.
    - apply dt_vok_map_inv in H. destruct H as [_ [_ Hv]].
      assert (Hs : Forall (fun kv => dt_vok st na (snd kv)) (dt_sorted_entries (pi [0]) kvs)).
      { eapply Forall_perm; [apply Permutation_sym, dt_sorted_entries_perm|exact Hv]. }
      destruct (dt_sorted_entries (pi [0]) kvs) as [|[k x] rest]; inversion E; subst; [constructor|].
      inversion Hs; assumption.
  Qed.

  Lemma dt_last_ok v r : dt_vok st na v -> dt_last v = Ok r -> dt_vok st na r.
  Proof.
    intros H E. destruct v; simpl in E; try discriminate; inversion E; subst.
    - constructor.
    - apply Forall_last; [apply dt_vok_list_inv in H; exact H|constructor].
  Qed.

  Lemma dt_keys_indep pi1 pi2 v : dt_vok st na v -> dt_keys pi1 v = dt_keys pi2 v.
  Proof.
    intro H. destruct v; simpl; try reflexivity.
    rewrite (dt_vok_map_sorted _ _ _ _ (pi1 [0]) (pi2 [0]) H).
    destruct tag; try reflexivity.
    destruct (dt_all_keys dt_is_str kvs) eqn:A; [|reflexivity].
    change (fun kv : value * value => dt_keystr (fst kv)) with dkstr.
    rewrite (dt_sorted_keystrs_indep (pi1 [0]) (pi2 [0])); [reflexivity|].
    apply dt_str_keys_nodup; [apply dt_all_keys_Forall; exact A|eapply dt_vok_map_code; exact H].
  Qed.

  Lemma dt_keys_list_ok (m : dentries) : Forall (fun kv => dt_is_key (fst kv) = true) m -> Forall (dt_vok st na) (map fst m).
  Proof.
    intro H. apply Forall_forall. intros k Hk. apply in_map_iff in Hk. destruct Hk as [kv [E Hin]]. subst.
    rewrite Forall_forall in H. apply dt_is_key_vok. apply H. exact Hin.
  Qed.

  Lemma dt_keys_ok pi v r : dt_vok st na v -> dt_keys pi v = Ok r -> dt_vok st na r.
  Proof.
    intros H E. destruct v; simpl in E; try discriminate.
    - inversion E. constructor.
    - apply dt_vok_map_inv in H. destruct H as [_ [Hk _]].
      assert (Hs : dt_vok st na (VList LAny (map fst (dt_sorted_entries (pi [0]) kvs)))).
      { constructor. apply dt_keys_list_ok. eapply Forall_perm; [apply Permutation_sym, dt_sorted_entries_perm|exact Hk]. }
      destruct tag; try (inversion E; subst; exact Hs).
      destruct (dt_all_keys dt_is_str kvs); inversion E; subst; [|exact Hs].
      constructor. apply Forall_forall. intros x Hx. apply in_map_iff in Hx. destruct Hx as [s [Es _]]. subst. constructor.
  Qed.

  Lemma dt_length_ok v r : dt_length v = Ok r -> dt_vok st na r.
  Proof.
    destruct v; simpl; intro E; try discriminate; try (inversion E; constructor).
    destruct (dt_ascii s); inversion E. constructor.
  Qed.

  Lemma dt_join_indep v args : dt_vok st na v -> dt_join_filter al1 v args = dt_join_filter al2 v args.
  Proof.
    intro H. unfold dt_join_filter.
    destruct v; try (rewrite dt_tostring_indep by exact H; reflexivity); try reflexivity.
    rewrite dt_tostring_list_indep; [reflexivity|apply dt_vok_list_inv in H; exact H].
  Qed.

  Lemma dt_join_ok al v args r : dt_join_filter al v args = Ok r -> dt_vok st na r.
  Proof.
    unfold dt_join_filter. intro E.
    destruct v; try (destruct (dt_tostring al _) eqn:T; simpl in E; inversion E; constructor); try (inversion E; constructor).
    destruct (dt_tostring_list al xs); simpl in E; inversion E. constructor.
  Qed.

  Lemma dt_sort_indep v : dt_vok st na v -> dt_sort al1 v = dt_sort al2 v.
  Proof.
    intro H. destruct v; try reflexivity.
    apply dt_vok_list_inv in H. unfold dt_sort.
    destruct tag; try reflexivity; try (destruct xs; [reflexivity|]);
      match goal with |- context [forallb dt_is_num ?l] => destruct (forallb dt_is_num l) end; try reflexivity;
      rewrite dt_tostring_list_indep by exact H; reflexivity.
  Qed.

  Lemma dt_sort_ok al v r : dt_vok st na v -> dt_sort al v = Ok r -> dt_vok st na r.
  Proof.
    intros H E. destruct v; try discriminate.
    - inversion E. constructor.
    - pose proof (dt_vok_list_inv _ _ _ _ H) as Hx.
      assert (G : forall ss, dt_vok st na (VList LAny (map snd (sp_isort bytes_leb fst (combine ss xs))))).
      { intro ss. constructor. apply Forall_forall. intros x Hin. apply in_map_iff in Hin. destruct Hin as [[s y] [Ey Hin]]. simpl in Ey. subst y.
        apply (Permutation_in _ (sp_isort_perm _ _ _ _ _)) in Hin. apply in_combine_r in Hin.
        rewrite Forall_forall in Hx. apply Hx. exact Hin. }
      assert (N : dt_vok st na (VList LAny (sp_isort Z.leb dt_num xs))).
      { constructor. eapply Forall_perm; [apply Permutation_sym, sp_isort_perm|exact Hx]. }
      unfold dt_sort in E.
      destruct tag; try discriminate; try (destruct xs as [|x0 xr]; [inversion E; subst; exact H|]);
        match type of E with context [forallb dt_is_num ?l] => destruct (forallb dt_is_num l) end;
        try (inversion E; subst; exact N);
        match type of E with context [dt_tostring_list al ?l] => destruct (dt_tostring_list al l) as [ss| | |] end; simpl in E; try discriminate;
        destruct (dt_nodupb ss); inversion E; apply G.
  Qed.

  Lemma dt_reverse_ok v r : dt_vok st na v -> dt_reverse v = Ok r -> dt_vok st na r.
  Proof.
    intros H E. destruct v; simpl in E; try discriminate; inversion E; subst.
    - constructor.
    - constructor. apply dt_vok_list_inv in H. apply Forall_rev. exact H.
  Qed.

  (* ---- merge ---- *)
  Lemma dt_merge_lists_ok args : Forall (dt_vok st na) args -> Forall (dt_vok st na) (dt_merge_lists args).
  Proof.
    induction args as [|a r IH]; simpl; intro H; [constructor|].
    inversion H; subst. destruct a; try (apply IH; assumption).
    apply Forall_app. split; [apply dt_vok_list_inv with (t := tag); assumption|apply IH; assumption].
  Qed.

  Lemma dt_fmerge_lists_ok args : Forall (dt_vok st na) args -> Forall (dt_vok st na) (dt_fmerge_lists args).
  Proof.
    induction args as [|a r IH]; simpl; intro H; [constructor|].
    inversion H as [|x xs Ha Hr]; subst.
    destruct a; try (constructor; [assumption|apply IH; assumption]).
    apply Forall_app. split; [apply dt_vok_list_inv with (t := tag); assumption|apply IH; assumption].
  Qed.

  (* invariant of the accumulated map: string keys, no repeated key, good values *)
  Definition dt_acc_ok (acc : dentries) : Prop :=
    NoDup (map dcode acc) /\ Forall (fun kv => dt_is_str (fst kv) = true) acc /\ Forall (fun kv => dt_vok st na (snd kv)) acc.

  Lemma dt_acc_ok_nil : dt_acc_ok [].
  Proof. split; [constructor|split; constructor]. Qed.

  Lemma dt_acc_ok_vok t acc : dt_acc_ok acc -> dt_vok st na (VMap t acc).
  Proof.
    intros [A1 [A2 A3]]. constructor.
    - exact A1.
    - intros _. change (fun kv : value * value => dt_keystr (fst kv)) with dkstr. apply dt_str_keys_nodup; assumption.
    - eapply Forall_impl; [|exact A2]. intros [k v]; simpl. destruct k; simpl; congruence.
    - exact A3.
  Qed.

  Lemma dt_strkeys_code (m : dentries) : map dcode (dt_strkeys m) = map (fun kv => x73 :: dkstr kv) m.
  Proof. unfold dt_strkeys. rewrite map_map. reflexivity. Qed.

  Lemma dt_strkeys_nodup (m : dentries) : NoDup (map dkstr m) -> NoDup (map dcode (dt_strkeys m)).
  Proof. intro H. rewrite dt_strkeys_code. apply NoDup_map_cons_inv. exact H. Qed.

  Lemma dt_strkeys_acc (m : dentries) : Forall (fun kv => dt_vok st na (snd kv)) m ->
    Forall (fun kv => dt_is_str (fst kv) = true) (dt_strkeys m) /\ Forall (fun kv => dt_vok st na (snd kv)) (dt_strkeys m).
  Proof.
    intro Hv. split; apply Forall_forall; intros x Hx; unfold dt_strkeys in Hx; apply in_map_iff in Hx; destruct Hx as [y [E Hy]]; subst; simpl.
    - reflexivity.
    - rewrite Forall_forall in Hv. apply Hv. exact Hy.
  Qed.

  (* filling in the order of MapKeys(): independent of that order when the key strings are pairwise different *)
  Lemma dt_put_all_str_indep p1 p2 (m acc : dentries) : NoDup (map dkstr m) -> NoDup (map dcode acc) ->
    dt_map_put_all_str p1 m acc = dt_map_put_all_str p2 m acc.
  Proof.
    intros Hm Hacc. unfold dt_map_put_all_str. apply dt_canon_eq.
    - apply dt_map_fill_perm_es.
      + unfold dt_strkeys. apply Permutation_map. unfold iter_map.
        eapply Permutation_trans; [apply apply_perm_Permutation|apply Permutation_sym, apply_perm_Permutation].
      + apply dt_strkeys_nodup. apply (dt_iter_nodup dkstr). exact Hm.
      + exact Hacc.
    - apply dt_map_fill_nodup. exact Hacc.
  Qed.

  (* filling in the order of sortedMapKeys: always independent of the map order *)
  Lemma dt_put_sorted_str_indep p1 p2 t (m acc : dentries) : dt_vok st na (VMap t m) ->
    dt_map_put_sorted_str p1 m acc = dt_map_put_sorted_str p2 m acc.
  Proof. intro H. unfold dt_map_put_sorted_str. rewrite (dt_vok_map_sorted _ _ _ _ p1 p2 H). reflexivity. Qed.

  Lemma dt_put_all_str_acc_ok p m acc t : dt_vok st na (VMap t m) -> dt_acc_ok acc -> dt_acc_ok (dt_map_put_all_str p m acc).
  Proof.
    intros Hm [A1 [A2 A3]]. apply dt_vok_map_inv in Hm. destruct Hm as [_ [_ Hv]].
    unfold dt_map_put_all_str.
    destruct (dt_strkeys_acc (iter_map p m)) as [Hs1 Hs2]; [apply dt_iter_Forall; exact Hv|].
    split; [apply dt_canon_nodup, dt_map_fill_nodup; exact A1|].
    split; apply dt_canon_Forall, dt_map_fill_Forall; assumption.
  Qed.

  Lemma dt_put_sorted_str_acc_ok p m acc t : dt_vok st na (VMap t m) -> dt_acc_ok acc -> dt_acc_ok (dt_map_put_sorted_str p m acc).
  Proof.
    intros Hm [A1 [A2 A3]]. apply dt_vok_map_inv in Hm. destruct Hm as [_ [_ Hv]].
    unfold dt_map_put_sorted_str.
    destruct (dt_strkeys_acc (dt_sorted_entries p m)) as [Hs1 Hs2].
    { eapply Forall_perm; [apply Permutation_sym, dt_sorted_entries_perm|exact Hv]. }
    split; [apply dt_canon_nodup, dt_map_fill_nodup; exact A1|].
    split; apply dt_canon_Forall, dt_map_fill_Forall; assumption.
  Qed.

  Lemma dt_acc_nodup acc : dt_acc_ok acc -> NoDup (map dcode acc).
  Proof. intros [A _]. exact A. Qed.

  Lemma dt_merge_maps_indep pi1 pi2 args : Forall (dt_vok st na) args -> forall i acc, dt_acc_ok acc ->
    dt_merge_maps mu pi1 i args acc = dt_merge_maps mu pi2 i args acc /\ dt_acc_ok (dt_merge_maps mu pi1 i args acc).
  Proof.
    induction args as [|a r IH]; simpl; intros H i acc Hacc; [split; [reflexivity|exact Hacc]|].
    inversion H as [|x xs Ha Hr]; subst.
    destruct a; try (apply IH; assumption).
    destruct mu eqn:M.
    - rewrite (dt_put_all_str_indep (pi1 [i]) (pi2 [i]));
        [|eapply dt_vok_map_strict; [exact Ha|apply Hmu; reflexivity]|apply dt_acc_nodup; exact Hacc].
      apply IH; [exact Hr|]. eapply dt_put_all_str_acc_ok; eassumption.
    - rewrite (dt_put_sorted_str_indep (pi1 [i]) (pi2 [i]) tag kvs acc Ha).
      apply IH; [exact Hr|]. eapply dt_put_sorted_str_acc_ok; eassumption.
  Qed.

  Lemma dt_merge_maps_ok pi args : Forall (dt_vok st na) args -> forall i acc, dt_acc_ok acc -> dt_acc_ok (dt_merge_maps mu pi i args acc).
  Proof.
    clear Hmu.
    induction args as [|a r IH]; simpl; intros H i acc Hacc; [exact Hacc|].
    inversion H as [|x xs Ha Hr]; subst.
    destruct a; try (apply IH; assumption).
    apply IH; [exact Hr|]. destruct mu; [eapply dt_put_all_str_acc_ok|eapply dt_put_sorted_str_acc_ok]; eassumption.
  Qed.

  Lemma dt_merge_filter_indep pi1 pi2 v args : dt_vok st na v -> Forall (dt_vok st na) args ->
    dt_merge_filter mu pi1 v args = dt_merge_filter mu pi2 v args.
  Proof.
    intros Hv Ha. destruct v; simpl; try reflexivity.
    destruct (dt_merge_maps_indep pi1 pi2 (VMap tag kvs :: args) (Forall_cons _ Hv Ha) 0 [] dt_acc_ok_nil) as [E _].
    simpl in E. rewrite E. reflexivity.
  Qed.

  Lemma dt_merge_filter_ok pi v args r : dt_vok st na v -> Forall (dt_vok st na) args -> dt_merge_filter mu pi v args = Ok r -> dt_vok st na r.
  Proof.
    intros Hv Ha E. destruct v; simpl in E; try (inversion E; subst; exact Hv).
    - inversion E; subst. constructor. apply Forall_app. split; [apply dt_vok_list_inv in Hv; exact Hv|apply dt_merge_lists_ok; exact Ha].
    - inversion E; subst. apply dt_acc_ok_vok.
      apply (dt_merge_maps_ok pi (VMap tag kvs :: args) (Forall_cons _ Hv Ha) 0 [] dt_acc_ok_nil).
  Qed.

  (* ---- the merge function ---- *)
  Lemma dt_fmerge_maps_indep pi1 pi2 args : Forall (dt_vok st na) args -> forall i acc, dt_acc_ok acc ->
    dt_fmerge_maps pi1 i args acc = dt_fmerge_maps pi2 i args acc /\ dt_acc_ok (dt_fmerge_maps pi1 i args acc).
  Proof.
    induction args as [|a r IH]; simpl; intros H i acc Hacc; [split; [reflexivity|exact Hacc]|].
    inversion H as [|x xs Ha Hr]; subst.
    destruct a; try (apply IH; assumption).
    destruct (dt_is_generic tag kvs) eqn:G.
    - assert (Hs : NoDup (map dkstr kvs)).
      { destruct tag; simpl in G; try discriminate. apply dt_str_keys_nodup; [apply dt_all_keys_Forall; exact G|eapply dt_vok_map_code; exact Ha]. }
      rewrite (dt_put_all_str_indep (pi1 [i]) (pi2 [i])); [|exact Hs|apply dt_acc_nodup; exact Hacc].
      apply IH; [exact Hr|]. eapply dt_put_all_str_acc_ok; eassumption.
    - rewrite (dt_put_sorted_str_indep (pi1 [i]) (pi2 [i]) tag kvs acc Ha).
      apply IH; [exact Hr|]. eapply dt_put_sorted_str_acc_ok; eassumption.
  Qed.

  Lemma dt_merge_function_indep pi1 pi2 args : Forall (dt_vok st na) args -> dt_merge_function pi1 args = dt_merge_function pi2 args.
  Proof.
    intro H. unfold dt_merge_function. destruct args as [|a [|b r]]; try reflexivity.
    destruct a; try reflexivity.
    destruct (dt_fmerge_maps_indep pi1 pi2 _ H 0 [] dt_acc_ok_nil) as [E _]. rewrite E. reflexivity.
  Qed.

  Lemma dt_merge_function_ok pi args r : Forall (dt_vok st na) args -> dt_merge_function pi args = Ok r -> dt_vok st na r.
  Proof.
    intros H E. unfold dt_merge_function in E. destruct args as [|a [|b rest]]; try discriminate;
      [destruct a; discriminate|].
    destruct a; try discriminate; inversion E; subst.
    - inversion H as [|x0 xs0 Ha Hr]; subst.
      apply vok_list. apply Forall_app. split; [apply dt_vok_list_inv in Ha; exact Ha|apply (dt_fmerge_lists_ok (b :: rest)); exact Hr].
    - apply dt_acc_ok_vok. apply (dt_fmerge_maps_indep pi pi _ H 0 [] dt_acc_ok_nil).
  Qed.

  (* ---- dispatch ---- *)
  Lemma dt_filter_indep pi1 pi2 f v args : dt_vok st na v -> Forall (dt_vok st na) args ->
    dt_filter mu pi1 al1 f v args = dt_filter mu pi2 al2 f v args.
  Proof.
    intros Hv Ha. unfold dt_filter.
    repeat match goal with |- (if ?c then _ else _) = _ => destruct c end; try reflexivity.
    - apply dt_first_indep; assumption.
    - apply dt_keys_indep; assumption.
    - apply dt_join_indep; assumption.
    - apply dt_sort_indep; assumption.
    - apply dt_merge_filter_indep; assumption.
  Qed.

  Lemma dt_filter_ok pi al f v args r : dt_vok st na v -> Forall (dt_vok st na) args -> dt_filter mu pi al f v args = Ok r -> dt_vok st na r.
  Proof.
    intros Hv Ha. unfold dt_filter.
    repeat match goal with |- (if ?c then _ else _) = _ -> _ => destruct c end; intro E.
    - eapply dt_first_ok; eassumption.
    - eapply dt_last_ok; eassumption.
    - eapply dt_keys_ok; eassumption.
    - eapply dt_length_ok; eassumption.
    - eapply dt_join_ok; eassumption.
    - eapply dt_sort_ok; eassumption.
    - eapply dt_reverse_ok; eassumption.
    - eapply dt_merge_filter_ok; eassumption.
    - discriminate.
  Qed.

  Lemma dt_function_indep pi1 pi2 f args : Forall (dt_vok st na) args -> dt_function pi1 f args = dt_function pi2 f args.
  Proof.
    intro Ha. unfold dt_function.
    repeat match goal with |- (if ?c then _ else _) = _ => destruct c end; try reflexivity.
    apply dt_merge_function_indep; assumption.
  Qed.

  Lemma dt_function_ok pi f args r : Forall (dt_vok st na) args -> dt_function pi f args = Ok r -> dt_vok st na r.
  Proof.
    intro Ha. unfold dt_function.
    repeat match goal with |- (if ?c then _ else _) = _ -> _ => destruct c end; intro E.
    - eapply dt_merge_function_ok; eassumption.
    - destruct args as [|v [|w r']]; try discriminate.
      destruct (dt_length v) eqn:L; inversion E; subst; [eapply dt_length_ok; exact L|constructor].
    - discriminate.
  Qed.

  Lemma dt_item_ok c i r : dt_vok st na c -> dt_item c i = Ok r -> dt_vok st na r.
  Proof.
    intros Hc E. destruct c; simpl in E; try discriminate.
    - inversion E. constructor.
    - destruct i; try discriminate.
      destruct (Z.ltb z 0 || Z.leb (Z.of_nat (length xs)) z)%bool eqn:B; [discriminate|]. inversion E; subst.
      apply dt_vok_list_inv in Hc. rewrite Forall_forall in Hc.
      apply orb_false_iff in B. destruct B as [B1 B2]. apply Z.ltb_ge in B1. apply Z.leb_gt in B2.
      apply Hc. apply nth_In. lia.
    - apply dt_vok_map_inv in Hc. destruct Hc as [_ [_ Hv]]. rewrite Forall_forall in Hv.
      assert (G : forall k, dt_vok st na (match dt_map_get kvs k with Some v => v | None => VNull end)).
      { intro k. destruct (dt_map_get kvs k) eqn:G; [|constructor]. apply dt_map_get_in in G. destruct G as [k' Hin]. apply (Hv _ Hin). }
      destruct i; try discriminate; match type of E with (if ?c then _ else _) = _ => destruct c end; inversion E; apply G.
  Qed.

  Lemma dt_attr_ok c a r : dt_vok st na c -> dt_attr c a = Ok r -> dt_vok st na r.
  Proof.
    intros Hc E. destruct c; simpl in E; try discriminate.
    - inversion E. constructor.
    - destruct tag; try discriminate. destruct (dt_all_keys dt_is_str kvs); [|discriminate]. inversion E; subst.
      apply dt_vok_map_inv in Hc. destruct Hc as [_ [_ Hv]]. rewrite Forall_forall in Hv.
      destruct (dt_map_get kvs (VStr a)) eqn:G; [|constructor]. apply dt_map_get_in in G. destruct G as [k' Hin]. apply (Hv _ Hin).
  Qed.
End Filters.

(* ================================================================== the evaluator *)
Lemma dt_bind_ok {A B} (o : outcome A) (f : A -> outcome B) b : dt_bind o f = Ok b -> exists a, o = Ok a /\ f a = Ok b.
Proof. destruct o; simpl; intro H; try discriminate. exists a. auto. Qed.

Lemma dt_env_get_ok st na env x : dt_env_ok st na env -> dt_vok st na (dt_env_get env x).
Proof.
  unfold dt_env_get, dt_env_ok. induction env as [|[y w] r IH]; simpl; intro H; [constructor|].
  inversion H; subst. destruct (bytes_eqb y x); [assumption|apply IH; assumption].
Qed.

Lemma dt_env_set_ok st na env x v : dt_env_ok st na env -> dt_vok st na v -> dt_env_ok st na (dt_env_set env x v).
Proof.
  unfold dt_env_ok. induction env as [|[y w] r IH]; simpl; intros H Hv.
  - constructor; [exact Hv|constructor].
  - inversion H; subst. destruct (bytes_eqb y x); constructor; try assumption. apply IH; assumption.
Qed.

Lemma dt_lit_ok st na l : dt_vok st na (dt_lit l).
Proof. destruct l; constructor. Qed.

Lemma dt_eval_list_ok (ev : doracle -> expr -> outcome value) (Q : value -> Prop) :
  (forall p e v, ev p e = Ok v -> Q v) ->
  forall es pi i vs, dt_eval_list ev pi i es = Ok vs -> Forall Q vs.
Proof.
  intro Hev. induction es as [|e r IH]; simpl; intros pi i vs E.
  - inversion E. constructor.
  - apply dt_bind_ok in E. destruct E as [v [E1 E2]]. apply dt_bind_ok in E2. destruct E2 as [vs' [E2 E3]].
    inversion E3; subst. constructor; [eapply Hev; exact E1|eapply IH; exact E2].
Qed.

Lemma dt_eval_list_indep (ev1 ev2 : doracle -> expr -> outcome value) (P : expr -> Prop) :
  (forall p1 p2 e, P e -> ev1 p1 e = ev2 p2 e) ->
  forall es pi1 pi2 i, Forall P es -> dt_eval_list ev1 pi1 i es = dt_eval_list ev2 pi2 i es.
Proof.
  intro Hev. induction es as [|e r IH]; simpl; intros pi1 pi2 i H; [reflexivity|].
  inversion H; subst. rewrite (Hev (dsub i pi1) (dsub i pi2) e) by assumption.
  rewrite (IH pi1 pi2 (S i)) by assumption. reflexivity.
Qed.

Lemma dt_eval_pairs_ok st na (ev : doracle -> expr -> outcome value) al :
  (forall p e v, ev p e = Ok v -> dt_vok st na v) ->
  forall kvs pi i pairs, dt_eval_pairs ev al pi i kvs = Ok pairs ->
  Forall (fun kv => dt_is_str (fst kv) = true) pairs /\ Forall (fun kv => dt_vok st na (snd kv)) pairs.
Proof.
  intro Hev. induction kvs as [|[k v] r IH]; simpl; intros pi i pairs E.
  - inversion E. split; constructor.
  - apply dt_bind_ok in E. destruct E as [kv [E1 E]]. apply dt_bind_ok in E. destruct E as [ks [E2 E]].
    apply dt_bind_ok in E. destruct E as [vv [E3 E]]. apply dt_bind_ok in E. destruct E as [rest [E4 E]].
    inversion E; subst. destruct (IH _ _ _ E4) as [I1 I2].
    split; constructor; try assumption; simpl; [reflexivity|eapply Hev; exact E3].
Qed.

Lemma dt_eval_pairs_keys (ev : doracle -> expr -> outcome value) al :
  (forall p l v, ev p (ELit l) = Ok v -> v = dt_lit l) ->
  forall kvs strs pi i pairs, map (fun kv => dt_lit_key (fst kv)) kvs = map Some strs ->
  dt_eval_pairs ev al pi i kvs = Ok pairs -> map fst pairs = map VStr strs.
Proof.
  intro Hev. induction kvs as [|[k v] r IH]; simpl; intros strs pi i pairs Hm E.
  - destruct strs; [|discriminate]. inversion E. reflexivity.
  - destruct strs as [|s strs]; [discriminate|]. simpl in Hm. inversion Hm as [[Hk Hr]].
    apply dt_bind_ok in E. destruct E as [kv [E1 E]]. apply dt_bind_ok in E. destruct E as [ks [E2 E]].
    apply dt_bind_ok in E. destruct E as [vv [E3 E]]. apply dt_bind_ok in E. destruct E as [rest [E4 E]].
    inversion E; subst. simpl. f_equal; [|eapply IH; eassumption].
    f_equal. destruct k; simpl in Hk; try discriminate. apply Hev in E1. subst kv.
    destruct l; simpl in Hk, E2; try discriminate; inversion Hk; inversion E2; subst; reflexivity.
Qed.

Lemma dt_hash_build_ok st na g p (pairs : dentries) :
  Forall (fun kv => dt_is_str (fst kv) = true) pairs -> Forall (fun kv => dt_vok st na (snd kv)) pairs ->
  dt_vok st na (dt_hash_build g p pairs).
Proof.
  intros H1 H2. unfold dt_hash_build. apply dt_acc_ok_vok.
  assert (G : forall X, Forall (fun kv => dt_is_str (fst kv) = true) X -> Forall (fun kv => dt_vok st na (snd kv)) X ->
              dt_acc_ok st na (dt_canon (dt_map_fill X []))).
  { intros X X1 X2. split; [apply dt_canon_nodup, dt_map_fill_nodup; constructor|].
    split; apply dt_canon_Forall, dt_map_fill_Forall; try assumption; constructor. }
  destruct g; apply G; try assumption; apply dt_iter_Forall; assumption.
Qed.

Lemma dt_hash_build_indep p1 p2 (pairs : dentries) : NoDup (map dcode pairs) -> dt_hash_build true p1 pairs = dt_hash_build true p2 pairs.
Proof.
  intro H. unfold dt_hash_build. f_equal.
  change (dt_map_put_all p1 pairs [] = dt_map_put_all p2 pairs []).
  apply dt_put_all_indep; [exact H|constructor].
Qed.

Lemma dt_vstr_codes_nodup (pairs : dentries) strs : map fst pairs = map VStr strs -> NoDup strs -> NoDup (map dcode pairs).
Proof.
  intros Hm Hnd.
  assert (E : map dcode pairs = map (fun s => x73 :: s) strs).
  { unfold dcode. rewrite <- (map_map fst dt_key_code), Hm, map_map. reflexivity. }
  rewrite E. rewrite <- (map_id strs) in Hnd. apply (NoDup_map_cons_inv (fun s => s) x73). exact Hnd.
Qed.

Section Eval.
  Variables gm mu st na : bool.

  Lemma dt_eval_lit fu pi al env l v : dt_eval gm mu fu pi al env (ELit l) = Ok v -> v = dt_lit l.
  Proof. destruct fu; simpl; intro H; [discriminate|inversion H; reflexivity]. Qed.

  Lemma dt_eval_ok : forall fu pi al env e v, dt_env_ok st na env -> dt_eval gm mu fu pi al env e = Ok v -> dt_vok st na v.
  Proof.
    induction fu as [|fu IH]; intros pi al env e v Henv E; [discriminate|].
    assert (Hev : forall p x w, dt_eval gm mu fu p al env x = Ok w -> dt_vok st na w) by (intros p x w Hw; eapply IH; eassumption).
    destruct e; simpl in E; try discriminate.
    - inversion E. apply dt_lit_ok.
    - inversion E. apply dt_env_get_ok. exact Henv.
    - apply dt_bind_ok in E. destruct E as [cv [E1 E2]]. eapply dt_attr_ok; [eapply Hev; exact E1|exact E2].
    - apply dt_bind_ok in E. destruct E as [cv [E1 E]]. apply dt_bind_ok in E. destruct E as [iv [E2 E3]].
      eapply dt_item_ok; [eapply Hev; exact E1|exact E3].
    - apply dt_bind_ok in E. destruct E as [vs [E1 E2]]. inversion E2; subst. constructor.
      eapply dt_eval_list_ok; [|exact E1]. intros p x w Hw. eapply Hev. exact Hw.
    - apply dt_bind_ok in E. destruct E as [pairs [E1 E2]]. inversion E2; subst.
      destruct (dt_eval_pairs_ok st na _ al Hev _ _ _ _ E1) as [P1 P2]. apply dt_hash_build_ok; assumption.
    - apply dt_bind_ok in E. destruct E as [avs [E1 E]]. apply dt_bind_ok in E. destruct E as [xv [E2 E3]].
      eapply dt_filter_ok; [eapply Hev; exact E2| |exact E3].
      eapply dt_eval_list_ok; [|exact E1]. intros p x w Hw. eapply Hev. exact Hw.
    - apply dt_bind_ok in E. destruct E as [avs [E1 E2]].
      eapply dt_function_ok; [|exact E2].
      eapply dt_eval_list_ok; [|exact E1]. intros p x w Hw. eapply Hev. exact Hw.
  Qed.

  Variables al1 al2 : daddr.
  Hypothesis Hal : na = false -> al1 = al2.
  Hypothesis Hmu : mu = true -> st = true.

  Lemma dt_eval_pairs_indep (ev1 ev2 : doracle -> expr -> outcome value) :
    (forall p1 p2 e, dt_eok gm e -> ev1 p1 e = ev2 p2 e) -> (forall p e v, ev1 p e = Ok v -> dt_vok st na v) ->
    forall kvs pi1 pi2 i, Forall (fun kv => dt_eok gm (fst kv) /\ dt_eok gm (snd kv)) kvs ->
    dt_eval_pairs ev1 al1 pi1 i kvs = dt_eval_pairs ev2 al2 pi2 i kvs.
  Proof.
    intros Hev Hok. induction kvs as [|[k v] r IH]; simpl; intros pi1 pi2 i H; [reflexivity|].
    inversion H as [|x xs [Hk Hv] Hr]; subst. simpl in Hk, Hv.
    rewrite <- (Hev (dsub i pi1) (dsub i pi2) k Hk).
    destruct (ev1 (dsub i pi1) k) as [kv| | |] eqn:E1; simpl; try reflexivity.
    rewrite (dt_tostring_indep st na al1 al2 Hal kv) by (eapply Hok; exact E1).
    destruct (dt_tostring al2 kv); simpl; try reflexivity.
    rewrite <- (Hev (dsub (S i) pi1) (dsub (S i) pi2) v Hv).
    destruct (ev1 (dsub (S i) pi1) v); simpl; try reflexivity.
    rewrite (IH pi1 pi2 (S (S i)) Hr). reflexivity.
  Qed.

  Lemma dt_eval_indep : forall fu pi1 pi2 env e, dt_env_ok st na env -> dt_eok gm e ->
    dt_eval gm mu fu pi1 al1 env e = dt_eval gm mu fu pi2 al2 env e.
  Proof.
    induction fu as [|fu IH]; intros pi1 pi2 env e Henv He; [reflexivity|].
    assert (Hev : forall p1 p2 x, dt_eok gm x -> dt_eval gm mu fu p1 al1 env x = dt_eval gm mu fu p2 al2 env x)
      by (intros; apply IH; assumption).
    assert (Hok : forall p x w, dt_eval gm mu fu p al1 env x = Ok w -> dt_vok st na w)
      by (intros p x w Hw; eapply dt_eval_ok; eassumption).
    inversion He; subst; simpl; try reflexivity.
    - (* EAttr *) rewrite (Hev (dsub 2 pi1) (dsub 2 pi2)) by assumption. reflexivity.
    - (* EItem *) rewrite (Hev (dsub 2 pi1) (dsub 2 pi2)) by assumption.
      destruct (dt_eval gm mu fu (dsub 2 pi2) al2 env e0); simpl; try reflexivity.
      rewrite (Hev (dsub 3 pi1) (dsub 3 pi2)) by assumption. reflexivity.
    - (* EArr *)
      rewrite (dt_eval_list_indep _ (fun p x => dt_eval gm mu fu p al2 env x) (dt_eok gm) Hev es pi1 pi2 2) by assumption.
      reflexivity.
    - (* EHash *)
      rewrite (dt_eval_pairs_indep _ (fun p x => dt_eval gm mu fu p al2 env x) Hev Hok kvs pi1 pi2 2) by assumption.
      destruct (dt_eval_pairs (fun p x => dt_eval gm mu fu p al2 env x) al2 pi2 2 kvs) as [pairs| | |] eqn:EP; simpl; try reflexivity.
      f_equal. destruct (Bool.bool_dec gm true) as [G|G];
        [|apply Bool.not_true_is_false in G; rewrite G; reflexivity].
      destruct (H G) as [strs [Hm Hnd]]. rewrite G.
      apply dt_hash_build_indep. eapply dt_vstr_codes_nodup; [|exact Hnd].
      eapply dt_eval_pairs_keys; [|exact Hm|exact EP].
      intros p l v Hv. eapply dt_eval_lit. exact Hv.
    - (* EFilter *)
      rewrite (dt_eval_list_indep _ (fun p x => dt_eval gm mu fu p al2 env x) (dt_eok gm) Hev args pi1 pi2 3) by assumption.
      destruct (dt_eval_list (fun p x => dt_eval gm mu fu p al2 env x) pi2 3 args) as [avs| | |] eqn:EA; simpl; try reflexivity.
      rewrite (Hev (dsub 2 pi1) (dsub 2 pi2)) by assumption.
      destruct (dt_eval gm mu fu (dsub 2 pi2) al2 env e0) as [xv| | |] eqn:EX; simpl; try reflexivity.
      apply (dt_filter_indep st na mu al1 al2 Hal Hmu).
      + eapply dt_eval_ok; eassumption.
      + eapply dt_eval_list_ok; [|exact EA]. intros p x w Hw. cbv beta in Hw. eapply dt_eval_ok; [exact Henv|exact Hw].
    - (* ECall *)
      rewrite (dt_eval_list_indep _ (fun p x => dt_eval gm mu fu p al2 env x) (dt_eok gm) Hev args pi1 pi2 2) by assumption.
      destruct (dt_eval_list (fun p x => dt_eval gm mu fu p al2 env x) pi2 2 args) as [avs| | |] eqn:EA; simpl; try reflexivity.
      apply (dt_function_indep st na).
      eapply dt_eval_list_ok; [|exact EA]. intros p x w Hw. cbv beta in Hw. eapply dt_eval_ok; [exact Henv|exact Hw].
  Qed.
End Eval.

(* ================================================================== nodes *)
Lemma dt_index_from_ok st na xs : Forall (dt_vok st na) xs -> forall i,
  Forall (fun kv => dt_vok st na (fst kv) /\ dt_vok st na (snd kv)) (dt_index_from i xs).
Proof.
  induction xs as [|x r IH]; simpl; intros H i; [constructor|].
  inversion H; subst. constructor; [split; [constructor|assumption]|apply IH; assumption].
Qed.

Lemma dt_for_items_ok st na pi sv items : dt_vok st na sv -> dt_for_items pi sv = Ok (Some items) ->
  Forall (fun kv => dt_vok st na (fst kv) /\ dt_vok st na (snd kv)) items.
Proof.
  intros H E. destruct sv; simpl in E; try discriminate; inversion E; subst.
  - apply dt_index_from_ok. apply dt_vok_list_inv in H. exact H.
  - apply dt_vok_map_inv in H. destruct H as [_ [Hk Hv]].
    eapply Forall_perm; [apply Permutation_sym, dt_sorted_entries_perm|].
    apply Forall_forall. intros kv Hin. rewrite Forall_forall in Hk, Hv. split; [apply dt_is_key_vok; apply Hk; exact Hin|apply Hv; exact Hin].
Qed.

Lemma dt_for_items_indep st na pi1 pi2 sv : dt_vok st na sv -> dt_for_items pi1 sv = dt_for_items pi2 sv.
Proof.
  intro H. destruct sv; simpl; try reflexivity.
  rewrite (dt_vok_map_sorted _ _ _ _ (pi1 [0]) (pi2 [0]) H). reflexivity.
Qed.

Section Nodes.
  Variables gm mu st na : bool.

  Definition dt_rn_ok (rn : doracle -> denv -> node -> outcome dres) : Prop :=
    forall p env n r, dt_env_ok st na env -> rn p env n = Ok r -> dt_env_ok st na (snd r).

  Lemma dt_render_nodes_ok rn : dt_rn_ok rn ->
    forall ns pi i env r, dt_env_ok st na env -> dt_render_nodes rn pi i env ns = Ok r -> dt_env_ok st na (snd r).
  Proof.
    intro Hrn. induction ns as [|n rest IH]; simpl; intros pi i env r Henv E.
    - inversion E; subst. exact Henv.
    - apply dt_bind_ok in E. destruct E as [r1 [E1 E]]. apply dt_bind_ok in E. destruct E as [r2 [E2 E3]].
      inversion E3; subst. simpl. eapply IH; [|exact E2]. eapply Hrn; eassumption.
  Qed.

  Lemma dt_loop_ok (body : doracle -> denv -> outcome dres) :
    (forall p env r, dt_env_ok st na env -> body p env = Ok r -> dt_env_ok st na (snd r)) ->
    forall items pi j k v env r, Forall (fun kv => dt_vok st na (fst kv) /\ dt_vok st na (snd kv)) items ->
    dt_env_ok st na env -> dt_loop body pi j k v env items = Ok r -> dt_env_ok st na (snd r).
  Proof.
    intro Hb. induction items as [|[key val] rest IH]; simpl; intros pi j k v env r Hit Henv E.
    - inversion E; subst. exact Henv.
    - inversion Hit as [|x xs [Hk Hv] Hrest]; subst. simpl in Hk, Hv.
      apply dt_bind_ok in E. destruct E as [r1 [E1 E]]. apply dt_bind_ok in E. destruct E as [r2 [E2 E3]].
      inversion E3; subst. simpl. eapply IH; [exact Hrest| |exact E2].
      eapply Hb; [|exact E1].
      destruct k; [apply dt_env_set_ok; [apply dt_env_set_ok|]|apply dt_env_set_ok]; assumption.
  Qed.

  Lemma dt_if_ok (ev : doracle -> expr -> outcome value) (rns : doracle -> denv -> list node -> outcome dres) :
    (forall p env ns r, dt_env_ok st na env -> rns p env ns = Ok r -> dt_env_ok st na (snd r)) ->
    forall branches pi i env els r, dt_env_ok st na env -> dt_if ev rns pi i env branches els = Ok r -> dt_env_ok st na (snd r).
  Proof.
    intro Hr. induction branches as [|[c body] rest IH]; simpl; intros pi i env els r Henv E.
    - destruct els; [eapply Hr; eassumption|inversion E; subst; exact Henv].
    - apply dt_bind_ok in E. destruct E as [cv [E1 E2]].
      destruct (dt_truthy cv); [eapply Hr; eassumption|eapply IH; eassumption].
  Qed.

  Lemma dt_render_node_ok : forall fu pi al env n r, dt_env_ok st na env -> dt_render_node gm mu fu pi al env n = Ok r -> dt_env_ok st na (snd r).
  Proof.
    induction fu as [|fu IH]; intros pi al env n r Henv E; [discriminate|].
    assert (Hrn : dt_rn_ok (fun q e2 m => dt_render_node gm mu fu q al e2 m)) by (intros p en m r' He Hr; eapply IH; eassumption).
    assert (Hrns : forall p en ns r', dt_env_ok st na en -> dt_render_nodes (fun q e2 m => dt_render_node gm mu fu q al e2 m) p 0 en ns = Ok r' -> dt_env_ok st na (snd r'))
      by (intros p en ns r' He Hr; eapply dt_render_nodes_ok; eassumption).
    destruct n; simpl in E; try discriminate.
    - inversion E; subst. exact Henv.
    - apply dt_bind_ok in E. destruct E as [v [E1 E]]. apply dt_bind_ok in E. destruct E as [s [E2 E3]]. inversion E3; subst. exact Henv.
    - eapply dt_if_ok; [|exact Henv|exact E]. intros p en ns r' He Hr. cbv beta in Hr. eapply Hrns; eassumption.
    - apply dt_bind_ok in E. destruct E as [sv [E1 E]]. apply dt_bind_ok in E. destruct E as [items [E2 E3]].
      assert (Hsv : dt_vok st na sv) by (eapply dt_eval_ok; eassumption).
      assert (Hels : match els with Some ns => dt_render_nodes (fun q e2 m => dt_render_node gm mu fu q al e2 m) (dsub 3 pi) 0 env ns | None => Ok ([], env) end = Ok r -> dt_env_ok st na (snd r)).
      { destruct els; intro Hx; [eapply Hrns; eassumption|inversion Hx; subst; exact Henv]. }
      cbv zeta in E3. destruct items as [[|it its]|]; try (apply Hels; exact E3).
      eapply dt_loop_ok; [| |exact Henv|exact E3].
      + intros p en r' He Hr. cbv beta in Hr. eapply Hrns; eassumption.
      + eapply dt_for_items_ok; eassumption.
    - apply dt_bind_ok in E. destruct E as [v [E1 E2]]. inversion E2; subst. simpl.
      apply dt_env_set_ok; [exact Henv|eapply dt_eval_ok; eassumption].
  Qed.

  Variables al1 al2 : daddr.
  Hypothesis Hal : na = false -> al1 = al2.
  Hypothesis Hmu : mu = true -> st = true.

  Definition dt_rn_indep (rn1 rn2 : doracle -> denv -> node -> outcome dres) : Prop :=
    forall p1 p2 env n, dt_env_ok st na env -> dt_nok gm n -> rn1 p1 env n = rn2 p2 env n.

  Lemma dt_render_nodes_indep rn1 rn2 : dt_rn_indep rn1 rn2 -> dt_rn_ok rn2 ->
    forall ns pi1 pi2 i env, dt_env_ok st na env -> Forall (dt_nok gm) ns ->
    dt_render_nodes rn1 pi1 i env ns = dt_render_nodes rn2 pi2 i env ns.
  Proof.
    intros Hi Hok. induction ns as [|n rest IH]; simpl; intros pi1 pi2 i env Henv H; [reflexivity|].
    inversion H; subst. rewrite (Hi (dsub i pi1) (dsub i pi2) env n) by assumption.
    destruct (rn2 (dsub i pi2) env n) as [r1| | |] eqn:E1; simpl; try reflexivity.
    rewrite (IH pi1 pi2 (S i) (snd r1)); [reflexivity| |assumption]. eapply Hok; eassumption.
  Qed.

  Lemma dt_loop_indep (b1 b2 : doracle -> denv -> outcome dres) :
    (forall p1 p2 env, dt_env_ok st na env -> b1 p1 env = b2 p2 env) ->
    (forall p env r, dt_env_ok st na env -> b2 p env = Ok r -> dt_env_ok st na (snd r)) ->
    forall items pi1 pi2 j k v env, Forall (fun kv => dt_vok st na (fst kv) /\ dt_vok st na (snd kv)) items -> dt_env_ok st na env ->
    dt_loop b1 pi1 j k v env items = dt_loop b2 pi2 j k v env items.
  Proof.
    intros Hb Hok. induction items as [|[key val] rest IH]; simpl; intros pi1 pi2 j k v env Hit Henv; [reflexivity|].
    inversion Hit as [|x xs [Hk Hv] Hrest]; subst. simpl in Hk, Hv.
    set (env2 := match k with Some kx => dt_env_set (dt_env_set env v val) kx key | None => dt_env_set env v val end).
    assert (He2 : dt_env_ok st na env2).
    { unfold env2. destruct k; [apply dt_env_set_ok; [apply dt_env_set_ok|]|apply dt_env_set_ok]; assumption. }
    rewrite (Hb (dsub j pi1) (dsub j pi2) env2 He2).
    destruct (b2 (dsub j pi2) env2) as [r1| | |] eqn:E1; simpl; try reflexivity.
    rewrite (IH pi1 pi2 (S j) k v (snd r1)); [reflexivity|exact Hrest|]. eapply Hok; eassumption.
  Qed.

  Lemma dt_if_indep (ev1 ev2 : doracle -> expr -> outcome value) (rns1 rns2 : doracle -> denv -> list node -> outcome dres) :
    (forall p1 p2 e, dt_eok gm e -> ev1 p1 e = ev2 p2 e) ->
    (forall p1 p2 env ns, dt_env_ok st na env -> Forall (dt_nok gm) ns -> rns1 p1 env ns = rns2 p2 env ns) ->
    forall branches pi1 pi2 i env els, dt_env_ok st na env ->
    Forall (fun b => dt_eok gm (fst b) /\ Forall (dt_nok gm) (snd b)) branches ->
    (forall ns, els = Some ns -> Forall (dt_nok gm) ns) ->
    dt_if ev1 rns1 pi1 i env branches els = dt_if ev2 rns2 pi2 i env branches els.
  Proof.
    intros Hev Hrns. induction branches as [|[c body] rest IH]; simpl; intros pi1 pi2 i env els Henv Hb Hels.
    - destruct els; [apply Hrns; [exact Henv|apply Hels; reflexivity]|reflexivity].
    - inversion Hb as [|x xs [Hc Hbody] Hrest]; subst. simpl in Hc, Hbody.
      rewrite (Hev (dsub i pi1) (dsub i pi2) c Hc).
      destruct (ev2 (dsub i pi2) c) as [cv| | |]; simpl; try reflexivity.
      destruct (dt_truthy cv); [apply Hrns; assumption|apply IH; assumption].
  Qed.

  Lemma dt_render_node_indep : forall fu pi1 pi2 env n, dt_env_ok st na env -> dt_nok gm n ->
    dt_render_node gm mu fu pi1 al1 env n = dt_render_node gm mu fu pi2 al2 env n.
  Proof.
    induction fu as [|fu IH]; intros pi1 pi2 env n Henv Hn; [reflexivity|].
    assert (Hev : forall p1 p2 x, dt_eok gm x -> dt_eval gm mu fu p1 al1 env x = dt_eval gm mu fu p2 al2 env x)
      by (intros; apply (dt_eval_indep gm mu st na al1 al2 Hal Hmu); assumption).
    assert (Hrns : forall p1 p2 en ns, dt_env_ok st na en -> Forall (dt_nok gm) ns ->
              dt_render_nodes (fun q e2 m => dt_render_node gm mu fu q al1 e2 m) p1 0 en ns =
              dt_render_nodes (fun q e2 m => dt_render_node gm mu fu q al2 e2 m) p2 0 en ns).
    { intros p1 p2 en ns He Hns.
      apply dt_render_nodes_indep;
        [intros q1 q2 e2 m He2 Hm; apply IH; assumption
        |intros q e2 m r He2 Hr; eapply dt_render_node_ok; eassumption
        |assumption|assumption]. }
    assert (Hrok : forall p en ns r, dt_env_ok st na en ->
              dt_render_nodes (fun q e2 m => dt_render_node gm mu fu q al2 e2 m) p 0 en ns = Ok r -> dt_env_ok st na (snd r)).
    { intros p en ns r He Hr. eapply dt_render_nodes_ok; [|exact He|exact Hr].
      intros q e2 m r' He2 Hr'. eapply dt_render_node_ok; eassumption. }
    inversion Hn as [s|e He|x e He|branches els Hb Hels|k v seq body els Hseq Hbody Hels|n' Hm]; subst; simpl.
    - reflexivity.
    - rewrite (Hev (dsub 2 pi1) (dsub 2 pi2) e He).
      destruct (dt_eval gm mu fu (dsub 2 pi2) al2 env e) as [v| | |] eqn:E; simpl; try reflexivity.
      rewrite (dt_tostring_indep st na al1 al2 Hal v) by (eapply dt_eval_ok; eassumption). reflexivity.
    - rewrite (Hev (dsub 2 pi1) (dsub 2 pi2) e He). reflexivity.
    - apply dt_if_indep; assumption.
    - rewrite (Hev (dsub 2 pi1) (dsub 2 pi2) seq Hseq).
      destruct (dt_eval gm mu fu (dsub 2 pi2) al2 env seq) as [sv| | |] eqn:E; simpl; try reflexivity.
      assert (Hsv : dt_vok st na sv) by (eapply dt_eval_ok; eassumption).
      rewrite (dt_for_items_indep st na pi1 pi2 sv Hsv).
      destruct (dt_for_items pi2 sv) as [items| | |] eqn:EI; simpl; try reflexivity.
      assert (Hels' : match els with Some ns => dt_render_nodes (fun q e2 m => dt_render_node gm mu fu q al1 e2 m) (dsub 3 pi1) 0 env ns | None => Ok ([], env) end =
                      match els with Some ns => dt_render_nodes (fun q e2 m => dt_render_node gm mu fu q al2 e2 m) (dsub 3 pi2) 0 env ns | None => Ok ([], env) end).
      { destruct els; [apply Hrns; [exact Henv|apply Hels; reflexivity]|reflexivity]. }
      cbv zeta. destruct items as [[|it its]|]; try exact Hels'.
      apply dt_loop_indep.
      + intros p1 p2 en He. apply Hrns; assumption.
      + intros p en r He Hr. cbv beta in Hr. eapply Hrok; eassumption.
      + eapply dt_for_items_ok; eassumption.
      + exact Henv.
    - destruct n; simpl in Hm; try discriminate; reflexivity.
  Qed.

  Theorem dt_render_indep fu pi1 pi2 env ns : dt_env_ok st na env -> Forall (dt_nok gm) ns ->
    dt_render gm mu fu pi1 al1 env ns = dt_render gm mu fu pi2 al2 env ns.
  Proof.
    intros Henv Hns. unfold dt_render.
    apply dt_render_nodes_indep;
      [intros q1 q2 e2 m He2 Hm; apply dt_render_node_indep; assumption
      |intros q e2 m r He2 Hr; eapply dt_render_node_ok; eassumption
      |assumption|assumption].
  Qed.
End Nodes.

(* ================================================================== building the context *)
Fixpoint dt_vdepth (v : value) : nat :=
  match v with
  | VList _ xs => S (fold_right (fun x a => Nat.max (dt_vdepth x) a) 0 xs)
  | VMap _ m => S (fold_right (fun kv a => Nat.max (dt_vdepth (snd kv)) a) 0 m)
  | VStruct _ fs => S (fold_right (fun f a => Nat.max (dt_vdepth (snd f)) a) 0 fs)
  | VPtr (Some x) => S (dt_vdepth x)
  | _ => 0
  end.

Lemma dt_fold_max_in {A} (f : A -> nat) (l : list A) x : In x l -> f x <= fold_right (fun y a => Nat.max (f y) a) 0 l.
Proof.
  induction l as [|y r IH]; simpl; intro H; [destruct H|].
  destruct H as [H|H]; [subst; lia|]. specialize (IH H). lia.
Qed.

Definition dt_load_entry (kv : value * value) : value * value := (fst kv, dt_load (snd kv)).
Definition dt_load_field (f : bytes * value) : bytes * value := (fst f, dt_load (snd f)).

Lemma dt_load_entries_code (m : dentries) : map dcode (map dt_load_entry m) = map dcode m.
Proof. rewrite map_map. reflexivity. Qed.
Lemma dt_load_entries_kstr (m : dentries) : map dkstr (map dt_load_entry m) = map dkstr m.
Proof. rewrite map_map. reflexivity. Qed.

Lemma dt_load_map_eq t (m : dentries) : NoDup (map dcode m) ->
  dt_load (VMap t m) = VMap t (dt_canon (map dt_load_entry m)).
Proof.
  intro H. simpl. f_equal. f_equal.
  change (map (fun kv : value * value => (fst kv, dt_load (snd kv))) m) with (map dt_load_entry m).
  rewrite (dt_map_fill_fresh (map dt_load_entry m) []); [reflexivity|].
  simpl. rewrite dt_load_entries_code. exact H.
Qed.

Lemma dt_load_ok st na : forall n v, dt_vdepth v <= n -> dt_vok st na v -> dt_vok st na (dt_load v).
Proof.
  induction n as [|n IH]; intros v Hd Hv.
  - destruct v; simpl in Hd; try lia; try exact Hv. destruct v; [lia|exact Hv].
  - destruct v; try exact Hv.
    + (* list *) simpl. constructor. apply dt_vok_list_inv in Hv. apply Forall_forall. intros y Hy.
      apply in_map_iff in Hy. destruct Hy as [x [E Hx]]. subst y. rewrite Forall_forall in Hv.
      apply IH; [|apply Hv; exact Hx]. simpl in Hd. pose proof (dt_fold_max_in dt_vdepth xs x Hx). lia.
    + (* map *)
      pose proof (dt_vok_map_code _ _ _ _ Hv) as Hc. rewrite dt_load_map_eq by exact Hc.
      pose proof (dt_vok_map_strict _ _ _ _ Hv) as Hs.
      apply dt_vok_map_inv in Hv. destruct Hv as [H1 [H2 H3]].
      constructor.
      * change (fun kv : value * value => dt_key_code (fst kv)) with dcode.
        eapply Permutation_NoDup; [apply Permutation_map, Permutation_sym, dt_canon_perm|].
        rewrite dt_load_entries_code. exact H1.
      * intro Hst. change (fun kv : value * value => dt_keystr (fst kv)) with dkstr.
        eapply Permutation_NoDup; [apply Permutation_map, Permutation_sym, dt_canon_perm|].
        rewrite dt_load_entries_kstr. apply Hs. exact Hst.
      * apply dt_canon_Forall. apply Forall_forall. intros y Hy. apply in_map_iff in Hy. destruct Hy as [x [E Hx]]. subst y.
        rewrite Forall_forall in H2. simpl. apply H2. exact Hx.
      * apply dt_canon_Forall. apply Forall_forall. intros y Hy. apply in_map_iff in Hy. destruct Hy as [x [E Hx]]. subst y.
        rewrite Forall_forall in H3. simpl. apply IH; [|apply H3; exact Hx].
        simpl in Hd. pose proof (dt_fold_max_in (fun kv => dt_vdepth (snd kv)) kvs x Hx). simpl in H. lia.
    + (* struct *) simpl. constructor. inversion Hv as [| | | | | |ty' fs' Hf| | | | |]; subst.
      apply Forall_forall. intros y Hy. apply in_map_iff in Hy. destruct Hy as [x [E Hx]]. subst y. simpl.
      rewrite Forall_forall in Hf. apply IH; [|apply Hf; exact Hx].
      simpl in Hd. pose proof (dt_fold_max_in (fun f => dt_vdepth (snd f)) fields x Hx). simpl in H. lia.
    + (* pointer *) destruct v as [x|]; [|exact Hv]. simpl.
      assert (Hna : na = false) by (inversion Hv; assumption).
      assert (Hx : dt_vok st na x) by (inversion Hv; assumption).
      constructor; [exact Hna|]. apply IH; [simpl in Hd; lia|exact Hx].
Qed.

Lemma dt_load_env_ok st na (ctx : denv) : dt_env_ok st na ctx -> dt_env_ok st na (dt_load_env ctx).
Proof.
  unfold dt_env_ok, dt_load_env. intro H.
  eapply Forall_perm; [apply Permutation_sym, sp_isort_perm|].
  apply Forall_forall. intros y Hy. apply in_map_iff in Hy. destruct Hy as [x [E Hx]]. subst y. simpl.
  rewrite Forall_forall in H. eapply dt_load_ok; [apply le_n|apply H; exact Hx].
Qed.

Lemma dt_load_veq st na : forall n v v', dt_vdepth v <= n -> dt_vok st na v -> dt_veq v v' -> dt_load v = dt_load v'.
Proof.
  induction n as [|n IH]; intros v v' Hd Hv He.
  - inversion He; subst; try reflexivity; simpl in Hd; lia.
  - inversion He as [|t xs ys HF|t m m' m'' Hp HF|ty fs fs' HF|x x' Hx]; subst; try reflexivity.
    + (* list *) simpl. f_equal.
      apply dt_vok_list_inv in Hv. simpl in Hd.
      assert (G : forall l l', Forall2 dt_veq l l' -> (forall x, In x l -> In x xs) -> map dt_load l = map dt_load l').
      { induction 1 as [|a b l l' Hab Hl IHl]; intro Hsub; [reflexivity|]. simpl. f_equal.
        - apply IH; [|rewrite Forall_forall in Hv; apply Hv, Hsub; left; reflexivity|exact Hab].
          pose proof (dt_fold_max_in dt_vdepth xs a (Hsub a (or_introl eq_refl))). lia.
        - apply IHl. intros x Hx. apply Hsub. right. exact Hx. }
      apply G; [exact HF|auto].
    + (* map *)
      pose proof (dt_vok_map_code _ _ _ _ Hv) as Hc.
      apply dt_vok_map_inv in Hv. destruct Hv as [H1 [H2 H3]]. simpl in Hd.
      assert (G : forall l l', Forall2 (fun a b => fst a = fst b /\ dt_veq (snd a) (snd b)) l l' -> (forall x, In x l -> In x m) ->
                  map dt_load_entry l = map dt_load_entry l').
      { induction 1 as [|a b l l' [Hk Hab] Hl IHl]; intro Hsub; [reflexivity|]. simpl. f_equal.
        - unfold dt_load_entry. rewrite Hk. f_equal.
          apply IH; [|rewrite Forall_forall in H3; apply H3, Hsub; left; reflexivity|exact Hab].
          pose proof (dt_fold_max_in (fun kv => dt_vdepth (snd kv)) m a (Hsub a (or_introl eq_refl))). simpl in H. lia.
        - apply IHl. intros x Hx. apply Hsub. right. exact Hx. }
      assert (E : map dt_load_entry m'' = map dt_load_entry m').
      { apply G; [exact HF|]. intros x Hx. eapply Permutation_in; [apply Permutation_sym; exact Hp|exact Hx]. }
      simpl. f_equal.
      change (dt_canon (dt_map_fill (map dt_load_entry m) []) = dt_canon (dt_map_fill (map dt_load_entry m') [])).
      rewrite <- E. apply dt_canon_eq.
      * apply dt_map_fill_perm_es; [apply Permutation_map; exact Hp|rewrite dt_load_entries_code; exact Hc|constructor].
      * apply dt_map_fill_nodup. constructor.
    + (* struct *)
      simpl. f_equal. simpl in Hd.
      assert (Hf : Forall (fun f => dt_vok st na (snd f)) fs) by (inversion Hv; assumption).
      assert (G : forall l l', Forall2 (fun a b => fst a = fst b /\ dt_veq (snd a) (snd b)) l l' -> (forall x, In x l -> In x fs) ->
                  map dt_load_field l = map dt_load_field l').
      { induction 1 as [|a b l l' [Hk Hab] Hl IHl]; intro Hsub; [reflexivity|]. simpl. f_equal.
        - unfold dt_load_field. rewrite Hk. f_equal.
          apply IH; [|rewrite Forall_forall in Hf; apply Hf, Hsub; left; reflexivity|exact Hab].
          pose proof (dt_fold_max_in (fun f => dt_vdepth (snd f)) fs a (Hsub a (or_introl eq_refl))). simpl in H. lia.
        - apply IHl. intros x Hx. apply Hsub. right. exact Hx. }
      apply G; [exact HF|auto].
    + (* pointer *) simpl. f_equal. f_equal. apply IH; [simpl in Hd; lia|inversion Hv; assumption|exact Hx].
Qed.

Lemma dt_load_env_veq st na (ctx ctx' : denv) : dt_env_ok st na ctx -> NoDup (map fst ctx) -> dt_env_veq ctx ctx' ->
  dt_load_env ctx = dt_load_env ctx'.
Proof.
  intros Hok Hnd [ctx'' [Hp HF]]. unfold dt_load_env.
  change (fun f : bytes * value => (fst f, dt_load (snd f))) with dt_load_field.
  assert (E : map dt_load_field ctx'' = map dt_load_field ctx').
  { assert (Hok'' : dt_env_ok st na ctx'') by (eapply Forall_perm; [exact Hp|exact Hok]).
    clear Hp Hnd Hok. induction HF as [|a b l l' [Hk Hab] Hl IHl]; [reflexivity|].
    inversion Hok''; subst. simpl. f_equal; [|apply IHl; assumption].
    unfold dt_load_field. rewrite Hk. f_equal. eapply dt_load_veq; [apply le_n|eassumption|exact Hab]. }
  rewrite <- E. apply sort_by_key_canonical.
  - apply Permutation_map. exact Hp.
  - rewrite map_map. simpl. exact Hnd.
Qed.

(* ================================================================== the theorems of C03 about rendering *)
Lemma dt_render_ctx_indep gm mu st na al1 al2 : (na = false -> al1 = al2) -> (mu = true -> st = true) ->
  forall fu pi1 pi2 ctx ns, dt_env_ok st na ctx -> Forall (dt_nok gm) ns ->
  dt_render_ctx gm mu fu pi1 al1 ctx ns = dt_render_ctx gm mu fu pi2 al2 ctx ns.
Proof.
  intros Hal Hmu fu pi1 pi2 ctx ns Hc Hn. unfold dt_render_ctx.
  rewrite (dt_render_indep gm mu st na al1 al2 Hal Hmu fu pi1 pi2); [reflexivity| |exact Hn].
  apply dt_load_env_ok. exact Hc.
Qed.

Lemma C03_oracle_independent_proof : forall fu pi1 pi2 al ctx ns,
  dt_env_ok dt_merge_filter_unsorted false ctx -> Forall (dt_nok dt_hash_ranges_go_map) ns ->
  dt_render_now fu pi1 al ctx ns = dt_render_now fu pi2 al ctx ns.
Proof.
  intros. unfold dt_render_now.
  apply (dt_render_ctx_indep _ _ dt_merge_filter_unsorted false al al (fun _ => eq_refl) (fun H => H)); assumption.
Qed.

Lemma C03_address_independent_proof : forall fu pi1 pi2 al1 al2 ctx ns,
  dt_env_ok dt_merge_filter_unsorted true ctx -> Forall (dt_nok dt_hash_ranges_go_map) ns ->
  dt_render_now fu pi1 al1 ctx ns = dt_render_now fu pi2 al2 ctx ns.
Proof.
  intros. unfold dt_render_now.
  apply (dt_render_ctx_indep _ _ dt_merge_filter_unsorted true al1 al2 (fun Hf => False_ind _ (Bool.diff_true_false Hf)) (fun H => H)); assumption.
Qed.

Lemma C03_insertion_order_independent_proof : forall fu pi al ctx ctx' ns,
  dt_env_ok dt_merge_filter_unsorted false ctx -> NoDup (map fst ctx) -> dt_env_veq ctx ctx' ->
  dt_render_now fu pi al ctx ns = dt_render_now fu pi al ctx' ns.
Proof.
  intros fu pi al ctx ctx' ns Hc Hnd Hv. unfold dt_render_now, dt_render_ctx.
  rewrite (dt_load_env_veq _ false ctx ctx' Hc Hnd Hv). reflexivity.
Qed.

(* every oracle code is a real iteration order and every iteration order has a code *)
Lemma C03_oracle_covers_all_orders_proof : forall (m : dentries),
  (forall p, Permutation (iter_map p m) m) /\ (forall m', Permutation m m' -> exists p, iter_map p m = m').
Proof.
  intro m. split; [intro p; apply apply_perm_Permutation|intros m' H; apply apply_perm_complete; exact H].
Qed.

(* sortedMapKeys with its tie-break: one order for every map whose keys are ints and strings *)
Lemma C03_sorted_keys_canonical_proof : forall p1 p2 (m : dentries),
  Forall (fun kv => dt_is_key (fst kv) = true) m -> NoDup (map (fun kv => dt_key_code (fst kv)) m) ->
  dt_sorted_entries p1 m = dt_sorted_entries p2 m.
Proof. intros. apply dt_sorted_entries_indep; assumption. Qed.

(* with gm = false the side condition on templates is empty: it holds of every expression and node *)
Fixpoint dt_eok_false_all (e : expr) : dt_eok false e.
Proof.
  destruct e.
  - apply eok_lit.
  - apply eok_var.
  - apply eok_attr. apply dt_eok_false_all.
  - apply eok_item; apply dt_eok_false_all.
  - apply eok_un.
  - apply eok_bin.
  - apply eok_cond.
  - apply eok_arr. induction es as [|x r IH]; constructor; [apply dt_eok_false_all|exact IH].
  - apply eok_hash; [intro H; discriminate|].
    induction kvs as [|[k v] r IH]; constructor; [split; apply dt_eok_false_all|exact IH].
  - apply eok_filter; [apply dt_eok_false_all|]. induction args as [|x r IH]; constructor; [apply dt_eok_false_all|exact IH].
  - apply eok_call. induction args as [|x r IH]; constructor; [apply dt_eok_false_all|exact IH].
  - apply eok_modcall.
  - apply eok_test.
Defined.
Fixpoint dt_nok_false_all (n : node) : dt_nok false n.
Proof.
  destruct n; try (apply nok_other; reflexivity).
  - apply nok_text.
  - apply nok_print. apply dt_eok_false_all.
  - apply nok_if.
    + induction branches as [|[c body] r IH]; constructor; [|exact IH]. split; [apply dt_eok_false_all|].
      simpl. induction body as [|x b IHb]; constructor; [apply dt_nok_false_all|exact IHb].
    + destruct els as [l|]; intros ns H; [|discriminate]. assert (E : ns = l) by congruence. subst ns. clear H.
      induction l as [|x b IHb]; constructor; [apply dt_nok_false_all|exact IHb].
  - apply nok_for; [apply dt_eok_false_all| |].
    + induction body as [|x b IHb]; constructor; [apply dt_nok_false_all|exact IHb].
    + destruct els as [l|]; intros ns H; [|discriminate]. assert (E : ns = l) by congruence. subst ns. clear H.
      induction l as [|x b IHb]; constructor; [apply dt_nok_false_all|exact IHb].
  - apply nok_set. apply dt_eok_false_all.
Defined.

Lemma C03_oracle_independent_all_sorted_proof : forall fu pi1 pi2 al ctx ns,
  dt_env_ok false false ctx ->
  dt_render_ctx false false fu pi1 al ctx ns = dt_render_ctx false false fu pi2 al ctx ns.
Proof.
  intros fu pi1 pi2 al ctx ns Hc.
  apply (dt_render_ctx_indep false false false false al al (fun _ => eq_refl) (fun H => H)); [exact Hc|].
  apply Forall_forall. intros n _. apply dt_nok_false_all.
Qed.

(* ================================================================== what is order- or address-dependent: witnesses *)
Definition dt_al0 : daddr := fun _ => b#"c000012345".
Definition dt_al1 : daddr := fun _ => b#"c000067890".

(* were the pairs of a hash literal ranged in the order of a Go map again (gm = true):
   {{ {'a': 1, 'a': 2}|first }} would keep the pair visited last *)
Definition dt_w_hash_dup : list node :=
  [NPrint (EFilter (EHash [(ELit (LStr b#"a"), ELit (LInt 1)); (ELit (LStr b#"a"), ELit (LInt 2))]) b#"first" [])].

Lemma C03_hash_map_order_refuted_proof : forall mu,
  dt_render_ctx true mu 10 (dt_const_oracle [0; 0]) dt_al0 [] dt_w_hash_dup = Ok b#"2" /\
  dt_render_ctx true mu 10 (dt_const_oracle [1; 0]) dt_al0 [] dt_w_hash_dup = Ok b#"1" /\
  dt_render_ctx false mu 10 (dt_const_oracle [1; 0]) dt_al0 [] dt_w_hash_dup = Ok b#"2".
Proof. intros [|]; repeat split; vm_compute; reflexivity. Qed.

(* a map[interface{}]interface{} holding the int 1 and the string 1 *)
Definition dt_w_collide_ctx : denv :=
  [(b#"m", VMap MAny [(VInt 1, VStr b#"int"); (VStr b#"1", VStr b#"str"); (VInt 2, VStr b#"two")])].
Definition dt_w_collide_for : list node :=
  [NFor (Some b#"k") b#"v" (EVar b#"m") [NPrint (EVar b#"k"); NText b#"="; NPrint (EVar b#"v"); NText b#";"] None].
(* {{ m|merge|first }} : filterMerge stores every entry under the string form of its key, in the order of MapKeys() *)
Definition dt_w_collide_merge : list node :=
  [NPrint (EFilter (EFilter (EVar b#"m") b#"merge" []) b#"first" [])].

Lemma C03_merge_filter_collision_refuted_proof : forall gm,
  dt_render_ctx gm true 10 (dt_const_oracle [0; 0; 0]) dt_al0 dt_w_collide_ctx dt_w_collide_merge = Ok b#"str" /\
  dt_render_ctx gm true 10 (dt_const_oracle [2; 0; 0]) dt_al0 dt_w_collide_ctx dt_w_collide_merge = Ok b#"int" /\
  dt_render_ctx gm false 10 (dt_const_oracle [0; 0; 0]) dt_al0 dt_w_collide_ctx dt_w_collide_merge = Ok b#"str" /\
  dt_render_ctx gm false 10 (dt_const_oracle [2; 0; 0]) dt_al0 dt_w_collide_ctx dt_w_collide_merge = Ok b#"str".
Proof. intros [|]; repeat split; vm_compute; reflexivity. Qed.

(* {{ s }} for a struct with a pointer field: fmt prints the address *)
Definition dt_w_nested_ptr : denv :=
  [(b#"s", VStruct 1 [(b#"N", VStr b#"name"); (b#"P", VPtr (Some (VInt 7)))])].

Lemma C03_nested_pointer_refuted_proof : forall gm mu,
  dt_render_ctx gm mu 10 (dt_const_oracle []) dt_al0 dt_w_nested_ptr [NPrint (EVar b#"s")] = Ok b#"{name 0xc000012345}" /\
  dt_render_ctx gm mu 10 (dt_const_oracle []) dt_al1 dt_w_nested_ptr [NPrint (EVar b#"s")] = Ok b#"{name 0xc000067890}" /\
  dt_render_ctx gm mu 10 (dt_const_oracle []) dt_al0 [(b#"p", VPtr (Some (VInt 5))); (b#"f", VOpaque 1)] [NPrint (EVar b#"p"); NPrint (EVar b#"f")] = Ok b#"5".
Proof. intros [|] [|]; repeat split; vm_compute; reflexivity. Qed.

(* the collision map is inside the side condition without st, outside with it *)
Lemma dt_w_collide_ok : dt_env_ok false false dt_w_collide_ctx /\ ~ dt_env_ok true false dt_w_collide_ctx.
Proof.
  split.
  - constructor; [|constructor]. simpl. constructor.
    + vm_compute. repeat constructor; simpl; intuition discriminate.
    + intro H. discriminate.
    + repeat constructor.
    + repeat constructor.
  - intro H. inversion H as [|x xs Hm _]; subst. simpl in Hm.
    pose proof (dt_vok_map_strict _ _ _ _ Hm eq_refl) as Hnd.
    vm_compute in Hnd. inversion Hnd as [|a l Hnin _]; subst. apply Hnin. left. reflexivity.
Qed.

(* ================================================================== date format conversion *)
Lemma date_conv_with_app tbl (a b : bytes) : date_conv_with tbl (a ++ b) = date_conv_with tbl a ++ date_conv_with tbl b.
Proof.
  induction a as [|c a IH]; simpl; [reflexivity|].
  destruct (date_lookup tbl c); rewrite IH; [rewrite app_assoc|]; reflexivity.
Qed.

Lemma C03_date_homomorphism_proof : forall a b c,
  date_conv (a ++ b) = date_conv a ++ date_conv b /\
  date_conv [c] = match date_lookup date_table_raw c with Some g => g | None => [c] end.
Proof.
  intros a b c. split; [apply date_conv_with_app|].
  unfold date_conv. simpl. destruct (date_lookup date_table_raw c); [apply app_nil_r|reflexivity].
Qed.

Definition date_table_functional (tbl : list (bytes * bytes)) : Prop :=
  forall k v v', In (k, v) tbl -> In (k, v') tbl -> v = v'.

Lemma date_table_functionalb_spec tbl : date_table_functionalb tbl = true -> date_table_functional tbl.
Proof.
  induction tbl as [|[k0 v0] r IH]; simpl; intros H k v v' H1 H2; [destruct H1|].
  apply andb_true_iff in H. destruct H as [Hf Hr]. rewrite forallb_forall in Hf.
  assert (G : forall w, In (k0, w) r -> w = v0).
  { intros w Hw. specialize (Hf _ Hw). simpl in Hf. rewrite bytes_eqb_refl in Hf. simpl in Hf. apply bytes_eqb_eq in Hf. exact Hf. }
  destruct H1 as [H1|H1], H2 as [H2|H2].
  - congruence.
  - inversion H1; subst. symmetry. apply G. exact H2.
  - inversion H2; subst. apply G. exact H1.
  - eapply IH; eassumption.
Qed.

Lemma C03_date_table_functional_proof :
  date_table_functional date_table_raw /\ date_keys_one_byte = true /\ date_single_pass = true /\ date_copies_other_bytes = true.
Proof. split; [apply date_table_functionalb_spec; vm_compute; reflexivity|repeat split; vm_compute; reflexivity]. Qed.

Lemma assoc_bytes_in {A} (l : list (bytes * A)) k v : assoc_bytes l k = Some v -> In (k, v) l.
Proof.
  induction l as [|[k' v'] r IH]; simpl; intro H; [discriminate|].
  destruct (bytes_eqb k' k) eqn:E.
  - apply bytes_eqb_eq in E. inversion H; subst. left. reflexivity.
  - right. apply IH. exact H.
Qed.

Lemma assoc_bytes_none {A} (l : list (bytes * A)) k : assoc_bytes l k = None -> forall v, ~ In (k, v) l.
Proof.
  induction l as [|[k' v'] r IH]; simpl; intros H v Hin; [exact Hin|].
  destruct (bytes_eqb k' k) eqn:E; [discriminate|].
  destruct Hin as [Hin|Hin]; [inversion Hin; subst; rewrite bytes_eqb_refl in E; discriminate|eapply IH; eassumption].
Qed.

(* the lookup of one letter does not depend on the order in which the table is stored or iterated *)
Lemma date_lookup_perm tbl tbl' c : Permutation tbl tbl' -> date_table_functional tbl -> date_lookup tbl c = date_lookup tbl' c.
Proof.
  intros Hp Hf. unfold date_lookup.
  destruct (assoc_bytes tbl [c]) as [g|] eqn:E1, (assoc_bytes tbl' [c]) as [g'|] eqn:E2; try reflexivity.
  - f_equal. apply assoc_bytes_in in E1. apply assoc_bytes_in in E2.
    eapply Hf; [exact E1|]. eapply Permutation_in; [apply Permutation_sym; exact Hp|exact E2].
  - exfalso. apply assoc_bytes_in in E1. eapply assoc_bytes_none; [exact E2|]. eapply Permutation_in; eassumption.
  - exfalso. apply assoc_bytes_in in E2. eapply assoc_bytes_none; [exact E1|]. eapply Permutation_in; [apply Permutation_sym; exact Hp|exact E2].
Qed.

Lemma C03_date_order_independent_proof : forall p s,
  date_conv_with (apply_perm p date_table_raw) s = date_conv s.
Proof.
  intros p s. unfold date_conv. induction s as [|c r IH]; simpl; [reflexivity|].
  rewrite (date_lookup_perm (apply_perm p date_table_raw) date_table_raw c).
  - rewrite IH. reflexivity.
  - apply apply_perm_Permutation.
  - intros k v v' H1 H2. destruct C03_date_table_functional_proof as [Hf _].
    eapply Hf; eapply Permutation_in; try apply apply_perm_Permutation; eassumption.
Qed.
