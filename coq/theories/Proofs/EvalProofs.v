(* Proofs about the evaluator model (Model/Eval.v) and of property C09 (Spec/ControlSpec.v).
   Part 1: algebra of the sequencing combinators; extensionality of every node helper in the renderers it is
           handed (reusable by every property built on Eval.v: render_node_ext, ev_root_ext).
   Part 2: C09. *)
From Twig Require Import Base.Bytes Base.Utf8 Model.Ast Model.Value Model.ValueOps Model.EvalBuiltins Model.Ctx
                         Model.TemplateSet Model.Eval Spec.ControlSpec Gen.EvalShape.
From Coq Require Import ZifyBool ZifyNat ZifyN.

(* ================================================================ Part 1 *)

Lemma ev_rseq_ext (r : ev_rres) (k1 k2 : rctx -> ev_rres) :
  (forall c, k1 c = k2 c) -> ev_rseq r k1 = ev_rseq r k2.
Proof. intro H. destruct r as [[o c] t]. destruct o; cbn [ev_rseq]; try reflexivity. rewrite H. reflexivity. Qed.

Lemma ev_rexpr_ext {A} (r : outcome A * ev_trace) (c : rctx) (k1 k2 : A -> ev_rres) :
  (forall a, k1 a = k2 a) -> ev_rexpr r c k1 = ev_rexpr r c k2.
Proof. intro H. destruct r as [o t]. destruct o; cbn [ev_rexpr]; try reflexivity. rewrite H. reflexivity. Qed.

Lemma ev_bind_ext {A B} (r : outcome A * ev_trace) (k1 k2 : A -> outcome B * ev_trace) :
  (forall a, k1 a = k2 a) -> ev_bind r k1 = ev_bind r k2.
Proof. intro H. destruct r as [o t]. destruct o; cbn [ev_bind]; try reflexivity. rewrite H. reflexivity. Qed.

Lemma ev_rseq_ret_l (c : rctx) (k : rctx -> ev_rres) : ev_rseq (ev_rret [] c) k = k c.
Proof.
  unfold ev_rret. cbn [ev_rseq]. destruct (k c) as [[o c2] t2]. destruct o; reflexivity.
Qed.

Lemma ev_rseq_ret_r (r : ev_rres) : ev_rseq r (fun c => ev_rret [] c) = r.
Proof.
  destruct r as [[o c] t]. destruct o; cbn [ev_rseq ev_rret]; try reflexivity.
  rewrite !app_nil_r. reflexivity.
Qed.

Lemma ev_rseq_assoc (r : ev_rres) (k1 k2 : rctx -> ev_rres) :
  ev_rseq (ev_rseq r k1) k2 = ev_rseq r (fun c => ev_rseq (k1 c) k2).
Proof.
  destruct r as [[o c] t]. destruct o; cbn [ev_rseq]; try reflexivity.
  destruct (k1 c) as [[o1 c1] t1]. destruct o1; cbn [ev_rseq]; try reflexivity.
  destruct (k2 c1) as [[o2 c2] t2]. destruct o2; rewrite ?app_assoc; reflexivity.
Qed.

(* ---- extensionality of the helpers in the renderers they are given *)
Section Ext.
  Variables rend1 rend2 root1 root2 : rctx -> list node -> ev_rres.
  Hypothesis Hrend : forall c ns, rend1 c ns = rend2 c ns.
  Hypothesis Hroot : forall c ns, root1 c ns = root2 c ns.
  Variable ev : rctx -> expr -> ev_res.
  Variable env : ev_env.

  Lemma ev_if_ext c bs els : ev_if ev rend1 c bs els = ev_if ev rend2 c bs els.
  Proof.
    induction bs as [|[cond body] rest IH]; cbn [ev_if].
    - destruct els; [apply Hrend|reflexivity].
    - apply ev_rexpr_ext. intro v. rewrite Hrend, IH. reflexivity.
  Qed.

  Lemma ev_loop_items_ext (b1 b2 : rctx -> ev_rres) k v n :
    (forall c, b1 c = b2 c) ->
    forall items i c, ev_loop_items b1 k v n i items c = ev_loop_items b2 k v n i items c.
  Proof.
    intro Hb. induction items as [|it rest IH]; intros i c; cbn [ev_loop_items]; [reflexivity|].
    rewrite Hb. apply ev_rseq_ext. intro c1. apply IH.
  Qed.

  Lemma ev_for_loop_ext c k v seq body els :
    ev_for_loop rend1 c k v seq body els = ev_for_loop rend2 c k v seq body els.
  Proof.
    unfold ev_for_loop. destruct (ev_loop_items_of seq) as [[|it items]|].
    - destruct els; [apply Hrend|reflexivity].
    - rewrite (ev_loop_items_ext (fun c0 => rend1 c0 body) (fun c0 => rend2 c0 body)); [reflexivity|].
      intro c0. apply Hrend.
    - destruct els; [apply Hrend|reflexivity].
  Qed.

  Lemma ev_for_ext c k v seq body els :
    ev_for ev rend1 env c k v seq body els = ev_for ev rend2 env c k v seq body els.
  Proof. unfold ev_for. apply ev_rexpr_ext. intro sv. apply ev_for_loop_ext. Qed.

  Lemma ev_call_macro_ext c tpl name args :
    ev_call_macro ev rend1 env c tpl name args = ev_call_macro ev rend2 env c tpl name args.
  Proof.
    unfold ev_call_macro. destruct (ts_find_macro env tpl name) as [[params body]|]; [|reflexivity].
    destruct (existsb vo_has_callable args || negb (ev_macro_body_plain body)); [reflexivity|].
    apply ev_bind_ext. intro mc. rewrite Hrend. reflexivity.
  Qed.

  Lemma ev_parent_call_ext c : ev_parent_call rend1 c = ev_parent_call rend2 c.
  Proof.
    unfold ev_parent_call. destruct (rc_cur_block c); [|reflexivity].
    destruct (nth_error (rc_cur_defs c) (S (rc_depth c))); [|reflexivity].
    rewrite Hrend. reflexivity.
  Qed.

  Lemma ev_print_ext c e : ev_print ev rend1 env c e = ev_print ev rend2 env c e.
  Proof.
    unfold ev_print. apply ev_rexpr_ext. intro v.
    destruct (vo_view v); try reflexivity.
    - rewrite ev_call_macro_ext. reflexivity.
    - apply ev_parent_call_ext.
  Qed.

  Lemma ev_block_ext c name body : ev_block rend1 c name body = ev_block rend2 c name body.
  Proof.
    unfold ev_block.
    destruct (if existsb _ _ then _ else _) as [|d ds]; [reflexivity|].
    rewrite Hrend. reflexivity.
  Qed.

  Lemma ev_extends_ext c e : ev_extends ev root1 env c e = ev_extends ev root2 env c e.
  Proof.
    unfold ev_extends. apply ev_rexpr_ext. intros [name [pnodes|]]; cbn [fst snd]; [|reflexivity].
    rewrite Hroot. reflexivity.
  Qed.

  Lemma ev_include_ext c e withs ign only sb :
    ev_include ev root1 env c e withs ign only sb = ev_include ev root2 env c e withs ign only sb.
  Proof.
    unfold ev_include. apply ev_rexpr_ext. intros [name [inodes|]]; cbn [fst snd]; [|reflexivity].
    destruct (match withs with None => _ | Some _ => _ end) as [kvs|]; [|reflexivity].
    destruct (negb only && negb sb).
    - apply ev_rexpr_ext. intro ic. rewrite Hroot. reflexivity.
    - destruct (sb && _); [reflexivity|].
      apply ev_rexpr_ext. intro ic. rewrite Hroot. reflexivity.
  Qed.

  Lemma ev_import_macros_ext c e : ev_import_macros ev root1 env c e = ev_import_macros ev root2 env c e.
  Proof.
    unfold ev_import_macros. destruct (ev_load ev env c e) as [[[name [inodes|]]| | |] t]; try reflexivity.
    rewrite Hroot. reflexivity.
  Qed.

  Lemma ev_import_ext c e alias : ev_import ev root1 env c e alias = ev_import ev root2 env c e alias.
  Proof. unfold ev_import. rewrite ev_import_macros_ext. reflexivity. Qed.

  Lemma ev_from_ext c e names : ev_from ev root1 env c e names = ev_from ev root2 env c e names.
  Proof. unfold ev_from. rewrite ev_import_macros_ext. reflexivity. Qed.

  Lemma ev_apply_ext c f args body : ev_apply ev rend1 env c f args body = ev_apply ev rend2 env c f args body.
  Proof. unfold ev_apply. rewrite Hrend. reflexivity. Qed.

  Lemma ev_spaceless_ext c body : ev_spaceless rend1 env c body = ev_spaceless rend2 env c body.
  Proof. unfold ev_spaceless. rewrite Hrend. reflexivity. Qed.

  (* every node: the renderer depends on its two function arguments only through their values *)
  Lemma render_node_ext c n : render_node ev rend1 root1 env c n = render_node ev rend2 root2 env c n.
  Proof.
    destruct n; cbn [render_node]; try reflexivity.
    - apply ev_print_ext.
    - apply ev_if_ext.
    - apply ev_for_ext.
    - apply ev_block_ext.
    - apply ev_extends_ext.
    - apply ev_include_ext.
    - apply ev_import_ext.
    - apply ev_from_ext.
    - apply ev_apply_ext.
    - apply ev_spaceless_ext.
  Qed.

  Lemma ev_root_ext c ns : ev_root ev rend1 root1 env c ns = ev_root ev rend2 root2 env c ns.
  Proof.
    unfold ev_root. destruct (negb (ts_wf ns)); [reflexivity|].
    destruct (ev_first_pass ns (rc_extending c) (rc_blocks c) None) as [blocks [e|]].
    - apply ev_extends_ext.
    - apply Hrend.
  Qed.
End Ext.

(* ================================================================ Part 2: C09 *)
Local Opaque evs_tobool_float_by_value.

(* ---------------------------------------------------------------- truthiness *)
Lemma c9_as_float_VFloat z : c9_as_float (VFloat z) = Some z.
Proof. reflexivity. Qed.

(* the engine's toBool agrees with the table on every value except a float64 zero *)
Lemma C09_truthiness_except_float_zero_proof : forall v, c9_float_zero v = false -> vo_to_bool v = c9_truthy v.
Proof.
  intros v H. destruct v as [|b|z|s|t xs|t kvs|ty fs|p|tp nm|tp|id]; try reflexivity.
  unfold vo_to_bool, vo_view, c9_truthy, c9_float_zero, c9_as_float in *.
  destruct (Nat.eqb ty vo_float_ty) eqn:E.
  - destruct fs as [|[k x] [|p r]]; try reflexivity; destruct x; try reflexivity.
    all: rewrite H; destruct evs_tobool_float_by_value; reflexivity.
  - destruct (Nat.eqb ty vo_call_ty).
    + destruct fs as [|[k x] [|[k2 x2] [|p r]]]; try reflexivity; destruct x; try reflexivity;
        try (destruct x2; reflexivity).
    + destruct (Nat.eqb ty vo_parent_ty);
        destruct fs as [|[k x] [|p r]]; try reflexivity; destruct x; reflexivity.
Qed.

Lemma c9_float_zero_inv v : c9_float_zero v = true -> exists k, v = VStruct vo_float_ty [(k, VInt 0)].
Proof.
  unfold c9_float_zero, c9_as_float. intro H.
  destruct v as [|b|z|s|t xs|t kvs|ty fs|p|tp nm|tp|id]; try discriminate.
  destruct fs as [|[k x] [|p r]]; try discriminate; destruct x; try discriminate.
  destruct (Nat.eqb ty vo_float_ty) eqn:E; [|discriminate].
  apply Nat.eqb_eq in E. subst ty. apply Z.eqb_eq in H. subst z. exists k. reflexivity.
Qed.

(* the whole table, or the witness against it, according to what toBool does with a float64 today *)
Lemma C09_truthiness_table_proof :
  if evs_tobool_float_by_value
  then forall v, vo_to_bool v = c9_truthy v
  else vo_to_bool (VFloat 0) = true /\ c9_truthy (VFloat 0) = false.
Proof.
  destruct evs_tobool_float_by_value eqn:E.
  - intro v. destruct (c9_float_zero v) eqn:Z0.
    + apply c9_float_zero_inv in Z0. destruct Z0 as [k ->].
      unfold vo_to_bool. cbn. rewrite E. reflexivity.
    + apply C09_truthiness_except_float_zero_proof. exact Z0.
  - split; [|reflexivity]. unfold vo_to_bool. cbn. rewrite E. reflexivity.
Qed.

(* the rows of the table, spelled out *)
Lemma C09_falsy_values_proof :
  c9_truthy VNull = false /\ c9_truthy (VBool false) = false /\ c9_truthy (VInt 0) = false /\
  c9_truthy (VFloat 0) = false /\ c9_truthy (VStr []) = false /\
  (forall t, c9_truthy (VList t []) = false) /\ (forall t, c9_truthy (VMap t []) = false).
Proof. repeat split; reflexivity. Qed.

Lemma C09_truthy_values_proof : forall v,
  v <> VNull -> v <> VBool false -> v <> VInt 0 -> c9_as_float v <> Some 0%Z -> v <> VStr [] ->
  (forall t, v <> VList t []) -> (forall t, v <> VMap t []) -> c9_truthy v = true.
Proof.
  intros v H1 H2 H3 H4 H5 H6 H7.
  destruct v as [|b|z|s|t xs|t kvs|ty fs|p|tp nm|tp|id]; try reflexivity; try congruence.
  - destruct b; [reflexivity|exfalso; apply H2; reflexivity].
  - cbn. destruct (Z.eqb_spec z 0); [subst; congruence|reflexivity].
  - destruct s; [congruence|reflexivity].
  - destruct xs; [exfalso; eapply H6; reflexivity|reflexivity].
  - destruct kvs; [exfalso; eapply H7; reflexivity|reflexivity].
  - unfold c9_truthy. destruct (c9_as_float (VStruct ty fs)) as [z|] eqn:E; [|reflexivity].
    destruct (Z.eqb_spec z 0); [subst; congruence|reflexivity].
Qed.

(* ---------------------------------------------------------------- if *)
Lemma c9_add_trace_nil r : c9_add_trace [] r = r.
Proof. destruct r as [[o c] t]. reflexivity. Qed.
Lemma c9_add_trace_app t1 t2 r : c9_add_trace t1 (c9_add_trace t2 r) = c9_add_trace (t1 ++ t2) r.
Proof. destruct r as [[o c] t]. cbn. rewrite app_assoc. reflexivity. Qed.

Lemma ev_rexpr_ok {A} (a : A) (t : ev_trace) (c : rctx) (k : A -> ev_rres) :
  ev_rexpr (Ok a, t) c k = c9_add_trace t (k a).
Proof. cbn. destruct (k a) as [[o c2] t2]. reflexivity. Qed.

Lemma ev_if_is_spec ev rend c bs els : ev_if ev rend c bs els = c9_if vo_to_bool ev rend c bs els.
Proof.
  induction bs as [|[cond body] rest IH]; cbn [ev_if c9_if]; [reflexivity|].
  apply ev_rexpr_ext. intro v. rewrite IH. reflexivity.
Qed.

(* exactly one branch: the first whose condition is truthy; the conditions behind it are not evaluated *)
Lemma c9_if_first_truthy tb ev rend c pre cond body post els vts v t :
  c9_falsy_prefix tb ev c pre vts -> ev c cond = (Ok v, t) -> tb v = true ->
  c9_if tb ev rend c (pre ++ (cond, body) :: post) els = c9_add_trace (concat (map snd vts) ++ t) (rend c body).
Proof.
  intros Hpre Hc Ht. induction Hpre as [|[c0 b0] [v0 t0] pre' vts' [He Hf] _ IH]; cbn [app c9_if concat map].
  - rewrite Hc, ev_rexpr_ok, Ht. reflexivity.
  - cbn [fst snd] in *. rewrite He, ev_rexpr_ok, Hf, IH, c9_add_trace_app, app_assoc. reflexivity.
Qed.

Lemma c9_if_all_falsy tb ev rend c bs els vts :
  c9_falsy_prefix tb ev c bs vts ->
  c9_if tb ev rend c bs els =
  c9_add_trace (concat (map snd vts)) (match els with Some b => rend c b | None => ev_rret [] c end).
Proof.
  intros Hpre. induction Hpre as [|[c0 b0] [v0 t0] pre' vts' [He Hf] _ IH]; cbn [c9_if concat map].
  - rewrite c9_add_trace_nil. reflexivity.
  - cbn [fst snd] in *. rewrite He, ev_rexpr_ok, Hf, IH, c9_add_trace_app. reflexivity.
Qed.

(* a failing condition ends the chain with its error: nothing behind it runs *)
Lemma c9_if_condition_fails tb ev rend c pre cond body post els vts o t :
  c9_falsy_prefix tb ev c pre vts -> ev c cond = (o, t) -> (forall v, o <> Ok v) ->
  c9_if tb ev rend c (pre ++ (cond, body) :: post) els = (ev_cast o Unmodelled, c, concat (map snd vts) ++ t).
Proof.
  intros Hpre Hc Ho. induction Hpre as [|[c0 b0] [v0 t0] pre' vts' [He Hf] _ IH]; cbn [app c9_if concat map].
  - rewrite Hc. destruct o; try reflexivity. exfalso. eapply Ho. reflexivity.
  - cbn [fst snd] in *. rewrite He, ev_rexpr_ok, Hf, IH. cbn. rewrite app_assoc. reflexivity.
Qed.

(* ---------------------------------------------------------------- for *)
Lemma c9_zseq_length start n : length (c9_zseq start n) = n.
Proof. revert start; induction n; intro; cbn; [reflexivity|rewrite IHn; reflexivity]. Qed.

Lemma ev_indexed_numbered : forall xs i, ev_indexed i xs = combine (map VInt (c9_zseq i (length xs))) xs.
Proof. induction xs as [|x r IH]; intro i; cbn; [reflexivity|]. rewrite IH. reflexivity. Qed.

(* what the model iterates over is what the specification says *)
Lemma ev_items_is_spec seq : match ev_loop_items_of seq with Some l => l | None => [] end = c9_items seq.
Proof.
  unfold ev_loop_items_of. destruct seq as [|b|z|s|t xs|t kvs|ty fs|p|tp nm|tp|id]; try reflexivity.
  - cbn. apply ev_indexed_numbered.
  - cbn. apply ev_indexed_numbered.
  - unfold vo_view. destruct (Nat.eqb ty vo_float_ty).
    { destruct fs as [|[k x] [|p r]]; try reflexivity; destruct x; reflexivity. }
    destruct (Nat.eqb ty vo_call_ty).
    { destruct fs as [|[k x] [|[k2 x2] [|p r]]]; try reflexivity; destruct x; try reflexivity;
        destruct x2; reflexivity. }
    destruct (Nat.eqb ty vo_parent_ty); reflexivity.
Qed.

(* the threaded loop is the left fold over the numbered elements *)
Lemma ev_loop_fold body k v n : forall items i acc,
  ev_rseq acc (ev_loop_items body k v n i items) =
  fold_left (c9_step body k v n) (combine (c9_zseq i (length items)) items) acc.
Proof.
  induction items as [|it rest IH]; intros i acc; cbn [ev_loop_items length c9_zseq combine fold_left].
  - change (fun c => ev_rret [] c) with (fun c : rctx => ev_rret [] c). apply ev_rseq_ret_r.
  - rewrite <- IH. unfold c9_step at 1. cbn [fst snd]. rewrite ev_rseq_assoc. reflexivity.
Qed.

Lemma ev_loop_is_spec body k v items c :
  ev_loop_items body k v (Z.of_nat (length items)) 0 items c = c9_loop body k v items c.
Proof. unfold c9_loop. rewrite <- ev_loop_fold, ev_rseq_ret_l. reflexivity. Qed.

Lemma ev_for_loop_is_spec rend c k v seq body els :
  ev_for_loop rend c k v seq body els = c9_for_loop rend c k v seq body els.
Proof.
  unfold ev_for_loop, c9_for_loop. rewrite <- ev_items_is_spec.
  destruct (ev_loop_items_of seq) as [[|it items]|]; try reflexivity.
  rewrite ev_loop_is_spec. reflexivity.
Qed.

(* ---------------------------------------------------------------- the refinement *)
Lemma render_node_is_spec ev rend root env c n :
  render_node ev rend root env c n = c9_node vo_to_bool ev rend root env c n.
Proof.
  destruct n; cbn [render_node c9_node]; try reflexivity.
  - apply ev_if_is_spec.
  - unfold ev_for, c9_for. apply ev_rexpr_ext. intro sv. apply ev_for_loop_is_spec.
Qed.

Lemma C09_refines_spec_both : forall fuel,
  (forall env c ns, render fuel env c ns = c9_render vo_to_bool fuel env c ns) /\
  (forall env c ns, render_root fuel env c ns = c9_render_root vo_to_bool fuel env c ns).
Proof.
  induction fuel as [|fu [IHr IHt]]; split; intros env c ns; try reflexivity.
  - destruct ns as [|n rest]; [reflexivity|]. cbn [render c9_render].
    rewrite (render_node_ext (render fu env) (c9_render vo_to_bool fu env)
                             (render_root fu env) (c9_render_root vo_to_bool fu env)
                             (IHr env) (IHt env)).
    rewrite render_node_is_spec. apply ev_rseq_ext. intro c1. apply IHr.
  - cbn [render_root c9_render_root]. apply ev_root_ext; [apply IHr|apply IHt].
Qed.

Lemma C09_refines_spec_proof : forall fuel env c ns,
  render fuel env c ns = c9_render vo_to_bool fuel env c ns.
Proof. intros. apply C09_refines_spec_both. Qed.

Lemma C09_refines_spec_root_proof : forall fuel env c ns,
  render_root fuel env c ns = c9_render_root vo_to_bool fuel env c ns.
Proof. intros. apply C09_refines_spec_both. Qed.

Lemma C09_refines_spec_template_proof : forall fuel env name vars,
  render_template fuel env name vars = c9_render_template vo_to_bool fuel env name vars.
Proof.
  intros. unfold render_template, c9_render_template. destruct (ts_lookup env name); [|reflexivity].
  rewrite C09_refines_spec_root_proof. reflexivity.
Qed.

(* the specification depends on the truthiness function only through its values *)
Lemma c9_if_tb_ext tb1 tb2 ev rend1 rend2 c bs els :
  (forall v, tb1 v = tb2 v) -> (forall c ns, rend1 c ns = rend2 c ns) ->
  c9_if tb1 ev rend1 c bs els = c9_if tb2 ev rend2 c bs els.
Proof.
  intros Htb Hr. induction bs as [|[cond body] rest IH]; cbn [c9_if].
  - destruct els; [apply Hr|reflexivity].
  - apply ev_rexpr_ext. intro v. rewrite Htb, Hr, IH. reflexivity.
Qed.

Lemma c9_loop_ext (b1 b2 : rctx -> ev_rres) k v items c :
  (forall c, b1 c = b2 c) -> c9_loop b1 k v items c = c9_loop b2 k v items c.
Proof.
  intro Hb. unfold c9_loop. generalize (ev_rret [] c). generalize (Z.of_nat (length items)).
  generalize (combine (c9_zseq 0 (length items)) items). intros l; induction l as [|ix l IH]; intros n acc; cbn [fold_left].
  - reflexivity.
  - replace (c9_step b1 k v n acc ix) with (c9_step b2 k v n acc ix); [apply IH|].
    unfold c9_step. apply ev_rseq_ext. intro c0. symmetry. apply Hb.
Qed.

Lemma c9_for_loop_ext rend1 rend2 c k v seq body els :
  (forall c ns, rend1 c ns = rend2 c ns) -> c9_for_loop rend1 c k v seq body els = c9_for_loop rend2 c k v seq body els.
Proof.
  intro Hr. unfold c9_for_loop. destruct (c9_items seq) as [|it items].
  - destruct els; [apply Hr|reflexivity].
  - rewrite (c9_loop_ext (fun c0 => rend1 c0 body) (fun c0 => rend2 c0 body)); [reflexivity|].
    intro c0. apply Hr.
Qed.

Lemma c9_node_tb_ext tb1 tb2 ev rend1 rend2 root1 root2 env c n :
  (forall v, tb1 v = tb2 v) -> (forall c ns, rend1 c ns = rend2 c ns) -> (forall c ns, root1 c ns = root2 c ns) ->
  c9_node tb1 ev rend1 root1 env c n = c9_node tb2 ev rend2 root2 env c n.
Proof.
  intros Htb Hr Ht. destruct n; cbn [c9_node]; try reflexivity;
    try (apply render_node_ext; assumption).
  - apply c9_if_tb_ext; assumption.
  - unfold c9_for. apply ev_rexpr_ext. intro sv. apply c9_for_loop_ext. exact Hr.
Qed.

Lemma c9_render_tb_ext tb1 tb2 : (forall v, tb1 v = tb2 v) -> forall fuel,
  (forall env c ns, c9_render tb1 fuel env c ns = c9_render tb2 fuel env c ns) /\
  (forall env c ns, c9_render_root tb1 fuel env c ns = c9_render_root tb2 fuel env c ns).
Proof.
  intro Htb. induction fuel as [|fu [IHr IHt]]; split; intros env c ns; try reflexivity.
  - destruct ns as [|n rest]; [reflexivity|]. cbn [c9_render].
    rewrite (c9_node_tb_ext tb1 tb2 (eval fu env) (c9_render tb1 fu env) (c9_render tb2 fu env)
               (c9_render_root tb1 fu env) (c9_render_root tb2 fu env) env c n Htb (IHr env) (IHt env)).
    apply ev_rseq_ext. intro c1. apply IHr.
  - cbn [c9_render_root]. apply ev_root_ext; [apply IHr|apply IHt].
Qed.

(* once toBool treats a float64 by value, the renderer is the specification with the property's own table *)
Lemma C09_refines_table_spec_proof :
  evs_tobool_float_by_value = true ->
  forall fuel env name vars, render_template fuel env name vars = c9_render_template c9_truthy fuel env name vars.
Proof.
  intros E fuel env name vars. rewrite C09_refines_spec_template_proof.
  pose proof C09_truthiness_table_proof as T. rewrite E in T.
  unfold c9_render_template. destruct (ts_lookup env name); [|reflexivity].
  rewrite (proj2 (c9_render_tb_ext vo_to_bool c9_truthy T fuel)). reflexivity.
Qed.

(* ---------------------------------------------------------------- variables *)
Lemma rc_assoc_set_same {A} (l : list (bytes * A)) k v : assoc_bytes (rc_assoc_set l k v) k = Some v.
Proof.
  induction l as [|[k' v'] r IH]; cbn.
  - rewrite bytes_eqb_refl. reflexivity.
  - destruct (bytes_eqb k' k) eqn:E; cbn; rewrite E; [reflexivity|exact IH].
Qed.

Lemma rc_assoc_set_other {A} (l : list (bytes * A)) k k2 v : k <> k2 -> assoc_bytes (rc_assoc_set l k v) k2 = assoc_bytes l k2.
Proof.
  intro Hne. induction l as [|[k' v'] r IH]; cbn.
  - destruct (bytes_eqb k k2) eqn:E; [apply bytes_eqb_eq in E; contradiction|reflexivity].
  - destruct (bytes_eqb k' k) eqn:E; cbn.
    + apply bytes_eqb_eq in E. subst k'.
      destruct (bytes_eqb k k2) eqn:E2; [apply bytes_eqb_eq in E2; contradiction|reflexivity].
    + rewrite IH. reflexivity.
Qed.

Lemma rc_own_set_same c x v : rc_own_var (rc_set_var c x v) x = Some v.
Proof. unfold rc_own_var, rc_set_var, rc_with_vars. cbn. apply rc_assoc_set_same. Qed.
Lemma rc_own_set_other c x y v : x <> y -> rc_own_var (rc_set_var c x v) y = rc_own_var c y.
Proof. intro H. unfold rc_own_var, rc_set_var, rc_with_vars. cbn. apply rc_assoc_set_other. exact H. Qed.

Lemma rc_get_var_unfold c x :
  rc_get_var c x = match rc_own_var c x with
                   | Some v => v
                   | None => match rc_parent c with Some p => rc_get_var p x | None => VNull end
                   end.
Proof. destruct c. reflexivity. Qed.

(* a variable that has been set is read back, and no other variable changes *)
Lemma rc_get_set_same c x v : rc_get_var (rc_set_var c x v) x = v.
Proof. rewrite rc_get_var_unfold, rc_own_set_same. reflexivity. Qed.
Lemma rc_get_set_other c x y v : x <> y -> rc_get_var (rc_set_var c x v) y = rc_get_var c y.
Proof.
  intro H. rewrite (rc_get_var_unfold (rc_set_var c x v)), rc_own_set_other by exact H.
  rewrite (rc_get_var_unfold c y). destruct c. reflexivity.
Qed.

(* ---------------------------------------------------------------- counters *)
Lemma C09_counters_proof : forall i n,
  vo_get_attr (c9_counters i n) b#"index" = Ok (VInt (i + 1)) /\
  vo_get_attr (c9_counters i n) b#"index0" = Ok (VInt i) /\
  vo_get_attr (c9_counters i n) b#"revindex" = Ok (VInt (n - i)) /\
  vo_get_attr (c9_counters i n) b#"revindex0" = Ok (VInt (n - i - 1)) /\
  vo_get_attr (c9_counters i n) b#"first" = Ok (VBool (i =? 0)%Z) /\
  vo_get_attr (c9_counters i n) b#"last" = Ok (VBool (i =? n - 1)%Z) /\
  vo_get_attr (c9_counters i n) b#"length" = Ok (VInt n).
Proof. intros. repeat split; reflexivity. Qed.

(* the model's loop record and iteration context are the specification's *)
Lemma ev_loop_record_is_spec i n : ev_loop_record i n = c9_counters i n.
Proof. reflexivity. Qed.
Lemma ev_iter_ctx_is_spec c k v n i it : ev_iter_ctx c k v n i it = c9_iter_ctx c k v n i it.
Proof. reflexivity. Qed.

(* what an iteration sees *)
Lemma C09_iter_loop c k v n i it : rc_get_var (c9_iter_ctx c k v n i it) b#"loop" = c9_counters i n.
Proof. unfold c9_iter_ctx. apply rc_get_set_same. Qed.
Lemma C09_iter_own_loop c k v n i it : rc_own_var (c9_iter_ctx c k v n i it) b#"loop" = Some (c9_counters i n).
Proof. unfold c9_iter_ctx. apply rc_own_set_same. Qed.

Lemma C09_iter_value c k v n i it :
  v <> b#"loop" -> k <> Some v -> rc_get_var (c9_iter_ctx c k v n i it) v = snd it.
Proof.
  intros Hl Hk. unfold c9_iter_ctx. rewrite rc_get_set_other by congruence.
  destruct k as [kv|].
  - rewrite rc_get_set_other by congruence. apply rc_get_set_same.
  - apply rc_get_set_same.
Qed.

Lemma C09_iter_key c kv v n i it :
  kv <> b#"loop" -> rc_get_var (c9_iter_ctx c (Some kv) v n i it) kv = fst it.
Proof. intros Hl. unfold c9_iter_ctx. rewrite rc_get_set_other by congruence. apply rc_get_set_same. Qed.

(* every other variable is what the context carried into the iteration holds: assignments of earlier
   iterations (and of before the loop) are visible *)
Lemma C09_iter_frame c k v n i it y :
  y <> b#"loop" -> y <> v -> k <> Some y -> rc_get_var (c9_iter_ctx c k v n i it) y = rc_get_var c y.
Proof.
  intros Hl Hv Hk. unfold c9_iter_ctx. rewrite rc_get_set_other by congruence.
  destruct k as [kv|].
  - rewrite rc_get_set_other by congruence. rewrite rc_get_set_other by congruence. reflexivity.
  - rewrite rc_get_set_other by congruence. reflexivity.
Qed.

(* the j-th element (from 0) is rendered with position j *)
Lemma c9_numbering : forall (A : Type) (items : list A) start j it,
  nth_error items j = Some it ->
  nth_error (combine (c9_zseq start (length items)) items) j = Some ((start + Z.of_nat j)%Z, it).
Proof.
  induction items as [|x r IH]; intros start j it H.
  - destruct j; discriminate.
  - destruct j as [|j']; cbn in *.
    + inversion H; subst. rewrite Z.add_0_r. reflexivity.
    + rewrite (IH (start + 1)%Z j' it H). f_equal. f_equal. lia.
Qed.

(* ---------------------------------------------------------------- else, nesting *)
Lemma C09_else_when_empty_proof : forall rend c k v sv body els,
  c9_items sv = [] ->
  ev_for_loop rend c k v sv body els = match els with Some b => rend c b | None => ev_rret [] c end.
Proof. intros. rewrite ev_for_loop_is_spec. unfold c9_for_loop. rewrite H. reflexivity. Qed.

Lemma C09_loop_when_nonempty_proof : forall rend c k v sv body els,
  c9_items sv <> [] ->
  ev_for_loop rend c k v sv body els =
  (let '(r, c', t) := c9_loop (fun c0 => rend c0 body) k v (c9_items sv) c in (r, c9_restore c c', t)).
Proof.
  intros. rewrite ev_for_loop_is_spec. unfold c9_for_loop.
  destruct (c9_items sv) as [|it items]; [congruence|reflexivity].
Qed.

Lemma vo_insert_length {A} (lt : A -> A -> bool) x l : length (vo_insert lt x l) = S (length l).
Proof. induction l as [|y r IH]; cbn; [reflexivity|]. destruct (lt y x); cbn; [rewrite IH|]; reflexivity. Qed.
Lemma vo_sort_length {A} (lt : A -> A -> bool) l : length (vo_sort lt l) = length l.
Proof. unfold vo_sort. induction l as [|y r IH]; cbn [fold_right]; [reflexivity|]. rewrite vo_insert_length, IH. reflexivity. Qed.

Lemma c9_numbered_length xs : length (c9_numbered xs) = length xs.
Proof. unfold c9_numbered. rewrite combine_length, map_length, c9_zseq_length. lia. Qed.

(* the number of iterations: elements of a list, code points of a string, entries of a map *)
Lemma C09_items_length_proof : forall sv,
  length (c9_items sv) =
  match sv with
  | VList _ xs => length xs
  | VStr s => u8_count s
  | VMap _ kvs => length kvs
  | _ => 0
  end.
Proof.
  destruct sv; try reflexivity; cbn [c9_items].
  - rewrite c9_numbered_length, map_length. unfold u8_chars, u8_count. apply map_length.
  - apply c9_numbered_length.
  - apply vo_sort_length.
Qed.

(* nothing to iterate exactly for: an empty list, the empty string, an empty map, any other kind of value *)
Lemma C09_items_empty_iff_proof : forall sv,
  c9_items sv = [] <->
  match sv with
  | VList _ xs => xs = []
  | VStr s => s = []
  | VMap _ kvs => kvs = []
  | _ => True
  end.
Proof.
  intro sv. rewrite <- length_zero_iff_nil, C09_items_length_proof.
  destruct sv; try (split; [intros _; exact I|reflexivity]).
  - split; [|intros ->; reflexivity]. intro H. destruct s as [|b r]; [reflexivity|].
    pose proof (u8_count_pos (b :: r) ltac:(congruence)). lia.
  - apply length_zero_iff_nil.
  - apply length_zero_iff_nil.
Qed.

(* after a loop that iterated, the loop variable of the enclosing loop is back *)
Lemma C09_nested_loops_independent_proof : forall rend c k v sv body els r c' t L,
  rc_own_var c b#"loop" = Some L -> c9_items sv <> [] ->
  ev_for_loop rend c k v sv body els = (r, c', t) ->
  rc_own_var c' b#"loop" = Some L /\ rc_get_var c' b#"loop" = L.
Proof.
  intros rend c k v sv body els r c' t L HL Hne H.
  rewrite C09_loop_when_nonempty_proof in H by exact Hne.
  destruct (c9_loop _ k v (c9_items sv) c) as [[r0 c0] t0]. inversion H; subst.
  unfold c9_restore. rewrite HL. split; [apply rc_own_set_same|apply rc_get_set_same].
Qed.

(* the same for the whole for tag, rendered inside iteration i of n of an enclosing loop *)
Lemma C09_nested_for_node_proof : forall ev rend root env c0 ko vo n i it k v seq body els sv t0 r c' t,
  let c := c9_iter_ctx c0 ko vo n i it in
  ev_for_seq ev env c seq = (Ok sv, t0) -> c9_items sv <> [] ->
  render_node ev rend root env c (NFor k v seq body els) = (r, c', t) ->
  rc_get_var c' b#"loop" = c9_counters i n.
Proof.
  intros ev rend root env c0 ko vo n i it k v seq body els sv t0 r c' t c Hs Hne H.
  cbn [render_node] in H. unfold ev_for in H. rewrite Hs, ev_rexpr_ok in H.
  destruct (ev_for_loop rend c k v sv body els) as [[r1 c1] t1] eqn:E.
  cbn in H. inversion H; subst.
  eapply C09_nested_loops_independent_proof; [|exact Hne|exact E].
  apply C09_iter_own_loop.
Qed.

(* ---------------------------------------------------------------- set *)
Lemma ev_rseq_add_trace t r k : ev_rseq (c9_add_trace t r) k = c9_add_trace t (ev_rseq r k).
Proof.
  destruct r as [[o c] t1]. destruct o; cbn; try reflexivity.
  destruct (k c) as [[o2 c2] t2]. destruct o2; cbn; rewrite app_assoc; reflexivity.
Qed.

Lemma C09_set_visible_after_proof : forall fu env c x e rest v t,
  eval fu env c e = (Ok v, t) -> ev_set_guard c v = false ->
  render (S fu) env c (NSet x e :: rest) = c9_add_trace t (render fu env (rc_set_var c x v) rest) /\
  rc_get_var (rc_set_var c x v) x = v /\
  (forall y, x <> y -> rc_get_var (rc_set_var c x v) y = rc_get_var c y).
Proof.
  intros fu env c x e rest v t He Hg. split; [|split].
  - cbn [render render_node]. unfold ev_set. rewrite He, ev_rexpr_ok, Hg.
    rewrite ev_rseq_add_trace, ev_rseq_ret_l. reflexivity.
  - apply rc_get_set_same.
  - intros y Hy. apply rc_get_set_other. exact Hy.
Qed.

(* ---------------------------------------------------------------- range *)
Lemma c9_zseq_shift {B} (f : Z -> B) start n :
  map f (c9_zseq (start + 1) n) = map (fun k => f (k + 1)%Z) (c9_zseq start n).
Proof. revert start; induction n as [|n IH]; intro start; cbn; [reflexivity|]. rewrite IH. reflexivity. Qed.

Lemma c9_range_count_pos_step i stop step :
  (0 < step)%Z -> (i <= stop)%Z ->
  c9_range_count (i + step) stop step = (c9_range_count i stop step - 1)%Z /\ (1 <= c9_range_count i stop step)%Z.
Proof.
  intros Hs Hi. unfold c9_range_count.
  destruct (Z.ltb_spec 0 step); [|lia].
  destruct (Z.leb_spec i stop); [|lia].
  pose proof (Z.div_pos (stop - i) step ltac:(lia) ltac:(lia)) as Hq.
  split; [|lia].
  destruct (Z.leb_spec (i + step) stop).
  - replace (stop - (i + step))%Z with ((stop - i) + (-1) * step)%Z by lia.
    rewrite Z.div_add by lia. lia.
  - rewrite (Z.div_small (stop - i) step) by lia. lia.
Qed.

Lemma c9_range_count_neg_step i stop step :
  (step < 0)%Z -> (stop <= i)%Z ->
  c9_range_count (i + step) stop step = (c9_range_count i stop step - 1)%Z /\ (1 <= c9_range_count i stop step)%Z.
Proof.
  intros Hs Hi. unfold c9_range_count.
  destruct (Z.ltb_spec 0 step); [lia|].
  destruct (Z.ltb_spec step 0); [|lia].
  destruct (Z.leb_spec stop i); [|lia].
  pose proof (Z.div_pos (i - stop) (- step) ltac:(lia) ltac:(lia)) as Hq.
  split; [|lia].
  destruct (Z.leb_spec stop (i + step)).
  - replace (i + step - stop)%Z with ((i - stop) + (-1) * (- step))%Z by lia.
    rewrite Z.div_add by lia. lia.
  - rewrite (Z.div_small (i - stop) (- step)) by lia. lia.
Qed.

(* the loop of functionRange yields start, start+step, ... : the closed form *)
Lemma bi_range_loop_closed : forall n fuel i stop step,
  step <> 0%Z -> c9_range_count i stop step = Z.of_nat n -> (n <= fuel)%nat ->
  bi_range_loop fuel i stop step = map (fun k => (i + k * step)%Z) (c9_zseq 0 n).
Proof.
  induction n as [|n IH]; intros fuel i stop step Hs Hc Hf.
  - cbn [c9_zseq map]. destruct fuel as [|f]; [reflexivity|]. cbn [bi_range_loop].
    destruct (Z.ltb_spec 0 step).
    + destruct (Z.leb_spec i stop); [|reflexivity].
      pose proof (c9_range_count_pos_step i stop step ltac:(lia) ltac:(lia)). lia.
    + destruct (Z.leb_spec stop i); [|reflexivity].
      pose proof (c9_range_count_neg_step i stop step ltac:(lia) ltac:(lia)). lia.
  - destruct fuel as [|f]; [lia|]. cbn [bi_range_loop c9_zseq map].
    assert (Hin : (if (0 <? step)%Z then (i <=? stop)%Z else (stop <=? i)%Z) = true).
    { unfold c9_range_count in Hc.
      destruct (Z.ltb_spec 0 step).
      - destruct (Z.leb_spec i stop); [reflexivity|lia].
      - destruct (Z.ltb_spec step 0); [|lia]. destruct (Z.leb_spec stop i); [reflexivity|lia]. }
    rewrite Hin.
    assert (Hnext : c9_range_count (i + step) stop step = Z.of_nat n).
    { destruct (Z.ltb_spec 0 step).
      - apply Z.leb_le in Hin. pose proof (c9_range_count_pos_step i stop step ltac:(lia) Hin). lia.
      - apply Z.leb_le in Hin. pose proof (c9_range_count_neg_step i stop step ltac:(lia) Hin). lia. }
    rewrite (IH f (i + step)%Z stop step Hs Hnext ltac:(lia)).
    f_equal; [lia|].
    change 1%Z with (0 + 1)%Z. rewrite c9_zseq_shift. apply map_ext. intro k. lia.
Qed.

Lemma c9_range_count_bounds a b s : s <> 0%Z ->
  (0 <= c9_range_count a b s <= Z.abs (b - a) + 1)%Z.
Proof.
  intro Hs. unfold c9_range_count.
  destruct (Z.ltb_spec 0 s).
  - destruct (Z.leb_spec a b); [|lia].
    pose proof (Z.div_pos (b - a) s ltac:(lia) ltac:(lia)).
    assert ((b - a) / s <= b - a)%Z by (apply Z.div_le_upper_bound; nia). lia.
  - destruct (Z.ltb_spec s 0); [|lia].
    destruct (Z.leb_spec b a); [|lia].
    pose proof (Z.div_pos (a - b) (- s) ltac:(lia) ltac:(lia)).
    assert ((a - b) / (- s) <= a - b)%Z by (apply Z.div_le_upper_bound; nia). lia.
Qed.

Lemma bi_range_is_spec a b s :
  s <> 0%Z -> (Z.abs (b - a) <= bi_range_limit)%Z ->
  bi_range a b s = Ok (VList LAny (map VInt (c9_range a b s))).
Proof.
  intros Hs Hl. unfold bi_range.
  destruct (Z.eqb_spec s 0); [contradiction|].
  destruct (Z.ltb_spec bi_range_limit (Z.abs (b - a))); [lia|].
  pose proof (c9_range_count_bounds a b s Hs) as [H0 H1].
  unfold c9_range.
  rewrite (bi_range_loop_closed (Z.to_nat (c9_range_count a b s))); [reflexivity|exact Hs|lia|lia].
Qed.

(* which numbers a range holds: start + k*step for k = 0, 1, ... as long as the end is not passed *)
Lemma c9_zseq_In start n x : In x (c9_zseq start n) <-> (start <= x < start + Z.of_nat n)%Z.
Proof.
  revert start; induction n as [|n IH]; intro start; cbn [c9_zseq In].
  - lia.
  - rewrite IH. lia.
Qed.

Lemma c9_range_In_proof : forall a b s x, s <> 0%Z ->
  (In x (c9_range a b s) <->
   exists k, (0 <= k)%Z /\ x = (a + k * s)%Z /\ (if (0 <? s)%Z then (x <= b)%Z else (b <= x)%Z)).
Proof.
  intros a b s x Hs. unfold c9_range. rewrite in_map_iff.
  pose proof (c9_range_count_bounds a b s Hs) as [H0 _].
  split.
  - intros [k [Hx Hk]]. apply c9_zseq_In in Hk. rewrite Z2Nat.id in Hk by lia.
    exists k. split; [lia|]. split; [lia|]. subst x.
    unfold c9_range_count in Hk.
    destruct (Z.ltb_spec 0 s).
    + destruct (Z.leb_spec a b); [|lia].
      pose proof (Z.mul_div_le (b - a) s ltac:(lia)). nia.
    + destruct (Z.ltb_spec s 0); [|lia]. destruct (Z.leb_spec b a); [|lia].
      pose proof (Z.mul_div_le (a - b) (- s) ltac:(lia)). nia.
  - intros [k [Hk [Hx Hb]]]. exists k. split; [lia|]. apply c9_zseq_In. rewrite Z2Nat.id by lia.
    subst x. unfold c9_range_count.
    destruct (Z.ltb_spec 0 s).
    + destruct (Z.leb_spec a b); [|nia].
      assert (k <= (b - a) / s)%Z by (apply Z.div_le_lower_bound; nia). lia.
    + destruct (Z.ltb_spec s 0); [|lia]. destruct (Z.leb_spec b a); [|nia].
      assert (k <= (a - b) / (- s))%Z by (apply Z.div_le_lower_bound; nia). lia.
Qed.

(* the registered function: range(a, b, s), range(a, b) = range(a, b, 1), range(b) = range(0, b, 1); step 0 is an error *)
Lemma C09_range_elements_proof : forall a b s,
  vo_in_range a = true -> vo_in_range b = true -> vo_in_range s = true -> (Z.abs (b - a) <= bi_range_limit)%Z ->
  (s <> 0%Z -> apply_builtin_function b#"range" [VInt a; VInt b; VInt s] = Ok (VList LAny (map VInt (c9_range a b s)))) /\
  (s = 0%Z -> apply_builtin_function b#"range" [VInt a; VInt b; VInt s] = Err EOther) /\
  apply_builtin_function b#"range" [VInt a; VInt b] = Ok (VList LAny (map VInt (c9_range a b 1))).
Proof.
  intros a b s Ha Hb Hs Hl.
  assert (D3 : apply_builtin_function b#"range" [VInt a; VInt b; VInt s] = bi_range a b s).
  { change (apply_builtin_function b#"range" [VInt a; VInt b; VInt s])
      with (bi_ints_of [VInt a; VInt b; VInt s] (fun zs => match zs with [s0; e; st] => bi_range s0 e st | _ => Unmodelled end)).
    unfold bi_ints_of, vo_to_int. cbn [vo_view]. rewrite Ha, Hb, Hs. reflexivity. }
  assert (D2 : apply_builtin_function b#"range" [VInt a; VInt b] = bi_range a b 1).
  { change (apply_builtin_function b#"range" [VInt a; VInt b])
      with (bi_ints_of [VInt a; VInt b] (fun zs => match zs with [s0; e] => bi_range s0 e 1 | _ => Unmodelled end)).
    unfold bi_ints_of, vo_to_int. cbn [vo_view]. rewrite Ha, Hb. reflexivity. }
  split; [|split].
  - intro Hne. rewrite D3. apply bi_range_is_spec; assumption.
  - intro H0. rewrite D3. subst s. reflexivity.
  - rewrite D2. apply bi_range_is_spec; [lia|assumption].
Qed.

Lemma C09_range_one_arg_proof : forall b,
  vo_in_range b = true -> (Z.abs b <= bi_range_limit)%Z ->
  apply_builtin_function b#"range" [VInt b] = Ok (VList LAny (map VInt (c9_range 0 b 1))).
Proof.
  intros b Hb Hl.
  change (apply_builtin_function b#"range" [VInt b])
    with (bi_ints_of [VInt b] (fun zs => match zs with [e] => bi_range 0 e 1 | _ => Unmodelled end)).
  unfold bi_ints_of, vo_to_int. cbn [vo_view]. rewrite Hb. cbn [rev app].
  apply bi_range_is_spec; [lia|]. rewrite Z.sub_0_r. exact Hl.
Qed.


(* ---------------------------------------------------------------- the statements at the level of a rendered tag *)
Lemma C09_if_first_truthy_proof : forall fu env c pre cond body post els vts v t,
  c9_falsy_prefix vo_to_bool (eval fu env) c pre vts ->
  eval fu env c cond = (Ok v, t) -> vo_to_bool v = true ->
  render_node (eval fu env) (render fu env) (render_root fu env) env c (NIf (pre ++ (cond, body) :: post) els)
  = c9_add_trace (concat (map snd vts) ++ t) (render fu env c body).
Proof.
  intros. cbn [render_node]. rewrite ev_if_is_spec. eapply c9_if_first_truthy; eassumption.
Qed.

Lemma C09_if_all_falsy_proof : forall fu env c bs els vts,
  c9_falsy_prefix vo_to_bool (eval fu env) c bs vts ->
  render_node (eval fu env) (render fu env) (render_root fu env) env c (NIf bs els)
  = c9_add_trace (concat (map snd vts))
                 (match els with Some b => render fu env c b | None => ev_rret [] c end).
Proof.
  intros. cbn [render_node]. rewrite ev_if_is_spec. apply c9_if_all_falsy. assumption.
Qed.

Lemma C09_if_condition_fails_proof : forall fu env c pre cond body post els vts o t,
  c9_falsy_prefix vo_to_bool (eval fu env) c pre vts ->
  eval fu env c cond = (o, t) -> (forall v, o <> Ok v) ->
  render_node (eval fu env) (render fu env) (render_root fu env) env c (NIf (pre ++ (cond, body) :: post) els)
  = (ev_cast o Unmodelled, c, concat (map snd vts) ++ t).
Proof.
  intros. cbn [render_node]. rewrite ev_if_is_spec. eapply c9_if_condition_fails; eassumption.
Qed.

Lemma C09_for_refines_spec_proof : forall ev rend root env c k v seq body els,
  render_node ev rend root env c (NFor k v seq body els) = c9_for ev rend env c k v seq body els.
Proof.
  intros. cbn [render_node]. unfold ev_for, c9_for. apply ev_rexpr_ext. intro sv. apply ev_for_loop_is_spec.
Qed.

(* a for tag over a sequence value: the left fold of the specification *)
Lemma C09_for_over_value_proof : forall ev rend root env c k v seq body els sv t0,
  ev_for_seq ev env c seq = (Ok sv, t0) ->
  render_node ev rend root env c (NFor k v seq body els) =
  c9_add_trace t0
    (match c9_items sv with
     | [] => match els with Some b => rend c b | None => ev_rret [] c end
     | items => let '(r, c', t) := c9_loop (fun c0 => rend c0 body) k v items c in (r, c9_restore c c', t)
     end).
Proof.
  intros. rewrite C09_for_refines_spec_proof. unfold c9_for. rewrite H, ev_rexpr_ok. reflexivity.
Qed.

(* one more element at the front: its iteration first, with position i, then the rest from position i+1 in the
   context that iteration left *)
Lemma c9_fold_cons body k v n i it rest acc :
  fold_left (c9_step body k v n) (combine (c9_zseq i (length (it :: rest))) (it :: rest)) acc =
  fold_left (c9_step body k v n) (combine (c9_zseq (i + 1) (length rest)) rest)
            (ev_rseq acc (fun c => body (c9_iter_ctx c k v n i it))).
Proof. reflexivity. Qed.

Lemma C09_items_of_range_proof : forall a b s,
  c9_items (VList LAny (map VInt (c9_range a b s))) = c9_numbered (map VInt (c9_range a b s)).
Proof. reflexivity. Qed.

Lemma C09_for_sequences_proof :
  (forall t xs, c9_items (VList t xs) = c9_numbered xs) /\
  (forall s, c9_items (VStr s) = c9_numbered (map VStr (u8_chars s))) /\
  (forall a b s, c9_items (VList LAny (map VInt (c9_range a b s))) = c9_numbered (map VInt (c9_range a b s))) /\
  (forall A (items : list A) start j it, nth_error items j = Some it ->
     nth_error (combine (c9_zseq start (length items)) items) j = Some ((start + Z.of_nat j)%Z, it)).
Proof. repeat split; try reflexivity. exact c9_numbering. Qed.

Lemma C09_iteration_bindings_proof : forall c k v n i it,
  rc_get_var (c9_iter_ctx c k v n i it) b#"loop" = c9_counters i n /\
  (v <> b#"loop" -> k <> Some v -> rc_get_var (c9_iter_ctx c k v n i it) v = snd it) /\
  (forall kv, k = Some kv -> kv <> b#"loop" -> rc_get_var (c9_iter_ctx c k v n i it) kv = fst it) /\
  (forall y, y <> b#"loop" -> y <> v -> k <> Some y -> rc_get_var (c9_iter_ctx c k v n i it) y = rc_get_var c y).
Proof.
  intros. split; [apply C09_iter_loop|]. split; [apply C09_iter_value|]. split.
  - intros kv -> H. apply C09_iter_key. exact H.
  - intros. apply C09_iter_frame; assumption.
Qed.

Lemma C09_else_iff_empty_proof : forall rend c k v sv body els,
  (c9_items sv = [] ->
     ev_for_loop rend c k v sv body els = match els with Some b => rend c b | None => ev_rret [] c end) /\
  (c9_items sv <> [] ->
     ev_for_loop rend c k v sv body els =
     (let '(r, c', t) := c9_loop (fun c0 => rend c0 body) k v (c9_items sv) c in (r, c9_restore c c', t))).
Proof. intros. split; [apply C09_else_when_empty_proof|apply C09_loop_when_nonempty_proof]. Qed.

(* helpers of the non-vacuity examples of Properties/C09.v *)
Definition c09_env (ns : list node) : ev_env := MkEnv [(b#"t", ns)] [] [] [] None.
Definition c09_out (ns : list node) (vars : list (bytes * value)) : outcome bytes :=
  fst (render_template 60 (c09_env ns) b#"t" vars).

(* ---------------------------------------------------------------- end to end: the counters as a template prints them *)
Lemma ev_sandbox_denies_attr env c o a : ev_sandbox_denies env c (EAttr o a) = false.
Proof. unfold ev_sandbox_denies. destruct (rc_sandboxed c), (e_policy env); reflexivity. Qed.
Lemma ev_sandbox_denies_var env c x : ev_sandbox_denies env c (EVar x) = false.
Proof. unfold ev_sandbox_denies. destruct (rc_sandboxed c), (e_policy env); reflexivity. Qed.

(* a counter of the loop variable, read by an expression *)
Lemma eval_loop_attr fu env c f :
  rc_get_macro c b#"loop" = None ->
  eval (S (S fu)) env c (EAttr (EVar b#"loop") f) = (vo_get_attr (rc_get_var c b#"loop") f, []).
Proof.
  intro Hm. cbn [eval]. unfold ev_expr at 1. rewrite ev_sandbox_denies_attr.
  unfold ev_expr. rewrite ev_sandbox_denies_var.
  replace (ev_var_macro c b#"loop") with (@None (bytes * bytes))
    by (unfold ev_var_macro; rewrite Hm; destruct (rc_own_var c b#"loop"); reflexivity).
  change (rc_hack_name b#"loop") with false. cbn [ev_ret ev_bind ev_lift].
  destruct (vo_get_attr (rc_get_var c b#"loop") f); reflexivity.
Qed.

Lemma rc_get_macro_set_var c x v y : rc_get_macro (rc_set_var c x v) y = rc_get_macro c y.
Proof. destruct c. reflexivity. Qed.

Lemma rc_get_macro_iter c k v n i it y : rc_get_macro (c9_iter_ctx c k v n i it) y = rc_get_macro c y.
Proof.
  unfold c9_iter_ctx. rewrite rc_get_macro_set_var. destruct k; rewrite !rc_get_macro_set_var; reflexivity.
Qed.

(* the body [loop.index ,] *)
Definition c9_index_probe : list node := [NPrint (EAttr (EVar b#"loop") b#"index"); NText b#","].

Lemma c9_index_probe_renders fu env c i n :
  rc_get_macro c b#"loop" = None -> rc_get_var c b#"loop" = c9_counters i n ->
  render (S (S (S (S fu)))) env c c9_index_probe = (Ok (vo_itoa (i + 1) ++ b#","), c, []).
Proof.
  intros Hm Hl. unfold c9_index_probe.
  cbn [render render_node]. unfold ev_print. rewrite eval_loop_attr by exact Hm. rewrite Hl.
  change (vo_get_attr (c9_counters i n) b#"index") with (@Ok value (VInt (i + 1))).
  rewrite ev_rexpr_ok. cbn [vo_view vo_to_str vo_fmt]. cbn [ev_rret c9_add_trace ev_rseq app].
  rewrite app_nil_r. reflexivity.
Qed.

Lemma c9_probe_loop fu env k v n : forall items i c,
  rc_get_macro c b#"loop" = None ->
  exists c', ev_loop_items (fun c0 => render (S (S (S (S fu)))) env c0 c9_index_probe) k v n i items c =
             (Ok (concat (map (fun j => vo_itoa (j + 1) ++ b#",") (c9_zseq i (length items)))), c', []) /\
             rc_get_macro c' b#"loop" = None.
Proof.
  induction items as [|it rest IH]; intros i c Hm; cbn [ev_loop_items length c9_zseq map concat].
  - exists c. split; [reflexivity|exact Hm].
  - rewrite ev_iter_ctx_is_spec.
    rewrite (c9_index_probe_renders fu env (c9_iter_ctx c k v n i it) i n);
      [|rewrite rc_get_macro_iter; exact Hm|apply C09_iter_loop].
    destruct (IH (i + 1)%Z (c9_iter_ctx c k v n i it)) as [c' [E Hm']]; [rewrite rc_get_macro_iter; exact Hm|].
    exists c'. split; [|exact Hm'].
    cbn [ev_rseq]. rewrite E. reflexivity.
Qed.

(* a loop over any list of n elements whose body prints loop.index and a comma prints 1,2,...,n, *)
Lemma C09_counters_rendered_proof : forall fu env c k v t xs,
  rc_get_macro c b#"loop" = None -> xs <> [] ->
  exists c', ev_for_loop (render (S (S (S (S fu)))) env) c k v (VList t xs) c9_index_probe None =
             (Ok (concat (map (fun j => vo_itoa (j + 1) ++ b#",") (c9_zseq 0 (length xs)))), c', []).
Proof.
  intros fu env c k v t xs Hm Hne.
  assert (Hitems : c9_items (VList t xs) <> []).
  { intro H. apply C09_items_empty_iff_proof in H. contradiction. }
  rewrite C09_loop_when_nonempty_proof by exact Hitems.
  rewrite <- ev_loop_is_spec.
  destruct (c9_probe_loop fu env k v (Z.of_nat (length (c9_items (VList t xs)))) (c9_items (VList t xs)) 0 c Hm) as [c' [E _]].
  rewrite E. rewrite C09_items_length_proof. eexists. reflexivity.
Qed.
